(** Proofs for C16 about Stats/Order.v, Stats/StatsBuilderModel.v, Stats/PruneModel.v, Stats/PageIndexModel.v. *)
From Coq Require Import ZArith NArith List Bool Arith Lia.
From Carquet Require Import Gen.Enums_gen Gen.Stats_gen Stats.Order Stats.StatsBuilderModel Stats.PruneModel Stats.PageIndexModel.
Import ListNotations.
Local Open Scope Z_scope.

Arguments Z.add : simpl never.
Arguments Z.sub : simpl never.
Arguments Z.of_nat : simpl never.
Arguments N.mul : simpl never.
Arguments N.add : simpl never.
Arguments N.pow : simpl never.
Arguments BUF : simpl never.
Arguments WBUF : simpl never.
Arguments le_val : simpl never.
Arguments firstn : simpl never.

(** ------------------------------------------------------------------------------------------------
    Part 1: three-way comparisons that are total preorders *)

Record preorder {V : Type} (cmp : V -> V -> Z) : Prop := {
  po_range : forall a b, cmp a b = -1 \/ cmp a b = 0 \/ cmp a b = 1;
  po_antisym : forall a b, cmp a b = - cmp b a;
  po_trans : forall a b c, cmp a b <= 0 -> cmp b c <= 0 -> cmp a c <= 0 }.

Lemma cmp3_cases : forall a b, (a < b /\ cmp3 a b = -1) \/ (a = b /\ cmp3 a b = 0) \/ (b < a /\ cmp3 a b = 1).
Proof.
  intros a b. unfold cmp3.
  destruct (Z.ltb_spec a b); [left; auto|].
  destruct (Z.ltb_spec b a); [right; right; auto|].
  right; left. split; [lia|reflexivity].
Qed.

Lemma preorder_key : forall V (key : V -> Z), preorder (fun a b => cmp3 (key a) (key b)).
Proof.
  intros V key. constructor.
  - intros a b. destruct (cmp3_cases (key a) (key b)) as [[_ H]|[[_ H]|[_ H]]]; rewrite H; auto.
  - intros a b. destruct (cmp3_cases (key a) (key b)) as [[A H]|[[A H]|[A H]]];
      destruct (cmp3_cases (key b) (key a)) as [[B H']|[[B H']|[B H']]]; rewrite H, H'; lia.
  - intros a b c.
    destruct (cmp3_cases (key a) (key b)) as [[A H]|[[A H]|[A H]]];
      destruct (cmp3_cases (key b) (key c)) as [[B H']|[[B H']|[B H']]];
      destruct (cmp3_cases (key a) (key c)) as [[C H'']|[[C H'']|[C H'']]]; rewrite H, H', H''; lia.
Qed.

Definition lex {V} (c1 c2 : V -> V -> Z) (a b : V) : Z := if negb (c1 a b =? 0) then c1 a b else c2 a b.

Lemma preorder_lex : forall V (c1 c2 : V -> V -> Z), preorder c1 -> preorder c2 -> preorder (lex c1 c2).
Proof.
  intros V c1 c2 P1 P2. constructor.
  - intros a b. unfold lex. destruct (Z.eqb_spec (c1 a b) 0); cbn [negb]; [apply P2|apply P1].
  - intros a b. unfold lex. pose proof (po_antisym _ P1 a b) as A1. pose proof (po_antisym _ P2 a b) as A2.
    destruct (Z.eqb_spec (c1 a b) 0); destruct (Z.eqb_spec (c1 b a) 0); cbn [negb]; lia.
  - intros a b c. unfold lex.
    pose proof (po_antisym _ P1 a b) as Aab. pose proof (po_antisym _ P1 b c) as Abc. pose proof (po_antisym _ P1 a c) as Aac.
    pose proof (po_trans _ P1 a b c) as T1. pose proof (po_trans _ P1 c b a) as T2.
    pose proof (po_trans _ P1 b c a) as T3. pose proof (po_trans _ P1 c a b) as T4.
    pose proof (po_antisym _ P1 c b) as Acb. pose proof (po_antisym _ P1 b a) as Aba. pose proof (po_antisym _ P1 c a) as Aca.
    pose proof (po_trans _ P2 a b c) as U.
    destruct (Z.eqb_spec (c1 a b) 0); destruct (Z.eqb_spec (c1 b c) 0); destruct (Z.eqb_spec (c1 a c) 0); cbn [negb]; lia.
Qed.

(** byte strings: the C comparison (memcmp over the common prefix, then lengths) is the structural
    lexicographic comparison *)
Fixpoint lexb (a b : bytes) : Z :=
  match a, b with
  | [], [] => 0
  | [], _ :: _ => -1
  | _ :: _, [] => 1
  | x :: a', y :: b' => if (x <? y)%N then -1 else if (y <? x)%N then 1 else lexb a' b'
  end.

Lemma bytes_cmp_lexb : forall a b, bytes_cmp a b = lexb a b.
Proof.
  induction a as [|x a IH]; intros [|y b].
  - reflexivity.
  - reflexivity.
  - reflexivity.
  - unfold bytes_cmp. cbn [length Nat.min memcmp_sign lexb].
    destruct (x <? y)%N; [reflexivity|]. destruct (y <? x)%N; [reflexivity|].
    specialize (IH b). unfold bytes_cmp in IH. rewrite <- IH.
    destruct (memcmp_sign a b (Nat.min (length a) (length b)) =? 0); [|reflexivity].
    unfold cmp3. rewrite !Nat2Z.inj_succ.
    destruct (Z.ltb_spec (Z.of_nat (length a)) (Z.of_nat (length b)));
      destruct (Z.ltb_spec (Z.succ (Z.of_nat (length a))) (Z.succ (Z.of_nat (length b)))); try lia; try reflexivity.
    destruct (Z.ltb_spec (Z.of_nat (length b)) (Z.of_nat (length a)));
      destruct (Z.ltb_spec (Z.succ (Z.of_nat (length b))) (Z.succ (Z.of_nat (length a)))); try lia; reflexivity.
Qed.

Lemma preorder_lexb : preorder lexb.
Proof.
  constructor.
  - induction a as [|x a IH]; intros [|y b]; cbn [lexb]; auto.
    destruct (x <? y)%N; auto. destruct (y <? x)%N; auto.
  - induction a as [|x a IH]; intros [|y b]; cbn [lexb]; try reflexivity.
    destruct (N.ltb_spec x y); destruct (N.ltb_spec y x); try lia; try reflexivity. apply IH.
  - induction a as [|x a IH]; intros [|y b] [|z c]; cbn [lexb]; try lia.
    destruct (N.ltb_spec x y); destruct (N.ltb_spec y x); destruct (N.ltb_spec y z); destruct (N.ltb_spec z y);
      destruct (N.ltb_spec x z); destruct (N.ltb_spec z x); try lia. apply IH.
Qed.

Lemma preorder_bytes_cmp : preorder bytes_cmp.
Proof.
  pose proof preorder_lexb as P. constructor; intros; rewrite ?bytes_cmp_lexb; [apply P|apply P|].
  rewrite bytes_cmp_lexb in *. eapply (po_trans _ P); eassumption.
Qed.

(** the order of every physical type is a total preorder (on all byte strings) *)
Lemma preorder_ord : forall t, preorder (ord t).
Proof.
  intros []; unfold ord.
  - apply (preorder_key _ (fun v => Z.of_N (le_val (firstn 1 v)))).
  - apply (preorder_key _ (fun v => sgn 32 (le_val (firstn 4 v)))).
  - apply (preorder_key _ (fun v => sgn 64 (le_val (firstn 8 v)))).
  - apply (preorder_lex _ (fun a b => cmp3 (Z.of_N (le_val (firstn 4 (skipn (4 * 2) a)))) (Z.of_N (le_val (firstn 4 (skipn (4 * 2) b)))))
                        (lex (fun a b => cmp3 (Z.of_N (le_val (firstn 4 (skipn (4 * 1) a)))) (Z.of_N (le_val (firstn 4 (skipn (4 * 1) b)))))
                             (fun a b => cmp3 (Z.of_N (le_val (firstn 4 (skipn (4 * 0) a)))) (Z.of_N (le_val (firstn 4 (skipn (4 * 0) b))))))).
    + apply (preorder_key _ (fun v => Z.of_N (le_val (firstn 4 (skipn (4 * 2) v))))).
    + apply preorder_lex.
      * apply (preorder_key _ (fun v => Z.of_N (le_val (firstn 4 (skipn (4 * 1) v))))).
      * apply (preorder_key _ (fun v => Z.of_N (le_val (firstn 4 (skipn (4 * 0) v))))).
  - apply (preorder_key _ (fun v => fkey32 (le_val (firstn 4 v)))).
  - apply (preorder_key _ (fun v => fkey64 (le_val (firstn 8 v)))).
  - apply preorder_bytes_cmp.
  - apply preorder_bytes_cmp.
Qed.

(** consequences used everywhere below *)
Section PreorderFacts.
  Context {V : Type} (cmp : V -> V -> Z) (P : preorder cmp).

  Lemma po_refl : forall a, cmp a a = 0.
  Proof. intro a. pose proof (po_antisym _ P a a). lia. Qed.

  Lemma po_lt_le_trans : forall a b c, cmp a b < 0 -> cmp b c <= 0 -> cmp a c < 0.
  Proof.
    intros a b c H1 H2. pose proof (po_antisym _ P a c). pose proof (po_antisym _ P a b).
    pose proof (po_trans _ P b c a). pose proof (po_antisym _ P c a). lia.
  Qed.

  Lemma po_le_lt_trans : forall a b c, cmp a b <= 0 -> cmp b c < 0 -> cmp a c < 0.
  Proof.
    intros a b c H1 H2. pose proof (po_antisym _ P a c). pose proof (po_antisym _ P b c).
    pose proof (po_trans _ P c a b). pose proof (po_antisym _ P c a). pose proof (po_antisym _ P c b). lia.
  Qed.
End PreorderFacts.

(** ------------------------------------------------------------------------------------------------
    Part 2: what the code's comparators compute *)

(** a stored value of a fixed-width type has at least the type's width (numeric comparators read that many bytes) *)
Definition wf_val (t : ptype) (v : bytes) : Prop :=
  match width t with Some k => (k <= length v)%nat | None => True end.

Lemma rd_ok : forall k v, (k <= length v)%nat -> rd k v = SOk (le_val (firstn k v)).
Proof. intros k v H. unfold rd. apply Nat.leb_le in H. rewrite H. reflexivity. Qed.

Definition is_float (t : ptype) : bool := match t with TFloat | TDouble => true | _ => false end.

Lemma val_nan_nonfloat : forall t v, is_float t = false -> val_nan t v = false.
Proof. intros [] v H; try discriminate; reflexivity. Qed.

(** R, M and P agree with the type's order on well-formed non-NaN operands *)
Lemma fcmp_R_ord : forall nan key a b, nan a = false -> nan b = false -> fcmp_R nan key a b = cmp3 (key a) (key b).
Proof.
  intros nan key a b Ha Hb. unfold fcmp_R, flt, feq. rewrite Ha, Hb. cbn [negb andb].
  destruct (cmp3_cases (key a) (key b)) as [[A H]|[[A H]|[A H]]]; rewrite H.
  - apply Z.ltb_lt in A. rewrite A. reflexivity.
  - rewrite A, Z.ltb_irrefl, Z.eqb_refl. reflexivity.
  - assert (B : (key a <? key b) = false) by (apply Z.ltb_ge; lia). rewrite B.
    apply Z.ltb_lt in A. rewrite A. reflexivity.
Qed.

Lemma fcmp_R_nan : forall nan key a b, nan a = true \/ nan b = true -> fcmp_R nan key a b = UNORDERED.
Proof.
  intros nan key a b H. unfold fcmp_R, flt, feq.
  destruct H as [H|H]; rewrite H; cbn [negb andb]; rewrite ?andb_false_r; reflexivity.
Qed.

Lemma fcmp_M_ord : forall nan key a b, nan a = false -> nan b = false -> fcmp_M nan key a b = cmp3 (key a) (key b).
Proof. intros nan key a b Ha Hb. unfold fcmp_M. rewrite Ha, Hb. reflexivity. Qed.

Lemma compare_R_ord : forall t a b, t <> TBoolean -> t <> TInt96 -> wf_val t a -> wf_val t b ->
  val_nan t a = false -> val_nan t b = false -> compare_R t a b = SOk (ord t a b).
Proof.
  intros [] a b H1 H2 Wa Wb Na Nb; try congruence; unfold wf_val in *; cbn [width] in *;
    cbn [compare_R ord]; unfold cmp_int, cmp_float_with; rewrite ?(rd_ok _ _ Wa), ?(rd_ok _ _ Wb); cbn [bind]; try reflexivity.
  - cbn [val_nan] in Na, Nb. rewrite (fcmp_R_ord _ _ _ _ Na Nb). reflexivity.
  - cbn [val_nan] in Na, Nb. rewrite (fcmp_R_ord _ _ _ _ Na Nb). reflexivity.
Qed.

Lemma compare_R_nan : forall t a b, is_float t = true -> wf_val t a -> wf_val t b ->
  val_nan t a = true \/ val_nan t b = true -> compare_R t a b = SOk UNORDERED.
Proof.
  intros [] a b Hf Wa Wb Hn; try discriminate; unfold wf_val in *; cbn [width] in *;
    cbn [compare_R]; unfold cmp_float_with; rewrite (rd_ok _ _ Wa), (rd_ok _ _ Wb); cbn [bind];
    cbn [val_nan] in Hn; rewrite (fcmp_R_nan _ _ _ _ Hn); reflexivity.
Qed.

Lemma compare_M_ord : forall t a b, wf_val t a -> wf_val t b ->
  val_nan t a = false -> val_nan t b = false -> compare_M t a b = SOk (ord t a b).
Proof.
  intros [] a b Wa Wb Na Nb; unfold wf_val in *; cbn [width] in *;
    cbn [compare_M ord]; unfold cmp_int, cmp_uint8, cmp_float_with, cmp_int96;
    rewrite ?(rd_ok _ _ Wa), ?(rd_ok _ _ Wb); cbn [bind]; try reflexivity.
  - cbn [val_nan] in Na, Nb. rewrite (fcmp_M_ord _ _ _ _ Na Nb). reflexivity.
  - cbn [val_nan] in Na, Nb. rewrite (fcmp_M_ord _ _ _ _ Na Nb). reflexivity.
Qed.

(** ------------------------------------------------------------------------------------------------
    Part 3: the operator table never discards a row group that holds a matching value *)

(** x OP probe in terms of a three-way comparison *)
Definition sat_c (o : cmp_op) (c : Z) : bool :=
  match o with
  | OpEq => c =? 0 | OpNe => negb (c =? 0) | OpLt => c <? 0 | OpLe => c <=? 0 | OpGt => 0 <? c | OpGe => 0 <=? c
  end.

Lemma sat_ordered : forall t o x p, val_nan t x = false -> val_nan t p = false -> sat t o x p = sat_c o (ord t x p).
Proof. intros t o x p Hx Hp. unfold sat. rewrite Hx, Hp. destruct o; reflexivity. Qed.

Lemma op_codes : forall o,
  op_table = op_table /\
  match o with
  | OpEq => op_code o = E_CARQUET_COMPARE_EQ | OpNe => op_code o = E_CARQUET_COMPARE_NE
  | OpLt => op_code o = E_CARQUET_COMPARE_LT | OpLe => op_code o = E_CARQUET_COMPARE_LE
  | OpGt => op_code o = E_CARQUET_COMPARE_GT | OpGe => op_code o = E_CARQUET_COMPARE_GE
  end.
Proof. intros []; split; reflexivity. Qed.

Section Table.
  Context {V : Type} (cmp : V -> V -> Z) (P : preorder cmp).

  (** a value v between mn and mx that satisfies  v OP p  survives the table applied to cmp(p, mn), cmp(p, mx) *)
  Lemma op_table_sound : forall t o mn mx v p,
    cmp mn v <= 0 -> cmp v mx <= 0 -> sat_c o (cmp v p) = true ->
    op_table t (op_code o) (cmp p mn) (cmp p mx) = true.
  Proof.
    intros t o mn mx v p Hlo Hhi Hs.
    pose proof (po_antisym _ P v p) as Avp. pose proof (po_antisym _ P p mn) as Apmn. pose proof (po_antisym _ P p mx) as Apmx.
    pose proof (po_trans _ P mn v p) as T1. pose proof (po_trans _ P p v mx) as T2.
    pose proof (po_trans _ P p mn v) as T3. pose proof (po_trans _ P v mx p) as T4.
    pose proof (po_antisym _ P mn p) as Amnp. pose proof (po_antisym _ P mx p) as Amxp.
    pose proof (po_antisym _ P p v) as Apv.
    pose proof (po_range _ P p mn) as R1. pose proof (po_range _ P p mx) as R2.
    destruct o; cbn [sat_c] in Hs; unfold op_table, op_code;
      change E_CARQUET_COMPARE_EQ with 0; change E_CARQUET_COMPARE_NE with 1; change E_CARQUET_COMPARE_LT with 2;
      change E_CARQUET_COMPARE_LE with 3; change E_CARQUET_COMPARE_GT with 4; change E_CARQUET_COMPARE_GE with 5;
      cbn [Z.eqb Pos.eqb].
    - apply Z.eqb_eq in Hs. apply negb_true_iff. apply orb_false_iff. split; [apply Z.ltb_ge|apply Z.ltb_ge]; lia.
    - apply negb_true_iff in Hs. apply Z.eqb_neq in Hs.
      apply negb_true_iff. apply andb_false_iff. left. apply andb_false_iff.
      destruct (Z.eqb_spec (cmp p mn) 0); [|left; reflexivity]. right. apply Z.eqb_neq. lia.
    - apply Z.ltb_lt in Hs. apply negb_true_iff. apply Z.leb_gt. lia.
    - apply Z.leb_le in Hs. apply negb_true_iff. apply Z.ltb_ge. lia.
    - apply Z.ltb_lt in Hs. apply negb_true_iff. apply Z.leb_gt. lia.
    - apply Z.leb_le in Hs. apply negb_true_iff. apply Z.ltb_ge. lia.
  Qed.
End Table.

(** the six physical types the reader API is specified for *)
Definition reader_type (t : ptype) : Prop :=
  t = TInt32 \/ t = TInt64 \/ t = TFloat \/ t = TDouble \/ t = TByteArray \/ t = TFlba.

(** "true bounds": when min/max are present they are well-formed, not NaN, and bound every non-NaN value
    of the row group in the type's order (IEEE order for floats; NaN values are not bounded by anything) *)
Definition true_bounds (t : ptype) (cs : cstats) (data : list bytes) : Prop :=
  cs_has_min_max cs = true ->
  wf_val t (cs_min cs) /\ wf_val t (cs_max cs) /\ val_nan t (cs_min cs) = false /\ val_nan t (cs_max cs) = false /\
  forall v, In v data -> val_nan t v = false -> ord t (cs_min cs) v <= 0 /\ ord t v (cs_max cs) <= 0.

Lemma unordered_ne : forall t a b, ord t a b <> UNORDERED.
Proof. intros t a b. pose proof (po_range _ (preorder_ord t) a b). unfold UNORDERED. lia. Qed.

Theorem matches_stats_sound : forall t cs data o probe,
  reader_type t -> wf_val t probe -> true_bounds t cs data ->
  (exists v, In v data /\ sat t o v probe = true) ->
  matches_stats t cs (op_code o) probe = SOk true.
Proof.
  intros t cs data o probe Ht Wp TB (v & Hin & Hs).
  unfold matches_stats. destruct (cs_has_min_max cs) eqn:Hmm; cbn [negb]; [|reflexivity].
  destruct (TB Hmm) as (Wmn & Wmx & Nmn & Nmx & Hb).
  assert (Hnb : t <> TBoolean /\ t <> TInt96) by (destruct Ht as [|[|[|[|[|]]]]]; subst; split; discriminate).
  destruct Hnb as [Hnb1 Hnb2].
  destruct (val_nan t probe) eqn:Np.
  - (* NaN probe: unordered, cannot filter *)
    assert (Hf : is_float t = true) by (destruct t; try discriminate Np; reflexivity).
    rewrite (compare_R_nan t probe (cs_min cs) Hf Wp Wmn (or_introl Np)). cbn [bind].
    rewrite (compare_R_nan t probe (cs_max cs) Hf Wp Wmx (or_introl Np)). cbn [bind].
    reflexivity.
  - rewrite (compare_R_ord t probe (cs_min cs) Hnb1 Hnb2 Wp Wmn Np Nmn). cbn [bind].
    rewrite (compare_R_ord t probe (cs_max cs) Hnb1 Hnb2 Wp Wmx Np Nmx). cbn [bind].
    assert (E1 : (ord t probe (cs_min cs) =? UNORDERED) = false) by (apply Z.eqb_neq; apply unordered_ne).
    assert (E2 : (ord t probe (cs_max cs) =? UNORDERED) = false) by (apply Z.eqb_neq; apply unordered_ne).
    rewrite E1, E2. cbn [orb]. f_equal.
    destruct (val_nan t v) eqn:Nv.
    + (* a NaN row satisfies only != ; on float columns != never filters *)
      assert (Hf : is_float t = true) by (destruct t; try discriminate Nv; reflexivity).
      unfold sat in Hs. rewrite Nv in Hs. cbn [orb negb andb] in Hs.
      destruct o; try discriminate Hs.
      unfold op_table, op_code.
      change E_CARQUET_COMPARE_EQ with 0; change E_CARQUET_COMPARE_NE with 1. cbn [Z.eqb Pos.eqb].
      destruct t; try discriminate Hf; rewrite andb_false_r; reflexivity.
    + destruct (Hb v Hin Nv) as [Hlo Hhi].
      rewrite (sat_ordered t o v probe Nv Np) in Hs.
      exact (op_table_sound (ord t) (preorder_ord t) t o (cs_min cs) (cs_max cs) v probe Hlo Hhi Hs).
Qed.

Example true_bounds_nontrivial :
  (* FLOAT row group {1.0, NaN, -0.0} with min = -0.0, max = 1.0; the probe +0.0 equals -0.0 *)
  let one := [0; 0; 128; 63]%N in let nan := [0; 0; 192; 127]%N in let mzero := [0; 0; 0; 128]%N in
  let cs := mkCS true true 0 3 mzero one in
  true_bounds TFloat cs [one; nan; mzero] /\
  sat TFloat OpEq mzero [0; 0; 0; 0]%N = true /\
  matches_stats TFloat cs (op_code OpEq) [0; 0; 0; 0]%N = SOk true.
Proof.
  cbv zeta. split; [|split; vm_compute; reflexivity].
  intros _.
  split; [vm_compute; lia|]. split; [vm_compute; lia|].
  split; [vm_compute; reflexivity|]. split; [vm_compute; reflexivity|].
  intros v [<-|[<-|[<-|[]]]] Hn.
  - split; vm_compute; discriminate.
  - vm_compute in Hn. discriminate Hn.
  - split; vm_compute; discriminate.
Qed.

(** ------------------------------------------------------------------------------------------------
    Part 4: reader level - row_group_matches and filter_row_groups *)

Definition col_type (r : rdr) (col : Z) : ptype :=
  match nth_z (r_leaf_types r) col with Some (Some t) => t | _ => TByteArray end.

(** prune_sound: a row group whose statistics are true bounds and which holds a value satisfying the predicate is
    reported as "might match" (status OK) - for all six operators and all six reader-side types *)
Theorem prune_sound_thm : forall r rg col cs data o probe,
  reader_type (col_type r col) -> wf_val (col_type r col) probe ->
  column_statistics r rg col = SOk cs -> true_bounds (col_type r col) cs data ->
  (exists v, In v data /\ sat (col_type r col) o v probe = true) ->
  row_group_matches r rg col (op_code o) probe = SOk (E_CARQUET_OK, true).
Proof.
  intros r rg col cs data o probe Ht Wp Hcs TB Hex.
  unfold row_group_matches. rewrite Hcs. fold (col_type r col).
  rewrite (matches_stats_sound _ cs data o probe Ht Wp TB Hex). reflexivity.
Qed.

(** absent statistics (no metadata, no Statistics struct, or not both bounds in either field pair) always mean
    "might match"; so does every error status *)
Theorem absent_stats_match_thm : forall r rg col op probe,
  (forall cs, column_statistics r rg col = SOk cs -> cs_has_min_max cs = false) ->
  exists st, row_group_matches r rg col op probe = SOk (st, true).
Proof.
  intros r rg col op probe H. unfold row_group_matches.
  destruct (column_statistics r rg col) as [cs|c|f] eqn:E.
  - specialize (H cs eq_refl). unfold matches_stats. rewrite H. cbn [negb bind]. eexists. reflexivity.
  - eexists. reflexivity.
  - exfalso. (* column_statistics never faults *)
    unfold column_statistics in E.
    destruct (nth_z (r_row_groups r) rg); [|discriminate].
    destruct ((col <? 0) || (Z.of_nat (length (r_leaf_types r)) <=? col)); [discriminate|].
    destruct (nth_z l col); [|discriminate].
    destruct (negb (ch_has_metadata c)); [discriminate|].
    destruct (ch_stats c); [|discriminate].
    destruct (nonempty (ps_min_value p)), (nonempty (ps_max_value p)); try discriminate;
      destruct (nonempty (ps_min_deprecated p)), (nonempty (ps_max_deprecated p)); discriminate.
Qed.

(** which fields column_statistics hands out: the new pair when both are present and non-empty, otherwise the
    deprecated pair when both are present and non-empty, otherwise none *)
Theorem column_statistics_fields_thm : forall r rg col cols ch ps,
  nth_z (r_row_groups r) rg = Some cols -> (0 <= col < Z.of_nat (length (r_leaf_types r))) ->
  nth_z cols col = Some ch -> ch_has_metadata ch = true -> ch_stats ch = Some ps ->
  exists cs, column_statistics r rg col = SOk cs /\ cs_num_values cs = ch_num_values ch /\
    cs_has_null_count cs = ps_has_null_count ps /\ (ps_has_null_count ps = true -> cs_null_count cs = ps_null_count ps) /\
    match nonempty (ps_min_value ps), nonempty (ps_max_value ps) with
    | Some mn, Some mx => cs_has_min_max cs = true /\ cs_min cs = mn /\ cs_max cs = mx
    | _, _ =>
      match nonempty (ps_min_deprecated ps), nonempty (ps_max_deprecated ps) with
      | Some mn, Some mx => cs_has_min_max cs = true /\ cs_min cs = mn /\ cs_max cs = mx
      | _, _ => cs_has_min_max cs = false
      end
    end.
Proof.
  intros r rg col cols ch ps H1 H2 H3 H4 H5. unfold column_statistics. rewrite H1.
  assert (E : ((col <? 0) || (Z.of_nat (length (r_leaf_types r)) <=? col)) = false).
  { apply orb_false_iff. split; [apply Z.ltb_ge|apply Z.leb_gt]; lia. }
  rewrite E, H3, H4, H5. cbn [negb].
  destruct (nonempty (ps_min_value ps)), (nonempty (ps_max_value ps));
    try (destruct (nonempty (ps_min_deprecated ps)), (nonempty (ps_max_deprecated ps)));
    eexists; (split; [reflexivity|]); cbn [cs_num_values cs_has_null_count cs_null_count cs_has_min_max cs_min cs_max];
    repeat split; try reflexivity; intro Hn; rewrite Hn; reflexivity.
Qed.

Lemma rd_not_err : forall k v c, rd k v <> SErr c.
Proof. intros k v c. unfold rd. destruct (Nat.leb k (length v)); discriminate. Qed.

Lemma compare_R_not_err : forall t a b c, compare_R t a b <> SErr c.
Proof.
  intros t a b c. destruct t; cbn [compare_R]; unfold cmp_int, cmp_float_with; try discriminate;
    (destruct (rd _ a) eqn:Ea; [|exfalso; exact (rd_not_err _ _ _ Ea)|discriminate]);
    (destruct (rd _ b) eqn:Eb; [|exfalso; exact (rd_not_err _ _ _ Eb)|discriminate]); discriminate.
Qed.

Lemma matches_stats_not_err : forall t cs op value c, matches_stats t cs op value <> SErr c.
Proof.
  intros t cs op value c. unfold matches_stats. destruct (negb (cs_has_min_max cs)); [discriminate|].
  destruct (compare_R t value (cs_min cs)) as [c1| |] eqn:E1; [|exfalso; exact (compare_R_not_err _ _ _ _ E1)|discriminate].
  destruct (compare_R t value (cs_max cs)) as [c2| |] eqn:E2; [|exfalso; exact (compare_R_not_err _ _ _ _ E2)|discriminate].
  cbn [bind]. destruct ((c1 =? UNORDERED) || (c2 =? UNORDERED)); discriminate.
Qed.

(** the decision filter_row_groups takes for row group i *)
Definition might (r : rdr) (col op : Z) (value : bytes) (i : Z) : bool :=
  match row_group_matches r i col op value with
  | SOk (st, m) => if st =? E_CARQUET_OK then m else true
  | _ => true
  end.

Definition no_fault (r : rdr) (col op : Z) (value : bytes) : Prop :=
  forall i f, row_group_matches r i col op value <> SFault f.

Lemma filter_loop_spec : forall r col op value mx n i acc,
  no_fault r col op value -> Z.of_nat (length acc) <= mx ->
  filter_loop r col op value mx i n acc =
    SOk (rev acc ++ firstn (Z.to_nat (mx - Z.of_nat (length acc)))
                           (filter (might r col op value) (map (fun k => i + Z.of_nat k) (seq 0 n)))).
Proof.
  intros r col op value mx. induction n as [|n IH]; intros i acc NF Hacc.
  - cbn [filter_loop seq map filter]. rewrite firstn_nil, app_nil_r. reflexivity.
  - cbn [filter_loop].
    destruct (Z.leb_spec mx (Z.of_nat (length acc))).
    + replace (mx - Z.of_nat (length acc)) with 0 by lia. cbn [Z.to_nat]. rewrite firstn_O, app_nil_r. reflexivity.
    + cbn [seq map filter]. rewrite Z.add_0_r.
      assert (Hm : map (fun k => i + Z.of_nat k) (seq 1 n) = map (fun k => (i + 1) + Z.of_nat k) (seq 0 n)).
      { rewrite <- seq_shift, map_map. apply map_ext. intro k. lia. }
      rewrite Hm.
      unfold might at 1.
      destruct (row_group_matches r i col op value) as [[st m]|c|f] eqn:E; cbn [bind].
      * cbn [fst snd].
        destruct (if st =? E_CARQUET_OK then m else true) eqn:Em.
        -- rewrite IH by (try assumption; cbn [length]; lia).
           cbn [rev length]. rewrite <- app_assoc. cbn [app].
           replace (Z.to_nat (mx - Z.of_nat (length acc))) with (S (Z.to_nat (mx - Z.of_nat (S (length acc))))) by lia.
           reflexivity.
        -- rewrite IH by (try assumption; lia). reflexivity.
      * (* row_group_matches never returns SErr: errors are reported through the status *)
        exfalso. unfold row_group_matches in E.
        destruct (column_statistics r i col) as [cs0| |]; try discriminate.
        destruct (matches_stats _ cs0 op value) eqn:E2; try discriminate.
        exact (matches_stats_not_err _ _ _ _ _ E2).
      * exfalso. exact (NF i f E).
Qed.

(** filter_exact: the ascending list of might-match row groups capped at max_indices; -1 for max_indices <= 0 *)
Theorem filter_exact_thm : forall r col op value max_indices,
  no_fault r col op value ->
  filter_row_groups r col op value max_indices =
    SOk (if max_indices <=? 0 then None
         else Some (firstn (Z.to_nat max_indices)
                           (filter (might r col op value) (map Z.of_nat (seq 0 (length (r_row_groups r))))))).
Proof.
  intros r col op value mx NF. unfold filter_row_groups.
  destruct (Z.leb_spec mx 0); [reflexivity|].
  rewrite (filter_loop_spec r col op value mx (length (r_row_groups r)) 0 [] NF) by (cbn [length]; lia).
  cbn [bind rev app length]. rewrite Z.sub_0_r. reflexivity.
Qed.

(** the hypothesis of filter_exact holds whenever every present min/max of the column is at least as wide as the type *)
Lemma matches_stats_no_fault : forall t cs op value,
  t <> TBoolean -> wf_val t value -> (cs_has_min_max cs = true -> wf_val t (cs_min cs) /\ wf_val t (cs_max cs)) ->
  forall f, matches_stats t cs op value <> SFault f.
Proof.
  intros t cs op value Hnb Wv Wcs f. unfold matches_stats.
  destruct (cs_has_min_max cs); cbn [negb]; [|discriminate].
  destruct (Wcs eq_refl) as [Wa Wb].
  assert (G : forall a b, wf_val t a -> wf_val t b -> exists c, compare_R t a b = SOk c).
  { intros a b Ha Hb. destruct t; try congruence; unfold wf_val in Ha, Hb; cbn [width] in Ha, Hb; cbn [compare_R];
      unfold cmp_int, cmp_float_with; rewrite ?(rd_ok _ _ Ha), ?(rd_ok _ _ Hb); cbn [bind]; eexists; reflexivity. }
  destruct (G value (cs_min cs) Wv Wa) as [c1 E1]. destruct (G value (cs_max cs) Wv Wb) as [c2 E2].
  rewrite E1, E2. cbn [bind]. destruct ((c1 =? UNORDERED) || (c2 =? UNORDERED)); discriminate.
Qed.

(** ------------------------------------------------------------------------------------------------
    Part 5: the statistics builder *)

Definition fits (v : bytes) : Prop := (length v <= BUF)%nat.

(** invariant of the builder after the values [seen] (since the last reset) *)
Definition binv (t : ptype) (b : sbuilder) (seen : list bytes) : Prop :=
  sb_type b = t /\ sb_has_min b = sb_has_max b /\
  (sb_has_min b = true ->
     fits (sb_min b) /\ fits (sb_max b) /\ wf_val t (sb_min b) /\ wf_val t (sb_max b) /\
     val_nan t (sb_min b) = false /\ val_nan t (sb_max b) = false /\
     forall v, In v seen -> val_nan t v = false -> fits v -> ord t (sb_min b) v <= 0 /\ ord t v (sb_max b) <= 0) /\
  (sb_has_min b = false -> forall v, In v seen -> fits v -> val_nan t v = true) /\
  (sb_invalid b = false -> forall v, In v seen -> fits v).

Ltac six := (split; [assumption|]); (split; [assumption|]); (split; [assumption|]); (split; [assumption|]);
            (split; [assumption|]); (split; [assumption|]).

Definition same_counts (b b' : sbuilder) : Prop :=
  sb_type b' = sb_type b /\ sb_type_length b' = sb_type_length b /\ sb_null_count b' = sb_null_count b /\
  sb_num_values b' = sb_num_values b.

Lemma store_fits : forall v, fits v -> store BUF v = SOk v.
Proof. intros v H. unfold store. apply Nat.leb_le in H. rewrite H. reflexivity. Qed.

(** the common core of one loop iteration: v is well-formed, fits and is not NaN; c is the type's order *)
Lemma minmax_step : forall t b seen v,
  binv t b seen -> wf_val t v -> fits v -> val_nan t v = false ->
  let cmin := if sb_has_min b then ord t v (sb_min b) else 0 in
  let cmax := if sb_has_max b then ord t v (sb_max b) else 0 in
  let mn := if negb (sb_has_min b) || (cmin <? 0) then v else sb_min b in
  let mx := if negb (sb_has_max b) || (0 <? cmax) then v else sb_max b in
  binv t (mkSB (sb_type b) (sb_type_length b) true true (sb_null_count b) (sb_num_values b) mn mx (sb_invalid b)) (v :: seen).
Proof.
  intros t b seen v (Ht & Hmm & Hb & Hn & Hi) Wv Fv Nv. cbv zeta.
  pose proof (preorder_ord t) as P.
  unfold binv. cbn [sb_type sb_has_min sb_has_max sb_min sb_max sb_invalid].
  split; [exact Ht|]. split; [reflexivity|]. split; [|split].
  - intros _. rewrite <- Hmm.
    destruct (sb_has_min b) eqn:Hh; cbn [negb orb].
    + destruct (Hb eq_refl) as (F1 & F2 & W1 & W2 & N1 & N2 & B).
      pose proof (po_antisym _ P v (sb_min b)) as A1. pose proof (po_antisym _ P v (sb_max b)) as A2.
      pose proof (po_refl _ P v) as Rv.
      destruct (Z.ltb_spec (ord t v (sb_min b)) 0) as [L1|L1]; destruct (Z.ltb_spec 0 (ord t v (sb_max b))) as [L2|L2];
        six;
        intros w [<-|Hw] Nw Fw; try (destruct (B w Hw Nw Fw) as [B1 B2]);
        try (pose proof (po_trans _ P v (sb_min b) w)); try (pose proof (po_trans _ P w (sb_max b) v)); lia.
    + six. intros w [<-|Hw] Nw Fw; [rewrite (po_refl _ P); lia|]. specialize (Hn eq_refl w Hw Fw). congruence.
  - discriminate.
  - intros Hinv w [<-|Hw]; [exact Fv|]. exact (Hi Hinv w Hw).
Qed.

Lemma add_value_step_ok : forall t b seen v,
  binv t b seen -> wf_val t v -> fits v ->
  exists b', add_value_step b v = SOk b' /\ binv t b' (v :: seen) /\ same_counts b b' /\ sb_invalid b' = sb_invalid b.
Proof.
  intros t b seen v Hinv Wv Fv.
  pose proof Hinv as (Ht & Hmm & Hb & Hn & Hi). subst t.
  unfold add_value_step.
  destruct (val_nan (sb_type b) v) eqn:Nv.
  - exists b. split; [reflexivity|]. split; [|split; [repeat split|reflexivity]].
    unfold binv. split; [reflexivity|]. split; [exact Hmm|]. split; [|split].
    + intros Hh. destruct (Hb Hh) as (F1 & F2 & W1 & W2 & N1 & N2 & B). six.
      intros w [<-|Hw] Nw Fw; [congruence|]. exact (B w Hw Nw Fw).
    + intros Hh w [<-|Hw] Fw; [exact Nv|exact (Hn Hh w Hw Fw)].
    + intros Hv w [<-|Hw]; [exact Fv|exact (Hi Hv w Hw)].
  - pose proof (minmax_step (sb_type b) b seen v Hinv Wv Fv Nv) as Hstep. cbv zeta in Hstep.
    rewrite <- Hmm in *.
    destruct (sb_has_min b) eqn:Hh.
    + destruct (Hb eq_refl) as (F1 & F2 & W1 & W2 & N1 & N2 & B).
      rewrite (compare_M_ord (sb_type b) v (sb_min b) Wv W1 Nv N1). cbn [bind].
      rewrite (compare_M_ord (sb_type b) v (sb_max b) Wv W2 Nv N2). cbn [bind].
      cbn [negb orb] in Hstep |- *.
      destruct (ord (sb_type b) v (sb_min b) <? 0); destruct (0 <? ord (sb_type b) v (sb_max b)); rewrite ?(store_fits v Fv); cbn [bind];
        (eexists; split; [reflexivity|]; split; [exact Hstep|split; [repeat split|reflexivity]]).
    + cbn [bind negb orb] in Hstep |- *. rewrite (store_fits v Fv). cbn [bind].
      eexists; split; [reflexivity|]; split; [exact Hstep|split; [repeat split|reflexivity]].
Qed.

Lemma add_value_loop_ok : forall t vs b seen,
  binv t b seen -> (forall v, In v vs -> wf_val t v /\ fits v) ->
  exists b', add_value_loop b vs = SOk b' /\ binv t b' (rev vs ++ seen) /\ same_counts b b' /\ sb_invalid b' = sb_invalid b.
Proof.
  intros t. induction vs as [|v vs IH]; intros b seen Hinv Hvs.
  - exists b. split; [reflexivity|]. split; [exact Hinv|]. split; [repeat split|reflexivity].
  - cbn [add_value_loop].
    destruct (Hvs v (or_introl eq_refl)) as [Wv Fv].
    destruct (add_value_step_ok t b seen v Hinv Wv Fv) as (b1 & E1 & I1 & (C1 & C2 & C3 & C4) & V1).
    rewrite E1. cbn [bind].
    destruct (IH b1 (v :: seen) I1 (fun w Hw => Hvs w (or_intror Hw))) as (b2 & E2 & I2 & (D1 & D2 & D3 & D4) & V2).
    exists b2. split; [exact E2|]. split.
    + cbn [rev]. rewrite <- app_assoc. exact I2.
    + split; [repeat split; congruence|congruence].
Qed.

Lemma add_bytes_step_ok : forall b seen v,
  binv TByteArray b seen ->
  exists b', add_bytes_step b v = SOk b' /\ binv TByteArray b' (v :: seen) /\ same_counts b b' /\
             (sb_invalid b' = false -> sb_invalid b = false).
Proof.
  intros b seen v Hinv.
  pose proof Hinv as (Ht & Hmm & Hb & Hn & Hi).
  unfold add_bytes_step.
  destruct (Nat.ltb_spec BUF (length v)) as [Big|Small].
  - eexists. split; [reflexivity|]. split; [|split; [repeat split|cbn [sb_invalid]; discriminate]].
    unfold binv. cbn [sb_type sb_has_min sb_has_max sb_min sb_max sb_invalid].
    split; [exact Ht|]. split; [exact Hmm|]. split; [|split].
    + intros Hh. destruct (Hb Hh) as (F1 & F2 & W1 & W2 & N1 & N2 & B). six.
      intros w [<-|Hw] Nw Fw; [unfold fits in Fw; lia|]. exact (B w Hw Nw Fw).
    + intros Hh w [<-|Hw] Fw; [unfold fits in Fw; lia|exact (Hn Hh w Hw Fw)].
    + discriminate.
  - assert (Fv : fits v) by exact Small.
    assert (Wv : wf_val TByteArray v) by exact I.
    pose proof (minmax_step TByteArray b seen v Hinv Wv Fv eq_refl) as Hstep. cbv zeta in Hstep.
    cbn [ord] in Hstep.
    destruct (negb (sb_has_min b) || ((if sb_has_min b then bytes_cmp v (sb_min b) else 0) <? 0));
      destruct (negb (sb_has_max b) || (0 <? (if sb_has_max b then bytes_cmp v (sb_max b) else 0)));
      rewrite ?(store_fits v Fv); cbn [bind];
      (eexists; split; [reflexivity|]; split; [exact Hstep|split; [repeat split|cbn [sb_invalid]; auto]]).
Qed.

Lemma add_bytes_loop_ok : forall vs b seen,
  binv TByteArray b seen ->
  exists b', add_bytes_loop b vs = SOk b' /\ binv TByteArray b' (rev vs ++ seen) /\ same_counts b b'.
Proof.
  induction vs as [|v vs IH]; intros b seen Hinv.
  - exists b. split; [reflexivity|]. split; [exact Hinv|repeat split].
  - cbn [add_bytes_loop].
    destruct (add_bytes_step_ok b seen v Hinv) as (b1 & E1 & I1 & (C1 & C2 & C3 & C4) & _).
    rewrite E1. cbn [bind].
    destruct (IH b1 (v :: seen) I1) as (b2 & E2 & I2 & (D1 & D2 & D3 & D4)).
    exists b2. split; [exact E2|]. split; [cbn [rev]; rewrite <- app_assoc; exact I2|repeat split; congruence].
Qed.

(** which calls record their values (status CARQUET_OK) *)
Definition accepts_values (t : ptype) (tlen : Z) (vs : list bytes) : bool :=
  negb (Nat.eqb (length vs) 0) && negb (Nat.eqb (value_size t tlen) 0).
Definition accepts_bytes (t : ptype) (vs : list bytes) : bool :=
  negb (Nat.eqb (length vs) 0) && match t with TByteArray => true | _ => false end.

(** the values recorded since the last reset and the nulls announced since then *)
Fixpoint seen_of (t : ptype) (tlen : Z) (ops : list sop) (seen : list bytes) (nulls : Z) : list bytes * Z :=
  match ops with
  | [] => (seen, nulls)
  | SAddValues vs :: rest => seen_of t tlen rest (if accepts_values t tlen vs then rev vs ++ seen else seen) nulls
  | SAddBytes vs :: rest => seen_of t tlen rest (if accepts_bytes t vs then rev vs ++ seen else seen) nulls
  | SAddNulls c :: rest => seen_of t tlen rest seen (nulls + c)
  | SReset :: rest => seen_of t tlen rest [] 0
  end.

(** the caller's array holds num_values slices of value_size bytes *)
Definition slices_ok (t : ptype) (tlen : Z) (ops : list sop) : Prop :=
  forall vs, In (SAddValues vs) ops -> forall v, In v vs -> length v = value_size t tlen.

Lemma wf_of_slice : forall t tlen v, length v = value_size t tlen -> wf_val t v.
Proof. intros [] tlen v H; unfold wf_val; cbn [width value_size] in *; try lia; exact I. Qed.

(** every invariant the oversize path needs: values that do not fit set the invalid flag *)
Lemma binv_oversize : forall t b seen vs, binv t b seen -> (forall v, In v vs -> ~ fits v) ->
  binv t (mkSB (sb_type b) (sb_type_length b) (sb_has_min b) (sb_has_max b) (sb_null_count b) (sb_num_values b + Z.of_nat (length vs))
              (sb_min b) (sb_max b) true) (rev vs ++ seen).
Proof.
  intros t b seen vs (Ht & Hmm & Hb & Hn & Hi) Hbig. unfold binv.
  cbn [sb_type sb_has_min sb_has_max sb_min sb_max sb_invalid].
  split; [exact Ht|]. split; [exact Hmm|]. split; [|split].
  - intros Hh. destruct (Hb Hh) as (F1 & F2 & W1 & W2 & N1 & N2 & B). six.
    intros w Hw Nw Fw. apply in_app_or in Hw. destruct Hw as [Hw|Hw];
      [apply in_rev in Hw; exfalso; exact (Hbig w Hw Fw)|exact (B w Hw Nw Fw)].
  - intros Hh w Hw Fw. apply in_app_or in Hw. destruct Hw as [Hw|Hw]; [apply in_rev in Hw; exfalso; exact (Hbig w Hw Fw)|exact (Hn Hh w Hw Fw)].
  - discriminate.
Qed.

Lemma binv_counts : forall t b seen n inv, binv t b seen -> (inv = sb_invalid b) ->
  binv t (with_count b n inv) seen.
Proof. intros t b seen n inv H ->. exact H. Qed.

Lemma run_sops_ok : forall t tlen ops b seen nulls acc,
  slices_ok t tlen ops -> binv t b seen -> sb_type_length b = tlen -> sb_null_count b = nulls ->
  exists b' sts, run_sops b ops acc = SOk (b', sts) /\
                 binv t b' (fst (seen_of t tlen ops seen nulls)) /\ sb_null_count b' = snd (seen_of t tlen ops seen nulls).
Proof.
  intros t tlen. induction ops as [|op ops IH]; intros b seen nulls acc Hs Hinv Hl Hnc.
  - exists b, (rev acc). split; [reflexivity|]. split; [exact Hinv|exact Hnc].
  - assert (Hs' : slices_ok t tlen ops) by (intros vs Hin; apply Hs; right; exact Hin).
    pose proof Hinv as (Ht & _).
    destruct op as [vs|vs|c|]; cbn [run_sops seen_of].
    + (* add_values *)
      unfold add_values, accepts_values. rewrite Ht, Hl.
      destruct (Nat.eqb (length vs) 0) eqn:E0; cbn [negb andb bind fst snd].
      { apply IH; assumption. }
      destruct (Nat.eqb (value_size t tlen) 0) eqn:E1; cbn [negb andb bind fst snd].
      { apply IH; assumption. }
      assert (Hlen : forall v, In v vs -> length v = value_size t tlen) by (apply Hs; left; reflexivity).
      destruct (Nat.ltb_spec BUF (value_size t tlen)) as [Big|Small]; cbn [bind fst snd].
      * apply IH; try assumption.
        apply binv_oversize; [exact Hinv|]. intros v Hv Fv. unfold fits in Fv. rewrite (Hlen v Hv) in Fv. lia.
      * destruct (add_value_loop_ok t vs b seen Hinv) as (b1 & E & I1 & (C1 & C2 & C3 & C4) & V1).
        { intros v Hv. split; [apply (wf_of_slice t tlen); apply Hlen; exact Hv|unfold fits; rewrite (Hlen v Hv); exact Small]. }
        rewrite E. cbn [bind fst snd].
        apply IH; try assumption; try (cbn [with_count sb_type_length sb_null_count]; congruence).
    + (* add_byte_arrays *)
      unfold add_byte_arrays, accepts_bytes. rewrite Ht.
      destruct (Nat.eqb (length vs) 0) eqn:E0; cbn [negb andb bind fst snd].
      { apply IH; assumption. }
      destruct t; cbn [bind fst snd]; try (apply IH; assumption).
      destruct (add_bytes_loop_ok vs b seen Hinv) as (b1 & E & I1 & (C1 & C2 & C3 & C4)).
      rewrite E. cbn [bind fst snd].
      apply IH; try assumption; try (cbn [with_count sb_type_length sb_null_count]; congruence).
    + (* add_nulls *)
      apply IH; try assumption; try reflexivity; try (cbn [add_nulls sb_null_count]; congruence).
    + (* reset *)
      apply IH; try assumption; try reflexivity.
      unfold builder_reset, binv. cbn [sb_type sb_has_min sb_has_max sb_min sb_max sb_invalid].
      split; [exact Ht|]. split; [reflexivity|]. split; [discriminate|]. split; intros _ v [].
Qed.

(** ** builder_bounds *)
Theorem builder_bounds_thm : forall t tlen ops, slices_ok t tlen ops ->
  exists b sts, run_sops (builder_create t tlen) ops [] = SOk (b, sts) /\
    let ps := build b in
    let seen := fst (seen_of t tlen ops [] 0) in
    ps_has_null_count ps = true /\ ps_null_count ps = snd (seen_of t tlen ops [] 0) /\
    (forall mn, ps_min_value ps = Some mn ->
       val_nan t mn = false /\ forall v, In v seen -> val_nan t v = false -> ord t mn v <= 0) /\
    (forall mx, ps_max_value ps = Some mx ->
       val_nan t mx = false /\ forall v, In v seen -> val_nan t v = false -> ord t v mx <= 0).
Proof.
  intros t tlen ops Hs.
  destruct (run_sops_ok t tlen ops (builder_create t tlen) [] 0 [] Hs) as (b & sts & E & Hinv & Hnc);
    try reflexivity.
  { unfold builder_create, binv. cbn [sb_type sb_has_min sb_has_max sb_min sb_max sb_invalid].
    split; [reflexivity|]. split; [reflexivity|]. split; [discriminate|]. split; intros _ v []. }
  exists b, sts. split; [exact E|]. cbv zeta.
  destruct Hinv as (Ht & Hmm & Hb & Hn & Hi).
  unfold build. cbn [ps_has_null_count ps_null_count ps_min_value ps_max_value].
  split; [reflexivity|]. split; [exact Hnc|].
  split.
  - intros mn Hmn. destruct (sb_has_min b) eqn:Hh; cbn [andb] in Hmn; [|discriminate].
    destruct (negb (Nat.eqb (length (sb_min b)) 0)); cbn [andb] in Hmn; [|discriminate].
    destruct (sb_invalid b) eqn:Hv; cbn [negb] in Hmn; [discriminate|]. injection Hmn as <-.
    destruct (Hb eq_refl) as (F1 & F2 & W1 & W2 & N1 & N2 & B).
    split; [exact N1|]. intros v Hv' Nv. exact (proj1 (B v Hv' Nv (Hi eq_refl v Hv'))).
  - intros mx Hmx. rewrite <- Hmm in Hmx. destruct (sb_has_min b) eqn:Hh; cbn [andb] in Hmx; [|discriminate].
    destruct (negb (Nat.eqb (length (sb_max b)) 0)); cbn [andb] in Hmx; [|discriminate].
    destruct (sb_invalid b) eqn:Hv; cbn [negb] in Hmx; [discriminate|]. injection Hmx as <-.
    destruct (Hb eq_refl) as (F1 & F2 & W1 & W2 & N1 & N2 & B).
    split; [exact N2|]. intros v Hv' Nv. exact (proj2 (B v Hv' Nv (Hi eq_refl v Hv'))).
Qed.

Example builder_bounds_nontrivial :
  (* FLOAT: NaN first, then 1.0, 10.0, -0.0; three nulls *)
  let ops := [SAddValues [[0; 0; 192; 127]; [0; 0; 128; 63]]%N; SAddNulls 3; SAddValues [[0; 0; 32; 65]; [0; 0; 0; 128]]%N] in
  slices_ok TFloat 0 ops /\
  exists b sts, run_sops (builder_create TFloat 0) ops [] = SOk (b, sts) /\
    ps_min_value (build b) = Some [0; 0; 0; 128]%N /\ ps_max_value (build b) = Some [0; 0; 32; 65]%N /\ ps_null_count (build b) = 3.
Proof.
  cbv zeta. split.
  - intros vs [E|[E|[E|[]]]] v Hv; try discriminate; injection E as <-; cbn [In] in Hv;
      destruct Hv as [<-|[<-|[]]]; reflexivity.
  - eexists _, _. split; [vm_compute; reflexivity|]. repeat split; vm_compute; reflexivity.
Qed.

Example builder_oversize_no_minmax :
  (* DESIGN section 6 F13: "a" and 300 x 'z' - min/max are withheld instead of max = "a" *)
  let ops := [SAddBytes [[97]; repeat 122 300]%N] in
  exists b sts, run_sops (builder_create TByteArray 0) ops [] = SOk (b, sts) /\
    ps_min_value (build b) = None /\ ps_max_value (build b) = None.
Proof. cbv zeta. eexists _, _. split; [vm_compute; reflexivity|]. split; vm_compute; reflexivity. Qed.

(** ------------------------------------------------------------------------------------------------
    Part 6: the page writer's running statistics *)

Lemma cmp3_ltb : forall a b, (cmp3 a b <? 0) = (a <? b).
Proof.
  intros a b. destruct (cmp3_cases a b) as [[A H]|[[A H]|[A H]]]; rewrite H.
  - symmetry. apply Z.ltb_lt. exact A.
  - subst. symmetry. apply Z.ltb_irrefl.
  - symmetry. apply Z.ltb_ge. lia.
Qed.

Lemma w_lt_ord : forall t a b, pw_tracks t = true -> val_nan t a = false -> val_nan t b = false ->
  w_lt t a b = (ord t a b <? 0).
Proof.
  intros [] a b Ht Na Nb; try discriminate Ht; cbn [w_lt ord]; rewrite cmp3_ltb; try reflexivity;
    cbn [val_nan] in Na, Nb; unfold flt; rewrite Na, Nb; reflexivity.
Qed.

Definition pinv (t : ptype) (w : pwriter) (seen : list bytes) : Prop :=
  pw_type w = t /\
  (pw_has_min_max w = true ->
     val_nan t (pw_min w) = false /\ val_nan t (pw_max w) = false /\
     forall v, In v seen -> val_nan t v = false -> ord t (pw_min w) v <= 0 /\ ord t v (pw_max w) <= 0) /\
  (pw_has_min_max w = false -> forall v, In v seen -> val_nan t v = true).

Lemma pw_step_ok : forall t w seen v, pw_tracks t = true -> pinv t w seen ->
  pinv t (pw_step w v) (v :: seen) /\ pw_num_nulls (pw_step w v) = pw_num_nulls w /\ pw_max_def (pw_step w v) = pw_max_def w.
Proof.
  intros t w seen v Htr (Ht & Hb & Hn). subst t.
  pose proof (preorder_ord (pw_type w)) as P.
  unfold pw_step. destruct (val_nan (pw_type w) v) eqn:Nv.
  - split; [|split; reflexivity]. unfold pinv. split; [reflexivity|]. split.
    + intros Hh. destruct (Hb Hh) as (N1 & N2 & B). split; [exact N1|]. split; [exact N2|].
      intros x [<-|Hx] Nx; [congruence|exact (B x Hx Nx)].
    + intros Hh x [<-|Hx]; [exact Nv|exact (Hn Hh x Hx)].
  - destruct (pw_has_min_max w) eqn:Hh; cbn [negb].
    + destruct (Hb eq_refl) as (N1 & N2 & B).
      split; [|split; reflexivity]. unfold pinv. cbn [pw_type pw_has_min_max pw_min pw_max].
      split; [reflexivity|]. split; [|discriminate]. intros _.
      rewrite (w_lt_ord _ v (pw_min w) Htr Nv N1), (w_lt_ord _ (pw_max w) v Htr N2 Nv).
      pose proof (po_antisym _ P v (pw_min w)) as A1. pose proof (po_antisym _ P v (pw_max w)) as A2.
      pose proof (po_refl _ P v) as Rv.
      destruct (Z.ltb_spec (ord (pw_type w) v (pw_min w)) 0) as [L1|L1];
        destruct (Z.ltb_spec (ord (pw_type w) (pw_max w) v) 0) as [L2|L2];
        (split; [assumption|]); (split; [assumption|]);
        intros x [<-|Hx] Nx; try (destruct (B x Hx Nx) as [B1 B2]);
        try (pose proof (po_trans _ P v (pw_min w) x)); try (pose proof (po_trans _ P x (pw_max w) v)); lia.
    + split; [|split; reflexivity]. unfold pinv. cbn [pw_type pw_has_min_max pw_min pw_max].
      split; [reflexivity|]. split; [|discriminate]. intros _.
      split; [exact Nv|]. split; [exact Nv|].
      intros x [<-|Hx] Nx; [rewrite (po_refl _ P); lia|]. specialize (Hn eq_refl x Hx). congruence.
Qed.

Lemma pw_fold_ok : forall t vs w seen, pw_tracks t = true -> pinv t w seen ->
  pinv t (fold_left pw_step vs w) (rev vs ++ seen) /\ pw_num_nulls (fold_left pw_step vs w) = pw_num_nulls w /\
  pw_max_def (fold_left pw_step vs w) = pw_max_def w.
Proof.
  intros t. induction vs as [|v vs IH]; intros w seen Htr Hinv.
  - split; [exact Hinv|split; reflexivity].
  - cbn [fold_left rev]. rewrite <- app_assoc.
    destruct (pw_step_ok t w seen v Htr Hinv) as (I1 & E1 & E2).
    destruct (IH (pw_step w v) (v :: seen) Htr I1) as (I2 & E3 & E4).
    split; [exact I2|split; congruence].
Qed.

(** a batch: the dense non-null values, num_values, the definition levels when given *)
Definition batch : Type := list bytes * Z * option (list Z).

Definition pw_run (t : ptype) (maxdef : Z) (bs : list batch) : pwriter :=
  fold_left (fun w (b : batch) => pw_add_values w (fst (fst b)) (snd (fst b)) (snd b)) bs (pw_create t maxdef).

(** nulls of a batch: rows whose definition level is below the maximum *)
Definition batch_nulls (maxdef : Z) (b : batch) : Z :=
  match snd b with
  | Some ds => if 0 <? maxdef then Z.of_nat (length (filter (fun d => negb (d =? maxdef)) ds)) else 0
  | None => 0
  end.

Lemma filter_split_length : forall A (f : A -> bool) l,
  (length (filter f l) + length (filter (fun x => negb (f x)) l) = length l)%nat.
Proof.
  intros A f l. induction l as [|x l IH]; [reflexivity|]. cbn [filter]. destruct (f x); cbn [negb length]; lia.
Qed.

Definition batches_ok (bs : list batch) : Prop :=
  forall b ds, In b bs -> snd b = Some ds -> Z.of_nat (length ds) = snd (fst b).

Lemma pw_run_inv : forall t maxdef bs w seen nulls,
  pw_tracks t = true -> batches_ok bs -> pinv t w seen -> pw_max_def w = maxdef -> pw_num_nulls w = nulls ->
  let w' := fold_left (fun w (b : batch) => pw_add_values w (fst (fst b)) (snd (fst b)) (snd b)) bs w in
  pinv t w' (rev (flat_map (fun b : batch => fst (fst b)) bs) ++ seen) /\
  pw_num_nulls w' = nulls + fold_right Z.add 0 (map (batch_nulls maxdef) bs).
Proof.
  intros t maxdef. induction bs as [|b bs IH]; intros w seen nulls Htr Hok Hinv Hmd Hn; cbv zeta.
  - cbn. split; [exact Hinv|lia].
  - cbn [fold_left flat_map map fold_right].
    destruct b as [[vals nv] defs]. cbn [fst snd].
    assert (Hok' : batches_ok bs) by (intros b0 ds0 Hin; apply Hok; right; exact Hin).
    destruct Hinv as (Ht & Hb & Hnn).
    assert (Htr' : pw_tracks (pw_type w) = true) by (rewrite Ht; exact Htr).
    set (nl := match defs with
               | Some ds => if 0 <? pw_max_def w then nv - Z.of_nat (length (filter (fun d => d =? pw_max_def w) ds)) else 0
               | None => 0 end).
    set (w1 := mkPW (pw_type w) (pw_max_def w) (pw_num_values w + nv) (pw_num_nulls w + nl) (pw_has_min_max w) (pw_min w) (pw_max w)).
    assert (Hadd : pw_add_values w vals nv defs = fold_left pw_step vals w1).
    { unfold pw_add_values. rewrite Htr'. reflexivity. }
    rewrite Hadd.
    assert (I1 : pinv t w1 seen) by (unfold pinv, w1; cbn [pw_type pw_has_min_max pw_min pw_max]; auto).
    destruct (pw_fold_ok t vals w1 seen Htr I1) as (I2 & E1 & E2).
    specialize (IH (fold_left pw_step vals w1) (rev vals ++ seen) (nulls + batch_nulls maxdef (vals, nv, defs)) Htr Hok' I2).
    cbv zeta in IH. destruct IH as (I3 & E3).
    + rewrite E2. exact Hmd.
    + rewrite E1. unfold w1. cbn [pw_num_nulls]. rewrite Hn. f_equal.
      unfold nl, batch_nulls. cbn [snd]. rewrite Hmd. destruct defs as [ds|]; [|reflexivity].
      destruct (0 <? maxdef); [|reflexivity].
      pose proof (Hok (vals, nv, Some ds) ds (or_introl eq_refl) eq_refl) as Hl. cbn [fst snd] in Hl.
      pose proof (filter_split_length _ (fun d => d =? maxdef) ds). lia.
    + split.
      * rewrite rev_app_distr, <- app_assoc. exact I3.
      * rewrite E3. lia.
Qed.

(** ** writer_page_stats_bounds *)
Theorem writer_page_stats_bounds_thm : forall t maxdef bs ps,
  pw_tracks t = true -> batches_ok bs -> pw_statistics (pw_run t maxdef bs) = Some ps ->
  let values := flat_map (fun b : batch => fst (fst b)) bs in
  ps_has_null_count ps = true /\ ps_null_count ps = fold_right Z.add 0 (map (batch_nulls maxdef) bs) /\
  exists mn mx, ps_min_value ps = Some mn /\ ps_max_value ps = Some mx /\
    val_nan t mn = false /\ val_nan t mx = false /\
    forall v, In v values -> val_nan t v = false -> ord t mn v <= 0 /\ ord t v mx <= 0.
Proof.
  intros t maxdef bs ps Htr Hok Hps. cbv zeta.
  destruct (pw_run_inv t maxdef bs (pw_create t maxdef) [] 0 Htr Hok) as (Hinv & Hn); try reflexivity.
  { unfold pinv, pw_create. cbn [pw_type pw_has_min_max]. split; [reflexivity|]. split; [discriminate|]. intros _ v []. }
  cbv zeta in Hinv, Hn. fold (pw_run t maxdef bs) in Hinv, Hn.
  unfold pw_statistics in Hps. destruct (pw_has_min_max (pw_run t maxdef bs)) eqn:Hh; [|discriminate].
  injection Hps as <-. cbn [ps_has_null_count ps_null_count ps_min_value ps_max_value].
  destruct Hinv as (_ & Hb & _). destruct (Hb Hh) as (N1 & N2 & B).
  split; [reflexivity|]. split; [rewrite Hn; lia|].
  eexists _, _. split; [reflexivity|]. split; [reflexivity|]. split; [exact N1|]. split; [exact N2|].
  intros v Hv Nv. apply B; [|exact Nv]. rewrite app_nil_r. apply in_rev in Hv. exact Hv.
Qed.

Example writer_nan_first :
  (* DESIGN section 6 F14: NaN as the first value no longer freezes min = max = NaN *)
  let bs : list batch := [([[0; 0; 192; 127]; [0; 0; 128; 63]; [0; 0; 160; 64]]%N, 4, Some [1; 1; 0; 1])] in
  batches_ok bs /\
  pw_statistics (pw_run TFloat 1 bs) = Some (mkPS true 1 (Some [0; 0; 128; 63]%N) (Some [0; 0; 160; 64]%N) None None).
Proof.
  cbv zeta. split; [|vm_compute; reflexivity].
  intros b ds [<-|[]] E. cbn [snd fst] in *. injection E as <-. reflexivity.
Qed.

(** ------------------------------------------------------------------------------------------------
    Part 7: compare / range-overlap / page-might-match have no false negatives *)

(** an optional bound (absent or empty = no bound) bounds the non-NaN data from below / above *)
Definition lower_ok (t : ptype) (mn : option bytes) (data : list bytes) : Prop :=
  forall m, nonempty mn = Some m ->
    wf_val t m /\ val_nan t m = false /\ forall v, In v data -> val_nan t v = false -> ord t m v <= 0.
Definition upper_ok (t : ptype) (mx : option bytes) (data : list bytes) : Prop :=
  forall m, nonempty mx = Some m ->
    wf_val t m /\ val_nan t m = false /\ forall v, In v data -> val_nan t v = false -> ord t v m <= 0.

Lemma sat_eq_inv : forall t v p, sat t OpEq v p = true -> val_nan t v = false /\ val_nan t p = false /\ ord t v p = 0.
Proof.
  intros t v p H. unfold sat in H. apply andb_true_iff in H. destruct H as [H1 H2].
  apply negb_true_iff in H1. apply orb_false_iff in H1. destruct H1. apply Z.eqb_eq in H2. auto.
Qed.
Lemma sat_le_inv : forall t v p, sat t OpLe v p = true -> val_nan t v = false /\ val_nan t p = false /\ ord t v p <= 0.
Proof.
  intros t v p H. unfold sat in H. apply andb_true_iff in H. destruct H as [H1 H2].
  apply negb_true_iff in H1. apply orb_false_iff in H1. destruct H1. apply Z.leb_le in H2. auto.
Qed.
Lemma sat_ge_inv : forall t v p, sat t OpGe v p = true -> val_nan t v = false /\ val_nan t p = false /\ 0 <= ord t v p.
Proof.
  intros t v p H. unfold sat in H. apply andb_true_iff in H. destruct H as [H1 H2].
  apply negb_true_iff in H1. apply orb_false_iff in H1. destruct H1. apply Z.leb_le in H2. auto.
Qed.

(** ** compare_sound: a value the data holds is reported as "in range" (0) *)
Theorem compare_sound_thm : forall t ps data value,
  wf_val t value -> lower_ok t (ps_min_value ps) data -> upper_ok t (ps_max_value ps) data ->
  (exists v, In v data /\ sat t OpEq v value = true) ->
  statistics_compare ps t value = SOk 0.
Proof.
  intros t ps data value Wv Hlo Hhi (v & Hin & Hs).
  destruct (sat_eq_inv t v value Hs) as (Nv & Np & Heq).
  pose proof (preorder_ord t) as P.
  unfold statistics_compare.
  assert (Hbelow : (match nonempty (ps_min_value ps) with
                    | Some mn => bind (compare_M t value mn) (fun c => SOk (c <? 0))
                    | None => SOk false end) = SOk false).
  { destruct (nonempty (ps_min_value ps)) as [m|] eqn:E; [|reflexivity].
    destruct (Hlo m E) as (Wm & Nm & B). rewrite (compare_M_ord t value m Wv Wm Np Nm). cbn [bind]. f_equal.
    apply Z.ltb_ge. specialize (B v Hin Nv).
    pose proof (po_trans _ P m v value). pose proof (po_antisym _ P value m). pose proof (po_antisym _ P m value). lia. }
  rewrite Hbelow. cbn [bind].
  assert (Habove : (match nonempty (ps_max_value ps) with
                    | Some mx => bind (compare_M t value mx) (fun c => SOk (0 <? c))
                    | None => SOk false end) = SOk false).
  { destruct (nonempty (ps_max_value ps)) as [m|] eqn:E; [|reflexivity].
    destruct (Hhi m E) as (Wm & Nm & B). rewrite (compare_M_ord t value m Wv Wm Np Nm). cbn [bind]. f_equal.
    apply Z.ltb_ge. specialize (B v Hin Nv).
    pose proof (po_trans _ P value v m). pose proof (po_antisym _ P value v). lia. }
  rewrite Habove. reflexivity.
Qed.

(** the types the range helpers order correctly: the six reader types and INT96 *)
Definition helper_type (t : ptype) : Prop := reader_type t \/ t = TInt96.

Lemma compare_M_overlap_ord : forall t a b, helper_type t -> wf_val t a -> wf_val t b ->
  val_nan t a = false -> val_nan t b = false -> compare_M_overlap t a b = SOk (ord t a b).
Proof.
  intros t a b Ht Wa Wb Na Nb.
  destruct Ht as [[E|[E|[E|[E|[E|E]]]]]|E]; subst t; cbn [compare_M_overlap]; try (apply compare_M_ord; assumption); reflexivity.
Qed.

(** ** overlap_sound: a query range that holds a value of the data overlaps the statistics *)
Theorem overlap_sound_thm : forall t ps data qmin qmax,
  helper_type t ->
  (forall a, qmin = Some a -> wf_val t a) -> (forall b, qmax = Some b -> wf_val t b) ->
  lower_ok t (ps_min_value ps) data -> upper_ok t (ps_max_value ps) data ->
  (exists v, In v data /\ (forall a, qmin = Some a -> sat t OpGe v a = true) /\
                          (forall b, qmax = Some b -> sat t OpLe v b = true) /\ val_nan t v = false) ->
  range_overlaps ps t qmin qmax = SOk true.
Proof.
  intros t ps data qmin qmax Ht Wa Wb Hlo Hhi (v & Hin & Hge & Hle & Nv).
  pose proof (preorder_ord t) as P.
  unfold range_overlaps.
  assert (Hlow : (match qmax, nonempty (ps_min_value ps) with
                  | Some q, Some mn => bind (compare_M_overlap t q mn) (fun c => SOk (c <? 0))
                  | _, _ => SOk false end) = SOk false).
  { destruct qmax as [q|]; [|reflexivity]. destruct (nonempty (ps_min_value ps)) as [m|] eqn:E; [|reflexivity].
    destruct (Hlo m E) as (Wm & Nm & B). destruct (sat_le_inv t v q (Hle q eq_refl)) as (_ & Nq & Hvq).
    rewrite (compare_M_overlap_ord t q m Ht (Wb q eq_refl) Wm Nq Nm). cbn [bind]. f_equal.
    apply Z.ltb_ge. specialize (B v Hin Nv).
    pose proof (po_trans _ P m v q). pose proof (po_antisym _ P q m). lia. }
  rewrite Hlow. cbn [bind].
  assert (Hhigh : (match qmin, nonempty (ps_max_value ps) with
                   | Some q, Some mx => bind (compare_M_overlap t q mx) (fun c => SOk (0 <? c))
                   | _, _ => SOk false end) = SOk false).
  { destruct qmin as [q|]; [|reflexivity]. destruct (nonempty (ps_max_value ps)) as [m|] eqn:E; [|reflexivity].
    destruct (Hhi m E) as (Wm & Nm & B). destruct (sat_ge_inv t v q (Hge q eq_refl)) as (_ & Nq & Hvq).
    rewrite (compare_M_overlap_ord t q m Ht (Wa q eq_refl) Wm Nq Nm). cbn [bind]. f_equal.
    apply Z.ltb_ge. specialize (B v Hin Nv).
    pose proof (po_trans _ P q v m). pose proof (po_antisym _ P v q). lia. }
  rewrite Hhigh. reflexivity.
Qed.

(** P on well-formed operands of a reader type: the type's order, or UNORDERED when a NaN is involved *)
Lemma compare_P_ord : forall t a b, helper_type t -> wf_val t a -> wf_val t b ->
  val_nan t a = false -> val_nan t b = false -> compare_P t a b = SOk (ord t a b).
Proof.
  intros t a b Ht Wa Wb Na Nb.
  destruct Ht as [[E|[E|[E|[E|[E|E]]]]]|E]; subst t; unfold wf_val in Wa, Wb; cbn [width] in Wa, Wb; cbn [compare_P];
    try reflexivity;
    (apply Nat.leb_le in Wa; apply Nat.leb_le in Wb; rewrite Wa, Wb; cbn [andb];
     apply Nat.leb_le in Wa; apply Nat.leb_le in Wb).
  - apply (compare_R_ord TInt32); try assumption; discriminate.
  - apply (compare_R_ord TInt64); try assumption; discriminate.
  - apply (compare_R_ord TFloat); try assumption; discriminate.
  - apply (compare_R_ord TDouble); try assumption; discriminate.
  - apply (compare_M_ord TInt96); assumption.
Qed.

(** pages as carquet_column_index_add_page stores them: never an empty min or max *)
Definition page_wf (pg : page) : Prop := pg_min pg <> Some [] /\ pg_max pg <> Some [].

Lemma add_page_wf : forall pages nc mn mx np, Forall page_wf pages -> Forall page_wf (add_page pages nc mn mx np).
Proof.
  intros pages nc mn mx np H. unfold add_page. apply Forall_app. split; [exact H|]. constructor; [|constructor].
  unfold page_wf. cbn [pg_min pg_max]. split; [destruct mn as [[|]|]|destruct mx as [[|]|]]; discriminate.
Qed.

(** ** page_might_match_sound *)
Theorem page_might_match_sound_thm : forall t pages idx pg data qmin qmax,
  helper_type t -> 0 <= idx -> nth_error pages (Z.to_nat idx) = Some pg -> page_wf pg ->
  (pg_null_page pg = true -> data = []) ->
  (forall a, qmin = Some a -> wf_val t a) -> (forall b, qmax = Some b -> wf_val t b) ->
  lower_ok t (pg_min pg) data -> upper_ok t (pg_max pg) data ->
  (exists v, In v data /\ (forall a, qmin = Some a -> sat t OpGe v a = true) /\
                          (forall b, qmax = Some b -> sat t OpLe v b = true) /\ val_nan t v = false) ->
  page_might_match t pages idx qmin qmax = SOk (E_CARQUET_OK, true).
Proof.
  intros t pages idx pg data qmin qmax Ht Hidx Hpg [Hw1 Hw2] Hnull Wa Wb Hlo Hhi (v & Hin & Hge & Hle & Nv).
  pose proof (preorder_ord t) as P.
  unfold page_might_match.
  destruct (Z.ltb_spec idx 0); [lia|]. rewrite Hpg.
  destruct (pg_null_page pg) eqn:Enp; [rewrite (Hnull eq_refl) in Hin; destruct Hin|].
  assert (Hlow : (match qmax, pg_min pg with
                  | Some q, Some mn => bind (compare_P t q mn) (fun c => SOk (c =? -1))
                  | _, _ => SOk false end) = SOk false).
  { destruct qmax as [q|]; [|reflexivity]. destruct (pg_min pg) as [m|] eqn:E; [|reflexivity].
    destruct (sat_le_inv t v q (Hle q eq_refl)) as (_ & Nq & Hvq).
    destruct m as [|x m']; [exfalso; apply Hw1; reflexivity|].
    destruct (Hlo (x :: m') eq_refl) as (Wm & Nm & B).
    rewrite (compare_P_ord t q (x :: m') Ht (Wb q eq_refl) Wm Nq Nm). cbn [bind]. f_equal.
    apply Z.eqb_neq. specialize (B v Hin Nv).
    pose proof (po_trans _ P (x :: m') v q). pose proof (po_antisym _ P q (x :: m')). lia. }
  rewrite Hlow. cbn [bind].
  assert (Hhigh : (match qmin, pg_max pg with
                   | Some q, Some mx => bind (compare_P t q mx) (fun c => SOk (c =? 1))
                   | _, _ => SOk false end) = SOk false).
  { destruct qmin as [q|]; [|reflexivity]. destruct (pg_max pg) as [m|] eqn:E; [|reflexivity].
    destruct (sat_ge_inv t v q (Hge q eq_refl)) as (_ & Nq & Hvq).
    destruct m as [|x m']; [exfalso; apply Hw2; reflexivity|].
    destruct (Hhi (x :: m') eq_refl) as (Wm & Nm & B).
    rewrite (compare_P_ord t q (x :: m') Ht (Wa q eq_refl) Wm Nq Nm). cbn [bind]. f_equal.
    apply Z.eqb_neq. specialize (B v Hin Nv).
    pose proof (po_trans _ P q v (x :: m')). pose proof (po_antisym _ P v q). lia. }
  rewrite Hhigh. reflexivity.
Qed.

Example page_might_match_f16 :
  (* DESIGN section 6 F16: INT32 page [1, 1000], query [0, 256] *)
  let i32 (x : N) := [x mod 256; (x / 256) mod 256; 0; 0]%N in
  page_might_match TInt32 (add_page [] 0 (Some (i32 1%N)) (Some (i32 1000%N)) false) 0 (Some (i32 0%N)) (Some (i32 256%N))
  = SOk (E_CARQUET_OK, true).
Proof. vm_compute. reflexivity. Qed.

(** ------------------------------------------------------------------------------------------------
    Part 8 (optional link): the sign-magnitude key order against Flocq's IEEE-754 comparison, on a finite
    sample of bit patterns (zeros, subnormals, ones +- 1 ulp, extremes, infinities, NaNs of both signs).
    This is a sample, not a proof for all patterns; Flocq's [b32_of_bits] / [Bcompare] depend on the axioms of
    Coq's real numbers, which Print Assumptions lists for this statement only. *)
From Flocq Require IEEE754.Binary IEEE754.Bits.

Definition flocq_cmp32 (a b : N) : option comparison :=
  IEEE754.Binary.Bcompare 24 128 (IEEE754.Bits.b32_of_bits (Z.of_N a)) (IEEE754.Bits.b32_of_bits (Z.of_N b)).
Definition flocq_cmp64 (a b : N) : option comparison :=
  IEEE754.Binary.Bcompare 53 1024 (IEEE754.Bits.b64_of_bits (Z.of_N a)) (IEEE754.Bits.b64_of_bits (Z.of_N b)).

Definition key_cmp (nan : N -> bool) (key : N -> Z) (a b : N) : option comparison :=
  if nan a || nan b then None else Some (Z.compare (key a) (key b)).

Definition ocmp_eqb (x y : option comparison) : bool :=
  match x, y with
  | None, None => true
  | Some Lt, Some Lt | Some Eq, Some Eq | Some Gt, Some Gt => true
  | _, _ => false
  end.

Definition samples32 : list N :=
  [0x00000000; 0x80000000; 0x00000001; 0x80000001; 0x007FFFFF; 0x00800000; 0x807FFFFF; 0x80800000; 0x3F800000; 0x3F7FFFFF;
   0x3F800001; 0xBF800000; 0xBF7FFFFF; 0xBF800001; 0x7F7FFFFF; 0xFF7FFFFF; 0x7F800000; 0xFF800000; 0x40A00000; 0x41200000;
   0x7FC00000; 0x7F800001; 0xFFC00000; 0x7FFFFFFF; 0xFF800001; 0x12345678; 0x92345678; 0x7F000000; 0x00400000; 0xC0A00000]%N.

Definition samples64 : list N :=
  [0x0000000000000000; 0x8000000000000000; 0x0000000000000001; 0x8000000000000001; 0x000FFFFFFFFFFFFF; 0x0010000000000000;
   0x800FFFFFFFFFFFFF; 0x8010000000000000; 0x3FF0000000000000; 0x3FEFFFFFFFFFFFFF; 0x3FF0000000000001; 0xBFF0000000000000;
   0xBFEFFFFFFFFFFFFF; 0xBFF0000000000001; 0x7FEFFFFFFFFFFFFF; 0xFFEFFFFFFFFFFFFF; 0x7FF0000000000000; 0xFFF0000000000000;
   0x4014000000000000; 0x4024000000000000; 0x7FF8000000000000; 0x7FF0000000000001; 0xFFF8000000000000; 0x7FFFFFFFFFFFFFFF;
   0xFFF0000000000001; 0x123456789ABCDEF0; 0x923456789ABCDEF0; 0x7FE0000000000000; 0x0008000000000000; 0xC014000000000000]%N.

Definition agree_on (f g : N -> N -> option comparison) (l : list N) : bool :=
  forallb (fun a => forallb (fun b => ocmp_eqb (f a b) (g a b)) l) l.

Theorem float_key_matches_flocq_sample_thm :
  agree_on flocq_cmp32 (key_cmp is_nan32 fkey32) samples32 = true /\
  agree_on flocq_cmp64 (key_cmp is_nan64 fkey64) samples64 = true.
Proof. split; vm_compute; reflexivity. Qed.

(* Print Assumptions float_key_matches_flocq_sample_thm (and the two theorems of Part 9) lists exactly:
     ClassicalDedekindReals.sig_not_dec, ClassicalDedekindReals.sig_forall_dec,
     FunctionalExtensionality.functional_extensionality_dep, Classical_Prop.classic
   (Flocq's binary floats are defined over Coq's reals).  The statement is kept out of Props/Properties_C16.v
   so that every property theorem stays closed under the global context. *)

(** the hypothesis of filter_exact, from a condition on the file: every present min/max of the column is at least as wide
    as the column's type (always the case for statistics that are true bounds) *)
Lemma no_fault_of_wide_stats : forall r col op value,
  col_type r col <> TBoolean -> wf_val (col_type r col) value ->
  (forall i cs, column_statistics r i col = SOk cs -> cs_has_min_max cs = true ->
                wf_val (col_type r col) (cs_min cs) /\ wf_val (col_type r col) (cs_max cs)) ->
  no_fault r col op value.
Proof.
  intros r col op value Hnb Wv Hw i f E. unfold row_group_matches in E.
  destruct (column_statistics r i col) as [cs|c|f'] eqn:Ecs; try discriminate.
  - fold (col_type r col) in E.
    destruct (matches_stats (col_type r col) cs op value) as [m|c|f'] eqn:Em; try discriminate.
    cbn [bind] in E. injection E as ->.
    exact (matches_stats_no_fault _ cs op value Hnb Wv (Hw i cs Ecs) _ Em).
  - (* column_statistics never faults *)
    unfold column_statistics in Ecs.
    destruct (nth_z (r_row_groups r) i); [|discriminate].
    destruct ((col <? 0) || (Z.of_nat (length (r_leaf_types r)) <=? col)); [discriminate|].
    destruct (nth_z l col); [|discriminate].
    destruct (negb (ch_has_metadata c)); [discriminate|].
    destruct (ch_stats c); [|discriminate].
    destruct (nonempty (ps_min_value p)), (nonempty (ps_max_value p)); try discriminate;
      destruct (nonempty (ps_min_deprecated p)), (nonempty (ps_max_deprecated p)); discriminate.
Qed.

(** ------------------------------------------------------------------------------------------------
    Part 9 (optional link, complete): for ALL 32-bit and all 64-bit patterns Flocq's IEEE-754 comparison of the decoded
    floats is the comparison of the sign-magnitude keys, and it is undefined (None) exactly on the patterns [is_nan]
    classifies as NaN.  Proof: every pattern decodes to a zero, an infinity, a NaN or a finite (m, e) whose magnitude is
    (e + bias) * 2^mw + m (subnormals have e = emin and m < 2^mw, normals m >= 2^mw), so SpecFloat's lexicographic
    comparison on (sign, e, m) is the comparison of the keys.  The axioms Print Assumptions lists for these two theorems
    (ClassicalDedekindReals.sig_not_dec, sig_forall_dec, FunctionalExtensionality.functional_extensionality_dep,
    Classical_Prop.classic) enter only through Flocq's definition of binary floats over Coq's reals. *)
(** the hypotheses of compare_sound / overlap_sound / page_might_match_sound / filter_exact are satisfiable *)
Example helper_hypotheses_nontrivial :
  let i32 (x : N) := [x mod 256; (x / 256) mod 256; 0; 0]%N in
  let data := [i32 5%N; i32 1000%N; i32 1%N] in
  lower_ok TInt32 (Some (i32 1%N)) data /\ upper_ok TInt32 (Some (i32 1000%N)) data /\
  (exists v, In v data /\ sat TInt32 OpGe v (i32 0%N) = true /\ sat TInt32 OpLe v (i32 256%N) = true /\ sat TInt32 OpEq v (i32 5%N) = true) /\
  page_wf (mkPage 0 (Some (i32 1%N)) (Some (i32 1000%N)) false) /\
  statistics_compare (mkPS false 0 (Some (i32 1%N)) (Some (i32 1000%N)) None None) TInt32 (i32 5%N) = SOk 0 /\
  range_overlaps (mkPS false 0 (Some (i32 1%N)) (Some (i32 1000%N)) None None) TInt32 (Some (i32 0%N)) (Some (i32 256%N)) = SOk true.
Proof.
  cbv zeta. split; [|split; [|split; [|split; [|split]]]].
  - intros m E. injection E as <-. split; [vm_compute; lia|]. split; [reflexivity|].
    intros v [<-|[<-|[<-|[]]]] _; vm_compute; discriminate.
  - intros m E. injection E as <-. split; [vm_compute; lia|]. split; [reflexivity|].
    intros v [<-|[<-|[<-|[]]]] _; vm_compute; discriminate.
  - eexists. split; [left; reflexivity|]. repeat split; vm_compute; reflexivity.
  - split; discriminate.
  - vm_compute. reflexivity.
  - vm_compute. reflexivity.
Qed.

Example no_fault_nontrivial :
  let i32 (x : N) := [x mod 256; (x / 256) mod 256; 0; 0]%N in
  let ch mn mx := mkChunk true 3 (Some (mkPS true 0 (Some (i32 mn)) (Some (i32 mx)) None None)) in
  let r := mkRdr [[ch 1%N 10%N]; [ch 20%N 30%N]; [mkChunk true 2 None]] [Some TInt32] in
  no_fault r 0 (op_code OpLt) (i32 15%N) /\
  filter_row_groups r 0 (op_code OpLt) (i32 15%N) 5 = SOk (Some [0; 2]).
Proof.
  cbv zeta. split; [|vm_compute; reflexivity].
  intros i f. unfold row_group_matches, column_statistics, nth_z. cbn [r_row_groups].
  destruct (i <? 0); [discriminate|].
  destruct (Z.to_nat i) as [|[|[|k]]]; [vm_compute; discriminate ..|].
  (* beyond the last row group: ROW_GROUP_NOT_FOUND, reported through the status *)
  cbn [nth_error]. replace (nth_error (@nil (list chunk)) k) with (@None (list chunk)) by (destruct k; reflexivity).
  discriminate.
Qed.

From Coq Require Import Floats.SpecFloat ZifyN ZifyBool.
Module FloatLink.
Import Flocq.IEEE754.Binary Flocq.IEEE754.Bits.
Ltac Zify.zify_post_hook ::= Z.div_mod_to_equations.

Section W.
  Variables M E : Z.   (* 2^mw, 2^ew *)
  Definition signZ (x : Z) : bool := (M * E <=? x).
  Definition magZ (x : Z) : Z := x mod (M * E).
  Definition nanZ (x : Z) : bool := ((E - 1) * M <? magZ x).
  Definition keyZ (x : Z) : Z := if signZ x then - magZ x else magZ x.
  Definition kcZ (x y : Z) : option comparison := if nanZ x || nanZ y then None else Some (Z.compare (keyZ x) (keyZ y)).

  (* the shape of a decoded pattern *)
  Inductive shape (bias : Z) (x : Z) : SpecFloat.spec_float -> Prop :=
  | sh_nan : nanZ x = true -> shape bias x S754_nan
  | sh_zero : nanZ x = false -> magZ x = 0 -> shape bias x (S754_zero (signZ x))
  | sh_inf : nanZ x = false -> magZ x = (E - 1) * M -> shape bias x (S754_infinity (signZ x))
  | sh_fin : forall m e, nanZ x = false -> magZ x = (e + bias) * M + Zpos m -> 0 < Zpos m < 2 * M ->
                         - bias <= e -> (- bias < e -> M <= Zpos m) -> magZ x < (E - 1) * M ->
                         shape bias x (S754_finite (signZ x) m e).
End W.


Lemma shape32 : forall x, 0 <= x < 4294967296 ->
  shape 8388608 256 149 x (FF2SF (binary_float_of_bits_aux 23 8 x)).
Proof.
  intros x Hx.
  unfold binary_float_of_bits_aux, split_bits.
  change (2 ^ 23) with 8388608. change (2 ^ 8) with 256. change (8388608 * 256) with 2147483648.
  change (256 - 1) with 255. change (emin (23 + 1) (2 ^ (8 - 1))) with (-149).
  assert (Hs : signZ 8388608 256 x = (2147483648 <=? x)) by reflexivity.
  assert (Hm : magZ 8388608 256 x = x mod 2147483648) by reflexivity.
  assert (Hn : nanZ 8388608 256 x = (2139095040 <? x mod 2147483648)) by reflexivity.
  rewrite <- Hs.
  destruct (Zeq_bool ((x / 8388608) mod 256) 0) eqn:E0.
  - apply Zeq_bool_eq in E0.
    destruct (x mod 8388608) as [|px|px] eqn:Em; cbn [FF2SF].
    + apply sh_zero; [rewrite Hn; apply Z.ltb_ge; lia|rewrite Hm; lia].
    + apply sh_fin; rewrite ?Hn, ?Hm; try (apply Z.ltb_ge); lia.
    + exfalso. lia.
  - apply Zeq_bool_neq in E0.
    destruct (Zeq_bool ((x / 8388608) mod 256) 255) eqn:E1.
    + apply Zeq_bool_eq in E1.
      destruct (x mod 8388608) as [|px|px] eqn:Em; cbn [FF2SF].
      * apply sh_inf; [rewrite Hn; apply Z.ltb_ge; lia|rewrite Hm; lia].
      * apply sh_nan. rewrite Hn. apply Z.ltb_lt. lia.
      * exfalso. lia.
    + apply Zeq_bool_neq in E1.
      destruct (x mod 8388608 + 8388608) as [|px|px] eqn:Em; cbn [FF2SF]; try (exfalso; lia).
      apply sh_fin; rewrite ?Hn, ?Hm; try (apply Z.ltb_ge); lia.
Qed.

Lemma pcompare_eq : forall p q, Pos.compare_cont Eq p q = Z.compare (Zpos p) (Zpos q).
Proof. intros. reflexivity. Qed.

Ltac cmp_cases :=
  repeat match goal with
         | |- context [Z.compare ?a ?b] => destruct (Z.compare_spec a b)
         end; try reflexivity; try lia.

Lemma sfcompare32 : forall x y fx fy,
  shape 8388608 256 149 x fx -> shape 8388608 256 149 y fy ->
  SFcompare fx fy = kcZ 8388608 256 x y.
Proof.
  intros x y fx fy Sx Sy. unfold kcZ, keyZ.
  assert (Rx : 0 <= magZ 8388608 256 x < 2147483648) by (unfold magZ; apply Z.mod_pos_bound; lia).
  assert (Ry : 0 <= magZ 8388608 256 y < 2147483648) by (unfold magZ; apply Z.mod_pos_bound; lia).
  change ((256 - 1) * 8388608) with 2139095040 in *.
  destruct Sx as [Nx|Nx Zx|Nx Ix|mx ex Nx Fx Bx Lx Gx Ux]; rewrite Nx; cbn [orb]; [reflexivity| | |];
    (destruct Sy as [Ny|Ny Zy|Ny Iy|my ey Ny Fy By Ly Gy Uy]; rewrite Ny; [reflexivity| | |]);
    cbn [SFcompare]; destruct (signZ 8388608 256 x), (signZ 8388608 256 y);
    rewrite ?pcompare_eq; f_equal; cmp_cases.
Qed.


Lemma b32_cmp_aux : forall X Y,
  Bcompare 24 128 (b32_of_bits X) (b32_of_bits Y) =
  SFcompare (FF2SF (binary_float_of_bits_aux 23 8 X)) (FF2SF (binary_float_of_bits_aux 23 8 Y)).
Proof.
  intros X Y. unfold Bcompare, BinarySingleNaN.Bcompare, b32_of_bits, binary_float_of_bits.
  rewrite !B2SF_B2BSN, !B2SF_FF2B. reflexivity.
Qed.

Lemma nan32_Z : forall x : N, is_nan32 x = nanZ 8388608 256 (Z.of_N x).
Proof.
  intro x. unfold is_nan32, Order.is_nan, nanZ, magZ.
  change ((2 ^ 8 - 1) * 2 ^ 23)%N with 2139095040%N. change (2 ^ (8 + 23))%N with 2147483648%N.
  change ((256 - 1) * 8388608) with 2139095040. change (8388608 * 256) with 2147483648.
  destruct (N.ltb_spec 2139095040 (x mod 2147483648)); destruct (Z.ltb_spec 2139095040 (Z.of_N x mod 2147483648)); try reflexivity; lia.
Qed.

Lemma key32_Z : forall x : N, (x < 4294967296)%N -> fkey32 x = keyZ 8388608 256 (Z.of_N x).
Proof.
  intros x Hx. unfold fkey32, fkey, keyZ, signZ, magZ.
  change (2 ^ (8 + 23))%N with 2147483648%N. change (8388608 * 256) with 2147483648.
  destruct (N.ltb_spec x 2147483648); destruct (Z.leb_spec 2147483648 (Z.of_N x)); try lia.
Qed.

Theorem float_key_is_ieee32 : forall x y : N, (x < 4294967296)%N -> (y < 4294967296)%N ->
  flocq_cmp32 x y = key_cmp is_nan32 fkey32 x y.
Proof.
  intros x y Hx Hy. unfold flocq_cmp32. rewrite b32_cmp_aux.
  assert (Rx : 0 <= Z.of_N x < 4294967296) by lia. assert (Ry : 0 <= Z.of_N y < 4294967296) by lia.
  rewrite (sfcompare32 (Z.of_N x) (Z.of_N y) _ _ (shape32 _ Rx) (shape32 _ Ry)).
  unfold kcZ, key_cmp. rewrite <- !nan32_Z, <- !key32_Z by assumption. reflexivity.
Qed.

Lemma shape64 : forall x, 0 <= x < 18446744073709551616 ->
  shape 4503599627370496 2048 1074 x (FF2SF (binary_float_of_bits_aux 52 11 x)).
Proof.
  intros x Hx.
  unfold binary_float_of_bits_aux, split_bits.
  change (2 ^ 52) with 4503599627370496. change (2 ^ 11) with 2048. change (4503599627370496 * 2048) with 9223372036854775808.
  change (2048 - 1) with 2047. change (emin (52 + 1) (2 ^ (11 - 1))) with (-1074).
  assert (Hs : signZ 4503599627370496 2048 x = (9223372036854775808 <=? x)) by reflexivity.
  assert (Hm : magZ 4503599627370496 2048 x = x mod 9223372036854775808) by reflexivity.
  assert (Hn : nanZ 4503599627370496 2048 x = (9218868437227405312 <? x mod 9223372036854775808)) by reflexivity.
  rewrite <- Hs.
  destruct (Zeq_bool ((x / 4503599627370496) mod 2048) 0) eqn:E0.
  - apply Zeq_bool_eq in E0.
    destruct (x mod 4503599627370496) as [|px|px] eqn:Em; cbn [FF2SF].
    + apply sh_zero; [rewrite Hn; apply Z.ltb_ge; lia|rewrite Hm; lia].
    + apply sh_fin; rewrite ?Hn, ?Hm; try (apply Z.ltb_ge); lia.
    + exfalso. lia.
  - apply Zeq_bool_neq in E0.
    destruct (Zeq_bool ((x / 4503599627370496) mod 2048) 2047) eqn:E1.
    + apply Zeq_bool_eq in E1.
      destruct (x mod 4503599627370496) as [|px|px] eqn:Em; cbn [FF2SF].
      * apply sh_inf; [rewrite Hn; apply Z.ltb_ge; lia|rewrite Hm; lia].
      * apply sh_nan. rewrite Hn. apply Z.ltb_lt. lia.
      * exfalso. lia.
    + apply Zeq_bool_neq in E1.
      destruct (x mod 4503599627370496 + 4503599627370496) as [|px|px] eqn:Em; cbn [FF2SF]; try (exfalso; lia).
      apply sh_fin; rewrite ?Hn, ?Hm; try (apply Z.ltb_ge); lia.
Qed.


Lemma sfcompare64 : forall x y fx fy,
  shape 4503599627370496 2048 1074 x fx -> shape 4503599627370496 2048 1074 y fy ->
  SFcompare fx fy = kcZ 4503599627370496 2048 x y.
Proof.
  intros x y fx fy Sx Sy. unfold kcZ, keyZ.
  assert (Rx : 0 <= magZ 4503599627370496 2048 x < 9223372036854775808) by (unfold magZ; apply Z.mod_pos_bound; lia).
  assert (Ry : 0 <= magZ 4503599627370496 2048 y < 9223372036854775808) by (unfold magZ; apply Z.mod_pos_bound; lia).
  change ((2048 - 1) * 4503599627370496) with 9218868437227405312 in *.
  destruct Sx as [Nx|Nx Zx|Nx Ix|mx ex Nx Fx Bx Lx Gx Ux]; rewrite Nx; cbn [orb]; [reflexivity| | |];
    (destruct Sy as [Ny|Ny Zy|Ny Iy|my ey Ny Fy By Ly Gy Uy]; rewrite Ny; [reflexivity| | |]);
    cbn [SFcompare]; destruct (signZ 4503599627370496 2048 x), (signZ 4503599627370496 2048 y);
    rewrite ?pcompare_eq; f_equal; cmp_cases.
Qed.


Lemma b64_cmp_aux : forall X Y,
  Bcompare 53 1024 (b64_of_bits X) (b64_of_bits Y) =
  SFcompare (FF2SF (binary_float_of_bits_aux 52 11 X)) (FF2SF (binary_float_of_bits_aux 52 11 Y)).
Proof.
  intros X Y. unfold Bcompare, BinarySingleNaN.Bcompare, b64_of_bits, binary_float_of_bits.
  rewrite !B2SF_B2BSN, !B2SF_FF2B. reflexivity.
Qed.

Lemma nan64_Z : forall x : N, is_nan64 x = nanZ 4503599627370496 2048 (Z.of_N x).
Proof.
  intro x. unfold is_nan64, Order.is_nan, nanZ, magZ.
  change ((2 ^ 11 - 1) * 2 ^ 52)%N with 9218868437227405312%N. change (2 ^ (11 + 52))%N with 9223372036854775808%N.
  change ((2048 - 1) * 4503599627370496) with 9218868437227405312. change (4503599627370496 * 2048) with 9223372036854775808.
  destruct (N.ltb_spec 9218868437227405312 (x mod 9223372036854775808)); destruct (Z.ltb_spec 9218868437227405312 (Z.of_N x mod 9223372036854775808)); try reflexivity; lia.
Qed.

Lemma key64_Z : forall x : N, (x < 18446744073709551616)%N -> fkey64 x = keyZ 4503599627370496 2048 (Z.of_N x).
Proof.
  intros x Hx. unfold fkey64, fkey, keyZ, signZ, magZ.
  change (2 ^ (11 + 52))%N with 9223372036854775808%N. change (4503599627370496 * 2048) with 9223372036854775808.
  destruct (N.ltb_spec x 9223372036854775808); destruct (Z.leb_spec 9223372036854775808 (Z.of_N x)); try lia.
Qed.

Theorem float_key_is_ieee64 : forall x y : N, (x < 18446744073709551616)%N -> (y < 18446744073709551616)%N ->
  flocq_cmp64 x y = key_cmp is_nan64 fkey64 x y.
Proof.
  intros x y Hx Hy. unfold flocq_cmp64. rewrite b64_cmp_aux.
  assert (Rx : 0 <= Z.of_N x < 18446744073709551616) by lia. assert (Ry : 0 <= Z.of_N y < 18446744073709551616) by lia.
  rewrite (sfcompare64 (Z.of_N x) (Z.of_N y) _ _ (shape64 _ Rx) (shape64 _ Ry)).
  unfold kcZ, key_cmp. rewrite <- !nan64_Z, <- !key64_Z by assumption. reflexivity.
Qed.

End FloatLink.
