(** Proofs for C16 about Stats/Order.v, Stats/StatsBuilderModel.v, Stats/PruneModel.v, Stats/PageIndexModel.v. *)
From Coq Require Import ZArith NArith List Bool Arith Lia.
From Carquet Require Import Gen.Enums_gen Gen.Stats_gen Stats.Order Stats.StatsBuilderModel Stats.PruneModel Stats.PageIndexModel.
Import ListNotations.
Local Open Scope Z_scope.

Arguments Z.add : simpl never.
Arguments Z.sub : simpl never.
Arguments Z.of_nat : simpl never.
Arguments N.mul : simpl never.
Arguments N.add : simpl never.
Arguments N.pow : simpl never.
Arguments BUF : simpl never.
Arguments WBUF : simpl never.
Arguments le_val : simpl never.
Arguments firstn : simpl never.

(** ------------------------------------------------------------------------------------------------
    Part 1: three-way comparisons that are total preorders *)

Record preorder {V : Type} (cmp : V -> V -> Z) : Prop := {
  po_range : forall a b, cmp a b = -1 \/ cmp a b = 0 \/ cmp a b = 1;
  po_antisym : forall a b, cmp a b = - cmp b a;
  po_trans : forall a b c, cmp a b <= 0 -> cmp b c <= 0 -> cmp a c <= 0 }.

Lemma cmp3_cases : forall a b, (a < b /\ cmp3 a b = -1) \/ (a = b /\ cmp3 a b = 0) \/ (b < a /\ cmp3 a b = 1).
Proof.
  intros a b. unfold cmp3.
  destruct (Z.ltb_spec a b); [left; auto|].
  destruct (Z.ltb_spec b a); [right; right; auto|].
  right; left. split; [lia|reflexivity].
Qed.

Lemma preorder_key : forall V (key : V -> Z), preorder (fun a b => cmp3 (key a) (key b)).
Proof.
  intros V key. constructor.
  - intros a b. destruct (cmp3_cases (key a) (key b)) as [[_ H]|[[_ H]|[_ H]]]; rewrite H; auto.
  - intros a b. destruct (cmp3_cases (key a) (key b)) as [[A H]|[[A H]|[A H]]];
      destruct (cmp3_cases (key b) (key a)) as [[B H']|[[B H']|[B H']]]; rewrite H, H'; lia.
  - intros a b c.
    destruct (cmp3_cases (key a) (key b)) as [[A H]|[[A H]|[A H]]];
      destruct (cmp3_cases (key b) (key c)) as [[B H']|[[B H']|[B H']]];
      destruct (cmp3_cases (key a) (key c)) as [[C H'']|[[C H'']|[C H'']]]; rewrite H, H', H''; lia.
Qed.

Definition lex {V} (c1 c2 : V -> V -> Z) (a b : V) : Z := if negb (c1 a b =? 0) then c1 a b else c2 a b.

Lemma preorder_lex : forall V (c1 c2 : V -> V -> Z), preorder c1 -> preorder c2 -> preorder (lex c1 c2).
Proof.
  intros V c1 c2 P1 P2. constructor.
  - intros a b. unfold lex. destruct (Z.eqb_spec (c1 a b) 0); cbn [negb]; [apply P2|apply P1].
  - intros a b. unfold lex. pose proof (po_antisym _ P1 a b) as A1. pose proof (po_antisym _ P2 a b) as A2.
    destruct (Z.eqb_spec (c1 a b) 0); destruct (Z.eqb_spec (c1 b a) 0); cbn [negb]; lia.
  - intros a b c. unfold lex.
    pose proof (po_antisym _ P1 a b) as Aab. pose proof (po_antisym _ P1 b c) as Abc. pose proof (po_antisym _ P1 a c) as Aac.
    pose proof (po_trans _ P1 a b c) as T1. pose proof (po_trans _ P1 c b a) as T2.
    pose proof (po_trans _ P1 b c a) as T3. pose proof (po_trans _ P1 c a b) as T4.
    pose proof (po_antisym _ P1 c b) as Acb. pose proof (po_antisym _ P1 b a) as Aba. pose proof (po_antisym _ P1 c a) as Aca.
    pose proof (po_trans _ P2 a b c) as U.
    destruct (Z.eqb_spec (c1 a b) 0); destruct (Z.eqb_spec (c1 b c) 0); destruct (Z.eqb_spec (c1 a c) 0); cbn [negb]; lia.
Qed.

(** byte strings: the C comparison (memcmp over the common prefix, then lengths) is the structural
    lexicographic comparison *)
Fixpoint lexb (a b : bytes) : Z :=
  match a, b with
  | [], [] => 0
  | [], _ :: _ => -1
  | _ :: _, [] => 1
  | x :: a', y :: b' => if (x <? y)%N then -1 else if (y <? x)%N then 1 else lexb a' b'
  end.

Lemma bytes_cmp_lexb : forall a b, bytes_cmp a b = lexb a b.
Proof.
  induction a as [|x a IH]; intros [|y b].
  - reflexivity.
  - reflexivity.
  - reflexivity.
  - unfold bytes_cmp. cbn [length Nat.min memcmp_sign lexb].
    destruct (x <? y)%N; [reflexivity|]. destruct (y <? x)%N; [reflexivity|].
    specialize (IH b). unfold bytes_cmp in IH. rewrite <- IH.
    destruct (memcmp_sign a b (Nat.min (length a) (length b)) =? 0); [|reflexivity].
    unfold cmp3. rewrite !Nat2Z.inj_succ.
    destruct (Z.ltb_spec (Z.of_nat (length a)) (Z.of_nat (length b)));
      destruct (Z.ltb_spec (Z.succ (Z.of_nat (length a))) (Z.succ (Z.of_nat (length b)))); try lia; try reflexivity.
    destruct (Z.ltb_spec (Z.of_nat (length b)) (Z.of_nat (length a)));
      destruct (Z.ltb_spec (Z.succ (Z.of_nat (length b))) (Z.succ (Z.of_nat (length a)))); try lia; reflexivity.
Qed.

Lemma preorder_lexb : preorder lexb.
Proof.
  constructor.
  - induction a as [|x a IH]; intros [|y b]; cbn [lexb]; auto.
    destruct (x <? y)%N; auto. destruct (y <? x)%N; auto.
  - induction a as [|x a IH]; intros [|y b]; cbn [lexb]; try reflexivity.
    destruct (N.ltb_spec x y); destruct (N.ltb_spec y x); try lia; try reflexivity. apply IH.
  - induction a as [|x a IH]; intros [|y b] [|z c]; cbn [lexb]; try lia.
    destruct (N.ltb_spec x y); destruct (N.ltb_spec y x); destruct (N.ltb_spec y z); destruct (N.ltb_spec z y);
      destruct (N.ltb_spec x z); destruct (N.ltb_spec z x); try lia. apply IH.
Qed.

Lemma preorder_bytes_cmp : preorder bytes_cmp.
Proof.
  pose proof preorder_lexb as P. constructor; intros; rewrite ?bytes_cmp_lexb; [apply P|apply P|].
  rewrite bytes_cmp_lexb in *. eapply (po_trans _ P); eassumption.
Qed.

(** the order of every physical type is a total preorder (on all byte strings) *)
Lemma preorder_ord : forall t, preorder (ord t).
Proof.
  intros []; unfold ord.
  - apply (preorder_key _ (fun v => Z.of_N (le_val (firstn 1 v)))).
  - apply (preorder_key _ (fun v => sgn 32 (le_val (firstn 4 v)))).
  - apply (preorder_key _ (fun v => sgn 64 (le_val (firstn 8 v)))).
  - apply (preorder_lex _ (fun a b => cmp3 (Z.of_N (le_val (firstn 4 (skipn (4 * 2) a)))) (Z.of_N (le_val (firstn 4 (skipn (4 * 2) b)))))
                        (lex (fun a b => cmp3 (Z.of_N (le_val (firstn 4 (skipn (4 * 1) a)))) (Z.of_N (le_val (firstn 4 (skipn (4 * 1) b)))))
                             (fun a b => cmp3 (Z.of_N (le_val (firstn 4 (skipn (4 * 0) a)))) (Z.of_N (le_val (firstn 4 (skipn (4 * 0) b))))))).
    + apply (preorder_key _ (fun v => Z.of_N (le_val (firstn 4 (skipn (4 * 2) v))))).
    + apply preorder_lex.
      * apply (preorder_key _ (fun v => Z.of_N (le_val (firstn 4 (skipn (4 * 1) v))))).
      * apply (preorder_key _ (fun v => Z.of_N (le_val (firstn 4 (skipn (4 * 0) v))))).
  - apply (preorder_key _ (fun v => fkey32 (le_val (firstn 4 v)))).
  - apply (preorder_key _ (fun v => fkey64 (le_val (firstn 8 v)))).
  - apply preorder_bytes_cmp.
  - apply preorder_bytes_cmp.
Qed.

(** consequences used everywhere below *)
Section PreorderFacts.
  Context {V : Type} (cmp : V -> V -> Z) (P : preorder cmp).

  Lemma po_refl : forall a, cmp a a = 0.
  Proof. intro a. pose proof (po_antisym _ P a a). lia. Qed.

  Lemma po_lt_le_trans : forall a b c, cmp a b < 0 -> cmp b c <= 0 -> cmp a c < 0.
  Proof.
    intros a b c H1 H2. pose proof (po_antisym _ P a c). pose proof (po_antisym _ P a b).
    pose proof (po_trans _ P b c a). pose proof (po_antisym _ P c a). lia.
  Qed.

  Lemma po_le_lt_trans : forall a b c, cmp a b <= 0 -> cmp b c < 0 -> cmp a c < 0.
  Proof.
    intros a b c H1 H2. pose proof (po_antisym _ P a c). pose proof (po_antisym _ P b c).
    pose proof (po_trans _ P c a b). pose proof (po_antisym _ P c a). pose proof (po_antisym _ P c b). lia.
  Qed.
End PreorderFacts.

(** ------------------------------------------------------------------------------------------------
    Part 2: what the code's comparators compute *)

(** a stored value of a fixed-width type has at least the type's width (numeric comparators read that many bytes) *)
Definition wf_val (t : ptype) (v : bytes) : Prop :=
  match width t with Some k => (k <= length v)%nat | None => True end.

Lemma rd_ok : forall k v, (k <= length v)%nat -> rd k v = SOk (le_val (firstn k v)).
Proof. intros k v H. unfold rd. apply Nat.leb_le in H. rewrite H. reflexivity. Qed.

Definition is_float (t : ptype) : bool := match t with TFloat | TDouble => true | _ => false end.

Lemma val_nan_nonfloat : forall t v, is_float t = false -> val_nan t v = false.
Proof. intros [] v H; try discriminate; reflexivity. Qed.

(** R, M and P agree with the type's order on well-formed non-NaN operands *)
Lemma fcmp_R_ord : forall nan key a b, nan a = false -> nan b = false -> fcmp_R nan key a b = cmp3 (key a) (key b).
Proof.
  intros nan key a b Ha Hb. unfold fcmp_R, flt, feq. rewrite Ha, Hb. cbn [negb andb].
  destruct (cmp3_cases (key a) (key b)) as [[A H]|[[A H]|[A H]]]; rewrite H.
  - apply Z.ltb_lt in A. rewrite A. reflexivity.
  - rewrite A, Z.ltb_irrefl, Z.eqb_refl. reflexivity.
  - assert (B : (key a <? key b) = false) by (apply Z.ltb_ge; lia). rewrite B.
    apply Z.ltb_lt in A. rewrite A. reflexivity.
Qed.

Lemma fcmp_R_nan : forall nan key a b, nan a = true \/ nan b = true -> fcmp_R nan key a b = UNORDERED.
Proof.
  intros nan key a b H. unfold fcmp_R, flt, feq.
  destruct H as [H|H]; rewrite H; cbn [negb andb]; rewrite ?andb_false_r; reflexivity.
Qed.

Lemma fcmp_M_ord : forall nan key a b, nan a = false -> nan b = false -> fcmp_M nan key a b = cmp3 (key a) (key b).
Proof. intros nan key a b Ha Hb. unfold fcmp_M. rewrite Ha, Hb. reflexivity. Qed.

Lemma compare_R_ord : forall t a b, t <> TBoolean -> t <> TInt96 -> wf_val t a -> wf_val t b ->
  val_nan t a = false -> val_nan t b = false -> compare_R t a b = SOk (ord t a b).
Proof.
  intros [] a b H1 H2 Wa Wb Na Nb; try congruence; unfold wf_val in *; cbn [width] in *;
    cbn [compare_R ord]; unfold cmp_int, cmp_float_with; rewrite ?(rd_ok _ _ Wa), ?(rd_ok _ _ Wb); cbn [bind]; try reflexivity.
  - cbn [val_nan] in Na, Nb. rewrite (fcmp_R_ord _ _ _ _ Na Nb). reflexivity.
  - cbn [val_nan] in Na, Nb. rewrite (fcmp_R_ord _ _ _ _ Na Nb). reflexivity.
Qed.

Lemma compare_R_nan : forall t a b, is_float t = true -> wf_val t a -> wf_val t b ->
  val_nan t a = true \/ val_nan t b = true -> compare_R t a b = SOk UNORDERED.
Proof.
  intros [] a b Hf Wa Wb Hn; try discriminate; unfold wf_val in *; cbn [width] in *;
    cbn [compare_R]; unfold cmp_float_with; rewrite (rd_ok _ _ Wa), (rd_ok _ _ Wb); cbn [bind];
    cbn [val_nan] in Hn; rewrite (fcmp_R_nan _ _ _ _ Hn); reflexivity.
Qed.

Lemma compare_M_ord : forall t a b, wf_val t a -> wf_val t b ->
  val_nan t a = false -> val_nan t b = false -> compare_M t a b = SOk (ord t a b).
Proof.
  intros [] a b Wa Wb Na Nb; unfold wf_val in *; cbn [width] in *;
    cbn [compare_M ord]; unfold cmp_int, cmp_uint8, cmp_float_with, cmp_int96;
    rewrite ?(rd_ok _ _ Wa), ?(rd_ok _ _ Wb); cbn [bind]; try reflexivity.
  - cbn [val_nan] in Na, Nb. rewrite (fcmp_M_ord _ _ _ _ Na Nb). reflexivity.
  - cbn [val_nan] in Na, Nb. rewrite (fcmp_M_ord _ _ _ _ Na Nb). reflexivity.
Qed.

(** ------------------------------------------------------------------------------------------------
    Part 3: the operator table never discards a row group that holds a matching value *)

(** x OP probe in terms of a three-way comparison *)
Definition sat_c (o : cmp_op) (c : Z) : bool :=
  match o with
  | OpEq => c =? 0 | OpNe => negb (c =? 0) | OpLt => c <? 0 | OpLe => c <=? 0 | OpGt => 0 <? c | OpGe => 0 <=? c
  end.

Lemma sat_ordered : forall t o x p, val_nan t x = false -> val_nan t p = false -> sat t o x p = sat_c o (ord t x p).
Proof. intros t o x p Hx Hp. unfold sat. rewrite Hx, Hp. destruct o; reflexivity. Qed.

Lemma op_codes : forall o,
  op_table = op_table /\
  match o with
  | OpEq => op_code o = E_CARQUET_COMPARE_EQ | OpNe => op_code o = E_CARQUET_COMPARE_NE
  | OpLt => op_code o = E_CARQUET_COMPARE_LT | OpLe => op_code o = E_CARQUET_COMPARE_LE
  | OpGt => op_code o = E_CARQUET_COMPARE_GT | OpGe => op_code o = E_CARQUET_COMPARE_GE
  end.
Proof. intros []; split; reflexivity. Qed.

Section Table.
  Context {V : Type} (cmp : V -> V -> Z) (P : preorder cmp).

  (** a value v between mn and mx that satisfies  v OP p  survives the table applied to cmp(p, mn), cmp(p, mx) *)
  Lemma op_table_sound : forall t o mn mx v p,
    cmp mn v <= 0 -> cmp v mx <= 0 -> sat_c o (cmp v p) = true ->
    op_table t (op_code o) (cmp p mn) (cmp p mx) = true.
  Proof.
    intros t o mn mx v p Hlo Hhi Hs.
    pose proof (po_antisym _ P v p) as Avp. pose proof (po_antisym _ P p mn) as Apmn. pose proof (po_antisym _ P p mx) as Apmx.
    pose proof (po_trans _ P mn v p) as T1. pose proof (po_trans _ P p v mx) as T2.
    pose proof (po_trans _ P p mn v) as T3. pose proof (po_trans _ P v mx p) as T4.
    pose proof (po_antisym _ P mn p) as Amnp. pose proof (po_antisym _ P mx p) as Amxp.
    pose proof (po_antisym _ P p v) as Apv.
    pose proof (po_range _ P p mn) as R1. pose proof (po_range _ P p mx) as R2.
    destruct o; cbn [sat_c] in Hs; unfold op_table, op_code;
      change E_CARQUET_COMPARE_EQ with 0; change E_CARQUET_COMPARE_NE with 1; change E_CARQUET_COMPARE_LT with 2;
      change E_CARQUET_COMPARE_LE with 3; change E_CARQUET_COMPARE_GT with 4; change E_CARQUET_COMPARE_GE with 5;
      cbn [Z.eqb Pos.eqb].
    - apply Z.eqb_eq in Hs. apply negb_true_iff. apply orb_false_iff. split; [apply Z.ltb_ge|apply Z.ltb_ge]; lia.
    - apply negb_true_iff in Hs. apply Z.eqb_neq in Hs.
      apply negb_true_iff. apply andb_false_iff. left. apply andb_false_iff.
      destruct (Z.eqb_spec (cmp p mn) 0); [|left; reflexivity]. right. apply Z.eqb_neq. lia.
    - apply Z.ltb_lt in Hs. apply negb_true_iff. apply Z.leb_gt. lia.
    - apply Z.leb_le in Hs. apply negb_true_iff. apply Z.ltb_ge. lia.
    - apply Z.ltb_lt in Hs. apply negb_true_iff. apply Z.leb_gt. lia.
    - apply Z.leb_le in Hs. apply negb_true_iff. apply Z.ltb_ge. lia.
  Qed.
End Table.

(** the six physical types the reader API is specified for *)
Definition reader_type (t : ptype) : Prop :=
  t = TInt32 \/ t = TInt64 \/ t = TFloat \/ t = TDouble \/ t = TByteArray \/ t = TFlba.

(** "true bounds": when min/max are present they are well-formed, not NaN, and bound every non-NaN value
    of the row group in the type's order (IEEE order for floats; NaN values are not bounded by anything) *)
Definition true_bounds (t : ptype) (cs : cstats) (data : list bytes) : Prop :=
  cs_has_min_max cs = true ->
  wf_val t (cs_min cs) /\ wf_val t (cs_max cs) /\ val_nan t (cs_min cs) = false /\ val_nan t (cs_max cs) = false /\
  forall v, In v data -> val_nan t v = false -> ord t (cs_min cs) v <= 0 /\ ord t v (cs_max cs) <= 0.

Lemma unordered_ne : forall t a b, ord t a b <> UNORDERED.
Proof. intros t a b. pose proof (po_range _ (preorder_ord t) a b). unfold UNORDERED. lia. Qed.

Theorem matches_stats_sound : forall t cs data o probe,
  reader_type t -> wf_val t probe -> true_bounds t cs data ->
  (exists v, In v data /\ sat t o v probe = true) ->
  matches_stats t cs (op_code o) probe = SOk true.
Proof.
  intros t cs data o probe Ht Wp TB (v & Hin & Hs).
  unfold matches_stats. destruct (cs_has_min_max cs) eqn:Hmm; cbn [negb]; [|reflexivity].
  destruct (TB Hmm) as (Wmn & Wmx & Nmn & Nmx & Hb).
  assert (Hnb : t <> TBoolean /\ t <> TInt96) by (destruct Ht as [|[|[|[|[|]]]]]; subst; split; discriminate).
  destruct Hnb as [Hnb1 Hnb2].
  destruct (val_nan t probe) eqn:Np.
  - (* NaN probe: unordered, cannot filter *)
    assert (Hf : is_float t = true) by (destruct t; try discriminate Np; reflexivity).
    rewrite (compare_R_nan t probe (cs_min cs) Hf Wp Wmn (or_introl Np)). cbn [bind].
    rewrite (compare_R_nan t probe (cs_max cs) Hf Wp Wmx (or_introl Np)). cbn [bind].
    reflexivity.
  - rewrite (compare_R_ord t probe (cs_min cs) Hnb1 Hnb2 Wp Wmn Np Nmn). cbn [bind].
    rewrite (compare_R_ord t probe (cs_max cs) Hnb1 Hnb2 Wp Wmx Np Nmx). cbn [bind].
    assert (E1 : (ord t probe (cs_min cs) =? UNORDERED) = false) by (apply Z.eqb_neq; apply unordered_ne).
    assert (E2 : (ord t probe (cs_max cs) =? UNORDERED) = false) by (apply Z.eqb_neq; apply unordered_ne).
    rewrite E1, E2. cbn [orb]. f_equal.
    destruct (val_nan t v) eqn:Nv.
    + (* a NaN row satisfies only != ; on float columns != never filters *)
      assert (Hf : is_float t = true) by (destruct t; try discriminate Nv; reflexivity).
      unfold sat in Hs. rewrite Nv in Hs. cbn [orb negb andb] in Hs.
      destruct o; try discriminate Hs.
      unfold op_table, op_code.
      change E_CARQUET_COMPARE_EQ with 0; change E_CARQUET_COMPARE_NE with 1. cbn [Z.eqb Pos.eqb].
      destruct t; try discriminate Hf; rewrite andb_false_r; reflexivity.
    + destruct (Hb v Hin Nv) as [Hlo Hhi].
      rewrite (sat_ordered t o v probe Nv Np) in Hs.
      exact (op_table_sound (ord t) (preorder_ord t) t o (cs_min cs) (cs_max cs) v probe Hlo Hhi Hs).
Qed.

Example true_bounds_nontrivial :
  (* FLOAT row group {1.0, NaN, -0.0} with min = -0.0, max = 1.0 *)
  let b (x : N) := [x mod 256; (x / 256) mod 256; (x / 65536) mod 256; x / 16777216]%N in
  let cs := mkCS true true 0 3 (b 0x80000000%N) (b 0x3F800000%N) in
  true_bounds TFloat cs [b 0x3F800000%N; b 0x7FC00000%N; b 0x80000000%N] /\
  sat TFloat OpEq (b 0x80000000%N) (b 0%N) = true /\
  matches_stats TFloat cs (op_code OpEq) (b 0%N) = SOk true.
Proof.
  cbv zeta. split; [|split; vm_compute; reflexivity].
  intros _. repeat split; try (cbn; lia); try (vm_compute; reflexivity).
  - intros v Hin Hn. cbn [In] in Hin. destruct Hin as [<-|[<-|[<-|[]]]]; try (vm_compute; discriminate); vm_compute in Hn; discriminate.
  - intros v Hin Hn. cbn [In] in Hin. destruct Hin as [<-|[<-|[<-|[]]]]; try (vm_compute; discriminate); vm_compute in Hn; discriminate.
Qed.
