(** Model of the column-index builder's page filter in src/metadata/page_index.c (after repair b88f42e):
    carquet_column_index_add_page (what it stores) and carquet_column_index_page_might_match.  No proofs here. *)
From Coq Require Import ZArith NArith List Bool.
From Carquet Require Import Gen.Enums_gen Stats.Order.
Import ListNotations.

Record page := mkPage {
  pg_null_count : Z;
  pg_min : option bytes;      (* min_values[i], NULL when the caller gave none or length <= 0 *)
  pg_max : option bytes;
  pg_null_page : bool }.

Definition add_page (pages : list page) (null_count : Z) (mn mx : option bytes) (is_null_page : bool) : list page :=
  let keep (o : option bytes) := match o with Some (x :: tl) => Some (x :: tl) | _ => None end in
  pages ++ [mkPage null_count (keep mn) (keep mx) is_null_page].

(** carquet_column_index_page_might_match (builder type t).  The query bounds have value_len bytes. *)
Definition page_might_match (t : ptype) (pages : list page) (idx : Z) (qmin qmax : option bytes) : sres (Z * bool) :=
  if (idx <? 0)%Z then SOk (E_CARQUET_ERROR_INVALID_ARGUMENT, true) else
  match nth_error pages (Z.to_nat idx) with
  | None => SOk (E_CARQUET_ERROR_INVALID_ARGUMENT, true)
  | Some pg =>
    if pg_null_page pg then SOk (E_CARQUET_OK, false) else
    bind (match qmax, pg_min pg with
          | Some q, Some mn => bind (compare_P t q mn) (fun c => SOk (c =? -1)%Z)
          | _, _ => SOk false end) (fun low =>
    if low then SOk (E_CARQUET_OK, false) else
    bind (match qmin, pg_max pg with
          | Some q, Some mx => bind (compare_P t q mx) (fun c => SOk (c =? 1)%Z)
          | _, _ => SOk false end) (fun high =>
    SOk (E_CARQUET_OK, negb high)))
  end.
