(** Orders of Parquet physical values as carquet's statistics code has them (C16).

    Values are byte strings as they lie in memory ([list N], bytes below 256, little-endian numbers).
    Floats are bit patterns; IEEE-754 comparison of two non-NaN patterns is comparison of their
    sign-magnitude keys ([fkey]; -0.0 and +0.0 have the same key), every comparison with a NaN is false.

    Three comparator families exist in the code and are modelled where they live:
      R  src/reader/statistics.c    compare_int32/int64/float/double/bytes   (float: -1/0/1, 2 = unordered)
      M  src/metadata/statistics.c  compare_boolean/int32/int64/float/double/int96/byte_array (float: NaN greatest)
      W  src/writer/page_writer.c   raw  v < min_v , v > max_v  on the machine types
      P  src/metadata/page_index.c  compare_page_values (typed when both lengths suffice, else bytes; 2 = unordered)
    All comparators return the SIGN (-1, 0, 1) of what the C function returns (memcmp's magnitude is not
    observable to the callers, which only test the sign). *)
From Coq Require Import ZArith NArith List Bool.
From Carquet Require Import Gen.Enums_gen.
Import ListNotations.

Inductive sfault := SOobRead | SOobWrite.

Inductive sres (A : Type) :=
| SOk (a : A)
| SErr (code : Z)
| SFault (f : sfault).
Arguments SOk {A} _.
Arguments SErr {A} _.
Arguments SFault {A} _.

Definition bytes := list N.

(** little-endian value of a byte string *)
Fixpoint le_val (bs : bytes) : N :=
  match bs with
  | [] => 0
  | b :: tl => b + 256 * le_val tl
  end%N.

(** [*(const T* )p] for a k-byte T: the first k bytes must exist *)
Definition rd (k : nat) (bs : bytes) : sres N :=
  if Nat.leb k (length bs) then SOk (le_val (firstn k bs)) else SFault SOobRead.

(** two's complement *)
Definition sgn (bits : N) (x : N) : Z :=
  if (x <? 2 ^ (bits - 1))%N then Z.of_N x else (Z.of_N x - Z.of_N (2 ^ bits))%Z.

(** (a > b) - (a < b) *)
Definition cmp3 (a b : Z) : Z :=
  if (a <? b)%Z then (-1)%Z else if (b <? a)%Z then 1%Z else 0%Z.

(** ---------------------------------------------------------------- floats as bit patterns *)

Definition is_nan (ebits mbits : N) (x : N) : bool :=
  (* exponent all ones and mantissa non-zero: magnitude above the infinity pattern *)
  let mag := (x mod 2 ^ (ebits + mbits))%N in
  ((2 ^ ebits - 1) * 2 ^ mbits <? mag)%N.

Definition fkey (ebits mbits : N) (x : N) : Z :=
  let w := (ebits + mbits)%N in
  if (x <? 2 ^ w)%N then Z.of_N x else (- Z.of_N (x - 2 ^ w))%Z.

Definition is_nan32 := is_nan 8 23.
Definition is_nan64 := is_nan 11 52.
Definition fkey32 := fkey 8 23.
Definition fkey64 := fkey 11 52.

(** C's  a < b  on float / double *)
Definition flt (nan : N -> bool) (key : N -> Z) (a b : N) : bool :=
  negb (nan a) && negb (nan b) && (key a <? key b)%Z.
Definition feq (nan : N -> bool) (key : N -> Z) (a b : N) : bool :=
  negb (nan a) && negb (nan b) && (key a =? key b)%Z.

Definition UNORDERED : Z := 2.

(** R: if (va < vb) return -1; if (va > vb) return 1; if (va == vb) return 0; return COMPARE_UNORDERED; *)
Definition fcmp_R (nan : N -> bool) (key : N -> Z) (a b : N) : Z :=
  if flt nan key a b then (-1)%Z
  else if flt nan key b a then 1%Z
  else if feq nan key a b then 0%Z
  else UNORDERED.

(** M: NaN sorts after everything, two NaNs are equal *)
Definition fcmp_M (nan : N -> bool) (key : N -> Z) (a b : N) : Z :=
  if nan a && nan b then 0%Z
  else if nan a then 1%Z
  else if nan b then (-1)%Z
  else cmp3 (key a) (key b).

(** ---------------------------------------------------------------- byte strings *)

(** sign of memcmp(a, b, n) for n <= both lengths *)
Fixpoint memcmp_sign (a b : bytes) (n : nat) : Z :=
  match n with
  | O => 0%Z
  | S n' =>
    match a, b with
    | x :: a', y :: b' => if (x <? y)%N then (-1)%Z else if (y <? x)%N then 1%Z else memcmp_sign a' b' n'
    | _, _ => 0%Z    (* not reached: n <= min of the lengths *)
    end
  end.

(** compare_bytes / compare_byte_array: memcmp over the common prefix, then the lengths *)
Definition bytes_cmp (a b : bytes) : Z :=
  let c := memcmp_sign a b (Nat.min (length a) (length b)) in
  if (c =? 0)%Z then cmp3 (Z.of_nat (length a)) (Z.of_nat (length b)) else c.

(** ---------------------------------------------------------------- physical types *)

Inductive ptype := TBoolean | TInt32 | TInt64 | TInt96 | TFloat | TDouble | TByteArray | TFlba.

Definition ptype_code (t : ptype) : Z :=
  match t with
  | TBoolean => E_CARQUET_PHYSICAL_BOOLEAN | TInt32 => E_CARQUET_PHYSICAL_INT32
  | TInt64 => E_CARQUET_PHYSICAL_INT64 | TInt96 => E_CARQUET_PHYSICAL_INT96
  | TFloat => E_CARQUET_PHYSICAL_FLOAT | TDouble => E_CARQUET_PHYSICAL_DOUBLE
  | TByteArray => E_CARQUET_PHYSICAL_BYTE_ARRAY | TFlba => E_CARQUET_PHYSICAL_FIXED_LEN_BYTE_ARRAY
  end.

Definition ptype_of_code (c : Z) : option ptype :=
  if (c =? E_CARQUET_PHYSICAL_BOOLEAN)%Z then Some TBoolean
  else if (c =? E_CARQUET_PHYSICAL_INT32)%Z then Some TInt32
  else if (c =? E_CARQUET_PHYSICAL_INT64)%Z then Some TInt64
  else if (c =? E_CARQUET_PHYSICAL_INT96)%Z then Some TInt96
  else if (c =? E_CARQUET_PHYSICAL_FLOAT)%Z then Some TFloat
  else if (c =? E_CARQUET_PHYSICAL_DOUBLE)%Z then Some TDouble
  else if (c =? E_CARQUET_PHYSICAL_BYTE_ARRAY)%Z then Some TByteArray
  else if (c =? E_CARQUET_PHYSICAL_FIXED_LEN_BYTE_ARRAY)%Z then Some TFlba
  else None.

Definition bind {A B} (x : sres A) (f : A -> sres B) : sres B :=
  match x with SOk a => f a | SErr c => SErr c | SFault e => SFault e end.

(** typed reads of two operands followed by a comparison on the decoded values *)
Definition cmp_int (k : nat) (bits : N) (a b : bytes) : sres Z :=
  bind (rd k a) (fun x => bind (rd k b) (fun y => SOk (cmp3 (sgn bits x) (sgn bits y)))).

Definition cmp_uint8 (a b : bytes) : sres Z :=
  bind (rd 1 a) (fun x => bind (rd 1 b) (fun y => SOk (cmp3 (Z.of_N x) (Z.of_N y)))).

Definition cmp_float_with (f : N -> N -> Z) (k : nat) (a b : bytes) : sres Z :=
  bind (rd k a) (fun x => bind (rd k b) (fun y => SOk (f x y))).

(** M: compare_int96 - three uint32 words, most significant (index 2) first *)
Definition cmp_int96 (a b : bytes) : sres Z :=
  bind (rd 12 a) (fun _ => bind (rd 12 b) (fun _ =>
    let w (bs : bytes) (i : nat) := le_val (firstn 4 (skipn (4 * i) bs)) in
    let c2 := cmp3 (Z.of_N (w a 2)) (Z.of_N (w b 2)) in
    let c1 := cmp3 (Z.of_N (w a 1)) (Z.of_N (w b 1)) in
    let c0 := cmp3 (Z.of_N (w a 0)) (Z.of_N (w b 0)) in
    SOk (if negb (c2 =? 0)%Z then c2 else if negb (c1 =? 0)%Z then c1 else c0))).

(** R: get_compare_fn(type) applied, or compare_bytes when it returns NULL *)
Definition compare_R (t : ptype) (a b : bytes) : sres Z :=
  match t with
  | TInt32 | TBoolean => cmp_int 4 32 a b
  | TInt64 => cmp_int 8 64 a b
  | TFloat => cmp_float_with (fcmp_R is_nan32 fkey32) 4 a b
  | TDouble => cmp_float_with (fcmp_R is_nan64 fkey64) 8 a b
  | _ => SOk (bytes_cmp a b)
  end.

(** M: the switch in carquet_statistics_add_values / carquet_statistics_compare *)
Definition compare_M (t : ptype) (a b : bytes) : sres Z :=
  match t with
  | TBoolean => cmp_uint8 a b
  | TInt32 => cmp_int 4 32 a b
  | TInt64 => cmp_int 8 64 a b
  | TInt96 => cmp_int96 a b
  | TFloat => cmp_float_with (fcmp_M is_nan32 fkey32) 4 a b
  | TDouble => cmp_float_with (fcmp_M is_nan64 fkey64) 8 a b
  | TByteArray | TFlba => SOk (bytes_cmp a b)
  end.

(** M: the switch in carquet_statistics_range_overlaps (everything but the four numeric types and INT96 is bytes) *)
Definition compare_M_overlap (t : ptype) (a b : bytes) : sres Z :=
  match t with
  | TInt32 | TInt64 | TFloat | TDouble | TInt96 => compare_M t a b
  | _ => SOk (bytes_cmp a b)
  end.

(** P: compare_page_values *)
Definition compare_P (t : ptype) (a b : bytes) : sres Z :=
  let typed (k : nat) := Nat.leb k (length a) && Nat.leb k (length b) in
  match t with
  | TInt32 => if typed 4 then cmp_int 4 32 a b else SOk (bytes_cmp a b)
  | TInt64 => if typed 8 then cmp_int 8 64 a b else SOk (bytes_cmp a b)
  | TFloat => if typed 4 then cmp_float_with (fcmp_R is_nan32 fkey32) 4 a b else SOk (bytes_cmp a b)
  | TDouble => if typed 8 then cmp_float_with (fcmp_R is_nan64 fkey64) 8 a b else SOk (bytes_cmp a b)
  | TInt96 => if typed 12 then cmp_int96 a b else SOk (bytes_cmp a b)
  | _ => SOk (bytes_cmp a b)
  end.

(** ---------------------------------------------------------------- the orders the theorems speak about *)

(** width of a fixed-width numeric type in bytes *)
Definition width (t : ptype) : option nat :=
  match t with
  | TBoolean => Some 1 | TInt32 | TFloat => Some 4 | TInt64 | TDouble => Some 8 | TInt96 => Some 12
  | _ => None
  end.

(** a value of the type is NaN *)
Definition val_nan (t : ptype) (v : bytes) : bool :=
  match t with
  | TFloat => is_nan32 (le_val (firstn 4 v))
  | TDouble => is_nan64 (le_val (firstn 8 v))
  | _ => false
  end.

(** the type's order on non-NaN values, as a three-way comparison (sign):
    integers signed, booleans unsigned, floats IEEE (via keys), INT96 by words high to low,
    byte arrays unsigned lexicographic with the shorter prefix first *)
Definition ord (t : ptype) (a b : bytes) : Z :=
  match t with
  | TBoolean => cmp3 (Z.of_N (le_val (firstn 1 a))) (Z.of_N (le_val (firstn 1 b)))
  | TInt32 => cmp3 (sgn 32 (le_val (firstn 4 a))) (sgn 32 (le_val (firstn 4 b)))
  | TInt64 => cmp3 (sgn 64 (le_val (firstn 8 a))) (sgn 64 (le_val (firstn 8 b)))
  | TFloat => cmp3 (fkey32 (le_val (firstn 4 a))) (fkey32 (le_val (firstn 4 b)))
  | TDouble => cmp3 (fkey64 (le_val (firstn 8 a))) (fkey64 (le_val (firstn 8 b)))
  | TInt96 =>
      let w (bs : bytes) (i : nat) := Z.of_N (le_val (firstn 4 (skipn (4 * i) bs))) in
      let c2 := cmp3 (w a 2) (w b 2) in
      let c1 := cmp3 (w a 1) (w b 1) in
      if negb (c2 =? 0)%Z then c2 else if negb (c1 =? 0)%Z then c1 else cmp3 (w a 0) (w b 0)
  | TByteArray | TFlba => bytes_cmp a b
  end.

(** the six predicates  x OP probe  on a stored value x, with C / IEEE semantics: a NaN on either side
    makes =, <, <=, >, >= false and != true *)
Inductive cmp_op := OpEq | OpNe | OpLt | OpLe | OpGt | OpGe.

Definition op_code (o : cmp_op) : Z :=
  match o with
  | OpEq => E_CARQUET_COMPARE_EQ | OpNe => E_CARQUET_COMPARE_NE | OpLt => E_CARQUET_COMPARE_LT
  | OpLe => E_CARQUET_COMPARE_LE | OpGt => E_CARQUET_COMPARE_GT | OpGe => E_CARQUET_COMPARE_GE
  end.

Definition sat (t : ptype) (o : cmp_op) (x probe : bytes) : bool :=
  let unordered := val_nan t x || val_nan t probe in
  let c := ord t x probe in
  match o with
  | OpEq => negb unordered && (c =? 0)%Z
  | OpNe => unordered || negb (c =? 0)%Z
  | OpLt => negb unordered && (c <? 0)%Z
  | OpLe => negb unordered && (c <=? 0)%Z
  | OpGt => negb unordered && (0 <? c)%Z
  | OpGe => negb unordered && (0 <=? c)%Z
  end.
