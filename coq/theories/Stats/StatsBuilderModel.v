(** Models of the two producers of statistics (after the repairs 4510e8c, aa75a2b, e46c658, 04fbbe0):
      src/metadata/statistics.c   carquet_statistics_builder_{create,reset}, carquet_statistics_add_nulls,
                                  carquet_statistics_add_values, carquet_statistics_add_byte_arrays,
                                  carquet_statistics_build
      src/writer/page_writer.c    the null counting of carquet_page_writer_add_values, update_statistics_{i32,i64,
                                  float,double}, and the Statistics struct carquet_page_writer_finalize writes
    No proofs here. *)
From Coq Require Import ZArith NArith List Bool.
From Carquet Require Import Gen.Enums_gen Gen.Stats_gen Stats.Order.
Import ListNotations.

Definition BUF : nat := N.to_nat Stats_BUILDER_MINMAX_SIZE.        (* sizeof(builder->min_value) *)
Definition WBUF : nat := N.to_nat Stats_PAGE_WRITER_MINMAX_SIZE.   (* sizeof(writer->min_value) *)

(** parquet_statistics_t as far as these properties see it: NULL pointer = None *)
Record pstats := mkPS {
  ps_has_null_count : bool;
  ps_null_count : Z;
  ps_min_value : option bytes;        (* field 6 *)
  ps_max_value : option bytes;        (* field 5 *)
  ps_min_deprecated : option bytes;   (* field 2 *)
  ps_max_deprecated : option bytes }. (* field 1 *)

Record sbuilder := mkSB {
  sb_type : ptype;
  sb_type_length : Z;
  sb_has_min : bool;
  sb_has_max : bool;
  sb_null_count : Z;
  sb_num_values : Z;
  sb_min : bytes;                     (* min_value[0 .. min_len) *)
  sb_max : bytes;
  sb_invalid : bool }.                (* min_max_invalid *)

Definition builder_create (t : ptype) (type_length : Z) : sbuilder :=
  mkSB t type_length false false 0 0 [] [] false.

Definition builder_reset (b : sbuilder) : sbuilder :=
  mkSB (sb_type b) (sb_type_length b) false false 0 0 [] [] false.

Definition add_nulls (b : sbuilder) (count : Z) : sbuilder :=
  mkSB (sb_type b) (sb_type_length b) (sb_has_min b) (sb_has_max b) (sb_null_count b + count)%Z
       (sb_num_values b) (sb_min b) (sb_max b) (sb_invalid b).

(** get_value_size; the (size_t) cast of a negative type_length is a huge number, which the buffer
    guard treats like any other oversize: modelled as the natural number BUF + 1 *)
Definition value_size (t : ptype) (type_length : Z) : nat :=
  match t with
  | TBoolean => 1 | TInt32 => 4 | TInt64 => 8 | TInt96 => 12 | TFloat => 4 | TDouble => 8
  | TFlba => if (type_length <? 0)%Z then S BUF else Z.to_nat type_length
  | TByteArray => 0
  end.

(** a store of [len] bytes into one of the fixed buffers *)
Definition store (cap : nat) (v : bytes) : sres bytes :=
  if Nat.leb (length v) cap then SOk v else SFault SOobWrite.

(** one iteration of the loop of carquet_statistics_add_values: [v] is the slice of value_size bytes *)
Definition add_value_step (b : sbuilder) (v : bytes) : sres sbuilder :=
  if val_nan (sb_type b) v then SOk b else
  bind (if sb_has_min b then compare_M (sb_type b) v (sb_min b) else SOk 0%Z) (fun cmin =>
  bind (if sb_has_max b then compare_M (sb_type b) v (sb_max b) else SOk 0%Z) (fun cmax =>
  bind (if negb (sb_has_min b) || (cmin <? 0)%Z then store BUF v else SOk (sb_min b)) (fun mn =>
  bind (if negb (sb_has_max b) || (0 <? cmax)%Z then store BUF v else SOk (sb_max b)) (fun mx =>
  SOk (mkSB (sb_type b) (sb_type_length b) true true (sb_null_count b) (sb_num_values b) mn mx (sb_invalid b)))))).

Fixpoint add_value_loop (b : sbuilder) (vs : list bytes) : sres sbuilder :=
  match vs with
  | [] => SOk b
  | v :: tl => bind (add_value_step b v) (fun b' => add_value_loop b' tl)
  end.

Definition with_count (b : sbuilder) (n : Z) (invalid : bool) : sbuilder :=
  mkSB (sb_type b) (sb_type_length b) (sb_has_min b) (sb_has_max b) (sb_null_count b)
       (sb_num_values b + n)%Z (sb_min b) (sb_max b) invalid.

(** carquet_statistics_add_values(builder, values, num_values): [vs] are the num_values slices of
    value_size bytes of the caller's array.  Returns the status too. *)
Definition add_values (b : sbuilder) (vs : list bytes) : sres (sbuilder * Z) :=
  if Nat.eqb (length vs) 0 then SOk (b, E_CARQUET_ERROR_INVALID_ARGUMENT)
  else
    let vsz := value_size (sb_type b) (sb_type_length b) in
    if Nat.eqb vsz 0 then SOk (b, E_CARQUET_ERROR_INVALID_ARGUMENT)
    else if Nat.ltb BUF vsz then SOk (with_count b (Z.of_nat (length vs)) true, E_CARQUET_OK)
    else bind (add_value_loop b vs) (fun b' => SOk (with_count b' (Z.of_nat (length vs)) (sb_invalid b'), E_CARQUET_OK)).

(** one iteration of carquet_statistics_add_byte_arrays *)
Definition add_bytes_step (b : sbuilder) (v : bytes) : sres sbuilder :=
  if Nat.ltb BUF (length v) then
    SOk (mkSB (sb_type b) (sb_type_length b) (sb_has_min b) (sb_has_max b) (sb_null_count b) (sb_num_values b)
              (sb_min b) (sb_max b) true)
  else
    let cmin := if sb_has_min b then bytes_cmp v (sb_min b) else 0%Z in
    let cmax := if sb_has_max b then bytes_cmp v (sb_max b) else 0%Z in
    bind (if negb (sb_has_min b) || (cmin <? 0)%Z then store BUF v else SOk (sb_min b)) (fun mn =>
    bind (if negb (sb_has_max b) || (0 <? cmax)%Z then store BUF v else SOk (sb_max b)) (fun mx =>
    SOk (mkSB (sb_type b) (sb_type_length b) true true (sb_null_count b) (sb_num_values b) mn mx (sb_invalid b)))).

Fixpoint add_bytes_loop (b : sbuilder) (vs : list bytes) : sres sbuilder :=
  match vs with
  | [] => SOk b
  | v :: tl => bind (add_bytes_step b v) (fun b' => add_bytes_loop b' tl)
  end.

Definition add_byte_arrays (b : sbuilder) (vs : list bytes) : sres (sbuilder * Z) :=
  if Nat.eqb (length vs) 0 then SOk (b, E_CARQUET_ERROR_INVALID_ARGUMENT)
  else match sb_type b with
       | TByteArray =>
           bind (add_bytes_loop b vs) (fun b' => SOk (with_count b' (Z.of_nat (length vs)) (sb_invalid b'), E_CARQUET_OK))
       | _ => SOk (b, E_CARQUET_ERROR_INVALID_ARGUMENT)
       end.

(** carquet_statistics_build *)
Definition build (b : sbuilder) : pstats :=
  let emit (has : bool) (v : bytes) :=
    if has && negb (Nat.eqb (length v) 0) && negb (sb_invalid b) then Some v else None in
  mkPS true (sb_null_count b) (emit (sb_has_min b) (sb_min b)) (emit (sb_has_max b) (sb_max b)) None None.

(** a call sequence on one builder *)
Inductive sop :=
| SAddValues (vs : list bytes)
| SAddBytes (vs : list bytes)
| SAddNulls (count : Z)
| SReset.

Fixpoint run_sops (b : sbuilder) (ops : list sop) (acc : list Z) : sres (sbuilder * list Z) :=
  match ops with
  | [] => SOk (b, rev acc)
  | SAddValues vs :: rest => bind (add_values b vs) (fun r => run_sops (fst r) rest (snd r :: acc))
  | SAddBytes vs :: rest => bind (add_byte_arrays b vs) (fun r => run_sops (fst r) rest (snd r :: acc))
  | SAddNulls c :: rest => run_sops (add_nulls b c) rest acc
  | SReset :: rest => run_sops (builder_reset b) rest acc
  end.

(** ------------------------------------------------------------------ page writer *)

Record pwriter := mkPW {
  pw_type : ptype;
  pw_max_def : Z;
  pw_num_values : Z;
  pw_num_nulls : Z;
  pw_has_min_max : bool;
  pw_min : bytes;
  pw_max : bytes }.

Definition pw_create (t : ptype) (max_def : Z) : pwriter := mkPW t max_def 0 0 false [] [].

(** C's  v < min_v  and  v > max_v  on the machine type *)
Definition w_lt (t : ptype) (a b : bytes) : bool :=
  match t with
  | TInt32 => (sgn 32 (le_val (firstn 4 a)) <? sgn 32 (le_val (firstn 4 b)))%Z
  | TInt64 => (sgn 64 (le_val (firstn 8 a)) <? sgn 64 (le_val (firstn 8 b)))%Z
  | TFloat => flt is_nan32 fkey32 (le_val (firstn 4 a)) (le_val (firstn 4 b))
  | TDouble => flt is_nan64 fkey64 (le_val (firstn 8 a)) (le_val (firstn 8 b))
  | _ => false
  end.

Definition pw_tracks (t : ptype) : bool :=
  match t with TInt32 | TInt64 | TFloat | TDouble => true | _ => false end.

(** one iteration of update_statistics_<T> *)
Definition pw_step (w : pwriter) (v : bytes) : pwriter :=
  if val_nan (pw_type w) v then w
  else if negb (pw_has_min_max w) then
    mkPW (pw_type w) (pw_max_def w) (pw_num_values w) (pw_num_nulls w) true v v
  else
    mkPW (pw_type w) (pw_max_def w) (pw_num_values w) (pw_num_nulls w) true
         (if w_lt (pw_type w) v (pw_min w) then v else pw_min w)
         (if w_lt (pw_type w) (pw_max w) v then v else pw_max w).

(** carquet_page_writer_add_values: [vals] are the non-null values (dense), [defs] the definition levels of the
    num_values rows when the caller passes them (None = NULL pointer) *)
Definition pw_add_values (w : pwriter) (vals : list bytes) (num_values : Z) (defs : option (list Z)) : pwriter :=
  let nulls :=
    match defs with
    | Some ds => if (0 <? pw_max_def w)%Z
                 then (num_values - Z.of_nat (length (filter (fun d => (d =? pw_max_def w)%Z) ds)))%Z
                 else 0%Z
    | None => 0%Z
    end in
  let w1 := mkPW (pw_type w) (pw_max_def w) (pw_num_values w + num_values)%Z (pw_num_nulls w + nulls)%Z
                 (pw_has_min_max w) (pw_min w) (pw_max w) in
  if pw_tracks (pw_type w) then fold_left pw_step vals w1 else w1.

(** the Statistics struct of the data page header (fields 3, 5, 6), present when has_min_max *)
Definition pw_statistics (w : pwriter) : option pstats :=
  if pw_has_min_max w
  then Some (mkPS true (pw_num_nulls w) (Some (pw_min w)) (Some (pw_max w)) None None)
  else None.
