(** Proofs for C17 about Schema/SchemaModel.v and Schema/SchemaBuilderModel.v against Schema/SchemaTree.v. *)
From Coq Require Import ZArith NArith List Bool Arith Lia.
From Carquet Require Import Gen.Enums_gen Gen.Consts_gen Schema.SchemaTree Schema.SchemaModel Schema.SchemaBuilderModel.
Import ListNotations.

Arguments MAX_ELEMS : simpl never.
Arguments Nat.ltb : simpl never.
Arguments Nat.leb : simpl never.
Arguments Z.add : simpl never.
Arguments Z.sub : simpl never.
Arguments Z.of_nat : simpl never.
Arguments Nat.mul : simpl never.

(** the element-count limit read from the sources keeps every level inside int16_t *)
Lemma max_elems_int16 : (Z.of_nat MAX_ELEMS < 32767)%Z.
Proof. vm_compute. reflexivity. Qed.

(** the values of the repetition enum in include/carquet/types.h are those of parquet.thrift *)
Lemma rep_code_optional : rep_code Optional = E_CARQUET_REPETITION_OPTIONAL. Proof. reflexivity. Qed.
Lemma rep_code_repeated : rep_code Repeated = E_CARQUET_REPETITION_REPEATED. Proof. reflexivity. Qed.
Lemma rep_code_required : rep_code Required = E_CARQUET_REPETITION_REQUIRED. Proof. reflexivity. Qed.

(** ------------------------------------------------------------------------------------------------
    Part 1: arbitrary element lists - memory safety, termination, linear cost *)

Lemma count_leaves_app : forall a b, count_leaves (a ++ b) = count_leaves a + count_leaves b.
Proof.
  induction a as [|e a IH]; intro b; simpl; [reflexivity|].
  destruct (is_leaf_elem e); rewrite IH; reflexivity.
Qed.

Definition cl_from (elems : list elem) (i : nat) : nat := count_leaves (skipn i elems).

Lemma cl_from_step : forall elems i e, nth_error elems i = Some e ->
  cl_from elems i = (if is_leaf_elem e then 1 else 0) + cl_from elems (S i).
Proof.
  unfold cl_from. induction elems as [|x xs IH]; intros i e H.
  - destruct i; discriminate.
  - destruct i as [|i].
    + simpl in H. injection H as ->. simpl. destruct (is_leaf_elem e); reflexivity.
    + simpl in H. simpl skipn. apply IH. exact H.
Qed.

Lemma cl_from_mono : forall elems i j, i <= j -> cl_from elems j <= cl_from elems i.
Proof.
  intros elems i j H. induction H as [|j H IH]; [lia|].
  destruct (nth_error elems j) as [e|] eqn:E.
  - rewrite (cl_from_step _ _ _ E) in IH. lia.
  - apply nth_error_None in E. unfold cl_from in *.
    rewrite (skipn_all2 elems) by lia. simpl. lia.
Qed.

Lemma cl_from_0 : forall elems, cl_from elems 0 = count_leaves elems.
Proof. reflexivity. Qed.

(** one-step unfoldings of the mutual fixpoint *)
Lemma trav_S : forall elems f depth idx d r st,
  trav elems (S f) depth idx d r st =
    let st := mkT (ts_room st) (ts_leaves st) (ts_nodes st) (S (ts_calls st)) in
    if MAX_ELEMS <? depth then Fault DepthExceeded else
    if length elems <=? idx then Ok (idx, st) else
    match nth_error elems idx with
    | None => Fault OobRead
    | Some e =>
      let '(td, tr) := level_step e d r in
      let st := mkT (ts_room st) (ts_leaves st) ((td, tr) :: ts_nodes st) (ts_calls st) in
      if is_leaf_elem e then
        match ts_room st with
        | O => Fault OobWrite
        | S room => Ok (S idx, mkT room ((idx, td, tr) :: ts_leaves st) (ts_nodes st) (ts_calls st))
        end
      else kids elems f (S depth) (e_nc e) (S idx) td tr st
    end.
Proof. reflexivity. Qed.

Lemma kids_S : forall elems f depth k next d r st,
  kids elems (S f) depth k next d r st =
    if (0 <? k)%Z && (next <? length elems) then
      match trav elems f depth next d r st with
      | Ok (next', st') => kids elems f depth (k - 1)%Z next' d r st'
      | other => other
      end
    else Ok (next, st).
Proof. reflexivity. Qed.

Lemma trav_0 : forall elems depth idx d r st, trav elems 0 depth idx d r st = Fault OutOfFuel.
Proof. reflexivity. Qed.
Lemma kids_0 : forall elems depth k next d r st, kids elems 0 depth k next d r st = Fault OutOfFuel.
Proof. reflexivity. Qed.

Section Safety.
  Variable elems : list elem.
  Let n := length elems.
  Hypothesis Hmax : n <= MAX_ELEMS.

  (** what one call (resp. one child loop) guarantees *)
  Definition good (idx : nat) (st : tstate) (next : nat) (st' : tstate) : Prop :=
    next <= n /\ cl_from elems next <= ts_room st' /\
    ts_calls st' + idx <= ts_calls st + next /\
    ts_room st' + length (ts_leaves st') = ts_room st + length (ts_leaves st) /\
    length (ts_nodes st') + idx = length (ts_nodes st) + next /\
    (Forall (fun l => fst (fst l) < n) (ts_leaves st) -> Forall (fun l => fst (fst l) < n) (ts_leaves st')).

  Lemma trav_kids_safe : forall fuel,
    (forall depth idx d r st,
        idx < n -> depth <= idx -> 2 * (n - idx) + 1 <= fuel -> cl_from elems idx <= ts_room st ->
        exists next st', trav elems fuel depth idx d r st = Ok (next, st') /\ idx < next /\ good idx st next st')
    /\
    (forall depth k next d r st,
        next <= n -> depth <= next -> 2 * (n - next) + 2 <= fuel -> cl_from elems next <= ts_room st ->
        exists next' st', kids elems fuel depth k next d r st = Ok (next', st') /\ next <= next' /\ good next st next' st').
  Proof.
    induction fuel as [|f [IHt IHk]].
    - split; intros; lia.
    - split.
      + intros depth idx d r st Hidx Hdep Hfuel Hroom.
        rewrite trav_S. cbv zeta. fold n.
        destruct (MAX_ELEMS <? depth) eqn:E1; [apply Nat.ltb_lt in E1; lia|].
        destruct (n <=? idx) eqn:E2; [apply Nat.leb_le in E2; lia|].
        destruct (nth_error elems idx) as [e|] eqn:E3;
          [|apply nth_error_None in E3; fold n in E3; lia].
        destruct (level_step e d r) as [td tr].
        pose proof (cl_from_step _ _ _ E3) as Hstep.
        destruct (is_leaf_elem e) eqn:E4.
        * cbn [ts_room ts_leaves ts_nodes ts_calls].
          destruct (ts_room st) as [|room] eqn:E5; [lia|].
          eexists _, _. split; [reflexivity|]. split; [lia|].
          unfold good. cbn [ts_room ts_leaves ts_nodes ts_calls length]. repeat split; try lia.
          intro HF. constructor; [exact Hidx|exact HF].
        * destruct (IHk (S depth) (e_nc e) (S idx) td tr
                        (mkT (ts_room st) (ts_leaves st) ((td, tr) :: ts_nodes st) (S (ts_calls st))))
            as (next' & st' & Hk & Hle & Hg); cbn [ts_room]; try lia.
          exists next', st'. split; [exact Hk|]. split; [lia|].
          unfold good in *. cbn [ts_room ts_leaves ts_nodes ts_calls length] in Hg. repeat split; try lia.
          apply Hg.
      + intros depth k next d r st Hn Hdep Hfuel Hroom.
        rewrite kids_S. fold n.
        destruct ((0 <? k)%Z && (next <? n)) eqn:E1.
        * apply andb_true_iff in E1. destruct E1 as [_ E1]. apply Nat.ltb_lt in E1.
          destruct (IHt depth next d r st) as (nx & st1 & Ht & Hlt & Hg); try lia.
          rewrite Ht. unfold good in Hg.
          destruct (IHk depth (k - 1)%Z nx d r st1) as (nx' & st2 & Hk & Hle & Hg2); try lia.
          exists nx', st2. split; [exact Hk|]. split; [lia|].
          unfold good in *. repeat split; try lia.
          intro HF. apply Hg2. apply Hg. exact HF.
        * exists next, st. split; [reflexivity|]. split; [lia|]. unfold good. repeat split; try lia. auto.
  Qed.

  Lemma compute_levels_safe :
    exists st, compute_levels elems (count_leaves elems) = Ok st /\
               ts_calls st <= n /\
               ts_room st + length (ts_leaves st) = count_leaves elems /\
               length (ts_nodes st) <= n - 1 /\
               Forall (fun l => fst (fst l) < n) (ts_leaves st).
  Proof.
    unfold compute_levels. fold n.
    destruct (n <=? 1) eqn:E1.
    - eexists. split; [reflexivity|]. cbn [ts_calls ts_room ts_leaves ts_nodes length]. repeat split; try lia. constructor.
    - apply Nat.leb_gt in E1.
      destruct (nth_error elems 0) as [root|] eqn:E2; [|apply nth_error_None in E2; fold n in E2; lia].
      assert (Hf : 2 * (n - 1) + 2 <= fuel_of elems) by (unfold fuel_of; fold n; lia).
      assert (Hr : cl_from elems 1 <= count_leaves elems) by (rewrite <- cl_from_0; apply cl_from_mono; lia).
      destruct (proj2 (trav_kids_safe (fuel_of elems)) 1 (e_nc root) 1 0%Z 0%Z (mkT (count_leaves elems) [] [] 0))
        as (nx & st & Hk & Hle & Hg); cbn [ts_room]; try lia.
      rewrite Hk. exists st. split; [reflexivity|].
      unfold good in Hg. cbn [ts_room ts_leaves ts_nodes ts_calls length] in Hg. repeat split; try lia.
      apply Hg. constructor.
  Qed.
End Safety.

(** ** Theorems for arbitrary element lists *)

Lemma length_pad : forall A (l : list A) x k, length (pad l x k) = length l + k.
Proof. intros. unfold pad. rewrite app_length, repeat_length. reflexivity. Qed.

Definition leaves_in_bounds (s : schema) : Prop :=
  Forall (fun l => fst (fst l) < length (s_elems s)) (s_leaves s).

Theorem build_schema_total : forall elems, length elems <= MAX_ELEMS ->
  match build_schema elems with
  | Ok s => s_elems s = elems /\ length (s_leaves s) = count_leaves elems /\ 0 < count_leaves elems /\
            length (s_nodes s) = length elems /\ s_calls s <= length elems /\ leaves_in_bounds s
  | Err c => (c = E_CARQUET_ERROR_INVALID_SCHEMA /\ forallb has_name elems = false) \/
             (c = E_CARQUET_ERROR_OUT_OF_MEMORY /\ count_leaves elems = 0)
  | Fault _ => False
  end.
Proof.
  intros elems Hmax. unfold build_schema.
  destruct (forallb has_name elems) eqn:En; cbn [negb]; [|left; split; reflexivity].
  destruct (count_leaves elems) as [|nl] eqn:Ec; [right; split; reflexivity|].
  destruct (compute_levels_safe elems Hmax) as (st & Hc & Hcalls & Hroom & Hnodes & HF).
  rewrite Ec in Hc, Hroom. rewrite Hc.
  assert (Hn : 1 <= length elems).
  { destruct elems; [discriminate Ec|simpl; lia]. }
  cbn [s_elems s_leaves s_nodes s_calls]. unfold leaves_in_bounds. cbn [s_elems s_leaves].
  repeat split; try lia.
  - rewrite length_pad, rev_length. lia.
  - rewrite length_pad. cbn [length]. rewrite rev_length. lia.
  - unfold pad. apply Forall_app. split.
    + apply Forall_rev. exact HF.
    + apply Forall_forall. intros x Hx. apply repeat_spec in Hx. subst x. cbn. lia.
Qed.

(** the arrays sized by count_leaves are never overrun, no element is read outside the list, the
    recursion never exceeds the depth the element limit allows and the linear fuel is never exhausted:
    for EVERY element list the parser can deliver *)
Theorem leaf_idx_bounded_thm : forall elems, length elems <= MAX_ELEMS ->
  forall f, build_schema elems <> Fault f.
Proof.
  intros elems H f E. pose proof (build_schema_total elems H) as T. rewrite E in T. exact T.
Qed.

(** cost: at most one call of the recursive function per element (and the fuel [fuel_of], a linear
    function of the element count, suffices by the previous theorem) *)
Theorem traverse_linear_thm : forall elems s, length elems <= MAX_ELEMS ->
  build_schema elems = Ok s -> s_calls s <= 1 * length elems /\ fuel_of elems = 2 * length elems + 3.
Proof.
  intros elems s H E. pose proof (build_schema_total elems H) as T. rewrite E in T.
  split; [lia|reflexivity].
Qed.

Example traverse_linear_hostile :
  (* DESIGN section 6 F10: every child count is INT32_MAX *)
  let g := mkElem (Some 1%N) false 0 0 true 1 2147483647 None in
  let l := mkElem (Some 2%N) true 1 0 true 0 0 None in
  exists s, build_schema [g; g; g; g; l] = Ok s /\ s_calls s = 4 /\ s_leaves s = [(4, 3%Z, 0%Z)].
Proof. eexists. split; [vm_compute; reflexivity|split; reflexivity]. Qed.

(** lookups on any schema the reader builds stay inside the element array *)
Lemma find_from_safe : forall es name ls i,
  Forall (fun l => fst (fst l) < length es) ls ->
  exists j, find_from es name i ls = Ok j /\ (j = (-1)%Z \/ (i <= j < i + Z.of_nat (length ls))%Z).
Proof.
  intros es name ls. induction ls as [|[[ei d] r] tl IH]; intros i HF.
  - exists (-1)%Z. split; [reflexivity|left; reflexivity].
  - inversion HF as [|? ? H1 H2]; subst. cbn [fst] in H1.
    cbn [find_from].
    destruct (nth_error es ei) as [e|] eqn:E; [|apply nth_error_None in E; lia].
    assert (Hlen : Z.of_nat (length ((ei, d, r) :: tl)) = (Z.of_nat (length tl) + 1)%Z) by (cbn [length]; lia).
    destruct (e_name e) as [nm|].
    + destruct (N.eqb nm name).
      * exists i. split; [reflexivity|right; lia].
      * destruct (IH (i + 1)%Z H2) as (j & Hj & Hr). exists j. split; [exact Hj|]. destruct Hr; [left; assumption|right; lia].
    + destruct (IH (i + 1)%Z H2) as (j & Hj & Hr). exists j. split; [exact Hj|]. destruct Hr; [left; assumption|right; lia].
Qed.

Theorem find_column_safe : forall elems s name, length elems <= MAX_ELEMS -> build_schema elems = Ok s ->
  exists j, find_column s name = Ok j /\ (-1 <= j < num_columns s)%Z.
Proof.
  intros elems s name H E. pose proof (build_schema_total elems H) as T. rewrite E in T.
  destruct T as (_ & _ & _ & _ & _ & HB).
  destruct (find_from_safe (s_elems s) name (s_leaves s) 0%Z HB) as (j & Hj & Hr).
  exists j. split; [exact Hj|]. unfold num_columns. lia.
Qed.
