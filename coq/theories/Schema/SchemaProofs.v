(** Proofs for C17 about Schema/SchemaModel.v and Schema/SchemaBuilderModel.v against Schema/SchemaTree.v. *)
From Coq Require Import ZArith NArith List Bool Arith Lia.
From Carquet Require Import Gen.Enums_gen Gen.Consts_gen Schema.SchemaTree Schema.SchemaModel Schema.SchemaBuilderModel.
Import ListNotations.

Arguments MAX_ELEMS : simpl never.
Arguments Nat.ltb : simpl never.
Arguments Nat.leb : simpl never.
Arguments Z.add : simpl never.
Arguments Z.sub : simpl never.
Arguments Z.of_nat : simpl never.
Arguments Nat.mul : simpl never.

(** the element-count limit read from the sources keeps every level inside int16_t *)
Lemma max_elems_int16 : (Z.of_nat MAX_ELEMS < 32767)%Z.
Proof. vm_compute. reflexivity. Qed.

(** the values of the repetition enum in include/carquet/types.h are those of parquet.thrift *)
Lemma rep_code_optional : rep_code Optional = E_CARQUET_REPETITION_OPTIONAL. Proof. reflexivity. Qed.
Lemma rep_code_repeated : rep_code Repeated = E_CARQUET_REPETITION_REPEATED. Proof. reflexivity. Qed.
Lemma rep_code_required : rep_code Required = E_CARQUET_REPETITION_REQUIRED. Proof. reflexivity. Qed.

(** ------------------------------------------------------------------------------------------------
    Part 1: arbitrary element lists - memory safety, termination, linear cost *)

Lemma count_leaves_app : forall a b, count_leaves (a ++ b) = count_leaves a + count_leaves b.
Proof.
  induction a as [|e a IH]; intro b; simpl; [reflexivity|].
  destruct (is_leaf_elem e); rewrite IH; reflexivity.
Qed.

Definition cl_from (elems : list elem) (i : nat) : nat := count_leaves (skipn i elems).

Lemma cl_from_step : forall elems i e, nth_error elems i = Some e ->
  cl_from elems i = (if is_leaf_elem e then 1 else 0) + cl_from elems (S i).
Proof.
  unfold cl_from. induction elems as [|x xs IH]; intros i e H.
  - destruct i; discriminate.
  - destruct i as [|i].
    + simpl in H. injection H as ->. simpl. destruct (is_leaf_elem e); reflexivity.
    + simpl in H. simpl skipn. apply IH. exact H.
Qed.

Lemma cl_from_mono : forall elems i j, i <= j -> cl_from elems j <= cl_from elems i.
Proof.
  intros elems i j H. induction H as [|j H IH]; [lia|].
  destruct (nth_error elems j) as [e|] eqn:E.
  - rewrite (cl_from_step _ _ _ E) in IH. lia.
  - apply nth_error_None in E. unfold cl_from in *.
    rewrite (skipn_all2 elems) by lia. simpl. lia.
Qed.

Lemma cl_from_0 : forall elems, cl_from elems 0 = count_leaves elems.
Proof. reflexivity. Qed.

(** one-step unfoldings of the mutual fixpoint *)
Lemma trav_S : forall elems f depth idx d r st,
  trav elems (S f) depth idx d r st =
    let st := mkT (ts_room st) (ts_leaves st) (ts_nodes st) (S (ts_calls st)) in
    if MAX_ELEMS <? depth then Fault DepthExceeded else
    if length elems <=? idx then Ok (idx, st) else
    match nth_error elems idx with
    | None => Fault OobRead
    | Some e =>
      let '(td, tr) := level_step e d r in
      let st := mkT (ts_room st) (ts_leaves st) ((td, tr) :: ts_nodes st) (ts_calls st) in
      if is_leaf_elem e then
        match ts_room st with
        | O => Fault OobWrite
        | S room => Ok (S idx, mkT room ((idx, td, tr) :: ts_leaves st) (ts_nodes st) (ts_calls st))
        end
      else kids elems f (S depth) (e_nc e) (S idx) td tr st
    end.
Proof. reflexivity. Qed.

Lemma kids_S : forall elems f depth k next d r st,
  kids elems (S f) depth k next d r st =
    if (0 <? k)%Z && (next <? length elems) then
      match trav elems f depth next d r st with
      | Ok (next', st') => kids elems f depth (k - 1)%Z next' d r st'
      | other => other
      end
    else Ok (next, st).
Proof. reflexivity. Qed.

Lemma trav_0 : forall elems depth idx d r st, trav elems 0 depth idx d r st = Fault OutOfFuel.
Proof. reflexivity. Qed.
Lemma kids_0 : forall elems depth k next d r st, kids elems 0 depth k next d r st = Fault OutOfFuel.
Proof. reflexivity. Qed.

Section Safety.
  Variable elems : list elem.
  Let n := length elems.
  Hypothesis Hmax : n <= MAX_ELEMS.

  (** what one call (resp. one child loop) guarantees *)
  Definition good (idx : nat) (st : tstate) (next : nat) (st' : tstate) : Prop :=
    next <= n /\ cl_from elems next <= ts_room st' /\
    ts_calls st' + idx <= ts_calls st + next /\
    ts_room st' + length (ts_leaves st') = ts_room st + length (ts_leaves st) /\
    length (ts_nodes st') + idx = length (ts_nodes st) + next /\
    (Forall (fun l => fst (fst l) < n) (ts_leaves st) -> Forall (fun l => fst (fst l) < n) (ts_leaves st')).

  Lemma trav_kids_safe : forall fuel,
    (forall depth idx d r st,
        idx < n -> depth <= idx -> 2 * (n - idx) + 1 <= fuel -> cl_from elems idx <= ts_room st ->
        exists next st', trav elems fuel depth idx d r st = Ok (next, st') /\ idx < next /\ good idx st next st')
    /\
    (forall depth k next d r st,
        next <= n -> depth <= next -> 2 * (n - next) + 2 <= fuel -> cl_from elems next <= ts_room st ->
        exists next' st', kids elems fuel depth k next d r st = Ok (next', st') /\ next <= next' /\ good next st next' st').
  Proof.
    induction fuel as [|f [IHt IHk]].
    - split; intros; lia.
    - split.
      + intros depth idx d r st Hidx Hdep Hfuel Hroom.
        rewrite trav_S. cbv zeta. fold n.
        destruct (MAX_ELEMS <? depth) eqn:E1; [apply Nat.ltb_lt in E1; lia|].
        destruct (n <=? idx) eqn:E2; [apply Nat.leb_le in E2; lia|].
        destruct (nth_error elems idx) as [e|] eqn:E3;
          [|apply nth_error_None in E3; fold n in E3; lia].
        destruct (level_step e d r) as [td tr].
        pose proof (cl_from_step _ _ _ E3) as Hstep.
        destruct (is_leaf_elem e) eqn:E4.
        * cbn [ts_room ts_leaves ts_nodes ts_calls].
          destruct (ts_room st) as [|room] eqn:E5; [lia|].
          eexists _, _. split; [reflexivity|]. split; [lia|].
          unfold good. cbn [ts_room ts_leaves ts_nodes ts_calls length]. repeat split; try lia.
          intro HF. constructor; [exact Hidx|exact HF].
        * destruct (IHk (S depth) (e_nc e) (S idx) td tr
                        (mkT (ts_room st) (ts_leaves st) ((td, tr) :: ts_nodes st) (S (ts_calls st))))
            as (next' & st' & Hk & Hle & Hg); cbn [ts_room]; try lia.
          exists next', st'. split; [exact Hk|]. split; [lia|].
          unfold good in *. cbn [ts_room ts_leaves ts_nodes ts_calls length] in Hg. repeat split; try lia.
          apply Hg.
      + intros depth k next d r st Hn Hdep Hfuel Hroom.
        rewrite kids_S. fold n.
        destruct ((0 <? k)%Z && (next <? n)) eqn:E1.
        * apply andb_true_iff in E1. destruct E1 as [_ E1]. apply Nat.ltb_lt in E1.
          destruct (IHt depth next d r st) as (nx & st1 & Ht & Hlt & Hg); try lia.
          rewrite Ht. unfold good in Hg.
          destruct (IHk depth (k - 1)%Z nx d r st1) as (nx' & st2 & Hk & Hle & Hg2); try lia.
          exists nx', st2. split; [exact Hk|]. split; [lia|].
          unfold good in *. repeat split; try lia.
          intro HF. apply Hg2. apply Hg. exact HF.
        * exists next, st. split; [reflexivity|]. split; [lia|]. unfold good. repeat split; try lia. auto.
  Qed.

  Lemma compute_levels_safe :
    exists st, compute_levels elems (count_leaves elems) = Ok st /\
               ts_calls st <= n /\
               ts_room st + length (ts_leaves st) = count_leaves elems /\
               length (ts_nodes st) <= n - 1 /\
               Forall (fun l => fst (fst l) < n) (ts_leaves st).
  Proof.
    unfold compute_levels. fold n.
    destruct (n <=? 1) eqn:E1.
    - eexists. split; [reflexivity|]. cbn [ts_calls ts_room ts_leaves ts_nodes length]. repeat split; try lia. constructor.
    - apply Nat.leb_gt in E1.
      destruct (nth_error elems 0) as [root|] eqn:E2; [|apply nth_error_None in E2; fold n in E2; lia].
      assert (Hf : 2 * (n - 1) + 2 <= fuel_of elems) by (unfold fuel_of; fold n; lia).
      assert (Hr : cl_from elems 1 <= count_leaves elems) by (rewrite <- cl_from_0; apply cl_from_mono; lia).
      destruct (proj2 (trav_kids_safe (fuel_of elems)) 1 (e_nc root) 1 0%Z 0%Z (mkT (count_leaves elems) [] [] 0))
        as (nx & st & Hk & Hle & Hg); cbn [ts_room]; try lia.
      rewrite Hk. exists st. split; [reflexivity|].
      unfold good in Hg. cbn [ts_room ts_leaves ts_nodes ts_calls length] in Hg. repeat split; try lia.
      apply Hg. constructor.
  Qed.
End Safety.

(** ** Theorems for arbitrary element lists *)

Lemma length_pad : forall A (l : list A) x k, length (pad l x k) = length l + k.
Proof. intros. unfold pad. rewrite app_length, repeat_length. reflexivity. Qed.

Definition leaves_in_bounds (s : schema) : Prop :=
  Forall (fun l => fst (fst l) < length (s_elems s)) (s_leaves s).

Theorem build_schema_total : forall elems, length elems <= MAX_ELEMS ->
  match build_schema elems with
  | Ok s => s_elems s = elems /\ length (s_leaves s) = count_leaves elems /\ 0 < count_leaves elems /\
            length (s_nodes s) = length elems /\ s_calls s <= length elems /\ leaves_in_bounds s
  | Err c => (c = E_CARQUET_ERROR_INVALID_SCHEMA /\ forallb has_name elems = false) \/
             (c = E_CARQUET_ERROR_OUT_OF_MEMORY /\ count_leaves elems = 0)
  | Fault _ => False
  end.
Proof.
  intros elems Hmax. unfold build_schema.
  destruct (forallb has_name elems) eqn:En; cbn [negb]; [|left; split; reflexivity].
  destruct (count_leaves elems) as [|nl] eqn:Ec; [right; split; reflexivity|].
  destruct (compute_levels_safe elems Hmax) as (st & Hc & Hcalls & Hroom & Hnodes & HF).
  rewrite Ec in Hc, Hroom. rewrite Hc.
  assert (Hn : 1 <= length elems).
  { destruct elems; [discriminate Ec|simpl; lia]. }
  cbn [s_elems s_leaves s_nodes s_calls]. unfold leaves_in_bounds. cbn [s_elems s_leaves].
  repeat split; try lia.
  - rewrite length_pad, rev_length. lia.
  - rewrite length_pad. cbn [length]. rewrite rev_length. lia.
  - unfold pad. apply Forall_app. split.
    + apply Forall_rev. exact HF.
    + apply Forall_forall. intros x Hx. apply repeat_spec in Hx. subst x. cbn. lia.
Qed.

(** the arrays sized by count_leaves are never overrun, no element is read outside the list, the
    recursion never exceeds the depth the element limit allows and the linear fuel is never exhausted:
    for EVERY element list the parser can deliver *)
Theorem leaf_idx_bounded_thm : forall elems, length elems <= MAX_ELEMS ->
  forall f, build_schema elems <> Fault f.
Proof.
  intros elems H f E. pose proof (build_schema_total elems H) as T. rewrite E in T. exact T.
Qed.

(** cost: at most one call of the recursive function per element (and the fuel [fuel_of], a linear
    function of the element count, suffices by the previous theorem) *)
Theorem traverse_linear_thm : forall elems s, length elems <= MAX_ELEMS ->
  build_schema elems = Ok s -> s_calls s <= 1 * length elems /\ fuel_of elems = 2 * length elems + 3.
Proof.
  intros elems s H E. pose proof (build_schema_total elems H) as T. rewrite E in T.
  split; [lia|reflexivity].
Qed.

Example traverse_linear_hostile :
  (* DESIGN section 6 F10: every child count is INT32_MAX *)
  let g := mkElem (Some 1%N) false 0 0 true 1 2147483647 None in
  let l := mkElem (Some 2%N) true 1 0 true 0 0 None in
  exists s, build_schema [g; g; g; g; l] = Ok s /\ s_calls s = 4 /\ s_leaves s = [(4, 3%Z, 0%Z)].
Proof. eexists. split; [vm_compute; reflexivity|split; reflexivity]. Qed.

(** lookups on any schema the reader builds stay inside the element array *)
Lemma find_from_safe : forall es name ls i,
  Forall (fun l => fst (fst l) < length es) ls ->
  exists j, find_from es name i ls = Ok j /\ (j = (-1)%Z \/ (i <= j < i + Z.of_nat (length ls))%Z).
Proof.
  intros es name ls. induction ls as [|[[ei d] r] tl IH]; intros i HF.
  - exists (-1)%Z. split; [reflexivity|left; reflexivity].
  - inversion HF as [|? ? H1 H2]; subst. cbn [fst] in H1.
    cbn [find_from].
    destruct (nth_error es ei) as [e|] eqn:E; [|apply nth_error_None in E; lia].
    assert (Hlen : Z.of_nat (length ((ei, d, r) :: tl)) = (Z.of_nat (length tl) + 1)%Z) by (cbn [length]; lia).
    destruct (e_name e) as [nm|].
    + destruct (N.eqb nm name).
      * exists i. split; [reflexivity|right; lia].
      * destruct (IH (i + 1)%Z H2) as (j & Hj & Hr). exists j. split; [exact Hj|]. destruct Hr; [left; assumption|right; lia].
    + destruct (IH (i + 1)%Z H2) as (j & Hj & Hr). exists j. split; [exact Hj|]. destruct Hr; [left; assumption|right; lia].
Qed.

Theorem find_column_safe : forall elems s name, length elems <= MAX_ELEMS -> build_schema elems = Ok s ->
  exists j, find_column s name = Ok j /\ (-1 <= j < num_columns s)%Z.
Proof.
  intros elems s name H E. pose proof (build_schema_total elems H) as T. rewrite E in T.
  destruct T as (_ & _ & _ & _ & _ & HB).
  destruct (find_from_safe (s_elems s) name (s_leaves s) 0%Z HB) as (j & Hj & Hr).
  exists j. split; [exact Hj|]. unfold num_columns. lia.
Qed.

(** ------------------------------------------------------------------------------------------------
    Part 2: flattenings of trees - the traversal computes the textbook columns *)

(** induction principle for rose trees (nested recursion through lists) *)
Section TreeInd.
  Variable P : tree -> Prop.
  Variable Q : list tree -> Prop.
  Hypothesis HL : forall r i, P (Leaf r i).
  Hypothesis HG : forall r nm cs, Q cs -> P (Group r nm cs).
  Hypothesis HN : Q [].
  Hypothesis HC : forall t ts, P t -> Q ts -> Q (t :: ts).
  Fixpoint tree_ind2 (t : tree) : P t :=
    match t with
    | Leaf r i => HL r i
    | Group r nm cs =>
        HG r nm cs ((fix go (l : list tree) : Q l :=
                       match l with [] => HN | c :: l' => HC c l' (tree_ind2 c) (go l') end) cs)
    end.
  Definition forest_ind2 : forall l, Q l :=
    fix go (l : list tree) : Q l := match l with [] => HN | c :: l' => HC c l' (tree_ind2 c) (go l') end.
End TreeInd.

Definition cdef (rp : repetition) : Z := if not_required rp then 1%Z else 0%Z.
Definition crep (rp : repetition) : Z := if is_repeated rp then 1%Z else 0%Z.

Lemma max_def_cons : forall rp p, max_def (rp :: p) = (cdef rp + max_def p)%Z.
Proof. intros [] p; unfold max_def, cdef; cbn [filter not_required length]; lia. Qed.
Lemma max_rep_cons : forall rp p, max_rep (rp :: p) = (crep rp + max_rep p)%Z.
Proof. intros [] p; unfold max_rep, crep; cbn [filter is_repeated length]; lia. Qed.
Lemma max_def_nil : max_def [] = 0%Z. Proof. reflexivity. Qed.
Lemma max_rep_nil : max_rep [] = 0%Z. Proof. reflexivity. Qed.

(** levels of a leaf record below inherited levels d, r *)
Definition lv (d r : Z) (x : lrec) : nat * Z * Z :=
  match x with (pos, p, _) => (pos, (d + max_def p)%Z, (r + max_rep p)%Z) end.

Lemma lv_push : forall d r rp x, lv d r (push rp x) = lv (d + cdef rp) (r + crep rp) x.
Proof.
  intros d r rp [[pos p] i]. unfold lv, push. rewrite max_def_cons, max_rep_cons.
  f_equal; [f_equal|]; lia.
Qed.

Lemma paths_from_group : forall s r nm cs, paths_from s (Group r nm cs) = map (push r) (forest_from (S s) cs).
Proof. reflexivity. Qed.

Lemma size_pos : forall t, 1 <= size t.
Proof. destruct t; simpl; lia. Qed.

Lemma flatten_length : forall t, length (flatten t) = size t.
Proof.
  apply (tree_ind2 (fun t => length (flatten t) = size t)
                   (fun cs => length (flat_map flatten cs) = forest_size cs)).
  - reflexivity.
  - intros r nm cs H. cbn [flatten size length]. rewrite H. reflexivity.
  - reflexivity.
  - intros t ts Ht Hts. cbn [flat_map]. rewrite app_length, Ht, Hts. reflexivity.
Qed.

Lemma flat_map_flatten_length : forall cs, length (flat_map flatten cs) = forest_size cs.
Proof.
  induction cs as [|c cs IH]; [reflexivity|].
  cbn [flat_map]. rewrite app_length, flatten_length, IH. reflexivity.
Qed.

Lemma forest_size_cons : forall c cs, forest_size (c :: cs) = size c + forest_size cs.
Proof. reflexivity. Qed.

Lemma node_levels_length : forall t d r, length (node_levels d r t) = size t.
Proof.
  apply (tree_ind2 (fun t => forall d r, length (node_levels d r t) = size t)
                   (fun cs => forall d r, length (flat_map (node_levels d r) cs) = forest_size cs)).
  - reflexivity.
  - intros rp nm cs H d r. cbn [node_levels size length]. rewrite H. reflexivity.
  - reflexivity.
  - intros t ts Ht Hts d r. cbn [flat_map]. rewrite app_length, Ht, Hts. reflexivity.
Qed.

Lemma nth_error_middle : forall A (pre : list A) x post, nth_error (pre ++ x :: post) (length pre) = Some x.
Proof. intros. rewrite nth_error_app2 by lia. rewrite Nat.sub_diag. reflexivity. Qed.

Lemma inc16_small : forall x, (0 <= x < 32767)%Z -> inc16 x = (x + 1)%Z.
Proof. intros x H. unfold inc16. destruct (Z.eqb_spec (x + 1) 32768); [lia|reflexivity]. Qed.

Lemma level_step_tree : forall e rp d r,
  e_has_rep e = true -> e_rep e = rep_code rp -> (0 <= d < 32767)%Z -> (0 <= r < 32767)%Z ->
  level_step e d r = ((d + cdef rp)%Z, (r + crep rp)%Z).
Proof.
  intros e rp d r Hh Hr Hd Hrr. unfold level_step. rewrite Hh, Hr.
  destruct rp; cbn [rep_code cdef crep not_required is_repeated];
    change E_CARQUET_REPETITION_OPTIONAL with 1%Z; change E_CARQUET_REPETITION_REPEATED with 2%Z;
    cbn [Z.eqb Pos.eqb]; rewrite ?inc16_small by lia; f_equal; lia.
Qed.

Section Trees.
  Variable elems : list elem.
  Let n := length elems.
  Hypothesis Hmax : n <= MAX_ELEMS.

  Definition lvl_ok (depth : nat) (d r : Z) : Prop :=
    (0 <= d <= Z.of_nat depth - 1)%Z /\ (0 <= r <= Z.of_nat depth - 1)%Z.

  Definition Ptree (t : tree) : Prop := forall pre post fuel depth d r st,
    elems = pre ++ flatten t ++ post -> wf t = true ->
    2 * (n - length pre) + 1 <= fuel -> 1 <= depth <= length pre -> lvl_ok depth d r ->
    length (paths_from (length pre) t) <= ts_room st ->
    trav elems fuel depth (length pre) d r st =
      Ok (length pre + size t,
          mkT (ts_room st - length (paths_from (length pre) t))
              (rev (map (lv d r) (paths_from (length pre) t)) ++ ts_leaves st)
              (rev (node_levels d r t) ++ ts_nodes st)
              (ts_calls st + size t)).

  Definition Pforest (cs : list tree) : Prop := forall pre post fuel depth d r st,
    elems = pre ++ flat_map flatten cs ++ post -> forallb wf cs = true ->
    2 * (n - length pre) + 2 <= fuel -> 1 <= depth <= length pre -> lvl_ok depth d r ->
    length (forest_from (length pre) cs) <= ts_room st ->
    kids elems fuel depth (Z.of_nat (length cs)) (length pre) d r st =
      Ok (length pre + forest_size cs,
          mkT (ts_room st - length (forest_from (length pre) cs))
              (rev (map (lv d r) (forest_from (length pre) cs)) ++ ts_leaves st)
              (rev (flat_map (node_levels d r) cs) ++ ts_nodes st)
              (ts_calls st + forest_size cs)).

  Lemma n_split : forall pre mid post, elems = pre ++ mid ++ post -> n = length pre + length mid + length post.
  Proof. intros pre mid post H. unfold n. rewrite H, !app_length. lia. Qed.

  Lemma Ptree_leaf : forall rp i, Ptree (Leaf rp i).
  Proof.
      intros rp i pre post fuel depth d r st Hel _ Hfuel Hdep [Hd Hr] Hroom.
      pose proof (n_split _ _ _ Hel) as Hn. cbn [flatten length] in Hn.
      pose proof max_elems_int16 as H16.
      destruct fuel as [|f]; [lia|]. rewrite trav_S. cbv zeta. fold n.
      destruct (MAX_ELEMS <? depth) eqn:E1; [apply Nat.ltb_lt in E1; lia|].
      destruct (n <=? length pre) eqn:E2; [apply Nat.leb_le in E2; lia|].
      rewrite Hel. cbn [flatten app]. rewrite nth_error_middle.
      rewrite (level_step_tree _ rp) by (try reflexivity; lia).
      cbn [is_leaf_elem leaf_elem e_nc Z.eqb ts_room ts_leaves ts_nodes ts_calls].
      cbn [paths_from length] in Hroom |- *.
      destruct (ts_room st) as [|room] eqn:E3; [lia|].
      cbn [size map rev app node_levels lv]. rewrite max_def_cons, max_rep_cons, max_def_nil, max_rep_nil.
      unfold cdef, crep. repeat f_equal; lia.
  Qed.

  Lemma Ptree_group : forall rp nm cs, Pforest cs -> Ptree (Group rp nm cs).
  Proof.
      intros rp nm cs HQ pre post fuel depth d r st Hel Hwf Hfuel Hdep [Hd Hr] Hroom.
      pose proof (n_split _ _ _ Hel) as Hn. cbn [flatten length] in Hn.
      pose proof max_elems_int16 as H16.
      cbn [wf] in Hwf. apply andb_true_iff in Hwf. destruct Hwf as [Hne Hwf].
      destruct fuel as [|f]; [lia|]. rewrite trav_S. cbv zeta. fold n.
      destruct (MAX_ELEMS <? depth) eqn:E1; [apply Nat.ltb_lt in E1; lia|].
      destruct (n <=? length pre) eqn:E2; [apply Nat.leb_le in E2; lia|].
      rewrite Hel at 1. cbn [flatten app]. rewrite nth_error_middle.
      rewrite (level_step_tree _ rp) by (try reflexivity; lia).
      assert (Hleaf : is_leaf_elem (group_elem (Some rp) nm (length cs)) = false).
      { unfold is_leaf_elem. cbn [group_elem e_nc]. destruct cs; [discriminate Hne|].
        cbn [length]. apply Z.eqb_neq. lia. }
      rewrite Hleaf. cbn [group_elem e_nc ts_room ts_leaves ts_nodes ts_calls].
      rewrite paths_from_group in Hroom |- *. rewrite map_length in Hroom |- *.
      assert (Hel' : elems = (pre ++ [group_elem (Some rp) nm (length cs)]) ++ flat_map flatten cs ++ post).
      { rewrite Hel. cbn [flatten]. rewrite <- app_assoc. reflexivity. }
      assert (Hlen : length (pre ++ [group_elem (Some rp) nm (length cs)]) = S (length pre))
        by (rewrite app_length; cbn [length]; lia).
      specialize (HQ _ post f (S depth) (d + cdef rp)%Z (r + crep rp)%Z
                     (mkT (ts_room st) (ts_leaves st) ((d + cdef rp, r + crep rp)%Z :: ts_nodes st) (S (ts_calls st)))
                     Hel' Hwf).
      rewrite Hlen in HQ. rewrite HQ; cbn [ts_room ts_leaves ts_nodes ts_calls]; try lia.
      + cbn [size node_levels]. fold (cdef rp) (crep rp). fold (forest_size cs).
        rewrite map_map. rewrite (map_ext _ _ (fun x => lv_push d r rp x)).
        cbn [rev]. rewrite <- !app_assoc. cbn [app].
        f_equal. f_equal; [lia|]. f_equal; lia.
      + unfold lvl_ok, cdef, crep. destruct (not_required rp), (is_repeated rp); lia.
  Qed.

  Lemma Pforest_nil : Pforest [].
  Proof.
      intros pre post fuel depth d r st Hel _ Hfuel Hdep _ Hroom.
      destruct fuel as [|f]; [lia|]. rewrite kids_S.
      cbn [length Z.of_nat Z.ltb andb forest_from map rev app flat_map forest_size list_sum].
      change (0 <? Z.of_nat 0)%Z with false. cbn [andb].
      change (forest_size []) with 0.
      f_equal. f_equal; [lia|].
      destruct st as [a b c e]; cbn [ts_room ts_leaves ts_nodes ts_calls]. f_equal; lia.
  Qed.

  Lemma Pforest_cons : forall c cs, Ptree c -> Pforest cs -> Pforest (c :: cs).
  Proof.
      intros c cs HP HQ pre post fuel depth d r st Hel Hwf Hfuel Hdep Hlv Hroom.
      cbn [forallb] in Hwf. apply andb_true_iff in Hwf. destruct Hwf as [Hwc Hwf].
      cbn [flat_map] in Hel. rewrite <- app_assoc in Hel.
      pose proof (n_split _ _ _ Hel) as Hn. rewrite flatten_length in Hn.
      pose proof (size_pos c) as Hsz.
      cbn [forest_from] in Hroom |- *. rewrite app_length in Hroom |- *.
      destruct fuel as [|f]; [lia|]. rewrite kids_S. fold n.
      assert (E1 : ((0 <? Z.of_nat (length (c :: cs)))%Z && (length pre <? n)) = true).
      { apply andb_true_iff. split; [apply Z.ltb_lt; cbn [length]; lia|apply Nat.ltb_lt; lia]. }
      rewrite E1.
      rewrite (HP pre (flat_map flatten cs ++ post) f depth d r st Hel Hwc) by (try assumption; lia).
      assert (Hel' : elems = (pre ++ flatten c) ++ flat_map flatten cs ++ post)
        by (rewrite Hel, <- app_assoc; reflexivity).
      assert (Hlen : length (pre ++ flatten c) = length pre + size c)
        by (rewrite app_length, flatten_length; reflexivity).
      specialize (HQ _ post f depth d r
                     (mkT (ts_room st - length (paths_from (length pre) c))
                          (rev (map (lv d r) (paths_from (length pre) c)) ++ ts_leaves st)
                          (rev (node_levels d r c) ++ ts_nodes st) (ts_calls st + size c)) Hel' Hwf).
      rewrite Hlen in HQ.
      replace (Z.of_nat (length (c :: cs)) - 1)%Z with (Z.of_nat (length cs)) by (cbn [length]; lia).
      rewrite HQ; cbn [ts_room ts_leaves ts_nodes ts_calls]; try lia; try assumption.
      rewrite forest_size_cons. cbn [flat_map]. rewrite map_app, !rev_app_distr, <- !app_assoc.
      f_equal. f_equal; [lia|]. f_equal; lia.
  Qed.

  Lemma trav_tree : forall t, Ptree t.
  Proof. exact (tree_ind2 Ptree Pforest Ptree_leaf Ptree_group Pforest_nil Pforest_cons). Qed.

  Lemma kids_forest : forall cs, Pforest cs.
  Proof. exact (forest_ind2 Ptree Pforest Ptree_leaf Ptree_group Pforest_nil Pforest_cons). Qed.
End Trees.

Lemma has_name_flatten : forall t, forallb has_name (flatten t) = true.
Proof.
  apply (tree_ind2 (fun t => forallb has_name (flatten t) = true)
                   (fun cs => forallb has_name (flat_map flatten cs) = true)).
  - reflexivity.
  - intros r nm cs H. cbn [flatten forallb]. rewrite H. reflexivity.
  - reflexivity.
  - intros t ts Ht Hts. cbn [flat_map]. rewrite forallb_app, Ht, Hts. reflexivity.
Qed.

Lemma has_name_forest : forall cs, forallb has_name (flat_map flatten cs) = true.
Proof.
  induction cs as [|c cs IH]; [reflexivity|]. cbn [flat_map]. rewrite forallb_app, has_name_flatten, IH. reflexivity.
Qed.

Lemma count_leaves_flatten : forall t, wf t = true -> forall s, count_leaves (flatten t) = length (paths_from s t).
Proof.
  apply (tree_ind2 (fun t => wf t = true -> forall s, count_leaves (flatten t) = length (paths_from s t))
                   (fun cs => forallb wf cs = true -> forall s, count_leaves (flat_map flatten cs) = length (forest_from s cs))).
  - reflexivity.
  - intros r nm cs H Hwf s. cbn [wf] in Hwf. apply andb_true_iff in Hwf. destruct Hwf as [Hne Hwf].
    rewrite paths_from_group, map_length. cbn [flatten count_leaves].
    assert (Hl : is_leaf_elem (group_elem (Some r) nm (length cs)) = false).
    { unfold is_leaf_elem. cbn [group_elem e_nc]. destruct cs; [discriminate Hne|]. cbn [length]. apply Z.eqb_neq. lia. }
    rewrite Hl. apply H. exact Hwf.
  - reflexivity.
  - intros t ts Ht Hts Hwf s. cbn [forallb] in Hwf. apply andb_true_iff in Hwf. destruct Hwf as [H1 H2].
    cbn [flat_map forest_from]. rewrite count_leaves_app, app_length, (Ht H1 s), (Hts H2 (s + size t)). reflexivity.
Qed.

Lemma count_leaves_forest : forall cs, forallb wf cs = true -> forall s,
  count_leaves (flat_map flatten cs) = length (forest_from s cs).
Proof.
  induction cs as [|c cs IH]; intros Hwf s; [reflexivity|].
  cbn [forallb] in Hwf. apply andb_true_iff in Hwf. destruct Hwf as [H1 H2].
  cbn [flat_map forest_from]. rewrite count_leaves_app, app_length, (count_leaves_flatten c H1 s), (IH H2 (s + size c)). reflexivity.
Qed.

Lemma paths_nonempty : forall t s, wf t = true -> 1 <= length (paths_from s t).
Proof.
  apply (tree_ind2 (fun t => forall s, wf t = true -> 1 <= length (paths_from s t))
                   (fun l => forall s, l <> [] -> forallb wf l = true -> 1 <= length (forest_from s l))).
  - intros. cbn. lia.
  - intros r nm l H s Hw. cbn [wf] in Hw. apply andb_true_iff in Hw. destruct Hw as [A B].
    rewrite paths_from_group, map_length. apply H; [destruct l; [discriminate A|congruence]|exact B].
  - intros s H. congruence.
  - intros t ts Ht _ s _ Hw. cbn [forallb] in Hw. apply andb_true_iff in Hw. destruct Hw as [A B].
    cbn [forest_from]. rewrite app_length. specialize (Ht s A). lia.
Qed.

(** (element index, max def, max rep) of a leaf record *)
Definition leaf_levels (x : lrec) : nat * Z * Z := match x with (pos, p, _) => (pos, max_def p, max_rep p) end.

Lemma lv_0 : forall x, lv 0 0 x = leaf_levels x.
Proof. intros [[pos p] i]. unfold lv, leaf_levels. rewrite !Z.add_0_l. reflexivity. Qed.

Definition tree_schema (rr : option repetition) (nm : N) (children : list tree) : schema :=
  mkSchema (schema_of rr nm children)
           (map leaf_levels (leaves children))
           ((0%Z, 0%Z) :: flat_map (node_levels 0 0) children)
           (forest_size children).

(** ** levels_correct *)
Theorem levels_correct_thm : forall rr nm children,
  children <> [] -> forallb wf children = true -> S (forest_size children) <= MAX_ELEMS ->
  build_schema (schema_of rr nm children) = Ok (tree_schema rr nm children).
Proof.
  intros rr nm children Hne Hwf Hmax.
  set (root := group_elem rr nm (length children)).
  assert (Hn : length (schema_of rr nm children) = S (forest_size children)).
  { unfold schema_of. cbn [length]. rewrite flat_map_flatten_length. reflexivity. }
  assert (Hsz : 1 <= forest_size children).
  { destruct children as [|c cs]; [congruence|]. rewrite forest_size_cons. pose proof (size_pos c). lia. }
  assert (Hroot : is_leaf_elem root = false).
  { unfold is_leaf_elem, root. cbn [group_elem e_nc]. destruct children; [congruence|]. cbn [length]. apply Z.eqb_neq. lia. }
  assert (Hcl : count_leaves (schema_of rr nm children) = length (leaves children)).
  { unfold schema_of. fold root. cbn [count_leaves]. rewrite Hroot. apply count_leaves_forest. exact Hwf. }
  unfold build_schema.
  assert (Hnames : forallb has_name (schema_of rr nm children) = true).
  { unfold schema_of. cbn [forallb]. rewrite has_name_forest. reflexivity. }
  rewrite Hnames. cbn [negb]. rewrite Hcl.
  assert (Hlv : 1 <= length (leaves children)).
  { rewrite <- Hcl. unfold schema_of. fold root. cbn [count_leaves]. rewrite Hroot.
    destruct children as [|c cs]; [congruence|]. cbn [flat_map]. rewrite count_leaves_app.
    cbn [forallb] in Hwf. apply andb_true_iff in Hwf. destruct Hwf as [Hwc _].
    rewrite (count_leaves_flatten c Hwc 0). destruct c; cbn [paths_from length]; [lia|].
    cbn [wf] in Hwc. apply andb_true_iff in Hwc. destruct Hwc as [Hne2 Hwc].
    (* a group has at least one leaf below it: shown through count_leaves of its flattening *)
    clear - Hne2 Hwc. rewrite map_length.
    pose proof paths_nonempty as G.
    destruct cs0 as [|c0 cs0]; [discriminate Hne2|].
    cbn [forallb] in Hwc. apply andb_true_iff in Hwc. destruct Hwc as [A B].
    cbn [forest_from]. rewrite app_length. specialize (G c0 1 A). lia. }
  destruct (length (leaves children)) as [|nl] eqn:Enl; [lia|]. rewrite <- Enl. clear Hlv.
  unfold compute_levels. rewrite Hn.
  destruct (S (forest_size children) <=? 1) eqn:E1; [apply Nat.leb_le in E1; lia|].
  unfold schema_of at 1. fold root. cbn [nth_error].
  assert (Hk := kids_forest (schema_of rr nm children) ltac:(rewrite Hn; exact Hmax) children [root] []
                            (fuel_of (schema_of rr nm children)) 1 0%Z 0%Z
                            (mkT (length (leaves children)) [] [] 0)).
  cbn [length ts_room ts_leaves ts_nodes ts_calls] in Hk.
  unfold root at 1. cbn [group_elem e_nc]. fold root.
  rewrite Hk; clear Hk.
  - unfold tree_schema, leaves. cbn [ts_room ts_leaves ts_nodes ts_calls].
    rewrite Nat.sub_diag, !app_nil_r, !rev_involutive.
    rewrite (map_ext _ _ lv_0). unfold pad. cbn [repeat]. rewrite app_nil_r.
    cbn [length].
    replace (length (flat_map (node_levels 0 0) children)) with (forest_size children).
    + rewrite Nat.sub_diag. cbn [repeat]. rewrite app_nil_r. reflexivity.
    + clear. induction children as [|c cs IH]; [reflexivity|].
      cbn [flat_map]. rewrite app_length, node_levels_length, forest_size_cons, <- IH. reflexivity.
  - unfold schema_of. fold root. rewrite app_nil_r. reflexivity.
  - exact Hwf.
  - unfold fuel_of. rewrite Hn. lia.
  - lia.
  - unfold lvl_ok. lia.
  - unfold leaves. lia.
Qed.

Example levels_correct_nontrivial :
  let L := fun r n => Leaf r (mkLeaf n 1 0 None) in
  let children := [L Optional 1%N; Group Optional 2%N [L Required 3%N; L Optional 4%N];
                   Group Repeated 5%N [L Required 6%N; Group Optional 7%N [L Repeated 8%N]]] in
  forallb wf children = true /\
  map leaf_levels (leaves children) = [(1, 1%Z, 0%Z); (3, 1%Z, 0%Z); (4, 2%Z, 0%Z); (6, 1%Z, 1%Z); (8, 3%Z, 2%Z)].
Proof. split; reflexivity. Qed.

(** ** what the accessors return for the columns of a tree schema *)

Definition leaf_elem_of (p : list repetition) (i : leaf_info) : elem :=
  mkElem (Some (li_name i)) true (li_type i) (li_tlen i) true (last_rep p) 0 (li_logical i).

Lemma last_rep_cons : forall r p, p <> [] -> last_rep (r :: p) = last_rep p.
Proof.
  intros r p H. unfold last_rep. cbn [rev].
  destruct (rev p) as [|x xs] eqn:E.
  - apply (f_equal (@rev _)) in E. rewrite rev_involutive in E. cbn in E. congruence.
  - reflexivity.
Qed.

(** a leaf record is consistent with an element list / node-level list that starts at index [start] *)
Definition pos_ok (es : list elem) (nl : list (Z * Z)) (start : nat) (d r : Z) (x : lrec) : Prop :=
  match x with
  | (pos, p, i) =>
      start <= pos < start + length es /\
      nth_error es (pos - start) = Some (leaf_elem_of p i) /\
      nth_error nl (pos - start) = Some ((d + max_def p)%Z, (r + max_rep p)%Z) /\
      p <> []
  end.

Lemma paths_pos : forall t start d r,
  Forall (pos_ok (flatten t) (node_levels d r t) start d r) (paths_from start t).
Proof.
  apply (tree_ind2
           (fun t => forall start d r, Forall (pos_ok (flatten t) (node_levels d r t) start d r) (paths_from start t))
           (fun cs => forall start d r,
                Forall (pos_ok (flat_map flatten cs) (flat_map (node_levels d r) cs) start d r) (forest_from start cs))).
  - intros rp i start d r. cbn [paths_from]. constructor; [|constructor].
    unfold pos_ok. cbn [flatten length node_levels]. rewrite Nat.sub_diag. cbn [nth_error].
    repeat split; try lia.
    + rewrite max_def_cons, max_rep_cons, max_def_nil, max_rep_nil. unfold cdef, crep. repeat f_equal; lia.
    + discriminate.
  - intros rp nm cs H start d r. rewrite paths_from_group.
    apply Forall_forall. intros x Hx. apply in_map_iff in Hx. destruct Hx as ([[pos p] i] & <- & Hin).
    specialize (H (S start) (d + cdef rp)%Z (r + crep rp)%Z).
    rewrite Forall_forall in H. specialize (H _ Hin). unfold pos_ok in H |- *. cbn [push].
    destruct H as (Hr & He & Hl & Hp).
    cbn [flatten length node_levels]. fold (cdef rp) (crep rp).
    replace (pos - start) with (S (pos - S start)) by lia. cbn [nth_error].
    repeat split; try lia.
    + rewrite He. unfold leaf_elem_of. rewrite (last_rep_cons rp p Hp). reflexivity.
    + rewrite Hl, max_def_cons, max_rep_cons. f_equal. f_equal; lia.
    + discriminate.
  - intros. constructor.
  - intros c cs Hc Hcs start d r. cbn [forest_from flat_map]. apply Forall_app. split.
    + specialize (Hc start d r). eapply Forall_impl; [|exact Hc].
      intros [[pos p] i] (Hr & He & Hl & Hp). unfold pos_ok. rewrite app_length, flatten_length.
      rewrite flatten_length in Hr.
      rewrite nth_error_app1 by (rewrite flatten_length; lia).
      rewrite nth_error_app1 by (rewrite node_levels_length; lia).
      repeat split; try assumption; lia.
    + specialize (Hcs (start + size c) d r). eapply Forall_impl; [|exact Hcs].
      intros [[pos p] i] (Hr & He & Hl & Hp). unfold pos_ok. rewrite app_length, flatten_length.
      rewrite nth_error_app2 by (rewrite flatten_length; lia).
      rewrite nth_error_app2 by (rewrite node_levels_length; lia).
      rewrite flatten_length, node_levels_length.
      replace (pos - start - size c) with (pos - (start + size c)) by lia.
      repeat split; try assumption; lia.
Qed.

Lemma forest_pos : forall cs start d r,
  Forall (pos_ok (flat_map flatten cs) (flat_map (node_levels d r) cs) start d r) (forest_from start cs).
Proof.
  induction cs as [|c cs IH]; intros start d r; [constructor|].
  cbn [forest_from flat_map]. apply Forall_app. split.
  - eapply Forall_impl; [|exact (paths_pos c start d r)].
    intros [[pos p] i] (Hr & He & Hl & Hp). unfold pos_ok. rewrite app_length, flatten_length.
    rewrite flatten_length in Hr.
    rewrite nth_error_app1 by (rewrite flatten_length; lia).
    rewrite nth_error_app1 by (rewrite node_levels_length; lia).
    repeat split; try assumption; lia.
  - eapply Forall_impl; [|exact (IH (start + size c) d r)].
    intros [[pos p] i] (Hr & He & Hl & Hp). unfold pos_ok. rewrite app_length, flatten_length.
    rewrite nth_error_app2 by (rewrite flatten_length; lia).
    rewrite nth_error_app2 by (rewrite node_levels_length; lia).
    rewrite flatten_length, node_levels_length.
    replace (pos - start - size c) with (pos - (start + size c)) by lia.
    repeat split; try assumption; lia.
Qed.

(** the element and the node levels the accessors find for a leaf of the schema *)
Lemma tree_schema_get : forall rr nm children pos p i,
  In (pos, p, i) (leaves children) ->
  get_element (tree_schema rr nm children) (Z.of_nat pos) =
    Some (leaf_elem_of p i, (max_def p, max_rep p)).
Proof.
  intros rr nm children pos p i Hin.
  pose proof (forest_pos children 1 0%Z 0%Z) as H. rewrite Forall_forall in H.
  specialize (H _ Hin). unfold pos_ok in H. destruct H as (Hr & He & Hl & _).
  unfold get_element, num_elements, tree_schema. cbn [s_elems s_nodes].
  unfold schema_of. cbn [length].
  destruct ((Z.of_nat pos <? 0)%Z || (Z.of_nat (S (length (flat_map flatten children))) <=? Z.of_nat pos)%Z) eqn:E.
  - apply orb_true_iff in E. destruct E as [E|E]; [apply Z.ltb_lt in E; lia|apply Z.leb_le in E; lia].
  - rewrite Nat2Z.id. replace pos with (S (pos - 1)) by lia. cbn [nth_error].
    rewrite He, Hl, !Z.add_0_l. reflexivity.
Qed.

Lemma all_ok_map : forall A B (f : A -> res B) (g : A -> B) l,
  (forall x, In x l -> f x = Ok (g x)) -> all_ok (map f l) = Ok (map g l).
Proof.
  intros A B f g l. induction l as [|x l IH]; intro H; [reflexivity|].
  cbn [map all_ok]. rewrite (H x (or_introl eq_refl)), IH; [reflexivity|].
  intros y Hy. apply H. right. exact Hy.
Qed.

Theorem reader_columns_tree : forall rr nm children,
  reader_columns (tree_schema rr nm children) = Ok (columns children).
Proof.
  intros rr nm children. unfold reader_columns, columns.
  change (s_leaves (tree_schema rr nm children)) with (map leaf_levels (leaves children)).
  rewrite map_map. apply all_ok_map.
  intros [[pos p] i] Hin. unfold column_view, leaf_levels.
  rewrite (tree_schema_get rr nm children pos p i Hin). reflexivity.
Qed.

Theorem accessor_levels_tree : forall rr nm children,
  accessor_levels (tree_schema rr nm children) = map (fun c => Some (c_def c, c_rep c)) (columns children).
Proof.
  intros rr nm children. unfold accessor_levels, columns.
  change (s_leaves (tree_schema rr nm children)) with (map leaf_levels (leaves children)).
  rewrite !map_map. apply map_ext_in.
  intros [[pos p] i] Hin. unfold leaf_levels.
  rewrite (tree_schema_get rr nm children pos p i Hin). reflexivity.
Qed.

Lemma find_from_tree : forall es name (ls : list lrec) i,
  (forall pos p li, In (pos, p, li) ls -> nth_error es pos = Some (leaf_elem_of p li)) ->
  find_from es name i (map leaf_levels ls) = Ok (find_name name i (map textbook ls)).
Proof.
  intros es name ls. induction ls as [|[[pos p] li] tl IH]; intros i H; [reflexivity|].
  cbn [map leaf_levels find_from textbook find_name c_name].
  rewrite (H pos p li (or_introl eq_refl)). cbn [leaf_elem_of e_name].
  destruct (N.eqb (li_name li) name); [reflexivity|].
  apply IH. intros pos' p' li' Hin. apply (H pos' p' li'). right. exact Hin.
Qed.

Theorem find_column_tree : forall rr nm children name,
  find_column (tree_schema rr nm children) name = Ok (find_name name 0%Z (columns children)).
Proof.
  intros rr nm children name. unfold find_column, columns.
  change (s_leaves (tree_schema rr nm children)) with (map leaf_levels (leaves children)).
  apply find_from_tree. intros pos p li Hin.
  pose proof (forest_pos children 1 0%Z 0%Z) as H. rewrite Forall_forall in H.
  specialize (H _ Hin). unfold pos_ok in H. destruct H as (Hr & He & _).
  cbn [s_elems tree_schema]. unfold schema_of.
  replace pos with (S (pos - 1)) by lia. cbn [nth_error]. exact He.
Qed.

(** every element accessor returns what the file states: get_element on a tree schema is the stored
    element paired with the textbook levels of that node *)
Theorem get_element_tree : forall rr nm children k,
  k < S (forest_size children) ->
  exists e lv, get_element (tree_schema rr nm children) (Z.of_nat k) = Some (e, lv) /\
               nth_error (schema_of rr nm children) k = Some e /\
               nth_error ((0%Z, 0%Z) :: flat_map (node_levels 0 0) children) k = Some lv.
Proof.
  intros rr nm children k Hk.
  assert (Hn : length (schema_of rr nm children) = S (forest_size children)).
  { unfold schema_of. cbn [length]. rewrite flat_map_flatten_length. reflexivity. }
  assert (Hm : length ((0%Z, 0%Z) :: flat_map (node_levels 0 0) children) = S (forest_size children)).
  { cbn [length]. f_equal. clear. induction children as [|c cs IH]; [reflexivity|].
    cbn [flat_map]. rewrite app_length, node_levels_length, forest_size_cons, IH. reflexivity. }
  destruct (nth_error (schema_of rr nm children) k) as [e|] eqn:E1; [|apply nth_error_None in E1; lia].
  destruct (nth_error ((0%Z, 0%Z) :: flat_map (node_levels 0 0) children) k) as [l|] eqn:E2;
    [|apply nth_error_None in E2; lia].
  exists e, l. split; [|split; reflexivity].
  unfold get_element, num_elements, tree_schema. cbn [s_elems s_nodes]. rewrite Hn.
  destruct ((Z.of_nat k <? 0)%Z || (Z.of_nat (S (forest_size children)) <=? Z.of_nat k)%Z) eqn:E.
  - apply orb_true_iff in E. destruct E as [E|E]; [apply Z.ltb_lt in E; lia|apply Z.leb_le in E; lia].
  - rewrite Nat2Z.id, E1, E2. reflexivity.
Qed.

(** ------------------------------------------------------------------------------------------------
    Part 3: the builder *)

(** one add_column call: name, physical type, logical type, repetition, type_length *)
Definition colspec : Type := N * Z * option N * repetition * Z.

Definition leaf_of (c : colspec) : tree :=
  match c with (nm, ty, lg, rp, tl) => Leaf rp (mkLeaf nm ty tl lg) end.

Definition op_of (c : colspec) : bop :=
  match c with (nm, ty, lg, rp, tl) => AddColumn nm ty lg (rep_code rp) tl end.

Definition flat_state (cols : list colspec) (cap : Z) : bschema :=
  let ts := map leaf_of cols in
  mkB (schema_of None ROOT_NAME ts) ((0%Z, 0%Z) :: flat_map (node_levels 0 0) ts) cap (map leaf_levels (leaves ts)).

Lemma forest_from_app : forall a b s, forest_from s (a ++ b) = forest_from s a ++ forest_from (s + forest_size a) b.
Proof.
  induction a as [|c a IH]; intros b s.
  - cbn [app forest_from]. change (forest_size []) with 0. rewrite Nat.add_0_r. reflexivity.
  - cbn [app forest_from]. rewrite IH, forest_size_cons, <- app_assoc.
    replace (s + size c + forest_size a) with (s + (size c + forest_size a)) by lia. reflexivity.
Qed.

Lemma forest_size_flat : forall cols, forest_size (map leaf_of cols) = length cols.
Proof.
  induction cols as [|[[[[nm ty] lg] rp] tl] cols IH]; [reflexivity|].
  cbn [map]. rewrite forest_size_cons, IH. reflexivity.
Qed.

Lemma own_def_code : forall rp, own_def (rep_code rp) = cdef rp.
Proof. intros []; reflexivity. Qed.
Lemma own_rep_code : forall rp, own_rep (rep_code rp) = crep rp.
Proof. intros []; reflexivity. Qed.

Lemma growth_factor_2 : GROWTH_FACTOR = 2%Z. Proof. reflexivity. Qed.
Lemma initial_capacity_pos : (1 <= INITIAL_CAPACITY)%Z. Proof. vm_compute. discriminate. Qed.

Lemma ensure_capacity_ok : forall s req,
  (1 <= b_capacity s)%Z -> (req <= b_capacity s + 1)%Z ->
  exists cap', ensure_capacity s req = Ok (mkB (b_elems s) (b_nodes s) cap' (b_leaves s)) /\
               (req <= cap')%Z /\ (b_capacity s <= cap')%Z.
Proof.
  intros s req H1 H2. unfold ensure_capacity.
  destruct (req <=? b_capacity s)%Z eqn:E.
  - apply Z.leb_le in E. exists (b_capacity s). destruct s; cbn in *. split; [reflexivity|lia].
  - apply Z.leb_gt in E.
    change (grow 64 (b_capacity s) req) with
      (if (b_capacity s <? req)%Z then grow 63 (b_capacity s * GROWTH_FACTOR)%Z req else Ok (b_capacity s)).
    destruct (b_capacity s <? req)%Z eqn:E2; [|apply Z.ltb_ge in E2; lia].
    change (grow 63 (b_capacity s * GROWTH_FACTOR)%Z req) with
      (if (b_capacity s * GROWTH_FACTOR <? req)%Z then grow 62 (b_capacity s * GROWTH_FACTOR * GROWTH_FACTOR)%Z req
       else Ok (b_capacity s * GROWTH_FACTOR)%Z).
    rewrite growth_factor_2.
    destruct (b_capacity s * 2 <? req)%Z eqn:E3; [apply Z.ltb_lt in E3; lia|].
    exists (b_capacity s * 2)%Z. split; [reflexivity|lia].
Qed.

Lemma add_column_flat : forall cols cap nm ty lg rp tl,
  (1 <= cap)%Z -> (Z.of_nat (length cols) + 1 <= cap)%Z ->
  exists cap', add_column (flat_state cols cap) nm ty lg (rep_code rp) tl
               = Ok (flat_state (cols ++ [(nm, ty, lg, rp, tl)]) cap') /\
               (Z.of_nat (length cols) + 2 <= cap')%Z /\ (1 <= cap')%Z.
Proof.
  intros cols cap nm ty lg rp tl Hc1 Hc2.
  assert (Hlen : length (b_elems (flat_state cols cap)) = S (length cols)).
  { unfold flat_state, schema_of. cbn [b_elems length]. rewrite flat_map_flatten_length, forest_size_flat. reflexivity. }
  unfold add_column.
  destruct (ensure_capacity_ok (flat_state cols cap) (Z.of_nat (length (b_elems (flat_state cols cap))) + 1)%Z)
    as (cap' & He & Hr & Hm).
  { exact Hc1. } { rewrite Hlen. cbn [b_capacity flat_state]. lia. }
  rewrite He. clear He. rewrite Hlen in Hr.
  unfold push_elem. cbn [b_elems b_nodes b_capacity b_leaves].
  change (b_elems (flat_state cols cap)) with (schema_of None ROOT_NAME (map leaf_of cols)) in *.
  rewrite Hlen.
  destruct (Z.of_nat (S (length cols)) <? cap')%Z eqn:E1; [|apply Z.ltb_ge in E1; lia].
  unfold schema_of at 1. cbn [app bump_root group_elem e_name e_has_type e_type e_tlen e_has_rep e_rep e_nc e_logical].
  cbn [b_elems b_nodes b_capacity b_leaves flat_state].
  rewrite map_length.
  assert (Hl : length (leaves (map leaf_of cols)) = length cols).
  { unfold leaves. clear. generalize 1. induction cols as [|[[[[a b] c] d] e] cols IH]; intro s; [reflexivity|].
    cbn [map leaf_of forest_from paths_from app length]. rewrite IH. reflexivity. }
  rewrite Hl.
  destruct (Z.of_nat (length cols) <? cap')%Z eqn:E2; [|apply Z.ltb_ge in E2; lia].
  exists cap'. split; [|lia].
  unfold flat_state. rewrite !map_app. cbn [map leaf_of].
  f_equal. f_equal.
  - (* elements *)
    unfold schema_of. rewrite flat_map_app. cbn [flat_map flatten app].
    rewrite app_length, map_length. cbn [length]. unfold group_elem, leaf_elem. cbn [li_name li_type li_tlen li_logical].
    f_equal. f_equal. lia.
  - (* node levels *)
    rewrite flat_map_app. cbn [flat_map node_levels app].
    rewrite own_def_code, own_rep_code. unfold cdef, crep. rewrite !Z.add_0_l. reflexivity.
  - (* leaf arrays *)
    unfold leaves. rewrite forest_from_app, forest_size_flat, map_app.
    cbn [forest_from paths_from app map leaf_levels].
    rewrite own_def_code, own_rep_code, max_def_cons, max_rep_cons, max_def_nil, max_rep_nil, !Z.add_0_r.
    rewrite (Nat.add_comm 1). reflexivity.
Qed.

Lemma run_ops_flat : forall rest pre cap acc,
  (1 <= cap)%Z -> (Z.of_nat (length pre) + 1 <= cap)%Z ->
  exists cap', run_ops (flat_state pre cap) (map op_of rest) acc
               = Ok (flat_state (pre ++ rest) cap', rev acc ++ repeat 0%Z (length rest)) /\
               (Z.of_nat (length (pre ++ rest)) + 1 <= cap')%Z.
Proof.
  induction rest as [|[[[[nm ty] lg] rp] tl] rest IH]; intros pre cap acc H1 H2.
  - exists cap. cbn [map run_ops length repeat]. rewrite !app_nil_r. split; [reflexivity|exact H2].
  - cbn [map op_of run_ops].
    destruct (add_column_flat pre cap nm ty lg rp tl H1 H2) as (cap1 & Ha & Hb & Hc).
    rewrite Ha.
    destruct (IH (pre ++ [(nm, ty, lg, rp, tl)]) cap1 (0%Z :: acc) Hc) as (cap2 & Hr & Hd).
    { rewrite app_length. cbn [length]. lia. }
    exists cap2. rewrite Hr. rewrite <- app_assoc. cbn [app rev length repeat]. rewrite <- app_assoc.
    split; [reflexivity|]. rewrite <- app_assoc in Hd. exact Hd.
Qed.

(** ** builder: any number of add_column calls gives the schema of the flat tree *)
Theorem builder_flat_correct_thm : forall cols : list colspec,
  exists b, run_ops schema_create (map op_of cols) [] = Ok (b, repeat 0%Z (length cols)) /\
            b_elems b = s_elems (tree_schema None ROOT_NAME (map leaf_of cols)) /\
            b_leaves b = s_leaves (tree_schema None ROOT_NAME (map leaf_of cols)) /\
            b_nodes b = s_nodes (tree_schema None ROOT_NAME (map leaf_of cols)) /\
            (Z.of_nat (length (b_elems b)) <= b_capacity b)%Z.
Proof.
  intro cols.
  change schema_create with (flat_state [] INITIAL_CAPACITY).
  pose proof initial_capacity_pos as Hi.
  destruct (run_ops_flat cols [] INITIAL_CAPACITY [] Hi) as (cap & Hr & Hc).
  { cbn [length]. lia. }
  cbn [app rev] in Hr, Hc.
  exists (flat_state cols cap). split; [exact Hr|].
  unfold flat_state, tree_schema. cbn [b_elems b_leaves b_nodes b_capacity s_elems s_leaves s_nodes].
  repeat split.
  unfold schema_of. cbn [length]. rewrite flat_map_flatten_length, forest_size_flat. lia.
Qed.

Example builder_300_columns :
  (* growth past the initial capacity 64: 300 columns need capacity 512 *)
  let cols := map (fun k => (N.of_nat k, 1%Z, None, Optional, 0%Z)) (seq 1 300) in
  exists b, run_ops schema_create (map op_of cols) [] = Ok (b, repeat 0%Z 300) /\
            b_capacity b = 512%Z /\ length (b_leaves b) = 300.
Proof. eexists. split; [vm_compute; reflexivity|split; reflexivity]. Qed.

(** ------------------------------------------------------------------------------------------------
    The statements restated in Props/Properties_C17.v *)

Definition valid_schema (children : list tree) : Prop :=
  children <> [] /\ forallb wf children = true /\ S (forest_size children) <= MAX_ELEMS.

Theorem levels_correct_full : forall rr nm children, valid_schema children ->
  exists s, build_schema (schema_of rr nm children) = Ok s /\
            (* the per-leaf arrays: element index, max definition level, max repetition level *)
            s_leaves s = map (fun c => (c_elem c, c_def c, c_rep c)) (columns children) /\
            (* what the reader exposes per column through the arrays and the element accessors *)
            reader_columns s = Ok (columns children) /\
            (* the per-node level accessors on the leaf elements *)
            accessor_levels s = map (fun c => Some (c_def c, c_rep c)) (columns children) /\
            (* lookup by name: first column of that name, or -1 *)
            (forall name, find_column s name = Ok (find_name name 0%Z (columns children))) /\
            num_columns s = Z.of_nat (length (columns children)).
Proof.
  intros rr nm children (H1 & H2 & H3).
  exists (tree_schema rr nm children).
  split; [apply levels_correct_thm; assumption|].
  split.
  { cbn [tree_schema s_leaves]. unfold columns. rewrite map_map. apply map_ext.
    intros [[pos p] i]. reflexivity. }
  split; [apply reader_columns_tree|].
  split; [apply accessor_levels_tree|].
  split; [intro name; apply find_column_tree|].
  unfold num_columns, columns. cbn [tree_schema s_leaves]. rewrite !map_length. reflexivity.
Qed.

Example valid_schema_nontrivial :
  valid_schema [Leaf Optional (mkLeaf 1 1 0 None);
                Group Repeated 2 [Leaf Required (mkLeaf 3 2 0 None); Group Optional 4 [Leaf Repeated (mkLeaf 5 6 0 (Some 10000%N))]]].
Proof.
  split; [discriminate|]. split; [reflexivity|].
  apply Nat.leb_le. vm_compute. reflexivity.
Qed.

Theorem element_accessors_correct : forall rr nm children, valid_schema children ->
  exists s, build_schema (schema_of rr nm children) = Ok s /\
    num_elements s = Z.of_nat (length (schema_of rr nm children)) /\
    get_element s (-1)%Z = None /\ get_element s (num_elements s) = None /\
    forall k, k < length (schema_of rr nm children) ->
      exists e lv, get_element s (Z.of_nat k) = Some (e, lv) /\
                   (* name, is_leaf, physical type, type length, logical type, repetition: the stored element *)
                   nth_error (schema_of rr nm children) k = Some e /\
                   (* max_def_level / max_rep_level: the textbook levels of that node *)
                   nth_error ((0%Z, 0%Z) :: flat_map (node_levels 0 0) children) k = Some lv.
Proof.
  intros rr nm children (H1 & H2 & H3).
  exists (tree_schema rr nm children).
  split; [apply levels_correct_thm; assumption|].
  split; [reflexivity|].
  split; [reflexivity|].
  split.
  { unfold get_element. rewrite Z.leb_refl, orb_true_r. reflexivity. }
  intros k Hk. apply get_element_tree.
  unfold schema_of in Hk. cbn [length] in Hk. rewrite flat_map_flatten_length in Hk. exact Hk.
Qed.

(** ** builder: ANY call sequence (add_column and add_group in any order, any arguments) stays inside the allocations *)
Definition bsafe (b : bschema) : Prop :=
  (1 <= length (b_elems b))%nat /\ (Z.of_nat (length (b_elems b)) <= b_capacity b)%Z /\
  (length (b_leaves b) < length (b_elems b))%nat /\ (1 <= b_capacity b)%Z.

Lemma push_elem_safe : forall s e lv, (1 <= length (b_elems s))%nat -> (Z.of_nat (length (b_elems s)) + 1 <= b_capacity s)%Z ->
  exists s', push_elem s e lv = Ok s' /\ length (b_elems s') = S (length (b_elems s)) /\
             b_capacity s' = b_capacity s /\ b_leaves s' = b_leaves s.
Proof.
  intros s e lv H1 H2. unfold push_elem.
  destruct (Z.of_nat (length (b_elems s)) <? b_capacity s)%Z eqn:E; [|apply Z.ltb_ge in E; lia].
  destruct (b_elems s) as [|r tl] eqn:Eb; [cbn in H1; lia|].
  cbn [app bump_root]. eexists. split; [reflexivity|].
  cbn [b_elems b_capacity b_leaves length]. rewrite app_length. cbn [length]. repeat split; lia.
Qed.

Lemma add_column_safe : forall s nm ty lg rp tl, bsafe s ->
  exists s', add_column s nm ty lg rp tl = Ok s' /\ bsafe s'.
Proof.
  intros s nm ty lg rp tl (H1 & H2 & H3 & H4). unfold add_column.
  destruct (ensure_capacity_ok s (Z.of_nat (length (b_elems s)) + 1)%Z H4) as (cap' & He & Hr & Hm); [lia|].
  rewrite He.
  destruct (push_elem_safe (mkB (b_elems s) (b_nodes s) cap' (b_leaves s))
                           (mkElem (Some nm) true ty tl true rp 0 lg) (own_def rp, own_rep rp))
    as (s2 & E2 & L2 & C2 & V2); cbn [b_elems b_capacity]; try assumption.
  cbn [b_elems] in E2 |- *. rewrite E2.
  cbn [b_elems b_capacity b_leaves] in L2, C2, V2.
  destruct (Z.of_nat (length (b_leaves s2)) <? b_capacity s2)%Z eqn:E3; [|apply Z.ltb_ge in E3; rewrite V2, C2 in E3; lia].
  eexists. split; [reflexivity|]. unfold bsafe. cbn [b_elems b_capacity b_leaves].
  rewrite app_length. cbn [length]. rewrite L2, C2, V2. repeat split; lia.
Qed.

Lemma add_group_safe : forall s nm rp pi, bsafe s ->
  exists s' i, add_group s nm rp pi = Ok (s', i) /\ bsafe s'.
Proof.
  intros s nm rp pi Hs. pose proof Hs as (H1 & H2 & H3 & H4). unfold add_group.
  destruct (negb (pi =? -1)%Z && negb (pi =? 0)%Z); [eexists _, _; split; [reflexivity|exact Hs]|].
  destruct (ensure_capacity_ok s (Z.of_nat (length (b_elems s)) + 1)%Z H4) as (cap' & He & Hr & Hm); [lia|].
  rewrite He.
  destruct (push_elem_safe (mkB (b_elems s) (b_nodes s) cap' (b_leaves s))
                           (mkElem (Some nm) false 0 0 true rp 0 None) (own_def rp, own_rep rp))
    as (s2 & E2 & L2 & C2 & V2); cbn [b_elems b_capacity]; try assumption.
  cbn [b_elems] in E2 |- *. rewrite E2.
  cbn [b_elems b_capacity b_leaves] in L2, C2, V2.
  eexists _, _. split; [reflexivity|]. unfold bsafe. rewrite L2, C2, V2. repeat split; lia.
Qed.

Theorem builder_never_faults_thm : forall ops, exists b rets, run_ops schema_create ops [] = Ok (b, rets) /\ bsafe b.
Proof.
  assert (G : forall ops s acc, bsafe s -> exists b rets, run_ops s ops acc = Ok (b, rets) /\ bsafe b).
  { induction ops as [|[nm ty lg rp tl|nm rp pi] ops IH]; intros s acc Hs.
    - eexists _, _. split; [reflexivity|exact Hs].
    - cbn [run_ops]. destruct (add_column_safe s nm ty lg rp tl Hs) as (s' & E & Hs'). rewrite E. apply IH. exact Hs'.
    - cbn [run_ops]. destruct (add_group_safe s nm rp pi Hs) as (s' & i & E & Hs'). rewrite E. apply IH. exact Hs'. }
  intro ops. apply G. unfold bsafe, schema_create. cbn [b_elems b_capacity b_leaves length].
  pose proof initial_capacity_pos. change INITIAL_CAPACITY with 64%Z in *. repeat split; lia.
Qed.
