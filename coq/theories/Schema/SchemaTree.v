(** Specification for C17: Parquet schemas as ordered trees, their flattening to the depth-first
    element list stored in a file footer, and the textbook definition of columns and their maximum
    definition / repetition levels.  Independent of the code: imports no model, no generated file.

    Textbook (Dremel / parquet-format): the columns of a schema are its leaves in depth-first order;
    for a leaf, max definition level = number of nodes on the path root..leaf (root excluded, leaf
    included) that are not REQUIRED, max repetition level = number of REPEATED nodes on that path. *)
From Coq Require Import ZArith NArith List Bool Arith.
Import ListNotations.

Inductive repetition := Required | Optional | Repeated.

(** FieldRepetitionType of parquet.thrift *)
Definition rep_code (r : repetition) : Z :=
  match r with Required => 0 | Optional => 1 | Repeated => 2 end%Z.

(** what a file states about a primitive field.  Names and logical types are opaque identifiers:
    the tie maps them injectively to strings / LogicalType values. *)
Record leaf_info := mkLeaf {
  li_name : N;
  li_type : Z;             (* parquet.thrift Type *)
  li_tlen : Z;             (* type_length *)
  li_logical : option N }.

Inductive tree :=
| Leaf (r : repetition) (i : leaf_info)
| Group (r : repetition) (name : N) (cs : list tree).

(** one SchemaElement as it is stored (and as carquet's parser keeps it) *)
Record elem := mkElem {
  e_name : option N;
  e_has_type : bool;
  e_type : Z;
  e_tlen : Z;
  e_has_rep : bool;
  e_rep : Z;
  e_nc : Z;                (* num_children; 0 when the field is absent *)
  e_logical : option N }.

Definition leaf_elem (r : repetition) (i : leaf_info) : elem :=
  mkElem (Some (li_name i)) true (li_type i) (li_tlen i) true (rep_code r) 0 (li_logical i).

Definition group_elem (r : option repetition) (name : N) (k : nat) : elem :=
  mkElem (Some name) false 0 0
         (match r with Some _ => true | None => false end)
         (match r with Some r => rep_code r | None => 0%Z end)
         (Z.of_nat k) None.

(** depth-first flattening with child counts *)
Fixpoint flatten (t : tree) : list elem :=
  match t with
  | Leaf r i => [leaf_elem r i]
  | Group r nm cs => group_elem (Some r) nm (length cs) :: flat_map flatten cs
  end.

(** the whole schema: a root group (whose repetition is usually absent and never counts) *)
Definition schema_of (root_rep : option repetition) (root_name : N) (children : list tree) : list elem :=
  group_elem root_rep root_name (length children) :: flat_map flatten children.

Fixpoint size (t : tree) : nat :=
  match t with
  | Leaf _ _ => 1
  | Group _ _ cs => S (list_sum (map size cs))
  end.

Definition forest_size (cs : list tree) : nat := list_sum (map size cs).

(** Parquet has no empty groups (an element without children is a primitive field) *)
Fixpoint wf (t : tree) : bool :=
  match t with
  | Leaf _ _ => true
  | Group _ _ cs => negb (match cs with [] => true | _ => false end) && forallb wf cs
  end.

(** a leaf together with its position in the element list and the repetitions on its path *)
Definition lrec : Type := nat * list repetition * leaf_info.

Definition push (r : repetition) (x : lrec) : lrec :=
  match x with (pos, p, i) => (pos, r :: p, i) end.

Fixpoint paths_from (start : nat) (t : tree) {struct t} : list lrec :=
  match t with
  | Leaf r i => [(start, [r], i)]
  | Group r _ cs =>
      map (push r)
          ((fix forest (s : nat) (l : list tree) {struct l} : list lrec :=
              match l with
              | [] => []
              | c :: l' => paths_from s c ++ forest (s + size c) l'
              end) (S start) cs)
  end.

Fixpoint forest_from (s : nat) (l : list tree) {struct l} : list lrec :=
  match l with
  | [] => []
  | c :: l' => paths_from s c ++ forest_from (s + size c) l'
  end.

Definition not_required (r : repetition) : bool := match r with Required => false | _ => true end.
Definition is_repeated (r : repetition) : bool := match r with Repeated => true | _ => false end.

Definition max_def (p : list repetition) : Z := Z.of_nat (length (filter not_required p)).
Definition max_rep (p : list repetition) : Z := Z.of_nat (length (filter is_repeated p)).

Record column := mkColumn {
  c_elem : nat;            (* index of the leaf's element in the stored list *)
  c_name : N;
  c_type : Z;
  c_tlen : Z;
  c_logical : option N;
  c_repetition : Z;        (* the leaf's own repetition as stored *)
  c_def : Z;
  c_rep : Z }.

Definition last_rep (p : list repetition) : Z :=
  match rev p with r :: _ => rep_code r | [] => 0%Z end.

Definition textbook (x : lrec) : column :=
  match x with
  | (pos, p, i) => mkColumn pos (li_name i) (li_type i) (li_tlen i) (li_logical i) (last_rep p) (max_def p) (max_rep p)
  end.

(** the leaves of the schema whose root has the given children, in depth-first order
    (the root is element 0, so the first child starts at 1) *)
Definition leaves (children : list tree) : list lrec := forest_from 1 children.

Definition columns (children : list tree) : list column := map textbook (leaves children).

(** lookup by name: index of the first column with that name *)
Fixpoint find_name (nm : N) (i : Z) (cs : list column) : Z :=
  match cs with
  | [] => (-1)%Z
  | c :: tl => if N.eqb (c_name c) nm then i else find_name nm (i + 1)%Z tl
  end.

(** every node (not only leaves) with its textbook levels, in element order - what the per-node
    accessors must report *)
Fixpoint node_levels (d r : Z) (t : tree) {struct t} : list (Z * Z) :=
  match t with
  | Leaf rp _ => [((d + (if not_required rp then 1 else 0))%Z, (r + (if is_repeated rp then 1 else 0))%Z)]
  | Group rp _ cs =>
      let d' := (d + (if not_required rp then 1 else 0))%Z in
      let r' := (r + (if is_repeated rp then 1 else 0))%Z in
      (d', r') :: flat_map (node_levels d' r') cs
  end.
