(** Model of the reader-side schema code (after the repairs eab7c31, d019322 in /repo):
      src/reader/file_reader.c   count_leaves, traverse_schema_recursive, compute_levels, build_schema
      src/metadata/schema.c      carquet_schema_find_column, num_columns, num_elements, get_element and
                                 the carquet_schema_node_* accessors
    Elements are the records of Schema/SchemaTree.v (what parse_schema_element keeps of a stored
    SchemaElement).  Enum values and the element-count limit come from the repository's sources through
    Gen/Enums_gen.v and Gen/Consts_gen.v.  No proofs here. *)
From Coq Require Import ZArith NArith List Bool Arith.
From Carquet Require Import Gen.Enums_gen Gen.Consts_gen Schema.SchemaTree.
Import ListNotations.

Inductive fault := OobRead | OobWrite | NullDeref | DepthExceeded | OutOfFuel.

Inductive res (A : Type) :=
| Ok (a : A)
| Err (code : Z)          (* a carquet_status_t the code chooses to return *)
| Fault (f : fault).      (* behaviour the properties forbid *)
Arguments Ok {A} _.
Arguments Err {A} _.
Arguments Fault {A} _.

(** parquet_types.c: VALIDATE_COUNT_STATUS(count, CARQUET_MAX_SCHEMA_ELEMENTS) bounds the element list *)
Definition MAX_ELEMS : nat := N.to_nat SchemaLim_CARQUET_MAX_SCHEMA_ELEMENTS.

(** count_leaves: elements whose num_children is 0 (the root included) *)
Definition is_leaf_elem (e : elem) : bool := (e_nc e =? 0)%Z.

Fixpoint count_leaves (es : list elem) : nat :=
  match es with
  | [] => 0
  | e :: tl => if is_leaf_elem e then S (count_leaves tl) else count_leaves tl
  end.

(** int16_t x; x++ *)
Definition inc16 (x : Z) : Z := if (x + 1 =? 32768)%Z then (-32768)%Z else (x + 1)%Z.

(** the switch on repetition_type at the head of traverse_schema_recursive *)
Definition level_step (e : elem) (d r : Z) : Z * Z :=
  if e_has_rep e then
    if (e_rep e =? E_CARQUET_REPETITION_OPTIONAL)%Z then (inc16 d, r)
    else if (e_rep e =? E_CARQUET_REPETITION_REPEATED)%Z then (inc16 d, inc16 r)
    else (d, r)
  else (d, r).

(** schema_traverse_ctx_t: the three per-leaf arrays are written at leaf_idx, which only grows; they
    were allocated with count_leaves entries.  [ts_room] = entries not yet written, [ts_leaves] the
    written prefix (reversed), [ts_nodes] the per-element levels written so far (reversed; elements are
    visited in index order without gaps starting at 1), [ts_calls] counts calls of the recursive
    function (the cost measure of traverse_linear). *)
Record tstate := mkT {
  ts_room : nat;
  ts_leaves : list (nat * Z * Z);      (* (element index, max_def, max_rep) *)
  ts_nodes : list (Z * Z);
  ts_calls : nat }.

Section Traverse.
  Variable elems : list elem.
  Let n := length elems.

  (** traverse_schema_recursive (ctx, element_idx, def_level, rep_level) and its child loop.
      [fuel] bounds the length of any chain call -> iteration -> call ...; [depth] is the number of
      active C frames of the recursive function. *)
  Fixpoint trav (fuel : nat) (depth : nat) (idx : nat) (d r : Z) (st : tstate) {struct fuel}
    : res (nat * tstate) :=
    match fuel with
    | O => Fault OutOfFuel
    | S f =>
      let st := mkT (ts_room st) (ts_leaves st) (ts_nodes st) (S (ts_calls st)) in
      if MAX_ELEMS <? depth then Fault DepthExceeded else
      if n <=? idx then Ok (idx, st) else
      match nth_error elems idx with
      | None => Fault OobRead
      | Some e =>
        let '(td, tr) := level_step e d r in
        let st := mkT (ts_room st) (ts_leaves st) ((td, tr) :: ts_nodes st) (ts_calls st) in
        if is_leaf_elem e then
          match ts_room st with
          | O => Fault OobWrite
          | S room => Ok (S idx, mkT room ((idx, td, tr) :: ts_leaves st) (ts_nodes st) (ts_calls st))
          end
        else kids f (S depth) (e_nc e) (S idx) td tr st
      end
    end
  with kids (fuel : nat) (depth : nat) (k : Z) (next : nat) (d r : Z) (st : tstate) {struct fuel}
    : res (nat * tstate) :=
    match fuel with
    | O => Fault OutOfFuel
    | S f =>
      (* for (child = 0; child < num_children && next_idx < num_elements; child++) *)
      if (0 <? k)%Z && (next <? n) then
        match trav f depth next d r st with
        | Ok (next', st') => kids f depth (k - 1)%Z next' d r st'
        | other => other
        end
      else Ok (next, st)
    end.

  (** a linear amount of fuel is always enough (theorem traverse_linear) *)
  Definition fuel_of : nat := 2 * n + 3.

  (** compute_levels *)
  Definition compute_levels (room : nat) : res tstate :=
    let st0 := mkT room [] [] 0 in
    if n <=? 1 then Ok st0
    else match nth_error elems 0 with
         | None => Fault OobRead
         | Some root =>
           match kids fuel_of 1 (e_nc root) 1 0%Z 0%Z st0 with
           | Ok (_, st) => Ok st
           | Err c => Err c
           | Fault f => Fault f
           end
         end.
End Traverse.

(** struct carquet_schema as build_schema leaves it *)
Record schema := mkSchema {
  s_elems : list elem;
  s_leaves : list (nat * Z * Z);       (* leaf_indices / max_def_levels / max_rep_levels, num_leaves entries *)
  s_nodes : list (Z * Z);              (* per element: max_def_level / max_rep_level fields *)
  s_calls : nat }.

Definition pad {A} (l : list A) (x : A) (k : nat) : list A := l ++ repeat x k.

(** build_schema.  Elements without a name are rejected (repair 4: the name accessor promises non-NULL).
    carquet_arena_calloc returns NULL for a zero-byte request, so a schema without any
    childless element is rejected with OUT_OF_MEMORY ("Failed to allocate schema arrays"). *)
Definition has_name (e : elem) : bool := match e_name e with Some _ => true | None => false end.

Definition build_schema (elems : list elem) : res schema :=
  if negb (forallb has_name elems) then Err E_CARQUET_ERROR_INVALID_SCHEMA else
  let nl := count_leaves elems in
  match nl with
  | O => Err E_CARQUET_ERROR_OUT_OF_MEMORY
  | _ =>
    match compute_levels elems nl with
    | Ok st =>
        let nodes := (0%Z, 0%Z) :: rev (ts_nodes st) in
        Ok (mkSchema elems
                     (pad (rev (ts_leaves st)) (0, 0%Z, 0%Z) (ts_room st))
                     (pad nodes (0%Z, 0%Z) (length elems - length nodes))
                     (ts_calls st))
    | Err c => Err c
    | Fault f => Fault f
    end
  end.

(** ------------------------------------------------------------------ queries (metadata/schema.c) *)

Definition num_columns (s : schema) : Z := Z.of_nat (length (s_leaves s)).
Definition num_elements (s : schema) : Z := Z.of_nat (length (s_elems s)).

(** carquet_schema_find_column: first leaf whose element has a non-NULL name equal to [name] *)
Fixpoint find_from (es : list elem) (name : N) (i : Z) (ls : list (nat * Z * Z)) : res Z :=
  match ls with
  | [] => Ok (-1)%Z
  | (ei, _, _) :: tl =>
    match nth_error es ei with
    | None => Fault OobRead
    | Some e =>
      match e_name e with
      | Some nm => if N.eqb nm name then Ok i else find_from es name (i + 1)%Z tl
      | None => find_from es name (i + 1)%Z tl
      end
    end
  end.

Definition find_column (s : schema) (name : N) : res Z := find_from (s_elems s) name 0%Z (s_leaves s).

(** carquet_schema_get_element: NULL outside [0, num_elements) *)
Definition get_element (s : schema) (index : Z) : option (elem * (Z * Z)) :=
  if (index <? 0)%Z || (num_elements s <=? index)%Z then None
  else match nth_error (s_elems s) (Z.to_nat index), nth_error (s_nodes s) (Z.to_nat index) with
       | Some e, Some l => Some (e, l)
       | _, _ => None
       end.

(** the node accessors *)
Definition node_name (x : elem * (Z * Z)) : option N := e_name (fst x).
Definition node_is_leaf (x : elem * (Z * Z)) : bool := e_has_type (fst x).
Definition node_physical_type (x : elem * (Z * Z)) : Z := e_type (fst x).
Definition node_logical_type (x : elem * (Z * Z)) : option N := e_logical (fst x).
Definition node_repetition (x : elem * (Z * Z)) : Z := e_rep (fst x).
Definition node_type_length (x : elem * (Z * Z)) : Z := e_tlen (fst x).
Definition node_max_def_level (x : elem * (Z * Z)) : Z := fst (snd x).
Definition node_max_rep_level (x : elem * (Z * Z)) : Z := snd (snd x).

(** what the reader exposes for column [i]: the leaf arrays give element index and levels, the element
    accessors give the rest (carquet_reader_get_column reads exactly these) *)
Definition column_view (s : schema) (leaf : nat * Z * Z) : res column :=
  match leaf with
  | (ei, d, r) =>
    match get_element s (Z.of_nat ei) with
    | None => Fault OobRead
    | Some x =>
      match node_name x with
      | None => Fault NullDeref
      | Some nm => Ok (mkColumn ei nm (node_physical_type x) (node_type_length x) (node_logical_type x)
                                (node_repetition x) d r)
      end
    end
  end.

Fixpoint all_ok {A} (l : list (res A)) : res (list A) :=
  match l with
  | [] => Ok []
  | Ok a :: tl => match all_ok tl with Ok r => Ok (a :: r) | Err c => Err c | Fault f => Fault f end
  | Err c :: _ => Err c
  | Fault f :: _ => Fault f
  end.

Definition reader_columns (s : schema) : res (list column) := all_ok (map (column_view s) (s_leaves s)).

(** levels the per-node accessors report for the leaf elements, in column order *)
Definition accessor_levels (s : schema) : list (option (Z * Z)) :=
  map (fun l => match l with (ei, _, _) =>
         match get_element s (Z.of_nat ei) with
         | Some x => Some (node_max_def_level x, node_max_rep_level x)
         | None => None end end) (s_leaves s).
