(** Model of the schema builder in src/metadata/schema.c (after repairs d019322, 3a662ac):
    carquet_schema_create, schema_ensure_capacity, carquet_schema_add_column, carquet_schema_add_group.
    The four heap arrays (elements, leaf_indices, max_def_levels, max_rep_levels) share one capacity;
    every store is checked against it.  Allocation failure is out of scope here (property C19). *)
From Coq Require Import ZArith NArith List Bool Arith.
From Carquet Require Import Gen.Enums_gen Gen.Consts_gen Schema.SchemaTree Schema.SchemaModel.
Import ListNotations.

Definition INITIAL_CAPACITY : Z := Z.of_N Schema_SCHEMA_INITIAL_CAPACITY.
Definition GROWTH_FACTOR : Z := Z.of_N Schema_SCHEMA_GROWTH_FACTOR.

(** the name "schema" given to the root by carquet_schema_create has identifier 0 *)
Definition ROOT_NAME : N := 0%N.

Record bschema := mkB {
  b_elems : list elem;                 (* elements[0 .. num_elements) *)
  b_nodes : list (Z * Z);              (* their max_def_level / max_rep_level fields *)
  b_capacity : Z;
  b_leaves : list (nat * Z * Z) }.     (* leaf_indices / max_def_levels / max_rep_levels [0 .. num_leaves) *)

Definition schema_create : bschema :=
  mkB [mkElem (Some ROOT_NAME) false 0 0 false 0 0 None] [(0%Z, 0%Z)] INITIAL_CAPACITY [].

(** while (new_capacity < required) new_capacity *= SCHEMA_GROWTH_FACTOR; *)
Fixpoint grow (fuel : nat) (cap required : Z) : res Z :=
  match fuel with
  | O => Fault OutOfFuel
  | S f => if (cap <? required)%Z then grow f (cap * GROWTH_FACTOR)%Z required else Ok cap
  end.

Definition ensure_capacity (s : bschema) (required : Z) : res bschema :=
  if (required <=? b_capacity s)%Z then Ok s
  else match grow 64 (b_capacity s) required with
       | Ok c => Ok (mkB (b_elems s) (b_nodes s) c (b_leaves s))
       | Err c => Err c
       | Fault f => Fault f
       end.

Definition own_def (repetition : Z) : Z :=
  if (repetition =? E_CARQUET_REPETITION_OPTIONAL)%Z || (repetition =? E_CARQUET_REPETITION_REPEATED)%Z then 1%Z else 0%Z.
Definition own_rep (repetition : Z) : Z :=
  if (repetition =? E_CARQUET_REPETITION_REPEATED)%Z then 1%Z else 0%Z.

(** schema->elements[0].num_children++ *)
Definition bump_root (es : list elem) : res (list elem) :=
  match es with
  | [] => Fault OobRead
  | r :: tl => Ok (mkElem (e_name r) (e_has_type r) (e_type r) (e_tlen r) (e_has_rep r) (e_rep r)
                          (e_nc r + 1)%Z (e_logical r) :: tl)
  end.

(** appends one element; the store must be inside the allocation *)
Definition push_elem (s : bschema) (e : elem) (lv : Z * Z) : res bschema :=
  if (Z.of_nat (length (b_elems s)) <? b_capacity s)%Z then
    match bump_root (b_elems s ++ [e]) with
    | Ok es => Ok (mkB es (b_nodes s ++ [lv]) (b_capacity s) (b_leaves s))
    | Err c => Err c
    | Fault f => Fault f
    end
  else Fault OobWrite.

Definition add_column (s : bschema) (name : N) (ty : Z) (logical : option N) (repetition : Z) (tlen : Z)
  : res bschema :=
  match ensure_capacity s (Z.of_nat (length (b_elems s)) + 1)%Z with
  | Ok s1 =>
    let idx := length (b_elems s1) in
    let d := own_def repetition in
    let r := own_rep repetition in
    match push_elem s1 (mkElem (Some name) true ty tlen true repetition 0 logical) (d, r) with
    | Ok s2 =>
      if (Z.of_nat (length (b_leaves s2)) <? b_capacity s2)%Z
      then Ok (mkB (b_elems s2) (b_nodes s2) (b_capacity s2) (b_leaves s2 ++ [(idx, d, r)]))
      else Fault OobWrite
    | other => other
    end
  | other => other
  end.

(** returns the new schema and the index of the group, or -1 *)
Definition add_group (s : bschema) (name : N) (repetition : Z) (parent_index : Z) : res (bschema * Z) :=
  if negb (parent_index =? -1)%Z && negb (parent_index =? 0)%Z then Ok (s, (-1)%Z)
  else
    match ensure_capacity s (Z.of_nat (length (b_elems s)) + 1)%Z with
    | Ok s1 =>
      let idx := length (b_elems s1) in
      match push_elem s1 (mkElem (Some name) false 0 0 true repetition 0 None) (own_def repetition, own_rep repetition) with
      | Ok s2 => Ok (s2, Z.of_nat idx)
      | Err c => Err c
      | Fault f => Fault f
      end
    | Err c => Err c
    | Fault f => Fault f
    end.

Inductive bop :=
| AddColumn (name : N) (ty : Z) (logical : option N) (repetition : Z) (tlen : Z)
| AddGroup (name : N) (repetition : Z) (parent_index : Z).

(** a call sequence; the per-call results (status / returned index) are collected *)
Fixpoint run_ops (s : bschema) (ops : list bop) (acc : list Z) : res (bschema * list Z) :=
  match ops with
  | [] => Ok (s, rev acc)
  | AddColumn nm ty lt rp tl :: rest =>
    match add_column s nm ty lt rp tl with
    | Ok s' => run_ops s' rest (0%Z :: acc)
    | Err c => Err c
    | Fault f => Fault f
    end
  | AddGroup nm rp pi :: rest =>
    match add_group s nm rp pi with
    | Ok (s', i) => run_ops s' rest (i :: acc)
    | Err c => Err c
    | Fault f => Fault f
    end
  end.

(** the builder's schema seen through the same struct as a reader's *)
Definition as_schema (s : bschema) : schema := mkSchema (b_elems s) (b_leaves s) (b_nodes s) 0.
