(** The write / read scenarios of C19 at the granularity of allocation SITES.

    An API call is the sequence of allocation requests it makes; each request happens at a call site
    of the library (a row of Gen/AllocSites_gen.v) and, when granted, contributes something to the
    effect of the scenario (bytes of the file, values handed to the caller): the [chunk].  What
    happens when the request is denied depends only on what the code at that site does with the
    result ([site_class]):

      Checked / Propagated   the call stops and reports an error; the driver then closes / aborts /
                             frees the handles ("clean error")
      Ignored                the status is dropped: the call goes on WITHOUT the chunk and still
                             reports success
      Unchecked              the NULL pointer is used: a fault

    The mapping "k-th request of a real run <-> site" is observed by harness/h_alloc.c, not derived;
    that an error path frees what it owns is observed by LeakSanitizer (DESIGN.md section 10). *)
From Coq Require Import List Arith Bool.
From Carquet Require Import Alloc.AllocMonad.
Import ListNotations.

(** a visit: the class of the call site where the request is made, and what it contributes *)
Record visit := mkVisit { v_class : site_class; v_chunk : nat }.
Definition call := list visit.
Definition scenario := list call.

Inductive status := SOk | SErr | SFault.
Record result := mkRes { r_status : status; r_effect : list nat; r_closed : bool }.

Fixpoint run_call (vs : call) (eff : list nat) : M (status * list nat) :=
  match vs with
  | [] => ret (SOk, eff)
  | v :: r =>
      do g <- request;
      if g then run_call r (eff ++ [v_chunk v])
      else match v_class v with
           | Checked | Propagated => ret (SErr, eff)
           | Ignored => run_call r eff
           | Unchecked => ret (SFault, eff)
           end
  end.

Fixpoint run_calls (sc : scenario) (eff : list nat) : M (status * list nat) :=
  match sc with
  | [] => ret (SOk, eff)
  | c :: r => do x <- run_call c eff;
              match fst x with
              | SOk => run_calls r (snd x)
              | _ => ret x                      (* the driver stops at the first call that fails *)
              end
  end.

(** after the calls the driver closes / frees / aborts every handle, unless the process is gone *)
Definition run (o : oracle) (sc : scenario) : result :=
  let x := exec (run_calls sc []) o in
  mkRes (fst x) (snd x) (match fst x with SFault => false | _ => true end).

Definition all_ok (sc : scenario) : Prop :=
  forall c, In c sc -> forall v, In v c -> class_ok (v_class v) = true.

Definition over (sites : list site) (sc : scenario) : Prop :=
  forall c, In c sc -> forall v, In v c -> exists s, In s sites /\ s_class s = v_class v.

(** the statement of C19 for one faulty run *)
Definition clean (sc : scenario) (r : result) : Prop :=
  r_status r <> SFault /\
  (r_status r = SOk -> r_effect r = r_effect (run never sc)) /\
  r_closed r = true.
