(** Model of the arena (bump) allocator, src/core/arena.c (C19): [carquet_arena_alloc_aligned]
    (arena.c:125-190) and [arena_new_block] (arena.c:22-44).  A block is (size, used); offsets are
    relative to the block's data area.  The C code aligns ADDRESSES (arena_aligned_offset): the data
    area starts [HDR] = offsetof(carquet_arena_block_t, u) = 24 bytes into a malloc'ed block, malloc
    aligns to 16, so for the alignments in use (divisors of 16) address alignment is alignment of
    HDR + offset. *)
From Coq Require Import List NArith Bool Arith.
From Carquet Require Import Alloc.AllocMonad.
Import ListNotations.
Local Open Scope N_scope.

Definition BLOCK : N := 65536.     (* CARQUET_ARENA_DEFAULT_BLOCK_SIZE *)

Record block := mkBlock { bk_size : N; bk_used : N }.
Record arena := mkArena { blocks : list block; cur : nat; dflt : N }.

Definition align_up (v al : N) : N := ((v + al - 1) / al) * al.
Definition HDR : N := 24.
Definition aligned_off (used al : N) : N := align_up (HDR + used) al - HDR.

(** arena_new_block: at least BLOCK, otherwise rounded up to a multiple of BLOCK *)
Definition new_block_size (min_size : N) : N :=
  if min_size <? BLOCK then BLOCK else align_up min_size BLOCK.

(** first block at index >= i with room for [n] bytes at alignment [al] *)
Fixpoint find_room (bs : list block) (i : nat) (n al : N) : option (nat * N) :=
  match bs with
  | [] => None
  | b :: r => let off := aligned_off (bk_used b) al in
              if off + n <=? bk_size b then Some (i, off) else find_room r (S i) n al
  end.

Fixpoint set_used (bs : list block) (i : nat) (u : N) : list block :=
  match bs, i with
  | [], _ => []
  | b :: r, O => mkBlock (bk_size b) u :: r
  | b :: r, S j => b :: set_used r j u
  end.

(** result: Some (block index, offset) or None; the arena afterwards *)
Definition alloc (a : arena) (n al0 : N) : M (option (nat * N) * arena) :=
  if n =? 0 then ret (None, a)
  else
    let al := if al0 =? 0 then 1 else al0 in
    match find_room (skipn (cur a) (blocks a)) (cur a) n al with
    | Some (i, off) => ret (Some (i, off), mkArena (set_used (blocks a) i (off + n)) i (dflt a))
    | None =>
        do g <- request;
        if g then
          let sz := new_block_size (N.max (n + al) (dflt a)) in
          let off := aligned_off 0 al in
          ret (Some (length (blocks a), off), mkArena (blocks a ++ [mkBlock sz (off + n)]) (length (blocks a)) (dflt a))
        else ret (None, a)            (* malloc failed: arena untouched, NULL returned *)
    end.

(** carquet_arena_init_size *)
Definition arena_init (block_size : N) : M (option arena) :=
  do g <- request;
  if g then ret (Some (mkArena [mkBlock (new_block_size block_size) 0] 0 block_size)) else ret None.
