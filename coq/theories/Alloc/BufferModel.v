(** Model of the growable byte buffer, src/core/buffer.c (C19): [ensure_capacity] (buffer.c:31-58), the
    append family (all of them go through [carquet_buffer_append] / [ensure_capacity]) and their status.
    Statuses: 0 = CARQUET_OK, 2 = CARQUET_ERROR_OUT_OF_MEMORY (Gen/Enums_gen.v). *)
From Coq Require Import List NArith Bool.
From Carquet Require Import Alloc.AllocMonad.
Import ListNotations.
Local Open Scope N_scope.

Definition ST_OK : N := 0.
Definition ST_OOM : N := 2.

(** [bnull]: data == NULL (a fresh buffer); [bowns]: the buffer may realloc its data *)
Record buffer := mkBuf { bdata : list N; bcap : N; bowns : bool; bnull : bool }.
Definition bsize (b : buffer) : N := N.of_nat (length (bdata b)).
Definition buf_init : buffer := mkBuf [] 0 true true.                 (* carquet_buffer_init *)
Definition buf_wrap (d : list N) : buffer := mkBuf d (N.of_nat (length d)) false false.   (* carquet_buffer_init_wrap *)

Definition DEFAULT_CAPACITY : N := 4096.
(** next_power_of_two (buffer.c:17-29): smallest power of two >= n, 1 for 0 *)
Definition next_pow2 (n : N) : N := 2 ^ N.log2_up n.

Definition ensure_capacity (b : buffer) (needed : N) : M (N * buffer) :=
  if needed <=? bcap b then ret (ST_OK, b)
  else if negb (bowns b) && negb (bnull b) then ret (ST_OOM, b)       (* non-owning buffers do not grow *)
  else do g <- request;
       if g then ret (ST_OK, mkBuf (bdata b) (N.max DEFAULT_CAPACITY (next_pow2 needed)) true false)
       else ret (ST_OOM, b).                                           (* realloc failed: buffer untouched *)

Definition append (b : buffer) (bytes : list N) : M (N * buffer) :=
  match bytes with
  | [] => ret (ST_OK, b)
  | _ => do r <- ensure_capacity b (bsize b + N.of_nat (length bytes));
         if fst r =? ST_OK then ret (ST_OK, mkBuf (bdata (snd r) ++ bytes) (bcap (snd r)) (bowns (snd r)) (bnull (snd r)))
         else ret (fst r, snd r)
  end.

(** Assembling a page from chunks (page_writer.c): the current code checks every append and stops at
    the first failure ... *)
Fixpoint append_all_checked (b : buffer) (chunks : list (list N)) : M (N * buffer) :=
  match chunks with
  | [] => ret (ST_OK, b)
  | c :: r => do x <- append b c;
              if fst x =? ST_OK then append_all_checked (snd x) r else ret (fst x, snd x)
  end.
(** ... the code before /repo 4d96e67 dropped the statuses (finding F26). *)
Fixpoint append_all_ignoring (b : buffer) (chunks : list (list N)) : M (N * buffer) :=
  match chunks with
  | [] => ret (ST_OK, b)
  | c :: r => do x <- append b c; append_all_ignoring (snd x) r
  end.
