(** Computations that may request memory (C19).

    The allocator is an oracle: a predicate on the index (1, 2, 3, ...) of the request that says
    whether that request is DENIED.  [fail_at k] denies exactly request [k]; [never] denies none.
    A computation threads the index of the next request.  Theorems quantify over the oracle. *)
From Coq Require Import List Arith Bool String.
Import ListNotations.

Definition oracle := nat -> bool.
Definition never : oracle := fun _ => false.
Definition fail_at (k : nat) : oracle := fun i => Nat.eqb i k.

(** state = index of the next request *)
Definition M (A : Type) : Type := oracle -> nat -> A * nat.
Definition ret {A} (a : A) : M A := fun _ n => (a, n).
Definition bind {A B} (m : M A) (f : A -> M B) : M B :=
  fun o n => let '(a, n') := m o n in f a o n'.
(** one request: [true] when granted *)
Definition request : M bool := fun o n => (negb (o n), S n).
Definition exec {A} (m : M A) (o : oracle) : A := fst (m o 1).
Definition requests {A} (m : M A) (o : oracle) : nat := snd (m o 1) - 1.

Notation "'do' x '<-' m ';' f" := (bind m (fun x => f)) (at level 200, x name, m at level 100, f at level 200).

Lemma fail_at_eq k : fail_at k k = true.
Proof. unfold fail_at. apply Nat.eqb_refl. Qed.
Lemma fail_at_neq k i : i <> k -> fail_at k i = false.
Proof. unfold fail_at. intros H. apply Nat.eqb_neq. exact H. Qed.

(** * Allocation call sites (the rows of Gen/AllocSites_gen.v) *)
Inductive site_class : Set :=
| Checked      (* the result is tested before use; on failure the function reports an error *)
| Propagated   (* the result is returned to the caller unchanged *)
| Ignored      (* a status result is dropped *)
| Unchecked.   (* a pointer result is used without a test *)

Record site : Set := mkSite {
  s_file : string; s_func : string; s_callee : string; s_ord : nat; s_class : site_class }.

Definition class_ok (c : site_class) : bool :=
  match c with Checked | Propagated => true | Ignored | Unchecked => false end.
