(** Proofs for C19: the site-level scenario model, the buffer model, the arena model. *)
From Coq Require Import List Arith Bool NArith Lia String.
From Carquet Require Import Alloc.AllocMonad Alloc.BufferModel Alloc.ArenaModel Alloc.SiteModel.
Import ListNotations.

(** * Site model *)
Lemma run_call_ok (vs : call) :
  (forall v, In v vs -> class_ok (v_class v) = true) ->
  forall o n eff,
    fst (fst (run_call vs eff o n)) <> SFault /\
    (fst (fst (run_call vs eff o n)) = SOk -> run_call vs eff o n = run_call vs eff never n).
Proof.
  induction vs as [|v r IH]; intros H o n eff; simpl.
  - split; [discriminate | reflexivity].
  - unfold bind, request. simpl.
    destruct (o n) eqn:E; simpl.
    + (* denied *)
      pose proof (H v (or_introl eq_refl)) as Hv.
      destruct (v_class v); simpl in Hv; try discriminate; simpl; split; discriminate.
    + apply IH. intros w Hw. apply H. right. exact Hw.
Qed.

Lemma run_calls_ok (sc : scenario) :
  all_ok sc ->
  forall o n eff,
    fst (fst (run_calls sc eff o n)) <> SFault /\
    (fst (fst (run_calls sc eff o n)) = SOk -> run_calls sc eff o n = run_calls sc eff never n).
Proof.
  induction sc as [|c r IH]; intros H o n eff; simpl.
  - split; [discriminate | reflexivity].
  - unfold bind.
    assert (Hc : forall v, In v c -> class_ok (v_class v) = true)
      by (intros v Hv; apply (H c (or_introl eq_refl) v Hv)).
    destruct (run_call_ok c Hc o n eff) as [C1 C2].
    destruct (run_call c eff o n) as [[st e] n'] eqn:E. simpl in *.
    destruct st.
    + specialize (C2 eq_refl). rewrite <- C2. simpl.
      assert (Hr : all_ok r) by (intros d Hd; apply H; right; exact Hd).
      apply (IH Hr o n' e).
    + simpl. split; discriminate.
    + exfalso. apply C1. reflexivity.
Qed.

(** ** alloc_failure_clean: every site checked => for every scenario shape and every oracle (in
    particular every [fail_at k]) no fault, success only with the fault-free effect, handles closed. *)
Theorem alloc_failure_clean_oracle :
  forall (sc : scenario) (o : oracle), all_ok sc -> clean sc (run o sc).
Proof.
  intros sc o H. unfold clean, run, exec.
  destruct (run_calls_ok sc H o 1 []) as [C1 C2].
  destruct (run_calls sc [] o 1) as [[st e] n'] eqn:E. simpl in *.
  split; [exact C1|]. split.
  - intros Hs. specialize (C2 Hs). rewrite <- C2. reflexivity.
  - destruct st; try reflexivity. exfalso. apply C1. reflexivity.
Qed.

Theorem alloc_failure_clean :
  forall (sc : scenario) (k : nat), all_ok sc -> clean sc (run (fail_at k) sc).
Proof. intros sc k. apply alloc_failure_clean_oracle. Qed.

(** over a table of sites that are all checked *)
Theorem alloc_failure_clean_table :
  forall sites, forallb (fun s => class_ok (s_class s)) sites = true ->
  forall sc k, over sites sc -> clean sc (run (fail_at k) sc).
Proof.
  intros sites Ht sc k Ho. apply alloc_failure_clean.
  intros c Hc v Hv. rewrite forallb_forall in Ht. destruct (Ho c Hc v Hv) as [s [Hs <-]]. apply Ht. exact Hs.
Qed.

(** the hypotheses are satisfiable by a non-trivial value *)
Example alloc_failure_clean_example :
  let sc := [[mkVisit Checked 10; mkVisit Propagated 11]; [mkVisit Checked 12]] in
  all_ok sc /\ run never sc = mkRes SOk [10; 11; 12] true /\ run (fail_at 2) sc = mkRes SErr [10] true.
Proof.
  split; [|split; reflexivity].
  intros c Hc v Hv. simpl in Hc. destruct Hc as [<-|[<-|[]]]; simpl in Hv;
    repeat (destruct Hv as [<-|Hv]; [reflexivity|]); contradiction.
Qed.

(** ** Refuted for a site that drops a status (finding F26, page_writer.c before /repo 4d96e67: the
    appends that assemble a page): success is reported, a chunk of the page is missing. *)
Definition f26_ignored_site : site :=
  mkSite "writer/page_writer.c" "carquet_page_writer_finalize" "carquet_buffer_append" 3 Ignored.
Definition f26_scenario_ignored : scenario :=
  [[mkVisit Checked 1; mkVisit (s_class f26_ignored_site) 2; mkVisit Checked 3]].

Theorem alloc_failure_clean_refuted_ignored :
  exists sc k, ~ clean sc (run (fail_at k) sc) /\ r_status (run (fail_at k) sc) = SOk.
Proof.
  exists f26_scenario_ignored, 2%nat. split; [|reflexivity].
  intros (_ & H & _). specialize (H eq_refl). vm_compute in H. discriminate.
Qed.

(** ... and for a site that uses an unchecked pointer (parquet_types.c before /repo 06f7708: the
    arrays of parse_column_metadata): a NULL dereference. *)
Definition f26_unchecked_site : site :=
  mkSite "thrift/parquet_types.c" "parse_column_metadata" "carquet_arena_calloc" 1 Unchecked.
Theorem alloc_failure_clean_refuted_unchecked :
  exists sc k, r_status (run (fail_at k) sc) = SFault.
Proof. exists [[mkVisit (s_class f26_unchecked_site) 1]], 1%nat. reflexivity. Qed.

(** * Buffer model *)
Local Open Scope N_scope.

Lemma ensure_capacity_fail_unchanged b needed o n :
  fst (fst (ensure_capacity b needed o n)) <> ST_OK -> snd (fst (ensure_capacity b needed o n)) = b.
Proof.
  unfold ensure_capacity.
  destruct (needed <=? bcap b); simpl; [intros H; exfalso; apply H; reflexivity|].
  destruct (negb (bowns b) && negb (bnull b)); simpl; [reflexivity|].
  unfold bind, request. simpl. destruct (o n); simpl; [reflexivity|].
  intros H; exfalso; apply H; reflexivity.
Qed.

Lemma next_pow2_ge n : n <= next_pow2 n.
Proof.
  unfold next_pow2.
  destruct (N.le_gt_cases n 1) as [L|G].
  - assert (C : n = 0 \/ n = 1) by lia. destruct C as [->| ->]; simpl; lia.
  - apply (N.log2_up_spec n G).
Qed.

(** a successful [ensure_capacity] provides the capacity asked for and keeps the content *)
Lemma ensure_capacity_ok b needed o n :
  fst (fst (ensure_capacity b needed o n)) = ST_OK ->
  needed <= bcap (snd (fst (ensure_capacity b needed o n))) /\
  bdata (snd (fst (ensure_capacity b needed o n))) = bdata b.
Proof.
  unfold ensure_capacity.
  destruct (needed <=? bcap b) eqn:E; simpl; [intros _; split; [apply N.leb_le; exact E | reflexivity]|].
  destruct (negb (bowns b) && negb (bnull b)); simpl; [discriminate|].
  unfold bind, request. simpl. destruct (o n); simpl; [discriminate|].
  intros _. split; [|reflexivity]. pose proof (next_pow2_ge needed). lia.
Qed.

(** [carquet_buffer_append]: on failure the buffer is untouched, on success exactly the bytes are added
    and they fit the capacity *)
Lemma append_cons b x r o n :
  append b (x :: r) o n =
  (let r0 := ensure_capacity b (bsize b + N.of_nat (List.length (x :: r))) o n in
   if fst (fst r0) =? ST_OK
   then ((ST_OK, mkBuf (bdata (snd (fst r0)) ++ x :: r) (bcap (snd (fst r0))) (bowns (snd (fst r0))) (bnull (snd (fst r0)))), snd r0)
   else ((fst (fst r0), snd (fst r0)), snd r0)).
Proof.
  unfold append, bind, ret.
  destruct (ensure_capacity b (bsize b + N.of_nat (List.length (x :: r))) o n) as [[st b'] n'].
  cbn [fst snd]. destruct (st =? ST_OK); reflexivity.
Qed.

Theorem append_fail_unchanged b bytes o n :
  fst (fst (append b bytes o n)) <> ST_OK -> snd (fst (append b bytes o n)) = b.
Proof.
  destruct bytes as [|x r]; [intros H; exfalso; apply H; reflexivity|].
  rewrite append_cons. cbv zeta.
  pose proof (ensure_capacity_fail_unchanged b (bsize b + N.of_nat (List.length (x :: r))) o n) as F.
  destruct (ensure_capacity b (bsize b + N.of_nat (List.length (x :: r))) o n) as [[st b'] n'].
  cbn [fst snd] in *. destruct (st =? ST_OK) eqn:S; cbn [fst snd].
  - intros H; exfalso; apply H; reflexivity.
  - intros _. apply F. intros C. rewrite C in S. discriminate.
Qed.

Lemma append_ok_data b bytes o n :
  fst (fst (append b bytes o n)) = ST_OK ->
  bdata (snd (fst (append b bytes o n))) = bdata b ++ bytes /\
  (bsize b <= bcap b -> bsize (snd (fst (append b bytes o n))) <= bcap (snd (fst (append b bytes o n)))).
Proof.
  destruct bytes as [|x r].
  - intros _. cbn. rewrite app_nil_r. auto.
  - rewrite append_cons. cbv zeta.
    pose proof (ensure_capacity_ok b (bsize b + N.of_nat (List.length (x :: r))) o n) as K.
    destruct (ensure_capacity b (bsize b + N.of_nat (List.length (x :: r))) o n) as [[st b'] n'].
    cbn [fst snd] in *. destruct (st =? ST_OK) eqn:S; cbn [fst snd].
    + intros _. apply N.eqb_eq in S. destruct (K S) as [K1 K2]. cbn [bdata bcap]. rewrite K2.
      split; [reflexivity|]. intros _. unfold bsize in *. cbn [bdata]. rewrite app_length.
      rewrite Nat2N.inj_add. exact K1.
    + intros H. rewrite H in S. discriminate.
Qed.

Theorem append_ok b bytes o n :
  bsize b <= bcap b ->
  fst (fst (append b bytes o n)) = ST_OK ->
  bdata (snd (fst (append b bytes o n))) = bdata b ++ bytes /\
  bsize (snd (fst (append b bytes o n))) <= bcap (snd (fst (append b bytes o n))).
Proof.
  intros Inv H. destruct (append_ok_data b bytes o n H) as [A B]. split; [exact A | exact (B Inv)].
Qed.

(** assembling a page with CHECKED appends: whatever the oracle, either an error is reported or the
    buffer holds exactly the concatenation of the chunks *)
Theorem append_all_checked_clean chunks : forall b o n,
  fst (fst (append_all_checked b chunks o n)) = ST_OK ->
  bdata (snd (fst (append_all_checked b chunks o n))) = bdata b ++ List.concat chunks.
Proof.
  induction chunks as [|c r IH]; intros b o n.
  - intros _. cbn. rewrite app_nil_r. reflexivity.
  - cbn [append_all_checked List.concat]. unfold bind.
    pose proof (append_ok_data b c o n) as A.
    destruct (append b c o n) as [[st b'] n']. cbn [fst snd] in *.
    destruct (st =? ST_OK) eqn:S.
    + intros H. rewrite (IH b' o n' H). apply N.eqb_eq in S. destruct (A S) as [A1 _].
      rewrite A1, app_assoc. reflexivity.
    + cbn. intros H. rewrite H in S. discriminate.
Qed.

(** the code before the repair dropped the statuses: a page that lacks a chunk is reported OK *)
Theorem append_all_ignoring_refuted :
  exists chunks k,
    fst (exec (append_all_ignoring buf_init chunks) (fail_at k)) = ST_OK /\
    bdata (snd (exec (append_all_ignoring buf_init chunks) (fail_at k))) <>
    bdata (snd (exec (append_all_ignoring buf_init chunks) never)).
Proof.
  exists [[1; 2; 3]; [4]], 1%nat. split; [reflexivity|]. vm_compute. discriminate.
Qed.

Example append_example :
  exec (append_all_checked buf_init [[1; 2; 3]; [4]]) never = (ST_OK, mkBuf [1; 2; 3; 4] 4096 true false) /\
  fst (exec (append_all_checked buf_init [[1; 2; 3]; [4]]) (fail_at 1)) = ST_OOM.
Proof. split; vm_compute; reflexivity. Qed.

(** * Arena model *)
Lemma find_room_spec bs : forall i n al j off,
  find_room bs i n al = Some (j, off) ->
  exists b, nth_error bs (j - i) = Some b /\ (i <= j)%nat /\
            off = aligned_off (bk_used b) al /\ off + n <= bk_size b.
Proof.
  induction bs as [|b r IH]; intros i n al j off H; simpl in H; [discriminate|].
  destruct (aligned_off (bk_used b) al + n <=? bk_size b) eqn:E.
  - inversion H; subst. exists b. rewrite Nat.sub_diag. simpl.
    repeat split; auto. apply N.leb_le. exact E.
  - destruct (IH (S i) n al j off H) as [b' (H1 & H2 & H3 & H4)].
    exists b'. replace (j - i)%nat with (S (j - S i)) by lia. simpl. repeat split; auto. lia.
Qed.

Lemma nth_error_skipn' {A} (l : list A) : forall k m, nth_error (skipn k l) m = nth_error l (k + m).
Proof.
  induction l as [|x r IH]; intros [|k] m; simpl; auto.
  - destruct m; reflexivity.
Qed.

Lemma align_up_bounds v al : al <> 0 -> v <= align_up v al < v + al.
Proof.
  intros H. unfold align_up.
  pose proof (N.div_mod (v + al - 1) al H) as E. pose proof (N.mod_lt (v + al - 1) al H) as L.
  remember ((v + al - 1) / al) as q. remember ((v + al - 1) mod al) as r.
  rewrite (N.mul_comm q al). lia.
Qed.
Lemma aligned_off_ge used al : al <> 0 -> used <= aligned_off used al.
Proof. intros H. unfold aligned_off. pose proof (align_up_bounds (HDR + used) al H). lia. Qed.
Lemma aligned_off_lt used al : al <> 0 -> aligned_off used al < used + al.
Proof. intros H. unfold aligned_off. pose proof (align_up_bounds (HDR + used) al H). lia. Qed.

(** a denied request leaves the arena as it was and returns NULL; no other path returns NULL for n > 0 *)
Theorem arena_alloc_fail_unchanged a n al o k :
  fst (fst (alloc a n al o k)) = None -> snd (fst (alloc a n al o k)) = a.
Proof.
  unfold alloc. destruct (n =? 0); [reflexivity|].
  destruct (find_room (skipn (cur a) (blocks a)) (cur a) n (if al =? 0 then 1 else al)) as [[i off]|];
    [simpl; discriminate|].
  unfold bind, request. simpl. destruct (o k); simpl; [reflexivity | discriminate].
Qed.

(** a granted request lies inside its block, behind everything handed out before from that block
    (bump allocation: regions never overlap), at the requested alignment *)
Theorem arena_alloc_in_bounds a n al o k i off :
  fst (fst (alloc a n al o k)) = Some (i, off) ->
  let a' := snd (fst (alloc a n al o k)) in
  exists b', nth_error (blocks a') i = Some b' /\
             off + n <= bk_size b' /\ bk_used b' = off + n /\
             (forall b, nth_error (blocks a) i = Some b -> bk_used b <= off).
Proof.
  unfold alloc. destruct (n =? 0) eqn:N0; [simpl; discriminate|].
  set (al' := if al =? 0 then 1 else al).
  destruct (find_room (skipn (cur a) (blocks a)) (cur a) n al') as [[j o']|] eqn:F.
  - simpl. intros H; inversion H; subst j o'. clear H.
    destruct (find_room_spec _ _ _ _ _ _ F) as [b (H1 & H2 & H3 & H4)].
    assert (Hb : nth_error (blocks a) i = Some b).
    { rewrite nth_error_skipn' in H1. replace (cur a + (i - cur a))%nat with i in H1 by lia. exact H1. }
    exists (mkBlock (bk_size b) (off + n)). simpl.
    split; [|split; [exact H4 | split; [reflexivity|]]].
    + clear -Hb. revert i Hb. generalize (blocks a) as bs.
      induction bs as [|x r IH]; intros [|i] Hb; simpl in *; try discriminate.
      * inversion Hb; subst. reflexivity.
      * apply IH. exact Hb.
    + intros b0 Hb0. rewrite Hb in Hb0. inversion Hb0; subst b0. rewrite H3.
      apply aligned_off_ge. unfold al'; destruct (al =? 0) eqn:Z; [discriminate | apply N.eqb_neq; exact Z].
  - unfold bind, request. simpl. destruct (o k); simpl; [discriminate|].
    intros H; inversion H; subst i off. clear H.
    assert (Hal : al' <> 0) by (unfold al'; destruct (al =? 0) eqn:Z; [discriminate | apply N.eqb_neq; exact Z]).
    exists (mkBlock (new_block_size (N.max (n + al') (dflt a))) (aligned_off 0 al' + n)). simpl.
    split; [|split; [|split; [reflexivity|]]].
    + rewrite nth_error_app2 by (apply Nat.le_refl). rewrite Nat.sub_diag. reflexivity.
    + pose proof (aligned_off_lt 0 al' Hal) as L.
      assert (S1 : N.max (n + al') (dflt a) <= new_block_size (N.max (n + al') (dflt a))).
      { unfold new_block_size. destruct (N.max (n + al') (dflt a) <? BLOCK) eqn:E.
        - apply N.ltb_lt in E. lia.
        - unfold align_up, BLOCK in *.
          pose proof (N.div_mod (N.max (n + al') (dflt a) + 65536 - 1) 65536 ltac:(discriminate)).
          pose proof (N.mod_lt (N.max (n + al') (dflt a) + 65536 - 1) 65536 ltac:(discriminate)). lia. }
      lia.
    + intros b Hb. assert (X : nth_error (blocks a) (List.length (blocks a)) = None) by (apply nth_error_None; lia).
      rewrite X in Hb. discriminate.
Qed.

(** * The table of the current sources
    Gen/AllocSites_gen.v is regenerated from /repo's working tree on every run; this sweep is what
    breaks when a call site stops testing its result. *)
From Carquet Require Import Gen.AllocSites_gen.

Theorem all_sites_checked : forallb (fun s => class_ok (s_class s)) alloc_sites = true.
Proof. vm_compute. reflexivity. Qed.

Theorem alloc_failure_clean_current_code :
  forall sc k, over alloc_sites sc -> clean sc (run (fail_at k) sc).
Proof. apply alloc_failure_clean_table. exact all_sites_checked. Qed.

(** the table is not trivially small *)
Example alloc_sites_nontrivial : (60 <= List.length alloc_sites)%nat.
Proof. vm_compute. repeat constructor. Qed.
