(** Code-level tie of the thrift engine: the zigzag helpers of src/core/endian.h that thrift_write_zigzag /
    thrift_read_zigzag call, re-translated from the working tree into Gen/CLeaf_gen.v on every run
    (tools/gen.d/c2coq.py), equal zigzag_encode64 / zigzag_decode64 of Thrift/ThriftModel.v. *)
From Coq Require Import ZArith NArith List Bool Lia ZifyBool ZifyNat ZifyN.
From Carquet Require Import Base.CSem Gen.CLeaf_gen Tie.TieLib Thrift.ThriftModel.
Import ListNotations.
Local Open Scope Z_scope.
Ltac Zify.zify_post_hook ::= Z.div_mod_to_equations.

(** carquet_zigzag_encode64(v) for an int64_t v *)
Lemma tie_zigzag_encode64 (v : Z) :
  - 2 ^ 63 <= v < 2 ^ 63 ->
  c_carquet_zigzag_encode64 v = Z.of_N (ThriftModel.zigzag_encode64 v).
Proof.
  intros Hv. unfold c_carquet_zigzag_encode64, ThriftModel.zigzag_encode64, ThriftModel.u64, ThriftModel.ones64.
  rewrite cshl_u_shiftl, cshr_ok by lia. rewrite Z.shiftl_mul_pow2, Z.shiftr_div_pow2 by lia.
  rewrite of_N_lxor. f_equal.
  - unfold wrapu. rewrite N2Z.inj_mod, N2Z.inj_mul. rewrite Z2N.id by (apply Z.mod_pos_bound; lia).
    change (Z.of_N (2 ^ 64)) with (2 ^ 64). change (Z.of_N 2) with 2. change (2 ^ 1) with 2. reflexivity.
  - pow2. destruct (Z.ltb_spec v 0).
    + replace (v / 9223372036854775808) with (-1) by lia. reflexivity.
    + replace (v / 9223372036854775808) with 0 by lia. reflexivity.
Qed.

(** carquet_zigzag_decode64(v) for a uint64_t v *)
Lemma tie_zigzag_decode64 (v : N) :
  (v < 2 ^ 64)%N ->
  c_carquet_zigzag_decode64 (Z.of_N v) = ThriftModel.zigzag_decode64 v.
Proof.
  intros Hv. unfold c_carquet_zigzag_decode64, ThriftModel.zigzag_decode64, ThriftModel.s64, ThriftModel.ones64.
  rewrite cshr_ok by lia. rewrite of_N_lxor, of_N_shiftr. change (Z.of_N 1) with 1.
  rewrite Z_land_1.
  assert (B : 0 <= Z.shiftr (Z.of_N v) 1 < 2 ^ 64) by (apply Z_shiftr_range; [lia|blia]).
  assert (S : forall x, 0 <= x < 2 ^ 64 -> wraps 64 x = ThriftModel.scast 64 x).
  { intros x Hx. unfold wraps, ThriftModel.scast. change (2 ^ (64 - 1)) with 9223372036854775808 in *.
    pow2. rewrite (Z.mod_small x) by lia.
    destruct (Z.ltb_spec x 9223372036854775808); lia. }
  assert (C : Z.of_N v mod 2 = 0 \/ Z.of_N v mod 2 = 1) by lia.
  destruct C as [C|C]; rewrite C.
  - replace (N.odd v) with false.
    2:{ symmetry. apply Bool.not_true_is_false. rewrite N.odd_spec. intros [k Hk]. lia. }
    replace (wrapu 64 (wraps 64 (- wraps 64 0))) with 0 by reflexivity.
    change (Z.of_N 0) with 0. rewrite Z.lxor_0_r. apply S. exact B.
  - replace (N.odd v) with true.
    2:{ symmetry. rewrite N.odd_spec. exists (v / 2)%N. lia. }
    replace (wrapu 64 (wraps 64 (- wraps 64 1))) with (Z.of_N 18446744073709551615) by reflexivity.
    apply S. apply Z_lxor_range; [lia|exact B|]. cbn. lia.
Qed.
