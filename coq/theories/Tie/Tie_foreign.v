(** Code-level tie of the foreign-file engine: bit_width_for_max of src/reader/page_reader.c, re-translated from
    the working tree into Gen/CLeaf_gen.v on every run (tools/gen.d/c2coq.py), equals bit_width_for_max of
    File/ForeignModel.v on every non-negative int. *)
From Coq Require Import ZArith NArith List Bool Lia ZifyBool ZifyNat ZifyN.
From Carquet Require Import Base.CSem Gen.CLeaf_gen Tie.TieLib File.ForeignModel.
Import ListNotations.
Local Open Scope Z_scope.

Lemma foreign_bw_loop_size (n : nat) (m : N) (w : nat) :
  (m < 2 ^ N.of_nat n)%N -> ForeignModel.bw_loop n m w = (w + N.to_nat (N.size m))%nat.
Proof.
  revert m w. induction n as [|n IH]; intros m w Hm.
  - change (2 ^ N.of_nat 0)%N with 1%N in Hm. replace m with 0%N by lia. cbn. lia.
  - cbn [ForeignModel.bw_loop]. destruct (N.ltb_spec 0 m) as [P|P].
    + rewrite IH.
      * rewrite <- N.div2_spec. rewrite (size_div2 m) by lia. lia.
      * rewrite N.shiftr_div_pow2. change (2 ^ 1)%N with 2%N.
        rewrite Nat2N.inj_succ, N.pow_succ_r' in Hm. apply N.div_lt_upper_bound; lia.
    + replace m with 0%N by lia. cbn. lia.
Qed.

Lemma tie_foreign_bit_width_for_max (m : N) :
  (m < 2 ^ 31)%N ->
  c_reader_bit_width_for_max (Z.of_N m) = Z.of_nat (ForeignModel.bit_width_for_max m).
Proof.
  intros Hm. unfold ForeignModel.bit_width_for_max.
  transitivity (if Z.eqb (Z.of_N m) 0 then 0 else bw_iter 31 (fun x => cshr 32 x 1) (Z.of_N m) 0); [reflexivity|].
  destruct (Z.eqb_spec (Z.of_N m) 0) as [E|E].
  - replace m with 0%N by lia. reflexivity.
  - destruct (N.eqb_spec m 0); [lia|].
    rewrite foreign_bw_loop_size by (eapply N.lt_trans; [exact Hm|reflexivity]).
    rewrite bw_iter_size; [rewrite N2Z.id; lia| |blia].
    intros x Hx. apply cshr_div. lia.
Qed.
