(** Code-level tie of the second encoding engine (delta, dictionary, plain): the C leaf functions of
    src/encoding/delta.c, src/encoding/dictionary.c and the little-endian helpers of src/core/endian.h,
    re-translated from the working tree into Gen/CLeaf_gen.v on every run (tools/gen.d/c2coq.py), equal the
    hand-written model functions of Enc/DeltaModel.v, Enc/DictModel.v and Enc/DeltaBits.v (the byte
    conversions Enc/PlainModel.v and Enc/DictModel.v are built from) on all in-range arguments. *)
From Coq Require Import ZArith NArith List Bool Lia ZifyBool ZifyNat ZifyN.
From Carquet Require Import Base.CSem Gen.CLeaf_gen Tie.TieLib Enc.DeltaBits Enc.DeltaModel Enc.DictModel.
Import ListNotations.
Local Open Scope Z_scope.
Ltac Zify.zify_post_hook ::= Z.div_mod_to_equations.

(* ------------------------------------------------------------------ src/encoding/delta.c *)

(** zigzag_encode64(n): the model works on the 64-bit pattern x of n, i.e. n = (int64_t)x *)
Lemma tie_delta_zigzag_encode64 (x : N) :
  (x < 2 ^ 64)%N ->
  c_zigzag_encode64 (wraps 64 (Z.of_N x)) = Z.of_N (DeltaModel.zigzag_enc x).
Proof.
  intros Hx. unfold c_zigzag_encode64, DeltaModel.zigzag_enc, DeltaModel.u64, DeltaModel.ones64.
  rewrite wrapu_wraps by lia. rewrite (wrapu64_small (Z.of_N x)) by blia.
  rewrite cshl_u_shiftl, cshr_ok by lia.
  rewrite of_N_lxor, of_N_land_ones, of_N_shiftl. change (Z.of_N 64) with 64. change (Z.of_N 1) with 1.
  f_equal.
  rewrite Z.shiftr_div_pow2 by lia. unfold wraps. change (2 ^ (64 - 1)) with 9223372036854775808.
  rewrite Z.mod_small by blia.
  destruct (N.ltb_spec x (2 ^ 63)) as [L|G]; pow2.
  - destruct (Z.ltb_spec (Z.of_N x) 9223372036854775808); [|lia].
    rewrite Z.div_small by lia. reflexivity.
  - destruct (Z.ltb_spec (Z.of_N x) 9223372036854775808); [lia|].
    replace ((Z.of_N x - 18446744073709551616) / 9223372036854775808) with (-1) by lia. reflexivity.
Qed.

(** zigzag_decode64(n): the 64-bit pattern of the result *)
Lemma tie_delta_zigzag_decode64 (n : N) :
  (n < 2 ^ 64)%N ->
  wrapu 64 (c_zigzag_decode64 (Z.of_N n)) = Z.of_N (DeltaModel.zigzag_dec n).
Proof.
  intros Hn. unfold c_zigzag_decode64, DeltaModel.zigzag_dec, DeltaModel.ones64.
  rewrite wrapu_wraps by lia. rewrite cshr_ok by lia.
  rewrite of_N_lxor, of_N_shiftr. change (Z.of_N 1) with 1.
  assert (B : 0 <= Z.shiftr (Z.of_N n) 1 < 2 ^ 64).
  { apply Z_shiftr_range; [lia|]. blia. }
  rewrite Z_land_1, N_land_1. unfold cnot_u.
  assert (C : Z.of_N n mod 2 = 0 \/ Z.of_N n mod 2 = 1) by lia.
  destruct C as [C|C]; rewrite C.
  - replace (n mod 2)%N with 0%N by lia. cbn [N.eqb].
    replace (wrapu 64 (2 ^ 64 - 1 - 0 + 1)) with 0 by reflexivity.
    change (Z.of_N 0) with 0. rewrite Z.lxor_0_r. apply wrapu_small. exact B.
  - replace (n mod 2)%N with 1%N by lia. cbn [N.eqb Pos.eqb].
    replace (wrapu 64 (2 ^ 64 - 1 - 1 + 1)) with (Z.of_N (N.ones 64)) by reflexivity.
    apply wrapu_small. apply Z_lxor_range; [lia|exact B|]. cbn. lia.
Qed.

(** bit_width_required(value) = number of significant bits (64 loop iterations suffice for a uint64_t) *)
Lemma tie_delta_bit_width_required (v : N) :
  (v < 2 ^ 64)%N ->
  c_bit_width_required (Z.of_N v) = Z.of_N (DeltaModel.bit_width v).
Proof.
  intros Hv. unfold DeltaModel.bit_width.
  transitivity (if Z.eqb (Z.of_N v) 0 then 0 else bw_iter 64 (fun x => cshr 64 x 1) (Z.of_N v) 0); [reflexivity|].
  destruct (Z.eqb_spec (Z.of_N v) 0) as [E|E].
  - replace v with 0%N by lia. reflexivity.
  - rewrite bw_iter_size; [rewrite N2Z.id; lia| |blia].
    intros x Hx. apply cshr_div. lia.
Qed.

(* ------------------------------------------------------------------ src/encoding/dictionary.c *)

(** bit_width_for_count(count): bits of count - 1, at least 1; 0 for an empty dictionary *)
Lemma tie_dict_bit_width_for_count (count : N) :
  (count < 2 ^ 32)%N ->
  c_bit_width_for_count (Z.of_N count) = Z.of_N (DictModel.bit_width_for_count count).
Proof.
  intros Hc. unfold DictModel.bit_width_for_count.
  transitivity (if Z.eqb (Z.of_N count) 0 then 0 else
                let c1 := wrapu 32 (Z.of_N count - 1) in
                if Z.gtb c1 0 then bw_iter 31 (fun x => cshr 32 x 1) (cshr 32 c1 1) 1 else 1); [reflexivity|].
  destruct (Z.eqb_spec (Z.of_N count) 0) as [E|E].
  - replace count with 0%N by lia. reflexivity.
  - destruct (N.eqb_spec count 0) as [E'|E']; [lia|]. cbv zeta.
    rewrite wrapu32_small by blia.
    replace (Z.of_N count - 1) with (Z.of_N (count - 1)) by lia.
    set (c := (count - 1)%N). assert (Hc' : (c < 2 ^ 32)%N) by (unfold c; lia).
    destruct (Z.gtb_spec (Z.of_N c) 0) as [P|P].
    + rewrite cshr_div by lia.
      rewrite bw_iter_size.
      * rewrite Z2N.inj_div by lia. rewrite N2Z.id. change (Z.to_N (2 ^ 1)) with 2%N.
        rewrite <- N.div2_div. rewrite (size_div2 c) by lia.
        destruct (N.eqb_spec (N.succ (N.size (N.div2 c))) 0); lia.
      * intros x Hx. apply cshr_div. lia.
      * split; [apply Z.div_pos; lia|]. apply Z.div_lt_upper_bound; blia.
    + replace c with 0%N by lia. reflexivity.
Qed.

(* ------------------------------------------------------------------ src/core/endian.h (little-endian target) *)

(** carquet_read_uN_le(p) is memcpy into an N-bit integer: the little-endian number [le_num_f] of the first
    bytes (the byte conversion of Enc/PlainModel.v and Enc/DictModel.v) *)
Local Ltac read_tac :=
  intros; unfold c_carquet_read_u16_le, c_carquet_read_u32_le, c_carquet_read_u64_le; cbv zeta;
  unfold le_load; cbn [le_load_nat Z.to_nat nth DeltaBits.le_num_f];
  rewrite ?N.shiftl_mul_pow2; pow2; lia.

Lemma tie_read_u16_le (b0 b1 : N) (rest : list Z) :
  c_carquet_read_u16_le (Z.of_N b0 :: Z.of_N b1 :: rest) = Z.of_N (DeltaBits.le_num_f [b0; b1]).
Proof. read_tac. Qed.

Lemma tie_read_u32_le (b0 b1 b2 b3 : N) (rest : list Z) :
  c_carquet_read_u32_le (Z.of_N b0 :: Z.of_N b1 :: Z.of_N b2 :: Z.of_N b3 :: rest)
  = Z.of_N (DeltaBits.le_num_f [b0; b1; b2; b3]).
Proof. read_tac. Qed.

Lemma tie_read_u64_le (b0 b1 b2 b3 b4 b5 b6 b7 : N) (rest : list Z) :
  c_carquet_read_u64_le (Z.of_N b0 :: Z.of_N b1 :: Z.of_N b2 :: Z.of_N b3 ::
                         Z.of_N b4 :: Z.of_N b5 :: Z.of_N b6 :: Z.of_N b7 :: rest)
  = Z.of_N (DeltaBits.le_num_f [b0; b1; b2; b3; b4; b5; b6; b7]).
Proof. read_tac. Qed.

(** carquet_read_iN_le: the same bytes read as a signed number; its N-bit pattern is the little-endian number *)
Lemma tie_read_i32_le (b0 b1 b2 b3 : N) (rest : list Z) :
  (b0 < 256)%N -> (b1 < 256)%N -> (b2 < 256)%N -> (b3 < 256)%N ->
  let p := Z.of_N b0 :: Z.of_N b1 :: Z.of_N b2 :: Z.of_N b3 :: rest in
  c_carquet_read_i32_le p = wraps 32 (Z.of_N (DeltaBits.le_num_f [b0; b1; b2; b3])) /\
  wrapu 32 (c_carquet_read_i32_le p) = Z.of_N (DeltaBits.le_num_f [b0; b1; b2; b3]).
Proof.
  intros H0 H1 H2 H3 p. unfold c_carquet_read_i32_le, p. rewrite tie_read_u32_le. split; [reflexivity|].
  rewrite wrapu_wraps by lia. apply wrapu32_small.
  cbn [DeltaBits.le_num_f]. rewrite ?N.shiftl_mul_pow2. pow2. lia.
Qed.

Lemma tie_read_i64_le (b0 b1 b2 b3 b4 b5 b6 b7 : N) (rest : list Z) :
  (b0 < 256)%N -> (b1 < 256)%N -> (b2 < 256)%N -> (b3 < 256)%N ->
  (b4 < 256)%N -> (b5 < 256)%N -> (b6 < 256)%N -> (b7 < 256)%N ->
  let p := Z.of_N b0 :: Z.of_N b1 :: Z.of_N b2 :: Z.of_N b3 :: Z.of_N b4 :: Z.of_N b5 :: Z.of_N b6 :: Z.of_N b7 :: rest in
  c_carquet_read_i64_le p = wraps 64 (Z.of_N (DeltaBits.le_num_f [b0; b1; b2; b3; b4; b5; b6; b7])) /\
  wrapu 64 (c_carquet_read_i64_le p) = Z.of_N (DeltaBits.le_num_f [b0; b1; b2; b3; b4; b5; b6; b7]).
Proof.
  intros H0 H1 H2 H3 H4 H5 H6 H7 p. unfold c_carquet_read_i64_le, p. rewrite tie_read_u64_le. split; [reflexivity|].
  rewrite wrapu_wraps by lia. apply wrapu64_small.
  cbn [DeltaBits.le_num_f]. rewrite ?N.shiftl_mul_pow2. pow2. lia.
Qed.

(** carquet_write_uN_le(p, v): the first bytes of p become [le_bytes_f] of v, the rest is untouched *)
Lemma of_N_byte x : Z.of_N (N.land x 255) = Z.of_N x mod 256.
Proof. change 255%N with (N.ones 8). rewrite of_N_land_ones. reflexivity. Qed.

Lemma of_N_shiftr8 x : Z.of_N (N.shiftr x 8) = Z.of_N x / 256.
Proof. rewrite of_N_shiftr. apply Z.shiftr_div_pow2. lia. Qed.

Local Ltac write_tac :=
  intros; unfold c_carquet_write_u16_le, c_carquet_write_u32_le, c_carquet_write_u64_le; cbv zeta;
  unfold le_store; cbn [le_store_nat Z.to_nat upd_nat DeltaBits.le_bytes_f map app];
  rewrite ?of_N_byte, ?of_N_shiftr8; reflexivity.

Lemma tie_write_u16_le (p0 p1 : Z) (rest : list Z) (v : N) :
  c_carquet_write_u16_le (p0 :: p1 :: rest) (Z.of_N v) = map Z.of_N (DeltaBits.le_bytes_f 2 v) ++ rest.
Proof. write_tac. Qed.

Lemma tie_write_u32_le (p0 p1 p2 p3 : Z) (rest : list Z) (v : N) :
  c_carquet_write_u32_le (p0 :: p1 :: p2 :: p3 :: rest) (Z.of_N v) = map Z.of_N (DeltaBits.le_bytes_f 4 v) ++ rest.
Proof. write_tac. Qed.

Lemma tie_write_u64_le (p0 p1 p2 p3 p4 p5 p6 p7 : Z) (rest : list Z) (v : N) :
  c_carquet_write_u64_le (p0 :: p1 :: p2 :: p3 :: p4 :: p5 :: p6 :: p7 :: rest) (Z.of_N v)
  = map Z.of_N (DeltaBits.le_bytes_f 8 v) ++ rest.
Proof. write_tac. Qed.

(** carquet_write_iN_le(p, v): the bytes of the N-bit pattern of the signed v *)
Lemma tie_write_i32_le (p0 p1 p2 p3 : Z) (rest : list Z) (v : Z) :
  c_carquet_write_i32_le (p0 :: p1 :: p2 :: p3 :: rest) v
  = map Z.of_N (DeltaBits.le_bytes_f 4 (Z.to_N (wrapu 32 v))) ++ rest.
Proof.
  unfold c_carquet_write_i32_le. cbv zeta.
  transitivity (c_carquet_write_u32_le (p0 :: p1 :: p2 :: p3 :: rest) (Z.of_N (Z.to_N (wrapu 32 v))));
    [rewrite Z2N.id by apply wrapu32_range; reflexivity | apply tie_write_u32_le].
Qed.

Lemma tie_write_i64_le (p0 p1 p2 p3 p4 p5 p6 p7 : Z) (rest : list Z) (v : Z) :
  c_carquet_write_i64_le (p0 :: p1 :: p2 :: p3 :: p4 :: p5 :: p6 :: p7 :: rest) v
  = map Z.of_N (DeltaBits.le_bytes_f 8 (Z.to_N (wrapu 64 v))) ++ rest.
Proof.
  unfold c_carquet_write_i64_le. cbv zeta.
  transitivity (c_carquet_write_u64_le (p0 :: p1 :: p2 :: p3 :: p4 :: p5 :: p6 :: p7 :: rest) (Z.of_N (Z.to_N (wrapu 64 v))));
    [rewrite Z2N.id by apply wrapu64_range; reflexivity | apply tie_write_u64_le].
Qed.

(* ------------------------------------------------------------------ read_uleb128: src/encoding/delta.c *)

(** the unrolled loop of read_uleb128 as it is generated: [n] iterations left; [i] and [shift] are literals there *)
Fixpoint uleb_loop (n : nat) (data : list Z) (size : Z) (value : list Z) (i shift : Z) : list Z * Z :=
  match n with
  | O => (value, 0)
  | S n' =>
    if Z.ltb i size then
      let b := rd data i in
      let value' := upd value 0 (Z.lor (rd value 0) (cshl_u 64 (wrapu 64 (Z.land b 127)) shift)) in
      if Z.eqb (Z.land b 128) 0 then (value', i + 1)
      else uleb_loop n' data size value' (i + 1) (shift + 7)
    else (value, 0)
  end.

Lemma uleb_loop_model (n : nat) (dataN : list N) (i : nat) (acc shift : N) :
  (i <= length dataN)%nat -> (Z.of_N shift + 7 * Z.of_nat n <= 70) ->
  match DeltaModel.uleb_dec_f n (skipn i dataN) shift acc with
  | Some (v, rest) =>
      uleb_loop n (map Z.of_N dataN) (Z.of_nat (length dataN)) [Z.of_N acc] (Z.of_nat i) (Z.of_N shift)
      = ([Z.of_N v], Z.of_nat (length dataN - length rest))
  | None =>
      snd (uleb_loop n (map Z.of_N dataN) (Z.of_nat (length dataN)) [Z.of_N acc] (Z.of_nat i) (Z.of_N shift)) = 0
  end.
Proof.
  revert i acc shift. induction n as [|n IH]; intros i acc shift Hi Hs; [reflexivity|].
  cbn [uleb_loop DeltaModel.uleb_dec_f].
  destruct (Z.ltb_spec (Z.of_nat i) (Z.of_nat (length dataN))) as [L|L].
  - assert (Hlt : (i < length dataN)%nat) by lia.
    rewrite (skipn_cons_nth 0%N dataN i Hlt). cbv zeta.
    rewrite rd_map_of_N by exact Hlt. set (b := nth i dataN 0%N).
    rd_simpl. rewrite (varint_group 64 b shift) by lia. change (Z.to_N 64) with 64%N.
    rewrite <- of_N_lor.
    replace ((N.shiftl (N.land b 127) shift) mod 2 ^ 64)%N with (DeltaModel.u64 (N.shiftl (N.land b 127) shift))
      by (unfold DeltaModel.u64, DeltaModel.ones64; apply N.land_ones).
    change 128 with (Z.of_N 128). rewrite <- of_N_land.
    replace (Z.of_N (N.land b 128) =? 0) with (N.land b 128 =? 0)%N by (symmetry; apply (Z_eqb_of_N _ 0)).
    replace (Z.of_nat i + 1) with (Z.of_nat (S i)) by lia.
    destruct (N.eqb_spec (N.land b 128) 0) as [E|E].
    + rewrite skipn_length. do 2 f_equal. lia.
    + replace (Z.of_N shift + 7) with (Z.of_N (shift + 7)) by lia. apply IH; lia.
  - replace i with (length dataN) by lia. rewrite skipn_all. reflexivity.
Qed.

(** read_uleb128(data, size, value) with size = the length of data: the value and the number of bytes consumed, or 0
    when the model's decoder fails (truncated input, or no terminating byte among the first ten) *)
Lemma tie_delta_read_uleb128 (dataN : list N) (v0 : Z) :
  match DeltaModel.uleb_dec dataN with
  | Some (v, rest) =>
      c_read_uleb128 (map Z.of_N dataN) (Z.of_nat (length dataN)) [v0]
      = ([Z.of_N v], Z.of_nat (length dataN - length rest))
  | None => snd (c_read_uleb128 (map Z.of_N dataN) (Z.of_nat (length dataN)) [v0]) = 0
  end.
Proof.
  replace (c_read_uleb128 (map Z.of_N dataN) (Z.of_nat (length dataN)) [v0])
    with (uleb_loop 10 (map Z.of_N dataN) (Z.of_nat (length dataN)) [Z.of_N 0] (Z.of_nat 0) (Z.of_N 0)) by reflexivity.
  unfold DeltaModel.uleb_dec. apply (uleb_loop_model 10 dataN 0 0 0); cbn; lia.
Qed.

(* ------------------------------------------------------------------ write_uleb128: src/encoding/delta.c *)

(** the unrolled loop of write_uleb128 as it is generated ("unroll": 9): [n] iterations left, [i] a literal there *)
Fixpoint wuleb (n : nat) (data : list Z) (value i : Z) : list Z * Z :=
  if Z.geb value 128 then
    match n with
    | O => ([loop_exhausted], loop_exhausted)
    | S n' => wuleb n' (upd data i (wrapu 8 (Z.lor value 128))) (cshr 64 value 7) (i + 1)
    end
  else (upd data i (wrapu 8 value), i + 1).

Lemma wuleb_model (n : nat) (pre rest : list Z) (v : N) :
  (v < 128 * 2 ^ (7 * N.of_nat n))%N -> (n < length rest)%nat ->
  let bs := DeltaModel.uleb_enc_f (S n) v in
  wuleb n (pre ++ rest) (Z.of_N v) (Z.of_nat (length pre))
  = (pre ++ map Z.of_N bs ++ skipn (length bs) rest, Z.of_nat (length pre + length bs)).
Proof.
  revert pre rest v. induction n as [|n IH]; intros pre rest v Hv Hr bs.
  - change (128 * 2 ^ (7 * N.of_nat 0))%N with 128%N in Hv.
    destruct rest as [|x rest]; [cbn in Hr; lia|]. subst bs. cbn [wuleb DeltaModel.uleb_enc_f].
    destruct (Z.geb_spec (Z.of_N v) 128); [lia|]. destruct (N.ltb_spec v 128); [|lia].
    rewrite upd_at. rewrite wrapu8_small by lia. cbn [map app length skipn]. f_equal. lia.
  - destruct rest as [|x rest]; [cbn in Hr; lia|]. subst bs.
    cbn [wuleb]. change (DeltaModel.uleb_enc_f (S (S n)) v)
      with (if (v <? 128)%N then [v] else N.lor (N.land v 127) 128 :: DeltaModel.uleb_enc_f (S n) (N.shiftr v 7)).
    destruct (Z.geb_spec (Z.of_N v) 128) as [G|L]; destruct (N.ltb_spec v 128) as [L'|G']; try lia.
    + rewrite upd_at, byte_cont. rewrite cshr_ok by lia.
      change 7 with (Z.of_N 7) at 1. rewrite <- of_N_shiftr.
      replace (pre ++ Z.of_N (N.lor (N.land v 127) 128) :: rest)
        with ((pre ++ [Z.of_N (N.lor (N.land v 127) 128)]) ++ rest) by (rewrite <- app_assoc; reflexivity).
      replace (Z.of_nat (length pre) + 1) with (Z.of_nat (length (pre ++ [Z.of_N (N.lor (N.land v 127) 128)])))
        by (rewrite app_length; cbn; lia).
      rewrite IH.
      * cbn [map app length skipn]. rewrite <- app_assoc. cbn [app]. f_equal. rewrite app_length. cbn. lia.
      * rewrite N.shiftr_div_pow2. apply N.div_lt_upper_bound; [discriminate|].
        replace (7 * N.of_nat (S n))%N with (7 + 7 * N.of_nat n)%N in Hv by lia.
        rewrite N.pow_add_r in Hv. change (2 ^ 7)%N with 128%N in *. lia.
      * cbn in Hr. lia.
    + rewrite upd_at. rewrite wrapu8_small by lia. cbn [map app length skipn]. f_equal. lia.
Qed.

(** write_uleb128(data, value): the first bytes of data become the model's encoding, the rest is untouched, the
    return value is their number (nine loop iterations suffice for a uint64_t: the bound given to the translator) *)
Lemma tie_delta_write_uleb128 (data : list Z) (v : N) :
  (v < 2 ^ 64)%N -> (10 <= length data)%nat ->
  let bs := DeltaModel.uleb_enc v in
  c_write_uleb128 data (Z.of_N v) = (map Z.of_N bs ++ skipn (length bs) data, Z.of_nat (length bs)).
Proof.
  intros Hv Hd bs.
  transitivity (wuleb 9 data (Z.of_N v) 0); [reflexivity|].
  apply (wuleb_model 9 [] data v); [|lia].
  eapply N.lt_trans; [exact Hv|reflexivity].
Qed.
