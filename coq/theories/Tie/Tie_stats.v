(** Code-level tie of the stats engine: the integer comparators of src/metadata/statistics.c (M) and
    src/reader/statistics.c (R), re-translated from the working tree into Gen/CLeaf_gen.v on every run
    (tools/gen.d/c2coq.py), equal the comparators of Stats/Order.v.

    The C functions take `const void*` and read `*(const T* )a`; the translation sees each operand as an array
    of T (its "typed view").  On the little-endian target the typed view of a byte string is the two's
    complement reading [sgn bits (le_val (firstn k bytes))] - that is how the lemmas below instantiate it, so
    that they speak about the byte-level comparators of the model. *)
From Coq Require Import ZArith NArith List Bool Lia ZifyBool ZifyNat ZifyN.
From Carquet Require Import Base.CSem Gen.CLeaf_gen Tie.TieLib Stats.Order.
Import ListNotations.
Local Open Scope Z_scope.

(** (va > vb) - (va < vb) as an int *)
Lemma cmp3_c (x y : Z) : wraps 32 (b2z (Z.gtb x y) - b2z (Z.ltb x y)) = Order.cmp3 x y.
Proof.
  unfold Order.cmp3. rewrite Z.gtb_ltb.
  destruct (Z.ltb_spec x y), (Z.ltb_spec y x); try lia; reflexivity.
Qed.

Lemma rd_ok (k : nat) (bs : Order.bytes) :
  (k <= length bs)%nat -> Order.rd k bs = SOk (Order.le_val (firstn k bs)).
Proof. intros H. unfold Order.rd. destruct (Nat.leb_spec k (length bs)); [reflexivity|lia]. Qed.

(* ------------------------------------------------------------------ src/metadata/statistics.c *)

Lemma tie_mstat_compare_boolean (a b : Order.bytes) :
  (1 <= length a)%nat -> (1 <= length b)%nat ->
  Order.cmp_uint8 a b
  = SOk (c_mstat_compare_boolean [Z.of_N (Order.le_val (firstn 1 a))] [Z.of_N (Order.le_val (firstn 1 b))]).
Proof.
  intros Ha Hb. unfold Order.cmp_uint8, Order.bind. rewrite !rd_ok by assumption.
  unfold c_mstat_compare_boolean. cbv zeta. rd_simpl. rewrite cmp3_c. reflexivity.
Qed.

Lemma tie_mstat_compare_int32 (a b : Order.bytes) :
  (4 <= length a)%nat -> (4 <= length b)%nat ->
  Order.cmp_int 4 32 a b
  = SOk (c_mstat_compare_int32 [Order.sgn 32 (Order.le_val (firstn 4 a))] [Order.sgn 32 (Order.le_val (firstn 4 b))]).
Proof.
  intros Ha Hb. unfold Order.cmp_int, Order.bind. rewrite !rd_ok by assumption.
  unfold c_mstat_compare_int32. cbv zeta. rd_simpl. rewrite cmp3_c. reflexivity.
Qed.

Lemma tie_mstat_compare_int64 (a b : Order.bytes) :
  (8 <= length a)%nat -> (8 <= length b)%nat ->
  Order.cmp_int 8 64 a b
  = SOk (c_mstat_compare_int64 [Order.sgn 64 (Order.le_val (firstn 8 a))] [Order.sgn 64 (Order.le_val (firstn 8 b))]).
Proof.
  intros Ha Hb. unfold Order.cmp_int, Order.bind. rewrite !rd_ok by assumption.
  unfold c_mstat_compare_int64. cbv zeta. rd_simpl. rewrite cmp3_c. reflexivity.
Qed.

(** compare_int96: three uint32 words, index 2 most significant *)
Definition words96 (bs : Order.bytes) : list Z :=
  map (fun i => Z.of_N (Order.le_val (firstn 4 (skipn (4 * i) bs)))) [0; 1; 2]%nat.

Lemma tie_mstat_compare_int96 (a b : Order.bytes) :
  (12 <= length a)%nat -> (12 <= length b)%nat ->
  Order.cmp_int96 a b = SOk (c_mstat_compare_int96 (words96 a) (words96 b)).
Proof.
  intros Ha Hb. unfold Order.cmp_int96, Order.bind. rewrite !rd_ok by assumption. cbv zeta.
  unfold c_mstat_compare_int96, words96. cbn [map]. rd_simpl. rewrite !cmp3_c. f_equal.
  set (a2 := Z.of_N (Order.le_val (firstn 4 (skipn (4 * 2) a)))).
  set (b2 := Z.of_N (Order.le_val (firstn 4 (skipn (4 * 2) b)))).
  set (a1 := Z.of_N (Order.le_val (firstn 4 (skipn (4 * 1) a)))).
  set (b1 := Z.of_N (Order.le_val (firstn 4 (skipn (4 * 1) b)))).
  set (a0 := Z.of_N (Order.le_val (firstn 4 (skipn (4 * 0) a)))).
  set (b0 := Z.of_N (Order.le_val (firstn 4 (skipn (4 * 0) b)))).
  unfold Order.cmp3.
  destruct (Z.eqb_spec a2 b2), (Z.eqb_spec a1 b1), (Z.eqb_spec a0 b0),
    (Z.ltb_spec a2 b2), (Z.ltb_spec b2 a2), (Z.ltb_spec a1 b1), (Z.ltb_spec b1 a1),
    (Z.ltb_spec a0 b0), (Z.ltb_spec b0 a0); cbn; try lia; reflexivity.
Qed.

(* ------------------------------------------------------------------ src/reader/statistics.c *)

Lemma tie_rstat_compare_int32 (a b : Order.bytes) :
  (4 <= length a)%nat -> (4 <= length b)%nat ->
  Order.cmp_int 4 32 a b
  = SOk (c_rstat_compare_int32 [Order.sgn 32 (Order.le_val (firstn 4 a))] [Order.sgn 32 (Order.le_val (firstn 4 b))]).
Proof.
  intros Ha Hb. unfold Order.cmp_int, Order.bind. rewrite !rd_ok by assumption.
  unfold c_rstat_compare_int32. cbv zeta. rd_simpl. rewrite cmp3_c. reflexivity.
Qed.

Lemma tie_rstat_compare_int64 (a b : Order.bytes) :
  (8 <= length a)%nat -> (8 <= length b)%nat ->
  Order.cmp_int 8 64 a b
  = SOk (c_rstat_compare_int64 [Order.sgn 64 (Order.le_val (firstn 8 a))] [Order.sgn 64 (Order.le_val (firstn 8 b))]).
Proof.
  intros Ha Hb. unfold Order.cmp_int, Order.bind. rewrite !rd_ok by assumption.
  unfold c_rstat_compare_int64. cbv zeta. rd_simpl. rewrite cmp3_c. reflexivity.
Qed.

(* ------------------------------------------------------------------ get_value_size (metadata/statistics.c) *)

From Carquet Require Import Stats.StatsBuilderModel.

(** get_value_size(type, type_length): the model's [value_size] for every physical type and a non-negative
    type_length; a negative type_length converts to a size_t above every buffer (the model says BUF + 1) *)
Lemma tie_mstat_get_value_size (t : Order.ptype) (tl : Z) :
  0 <= tl < 2 ^ 31 ->
  c_mstat_get_value_size (Order.ptype_code t) tl = Z.of_nat (StatsBuilderModel.value_size t tl).
Proof.
  intros H. unfold c_mstat_get_value_size, StatsBuilderModel.value_size.
  destruct t; cbn [Order.ptype_code]; try reflexivity.
  change (Z.eqb Gen.Enums_gen.E_CARQUET_PHYSICAL_FIXED_LEN_BYTE_ARRAY 0) with false.
  cbv [Gen.Enums_gen.E_CARQUET_PHYSICAL_FIXED_LEN_BYTE_ARRAY Z.eqb Pos.eqb].
  destruct (Z.ltb_spec tl 0); [lia|]. rewrite wrapu64_small by blia. lia.
Qed.

Lemma tie_mstat_get_value_size_neg (tl : Z) :
  - 2 ^ 31 <= tl < 0 ->
  c_mstat_get_value_size (Order.ptype_code Order.TFlba) tl = tl + 2 ^ 64.
Proof.
  intros H. unfold c_mstat_get_value_size. cbn [Order.ptype_code].
  cbv [Gen.Enums_gen.E_CARQUET_PHYSICAL_FIXED_LEN_BYTE_ARRAY Z.eqb Pos.eqb].
  unfold wrapu. symmetry. apply Z.mod_unique with (q := -1); blia.
Qed.
