(** Code-level tie of the reader engine: bit_width_for_max of src/reader/page_reader.c, re-translated from the
    working tree into Gen/CLeaf_gen.v on every run (tools/gen.d/c2coq.py), equals bit_width_for_max of
    Reader/PageDecodeModel.v on every non-negative int. *)
From Coq Require Import ZArith NArith List Bool Lia ZifyBool ZifyNat ZifyN.
From Carquet Require Import Base.CSem Gen.CLeaf_gen Tie.TieLib Reader.PageDecodeModel.
Import ListNotations.
Local Open Scope Z_scope.

Lemma reader_bit_width_fuel_size (n : nat) (v : N) :
  (v < 2 ^ N.of_nat n)%N -> PageDecodeModel.bit_width_fuel n v = N.to_nat (N.size v).
Proof.
  revert v. induction n as [|n IH]; intros v Hv.
  - change (2 ^ N.of_nat 0)%N with 1%N in Hv. replace v with 0%N by lia. reflexivity.
  - cbn [PageDecodeModel.bit_width_fuel]. destruct (N.eqb_spec v 0) as [->|NZ]; [reflexivity|].
    rewrite IH.
    + rewrite <- N.div2_spec. rewrite (size_div2 v) by exact NZ. lia.
    + rewrite N.shiftr_div_pow2. change (2 ^ 1)%N with 2%N.
      rewrite Nat2N.inj_succ, N.pow_succ_r' in Hv. apply N.div_lt_upper_bound; lia.
Qed.

(** bit_width_for_max(max_val), 0 <= max_val <= INT_MAX: 31 loop iterations suffice *)
Lemma tie_reader_bit_width_for_max (m : N) :
  (m < 2 ^ 31)%N ->
  c_reader_bit_width_for_max (Z.of_N m) = Z.of_nat (PageDecodeModel.bit_width_for_max m).
Proof.
  intros Hm. unfold PageDecodeModel.bit_width_for_max.
  rewrite reader_bit_width_fuel_size by (eapply N.lt_trans; [exact Hm|reflexivity]).
  transitivity (if Z.eqb (Z.of_N m) 0 then 0 else bw_iter 31 (fun x => cshr 32 x 1) (Z.of_N m) 0); [reflexivity|].
  destruct (Z.eqb_spec (Z.of_N m) 0) as [E|E].
  - replace m with 0%N by lia. reflexivity.
  - rewrite bw_iter_size; [rewrite N2Z.id; lia| |blia].
    intros x Hx. apply cshr_div. lia.
Qed.

(* ------------------------------------------------------------------ get_value_size (page_reader.c) *)

From Carquet Require Import Gen.Enums_gen Reader.PageBoundsModel.

(** get_value_size(type, type_length) as a size_t, for every value of the enum parameter (also those that name no
    physical type) and every int32_t type_length *)
Lemma tie_reader_get_value_size (type tl : Z) :
  c_reader_get_value_size type tl = PageBoundsModel.value_size type tl.
Proof.
  unfold c_reader_get_value_size, PageBoundsModel.value_size, PageBoundsModel.two64, wrapu.
  cbv [E_CARQUET_PHYSICAL_BOOLEAN E_CARQUET_PHYSICAL_INT32 E_CARQUET_PHYSICAL_INT64 E_CARQUET_PHYSICAL_INT96
       E_CARQUET_PHYSICAL_FLOAT E_CARQUET_PHYSICAL_DOUBLE E_CARQUET_PHYSICAL_BYTE_ARRAY
       E_CARQUET_PHYSICAL_FIXED_LEN_BYTE_ARRAY].
  repeat match goal with
  | |- context [Z.eqb type ?c] => destruct (Z.eqb_spec type c); [subst; reflexivity|]
  end.
  reflexivity.
Qed.
