(** Code-level tie of the comp engine: the C leaf functions of src/compression/snappy.c and
    src/compression/lz4.c, re-translated from the working tree into Gen/CLeaf_gen.v on every run
    (tools/gen.d/c2coq.py), equal the hand-written model functions of Comp/SnappyModel.v, Comp/Lz4Model.v and
    Comp/CompBase.v on all in-range arguments. *)
From Coq Require Import ZArith NArith List Bool Lia ZifyBool ZifyNat ZifyN.
From Carquet Require Import Base.CSem Gen.CLeaf_gen Gen.Consts_gen Tie.TieLib Comp.CompBase Comp.SnappyModel Comp.Lz4Model.
Import ListNotations.
Local Open Scope Z_scope.
Ltac Zify.zify_post_hook ::= Z.div_mod_to_equations.

(** snappy_hash(val) = (val * 0x1e35a7bd) >> (32 - SNAPPY_HASH_LOG) on uint32_t: also ties the model's literal
    HASH_MUL to the multiplier in the source *)
Lemma tie_snappy_hash (v : N) :
  (v < 2 ^ 32)%N -> c_snappy_hash (Z.of_N v) = Z.of_N (SnappyModel.snappy_hash v).
Proof.
  intros Hv. unfold c_snappy_hash, SnappyModel.snappy_hash, SnappyModel.HASH_MUL, Snappy_SNAPPY_HASH_LOG, wrapu.
  rewrite cshr_div by lia. autorewrite with n2z. reflexivity.
Qed.

(** lz4_hash(val) = (val * 2654435761U) >> (32 - LZ4_HASH_LOG) *)
Lemma tie_lz4_hash (v : N) :
  (v < 2 ^ 32)%N -> c_lz4_hash (Z.of_N v) = Z.of_N (Lz4Model.lz4_hash v).
Proof.
  intros Hv. unfold c_lz4_hash, Lz4Model.lz4_hash, Lz4Model.HASH_MUL, Lz4_LZ4_HASH_LOG, wrapu.
  rewrite cshr_div by lia. autorewrite with n2z. reflexivity.
Qed.

(** snappy_read32 / lz4_read32 (memcpy of 4 bytes, little-endian target) = le_val of the four bytes, the value
    CompMem.rd32 hands to the hash *)
Lemma tie_snappy_read32 (b0 b1 b2 b3 : N) (rest : list Z) :
  c_snappy_read32 (Z.of_N b0 :: Z.of_N b1 :: Z.of_N b2 :: Z.of_N b3 :: rest)
  = Z.of_N (CompBase.le_val [b0; b1; b2; b3]).
Proof.
  unfold c_snappy_read32. cbv zeta. unfold le_load. cbn [le_load_nat Z.to_nat nth CompBase.le_val]. lia.
Qed.

Lemma tie_lz4_read32 (b0 b1 b2 b3 : N) (rest : list Z) :
  c_lz4_read32 (Z.of_N b0 :: Z.of_N b1 :: Z.of_N b2 :: Z.of_N b3 :: rest)
  = Z.of_N (CompBase.le_val [b0; b1; b2; b3]).
Proof.
  unfold c_lz4_read32. cbv zeta. unfold le_load. cbn [le_load_nat Z.to_nat nth CompBase.le_val]. lia.
Qed.

(** carquet_snappy_compress_bound(n) = 32 + n + n / 6 and carquet_lz4_compress_bound(n) = n + n / 255 + 16, as long
    as the sum fits a size_t *)
Lemma tie_snappy_compress_bound (n : N) :
  (SnappyModel.compress_bound n < 2 ^ 64)%N ->
  c_carquet_snappy_compress_bound (Z.of_N n) = Z.of_N (SnappyModel.compress_bound n).
Proof.
  unfold c_carquet_snappy_compress_bound, SnappyModel.compress_bound, cdiv. intros H. cbn [Z.eqb].
  rewrite Z.quot_div_nonneg by lia.
  rewrite (wrapu64_small (32 + Z.of_N n)) by blia. rewrite wrapu64_small by blia. lia.
Qed.

Lemma tie_lz4_compress_bound (n : N) :
  (Lz4Model.compress_bound n < 2 ^ 64)%N ->
  c_carquet_lz4_compress_bound (Z.of_N n) = Z.of_N (Lz4Model.compress_bound n).
Proof.
  unfold c_carquet_lz4_compress_bound, Lz4Model.compress_bound, cdiv. intros H. cbn [Z.eqb].
  rewrite Z.quot_div_nonneg by lia.
  rewrite (wrapu64_small (Z.of_N n + Z.of_N n / 255)) by blia. rewrite wrapu64_small by blia. lia.
Qed.
