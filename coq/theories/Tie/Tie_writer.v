(** Code-level tie of the writer engine: bit_width_for_max of src/writer/page_writer.c, re-translated from the
    working tree into Gen/CLeaf_gen.v on every run (tools/gen.d/c2coq.py), equals bit_width_for_max of
    Writer/PageWriterModel.v on every non-negative int16_t. *)
From Coq Require Import ZArith NArith List Bool Lia ZifyBool ZifyNat ZifyN.
From Carquet Require Import Base.CSem Gen.CLeaf_gen Tie.TieLib Writer.PageWriterModel.
Import ListNotations.
Local Open Scope Z_scope.
Ltac Zify.zify_post_hook ::= Z.div_mod_to_equations.

Lemma writer_bit_width_fuel_size (n : nat) (v : N) :
  (v < 2 ^ N.of_nat n)%N -> PageWriterModel.bit_width_fuel n v = N.to_nat (N.size v).
Proof.
  revert v. induction n as [|n IH]; intros v Hv.
  - change (2 ^ N.of_nat 0)%N with 1%N in Hv. replace v with 0%N by lia. reflexivity.
  - cbn [PageWriterModel.bit_width_fuel]. destruct (N.eqb_spec v 0) as [->|NZ]; [reflexivity|].
    rewrite IH.
    + rewrite <- N.div2_spec. rewrite (size_div2 v) by exact NZ. lia.
    + rewrite N.shiftr_div_pow2. change (2 ^ 1)%N with 2%N.
      rewrite Nat2N.inj_succ, N.pow_succ_r' in Hv. apply N.div_lt_upper_bound; lia.
Qed.

(** bit_width_for_max(max_level), 0 <= max_level <= INT16_MAX: 15 loop iterations suffice; the loop variable is an
    int16_t, shifted as an int and converted back *)
Lemma tie_writer_bit_width_for_max (m : N) :
  (m < 2 ^ 15)%N ->
  c_writer_bit_width_for_max (Z.of_N m) = Z.of_nat (PageWriterModel.bit_width_for_max m).
Proof.
  intros Hm. unfold PageWriterModel.bit_width_for_max.
  rewrite writer_bit_width_fuel_size by (eapply N.lt_trans; [exact Hm|reflexivity]).
  transitivity (if Z.eqb (Z.of_N m) 0 then 0
                else bw_iter 15 (fun x => wraps 16 (cshr 32 x 1)) (Z.of_N m) 0); [reflexivity|].
  destruct (Z.eqb_spec (Z.of_N m) 0) as [E|E].
  - replace m with 0%N by lia. reflexivity.
  - rewrite bw_iter_size; [rewrite N2Z.id; lia| |blia].
    intros x Hx. rewrite cshr_div by lia. change (2 ^ 1) with 2.
    apply (wraps_small 16); [lia|]. change (Z.of_nat 15) with 15 in Hx. pow2.
    change (2 ^ (16 - 1)) with 32768. lia.
Qed.
