(** Code-level tie of the enc engine: the C leaf functions of src/core/bitpack.c and src/core/bitpack.h,
    re-translated from the working tree into Gen/CLeaf_gen.v on every run (tools/gen.d/c2coq.py), equal the
    hand-written model functions of Enc/BitpackModel.v on all in-range arguments. *)
From Coq Require Import ZArith NArith List Bool Lia ZifyBool ZifyNat ZifyN.
From Carquet Require Import Base.CSem Base.Res Gen.CLeaf_gen Tie.TieLib Enc.BitpackModel.
Import ListNotations.
Local Open Scope Z_scope.
Ltac Zify.zify_post_hook ::= Z.div_mod_to_equations.

(* ------------------------------------------------------------------ read_leN: src/core/bitpack.c *)

(** read_leN(p) is the little-endian value [le_val] of the first N bytes *)
Lemma tie_read_le16 (b0 b1 : N) (rest : list Z) :
  (b0 < 256)%N -> (b1 < 256)%N ->
  c_read_le16 (Z.of_N b0 :: Z.of_N b1 :: rest) = Z.of_N (BitpackModel.le_val [b0; b1]).
Proof.
  intros H0 H1. unfold c_read_le16, BitpackModel.le_val. rd_simpl. cbn [fold_right].
  rewrite cshl_s_small by blia. lor_to_add. rewrite wrapu16_small by blia. blia.
Qed.

Lemma tie_read_le24 (b0 b1 b2 : N) (rest : list Z) :
  (b0 < 256)%N -> (b1 < 256)%N -> (b2 < 256)%N ->
  c_read_le24 (Z.of_N b0 :: Z.of_N b1 :: Z.of_N b2 :: rest) = Z.of_N (BitpackModel.le_val [b0; b1; b2]).
Proof.
  intros H0 H1 H2. unfold c_read_le24, BitpackModel.le_val. rd_simpl. cbn [fold_right].
  rewrite !cshl_u_small by blia. lor_to_add. blia.
Qed.

Lemma tie_read_le32 (b0 b1 b2 b3 : N) (rest : list Z) :
  (b0 < 256)%N -> (b1 < 256)%N -> (b2 < 256)%N -> (b3 < 256)%N ->
  c_read_le32 (Z.of_N b0 :: Z.of_N b1 :: Z.of_N b2 :: Z.of_N b3 :: rest)
  = Z.of_N (BitpackModel.le_val [b0; b1; b2; b3]).
Proof.
  intros H0 H1 H2 H3. unfold c_read_le32, BitpackModel.le_val. rd_simpl. cbn [fold_right].
  rewrite !cshl_u_small by blia. lor_to_add. blia.
Qed.

Lemma tie_read_le40 (b0 b1 b2 b3 b4 : N) (rest : list Z) :
  (b0 < 256)%N -> (b1 < 256)%N -> (b2 < 256)%N -> (b3 < 256)%N -> (b4 < 256)%N ->
  c_read_le40 (Z.of_N b0 :: Z.of_N b1 :: Z.of_N b2 :: Z.of_N b3 :: Z.of_N b4 :: rest)
  = Z.of_N (BitpackModel.le_val [b0; b1; b2; b3; b4]).
Proof.
  intros H0 H1 H2 H3 H4. unfold c_read_le40, BitpackModel.le_val. rd_simpl. cbn [fold_right].
  rewrite !cshl_u_small by blia. lor_to_add. blia.
Qed.

Lemma tie_read_le48 (b0 b1 b2 b3 b4 b5 : N) (rest : list Z) :
  (b0 < 256)%N -> (b1 < 256)%N -> (b2 < 256)%N -> (b3 < 256)%N -> (b4 < 256)%N -> (b5 < 256)%N ->
  c_read_le48 (Z.of_N b0 :: Z.of_N b1 :: Z.of_N b2 :: Z.of_N b3 :: Z.of_N b4 :: Z.of_N b5 :: rest)
  = Z.of_N (BitpackModel.le_val [b0; b1; b2; b3; b4; b5]).
Proof.
  intros H0 H1 H2 H3 H4 H5. unfold c_read_le48, BitpackModel.le_val. rd_simpl. cbn [fold_right].
  rewrite !cshl_u_small by blia. lor_to_add. blia.
Qed.

Lemma tie_read_le56 (b0 b1 b2 b3 b4 b5 b6 : N) (rest : list Z) :
  (b0 < 256)%N -> (b1 < 256)%N -> (b2 < 256)%N -> (b3 < 256)%N -> (b4 < 256)%N -> (b5 < 256)%N -> (b6 < 256)%N ->
  c_read_le56 (Z.of_N b0 :: Z.of_N b1 :: Z.of_N b2 :: Z.of_N b3 :: Z.of_N b4 :: Z.of_N b5 :: Z.of_N b6 :: rest)
  = Z.of_N (BitpackModel.le_val [b0; b1; b2; b3; b4; b5; b6]).
Proof.
  intros H0 H1 H2 H3 H4 H5 H6. unfold c_read_le56, BitpackModel.le_val. rd_simpl. cbn [fold_right].
  rewrite !cshl_u_small by blia. lor_to_add. blia.
Qed.

(* ------------------------------------------------------------------ carquet_bitunpack8_<w>bit *)

(** carquet_bitunpack8_<w>bit(input, values): whatever [values] held, its 8 slots afterwards are what the
    model's unpack8 w yields on the first w bytes of [input] (the model returns [Fault OobRead] on a shorter input;
    that is not the translation's business) *)
Local Ltac unpack_tac readlemma :=
  intros; unfold BitpackModel.unpack8;
  cbn [length Nat.ltb Nat.leb firstn map seq];
  unfold c_carquet_bitunpack8_2bit, c_carquet_bitunpack8_3bit, c_carquet_bitunpack8_4bit, c_carquet_bitunpack8_5bit,
         c_carquet_bitunpack8_6bit, c_carquet_bitunpack8_7bit; cbv zeta;
  cbn [map]; rewrite readlemma by assumption; rd_simpl; cbn [map];
  f_equal; list_eq; symmetry; rewrite cshr_ok by lia;
  first [apply unpack_elem'; [reflexivity|reflexivity|cbv; discriminate] | apply unpack_elem_nw; reflexivity].

Lemma tie_bitunpack8_2bit (b0 b1 : N) (rest : list N) (v0 v1 v2 v3 v4 v5 v6 v7 : Z) :
  (b0 < 256)%N -> (b1 < 256)%N ->
  BitpackModel.unpack8 2 (b0 :: b1 :: rest)
  = Ok (map Z.to_N (c_carquet_bitunpack8_2bit (map Z.of_N (b0 :: b1 :: rest)) [v0; v1; v2; v3; v4; v5; v6; v7])).
Proof. unpack_tac tie_read_le16. Qed.

Lemma tie_bitunpack8_3bit (b0 b1 b2 : N) (rest : list N) (v0 v1 v2 v3 v4 v5 v6 v7 : Z) :
  (b0 < 256)%N -> (b1 < 256)%N -> (b2 < 256)%N ->
  BitpackModel.unpack8 3 (b0 :: b1 :: b2 :: rest)
  = Ok (map Z.to_N (c_carquet_bitunpack8_3bit (map Z.of_N (b0 :: b1 :: b2 :: rest)) [v0; v1; v2; v3; v4; v5; v6; v7])).
Proof. unpack_tac tie_read_le24. Qed.

Lemma tie_bitunpack8_4bit (b0 b1 b2 b3 : N) (rest : list N) (v0 v1 v2 v3 v4 v5 v6 v7 : Z) :
  (b0 < 256)%N -> (b1 < 256)%N -> (b2 < 256)%N -> (b3 < 256)%N ->
  BitpackModel.unpack8 4 (b0 :: b1 :: b2 :: b3 :: rest)
  = Ok (map Z.to_N (c_carquet_bitunpack8_4bit (map Z.of_N (b0 :: b1 :: b2 :: b3 :: rest)) [v0; v1; v2; v3; v4; v5; v6; v7])).
Proof. unpack_tac tie_read_le32. Qed.

Lemma tie_bitunpack8_5bit (b0 b1 b2 b3 b4 : N) (rest : list N) (v0 v1 v2 v3 v4 v5 v6 v7 : Z) :
  (b0 < 256)%N -> (b1 < 256)%N -> (b2 < 256)%N -> (b3 < 256)%N -> (b4 < 256)%N ->
  BitpackModel.unpack8 5 (b0 :: b1 :: b2 :: b3 :: b4 :: rest)
  = Ok (map Z.to_N (c_carquet_bitunpack8_5bit (map Z.of_N (b0 :: b1 :: b2 :: b3 :: b4 :: rest)) [v0; v1; v2; v3; v4; v5; v6; v7])).
Proof. unpack_tac tie_read_le40. Qed.

Lemma tie_bitunpack8_6bit (b0 b1 b2 b3 b4 b5 : N) (rest : list N) (v0 v1 v2 v3 v4 v5 v6 v7 : Z) :
  (b0 < 256)%N -> (b1 < 256)%N -> (b2 < 256)%N -> (b3 < 256)%N -> (b4 < 256)%N -> (b5 < 256)%N ->
  BitpackModel.unpack8 6 (b0 :: b1 :: b2 :: b3 :: b4 :: b5 :: rest)
  = Ok (map Z.to_N (c_carquet_bitunpack8_6bit (map Z.of_N (b0 :: b1 :: b2 :: b3 :: b4 :: b5 :: rest)) [v0; v1; v2; v3; v4; v5; v6; v7])).
Proof. unpack_tac tie_read_le48. Qed.

Lemma tie_bitunpack8_7bit (b0 b1 b2 b3 b4 b5 b6 : N) (rest : list N) (v0 v1 v2 v3 v4 v5 v6 v7 : Z) :
  (b0 < 256)%N -> (b1 < 256)%N -> (b2 < 256)%N -> (b3 < 256)%N -> (b4 < 256)%N -> (b5 < 256)%N -> (b6 < 256)%N ->
  BitpackModel.unpack8 7 (b0 :: b1 :: b2 :: b3 :: b4 :: b5 :: b6 :: rest)
  = Ok (map Z.to_N (c_carquet_bitunpack8_7bit (map Z.of_N (b0 :: b1 :: b2 :: b3 :: b4 :: b5 :: b6 :: rest)) [v0; v1; v2; v3; v4; v5; v6; v7])).
Proof. unpack_tac tie_read_le56. Qed.

(** width 1: the byte itself is shifted *)
Lemma tie_bitunpack8_1bit (b0 : N) (rest : list N) (v0 v1 v2 v3 v4 v5 v6 v7 : Z) :
  (b0 < 256)%N ->
  BitpackModel.unpack8 1 (b0 :: rest)
  = Ok (map Z.to_N (c_carquet_bitunpack8_1bit (map Z.of_N (b0 :: rest)) [v0; v1; v2; v3; v4; v5; v6; v7])).
Proof.
  intros. unfold BitpackModel.unpack8. cbn [length Nat.ltb Nat.leb firstn map seq].
  unfold c_carquet_bitunpack8_1bit. cbv zeta. cbn [map]. rd_simpl. cbn [map].
  replace (BitpackModel.le_val [b0]) with b0 by (unfold BitpackModel.le_val; cbn [fold_right]; lia).
  f_equal; list_eq; symmetry; rewrite cshr_ok by lia;
    (apply unpack_elem'; [reflexivity|reflexivity|cbv; discriminate]).
Qed.

(** width 8: values[i] = input[i] *)
Lemma tie_bitunpack8_8bit (b0 b1 b2 b3 b4 b5 b6 b7 : N) (rest : list N) (v0 v1 v2 v3 v4 v5 v6 v7 : Z) :
  (b0 < 256)%N -> (b1 < 256)%N -> (b2 < 256)%N -> (b3 < 256)%N -> (b4 < 256)%N -> (b5 < 256)%N -> (b6 < 256)%N -> (b7 < 256)%N ->
  BitpackModel.unpack8 8 (b0 :: b1 :: b2 :: b3 :: b4 :: b5 :: b6 :: b7 :: rest)
  = Ok (map Z.to_N (c_carquet_bitunpack8_8bit (map Z.of_N (b0 :: b1 :: b2 :: b3 :: b4 :: b5 :: b6 :: b7 :: rest)) [v0; v1; v2; v3; v4; v5; v6; v7])).
Proof.
  intros. unfold BitpackModel.unpack8. cbn [length Nat.ltb Nat.leb firstn map seq].
  unfold c_carquet_bitunpack8_8bit. cbv zeta. cbn [map]. rd_simpl. cbn [map]. rewrite !N2Z.id.
  unfold BitpackModel.le_val, BitpackModel.mask. cbn [fold_right Nat.mul Nat.add N.of_nat Pos.of_succ_nat Pos.succ].
  f_equal; list_eq; rewrite N.land_ones, N.shiftr_div_pow2; pow2; lia.
Qed.

(* ------------------------------------------------------------------ src/core/bitpack.h *)

(** carquet_packed_size(count, bit_width) = ceil(count * bit_width / 8) as long as the product fits a size_t *)
Lemma tie_packed_size (count w : nat) :
  (Z.of_nat count * Z.of_nat w + 7 < 2 ^ 64) -> (Z.of_nat w < 2 ^ 31) ->
  c_carquet_packed_size (Z.of_nat count) (Z.of_nat w) = Z.of_nat (BitpackModel.packed_size count w).
Proof.
  intros H Hw. unfold c_carquet_packed_size, BitpackModel.packed_size, cdiv. cbn [Z.eqb].
  rewrite (wrapu64_small (Z.of_nat w)) by blia.
  rewrite (wrapu64_small (Z.of_nat count * Z.of_nat w)) by blia.
  rewrite wrapu64_small by blia.
  rewrite Z.quot_div_nonneg by lia.
  rewrite Nat2Z.inj_div, Nat2Z.inj_add, Nat2Z.inj_mul. reflexivity.
Qed.

(** carquet_bit_width32 / carquet_bit_width64 (32 - clz, 64 - clz): the number of significant bits *)
Lemma tie_bit_width64 (v : N) :
  (v < 2 ^ 64)%N -> c_carquet_bit_width64 (Z.of_N v) = Z.of_N (N.size v).
Proof.
  intros Hv. unfold c_carquet_bit_width64, c_carquet_clz64, clz.
  destruct (Z.eqb_spec (Z.of_N v) 0) as [E|E].
  - replace v with 0%N by lia. reflexivity.
  - destruct (Z.leb_spec (Z.of_N v) 0); [lia|].
    rewrite of_N_size by lia.
    assert (Z.log2 (Z.of_N v) < 64) by (apply Z.log2_lt_pow2; blia).
    pose proof (Z.log2_nonneg (Z.of_N v)). rewrite wraps32_small by lia. lia.
Qed.

Lemma tie_bit_width32 (v : N) :
  (v < 2 ^ 32)%N -> c_carquet_bit_width32 (Z.of_N v) = Z.of_N (N.size v).
Proof.
  intros Hv. unfold c_carquet_bit_width32, c_carquet_clz32, clz.
  destruct (Z.eqb_spec (Z.of_N v) 0) as [E|E].
  - replace v with 0%N by lia. reflexivity.
  - destruct (Z.leb_spec (Z.of_N v) 0); [lia|].
    rewrite of_N_size by lia.
    assert (Z.log2 (Z.of_N v) < 32) by (apply Z.log2_lt_pow2; blia).
    pose proof (Z.log2_nonneg (Z.of_N v)). rewrite wraps32_small by lia. lia.
Qed.

(* ------------------------------------------------------------------ read_varint: src/encoding/rle.c *)

From Carquet Require Import Enc.RleModel.

(** the unrolled loop of read_varint, as it is generated: [n] iterations left, [shift] a literal *)
Fixpoint rle_vloop (n : nat) (data : list Z) (size : Z) (pos out : list Z) (p result shift : Z) : list Z * list Z * Z :=
  match n with
  | O => (pos, out, -1)
  | S n' =>
    if Z.ltb p size then
      let p1 := wrapu 64 (p + 1) in
      let byte := rd data p in
      let result' := Z.lor result (cshl_u 32 (wrapu 32 (Z.land byte 127)) shift) in
      if Z.eqb (Z.land byte 128) 0 then (upd pos 0 p1, upd out 0 result', 0)
      else rle_vloop n' data size pos out p1 result' (shift + 7)
    else (pos, out, -1)
  end.

Lemma rle_vloop_model (n : nat) (dataN : list N) (pos out : list Z) (pn : nat) (acc shift : N) :
  Z.of_nat (length dataN) < 2 ^ 64 -> (pn <= length dataN)%nat -> (Z.of_N shift + 7 * Z.of_nat n <= 35) ->
  rle_vloop n (map Z.of_N dataN) (Z.of_nat (length dataN)) pos out (Z.of_nat pn) (Z.of_N acc) (Z.of_N shift)
  = match RleModel.read_varint n shift acc (skipn pn dataN) with
    | Some (v, rest) => (upd pos 0 (Z.of_nat (length dataN - length rest)), upd out 0 (Z.of_N v), 0)
    | None => (pos, out, -1)
    end.
Proof.
  intros Hlen. revert pn acc shift. induction n as [|n IH]; intros pn acc shift Hp Hs; [reflexivity|].
  cbn [rle_vloop RleModel.read_varint].
  destruct (Z.ltb_spec (Z.of_nat pn) (Z.of_nat (length dataN))) as [L|L].
  - assert (Hlt : (pn < length dataN)%nat) by lia.
    rewrite (skipn_cons_nth 0%N dataN pn Hlt). cbv zeta.
    rewrite rd_map_of_N by exact Hlt. set (b := nth pn dataN 0%N).
    rewrite (varint_group 32 b shift) by lia. change (Z.to_N 32) with 32%N.
    rewrite <- of_N_lor. fold (RleModel.u32 (N.shiftl (N.land b 127) shift)).
    change 128 with (Z.of_N 128). rewrite <- of_N_land. change 0 with (Z.of_N 0) at 1. rewrite Z_eqb_of_N.
    replace (wrapu 64 (Z.of_nat pn + 1)) with (Z.of_nat (S pn)) by (rewrite wrapu64_small by blia; lia).
    destruct (N.eqb_spec (N.land b 128) 0) as [E|E].
    + rewrite skipn_length. do 3 f_equal. lia.
    + replace (Z.of_N shift + 7) with (Z.of_N (shift + 7)) by lia. apply IH; lia.
  - replace pn with (length dataN) by lia. rewrite skipn_all. reflexivity.
Qed.

(** read_varint(data, size, pos, out) with size = the length of data and *pos inside it: the model reads the
    bytes from *pos on; on success *pos is advanced past the consumed bytes and *out holds the value, on failure
    (-1) both are untouched *)
Lemma tie_rle_read_varint (dataN : list N) (pn : nat) (o : Z) :
  Z.of_nat (length dataN) < 2 ^ 64 -> (pn <= length dataN)%nat ->
  c_rle_read_varint (map Z.of_N dataN) (Z.of_nat (length dataN)) [Z.of_nat pn] [o]
  = match RleModel.read_varint 5 0 0 (skipn pn dataN) with
    | Some (v, rest) => ([Z.of_nat (length dataN - length rest)], [Z.of_N v], 0)
    | None => ([Z.of_nat pn], [o], -1)
    end.
Proof.
  intros Hlen Hp.
  transitivity (rle_vloop 5 (map Z.of_N dataN) (Z.of_nat (length dataN)) [Z.of_nat pn] [o] (Z.of_nat pn) 0 0);
    [reflexivity|].
  change 0 with (Z.of_N 0) at 1 2. rewrite rle_vloop_model by (cbn; lia).
  destruct (RleModel.read_varint 5 0 0 (skipn pn dataN)) as [[v rest]|]; reflexivity.
Qed.
