(** Facts about the operators of Base/CSem.v used by the Tie_<engine>.v files: C arithmetic on in-range
    values expressed with the N / Z operations the hand-written models use. *)
From Coq Require Import ZArith NArith List Bool Lia.
From Carquet Require Import Base.CSem.
Import ListNotations.
Local Open Scope Z_scope.

(* ------------------------------------------------------------------ conversions *)

Lemma wrapu_small w x : 0 <= x < 2 ^ w -> wrapu w x = x.
Proof. intros H. unfold wrapu. apply Z.mod_small. exact H. Qed.

Lemma wrapu_range w x : 0 <= w -> 0 <= wrapu w x < 2 ^ w.
Proof. intros H. unfold wrapu. apply Z.mod_pos_bound. apply Z.pow_pos_nonneg; lia. Qed.

Lemma wrapu_idem w x : 0 <= w -> wrapu w (wrapu w x) = wrapu w x.
Proof. intros H. apply wrapu_small, wrapu_range, H. Qed.

Lemma wraps_small w x : 0 < w -> - 2 ^ (w - 1) <= x < 2 ^ (w - 1) -> wraps w x = x.
Proof.
  intros Hw H. unfold wraps.
  assert (E : 2 ^ w = 2 * 2 ^ (w - 1)).
  { replace w with (Z.succ (w - 1)) at 1 by lia. apply Z.pow_succ_r. lia. }
  assert (P : 0 < 2 ^ (w - 1)) by (apply Z.pow_pos_nonneg; lia).
  destruct (Z_lt_le_dec x 0) as [N|N].
  - assert (M : x mod 2 ^ w = x + 2 ^ w).
    { symmetry. apply Z.mod_unique with (q := -1); lia. }
    rewrite M. destruct (Z.ltb_spec (x + 2 ^ w) (2 ^ (w - 1))); lia.
  - rewrite Z.mod_small by lia. destruct (Z.ltb_spec x (2 ^ (w - 1))); lia.
Qed.

Lemma wraps_range w x : 0 < w -> - 2 ^ (w - 1) <= wraps w x < 2 ^ (w - 1).
Proof.
  intros Hw. unfold wraps.
  assert (E : 2 ^ w = 2 * 2 ^ (w - 1)).
  { replace w with (Z.succ (w - 1)) at 1 by lia. apply Z.pow_succ_r. lia. }
  assert (P : 0 < 2 ^ (w - 1)) by (apply Z.pow_pos_nonneg; lia).
  pose proof (Z.mod_pos_bound x (2 ^ w) ltac:(lia)) as B.
  destruct (Z.ltb_spec (x mod 2 ^ w) (2 ^ (w - 1))); lia.
Qed.

(** two's complement: the unsigned reading of a signed value *)
Lemma wrapu_wraps w x : 0 < w -> wrapu w (wraps w x) = wrapu w x.
Proof.
  intros Hw. unfold wrapu, wraps.
  assert (P : 0 < 2 ^ w) by (apply Z.pow_pos_nonneg; lia).
  destruct (Z.ltb_spec (x mod 2 ^ w) (2 ^ (w - 1))).
  - apply Z.mod_mod. lia.
  - replace (x mod 2 ^ w - 2 ^ w) with (x mod 2 ^ w + (-1) * 2 ^ w) by ring.
    rewrite Z.mod_add by lia. apply Z.mod_mod. lia.
Qed.

Lemma wraps_wrapu w x : 0 < w -> wraps w (wrapu w x) = wraps w x.
Proof.
  intros Hw. unfold wrapu, wraps. rewrite Z.mod_mod; [reflexivity|].
  apply Z.pow_nonzero; lia.
Qed.

(** the same with the bounds written out, so that [lia] can discharge them *)
Lemma wrapu8_small x : 0 <= x < 256 -> wrapu 8 x = x.
Proof. apply (wrapu_small 8). Qed.
Lemma wrapu16_small x : 0 <= x < 65536 -> wrapu 16 x = x.
Proof. apply (wrapu_small 16). Qed.
Lemma wrapu32_small x : 0 <= x < 4294967296 -> wrapu 32 x = x.
Proof. apply (wrapu_small 32). Qed.
Lemma wrapu64_small x : 0 <= x < 18446744073709551616 -> wrapu 64 x = x.
Proof. apply (wrapu_small 64). Qed.
Lemma wraps32_small x : -2147483648 <= x < 2147483648 -> wraps 32 x = x.
Proof. apply (wraps_small 32). lia. Qed.
Lemma wraps64_small x : -9223372036854775808 <= x < 9223372036854775808 -> wraps 64 x = x.
Proof. apply (wraps_small 64). lia. Qed.
Lemma wrapu32_range x : 0 <= wrapu 32 x < 4294967296.
Proof. apply (wrapu_range 32). lia. Qed.
Lemma wrapu64_range x : 0 <= wrapu 64 x < 18446744073709551616.
Proof. apply (wrapu_range 64). lia. Qed.
Lemma wraps32_range x : -2147483648 <= wraps 32 x < 2147483648.
Proof. apply (wraps_range 32). lia. Qed.
Lemma wraps64_range x : -9223372036854775808 <= wraps 64 x < 9223372036854775808.
Proof. apply (wraps_range 64). lia. Qed.

Lemma b2z_range b : 0 <= b2z b <= 1.
Proof. destruct b; cbn; lia. Qed.

(* ------------------------------------------------------------------ shifts *)

Lemma cshl_u_ok w a b : 0 <= b < w -> cshl_u w a b = (a * 2 ^ b) mod 2 ^ w.
Proof.
  intros H. unfold cshl_u, shamt_ok, wrapu.
  destruct (Z.leb_spec 0 b); [|lia]. destruct (Z.ltb_spec b w); [|lia]. cbn.
  rewrite Z.shiftl_mul_pow2 by lia. reflexivity.
Qed.

Lemma cshl_u_shiftl w a b : 0 <= b < w -> cshl_u w a b = wrapu w (Z.shiftl a b).
Proof.
  intros H. unfold cshl_u, shamt_ok.
  destruct (Z.leb_spec 0 b); [|lia]. destruct (Z.ltb_spec b w); [|lia]. reflexivity.
Qed.

Lemma cshr_ok w a b : 0 <= b < w -> cshr w a b = Z.shiftr a b.
Proof.
  intros H. unfold cshr, shamt_ok.
  destruct (Z.leb_spec 0 b); [|lia]. destruct (Z.ltb_spec b w); [|lia]. reflexivity.
Qed.

Lemma cshr_div w a b : 0 <= b < w -> cshr w a b = a / 2 ^ b.
Proof. intros H. rewrite cshr_ok by exact H. apply Z.shiftr_div_pow2. lia. Qed.

(* ------------------------------------------------------------------ Z.of_N through the N operations *)

Lemma of_N_lor a b : Z.of_N (N.lor a b) = Z.lor (Z.of_N a) (Z.of_N b).
Proof. destruct a, b; reflexivity. Qed.
Lemma of_N_land a b : Z.of_N (N.land a b) = Z.land (Z.of_N a) (Z.of_N b).
Proof. destruct a, b; reflexivity. Qed.
Lemma of_N_lxor a b : Z.of_N (N.lxor a b) = Z.lxor (Z.of_N a) (Z.of_N b).
Proof. destruct a, b; reflexivity. Qed.
Lemma of_N_shiftl a n : Z.of_N (N.shiftl a n) = Z.shiftl (Z.of_N a) (Z.of_N n).
Proof.
  rewrite N.shiftl_mul_pow2, Z.shiftl_mul_pow2 by lia.
  rewrite N2Z.inj_mul, N2Z.inj_pow. reflexivity.
Qed.
Lemma of_N_shiftr a n : Z.of_N (N.shiftr a n) = Z.shiftr (Z.of_N a) (Z.of_N n).
Proof.
  rewrite N.shiftr_div_pow2, Z.shiftr_div_pow2 by lia.
  rewrite N2Z.inj_div, N2Z.inj_pow. reflexivity.
Qed.
Lemma of_N_ones n : Z.of_N (N.ones n) = Z.ones (Z.of_N n).
Proof.
  rewrite N.ones_equiv, Z.ones_equiv, N2Z.inj_pred, N2Z.inj_pow. reflexivity.
  apply N.neq_0_lt_0, N.pow_nonzero. discriminate.
Qed.
Lemma of_N_lt_pow2 a n : (a < 2 ^ n)%N -> 0 <= Z.of_N a < 2 ^ Z.of_N n.
Proof. intros H. split; [lia|]. change 2 with (Z.of_N 2). rewrite <- N2Z.inj_pow. lia. Qed.

#[export] Hint Rewrite of_N_lor of_N_land of_N_lxor of_N_shiftl of_N_shiftr N2Z.inj_mod N2Z.inj_add N2Z.inj_mul
  N2Z.inj_div N2Z.inj_pow : n2z.

(** bounds of the bit operations on non-negative values below a power of two *)
Lemma Z_lor_range a b n : 0 <= n -> 0 <= a < 2 ^ n -> 0 <= b < 2 ^ n -> 0 <= Z.lor a b < 2 ^ n.
Proof.
  intros Hn Ha Hb. assert (0 <= Z.lor a b) by (apply Z.lor_nonneg; lia). split; [lia|].
  destruct (Z.eq_dec (Z.lor a b) 0) as [E|E]; [rewrite E; apply Z.pow_pos_nonneg; lia|].
  apply Z.log2_lt_pow2; [lia|]. rewrite Z.log2_lor by lia.
  destruct (Z.eq_dec a 0) as [->|Na]; destruct (Z.eq_dec b 0) as [->|Nb]; cbn.
  - rewrite Z.lor_0_l in E. lia.
  - rewrite Z.max_r by (apply Z.log2_nonneg). apply Z.log2_lt_pow2; lia.
  - rewrite Z.max_l by (apply Z.log2_nonneg). apply Z.log2_lt_pow2; lia.
  - apply Z.max_lub_lt; apply Z.log2_lt_pow2; lia.
Qed.

Lemma Z_land_range_r a b n : 0 <= a -> 0 <= b < 2 ^ n -> 0 <= Z.land a b < 2 ^ n.
Proof.
  intros Ha Hb. assert (0 <= Z.land a b) by (apply Z.land_nonneg; lia). split; [lia|].
  assert (Z.land a b <= b); [|lia].
  destruct (Z.eq_dec b 0) as [->|Nb]; [rewrite Z.land_0_r; lia|].
  rewrite <- (Z2N.id a), <- (Z2N.id b) by lia. rewrite <- of_N_land.
  apply N2Z.inj_le. apply N.le_trans with (N.land (Z.to_N a) (Z.to_N b)); [lia|].
  clear. generalize (Z.to_N a) (Z.to_N b). intros x y.
  destruct (N.le_gt_cases (N.land x y) y) as [L|G]; [exact L|exfalso].
  (* land x y > y is impossible: the highest bit where they differ *)
  assert (N.land x y = N.land (N.land x y) y) as E by (rewrite <- N.land_assoc, N.land_diag; reflexivity).
  pose proof (N.ldiff_le (N.land x y) y) as D.
  assert (N.ldiff (N.land x y) y = 0)%N as Z0.
  { apply N.bits_inj_0. intros k. rewrite N.ldiff_spec, N.land_spec. destruct (N.testbit x k), (N.testbit y k); reflexivity. }
  apply D in Z0. lia.
Qed.

Lemma Z_lxor_range a b n : 0 <= n -> 0 <= a < 2 ^ n -> 0 <= b < 2 ^ n -> 0 <= Z.lxor a b < 2 ^ n.
Proof.
  intros Hn Ha Hb. assert (0 <= Z.lxor a b) by (apply Z.lxor_nonneg; lia). split; [lia|].
  destruct (Z.eq_dec (Z.lxor a b) 0) as [E|E]; [rewrite E; apply Z.pow_pos_nonneg; lia|].
  apply Z.log2_lt_pow2; [lia|].
  eapply Z.le_lt_trans; [apply Z.log2_lxor; lia|].
  destruct (Z.eq_dec a 0) as [->|Na]; destruct (Z.eq_dec b 0) as [->|Nb]; cbn.
  - rewrite Z.lxor_0_l in E. lia.
  - rewrite Z.max_r by (apply Z.log2_nonneg). apply Z.log2_lt_pow2; lia.
  - rewrite Z.max_l by (apply Z.log2_nonneg). apply Z.log2_lt_pow2; lia.
  - apply Z.max_lub_lt; apply Z.log2_lt_pow2; lia.
Qed.

Lemma Z_shiftr_range a k n : 0 <= k -> 0 <= a < 2 ^ n -> 0 <= Z.shiftr a k < 2 ^ n.
Proof.
  intros Hk Ha. rewrite Z.shiftr_div_pow2 by lia.
  assert (0 < 2 ^ k) by (apply Z.pow_pos_nonneg; lia).
  split; [apply Z.div_pos; lia|].
  apply Z.le_lt_trans with a; [|lia]. apply Z.div_le_upper_bound; nia.
Qed.

(* ------------------------------------------------------------------ arrays *)

Lemma rd_nth p i : 0 <= i -> rd p i = nth (Z.to_nat i) p 0.
Proof. reflexivity. Qed.

Lemma upd_nat_length p i v : length (upd_nat p i v) = length p.
Proof. revert i. induction p as [|x t IH]; intros [|j]; cbn; auto. Qed.

Lemma upd_length p i v : length (upd p i v) = length p.
Proof. unfold upd. destruct (i <? 0); [reflexivity|apply upd_nat_length]. Qed.

(** [rd l k] / [upd l k v] with a literal index on an explicit list *)
Ltac rd_simpl :=
  repeat match goal with
  | |- context [rd ?l ?k] =>
      let n := eval vm_compute in (Z.to_nat k) in change (rd l k) with (nth n l 0)
  | |- context [upd ?l ?k ?v] =>
      let n := eval vm_compute in (Z.to_nat k) in change (upd l k v) with (upd_nat l n v)
  end; cbn [nth upd_nat].

(* ------------------------------------------------------------------ little-endian byte combination *)

(** powers of two with literal exponents, so that [lia] sees numbers *)
Ltac pow2 :=
  repeat match goal with
  | |- context [2 ^ (Zpos ?p)] =>
      let v := eval vm_compute in (2 ^ (Zpos p)) in change (2 ^ (Zpos p)) with v
  | H : context [2 ^ (Zpos ?p)] |- _ =>
      let v := eval vm_compute in (2 ^ (Zpos p)) in change (2 ^ (Zpos p)) with v in H
  | |- context [(2 ^ (Npos ?p))%N] =>
      let v := eval vm_compute in (2 ^ (Npos p))%N in change (2 ^ (Npos p))%N with v
  | H : context [(2 ^ (Npos ?p))%N] |- _ =>
      let v := eval vm_compute in (2 ^ (Npos p))%N in change (2 ^ (Npos p))%N with v in H
  end.
Ltac blia := pow2; lia.

Lemma cshl_u_small w b k : 0 <= k < w -> 0 <= b -> b * 2 ^ k < 2 ^ w -> cshl_u w b k = b * 2 ^ k.
Proof.
  intros Hk Hb H. rewrite cshl_u_ok by exact Hk. apply Z.mod_small. split; [|exact H].
  apply Z.mul_nonneg_nonneg; [exact Hb|]. apply Z.pow_nonneg. lia.
Qed.

Lemma cshl_s_small w b k :
  0 < w -> 0 <= k < w -> 0 <= b -> b * 2 ^ k < 2 ^ (w - 1) -> cshl_s w b k = b * 2 ^ k.
Proof.
  intros Hw Hk Hb H. unfold cshl_s, shamt_ok.
  destruct (Z.leb_spec 0 k); [|lia]. destruct (Z.ltb_spec k w); [|lia]. cbn [andb].
  rewrite Z.shiftl_mul_pow2 by lia. apply wraps_small; [exact Hw|].
  assert (0 <= b * 2 ^ k) by (apply Z.mul_nonneg_nonneg; [exact Hb|apply Z.pow_nonneg; lia]).
  assert (0 < 2 ^ (w - 1)) by (apply Z.pow_pos_nonneg; lia). lia.
Qed.

(** or-ing a value shifted above the bits of [a] is adding it *)
Lemma lor_add_shifted a b k : 0 <= k -> 0 <= a < 2 ^ k -> 0 <= b -> Z.lor a (b * 2 ^ k) = a + b * 2 ^ k.
Proof.
  intros Hk Ha Hb.
  assert (D : Z.land a (b * 2 ^ k) = 0).
  { apply Z.bits_inj_0. intros n. rewrite Z.land_spec.
    destruct (Z_lt_le_dec n 0) as [N|N]; [rewrite !Z.testbit_neg_r by exact N; reflexivity|].
    destruct (Z_lt_le_dec n k) as [L|L].
    - rewrite (Z.mul_pow2_bits_low b k n) by exact L. apply andb_false_r.
    - replace (Z.testbit a n) with false; [reflexivity|]. symmetry.
      destruct (Z.eq_dec a 0) as [->|Na]; [apply Z.bits_0|].
      apply Z.bits_above_log2; [lia|]. apply Z.lt_le_trans with k; [|exact L].
      apply Z.log2_lt_pow2; lia. }
  rewrite <- Z.lxor_lor by exact D. symmetry. apply Z.add_nocarry_lxor. exact D.
Qed.

(** [Z.lor a (b * 2^k)] from the inside out; the shifted operands must already be products *)
Ltac lor_to_add :=
  repeat match goal with
  | |- context [Z.lor ?a (?b * 2 ^ ?k)] => rewrite (lor_add_shifted a b k) by blia
  end.

(** one unpacked value: ((v >> s) & mask) converted to uint32_t, against the N model *)
Lemma unpack_elem (g s k : N) :
  (k <= 32)%N ->
  Z.to_N (wrapu 32 (Z.land (Z.shiftr (Z.of_N g) (Z.of_N s)) (Z.of_N (N.ones k))))
  = N.land (N.shiftr g s) (N.ones k).
Proof.
  intros Hk. rewrite <- of_N_shiftr, <- of_N_land.
  rewrite wrapu32_small; [apply N2Z.id|].
  split; [lia|]. apply Z.le_lt_trans with (Z.of_N (N.ones k)).
  - apply N2Z.inj_le. rewrite N.land_ones. rewrite N.ones_equiv.
    assert (0 < 2 ^ k)%N by (apply N.neq_0_lt_0, N.pow_nonzero; discriminate).
    pose proof (N.mod_upper_bound (N.shiftr g s) (2 ^ k) ltac:(lia)). lia.
  - rewrite N.ones_equiv.
    assert (2 ^ k <= 2 ^ 32)%N by (apply N.pow_le_mono_r; [discriminate|exact Hk]).
    change (2 ^ 32)%N with 4294967296%N in *.
    assert (0 < 2 ^ k)%N by (apply N.neq_0_lt_0, N.pow_nonzero; discriminate). lia.
Qed.

Lemma unpack_elem' (g : N) (s m : Z) (sN k : N) :
  s = Z.of_N sN -> m = Z.of_N (N.ones k) -> (k <= 32)%N ->
  Z.to_N (wrapu 32 (Z.land (Z.shiftr (Z.of_N g) s) m)) = N.land (N.shiftr g sN) (N.ones k).
Proof. intros -> -> Hk. apply unpack_elem. exact Hk. Qed.

Ltac list_eq := repeat match goal with |- _ :: _ = _ :: _ => f_equal end.

Lemma unpack_elem_nw (g : N) (s m : Z) (sN k : N) :
  s = Z.of_N sN -> m = Z.of_N (N.ones k) ->
  Z.to_N (Z.land (Z.shiftr (Z.of_N g) s) m) = N.land (N.shiftr g sN) (N.ones k).
Proof. intros -> ->. rewrite <- of_N_shiftr, <- of_N_land. apply N2Z.id. Qed.

(* ------------------------------------------------------------------ bit-width loops and intrinsics *)

Lemma Z_log2_of_N a : Z.log2 (Z.of_N a) = Z.of_N (N.log2 a).
Proof. destruct a as [|p]; [reflexivity|]. destruct p; reflexivity. Qed.

Lemma of_N_size a : a <> 0%N -> Z.of_N (N.size a) = Z.log2 (Z.of_N a) + 1.
Proof. intros H. rewrite N.size_log2 by exact H. rewrite Z_log2_of_N. lia. Qed.

(** the shape of an unrolled  while (v > 0) { w++; v = sh v; }  with an unroll bound of [n] iterations *)
Fixpoint bw_iter (n : nat) (sh : Z -> Z) (v w : Z) : Z :=
  if Z.gtb v 0 then
    match n with O => loop_exhausted | S n' => bw_iter n' sh (sh v) (w + 1) end
  else w.

Lemma size_div2 a : a <> 0%N -> N.size a = N.succ (N.size (N.div2 a)).
Proof. destruct a as [|[p|p|]]; intros H; try congruence; reflexivity. Qed.

Lemma bw_iter_size (n : nat) (sh : Z -> Z) (v w : Z) :
  (forall x, 0 < x < 2 ^ Z.of_nat n -> sh x = x / 2) ->
  0 <= v < 2 ^ Z.of_nat n ->
  bw_iter n sh v w = w + Z.of_N (N.size (Z.to_N v)).
Proof.
  revert v w. induction n as [|n IH]; intros v w Hsh Hv.
  - change (2 ^ Z.of_nat 0) with 1 in Hv. assert (v = 0) by lia. subst v. cbn. lia.
  - cbn [bw_iter]. destruct (Z.gtb_spec v 0) as [P|P].
    + rewrite Hsh by lia.
      assert (E : 2 ^ Z.of_nat (S n) = 2 * 2 ^ Z.of_nat n).
      { rewrite Nat2Z.inj_succ. apply Z.pow_succ_r. lia. }
      rewrite IH.
      * rewrite Z2N.inj_div by lia. change (Z.to_N 2) with 2%N. rewrite <- N.div2_div.
        rewrite (size_div2 (Z.to_N v)) by lia. lia.
      * intros x Hx. apply Hsh. lia.
      * split; [apply Z.div_pos; lia|]. apply Z.div_lt_upper_bound; lia.
    + assert (v = 0) by lia. subst v. cbn. lia.
Qed.

(* ------------------------------------------------------------------ masks as remainders *)

Lemma of_N_land_ones a n : Z.of_N (N.land a (N.ones n)) = wrapu (Z.of_N n) (Z.of_N a).
Proof. rewrite N.land_ones. unfold wrapu. rewrite N2Z.inj_mod, N2Z.inj_pow. reflexivity. Qed.

Lemma Z_land_1 a : Z.land a 1 = a mod 2.
Proof. change 1 with (Z.ones 1). rewrite Z.land_ones by lia. reflexivity. Qed.

Lemma N_land_1 a : N.land a 1 = (a mod 2)%N.
Proof. change 1%N with (N.ones 1). rewrite N.land_ones. reflexivity. Qed.

(* ------------------------------------------------------------------ byte arrays given as N lists *)

Lemma rd_map_of_N (l : list N) (i : nat) :
  (i < length l)%nat -> rd (map Z.of_N l) (Z.of_nat i) = Z.of_N (nth i l 0%N).
Proof.
  intros H. unfold rd. rewrite Nat2Z.id. change 0 with (Z.of_N 0). apply map_nth.
Qed.

Lemma skipn_cons_nth {A} (d : A) (l : list A) (i : nat) :
  (i < length l)%nat -> skipn i l = nth i l d :: skipn (S i) l.
Proof.
  revert i. induction l as [|x l IH]; intros i H; [cbn in H; lia|].
  destruct i as [|i]; [reflexivity|]. cbn [skipn nth]. apply IH. cbn in H. lia.
Qed.

Lemma Z_eqb_of_N (a b : N) : Z.eqb (Z.of_N a) (Z.of_N b) = N.eqb a b.
Proof. destruct (Z.eqb_spec (Z.of_N a) (Z.of_N b)), (N.eqb_spec a b); try reflexivity; lia. Qed.

(** one group of a little-endian base-128 number: (uint32_t / uint64_t)(byte & 0x7F) << shift *)
Lemma varint_group (w : Z) (b shift : N) :
  (w = 32 \/ w = 64) -> (Z.of_N shift < w) ->
  cshl_u w (wrapu w (Z.land (Z.of_N b) 127)) (Z.of_N shift)
  = Z.of_N ((N.shiftl (N.land b 127) shift) mod 2 ^ Z.to_N w)%N.
Proof.
  intros Hw Hs. change 127 with (Z.of_N 127). rewrite <- of_N_land.
  assert (B : (N.land b 127 < 128)%N).
  { change 127%N with (N.ones 7). rewrite N.land_ones. apply N.mod_lt. discriminate. }
  rewrite wrapu_small by (destruct Hw; subst w; blia).
  rewrite cshl_u_shiftl by lia. unfold wrapu. rewrite <- of_N_shiftl.
  rewrite N2Z.inj_mod, N2Z.inj_pow. rewrite Z2N.id by (destruct Hw; lia). reflexivity.
Qed.

Lemma upd_at (pre rest : list Z) (x y : Z) :
  upd (pre ++ x :: rest) (Z.of_nat (length pre)) y = pre ++ y :: rest.
Proof.
  unfold upd. destruct (Z.ltb_spec (Z.of_nat (length pre)) 0) as [H|H]; [lia|]. clear H. rewrite Nat2Z.id.
  induction pre as [|a pre IH]; [reflexivity|]. cbn [length app upd_nat]. rewrite IH. reflexivity.
Qed.

(** (uint8_t)(v | 0x80) = (v & 0x7F) | 0x80 *)
Lemma byte_cont (v : N) : wrapu 8 (Z.lor (Z.of_N v) 128) = Z.of_N (N.lor (N.land v 127) 128).
Proof.
  change 128 with (Z.of_N 128). rewrite <- of_N_lor. unfold wrapu. change (2 ^ 8) with (Z.of_N (2 ^ 8)).
  rewrite <- N2Z.inj_mod. f_equal. rewrite <- N.land_ones.
  apply N.bits_inj. intros k. rewrite !N.land_spec, !N.lor_spec, N.land_spec.
  change 127%N with (N.ones 7). change 128%N with (2 ^ 7)%N. rewrite N.pow2_bits_eqb.
  destruct (N.lt_ge_cases k 7) as [L|G].
  - rewrite (N.ones_spec_low 7 k L), (N.ones_spec_low 8 k) by lia.
    destruct (N.eqb_spec 7 k); [lia|]. rewrite !andb_true_r, !orb_false_r. reflexivity.
  - rewrite (N.ones_spec_high 7 k G). destruct (N.eqb_spec 7 k) as [<-|NE].
    + rewrite (N.ones_spec_low 8 7) by lia. rewrite !orb_true_r. reflexivity.
    + rewrite (N.ones_spec_high 8 k) by lia. rewrite !andb_false_r. reflexivity.
Qed.
