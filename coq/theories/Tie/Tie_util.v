(** Code-level tie of the util engine: the C leaf functions of src/util/xxhash.c and
    src/metadata/bloom_filter.c, re-translated from the working tree into Gen/CLeaf_gen.v on every run
    (tools/gen.d/c2coq.py), equal the hand-written model functions of Util/Xxh64Model.v and
    Util/BloomModel.v on all in-range arguments.  Only such lemmas live here. *)
From Coq Require Import ZArith NArith List Bool Lia ZifyBool ZifyNat ZifyN.
From Carquet Require Import Base.CSem Gen.CLeaf_gen Gen.Consts_gen Tie.TieLib Util.Xxh64Model Util.BloomModel.
Import ListNotations.
Local Open Scope Z_scope.

(* ------------------------------------------------------------------ src/util/xxhash.c *)

(** xxh64_rotl(x, r) for a 64-bit x and a rotation 0 < r < 64 (r = 0 shifts by 64: undefined in C) *)
Lemma tie_xxh64_rotl (x r : N) :
  (x < 2 ^ 64)%N -> (0 < r < 64)%N ->
  c_xxh64_rotl (Z.of_N x) (Z.of_N r) = Z.of_N (Xxh64Model.rotl x r).
Proof.
  intros Hx Hr. unfold c_xxh64_rotl, Xxh64Model.rotl, Xxh64Model.u64, Xxh64Model.two64.
  rewrite wraps32_small by lia.
  rewrite cshl_u_shiftl, cshr_ok by lia.
  autorewrite with n2z. rewrite N2Z.inj_sub by lia. reflexivity.
Qed.

Lemma rotl_range (x r : N) : (x < 2 ^ 64)%N -> (0 < r < 64)%N -> (Xxh64Model.rotl x r < 2 ^ 64)%N.
Proof.
  intros Hx Hr. apply N2Z.inj_lt. rewrite <- tie_xxh64_rotl by assumption.
  unfold c_xxh64_rotl. rewrite wraps32_small by lia. rewrite cshl_u_shiftl, cshr_ok by lia.
  apply (Z_lor_range _ _ 64); [lia| apply (wrapu_range 64); lia |].
  apply Z_shiftr_range; [lia|]. apply (of_N_lt_pow2 x 64). exact Hx.
Qed.

(** xxh64_round(acc, input) *)
Lemma tie_xxh64_round (acc input : N) :
  (acc < 2 ^ 64)%N -> (input < 2 ^ 64)%N ->
  c_xxh64_round (Z.of_N acc) (Z.of_N input) = Z.of_N (Xxh64Model.round acc input).
Proof.
  intros Ha Hi. unfold c_xxh64_round, Xxh64Model.round.
  cbv zeta.
  replace (wrapu 64 (Z.of_N acc + wrapu 64 (Z.of_N input * 14029467366897019727)))
    with (Z.of_N (Xxh64Model.add acc (Xxh64Model.mul input PRIME2))).
  2:{ unfold Xxh64Model.add, Xxh64Model.mul, Xxh64Model.u64, wrapu. autorewrite with n2z. reflexivity. }
  change 31 with (Z.of_N 31) at 1.
  rewrite tie_xxh64_rotl.
  - unfold Xxh64Model.mul, Xxh64Model.u64, wrapu. autorewrite with n2z. reflexivity.
  - unfold Xxh64Model.add, Xxh64Model.u64. apply N.mod_lt. discriminate.
  - lia.
Qed.

Lemma round_range (acc input : N) : (Xxh64Model.round acc input < 2 ^ 64)%N.
Proof. unfold Xxh64Model.round, Xxh64Model.mul, Xxh64Model.u64. apply N.mod_lt. discriminate. Qed.

(** xxh64_merge_round(acc, val) *)
Lemma tie_xxh64_merge_round (acc val : N) :
  (acc < 2 ^ 64)%N -> (val < 2 ^ 64)%N ->
  c_xxh64_merge_round (Z.of_N acc) (Z.of_N val) = Z.of_N (Xxh64Model.merge_round acc val).
Proof.
  intros Ha Hv. unfold c_xxh64_merge_round, Xxh64Model.merge_round. cbv zeta.
  change 0 with (Z.of_N 0) at 1. rewrite tie_xxh64_round by (assumption || reflexivity).
  unfold Xxh64Model.add, Xxh64Model.mul, Xxh64Model.u64, wrapu. autorewrite with n2z. reflexivity.
Qed.

(** read64_le(p) / read32_le(p) on the bytes p[0..7] / p[0..3] *)
Lemma tie_read64_le (p0 p1 p2 p3 p4 p5 p6 p7 : N) (rest : list Z) :
  (p0 < 256)%N -> (p1 < 256)%N -> (p2 < 256)%N -> (p3 < 256)%N ->
  (p4 < 256)%N -> (p5 < 256)%N -> (p6 < 256)%N -> (p7 < 256)%N ->
  c_read64_le (Z.of_N p0 :: Z.of_N p1 :: Z.of_N p2 :: Z.of_N p3 ::
               Z.of_N p4 :: Z.of_N p5 :: Z.of_N p6 :: Z.of_N p7 :: rest)
  = Z.of_N (Xxh64Model.read64_le p0 p1 p2 p3 p4 p5 p6 p7).
Proof.
  intros H0 H1 H2 H3 H4 H5 H6 H7. unfold c_read64_le, Xxh64Model.read64_le. rd_simpl.
  rewrite !cshl_u_shiftl by lia. autorewrite with n2z.
  rewrite !wrapu_small; [reflexivity| | | | | | |];
    rewrite Z.shiftl_mul_pow2 by lia; cbn; lia.
Qed.

Lemma tie_read32_le (p0 p1 p2 p3 : N) (rest : list Z) :
  (p0 < 256)%N -> (p1 < 256)%N -> (p2 < 256)%N -> (p3 < 256)%N ->
  c_read32_le (Z.of_N p0 :: Z.of_N p1 :: Z.of_N p2 :: Z.of_N p3 :: rest)
  = Z.of_N (Xxh64Model.read32_le p0 p1 p2 p3).
Proof.
  intros H0 H1 H2 H3. unfold c_read32_le, Xxh64Model.read32_le. rd_simpl.
  rewrite !cshl_u_shiftl by lia. autorewrite with n2z.
  rewrite !wrapu_small; [reflexivity| | |];
    rewrite Z.shiftl_mul_pow2 by lia; cbn; lia.
Qed.

(* ------------------------------------------------------------------ src/metadata/bloom_filter.c *)

(** the translator's copy of the static table SALT is the table gen_consts reads for the model *)
Lemma tie_bloom_SALT : c_bloom_filter_SALT = map Z.of_N BloomModel.SALT.
Proof. reflexivity. Qed.

(** bloom_filter_block_index(hash, num_blocks) *)
Lemma tie_bloom_filter_block_index (hash nb : N) :
  (hash < 2 ^ 64)%N -> (nb < 2 ^ 64)%N ->
  c_bloom_filter_block_index (Z.of_N hash) (Z.of_N nb) = Z.of_N (BloomModel.block_index hash nb).
Proof.
  intros Hh Hn. unfold c_bloom_filter_block_index, BloomModel.block_index, BloomModel.usz, wrapu.
  rewrite !cshr_ok by lia. autorewrite with n2z. reflexivity.
Qed.

(** The model keeps the filter as bytes and reaches block[i] through 32-bit little-endian loads and
    stores at byte offset off + 4 i; the C function (and its translation) sees the block as 8 words.
    [le32s ws] is the byte image of the words. *)
Definition le32 (w : N) : list N :=
  [w mod 256; (w / 256) mod 256; (w / 65536) mod 256; (w / 16777216) mod 256]%N.
Definition le32s (ws : list N) : list N := flat_map le32 ws.

(** the bit set / tested in word i: 1U << ((SALT[i] * key) >> 27) *)
Definition bloom_bit (s key : N) : N :=
  BloomModel.u32 (N.shiftl 1 (N.shiftr (BloomModel.u32 (s * key)) 27)).

Ltac Zify.zify_post_hook ::= Z.div_mod_to_equations.

Lemma rd32_at (pre post : list N) (w : N) :
  (w < 2 ^ 32)%N -> BloomModel.rd32 (pre ++ le32 w ++ post) (length pre) = Res.Ok w.
Proof.
  intros Hw. induction pre as [|x pre IH]; cbn [length app BloomModel.rd32].
  - unfold le32. cbn [app BloomModel.rd32]. f_equal. change (2 ^ 32)%N with 4294967296%N in Hw.
    replace (w / 65536)%N with (w / 256 / 256)%N by (rewrite N.div_div by discriminate; reflexivity).
    replace (w / 16777216)%N with (w / 256 / 256 / 256)%N by (rewrite !N.div_div by discriminate; reflexivity).
    lia.
  - exact IH.
Qed.

Lemma wr32_at (pre post : list N) (w v : N) :
  BloomModel.wr32 (pre ++ le32 w ++ post) (length pre) v = Res.Ok (pre ++ le32 v ++ post).
Proof.
  induction pre as [|x pre IH]; cbn [length app BloomModel.wr32].
  - reflexivity.
  - rewrite IH. reflexivity.
Qed.

Lemma bit32_ok (s key : N) :
  BloomModel.bit32 (N.shiftr (BloomModel.u32 (s * key)) 27) = Res.Ok (bloom_bit s key).
Proof.
  unfold BloomModel.bit32, bloom_bit.
  assert (H : (N.shiftr (BloomModel.u32 (s * key)) 27 < 32)%N).
  { rewrite N.shiftr_div_pow2. unfold BloomModel.u32. change (2 ^ 27)%N with 134217728%N. lia. }
  destruct (N.leb_spec 32 (N.shiftr (BloomModel.u32 (s * key)) 27)); [lia|reflexivity].
Qed.

Lemma block_insert_words (ss ws : list N) (pre post : list N) (key : N) :
  length ws = length ss -> Forall (fun w => (w < 2 ^ 32)%N) ws ->
  BloomModel.block_insert ss (pre ++ le32s ws ++ post) (length pre) key
  = Res.Ok (pre ++ le32s (map (fun sw => N.lor (snd sw) (bloom_bit (fst sw) key)) (combine ss ws)) ++ post).
Proof.
  revert ws pre. induction ss as [|s ss IH]; intros ws pre Hl Hw.
  - destruct ws; [reflexivity|discriminate].
  - destruct ws as [|w ws]; [discriminate|]. inversion Hw as [|? ? Hw0 Hws]; subst.
    cbn [BloomModel.block_insert combine map fst snd le32s flat_map].
    rewrite <- !app_assoc. rewrite rd32_at by exact Hw0. rewrite bit32_ok. rewrite wr32_at.
    replace (length pre + 4)%nat with (length (pre ++ le32 (N.lor w (bloom_bit s key)))) by (rewrite app_length; reflexivity).
    rewrite app_assoc. change (flat_map le32 ws) with (le32s ws).
    rewrite IH by (try assumption; cbn in Hl; lia).
    rewrite <- !app_assoc. reflexivity.
Qed.

Lemma block_check_words (ss ws : list N) (pre post : list N) (key : N) :
  length ws = length ss -> Forall (fun w => (w < 2 ^ 32)%N) ws ->
  BloomModel.block_check ss (pre ++ le32s ws ++ post) (length pre) key
  = Res.Ok (forallb (fun sw => negb (N.land (snd sw) (bloom_bit (fst sw) key) =? 0)%N) (combine ss ws)).
Proof.
  revert ws pre. induction ss as [|s ss IH]; intros ws pre Hl Hw.
  - destruct ws; [reflexivity|discriminate].
  - destruct ws as [|w ws]; [discriminate|]. inversion Hw as [|? ? Hw0 Hws]; subst.
    cbn [BloomModel.block_check combine forallb fst snd le32s flat_map].
    rewrite <- !app_assoc. rewrite rd32_at by exact Hw0. rewrite bit32_ok.
    destruct (N.land w (bloom_bit s key) =? 0)%N; [reflexivity|]. cbn [negb andb].
    replace (length pre + 4)%nat with (length (pre ++ le32 w)) by (rewrite app_length; reflexivity).
    rewrite app_assoc. change (flat_map le32 ws) with (le32s ws).
    apply IH; [cbn in Hl; lia|assumption].
Qed.

(** one word of the C loop body: 1U << ((SALT[i] * key) >> 27) with key = (uint32_t)hash *)
Lemma bloom_bit_c (s hash : N) :
  (s < 2 ^ 32)%N ->
  cshl_u 32 1 (cshr 32 (wrapu 32 (Z.of_N s * wrapu 32 (Z.of_N hash))) 27)
  = Z.of_N (bloom_bit s (BloomModel.u32 hash)).
Proof.
  intros Hs. unfold bloom_bit, BloomModel.u32.
  rewrite cshr_ok by lia.
  assert (B : 0 <= Z.shiftr (wrapu 32 (Z.of_N s * wrapu 32 (Z.of_N hash))) 27 < 32).
  { rewrite Z.shiftr_div_pow2 by lia. pose proof (wrapu32_range (Z.of_N s * wrapu 32 (Z.of_N hash))).
    change (2 ^ 27) with 134217728. lia. }
  rewrite cshl_u_shiftl by lia. unfold wrapu. autorewrite with n2z. reflexivity.
Qed.

(** bloom_filter_block_insert(block, hash): block = the 8 words at byte offset [length pre] of the filter *)
Lemma tie_bloom_filter_block_insert (pre post : list N) (w0 w1 w2 w3 w4 w5 w6 w7 hash : N) :
  let ws := [w0; w1; w2; w3; w4; w5; w6; w7] in
  Forall (fun w => (w < 2 ^ 32)%N) ws ->
  BloomModel.block_insert BloomModel.SALT (pre ++ le32s ws ++ post) (length pre) (BloomModel.u32 hash)
  = Res.Ok (pre ++ le32s (map Z.to_N (c_bloom_filter_block_insert (map Z.of_N ws) (Z.of_N hash))) ++ post).
Proof.
  intros ws Hw. rewrite block_insert_words by (reflexivity || exact Hw).
  do 3 f_equal. unfold c_bloom_filter_block_insert. cbv zeta. rewrite tie_bloom_SALT.
  unfold ws, BloomModel.SALT, Bloom_SALT. cbn [map combine fst snd]. rd_simpl.
  rewrite !bloom_bit_c by (vm_compute; reflexivity).
  rewrite <- !of_N_lor. cbn [map]. rewrite !N2Z.id. reflexivity.
Qed.

(** bloom_filter_block_check(block, hash) *)
Lemma tie_bloom_filter_block_check (pre post : list N) (w0 w1 w2 w3 w4 w5 w6 w7 hash : N) :
  let ws := [w0; w1; w2; w3; w4; w5; w6; w7] in
  Forall (fun w => (w < 2 ^ 32)%N) ws ->
  BloomModel.block_check BloomModel.SALT (pre ++ le32s ws ++ post) (length pre) (BloomModel.u32 hash)
  = Res.Ok (negb (c_bloom_filter_block_check (map Z.of_N ws) (Z.of_N hash) =? 0)).
Proof.
  intros ws Hw. rewrite block_check_words by (reflexivity || exact Hw).
  f_equal. unfold c_bloom_filter_block_check. cbv zeta. rewrite tie_bloom_SALT.
  unfold ws, BloomModel.SALT, Bloom_SALT. cbn [map combine fst snd forallb]. rd_simpl.
  rewrite !bloom_bit_c by (vm_compute; reflexivity).
  rewrite <- !of_N_land.
  repeat match goal with
  | |- context [(N.land ?a ?b =? 0)%N] =>
      replace (Z.of_N (N.land a b) =? 0) with (N.land a b =? 0)%N
        by (destruct (N.eqb_spec (N.land a b) 0), (Z.eqb_spec (Z.of_N (N.land a b)) 0); lia || reflexivity);
      destruct (N.land a b =? 0)%N; cbn [negb andb]; [reflexivity|]
  end.
  reflexivity.
Qed.
