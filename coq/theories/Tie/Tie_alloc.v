(** Code-level tie of the alloc engine: align_up (src/core/arena.c) and next_power_of_two (src/core/buffer.c),
    re-translated from the working tree into Gen/CLeaf_gen.v on every run (tools/gen.d/c2coq.py), equal align_up of
    Alloc/ArenaModel.v (for alignments that are powers of two) and next_pow2 of Alloc/BufferModel.v. *)
From Coq Require Import ZArith NArith List Bool Lia ZifyBool ZifyNat ZifyN.
From Carquet Require Import Base.CSem Gen.CLeaf_gen Tie.TieLib Alloc.ArenaModel Alloc.BufferModel.
Import ListNotations.
Local Open Scope Z_scope.

(* ------------------------------------------------------------------ align_up *)

(** x & ~(2^k - 1) on a 64-bit x clears the k low bits *)
Lemma land_not_ones (x k : Z) :
  0 <= k < 64 -> 0 <= x < 2 ^ 64 ->
  Z.land x (cnot_u 64 (2 ^ k - 1)) = x / 2 ^ k * 2 ^ k.
Proof.
  intros Hk Hx. unfold cnot_u.
  assert (C : 2 ^ 64 - 1 - (2 ^ k - 1) = Z.shiftl (Z.ones (64 - k)) k).
  { rewrite Z.shiftl_mul_pow2, Z.ones_equiv by lia.
    replace (Z.pred (2 ^ (64 - k)) * 2 ^ k) with (2 ^ (64 - k) * 2 ^ k - 2 ^ k) by (unfold Z.pred; ring).
    rewrite <- Z.pow_add_r by lia. replace (64 - k + k) with 64 by lia. lia. }
  rewrite C. rewrite <- Z.shiftr_div_pow2, <- Z.shiftl_mul_pow2 by lia.
  apply Z.bits_inj'. intros i Hi. rewrite Z.land_spec.
  destruct (Z_lt_le_dec i k) as [L|G].
  - rewrite !Z.shiftl_spec_low by lia. apply andb_false_r.
  - rewrite !Z.shiftl_spec by lia. rewrite Z.shiftr_spec by lia. replace (i - k + k) with i by lia.
    destruct (Z_lt_le_dec i 64) as [L64|G64].
    + rewrite Z.ones_spec_low by lia. apply andb_true_r.
    + rewrite Z.ones_spec_high by lia. rewrite andb_false_r. symmetry.
      destruct (Z.eq_dec x 0) as [->|NZ]; [apply Z.bits_0|].
      apply Z.bits_above_log2; [lia|]. apply Z.lt_le_trans with 64; [|lia]. apply Z.log2_lt_pow2; lia.
Qed.

(** align_up(value, alignment) for alignment = 2^k, the sum not overflowing a size_t *)
Lemma tie_align_up (v : N) (k : N) :
  (k < 64)%N -> (v + 2 ^ k - 1 < 2 ^ 64)%N ->
  c_align_up (Z.of_N v) (Z.of_N (2 ^ k)) = Z.of_N (ArenaModel.align_up v (2 ^ k)).
Proof.
  intros Hk Hv. unfold c_align_up, ArenaModel.align_up.
  assert (P : (0 < 2 ^ k)%N) by (apply N.neq_0_lt_0, N.pow_nonzero; discriminate).
  assert (P64 : (2 ^ k < 2 ^ 64)%N) by (apply N.pow_lt_mono_r; lia).
  change (2 ^ 64)%N with 18446744073709551616%N in *.
  replace (wrapu 64 (wrapu 64 (Z.of_N v + Z.of_N (2 ^ k)) - 1)) with (wrapu 64 (Z.of_N v + Z.of_N (2 ^ k) - 1))
    by (unfold wrapu; rewrite Zminus_mod_idemp_l; reflexivity).
  rewrite (wrapu64_small (Z.of_N v + Z.of_N (2 ^ k) - 1)) by lia.
  rewrite (wrapu64_small (Z.of_N (2 ^ k) - 1)) by lia.
  rewrite N2Z.inj_pow. change (Z.of_N 2) with 2.
  rewrite land_not_ones.
  - rewrite N2Z.inj_mul, N2Z.inj_div, N2Z.inj_pow. change (Z.of_N 2) with 2.
    f_equal. f_equal. rewrite N2Z.inj_sub by lia. rewrite N2Z.inj_add, N2Z.inj_pow. reflexivity.
  - lia.
  - change 2 with (Z.of_N 2) at 1. rewrite <- (N2Z.inj_pow 2 k). change (2 ^ 64) with 18446744073709551616. lia.
Qed.

(* ------------------------------------------------------------------ next_power_of_two *)

(** the bit smearing  n |= n >> 1; n |= n >> 2; ... n |= n >> 32  fills every bit below the highest one *)
Definition smear_inv (s m y : Z) : Prop :=
  0 <= y < 2 ^ s /\ forall i, 0 <= i -> s - m <= i < s -> Z.testbit y i = true.

Lemma smear_step (s m y : Z) :
  0 <= s -> 0 < m -> smear_inv s m y -> smear_inv s (2 * m) (Z.lor y (Z.shiftr y m)).
Proof.
  intros Hs Hm [B I]. split.
  - apply Z_lor_range; [exact Hs|exact B|]. apply Z_shiftr_range; [lia|exact B].
  - intros i Hi Hr. rewrite Z.lor_spec. destruct (Z_lt_le_dec i (s - m)) as [L|G].
    + rewrite Z.shiftr_spec by lia. rewrite (I (i + m)) by lia. apply orb_true_r.
    + rewrite (I i) by lia. reflexivity.
Qed.

Lemma smear_full (s y : Z) : 0 <= s <= 64 -> smear_inv s 64 y -> y = 2 ^ s - 1.
Proof.
  intros Hs [B I]. replace (2 ^ s - 1) with (Z.ones s) by (rewrite Z.ones_equiv; reflexivity).
  apply Z.bits_inj'. intros i Hi. destruct (Z_lt_le_dec i s) as [L|G].
  - rewrite Z.ones_spec_low by lia. apply I; lia.
  - rewrite Z.ones_spec_high by lia.
    destruct (Z.eq_dec y 0) as [->|NZ]; [apply Z.bits_0|].
    apply Z.bits_above_log2; [lia|]. apply Z.lt_le_trans with s; [|exact G]. apply Z.log2_lt_pow2; lia.
Qed.

Lemma smear_ones (x : Z) :
  0 < x < 2 ^ 64 ->
  let y1 := Z.lor x (Z.shiftr x 1) in let y2 := Z.lor y1 (Z.shiftr y1 2) in
  let y3 := Z.lor y2 (Z.shiftr y2 4) in let y4 := Z.lor y3 (Z.shiftr y3 8) in
  let y5 := Z.lor y4 (Z.shiftr y4 16) in let y6 := Z.lor y5 (Z.shiftr y5 32) in
  y6 = 2 ^ (Z.log2 x + 1) - 1.
Proof.
  intros Hx. cbv zeta. set (s := Z.log2 x + 1).
  assert (Hs : 0 <= s <= 64).
  { unfold s. pose proof (Z.log2_nonneg x). assert (Z.log2 x < 64) by (apply Z.log2_lt_pow2; lia). lia. }
  apply smear_full; [exact Hs|].
  assert (I1 : smear_inv s 1 x).
  { split.
    - unfold s. pose proof (Z.log2_spec x ltac:(lia)) as L. rewrite <- Z.add_1_r in L. lia.
    - intros i Hi Hr. replace i with (Z.log2 x) by (unfold s in Hr; lia). apply Z.bit_log2. lia. }
  apply (smear_step s 32); [lia|lia|]. apply (smear_step s 16); [lia|lia|]. apply (smear_step s 8); [lia|lia|].
  apply (smear_step s 4); [lia|lia|]. apply (smear_step s 2); [lia|lia|]. apply (smear_step s 1); [lia|lia|].
  exact I1.
Qed.

(** next_power_of_two(n) for n up to 2^63 (above, the result does not fit a size_t and the C function returns 0) *)
Lemma tie_next_power_of_two (n : N) :
  (n <= 2 ^ 63)%N ->
  c_next_power_of_two (Z.of_N n) = Z.of_N (BufferModel.next_pow2 n).
Proof.
  intros Hn. unfold c_next_power_of_two, BufferModel.next_pow2. pow2.
  destruct (Z.eqb_spec (Z.of_N n) 0) as [E|E].
  - replace n with 0%N by lia. reflexivity.
  - cbv zeta. rewrite (wrapu64_small (Z.of_N n - 1)) by lia. rewrite !cshr_ok by lia.
    destruct (N.eq_dec n 1) as [->|N1]; [reflexivity|].
    rewrite (smear_ones (Z.of_N n - 1)) by lia.
    replace (Z.of_N n - 1) with (Z.of_N (N.pred n)) by lia. rewrite Z_log2_of_N.
    assert (L : (N.log2 (N.pred n) < 63)%N).
    { apply N.log2_lt_pow2; [lia|]. change (2 ^ 63)%N with 9223372036854775808%N. lia. }
    replace (N.log2_up n) with (N.succ (N.log2 (N.pred n))).
    2:{ unfold N.log2_up. destruct (N.compare_spec 1 n); [lia|reflexivity|lia]. }
    rewrite N2Z.inj_pow, N2Z.inj_succ. change (Z.of_N 2) with 2.
    replace (2 ^ (Z.of_N (N.log2 (N.pred n)) + 1) - 1 + 1) with (2 ^ Z.succ (Z.of_N (N.log2 (N.pred n)))) by (unfold Z.succ; lia).
    apply wrapu_small. split; [apply Z.pow_nonneg; lia|]. apply Z.pow_lt_mono_r; lia.
Qed.
