(** Parquet bit packing (Encodings.md, "Bit-packed run" / RLE hybrid groups), arithmetic reading:
    the values of a group, each [w] bits wide, are packed "from the least significant bit of each
    byte to the most significant bit": the group is ONE little-endian number whose base-2^w digits
    are the values and whose base-256 digits are the bytes.  Imports no model. *)
From Coq Require Import NArith List.
Import ListNotations.
Local Open Scope N_scope.

(** little-endian positional numerals *)
Definition from_base (B : N) (ds : list N) : N := fold_right (fun d acc => d + B * acc) 0 ds.

Fixpoint to_base (B : N) (n : nat) (x : N) : list N :=
  match n with O => [] | S n' => x mod B :: to_base B n' (x / B) end.

(** a group of 8 values of width w  <->  w bytes *)
Definition pack_spec (w : nat) (vs : list N) : list N :=
  to_base 256 w (from_base (2 ^ N.of_nat w) (map (fun v => v mod 2 ^ N.of_nat w) vs)).

Definition unpack_spec (w : nat) (bs : list N) : list N :=
  to_base (2 ^ N.of_nat w) 8 (from_base 256 bs).

(** any number of values: groups of 8, the last one padded with zeros; [count] values come back *)
Fixpoint chunks8 (fuel : nat) (vs : list N) : list (list N) :=
  match fuel with
  | O => []
  | S f => match vs with
           | [] => []
           | _ => let g := firstn 8 vs in
                  (g ++ repeat 0 (8 - length g)) :: chunks8 f (skipn 8 vs)
           end
  end.

Definition pack_all_spec (w : nat) (vs : list N) : list N :=
  concat (map (pack_spec w) (chunks8 (length vs) vs)).
