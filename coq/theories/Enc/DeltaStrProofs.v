(** Proofs about DELTA_LENGTH_BYTE_ARRAY (Enc/DeltaLenModel.v) and DELTA_BYTE_ARRAY (Enc/DeltaStrModel.v):
    round trips with byte counts (C11), agreement with the reference decoders of Enc/DeltaSpec.v (C12),
    never-fault lemmas (C08). *)
From Coq Require Import NArith ZArith List Bool Lia ZifyBool ZifyNat ZifyN.
From Carquet Require Import Base.Res Enc.DeltaBits Enc.DeltaSpec Enc.DeltaModel Enc.DeltaArith Enc.DeltaProofs
  Enc.DeltaLenModel Enc.DeltaStrModel.
Import ListNotations.
Local Open Scope N_scope.
Ltac Zify.zify_post_hook ::= Z.div_mod_to_equations.
Local Arguments N.mul : simpl never.
Local Arguments N.add : simpl never.
Local Arguments N.sub : simpl never.
Local Arguments N.pow : simpl never.
Local Arguments N.div : simpl never.
Local Arguments N.ltb : simpl never.
Local Arguments N.leb : simpl never.
Local Arguments N.to_nat : simpl never.
Local Arguments N.of_nat : simpl never.

(** a byte array as carquet can hold it: bytes, int32_t length *)
Definition str_ok (s : list N) : Prop := bytes s /\ len s < 2 ^ 31.

Lemma len_app {A} (a b : list A) : len (a ++ b) = len a + len b.
Proof. unfold len. rewrite app_length. lia. Qed.

Lemma len_nat {A} (l : list A) : N.to_nat (len l) = length l.
Proof. unfold len. apply Nat2N.id. Qed.

Lemma concat_bytes vs : Forall str_ok vs -> bytes (concat vs).
Proof.
  intros H. induction H as [|s t [Hs _] _ IH]; [constructor|]. cbn [concat]. apply bytes_app; assumption.
Qed.

Lemma lens_u32 vs : Forall str_ok vs -> Forall u32v (map len vs).
Proof.
  intros H. induction H as [|s t [_ Hs] _ IH]; [constructor|]. cbn [map]. constructor; [|exact IH].
  unfold u32v. eapply N.lt_trans; [exact Hs|reflexivity].
Qed.

Lemma any_negative_false ls : Forall (fun l => l < 2 ^ 31) ls -> any_negative ls = false.
Proof.
  intros H. induction H as [|l t Hl _ IH]; [reflexivity|]. unfold any_negative in *. cbn [existsb].
  rewrite IH. assert (E : (2 ^ 31 <=? l) = false) by (apply N.leb_gt; exact Hl). rewrite E. reflexivity.
Qed.

Lemma sumN_lens (vs : list (list N)) : sumN (map len vs) = len (concat vs).
Proof. induction vs as [|s t IH]; [reflexivity|]. cbn [map sumN fold_right concat]. fold (sumN (map len t)). rewrite IH, len_app. reflexivity. Qed.

Lemma cut_concat (vs : list (list N)) rest : cut (map len vs) (concat vs ++ rest) = Ok vs.
Proof.
  induction vs as [|s t IH]; [reflexivity|]. cbn [map cut concat]. rewrite <- app_assoc, len_nat, take_app, IH. reflexivity.
Qed.

Lemma skipn_app_exact {A} (a b : list A) : skipn (length a) (a ++ b) = b.
Proof. induction a; [reflexivity|]. cbn [length app skipn]. assumption. Qed.

(** ** DELTA_LENGTH_BYTE_ARRAY *)
(** C11: whenever the encoder reports success the decoder gives the byte arrays back and consumes all bytes *)
Theorem delta_length_roundtrip vs bs : vs <> [] -> Forall str_ok vs -> len vs < 2 ^ 31 ->
  delta_length_encode vs = Ok bs ->
  delta_length_decode bs (len vs) = Ok (vs, len bs).
Proof.
  intros Hne Hok Hl H. unfold delta_length_encode in H. destruct vs as [|s0 t] eqn:Ev; [contradiction|]. rewrite <- Ev in *.
  destruct (delta_encode_int32 (map len vs) (lengths_capacity (len vs))) as [lens|c|e] eqn:E; try discriminate.
  injection H as <-. apply delta_encode_int32_ok in E. subst lens.
  unfold delta_length_decode.
  assert (E0 : (len vs =? 0) = false) by (apply N.eqb_neq; rewrite Ev; unfold len; cbn [length]; lia). rewrite E0.
  assert (Lm : len (map len vs) = len vs) by (unfold len; rewrite map_length; reflexivity).
  assert (Hmne : map len vs <> []) by (rewrite Ev; discriminate).
  pose proof (delta32_roundtrip_rest (map len vs) (concat vs) Hmne (lens_u32 vs Hok) ltac:(rewrite Lm; exact Hl) (concat_bytes vs Hok)) as R.
  rewrite Lm in R. rewrite R.
  assert (Hneg : any_negative (map len vs) = false).
  { apply any_negative_false. apply Forall_forall. intros l Hi. apply in_map_iff in Hi. destruct Hi as [s [<- Hs]].
    rewrite Forall_forall in Hok. apply (Hok s Hs). }
  rewrite Hneg, sumN_lens, len_app, N.ltb_irrefl, len_nat, skipn_app_exact.
  rewrite <- (app_nil_r (concat vs)), cut_concat. reflexivity.
Qed.

Example delta_length_roundtrip_ex :
  delta_length_encode [[97;98]; []; [99]] = Ok [128;1;4;3;4;3;2;0;0;0;12;0;0;0;0;0;0;0;97;98;99] /\
  delta_length_decode [128;1;4;3;4;3;2;0;0;0;12;0;0;0;0;0;0;0;97;98;99] 3 = Ok ([[97;98]; []; [99]], 21).
Proof. split; vm_compute; reflexivity. Qed.

(** zero values are refused by both entry points *)
Theorem delta_length_empty data : delta_length_encode [] = Err ERR_INVALID_ARGUMENT /\
  delta_length_decode data 0 = Err ERR_INVALID_ARGUMENT.
Proof. split; reflexivity. Qed.

(** C12: the encoder's output is read back by the reference decoder *)
Lemma spec_cut_concat vs rest : Forall str_ok vs -> spec_cut (map len vs) (concat vs ++ rest) = Some (vs, rest).
Proof.
  intros H. induction H as [|s t [_ Hs] _ IH]; [reflexivity|]. cbn [map spec_cut concat].
  assert (E : (2 ^ 31 <=? len s) = false) by (apply N.leb_gt; exact Hs). rewrite E.
  rewrite <- app_assoc, len_nat, take_app, IH. reflexivity.
Qed.

Theorem delta_length_encode_conforms vs bs : vs <> [] -> Forall str_ok vs -> len vs < 2 ^ 31 ->
  delta_length_encode vs = Ok bs -> spec_delta_length_decode bs = Some (vs, []).
Proof.
  intros Hne Hok Hl H. unfold delta_length_encode in H. destruct vs as [|s0 t] eqn:Ev; [contradiction|]. rewrite <- Ev in *.
  destruct (delta_encode_int32 (map len vs) (lengths_capacity (len vs))) as [lens|c|e] eqn:E; try discriminate.
  injection H as <-. apply delta_encode_int32_ok in E. subst lens.
  assert (Lm : len (map len vs) = len vs) by (unfold len; rewrite map_length; reflexivity).
  assert (Hmne : map len vs <> []) by (rewrite Ev; discriminate).
  unfold spec_delta_length_decode.
  rewrite (delta32_encode_conforms_rest (map len vs) (concat vs) Hmne (lens_u32 vs Hok)
             ltac:(rewrite Lm; eapply N.lt_trans; [exact Hl|apply pow31_lt])).
  cbn [ds_values ds_rest]. rewrite <- (app_nil_r (concat vs)). apply spec_cut_concat. exact Hok.
Qed.

(** C12: the decoder accepts every stream the reference decoder accepts *)
Lemma cut_spec ls : forall data ss rest, spec_cut ls data = Some (ss, rest) ->
  cut ls data = Ok ss /\ any_negative ls = false /\ len data = sumN ls + len rest /\ len ss = len ls.
Proof.
  induction ls as [|l t IH]; intros data ss rest H.
  - injection H as <- <-. repeat split; reflexivity.
  - cbn [spec_cut] in H. destruct (2 ^ 31 <=? l) eqn:E; [discriminate|].
    destruct (take (N.to_nat l) data) as [[s r]|] eqn:T; [|discriminate].
    destruct (spec_cut t r) as [[ss' r']|] eqn:SC; [|discriminate]. injection H as <- <-.
    destruct (IH _ _ _ SC) as [C [AN [L LS]]]. cbn [cut]. rewrite T, C.
    destruct (take_spec _ _ _ _ T) as [-> Ls].
    repeat split.
    + unfold any_negative in *. cbn [existsb]. rewrite E, AN. reflexivity.
    + rewrite len_app, L. cbn [sumN fold_right]. fold (sumN t). unfold len at 1. rewrite Ls. lia.
    + unfold len in *. cbn [length]. lia.
Qed.

Lemma spec_minis_suffix mw per md ws : forall q last r v q' l r',
  spec_minis mw per md ws q last r = Some (v, q', l, r') -> exists x, q = x ++ q'.
Proof.
  induction ws as [|w ws' IH]; intros q last r v q' l r' SM.
  - cbn in SM. injection SM as E1 E2 E3 E4. subst. exists []. reflexivity.
  - cbn [spec_minis] in SM. destruct r; [injection SM as E1 E2 E3 E4; subst; exists []; reflexivity|].
    destruct (mw <? w); [discriminate|]. destruct (take _ q) as [[bs0 p1]|] eqn:T; [|discriminate].
    destruct (spec_sums last md _) as [vv ll].
    destruct (spec_minis mw per md ws' p1 ll _) as [[[[mo p2] l2] r2]|] eqn:SM2; [|discriminate].
    injection SM as E1 E2 E3 E4. subst. apply IH in SM2. destruct SM2 as [y ->].
    destruct (take_spec _ _ _ _ T) as [-> _]. exists (bs0 ++ y). rewrite <- app_assoc. reflexivity.
Qed.

Lemma spec_blocks_suffix mw per minis : forall fuel q last r v q',
  spec_blocks fuel mw per minis q last r = Some (v, q') -> exists x, q = x ++ q'.
Proof.
  induction fuel; intros q last r v q' SB.
  - destruct r; [|discriminate]. cbn in SB. injection SB as E1 E2. subst. exists []. reflexivity.
  - destruct r as [|r0]; [cbn in SB; injection SB as E1 E2; subst; exists []; reflexivity|]. cbn [spec_blocks] in SB.
    unfold read_zigzag in SB. destruct (read_uleb q) as [[zz q1]|] eqn:Q1; [|discriminate].
    destruct (take minis q1) as [[ws q2]|] eqn:T; [|discriminate].
    destruct (spec_minis mw per (unzigzag zz) ws q2 last (S r0)) as [[[[v1 q3] l1] r1]|] eqn:SM; [|discriminate].
    destruct (spec_blocks fuel mw per minis q3 l1 r1) as [[more q4]|] eqn:SB2; [|discriminate].
    injection SB as E1 E2. subst. apply IHfuel in SB2. destruct SB2 as [x3 ->].
    apply spec_minis_suffix in SM. destruct SM as [x2 ->].
    destruct (read_uleb_suffix _ _ _ Q1) as [x0 [-> _]]. destruct (take_spec _ _ _ _ T) as [-> _].
    exists (x0 ++ ws ++ x2 ++ x3). rewrite <- !app_assoc. reflexivity.
Qed.

Lemma spec_delta_decode_suffix bits bs st : spec_delta_decode bits bs = Some st -> exists p, bs = p ++ ds_rest st.
Proof.
  intros S. unfold spec_delta_decode in S.
  destruct (read_uleb bs) as [[a r1]|] eqn:R1; [|discriminate]. destruct (read_uleb r1) as [[b r2]|] eqn:R2; [|discriminate].
  destruct (negb (legal_geometry a b)); [discriminate|]. destruct (read_uleb r2) as [[c r3]|] eqn:R3; [|discriminate].
  unfold read_zigzag in S. destruct (read_uleb r3) as [[d r4]|] eqn:R4; [|discriminate].
  destruct (read_uleb_suffix _ _ _ R1) as [p1 [-> _]]. destruct (read_uleb_suffix _ _ _ R2) as [p2 [-> _]].
  destruct (read_uleb_suffix _ _ _ R3) as [p3 [-> _]]. destruct (read_uleb_suffix _ _ _ R4) as [p4 [-> _]].
  destruct (c =? 0); [injection S as <-; cbn [ds_rest]; exists (p1 ++ p2 ++ p3 ++ p4); rewrite <- !app_assoc; reflexivity|].
  destruct (spec_blocks _ _ _ _ r4 _ _) as [[vals rest]|] eqn:SB; [|discriminate]. injection S as <-. cbn [ds_rest].
  apply spec_blocks_suffix in SB. destruct SB as [q ->].
  exists (p1 ++ p2 ++ p3 ++ p4 ++ q). rewrite <- !app_assoc. reflexivity.
Qed.

Theorem delta_length_decode_accepts bs vs rest : bytes bs -> vs <> [] -> len vs < 2 ^ 31 ->
  spec_delta_length_decode bs = Some (vs, rest) ->
  (exists st, spec_delta_decode 32 bs = Some st /\ ds_block st = 128 /\ ds_minis st = 4) ->
  delta_length_decode bs (len vs) = Ok (vs, len bs - len rest).
Proof.
  intros Hb Hne Hl H [st [S [Hblk Hmin]]]. unfold spec_delta_length_decode in H. rewrite S in H.
  destruct (cut_spec _ _ _ _ H) as [C [AN [L LS]]].
  unfold delta_length_decode.
  assert (E0 : (len vs =? 0) = false) by (apply N.eqb_neq; destruct vs; [contradiction|unfold len; cbn [length]; lia]).
  rewrite E0. rewrite LS. rewrite LS in Hl.
  rewrite (delta32_decode_accepts bs st Hb S Hblk Hmin Hl), AN.
  destruct (spec_delta_decode_suffix _ _ _ S) as [p Ep].
  assert (Ls : len (ds_rest st) <= len bs) by (rewrite Ep, len_app; lia).
  assert (E2 : (len bs <? len bs - len (ds_rest st) + sumN (ds_values st)) = false) by (apply N.ltb_ge; lia).
  rewrite E2.
  assert (SK : skipn (N.to_nat (len bs - len (ds_rest st))) bs = ds_rest st).
  { rewrite Ep at 2. rewrite Ep at 1. rewrite len_app.
    replace (len p + len (ds_rest st) - len (ds_rest st)) with (len p) by lia.
    rewrite len_nat. apply skipn_app_exact. }
  rewrite SK, C. f_equal. f_equal. lia.
Qed.

(** C08 *)
Lemma cut_nofault ls : forall data, sumN ls <= len data -> exists ss, cut ls data = Ok ss /\ len ss = len ls.
Proof.
  induction ls as [|l t IH]; intros data H; [exists []; split; reflexivity|].
  cbn [sumN fold_right] in H. fold (sumN t) in H. cbn [cut]. rewrite take_some by (unfold len in H; lia).
  destruct (IH (skipn (N.to_nat l) data)) as [ss [C L]]; [unfold len in *; rewrite skipn_length; lia|].
  rewrite C. eexists; split; [reflexivity|]. unfold len in *. cbn [length]. lia.
Qed.

Theorem delta_length_decode_never_faults data count : forall f, delta_length_decode data count <> Fault f.
Proof.
  intros f. unfold delta_length_decode. destruct (count =? 0); [discriminate|].
  pose proof (delta32_decode_never_faults data count) as NF.
  destruct (delta_decode_int32 data count) as [[lens consumed]|c|e] eqn:D; [|discriminate|intros Q; apply (NF e); reflexivity].
  destruct (any_negative lens); [discriminate|].
  destruct (len data <? consumed + sumN lens) eqn:E; [discriminate|]. apply N.ltb_ge in E.
  destruct (cut_nofault lens (skipn (N.to_nat consumed) data)) as [ss [C _]]; [unfold len in *; rewrite skipn_length; lia|].
  rewrite C. discriminate.
Qed.

Theorem delta_length_decode_result_size data count ss c : delta_length_decode data count = Ok (ss, c) ->
  len ss = count /\ c <= len data.
Proof.
  unfold delta_length_decode. destruct (count =? 0); [discriminate|].
  destruct (delta_decode_int32 data count) as [[lens consumed]|c0|e] eqn:D; try discriminate.
  destruct (delta32_decode_result_size _ _ _ _ D) as [Ll Lc].
  destruct (any_negative lens); [discriminate|].
  destruct (len data <? consumed + sumN lens) eqn:E; [discriminate|]. apply N.ltb_ge in E.
  destruct (cut_nofault lens (skipn (N.to_nat consumed) data)) as [ss' [C L]]; [unfold len in *; rewrite skipn_length; lia|].
  rewrite C. intros H. injection H as <- <-. split; [rewrite L; exact Ll|exact E].
Qed.

(** ** DELTA_BYTE_ARRAY *)
Lemma common_prefix_le a b : (common_prefix a b <= length a)%nat /\ (common_prefix a b <= length b)%nat.
Proof.
  revert b. induction a as [|x a IH]; intros b; [cbn; lia|]. destruct b as [|y b]; [cbn; lia|].
  cbn [common_prefix length]. destruct (x =? y); [destruct (IH b); lia|lia].
Qed.

Lemma common_prefix_firstn a b : firstn (common_prefix a b) a = firstn (common_prefix a b) b.
Proof.
  revert b. induction a as [|x a IH]; intros b; [destruct b; reflexivity|]. destruct b as [|y b]; [reflexivity|].
  cbn [common_prefix]. destruct (N.eqb_spec x y) as [->|_]; [|reflexivity]. cbn [firstn]. f_equal. apply IH.
Qed.

Definition suffixes (ps : list nat) (vs : list (list N)) : list (list N) :=
  map (fun pv => skipn (fst pv) (snd pv)) (combine ps vs).

Lemma i32_of_len (s : list N) : len s < 2 ^ 31 -> i32_of (len s) = Z.of_N (len s).
Proof. apply i32_of_small. Qed.

Lemma u32_small x : x < 2 ^ 32 -> u32 x = x.
Proof. intros H. rewrite u32_mod. apply N.mod_small; exact H. Qed.

(** the reconstruction loop after the first string *)
Lemma rebuild_tail vs : forall pv woff work_cap rest, Forall str_ok vs -> len pv < 2 ^ 31 ->
  woff + len (concat vs) <= work_cap ->
  rebuild (map N.of_nat (prefixes pv vs)) (map len (suffixes (prefixes pv vs) vs))
          (concat (suffixes (prefixes pv vs) vs) ++ rest) (Some pv) woff work_cap = Ok vs.
Proof.
  induction vs as [|v t IH]; intros pv woff work_cap rest Hok Hpv Hcap; [reflexivity|].
  inversion Hok as [|? ? [Hvb Hvl] Ht]; subst.
  cbn [prefixes suffixes combine map fst snd concat] in *. fold (suffixes (prefixes v t) t).
  set (p := common_prefix pv v). destruct (common_prefix_le pv v) as [P1 P2]. fold p in P1, P2.
  assert (Ls : len (skipn p v) = len v - N.of_nat p) by (unfold len; rewrite skipn_length; lia).
  cbn [rebuild]. rewrite Ls.
  assert (Hsum : N.of_nat p + (len v - N.of_nat p) = len v) by (unfold len; lia).
  rewrite Hsum, u32_small by (eapply N.lt_trans; [exact Hvl|reflexivity]).
  rewrite len_app in Hcap.
  assert (E1 : (work_cap <? woff + len v) = false) by (apply N.ltb_ge; lia). rewrite E1.
  assert (PRE : (if 0 <? N.of_nat p
                 then if (Z.of_N (N.of_nat p) >? i32_of (len pv))%Z then Err ERR_DECODE
                      else match take (N.to_nat (N.of_nat p)) pv with Some (pre, _) => Ok pre | None => Fault OobRead end
                 else Ok []) = Ok (firstn p pv)).
  { destruct (0 <? N.of_nat p) eqn:E0.
    - rewrite i32_of_len by exact Hpv.
      assert (E2 : (Z.of_N (N.of_nat p) >? Z.of_N (len pv))%Z = false) by (rewrite Z.gtb_ltb; apply Z.ltb_ge; unfold len; lia).
      rewrite E2, Nat2N.id, take_some by lia. reflexivity.
    - apply N.ltb_ge in E0. assert (p = 0%nat) as -> by lia. reflexivity. }
  rewrite PRE. rewrite <- app_assoc.
  replace (N.to_nat (len v - N.of_nat p)) with (length (skipn p v)) by (rewrite skipn_length; unfold len; lia).
  rewrite take_app.
  assert (Estr : firstn p pv ++ skipn p v = v).
  { unfold p. rewrite common_prefix_firstn. apply firstn_skipn. }
  rewrite Estr. rewrite IH; [reflexivity|exact Ht|exact Hvl|lia].
Qed.

Lemma rebuild_tail0 vs pv woff work_cap : Forall str_ok vs -> len pv < 2 ^ 31 ->
  woff + len (concat vs) <= work_cap ->
  rebuild (map N.of_nat (prefixes pv vs)) (map len (suffixes (prefixes pv vs) vs))
          (concat (suffixes (prefixes pv vs) vs)) (Some pv) woff work_cap = Ok vs.
Proof.
  intros. rewrite <- (app_nil_r (concat (suffixes (prefixes pv vs) vs))). apply rebuild_tail; assumption.
Qed.

Lemma prefixes_length pv vs : length (prefixes pv vs) = length vs.
Proof. revert pv; induction vs; intros; cbn [prefixes length]; auto. Qed.

Lemma prefixes_u32 pv vs : Forall str_ok vs -> Forall u32v (map N.of_nat (prefixes pv vs)).
Proof.
  revert pv. induction vs as [|v t IH]; intros pv H; [constructor|]. inversion H as [|? ? [_ Hl] Ht]; subst.
  cbn [prefixes map]. constructor; [|apply IH; exact Ht].
  destruct (common_prefix_le pv v) as [_ P]. unfold u32v, len in *.
  assert (2 ^ 31 < 2 ^ 32) by reflexivity. lia.
Qed.

Lemma suffixes_ok ps vs : Forall str_ok vs -> Forall str_ok (suffixes ps vs).
Proof.
  revert ps. induction vs as [|v t IH]; intros ps H; [destruct ps; constructor|]. destruct ps as [|p ps]; [constructor|].
  inversion H as [|? ? [Hb Hl] Ht]; subst. cbn [suffixes combine map fst snd]. constructor; [|apply IH; exact Ht].
  split; [apply Forall_skipn; exact Hb|unfold len in *; rewrite skipn_length; lia].
Qed.

Lemma suffixes_length ps vs : length ps = length vs -> length (suffixes ps vs) = length vs.
Proof. intros H. unfold suffixes. rewrite map_length, combine_length. lia. Qed.

(** C11: whenever the encoder reports success, the decoder (with a work buffer that holds all strings) gives the
    strings back and consumes all bytes *)
Theorem delta_strings_roundtrip vs bs work_cap : vs <> [] -> Forall str_ok vs -> len vs < 2 ^ 31 ->
  len (concat vs) <= work_cap ->
  delta_strings_encode vs = Ok bs ->
  delta_strings_decode bs (len vs) work_cap = Ok (vs, len bs).
Proof.
  intros Hne Hok Hl Hcap H. unfold delta_strings_encode in H. destruct vs as [|v0 t] eqn:Ev; [contradiction|]. rewrite <- Ev in *.
  set (ps := prefix_lengths vs) in *. fold (suffixes ps vs) in H. set (sufs := suffixes ps vs) in *.
  destruct (delta_encode_int32 (map N.of_nat ps) (lengths_capacity (len vs))) as [pb|c|e] eqn:E1; try discriminate.
  destruct (delta_encode_int32 (map len sufs) (lengths_capacity (len vs))) as [sb|c|e] eqn:E2; try discriminate.
  injection H as <-. apply delta_encode_int32_ok in E1. apply delta_encode_int32_ok in E2. subst pb sb.
  assert (Lps : length ps = length vs) by (unfold ps; rewrite Ev; cbn [prefix_lengths length]; rewrite prefixes_length; reflexivity).
  assert (Lsf : length sufs = length vs) by (apply suffixes_length; exact Lps).
  assert (Hsok : Forall str_ok sufs) by (apply suffixes_ok; exact Hok).
  assert (Hpu : Forall u32v (map N.of_nat ps)).
  { unfold ps. rewrite Ev. cbn [prefix_lengths map]. constructor; [reflexivity|]. apply prefixes_u32. rewrite Ev in Hok. inversion Hok; assumption. }
  assert (Lp : len (map N.of_nat ps) = len vs) by (unfold len; rewrite map_length, Lps; reflexivity).
  assert (Lsl : len (map len sufs) = len vs) by (unfold len; rewrite map_length, Lsf; reflexivity).
  assert (Hpne : map N.of_nat ps <> []) by (unfold ps; rewrite Ev; discriminate).
  assert (Hsne : map len sufs <> []).
  { intros Q. apply (f_equal (@length N)) in Q. rewrite map_length, Lsf, Ev in Q. discriminate. }
  unfold delta_strings_decode.
  assert (E0 : (len vs =? 0) = false) by (apply N.eqb_neq; rewrite Ev; unfold len; cbn [length]; lia). rewrite E0.
  pose proof (delta32_roundtrip_rest (map N.of_nat ps) (delta_bytes_int32 (map len sufs) ++ concat sufs) Hpne Hpu
                ltac:(rewrite Lp; exact Hl) (bytes_app _ _ (delta_bytes_int32_ok _) (concat_bytes _ Hsok))) as R1.
  rewrite Lp in R1. rewrite R1. rewrite len_nat, skipn_app_exact.
  pose proof (delta32_roundtrip_rest (map len sufs) (concat sufs) Hsne (lens_u32 _ Hsok)
                ltac:(rewrite Lsl; exact Hl) (concat_bytes _ Hsok)) as R2.
  rewrite Lsl in R2. rewrite R2.
  assert (N1 : any_negative (map len sufs) = false).
  { apply any_negative_false. apply Forall_forall. intros l Hi. apply in_map_iff in Hi. destruct Hi as [s [<- Hs]].
    rewrite Forall_forall in Hsok. apply (Hsok s Hs). }
  assert (N2 : any_negative (map N.of_nat ps) = false).
  { apply any_negative_false. clear - Hok Ev. unfold ps. rewrite Ev. cbn [prefix_lengths map]. constructor; [reflexivity|].
    rewrite Ev in Hok. inversion Hok as [|? ? _ Ht]; subst. clear - Ht. revert v0. induction Ht as [|v t [_ Hl] _ IH]; intros v0; [constructor|].
    cbn [prefixes map]. constructor; [|apply IH]. destruct (common_prefix_le v0 v) as [_ P]. unfold len in Hl. lia. }
  rewrite N1, N2. cbn [orb]. rewrite sumN_lens, !len_app.
  assert (E3 : (len (delta_bytes_int32 (map N.of_nat ps)) + (len (delta_bytes_int32 (map len sufs)) + len (concat sufs)) <?
                len (delta_bytes_int32 (map N.of_nat ps)) + len (delta_bytes_int32 (map len sufs)) + len (concat sufs)) = false)
    by (apply N.ltb_ge; lia).
  rewrite E3. rewrite len_nat, skipn_app_exact.
  (* the first string has prefix 0, then the tail loop *)
  unfold sufs, ps. rewrite Ev. cbn [prefix_lengths suffixes combine map fst snd concat].
  fold (suffixes (prefixes v0 t) t). change (skipn 0 v0) with v0.
  rewrite Ev in Hok. inversion Hok as [|? ? [Hb0 Hl0] Ht]; subst.
  cbn [rebuild]. change (N.of_nat 0 + len v0) with (0 + len v0). rewrite N.add_0_l, u32_small by (eapply N.lt_trans; [exact Hl0|reflexivity]).
  cbn [concat] in Hcap. rewrite len_app in Hcap.
  assert (E4 : (work_cap <? 0 + len v0) = false) by (apply N.ltb_ge; lia). rewrite E4.
  change (0 <? N.of_nat 0) with false. cbv iota. rewrite len_nat.
  rewrite take_app. cbn [app].
  rewrite (rebuild_tail0 t v0 (0 + len v0) work_cap); [|exact Ht|exact Hl0|lia].
  f_equal. f_equal. lia.
Qed.

Example delta_strings_roundtrip_ex :
  match delta_strings_encode [[97;98]; [97;98;99]; [97]] with
  | Ok bs => delta_strings_decode bs 3 6 = Ok ([[97;98]; [97;98;99]; [97]], len bs)
  | _ => False
  end.
Proof. vm_compute. reflexivity. Qed.

Theorem delta_strings_empty data cap : delta_strings_encode [] = Err ERR_INVALID_ARGUMENT /\
  delta_strings_decode data 0 cap = Err ERR_INVALID_ARGUMENT.
Proof. split; reflexivity. Qed.

(** C08 *)
Lemma i32_of_le x : (i32_of x <= Z.of_N x)%Z.
Proof.
  unfold i32_of. rewrite u32_mod. pose proof (N.mod_le x (2 ^ 32) ltac:(discriminate)).
  pose proof (N.mod_lt x (2 ^ 32) ltac:(discriminate)). change (2 ^ 32)%Z with 4294967296%Z.
  destruct (x mod 2 ^ 32 <? 2 ^ 31); lia.
Qed.

Lemma rebuild_nofault pls : forall sls sufdata prev woff cap, sumN sls <= len sufdata ->
  (forall f, rebuild pls sls sufdata prev woff cap <> Fault f) /\
  (forall ss, rebuild pls sls sufdata prev woff cap = Ok ss -> (length ss <= length pls)%nat).
Proof.
  induction pls as [|p pt IH]; intros sls sufdata prev woff cap H.
  - split; [intros f; discriminate|]. intros ss Q. cbn in Q. injection Q as <-. cbn; lia.
  - destruct sls as [|s st]; [split; [intros f; discriminate|intros ss Q; cbn in Q; injection Q as <-; cbn; lia]|].
    cbn [sumN fold_right] in H. fold (sumN st) in H. cbn [rebuild].
    destruct (cap <? woff + u32 (p + s)); [split; [intros f; discriminate|intros; discriminate]|].
    assert (PRE : exists r, (if 0 <? p
                 then match prev with
                      | None => Err ERR_DECODE
                      | Some pv => if (Z.of_N p >? i32_of (len pv))%Z then Err ERR_DECODE
                                   else match take (N.to_nat p) pv with Some (pre, _) => Ok pre | None => Fault OobRead end
                      end
                 else Ok []) = r /\ forall f, r <> Fault f).
    { eexists. split; [reflexivity|]. intros f. destruct (0 <? p); [|discriminate]. destruct prev as [pv|]; [|discriminate].
      destruct (Z.of_N p >? i32_of (len pv))%Z eqn:E; [discriminate|]. rewrite Z.gtb_ltb in E. apply Z.ltb_ge in E.
      pose proof (i32_of_le (len pv)). rewrite take_some by (unfold len in *; lia). discriminate. }
    destruct PRE as [r [-> NF]]. destruct r as [pre|c|e]; [|split; [intros f; discriminate|intros; discriminate]|exfalso; apply (NF e); reflexivity].
    rewrite take_some by (unfold len in H; lia).
    destruct (IH st (skipn (N.to_nat s) sufdata) (Some (pre ++ firstn (N.to_nat s) sufdata)) (woff + u32 (p + s)) cap) as [NF2 SZ].
    { unfold len in *. rewrite skipn_length. lia. }
    destruct (rebuild pt st _ _ _ cap) as [more|c|e].
    + split; [intros f; discriminate|]. intros ss Q. injection Q as <-. cbn [length]. specialize (SZ _ eq_refl). lia.
    + split; [intros f; discriminate|intros; discriminate].
    + exfalso. apply (NF2 e). reflexivity.
Qed.

Theorem delta_strings_decode_never_faults data count cap : forall f, delta_strings_decode data count cap <> Fault f.
Proof.
  intros f. unfold delta_strings_decode. destruct (count =? 0); [discriminate|].
  pose proof (delta32_decode_never_faults data count) as NF1.
  destruct (delta_decode_int32 data count) as [[pls c1]|c|e] eqn:D1; [|discriminate|intros Q; apply (NF1 e); reflexivity].
  destruct (delta32_decode_result_size _ _ _ _ D1) as [_ L1].
  pose proof (delta32_decode_never_faults (skipn (N.to_nat c1) data) count) as NF2.
  destruct (delta_decode_int32 (skipn (N.to_nat c1) data) count) as [[sls c2]|c|e] eqn:D2; [|discriminate|intros Q; apply (NF2 e); reflexivity].
  destruct (delta32_decode_result_size _ _ _ _ D2) as [_ L2].
  destruct (any_negative sls || any_negative pls); [discriminate|].
  destruct (len data <? c1 + c2 + sumN sls) eqn:E; [discriminate|]. apply N.ltb_ge in E.
  destruct (rebuild_nofault pls sls (skipn (N.to_nat c2) (skipn (N.to_nat c1) data)) None 0 cap) as [NF3 _].
  { unfold len in *. rewrite !skipn_length. rewrite skipn_length in L2. lia. }
  destruct (rebuild pls sls _ None 0 cap) as [ss|c|e]; [discriminate|discriminate|]. intros Q. apply (NF3 e). reflexivity.
Qed.

Theorem delta_strings_decode_result_size data count cap ss c : delta_strings_decode data count cap = Ok (ss, c) ->
  len ss <= count /\ c <= len data.
Proof.
  unfold delta_strings_decode. destruct (count =? 0); [discriminate|].
  destruct (delta_decode_int32 data count) as [[pls c1]|c0|e] eqn:D1; try discriminate.
  destruct (delta32_decode_result_size _ _ _ _ D1) as [P1 L1].
  destruct (delta_decode_int32 (skipn (N.to_nat c1) data) count) as [[sls c2]|c0|e] eqn:D2; try discriminate.
  destruct (delta32_decode_result_size _ _ _ _ D2) as [P2 L2].
  destruct (any_negative sls || any_negative pls); [discriminate|].
  destruct (len data <? c1 + c2 + sumN sls) eqn:E; [discriminate|]. apply N.ltb_ge in E.
  destruct (rebuild_nofault pls sls (skipn (N.to_nat c2) (skipn (N.to_nat c1) data)) None 0 cap) as [_ SZ].
  { unfold len in *. rewrite !skipn_length. rewrite skipn_length in L2. lia. }
  destruct (rebuild pls sls _ None 0 cap) as [ss'|c0|e]; try discriminate.
  intros H. injection H as <- <-. specialize (SZ _ eq_refl). split; [unfold len in *; lia|exact E].
Qed.

(** ** C12 for DELTA_BYTE_ARRAY *)
Lemma spec_join_tail vs : forall prev, Forall str_ok vs ->
  spec_join prev (map N.of_nat (prefixes prev vs)) (suffixes (prefixes prev vs) vs) = Some vs.
Proof.
  induction vs as [|v t IH]; intros prev H; [reflexivity|]. inversion H as [|? ? _ Ht]; subst.
  cbn [prefixes suffixes combine map fst snd spec_join]. fold (suffixes (prefixes v t) t).
  destruct (common_prefix_le prev v) as [P1 P2].
  assert (E : (len prev <? N.of_nat (common_prefix prev v)) = false) by (apply N.ltb_ge; unfold len; lia).
  rewrite E, Nat2N.id. rewrite common_prefix_firstn, firstn_skipn. rewrite IH by exact Ht. reflexivity.
Qed.

(** the encoder's output is read back by the reference decoder *)
Theorem delta_strings_encode_conforms vs bs : vs <> [] -> Forall str_ok vs -> len vs < 2 ^ 31 ->
  delta_strings_encode vs = Ok bs -> spec_delta_strings_decode bs = Some (vs, []).
Proof.
  intros Hne Hok Hl H. unfold delta_strings_encode in H. destruct vs as [|v0 t] eqn:Ev; [contradiction|]. rewrite <- Ev in *.
  set (ps := prefix_lengths vs) in *. fold (suffixes ps vs) in H. set (sufs := suffixes ps vs) in *.
  destruct (delta_encode_int32 (map N.of_nat ps) (lengths_capacity (len vs))) as [pb|c|e] eqn:E1; try discriminate.
  destruct (delta_encode_int32 (map len sufs) (lengths_capacity (len vs))) as [sb|c|e] eqn:E2; try discriminate.
  injection H as <-. apply delta_encode_int32_ok in E1. apply delta_encode_int32_ok in E2. subst pb sb.
  assert (Lps : length ps = length vs) by (unfold ps; rewrite Ev; cbn [prefix_lengths length]; rewrite prefixes_length; reflexivity).
  assert (Lsf : length sufs = length vs) by (apply suffixes_length; exact Lps).
  assert (Hsok : Forall str_ok sufs) by (apply suffixes_ok; exact Hok).
  assert (Hpu : Forall u32v (map N.of_nat ps)).
  { unfold ps. rewrite Ev. cbn [prefix_lengths map]. constructor; [reflexivity|]. apply prefixes_u32. rewrite Ev in Hok. inversion Hok; assumption. }
  assert (Lp : len (map N.of_nat ps) = len vs) by (unfold len; rewrite map_length, Lps; reflexivity).
  assert (Lsl : len (map len sufs) = len vs) by (unfold len; rewrite map_length, Lsf; reflexivity).
  assert (Hpne : map N.of_nat ps <> []) by (unfold ps; rewrite Ev; discriminate).
  assert (Hsne : map len sufs <> []).
  { intros Q. apply (f_equal (@length N)) in Q. rewrite map_length, Lsf, Ev in Q. discriminate. }
  assert (HW : len vs < W64) by (eapply N.lt_trans; [exact Hl|apply pow31_lt]).
  unfold spec_delta_strings_decode.
  rewrite (delta32_encode_conforms_rest _ (delta_bytes_int32 (map len sufs) ++ concat sufs) Hpne Hpu ltac:(rewrite Lp; exact HW)).
  cbn [ds_values ds_rest]. unfold spec_delta_length_decode.
  rewrite (delta32_encode_conforms_rest _ (concat sufs) Hsne (lens_u32 _ Hsok) ltac:(rewrite Lsl; exact HW)).
  cbn [ds_values ds_rest]. rewrite <- (app_nil_r (concat sufs)), (spec_cut_concat sufs [] Hsok).
  unfold sufs, ps. rewrite Ev. cbn [prefix_lengths suffixes combine map fst snd]. fold (suffixes (prefixes v0 t) t).
  change (skipn 0 v0) with v0. cbn [spec_join]. change (len [] <? N.of_nat 0) with false. cbv iota.
  change (firstn (N.to_nat (N.of_nat 0)) []) with (@nil N). cbn [app].
  rewrite Ev in Hok. inversion Hok as [|? ? _ Ht]; subst. rewrite spec_join_tail by exact Ht. reflexivity.
Qed.

Lemma spec_cut_struct ls : forall data ss rest, spec_cut ls data = Some (ss, rest) ->
  data = concat ss ++ rest /\ map len ss = ls /\ Forall (fun l => l < 2 ^ 31) ls.
Proof.
  induction ls as [|l t IH]; intros data ss rest H.
  - injection H as <- <-. repeat split; constructor.
  - cbn [spec_cut] in H. destruct (2 ^ 31 <=? l) eqn:E; [discriminate|]. apply N.leb_gt in E.
    destruct (take (N.to_nat l) data) as [[s r]|] eqn:T; [|discriminate].
    destruct (spec_cut t r) as [[ss' r']|] eqn:SC; [|discriminate]. injection H as <- <-.
    destruct (IH _ _ _ SC) as [-> [M F]]. destruct (take_spec _ _ _ _ T) as [-> Ls].
    cbn [concat map]. rewrite <- app_assoc. repeat split; [|constructor; assumption].
    f_equal; [unfold len; lia|exact M].
Qed.

Definition prev_matches (prevo : option (list N)) (prevl : list N) : Prop :=
  match prevo with Some pv => pv = prevl | None => prevl = [] end.

Lemma rebuild_join ps : forall sufs prevl prevo strs woff cap rest, spec_join prevl ps sufs = Some strs ->
  prev_matches prevo prevl -> len prevl < 2 ^ 31 -> Forall (fun s => len s < 2 ^ 31) strs ->
  woff + len (concat strs) <= cap ->
  rebuild ps (map len sufs) (concat sufs ++ rest) prevo woff cap = Ok strs /\ Forall (fun p => p < 2 ^ 31) ps.
Proof.
  induction ps as [|p pt IH]; intros sufs prevl prevo strs woff cap rest H PM Hpl Hs Hcap.
  - destruct sufs; [|discriminate]. injection H as <-. split; [reflexivity|constructor].
  - destruct sufs as [|s st]; [discriminate|]. cbn [spec_join] in H.
    destruct (len prevl <? p) eqn:E; [discriminate|]. apply N.ltb_ge in E.
    destruct (spec_join (firstn (N.to_nat p) prevl ++ s) pt st) as [r|] eqn:SJ; [|discriminate]. injection H as <-.
    inversion Hs as [|? ? Hstr Hr]; subst. cbn [concat] in Hcap. rewrite len_app in Hcap.
    assert (Lstr : len (firstn (N.to_nat p) prevl ++ s) = p + len s).
    { rewrite len_app. unfold len at 1. rewrite firstn_length. unfold len in E. lia. }
    rewrite Lstr in *. cbn [map concat rebuild].
    rewrite u32_small by (eapply N.lt_trans; [exact Hstr|reflexivity]).
    assert (E1 : (cap <? woff + (p + len s)) = false) by (apply N.ltb_ge; lia). rewrite E1.
    assert (PRE : (if 0 <? p
                   then match prevo with
                        | None => Err ERR_DECODE
                        | Some pv => if (Z.of_N p >? i32_of (len pv))%Z then Err ERR_DECODE
                                     else match take (N.to_nat p) pv with Some (pre, _) => Ok pre | None => Fault OobRead end
                        end
                   else Ok []) = Ok (firstn (N.to_nat p) prevl)).
    { destruct (0 <? p) eqn:E0.
      - apply N.ltb_lt in E0. destruct prevo as [pv|]; cbn [prev_matches] in PM.
        + subst pv. rewrite i32_of_len by exact Hpl.
          assert (E2 : (Z.of_N p >? Z.of_N (len prevl))%Z = false) by (rewrite Z.gtb_ltb; apply Z.ltb_ge; lia).
          rewrite E2, take_some by (unfold len in E; lia). reflexivity.
        + subst prevl. unfold len in E. cbn [length] in E. lia.
      - apply N.ltb_ge in E0. assert (p = 0) as -> by lia. reflexivity. }
    rewrite PRE. rewrite <- app_assoc, len_nat, take_app.
    destruct (IH st (firstn (N.to_nat p) prevl ++ s) (Some (firstn (N.to_nat p) prevl ++ s)) r (woff + (p + len s)) cap rest SJ
                eq_refl ltac:(rewrite Lstr; exact Hstr) Hr ltac:(lia)) as [RB FP].
    rewrite RB. split; [reflexivity|]. constructor; [lia|exact FP].
Qed.

Lemma spec_join_length prev ps : forall sufs strs, spec_join prev ps sufs = Some strs ->
  length strs = length ps /\ length sufs = length ps.
Proof.
  revert prev. induction ps as [|p pt IH]; intros prev sufs strs H.
  - destruct sufs; [|discriminate]. injection H as <-. split; reflexivity.
  - destruct sufs as [|s st]; [discriminate|]. cbn [spec_join] in H. destruct (len prev <? p); [discriminate|].
    destruct (spec_join _ pt st) as [r|] eqn:SJ; [|discriminate]. injection H as <-.
    destruct (IH _ _ _ SJ). cbn [length]. split; lia.
Qed.

(** the decoder accepts every stream the reference decoder accepts (both length streams at geometry 128/4; a work
    buffer that holds all strings) *)
Theorem delta_strings_decode_accepts bs vs rest work_cap : bytes bs -> vs <> [] -> len vs < 2 ^ 31 ->
  Forall (fun s => len s < 2 ^ 31) vs -> len (concat vs) <= work_cap ->
  spec_delta_strings_decode bs = Some (vs, rest) ->
  (exists st1 st2, spec_delta_decode 32 bs = Some st1 /\ ds_block st1 = 128 /\ ds_minis st1 = 4 /\
                   spec_delta_decode 32 (ds_rest st1) = Some st2 /\ ds_block st2 = 128 /\ ds_minis st2 = 4) ->
  delta_strings_decode bs (len vs) work_cap = Ok (vs, len bs - len rest).
Proof.
  intros Hb Hne Hl Hs Hcap H [st1 [st2 [S1 [B1 [M1 [S2 [B2 M2]]]]]]].
  unfold spec_delta_strings_decode in H. rewrite S1 in H. unfold spec_delta_length_decode in H. rewrite S2 in H.
  destruct (spec_cut (ds_values st2) (ds_rest st2)) as [[sufs r]|] eqn:SC; [|discriminate].
  destruct (spec_join [] (ds_values st1) sufs) as [strs|] eqn:SJ; [|discriminate]. injection H as <- <-.
  destruct (spec_join_length _ _ _ _ SJ) as [L1 L2].
  destruct (spec_cut_struct _ _ _ _ SC) as [Er2 [Ml Fl]].
  destruct (spec_delta_decode_suffix _ _ _ S1) as [p1 Ep1]. destruct (spec_delta_decode_suffix _ _ _ S2) as [p2 Ep2].
  assert (Hb1 : bytes (ds_rest st1)) by (rewrite Ep1 in Hb; eapply bytes_app_r; exact Hb).
  assert (Lv1 : len (ds_values st1) = len strs) by (unfold len; rewrite L1; reflexivity).
  assert (Lv2 : len (ds_values st2) = len strs).
  { rewrite <- Ml. unfold len. rewrite map_length, L2, L1. reflexivity. }
  unfold delta_strings_decode.
  assert (E0 : (len strs =? 0) = false) by (apply N.eqb_neq; destruct strs; [contradiction|unfold len; cbn [length]; lia]).
  rewrite E0. rewrite <- Lv1.
  rewrite (delta32_decode_accepts bs st1 Hb S1 B1 M1 ltac:(rewrite Lv1; exact Hl)).
  assert (SK1 : skipn (N.to_nat (len bs - len (ds_rest st1))) bs = ds_rest st1).
  { rewrite Ep1 at 2. rewrite Ep1 at 1. rewrite len_app.
    replace (len p1 + len (ds_rest st1) - len (ds_rest st1)) with (len p1) by lia. rewrite len_nat. apply skipn_app_exact. }
  rewrite SK1. rewrite Lv1, <- Lv2.
  rewrite (delta32_decode_accepts _ st2 Hb1 S2 B2 M2 ltac:(rewrite Lv2; exact Hl)).
  assert (SK2 : skipn (N.to_nat (len (ds_rest st1) - len (ds_rest st2))) (ds_rest st1) = ds_rest st2).
  { rewrite Ep2 at 2. rewrite Ep2 at 1. rewrite len_app.
    replace (len p2 + len (ds_rest st2) - len (ds_rest st2)) with (len p2) by lia. rewrite len_nat. apply skipn_app_exact. }
  rewrite SK2.
  destruct (rebuild_join (ds_values st1) sufs [] None strs 0 work_cap r SJ eq_refl ltac:(reflexivity) Hs ltac:(lia)) as [RB FP].
  rewrite (any_negative_false _ Fl), (any_negative_false _ FP). cbn [orb].
  assert (Lb : len bs = len p1 + len (ds_rest st1)) by (rewrite Ep1 at 1; apply len_app).
  assert (Lr1 : len (ds_rest st1) = len p2 + len (ds_rest st2)) by (rewrite Ep2 at 1; apply len_app).
  assert (Lr2 : len (ds_rest st2) = sumN (ds_values st2) + len r).
  { rewrite Er2 at 1. rewrite len_app, <- Ml, sumN_lens. reflexivity. }
  assert (E3 : (len bs <? len bs - len (ds_rest st1) + (len (ds_rest st1) - len (ds_rest st2)) + sumN (ds_values st2)) = false)
    by (apply N.ltb_ge; lia).
  rewrite E3. rewrite Er2 at 1. rewrite <- Ml at 1. rewrite RB. f_equal. f_equal. lia.
Qed.
