(** Proofs about DELTA_LENGTH_BYTE_ARRAY (Enc/DeltaLenModel.v) and DELTA_BYTE_ARRAY (Enc/DeltaStrModel.v):
    round trips with byte counts (C11), agreement with the reference decoders of Enc/DeltaSpec.v (C12),
    never-fault lemmas (C08). *)
From Coq Require Import NArith ZArith List Bool Lia ZifyBool ZifyNat ZifyN.
From Carquet Require Import Base.Res Enc.DeltaBits Enc.DeltaSpec Enc.DeltaModel Enc.DeltaArith Enc.DeltaProofs
  Enc.DeltaLenModel Enc.DeltaStrModel.
Import ListNotations.
Local Open Scope N_scope.
Ltac Zify.zify_post_hook ::= Z.div_mod_to_equations.
Local Arguments N.mul : simpl never.
Local Arguments N.add : simpl never.
Local Arguments N.sub : simpl never.
Local Arguments N.pow : simpl never.
Local Arguments N.div : simpl never.
Local Arguments N.ltb : simpl never.
Local Arguments N.leb : simpl never.
Local Arguments N.to_nat : simpl never.
Local Arguments N.of_nat : simpl never.

(** a byte array as carquet can hold it: bytes, int32_t length *)
Definition str_ok (s : list N) : Prop := bytes s /\ len s < 2 ^ 31.

Lemma len_app {A} (a b : list A) : len (a ++ b) = len a + len b.
Proof. unfold len. rewrite app_length. lia. Qed.

Lemma len_nat {A} (l : list A) : N.to_nat (len l) = length l.
Proof. unfold len. apply Nat2N.id. Qed.

Lemma concat_bytes vs : Forall str_ok vs -> bytes (concat vs).
Proof.
  intros H. induction H as [|s t [Hs _] _ IH]; [constructor|]. cbn [concat]. apply bytes_app; assumption.
Qed.

Lemma lens_u32 vs : Forall str_ok vs -> Forall u32v (map len vs).
Proof.
  intros H. induction H as [|s t [_ Hs] _ IH]; [constructor|]. cbn [map]. constructor; [|exact IH].
  unfold u32v. eapply N.lt_trans; [exact Hs|reflexivity].
Qed.

Lemma any_negative_false ls : Forall (fun l => l < 2 ^ 31) ls -> any_negative ls = false.
Proof.
  intros H. induction H as [|l t Hl _ IH]; [reflexivity|]. unfold any_negative in *. cbn [existsb].
  rewrite IH. assert (E : (2 ^ 31 <=? l) = false) by (apply N.leb_gt; exact Hl). rewrite E. reflexivity.
Qed.

Lemma sumN_lens (vs : list (list N)) : sumN (map len vs) = len (concat vs).
Proof. induction vs as [|s t IH]; [reflexivity|]. cbn [map sumN fold_right concat]. fold (sumN (map len t)). rewrite IH, len_app. reflexivity. Qed.

Lemma cut_concat (vs : list (list N)) rest : cut (map len vs) (concat vs ++ rest) = Ok vs.
Proof.
  induction vs as [|s t IH]; [reflexivity|]. cbn [map cut concat]. rewrite <- app_assoc, len_nat, take_app, IH. reflexivity.
Qed.

Lemma skipn_app_exact {A} (a b : list A) : skipn (length a) (a ++ b) = b.
Proof. induction a; [reflexivity|]. cbn [length app skipn]. assumption. Qed.

(** ** DELTA_LENGTH_BYTE_ARRAY *)
(** C11: whenever the encoder reports success the decoder gives the byte arrays back and consumes all bytes *)
Theorem delta_length_roundtrip vs bs : vs <> [] -> Forall str_ok vs -> len vs < 2 ^ 31 ->
  delta_length_encode vs = Ok bs ->
  delta_length_decode bs (len vs) = Ok (vs, len bs).
Proof.
  intros Hne Hok Hl H. unfold delta_length_encode in H. destruct vs as [|s0 t] eqn:Ev; [contradiction|]. rewrite <- Ev in *.
  destruct (delta_encode_int32 (map len vs) (lengths_capacity (len vs))) as [lens|c|e] eqn:E; try discriminate.
  injection H as <-. apply delta_encode_int32_ok in E. subst lens.
  unfold delta_length_decode.
  assert (E0 : (len vs =? 0) = false) by (apply N.eqb_neq; rewrite Ev; unfold len; cbn [length]; lia). rewrite E0.
  assert (Lm : len (map len vs) = len vs) by (unfold len; rewrite map_length; reflexivity).
  assert (Hmne : map len vs <> []) by (rewrite Ev; discriminate).
  pose proof (delta32_roundtrip_rest (map len vs) (concat vs) Hmne (lens_u32 vs Hok) ltac:(rewrite Lm; exact Hl) (concat_bytes vs Hok)) as R.
  rewrite Lm in R. rewrite R.
  assert (Hneg : any_negative (map len vs) = false).
  { apply any_negative_false. apply Forall_forall. intros l Hi. apply in_map_iff in Hi. destruct Hi as [s [<- Hs]].
    rewrite Forall_forall in Hok. apply (Hok s Hs). }
  rewrite Hneg, sumN_lens, len_app, N.ltb_irrefl, len_nat, skipn_app_exact.
  rewrite <- (app_nil_r (concat vs)), cut_concat. reflexivity.
Qed.

Example delta_length_roundtrip_ex :
  delta_length_encode [[97;98]; []; [99]] = Ok [128;1;4;3;4;3;2;0;0;0;12;0;0;0;0;0;0;0;97;98;99] /\
  delta_length_decode [128;1;4;3;4;3;2;0;0;0;12;0;0;0;0;0;0;0;97;98;99] 3 = Ok ([[97;98]; []; [99]], 21).
Proof. split; vm_compute; reflexivity. Qed.

(** zero values are refused by both entry points *)
Theorem delta_length_empty data : delta_length_encode [] = Err ERR_INVALID_ARGUMENT /\
  delta_length_decode data 0 = Err ERR_INVALID_ARGUMENT.
Proof. split; reflexivity. Qed.

(** C12: the encoder's output is read back by the reference decoder *)
Lemma spec_cut_concat vs rest : Forall str_ok vs -> spec_cut (map len vs) (concat vs ++ rest) = Some (vs, rest).
Proof.
  intros H. induction H as [|s t [_ Hs] _ IH]; [reflexivity|]. cbn [map spec_cut concat].
  assert (E : (2 ^ 31 <=? len s) = false) by (apply N.leb_gt; exact Hs). rewrite E.
  rewrite <- app_assoc, len_nat, take_app, IH. reflexivity.
Qed.

Theorem delta_length_encode_conforms vs bs : vs <> [] -> Forall str_ok vs -> len vs < 2 ^ 31 ->
  delta_length_encode vs = Ok bs -> spec_delta_length_decode bs = Some (vs, []).
Proof.
  intros Hne Hok Hl H. unfold delta_length_encode in H. destruct vs as [|s0 t] eqn:Ev; [contradiction|]. rewrite <- Ev in *.
  destruct (delta_encode_int32 (map len vs) (lengths_capacity (len vs))) as [lens|c|e] eqn:E; try discriminate.
  injection H as <-. apply delta_encode_int32_ok in E. subst lens.
  assert (Lm : len (map len vs) = len vs) by (unfold len; rewrite map_length; reflexivity).
  assert (Hmne : map len vs <> []) by (rewrite Ev; discriminate).
  unfold spec_delta_length_decode.
  rewrite (delta32_encode_conforms_rest (map len vs) (concat vs) Hmne (lens_u32 vs Hok)
             ltac:(rewrite Lm; eapply N.lt_trans; [exact Hl|apply pow31_lt])).
  cbn [ds_values ds_rest]. rewrite <- (app_nil_r (concat vs)). apply spec_cut_concat. exact Hok.
Qed.

(** C12: the decoder accepts every stream the reference decoder accepts *)
Lemma cut_spec ls : forall data ss rest, spec_cut ls data = Some (ss, rest) ->
  cut ls data = Ok ss /\ any_negative ls = false /\ len data = sumN ls + len rest /\ len ss = len ls.
Proof.
  induction ls as [|l t IH]; intros data ss rest H.
  - injection H as <- <-. repeat split; reflexivity.
  - cbn [spec_cut] in H. destruct (2 ^ 31 <=? l) eqn:E; [discriminate|].
    destruct (take (N.to_nat l) data) as [[s r]|] eqn:T; [|discriminate].
    destruct (spec_cut t r) as [[ss' r']|] eqn:SC; [|discriminate]. injection H as <- <-.
    destruct (IH _ _ _ SC) as [C [AN [L LS]]]. cbn [cut]. rewrite T, C.
    destruct (take_spec _ _ _ _ T) as [-> Ls].
    repeat split.
    + unfold any_negative in *. cbn [existsb]. rewrite E, AN. reflexivity.
    + rewrite len_app, L. cbn [sumN fold_right]. fold (sumN t). unfold len at 1. rewrite Ls. lia.
    + unfold len in *. cbn [length]. lia.
Qed.

Lemma spec_minis_suffix mw per md ws : forall q last r v q' l r',
  spec_minis mw per md ws q last r = Some (v, q', l, r') -> exists x, q = x ++ q'.
Proof.
  induction ws as [|w ws' IH]; intros q last r v q' l r' SM.
  - cbn in SM. injection SM as E1 E2 E3 E4. subst. exists []. reflexivity.
  - cbn [spec_minis] in SM. destruct r; [injection SM as E1 E2 E3 E4; subst; exists []; reflexivity|].
    destruct (mw <? w); [discriminate|]. destruct (take _ q) as [[bs0 p1]|] eqn:T; [|discriminate].
    destruct (spec_sums last md _) as [vv ll].
    destruct (spec_minis mw per md ws' p1 ll _) as [[[[mo p2] l2] r2]|] eqn:SM2; [|discriminate].
    injection SM as E1 E2 E3 E4. subst. apply IH in SM2. destruct SM2 as [y ->].
    destruct (take_spec _ _ _ _ T) as [-> _]. exists (bs0 ++ y). rewrite <- app_assoc. reflexivity.
Qed.

Lemma spec_blocks_suffix mw per minis : forall fuel q last r v q',
  spec_blocks fuel mw per minis q last r = Some (v, q') -> exists x, q = x ++ q'.
Proof.
  induction fuel; intros q last r v q' SB.
  - destruct r; [|discriminate]. cbn in SB. injection SB as E1 E2. subst. exists []. reflexivity.
  - destruct r as [|r0]; [cbn in SB; injection SB as E1 E2; subst; exists []; reflexivity|]. cbn [spec_blocks] in SB.
    unfold read_zigzag in SB. destruct (read_uleb q) as [[zz q1]|] eqn:Q1; [|discriminate].
    destruct (take minis q1) as [[ws q2]|] eqn:T; [|discriminate].
    destruct (spec_minis mw per (unzigzag zz) ws q2 last (S r0)) as [[[[v1 q3] l1] r1]|] eqn:SM; [|discriminate].
    destruct (spec_blocks fuel mw per minis q3 l1 r1) as [[more q4]|] eqn:SB2; [|discriminate].
    injection SB as E1 E2. subst. apply IHfuel in SB2. destruct SB2 as [x3 ->].
    apply spec_minis_suffix in SM. destruct SM as [x2 ->].
    destruct (read_uleb_suffix _ _ _ Q1) as [x0 [-> _]]. destruct (take_spec _ _ _ _ T) as [-> _].
    exists (x0 ++ ws ++ x2 ++ x3). rewrite <- !app_assoc. reflexivity.
Qed.

Lemma spec_delta_decode_suffix bits bs st : spec_delta_decode bits bs = Some st -> exists p, bs = p ++ ds_rest st.
Proof.
  intros S. unfold spec_delta_decode in S.
  destruct (read_uleb bs) as [[a r1]|] eqn:R1; [|discriminate]. destruct (read_uleb r1) as [[b r2]|] eqn:R2; [|discriminate].
  destruct (negb (legal_geometry a b)); [discriminate|]. destruct (read_uleb r2) as [[c r3]|] eqn:R3; [|discriminate].
  unfold read_zigzag in S. destruct (read_uleb r3) as [[d r4]|] eqn:R4; [|discriminate].
  destruct (read_uleb_suffix _ _ _ R1) as [p1 [-> _]]. destruct (read_uleb_suffix _ _ _ R2) as [p2 [-> _]].
  destruct (read_uleb_suffix _ _ _ R3) as [p3 [-> _]]. destruct (read_uleb_suffix _ _ _ R4) as [p4 [-> _]].
  destruct (c =? 0); [injection S as <-; cbn [ds_rest]; exists (p1 ++ p2 ++ p3 ++ p4); rewrite <- !app_assoc; reflexivity|].
  destruct (spec_blocks _ _ _ _ r4 _ _) as [[vals rest]|] eqn:SB; [|discriminate]. injection S as <-. cbn [ds_rest].
  apply spec_blocks_suffix in SB. destruct SB as [q ->].
  exists (p1 ++ p2 ++ p3 ++ p4 ++ q). rewrite <- !app_assoc. reflexivity.
Qed.

Theorem delta_length_decode_accepts bs vs rest : bytes bs -> vs <> [] -> len vs < 2 ^ 31 ->
  spec_delta_length_decode bs = Some (vs, rest) ->
  (exists st, spec_delta_decode 32 bs = Some st /\ ds_block st = 128 /\ ds_minis st = 4) ->
  delta_length_decode bs (len vs) = Ok (vs, len bs - len rest).
Proof.
  intros Hb Hne Hl H [st [S [Hblk Hmin]]]. unfold spec_delta_length_decode in H. rewrite S in H.
  destruct (cut_spec _ _ _ _ H) as [C [AN [L LS]]].
  unfold delta_length_decode.
  assert (E0 : (len vs =? 0) = false) by (apply N.eqb_neq; destruct vs; [contradiction|unfold len; cbn [length]; lia]).
  rewrite E0. rewrite LS. rewrite LS in Hl.
  rewrite (delta32_decode_accepts bs st Hb S Hblk Hmin Hl), AN.
  destruct (spec_delta_decode_suffix _ _ _ S) as [p Ep].
  assert (Ls : len (ds_rest st) <= len bs) by (rewrite Ep, len_app; lia).
  assert (E2 : (len bs <? len bs - len (ds_rest st) + sumN (ds_values st)) = false) by (apply N.ltb_ge; lia).
  rewrite E2.
  assert (SK : skipn (N.to_nat (len bs - len (ds_rest st))) bs = ds_rest st).
  { rewrite Ep at 2. rewrite Ep at 1. rewrite len_app.
    replace (len p + len (ds_rest st) - len (ds_rest st)) with (len p) by lia.
    rewrite len_nat. apply skipn_app_exact. }
  rewrite SK, C. f_equal. f_equal. lia.
Qed.

(** C08 *)
Lemma cut_nofault ls : forall data, sumN ls <= len data -> exists ss, cut ls data = Ok ss /\ len ss = len ls.
Proof.
  induction ls as [|l t IH]; intros data H; [exists []; split; reflexivity|].
  cbn [sumN fold_right] in H. fold (sumN t) in H. cbn [cut]. rewrite take_some by (unfold len in H; lia).
  destruct (IH (skipn (N.to_nat l) data)) as [ss [C L]]; [unfold len in *; rewrite skipn_length; lia|].
  rewrite C. eexists; split; [reflexivity|]. unfold len in *. cbn [length]. lia.
Qed.

Theorem delta_length_decode_never_faults data count : forall f, delta_length_decode data count <> Fault f.
Proof.
  intros f. unfold delta_length_decode. destruct (count =? 0); [discriminate|].
  pose proof (delta32_decode_never_faults data count) as NF.
  destruct (delta_decode_int32 data count) as [[lens consumed]|c|e] eqn:D; [|discriminate|intros Q; apply (NF e); reflexivity].
  destruct (any_negative lens); [discriminate|].
  destruct (len data <? consumed + sumN lens) eqn:E; [discriminate|]. apply N.ltb_ge in E.
  destruct (cut_nofault lens (skipn (N.to_nat consumed) data)) as [ss [C _]]; [unfold len in *; rewrite skipn_length; lia|].
  rewrite C. discriminate.
Qed.

Theorem delta_length_decode_result_size data count ss c : delta_length_decode data count = Ok (ss, c) ->
  len ss = count /\ c <= len data.
Proof.
  unfold delta_length_decode. destruct (count =? 0); [discriminate|].
  destruct (delta_decode_int32 data count) as [[lens consumed]|c0|e] eqn:D; try discriminate.
  destruct (delta32_decode_result_size _ _ _ _ D) as [Ll Lc].
  destruct (any_negative lens); [discriminate|].
  destruct (len data <? consumed + sumN lens) eqn:E; [discriminate|]. apply N.ltb_ge in E.
  destruct (cut_nofault lens (skipn (N.to_nat consumed) data)) as [ss' [C L]]; [unfold len in *; rewrite skipn_length; lia|].
  rewrite C. intros H. injection H as <- <-. split; [rewrite L; exact Ll|exact E].
Qed.
