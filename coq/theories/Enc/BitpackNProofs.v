(** Raw bit packing of ANY number of values (carquet_bitpack_32 / carquet_bitunpack_32): groups of 8,
    then a zero-padded tail group of which only ceil(count * w / 8) bytes are stored. *)
From Coq Require Import NArith Arith List Bool Lia.
From Carquet Require Import Base.Res Base.Bits Enc.BitpackSpec Enc.BitpackModel Enc.BitpackProofs.
Import ListNotations.
Local Open Scope N_scope.

Lemma to_base_app B a : forall b x, B <> 0 ->
  to_base B (a + b) x = to_base B a x ++ to_base B b (x / B ^ N.of_nat a).
Proof.
  induction a as [|a IH]; intros b x HB.
  - cbn [Nat.add app to_base]. change (B ^ N.of_nat 0) with 1. rewrite N.div_1_r. reflexivity.
  - cbn [Nat.add to_base app]. f_equal. rewrite IH by exact HB. f_equal. f_equal.
    rewrite Nat2N.inj_succ, N.pow_succ_r', N.div_div by (try apply N.pow_nonzero; exact HB). reflexivity.
Qed.

Lemma to_base_zero B n : B <> 0 -> to_base B n 0 = repeat 0 n.
Proof.
  intros HB. induction n as [|n IH]; [reflexivity|]. cbn [to_base repeat].
  rewrite N.mod_0_l, N.div_0_l by exact HB. rewrite IH. reflexivity.
Qed.

Lemma from_base_zeros B k : from_base B (repeat 0 k) = 0.
Proof.
  induction k as [|k IH]; [reflexivity|]. cbn [repeat]. unfold from_base in *. cbn [fold_right]. rewrite IH. lia.
Qed.

Lemma from_base_cons B d ds : from_base B (d :: ds) = d + B * from_base B ds.
Proof. reflexivity. Qed.

Lemma from_base_pad B ds k : from_base B (ds ++ repeat 0 k) = from_base B ds.
Proof.
  induction ds as [|d ds IH]; cbn [app].
  - rewrite from_base_zeros. reflexivity.
  - rewrite !from_base_cons, IH. reflexivity.
Qed.

Lemma map_repeat' {A B} (f : A -> B) a n : map f (repeat a n) = repeat (f a) n.
Proof. induction n as [|n IH]; cbn [repeat map]; [reflexivity|]. rewrite IH. reflexivity. Qed.

Lemma packed_size_le count w : (count <= 8)%nat -> (packed_size count w <= w)%nat.
Proof.
  intros H. unfold packed_size.
  assert (L : (Nat.div (count * w + 7) 8 < w + 1)%nat) by (apply Nat.div_lt_upper_bound; [lia|nia]). lia.
Qed.

Lemma packed_size_bits count w : (count * w <= 8 * packed_size count w)%nat.
Proof.
  unfold packed_size. pose proof (Nat.div_mod (count * w + 7) 8 ltac:(lia)) as E.
  pose proof (Nat.mod_upper_bound (count * w + 7) 8 ltac:(lia)) as U. lia.
Qed.

(** the stored bytes of a zero-padded tail group determine the whole group: the rest is zero *)
Lemma tail_group_bytes w vs : (length vs <= 8)%nat ->
  let P := pack8 w (vs ++ repeat 0 (8 - length vs)) in
  let ps := packed_size (length vs) w in
  P = firstn ps P ++ repeat 0 (w - ps).
Proof.
  intros Hl P ps.
  assert (Hps : (ps <= w)%nat) by (apply packed_size_le; exact Hl).
  assert (L8 : length (vs ++ repeat 0 (8 - length vs)) = 8%nat) by (rewrite app_length, repeat_length; lia).
  unfold P at 1 2. rewrite (pack8_spec w _ L8). unfold pack_spec.
  rewrite map_app, map_repeat'. rewrite (N.mod_0_l (2 ^ N.of_nat w)) by apply pow2_nonzero.
  rewrite from_base_pad.
  set (G := from_base (2 ^ N.of_nat w) (map (fun v => v mod 2 ^ N.of_nat w) vs)).
  replace w with (ps + (w - ps))%nat at 1 2 by lia.
  rewrite (to_base_app 256 ps (w - ps) G) by discriminate.
  rewrite firstn_app, to_base_length, Nat.sub_diag, firstn_O, app_nil_r, firstn_all2 by (rewrite to_base_length; lia).
  f_equal.
  assert (HG : G < 256 ^ N.of_nat ps).
  { pose proof (from_base_lt (2 ^ N.of_nat w) _ (mod_list_lt w vs)) as L. rewrite map_length in L. fold G in L.
    apply N.lt_le_trans with ((2 ^ N.of_nat w) ^ N.of_nat (length vs)); [exact L|].
    rewrite <- N.pow_mul_r. change 256 with (2^8). rewrite <- N.pow_mul_r.
    apply N.pow_le_mono_r; [discriminate|]. pose proof (packed_size_bits (length vs) w). fold ps in H. lia. }
  rewrite (N.div_small G _ HG). apply to_base_zero. discriminate.
Qed.

Lemma pack_n_S f w (vs : list N) : vs <> [] ->
  pack_n (S f) w vs =
  if Nat.leb 8 (length vs) then pack8 w (firstn 8 vs) ++ pack_n f w (skipn 8 vs)
  else firstn (packed_size (length vs) w) (pack8 w (vs ++ repeat 0 (8 - length vs))).
Proof. intros H. destruct vs; [contradiction|reflexivity]. Qed.

Lemma pack_n_unpack_n w : (1 <= w <= 32)%nat -> forall fuel1 fuel2 vs,
  (length vs <= fuel1)%nat -> (length vs < fuel2)%nat ->
  unpack_n fuel2 w (pack_n fuel1 w vs) (length vs)
  = Ok (map (fun v => v mod 2 ^ N.of_nat w) vs, length (pack_n fuel1 w vs)).
Proof.
  intros Hw fuel1. induction fuel1 as [|f1 IH]; intros fuel2 vs H1 H2.
  - destruct vs; [|cbn in H1; lia]. destruct fuel2; [cbn in H2; lia|]. reflexivity.
  - destruct fuel2 as [|f2]; [lia|].
    destruct (list_eq_dec N.eq_dec vs []) as [->|Hnil]; [reflexivity|].
    assert (Hne : length vs <> 0%nat) by (destruct vs; [contradiction|cbn; lia]).
    rewrite pack_n_S by exact Hnil.
    cbn [unpack_n]. destruct (Nat.eqb_spec (length vs) 0) as [E0|_]; [contradiction|].
    destruct (Nat.leb_spec 8 (length vs)) as [G|L].
    + (* a whole group *)
      assert (Hg : length (firstn 8 vs) = 8%nat) by (apply firstn_length_le; exact G).
      rewrite (unpack8_pack8 w (firstn 8 vs) _ Hg).
      rewrite skipn_app, pack8_length, Nat.sub_diag, skipn_O, skipn_all2 by (rewrite pack8_length; lia).
      cbn [app]. replace (length vs - 8)%nat with (length (skipn 8 vs)) by (rewrite skipn_length; reflexivity).
      rewrite IH by (rewrite skipn_length; lia).
      rewrite <- map_app, firstn_skipn, app_length, pack8_length. reflexivity.
    + (* the padded tail *)
      pose proof (tail_group_bytes w vs ltac:(lia)) as T. cbv zeta in T.
      set (P := pack8 w (vs ++ repeat 0 (8 - length vs))) in *.
      set (ps := packed_size (length vs) w) in *.
      assert (Hps : (ps <= w)%nat) by (apply packed_size_le; lia).
      assert (HP : length P = w) by apply pack8_length.
      assert (Hlen : length (firstn ps P) = ps) by (apply firstn_length_le; lia).
      replace (Nat.min ps 32) with ps by lia.
      rewrite Hlen. destruct (Nat.ltb_spec ps ps) as [X|_]; [lia|].
      rewrite firstn_all2 by lia.
      assert (L8 : length (vs ++ repeat 0 (8 - length vs)) = 8%nat) by (rewrite app_length, repeat_length; lia).
      replace (firstn ps P ++ repeat 0 (32 - ps)) with (P ++ repeat 0 (32 - w)).
      * unfold P. rewrite (unpack8_pack8 w _ _ L8). rewrite map_app, firstn_app, map_length, Nat.sub_diag, firstn_O, app_nil_r.
        rewrite firstn_all2 by (rewrite map_length; lia). reflexivity.
      * rewrite T at 1. rewrite <- app_assoc. f_equal. rewrite <- repeat_app. f_equal. lia.
Qed.

Lemma bitpack32_roundtrip w vs : (1 <= w <= 32)%nat ->
  bitunpack_32 w (bitpack_32 w vs) (length vs)
  = Ok (map (fun v => v mod 2 ^ N.of_nat w) vs, length (bitpack_32 w vs)).
Proof.
  intros Hw. unfold bitunpack_32, bitpack_32. destruct w as [|w']; [lia|].
  apply pack_n_unpack_n; [exact Hw|lia|lia].
Qed.

Lemma bitpack32_width0 vs : bitpack_32 0 vs = [] /\ bitunpack_32 0 [] (length vs) = Ok (repeat 0 (length vs), 0%nat).
Proof. split; reflexivity. Qed.
