(** Model of src/encoding/delta_strings.c (DELTA_BYTE_ARRAY, incremental encoding): prefix lengths and
    suffix lengths as two DELTA_BINARY_PACKED INT32 streams, then the suffixes concatenated.

    The decoder reconstructs the strings in a caller-provided work buffer of [work_cap] bytes: string i is
    written at the current offset only after `work_offset + total_len <= work_buffer_size` was checked
    ([Err 2] otherwise, as in C), so the bytes written are below the declared capacity. *)
From Coq Require Import NArith ZArith List Bool.
From Carquet Require Import Gen.Enums_gen Base.Res Enc.DeltaBits Enc.DeltaModel Enc.DeltaLenModel.
Import ListNotations.
Local Open Scope N_scope.

Definition ERR_OUT_OF_MEMORY : Z := E_CARQUET_ERROR_OUT_OF_MEMORY.

(* common_prefix_length *)
Fixpoint common_prefix (a b : list N) : nat :=
  match a, b with
  | x :: a', y :: b' => if x =? y then S (common_prefix a' b') else O
  | _, _ => O
  end.

(* prefix lengths against the previous input string (the first has prefix 0) *)
Fixpoint prefixes (prev : list N) (vs : list (list N)) : list nat :=
  match vs with [] => [] | v :: t => common_prefix prev v :: prefixes v t end.

Definition prefix_lengths (vs : list (list N)) : list nat :=
  match vs with [] => [] | v :: t => O :: prefixes v t end.

(* carquet_delta_strings_encode *)
Definition delta_strings_encode (vs : list (list N)) : res (list N) :=
  match vs with
  | [] => Err ERR_INVALID_ARGUMENT
  | _ =>
      let ps := prefix_lengths vs in
      let sufs := map (fun pv => skipn (fst pv) (snd pv)) (combine ps vs) in
      let cap := lengths_capacity (len vs) in
      match delta_encode_int32 (map N.of_nat ps) cap with
      | Err c => Err c
      | Fault e => Fault e
      | Ok pb =>
          match delta_encode_int32 (map len sufs) cap with
          | Err c => Err c
          | Fault e => Fault e
          | Ok sb => Ok (pb ++ sb ++ concat sufs)
          end
      end
  end.

(* the reconstruction loop: [prev] = previous string (None before the first), [woff] = work_offset *)
Fixpoint rebuild (pls sls : list N) (sufdata : list N) (prev : option (list N)) (woff work_cap : N)
  : res (list (list N)) :=
  match pls, sls with
  | p :: pt, s :: st =>
      let total_len := u32 (p + s) in
      if work_cap <? woff + total_len then Err ERR_OUT_OF_MEMORY else
      let prefix_r :=
        if 0 <? p then
          match prev with
          | None => Err ERR_DECODE
          | Some pv => (* prefix_len > (int32_t)prev_len *)
              if (Z.of_N p >? i32_of (len pv))%Z then Err ERR_DECODE
              else match take (N.to_nat p) pv with Some (pre, _) => Ok pre | None => Fault OobRead end
          end
        else Ok [] in
      match prefix_r with
      | Err c => Err c
      | Fault e => Fault e
      | Ok pre =>
          match take (N.to_nat s) sufdata with
          | None => Fault OobRead
          | Some (suf, rest) =>
              let str := pre ++ suf in
              match rebuild pt st rest (Some str) (woff + total_len) work_cap with
              | Ok more => Ok (str :: more)
              | Err c => Err c
              | Fault e => Fault e
              end
          end
      end
  | _, _ => Ok []
  end.

(* carquet_delta_strings_decode (data, data_size, values, num_values, work_buffer, work_buffer_size, &consumed) *)
Definition delta_strings_decode (data : list N) (count work_cap : N) : res (list (list N) * N) :=
  if count =? 0 then Err ERR_INVALID_ARGUMENT else
  match delta_decode_int32 data count with
  | Err c => Err c
  | Fault e => Fault e
  | Ok (pls, c1) =>
      let data2 := skipn (N.to_nat c1) data in
      match delta_decode_int32 data2 count with
      | Err c => Err c
      | Fault e => Fault e
      | Ok (sls, c2) =>
          if any_negative sls || any_negative pls then Err ERR_DECODE else
          let pos := c1 + c2 in
          let total := sumN sls in
          if len data <? pos + total then Err ERR_DECODE else
          match rebuild pls sls (skipn (N.to_nat c2) data2) None 0 work_cap with
          | Ok ss => Ok (ss, pos + total)
          | Err c => Err c
          | Fault e => Fault e
          end
      end
  end.
