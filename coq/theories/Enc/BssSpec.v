(** BYTE_STREAM_SPLIT as the Parquet "Encodings" document defines it: for values of K bytes the data is K
    streams of [count] bytes each, stream j holding byte j of every value, concatenated in the order
    stream 0 .. stream K-1.  Values are byte lists of length K. *)
From Coq Require Import NArith List Bool.
From Carquet Require Import Enc.DeltaBits.
Import ListNotations.

(** stream j of a list of values *)
Definition stream (j : nat) (vs : list (list N)) : list N := map (fun v => nth j v 0%N) vs.

Definition spec_bss_enc (k : nat) (vs : list (list N)) : list N :=
  flat_map (fun j => stream j vs) (seq 0 k).

(** the K streams of a data block holding [count] values *)
Fixpoint streams_of (k count : nat) (data : list N) : option (list (list N)) :=
  match k with
  | O => Some []
  | S k' => match take count data with
            | None => None
            | Some (s, rest) => match streams_of k' count rest with
                                | Some ss => Some (s :: ss)
                                | None => None
                                end
            end
  end.

(** value i = the i-th byte of every stream *)
Definition spec_bss_dec (k count : nat) (data : list N) : option (list (list N)) :=
  match streams_of k count data with
  | Some ss => Some (map (fun i => map (fun s => nth i s 0%N) ss) (seq 0 count))
  | None => None
  end.
