(** The RLE encoder emits well-formed runs that spell its input (plus at most 7 padding zeros in the
    very last group). *)
From Coq Require Import NArith Arith List Bool Lia.
From Carquet Require Import Base.Bits Enc.BitpackSpec Enc.BitpackModel Enc.BitpackProofs
  Enc.RleSpec Enc.RleModel Enc.RleVarint.
Import ListNotations.
Local Open Scope N_scope.

Definition chunk_of_run (w : nat) (r : run) : list N :=
  match r with RRun n v => rle_chunk w n v | RLit vs => lit_chunk w vs end.

Definition chunks (w : nat) (rs : list run) : list N := concat (map (chunk_of_run w) rs).

(** the runs the encoder emits: non-empty RLE runs, single full groups *)
Definition enc_run_ok (w : nat) (r : run) : Prop :=
  match r with
  | RRun n v => (0 < n)%nat /\ v < 2 ^ N.of_nat w /\ 2 * N.of_nat n < 2 ^ 32
  | RLit vs => length vs = 8%nat /\ Forall (fun v => v < 2 ^ N.of_nat w) vs
  end.

Definition small (w : nat) (l : list N) : Prop := Forall (fun v => v < 2 ^ N.of_nat w) l.

Lemma chunks_app w a b : chunks w (a ++ b) = chunks w a ++ chunks w b.
Proof. unfold chunks. rewrite map_app, concat_app. reflexivity. Qed.

Lemma chunks_single w r : chunks w [r] = chunk_of_run w r.
Proof. unfold chunks. cbn [map concat]. apply app_nil_r. Qed.

Lemma runs_vals_app a b : runs_vals (a ++ b) = runs_vals a ++ runs_vals b.
Proof. unfold runs_vals. rewrite map_app, concat_app. reflexivity. Qed.

Lemma groups_of8_single vs f : length vs = 8%nat -> groups_of8 (S f) vs = [vs].
Proof.
  intros Hl. cbn [groups_of8]. destruct vs as [|x xs]; [discriminate|].
  rewrite firstn_all2 by lia. rewrite skipn_all2 by lia.
  destruct f; reflexivity.
Qed.

(** what the encoder writes for a run is what the specification prescribes for it *)
Lemma chunk_is_spec w r : enc_run_ok w r -> chunk_of_run w r = bytes_of_run w r /\ wf_run w r.
Proof.
  destruct r as [n v|vs]; cbn [enc_run_ok chunk_of_run bytes_of_run wf_run].
  - intros (Hn & Hv & Hb). split; [|split; assumption].
    unfold rle_chunk. rewrite shift_bytes_to_base, varint32_uleb by lia.
    rewrite vbytes_value_bytes. f_equal. f_equal. lia.
  - intros (Hl & Hv). split.
    + unfold lit_chunk. rewrite Hl. change (Nat.div (8 + 7) 8) with 1%nat. change (Nat.div 8 8) with 1%nat.
      change (8 - 8)%nat with 0%nat. cbn [repeat concat]. rewrite !app_nil_r.
      rewrite varint32_uleb by reflexivity. rewrite (groups_of8_single vs 7 Hl). cbn [map concat].
      rewrite app_nil_r, pack8_spec by exact Hl. reflexivity.
    + rewrite Hl. repeat split; try exact Hv.
Qed.

Lemma chunks_are_spec w rs : Forall (enc_run_ok w) rs ->
  chunks w rs = bytes_of_runs w rs /\ Forall (wf_run w) rs.
Proof.
  intros H. induction H as [|r rs Hr Hrs [IH1 IH2]]; [split; [reflexivity|constructor]|].
  destruct (chunk_is_spec w r Hr) as [E W]. split; [|constructor; assumption].
  unfold chunks, bytes_of_runs in *. cbn [map concat]. rewrite E, IH1. reflexivity.
Qed.

(* ------------------------------------------------------------------ the invariant *)

(** [Out s rs]: the bytes emitted so far are the chunks of the well-formed runs [rs] *)
Definition Out (w : nat) (s : enc) (rs : list run) : Prop :=
  e_out s = chunks w rs /\ Forall (enc_run_ok w) rs.

Record Inv (w : nat) (s : enc) (consumed : list N) : Prop := mkInv {
  inv_out : exists rs, Out w s rs /\ runs_vals rs ++ e_bp s ++ repeat (e_prev s) (e_rc s) = consumed;
  inv_bp : (length (e_bp s) < 8)%nat;
  inv_small : small w (e_bp s);
  inv_prev : (0 < e_rc s)%nat -> e_prev s < 2 ^ N.of_nat w;
  inv_has0 : e_has s = false -> e_rc s = 0%nat /\ e_bp s = [];
  inv_has1 : e_has s = true -> (0 < e_rc s)%nat
}.

Lemma inv_init w : Inv w enc_init [].
Proof.
  constructor; cbn; try lia; try constructor; try discriminate; try reflexivity.
  exists []. split; [split; [reflexivity|constructor]|reflexivity].
Qed.

(* ------------------------------------------------------------------ flushes *)

Lemma flush_bitpack_full w s rs : Out w s rs -> length (e_bp s) = 8%nat -> small w (e_bp s) ->
  Out w (flush_bitpack w s) (rs ++ [RLit (e_bp s)]) /\ e_bp (flush_bitpack w s) = []
  /\ e_rc (flush_bitpack w s) = e_rc s /\ e_prev (flush_bitpack w s) = e_prev s
  /\ e_has (flush_bitpack w s) = e_has s.
Proof.
  intros [Ho Hok] Hl Hs. unfold flush_bitpack. destruct (e_bp s) as [|x xs] eqn:E; [discriminate|].
  unfold Out. cbn [e_out e_bp e_rc e_prev e_has]. repeat split.
  - rewrite chunks_app, Ho, chunks_single. reflexivity.
  - apply Forall_app. split; [exact Hok|]. constructor; [|constructor]. split; [exact Hl|exact Hs].
Qed.

Lemma flush_bitpack_nil w s : e_bp s = [] -> flush_bitpack w s = s.
Proof. intros E. unfold flush_bitpack. rewrite E. reflexivity. Qed.

Lemma flush_rle_run w s rs : Out w s rs -> (0 < e_rc s)%nat -> e_prev s < 2 ^ N.of_nat w ->
  2 * N.of_nat (e_rc s) < 2 ^ 32 ->
  Out w (flush_rle w s) (rs ++ [RRun (e_rc s) (e_prev s)]) /\ e_rc (flush_rle w s) = 0%nat
  /\ e_bp (flush_rle w s) = e_bp s /\ e_prev (flush_rle w s) = e_prev s /\ e_has (flush_rle w s) = e_has s.
Proof.
  intros [Ho Hok] Hrc Hp Hb. unfold flush_rle. destruct (e_rc s) as [|n] eqn:E; [lia|].
  unfold Out. cbn [e_out e_bp e_rc e_prev e_has]. repeat split.
  - rewrite chunks_app, Ho, chunks_single. reflexivity.
  - apply Forall_app. split; [exact Hok|]. constructor; [|constructor]. repeat split; [lia|exact Hp|exact Hb].
Qed.

(* ------------------------------------------------------------------ top-up *)

Definition topup_cond (s : enc) : bool :=
  Nat.leb 8 (e_rc s) && Nat.ltb 0 (length (e_bp s)) && Nat.ltb (length (e_bp s)) 8.

Lemma topup_unfold f s : topup (S f) s =
  if topup_cond s then topup f (mkenc (e_out s) (e_prev s) (e_rc s - 1) (e_has s) (e_bp s ++ [e_prev s])) else s.
Proof. reflexivity. Qed.

Lemma topup_spec w f : forall s rs, Out w s rs -> small w (e_bp s) ->
  ((0 < e_rc s)%nat -> e_prev s < 2 ^ N.of_nat w) ->
  let s' := topup f s in
  Out w s' rs /\ small w (e_bp s') /\ e_prev s' = e_prev s /\ e_has s' = e_has s
  /\ e_bp s' ++ repeat (e_prev s') (e_rc s') = e_bp s ++ repeat (e_prev s) (e_rc s)
  /\ (length (e_bp s) <= 8 -> length (e_bp s') <= 8)%nat
  /\ (e_rc s' <= e_rc s)%nat
  /\ ((0 < e_rc s)%nat -> (0 < e_rc s')%nat)
  /\ ((8 - length (e_bp s) < f)%nat -> topup_cond s' = false).
Proof.
  induction f as [|f IH]; intros s rs Ho Hs Hp; cbn zeta.
  - cbn [topup]. split; [exact Ho|]. repeat split; try assumption; try lia.
  - rewrite topup_unfold. destruct (topup_cond s) eqn:C.
    + unfold topup_cond in C. apply andb_true_iff in C. destruct C as [C C3].
      apply andb_true_iff in C. destruct C as [C1 C2].
      apply Nat.leb_le in C1. apply Nat.ltb_lt in C2. apply Nat.ltb_lt in C3.
      set (s1 := mkenc (e_out s) (e_prev s) (e_rc s - 1) (e_has s) (e_bp s ++ [e_prev s])).
      assert (Ho1 : Out w s1 rs) by exact Ho.
      assert (Hs1 : small w (e_bp s1)).
      { cbn. apply Forall_app. split; [exact Hs|]. constructor; [apply Hp; lia|constructor]. }
      assert (Hp1 : (0 < e_rc s1)%nat -> e_prev s1 < 2 ^ N.of_nat w) by (intros _; apply Hp; lia).
      destruct (IH s1 rs Ho1 Hs1 Hp1) as (A1 & A2 & A3 & A4 & A5 & A6 & A7 & A8 & A9).
      split; [exact A1|]. repeat split; try assumption.
      * rewrite A5. cbn [s1 e_bp e_prev e_rc]. rewrite <- app_assoc. f_equal.
        destruct (e_rc s) as [|n]; [lia|]. cbn [repeat app]. replace (S n - 1)%nat with n by lia. reflexivity.
      * intros _. apply A6. cbn [s1 e_bp]. rewrite app_length. change (length [e_prev s]) with 1%nat. lia.
      * cbn [s1 e_rc] in A7. lia.
      * intros _. apply A8. cbn [s1 e_rc]. lia.
      * intros Hf. apply A9. cbn [s1 e_bp]. rewrite app_length. change (length [e_prev s]) with 1%nat. lia.
    + split; [exact Ho|]. repeat split; try assumption; try lia. intros _; exact C.
Qed.

(* ------------------------------------------------------------------ literals *)

Lemma add_literals_spec w n : forall s rs, Out w s rs -> (length (e_bp s) < 8)%nat -> small w (e_bp s) ->
  ((0 < n)%nat -> e_prev s < 2 ^ N.of_nat w) ->
  exists rs', Out w (add_literals w n s) rs'
    /\ runs_vals rs' ++ e_bp (add_literals w n s) = runs_vals rs ++ e_bp s ++ repeat (e_prev s) n
    /\ (length (e_bp (add_literals w n s)) < 8)%nat /\ small w (e_bp (add_literals w n s))
    /\ e_rc (add_literals w n s) = 0%nat /\ e_prev (add_literals w n s) = e_prev s
    /\ e_has (add_literals w n s) = e_has s.
Proof.
  induction n as [|n IH]; intros s rs Ho Hl Hs Hp.
  - exists rs. cbn [add_literals e_bp e_rc e_prev e_has repeat]. rewrite app_nil_r.
    repeat split; try assumption; apply Ho.
  - cbn [add_literals].
    set (s1 := mkenc (e_out s) (e_prev s) (e_rc s) (e_has s) (e_bp s ++ [e_prev s])).
    assert (Ho1 : Out w s1 rs) by exact Ho.
    assert (Hs1 : small w (e_bp s1)).
    { cbn. apply Forall_app. split; [exact Hs|]. constructor; [apply Hp; lia|constructor]. }
    assert (Hl1 : length (e_bp s1) = S (length (e_bp s))).
    { cbn [s1 e_bp]. rewrite app_length. cbn. lia. }
    destruct (Nat.eqb_spec (length (e_bp s1)) 8) as [E8|N8].
    + destruct (flush_bitpack_full w s1 rs Ho1 E8 Hs1) as (F1 & F2 & F3 & F4 & F5).
      destruct (IH (flush_bitpack w s1) (rs ++ [RLit (e_bp s1)]) F1) as (rs' & A1 & A2 & A3 & A4 & A5 & A6 & A7).
      * rewrite F2. cbn. lia.
      * rewrite F2. constructor.
      * intros _. rewrite F4. apply Hp. lia.
      * exists rs'. repeat split; try assumption.
        -- apply A1. -- apply A1.
        -- rewrite A2, F2, F4, runs_vals_app. unfold runs_vals at 2. cbn [map concat run_vals].
           cbn [s1 e_bp e_prev repeat]. rewrite app_nil_r, <- !app_assoc. reflexivity.
        -- rewrite A6, F4. reflexivity.
        -- rewrite A7, F5. reflexivity.
    + destruct (IH s1 rs Ho1) as (rs' & A1 & A2 & A3 & A4 & A5 & A6 & A7).
      * lia.
      * exact Hs1.
      * intros _. apply Hp. lia.
      * exists rs'. repeat split; try assumption.
        -- apply A1. -- apply A1.
        -- rewrite A2. cbn [s1 e_bp e_prev repeat]. rewrite <- !app_assoc. reflexivity.
Qed.

Lemma one_group n : (1 <= n <= 8)%nat -> Nat.div (n + 7) 8 = 1%nat.
Proof. intros H. do 9 (destruct n as [|n]; [try lia; try reflexivity|]). lia. Qed.

(** the final, partial group: padded with zeros *)
Lemma flush_bitpack_partial w s rs : Out w s rs -> (0 < length (e_bp s) <= 8)%nat -> small w (e_bp s) ->
  Out w (flush_bitpack w s) (rs ++ [RLit (e_bp s ++ repeat 0 (8 - length (e_bp s)))])
  /\ e_bp (flush_bitpack w s) = [].
Proof.
  intros [Ho Hok] Hl Hs. unfold flush_bitpack. destruct (e_bp s) as [|x xs] eqn:E; [cbn in Hl; lia|].
  unfold Out. cbn [e_out e_bp]. repeat split.
  - rewrite chunks_app, Ho, chunks_single. f_equal. cbn [chunk_of_run]. unfold lit_chunk.
    assert (L8 : length ((x :: xs) ++ repeat 0 (8 - length (x :: xs))) = 8%nat)
      by (rewrite app_length, repeat_length; lia).
    rewrite L8, (one_group (length (x :: xs)) ltac:(lia)). change (Nat.div (8 + 7) 8) with 1%nat.
    change (8 - 8)%nat with 0%nat. cbn [repeat]. rewrite app_nil_r. reflexivity.
  - apply Forall_app. split; [exact Hok|]. constructor; [|constructor]. split.
    + rewrite app_length, repeat_length. lia.
    + apply Forall_app. split; [exact Hs|]. apply Forall_forall. intros v Hv.
      apply repeat_spec in Hv. subst v. apply N.neq_0_lt_0, pow2_nonzero.
Qed.

(* ------------------------------------------------------------------ closing a run *)

Lemma topup8_spec w s rs : Out w s rs -> small w (e_bp s) -> (length (e_bp s) < 8)%nat ->
  ((0 < e_rc s)%nat -> e_prev s < 2 ^ N.of_nat w) ->
  let s' := topup 8 s in
  Out w s' rs /\ small w (e_bp s') /\ e_prev s' = e_prev s /\ e_has s' = e_has s
  /\ e_bp s' ++ repeat (e_prev s') (e_rc s') = e_bp s ++ repeat (e_prev s) (e_rc s)
  /\ (length (e_bp s') <= 8)%nat /\ (e_rc s' <= e_rc s)%nat
  /\ ((0 < e_rc s)%nat -> (0 < e_rc s')%nat) /\ topup_cond s' = false.
Proof.
  intros Ho Hs Hl Hp. cbn zeta.
  destruct (topup_spec w 8 s rs Ho Hs Hp) as (A1 & A2 & A3 & A4 & A5 & A6 & A7 & A8 & A9).
  repeat split; try assumption; try (apply A6; lia).
  - apply A1. - apply A1.
  - destruct (length (e_bp s)) as [|k] eqn:E.
    + assert (C : topup_cond s = false) by (unfold topup_cond; rewrite E; apply andb_false_iff; left; apply andb_false_r).
      rewrite topup_unfold, C. exact C.
    + apply A9. lia.
Qed.

Definition Closed (w : nat) (s : enc) (c : list N) : Prop :=
  (exists rs, Out w s rs /\ runs_vals rs ++ e_bp s = c)
  /\ (length (e_bp s) < 8)%nat /\ small w (e_bp s) /\ e_rc s = 0%nat.

Lemma topup_flush_spec w s c : Inv w s c ->
  let s' := topup_flush w s in
  (exists rs, Out w s' rs /\ runs_vals rs ++ e_bp s' ++ repeat (e_prev s') (e_rc s') = c)
  /\ small w (e_bp s') /\ (length (e_bp s') < 8)%nat /\ e_prev s' = e_prev s /\ e_has s' = e_has s
  /\ (e_rc s' <= e_rc s)%nat /\ ((0 < e_rc s)%nat -> (0 < e_rc s')%nat)
  /\ ((8 <= e_rc s')%nat -> e_bp s' = []).
Proof.
  intros [(rs & Ho & Heq) Hl Hs Hp H0 H1]. cbn zeta. unfold topup_flush.
  destruct (topup8_spec w s rs Ho Hs Hl Hp) as (A1 & A2 & A3 & A4 & A5 & A6 & A7 & A8 & A9).
  set (s1 := topup 8 s) in *.
  destruct (Nat.eqb_spec (length (e_bp s1)) 8) as [E8|N8].
  - destruct (flush_bitpack_full w s1 rs A1 E8 A2) as (F1 & F2 & F3 & F4 & F5).
    split; [exists (rs ++ [RLit (e_bp s1)]); split; [exact F1|]|].
    + rewrite F2, F3, F4, runs_vals_app. unfold runs_vals at 2. cbn [map concat run_vals app].
      rewrite app_nil_r, <- app_assoc, A5. exact Heq.
    + rewrite F2, F3, F4, F5. repeat split; try assumption; try constructor; cbn; try lia.
  - split; [exists rs; split; [exact A1|]|].
    + rewrite A5. exact Heq.
    + repeat split; try assumption; try lia.
      intros H8. unfold topup_cond in A9.
      destruct (length (e_bp s1)) as [|k] eqn:E; [destruct (e_bp s1); [reflexivity|discriminate]|].
      exfalso. apply andb_false_iff in A9. destruct A9 as [A9|A9].
      * apply andb_false_iff in A9. destruct A9 as [A9|A9].
        -- apply Nat.leb_gt in A9. lia.
        -- discriminate.
      * apply Nat.ltb_ge in A9. lia.
Qed.

Lemma inv_len w s c : Inv w s c -> (e_rc s <= length c)%nat.
Proof.
  intros [(rs & Ho & Heq) _ _ _ _ _]. rewrite <- Heq, !app_length, repeat_length. lia.
Qed.

Lemma close_run_spec w s c : Inv w s c -> e_has s = true -> 2 * N.of_nat (length c) < 2 ^ 32 ->
  Closed w (close_run w s) c /\ e_has (close_run w s) = true.
Proof.
  intros HI Hh Hb. pose proof (inv_len w s c HI) as Hlen.
  destruct (topup_flush_spec w s c HI) as ((rs & Ho & Heq) & B2 & B3 & B4 & B5 & B6 & B7 & B8).
  pose proof (inv_has1 w s c HI Hh) as Hrc. pose proof (inv_prev w s c HI Hrc) as Hpv.
  unfold close_run. set (s1 := topup_flush w s) in *. clearbody s1.
  destruct (Nat.leb_spec 8 (e_rc s1)) as [G|L].
  - rewrite (flush_bitpack_nil w s1 (B8 G)).
    destruct (flush_rle_run w s1 rs Ho) as (F1 & F2 & F3 & F4 & F5); [lia|rewrite B4; exact Hpv|lia|].
    split; [|rewrite F5, B5; exact Hh]. unfold Closed. rewrite F2, F3, (B8 G).
    repeat split; try constructor; cbn; try lia.
    exists (rs ++ [RRun (e_rc s1) (e_prev s1)]). split; [exact F1|].
    rewrite runs_vals_app. unfold runs_vals at 2. cbn [map concat run_vals]. rewrite !app_nil_r.
    rewrite (B8 G) in Heq. exact Heq.
  - destruct (add_literals_spec w (e_rc s1) s1 rs Ho B3 B2) as (rs' & A1 & A2 & A3 & A4 & A5 & A6 & A7).
    + intros _. rewrite B4. exact Hpv.
    + split; [|rewrite A7, B5; exact Hh]. unfold Closed. repeat split; try assumption.
      exists rs'. split; [exact A1|]. rewrite A2. exact Heq.
Qed.

(* ------------------------------------------------------------------ put, flush, encode_all *)

Lemma repeat_snoc {A} (a : A) n : repeat a n ++ [a] = repeat a (S n).
Proof. induction n as [|n IH]; cbn [repeat app]; [reflexivity|]. rewrite IH. reflexivity. Qed.

(** the three shapes of state that [put] produces, over an abstract previous state *)
Lemma inv_restart w (s1 : enc) c v rs : Out w s1 rs -> runs_vals rs ++ e_bp s1 = c ->
  (length (e_bp s1) < 8)%nat -> small w (e_bp s1) -> v < 2 ^ N.of_nat w ->
  Inv w (mkenc (e_out s1) v 1 true (e_bp s1)) (c ++ [v]).
Proof.
  intros Ho Heq Hl Hs Hv.
  constructor; cbn [e_out e_bp e_rc e_prev e_has]; try assumption; try lia; try discriminate;
    try (intros _; exact Hv).
  exists rs. split; [exact Ho|]. cbn [repeat]. rewrite <- Heq, <- !app_assoc. reflexivity.
Qed.

Lemma inv_extend w (s : enc) c : Inv w s c -> e_has s = true -> e_prev s < 2 ^ N.of_nat w ->
  Inv w (mkenc (e_out s) (e_prev s) (S (e_rc s)) true (e_bp s)) (c ++ [e_prev s]).
Proof.
  intros [(rs & Ho & Heq) Hl Hs Hp H0 H1] Hh Hv.
  constructor; cbn [e_out e_bp e_rc e_prev e_has]; try assumption; try lia; try discriminate;
    try (intros _; exact Hv).
  exists rs. split; [exact Ho|]. rewrite <- repeat_snoc, <- Heq, <- !app_assoc. reflexivity.
Qed.

Lemma inv_first w (s : enc) c v : Inv w s c -> e_has s = false -> v < 2 ^ N.of_nat w ->
  Inv w (mkenc (e_out s) v 1 true (e_bp s)) (c ++ [v]).
Proof.
  intros [(rs & Ho & Heq) Hl Hs Hp H0 H1] Hh Hv. destruct (H0 Hh) as [R0 B0].
  apply (inv_restart w s c v rs); try assumption.
  rewrite R0 in Heq. cbn [repeat] in Heq. rewrite app_nil_r in Heq. exact Heq.
Qed.

Lemma put_spec w s c v : Inv w s c -> v < 2 ^ N.of_nat w -> 2 * N.of_nat (length c) < 2 ^ 32 ->
  Inv w (put w s v) (c ++ [v]).
Proof.
  intros HI Hv Hb. unfold put. destruct (e_has s) eqn:Hh; cbn [negb].
  - destruct (N.eqb_spec v (e_prev s)) as [->|Hne].
    + apply inv_extend; assumption.
    + destruct (close_run_spec w s c HI Hh Hb) as [((rs & Ho & Heq) & C2 & C3 & C4) C5].
      cbv zeta. apply (inv_restart w (close_run w s) c v rs); assumption.
  - apply inv_first; assumption.
Qed.

Lemma fold_put_spec w vs : forall s c, Inv w s c -> small w vs ->
  2 * N.of_nat (length c + length vs) < 2 ^ 32 -> Inv w (fold_left (put w) vs s) (c ++ vs).
Proof.
  induction vs as [|v vs IH]; intros s c HI Hs Hb; [rewrite app_nil_r; exact HI|].
  inversion Hs as [|? ? Hv Hvs]; subst. cbn [fold_left length] in *.
  replace (c ++ v :: vs) with ((c ++ [v]) ++ vs) by (rewrite <- app_assoc; reflexivity).
  change (2 ^ 32) with 4294967296 in *.
  apply IH; [apply put_spec; [exact HI|exact Hv|change (2 ^ 32) with 4294967296; lia]|exact Hvs|].
  rewrite app_length. change (length [v]) with 1%nat. lia.
Qed.

Lemma flush_spec w s c : Inv w s c -> 2 * N.of_nat (length c) < 2 ^ 32 ->
  exists rs k, e_out (flush w s) = chunks w rs /\ Forall (enc_run_ok w) rs
    /\ runs_vals rs = c ++ repeat 0 k /\ (k < 8)%nat.
Proof.
  intros HI Hb. destruct (e_has s) eqn:Hh.
  - pose proof (inv_len w s c HI) as Hlen.
    destruct (topup_flush_spec w s c HI) as ((rs & Ho & Heq) & B2 & B3 & B4 & B5 & B6 & B7 & B8).
    pose proof (inv_has1 w s c HI Hh) as Hrc. pose proof (inv_prev w s c HI Hrc) as Hpv.
    unfold flush. set (s1 := topup_flush w s) in *. clearbody s1.
    destruct (Nat.leb_spec 8 (e_rc s1)) as [G|L].
    + rewrite (flush_bitpack_nil w s1 (B8 G)).
      destruct (flush_rle_run w s1 rs Ho) as (F1 & F2 & F3 & F4 & F5); [lia|rewrite B4; exact Hpv|lia|].
      exists (rs ++ [RRun (e_rc s1) (e_prev s1)]), 0%nat. destruct F1 as [F1a F1b].
      repeat split; try assumption; try lia.
      rewrite runs_vals_app. unfold runs_vals at 2. cbn [map concat run_vals repeat]. rewrite !app_nil_r.
      rewrite (B8 G) in Heq. exact Heq.
    + destruct (Nat.ltb_spec 0 (e_rc s1)) as [P|Z]; [|lia].
      destruct (add_literals_spec w (e_rc s1) s1 rs Ho B3 B2) as (rs' & A1 & A2 & A3 & A4 & A5 & A6 & A7).
      { intros _. rewrite B4. exact Hpv. }
      set (s2 := add_literals w (e_rc s1) s1) in *. clearbody s2.
      destruct (e_bp s2) as [|x xs] eqn:E2.
      * rewrite (flush_bitpack_nil w s2 E2). exists rs', 0%nat. destruct A1 as [A1a A1b].
        repeat split; try assumption; try lia. cbn [repeat]. rewrite app_nil_r in A2 |- *. rewrite A2. exact Heq.
      * rewrite <- E2 in A2, A3, A4.
        destruct (flush_bitpack_partial w s2 rs' A1) as [[P1 P2] P3]; [rewrite E2; cbn; rewrite E2 in A3; cbn in A3; lia|exact A4|].
        exists (rs' ++ [RLit (e_bp s2 ++ repeat 0 (8 - length (e_bp s2)))]), (8 - length (e_bp s2))%nat.
        repeat split; try assumption.
        -- rewrite runs_vals_app. unfold runs_vals at 2. cbn [map concat run_vals]. rewrite app_nil_r.
           rewrite app_assoc, A2, Heq. reflexivity.
        -- rewrite E2. cbn [length]. lia.
  - destruct HI as [(rs & [Ho Hok] & Heq) Hl Hs Hp H0 H1]. destruct (H0 Hh) as [R0 B0].
    assert (C : topup_cond s = false) by (unfold topup_cond; rewrite R0; reflexivity).
    unfold flush, topup_flush. rewrite topup_unfold, C, B0. cbn [length Nat.eqb]. rewrite R0. cbn [Nat.leb Nat.ltb].
    exists rs, 0%nat. repeat split; try assumption; try lia.
    rewrite R0, B0 in Heq. cbn [repeat app] in *. rewrite !app_nil_r in *. exact Heq.
Qed.

(** the encoder's output is the chunk sequence of well-formed runs spelling the input, then < 8 zeros *)
Lemma encode_all_runs w vs : small w vs -> 2 * N.of_nat (length vs) < 2 ^ 32 ->
  exists rs k, encode_all w vs = chunks w rs /\ Forall (enc_run_ok w) rs
    /\ runs_vals rs = vs ++ repeat 0 k /\ (k < 8)%nat.
Proof.
  intros Hs Hb. unfold encode_all.
  apply (flush_spec w _ vs); [|exact Hb].
  apply (fold_put_spec w vs enc_init [] (inv_init w) Hs). exact Hb.
Qed.
