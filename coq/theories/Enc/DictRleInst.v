(** The dictionary theorems of Enc/DictProofs.v instantiated with the RLE engine's model of
    carquet_rle_encode_all / carquet_rle_decode_all (Enc/RleModel.v); the round-trip hypothesis is closed with
    Enc.RleProofs.rle_roundtrip_lemma.

    Adapter: the C decoder refuses a bit width above 32 (returns -1, which the dictionary decoders turn into
    DECODE); RleModel.decode_all has no such guard, so the adapter has it. *)
From Coq Require Import NArith ZArith List Bool Lia.
From Carquet Require Import Base.Res Enc.DeltaBits Enc.PlainModel Enc.DictModel Enc.DictProofs Enc.RleModel Enc.RleProofs.
Import ListNotations.
Local Open Scope N_scope.

Definition rle_enc (w : N) (ix : list N) : list N := RleModel.encode_all (N.to_nat w) ix.

Definition rle_dec (w : N) (bs : list N) (max : N) : res (list N) :=
  if 32 <? w then Err (-1)%Z else Ok (RleModel.decode_all (N.to_nat w) bs (N.to_nat max)).

Lemma rle_inst_roundtrip w ix : w <= 32 -> Forall (fun i => i < 2 ^ w) ix -> len ix < 2 ^ 31 ->
  rle_dec w (rle_enc w ix) (len ix) = Ok ix.
Proof.
  intros Hw Hf Hl. unfold rle_dec, rle_enc.
  assert (E : (32 <? w) = false) by (apply N.ltb_ge; exact Hw). rewrite E.
  unfold len. rewrite Nat2N.id. rewrite rle_roundtrip_lemma; [reflexivity|lia| |].
  - unfold fits. rewrite N2Nat.id. exact Hf.
  - unfold len in Hl. change (2 ^ 32) with (2 * 2 ^ 31). lia.
Qed.

Lemma rle_dec_nofault w bs max f : rle_dec w bs max <> Fault f.
Proof. unfold rle_dec. destruct (32 <? w); discriminate. Qed.

(** C11: dictionary round trips with carquet's own index codec *)
Theorem dict_roundtrip_fixed_rle k vs : (0 < k)%nat -> Forall (fun v => v < 256 ^ N.of_nat k) vs -> len vs < 2 ^ 31 ->
  let '(d, ixs) := dict_encode_fixed rle_enc k vs in
  dict_decode_fixed rle_dec k d (Z.of_N (len d / N.of_nat k)) ixs (len vs) = Ok vs.
Proof. apply (dict_roundtrip_fixed rle_enc rle_dec rle_inst_roundtrip). Qed.

Theorem dict_roundtrip_int32_rle vs : Forall (fun v => v < 2 ^ 32) vs -> len vs < 2 ^ 31 ->
  let '(d, ixs) := dict_encode_fixed rle_enc 4 vs in
  dict_decode_fixed rle_dec 4 d (Z.of_N (len d / 4)) ixs (len vs) = Ok vs.
Proof. apply (dict_roundtrip_int32 rle_enc rle_dec rle_inst_roundtrip). Qed.

Theorem dict_roundtrip_float_rle vs : Forall (fun v => v < 2 ^ 32) vs -> len vs < 2 ^ 31 ->
  let '(d, ixs) := dict_encode_fixed rle_enc 4 vs in
  dict_decode_fixed rle_dec 4 d (Z.of_N (len d / 4)) ixs (len vs) = Ok vs.
Proof. apply (dict_roundtrip_float rle_enc rle_dec rle_inst_roundtrip). Qed.

Theorem dict_roundtrip_int64_rle vs : Forall (fun v => v < 2 ^ 64) vs -> len vs < 2 ^ 31 ->
  let '(d, ixs) := dict_encode_fixed rle_enc 8 vs in
  dict_decode_fixed rle_dec 8 d (Z.of_N (len d / 8)) ixs (len vs) = Ok vs.
Proof. apply (dict_roundtrip_int64 rle_enc rle_dec rle_inst_roundtrip). Qed.

Theorem dict_roundtrip_double_rle vs : Forall (fun v => v < 2 ^ 64) vs -> len vs < 2 ^ 31 ->
  let '(d, ixs) := dict_encode_fixed rle_enc 8 vs in
  dict_decode_fixed rle_dec 8 d (Z.of_N (len d / 8)) ixs (len vs) = Ok vs.
Proof. apply (dict_roundtrip_double rle_enc rle_dec rle_inst_roundtrip). Qed.

(** C08: never-fault with carquet's index decoder, given that it returns at most [max_values] values (a fact about
    RleModel.decode_all on arbitrary bytes that belongs to the RLE / C08 engine) *)
Theorem dict_decode_never_faults_rle :
  (forall w bs max, (length (RleModel.decode_all w bs max) <= max)%nat) ->
  forall k dict dc indices out_count f, dict_decode_fixed rle_dec k dict dc indices out_count <> Fault f.
Proof.
  intros H. apply (dict_decode_never_faults rle_dec rle_dec_nofault).
  intros w bs max ix E. unfold rle_dec in E. destruct (32 <? w); [discriminate|]. injection E as <-.
  unfold len. specialize (H (N.to_nat w) bs (N.to_nat max)). lia.
Qed.

Theorem dict_decode_result_size_rle :
  (forall w bs max, (length (RleModel.decode_all w bs max) <= max)%nat) ->
  forall k dict dc indices out_count vs, dict_decode_fixed rle_dec k dict dc indices out_count = Ok vs -> len vs <= out_count.
Proof.
  intros H. apply (dict_decode_result_size rle_dec rle_dec_nofault).
  intros w bs max ix E. unfold rle_dec in E. destruct (32 <? w); [discriminate|]. injection E as <-.
  unfold len. specialize (H (N.to_nat w) bs (N.to_nat max)). lia.
Qed.
