(** Varint and value-byte lemmas for the RLE hybrid: the model's write_varint/read_varint against the
    specification's ULEB128, and the little-endian value bytes. *)
From Coq Require Import NArith Arith List Bool Lia.
From Carquet Require Import Base.Bits Enc.BitpackSpec Enc.BitpackModel Enc.BitpackProofs Enc.RleSpec Enc.RleModel.
Import ListNotations.
Local Open Scope N_scope.

(** ULEB128 with any sufficient fuel *)
Lemma uleb_small f x : x < 128 -> uleb f x = [x].
Proof.
  intros Hx. destruct f as [|f]; cbn [uleb].
  - rewrite N.mod_small by exact Hx. reflexivity.
  - destruct (N.ltb_spec x 128) as [_|G]; [reflexivity|lia].
Qed.

Lemma uleb_big f x : 128 <= x -> uleb (S f) x = (x mod 128 + 128) :: uleb f (x / 128).
Proof. intros Hx. cbn [uleb]. destruct (N.ltb_spec x 128) as [L|_]; [lia|reflexivity]. Qed.

(** the model's write_varint equals ULEB128 whenever the fuel suffices *)
Lemma write_varint_uleb f : forall x g, x < 2 ^ (7 * N.of_nat f) -> (0 < f)%nat ->
  x < 2 ^ (7 * N.of_nat (S g)) -> write_varint f x = uleb g x.
Proof.
  induction f as [|f IH]; intros x g Hx Hf Hg; [lia|].
  cbn [write_varint]. change 0x80 with 128. destruct (N.ltb_spec x 128) as [L|G].
  - symmetry. apply uleb_small, L.
  - destruct g as [|g].
    + exfalso. change (7 * N.of_nat 1) with 7 in Hg. change (2^7) with 128 in Hg. lia.
    + rewrite uleb_big by exact G. f_equal.
      * change 0x7F with (N.ones 7). rewrite N.land_ones. change (2^7) with 128.
        change 128 with (2^7) at 2. rewrite N.mul_1_l || idtac.
        replace (N.lor (x mod 128) (2^7)) with (N.lor (x mod 128) (1 * 2^7)) by (rewrite N.mul_1_l; reflexivity).
        rewrite lor_shift_add by (change (2^7) with 128; apply N.mod_lt; discriminate). lia.
      * rewrite N.shiftr_div_pow2. change (2^7) with 128. apply IH.
        -- apply N.div_lt_upper_bound; [discriminate|].
           replace (128 * 2 ^ (7 * N.of_nat f)) with (2 ^ (7 * N.of_nat (S f))); [exact Hx|].
           rewrite Nat2N.inj_succ, N.mul_succ_r, N.pow_add_r. change (2^7) with 128. lia.
        -- destruct f; [|lia]. exfalso. change (7 * N.of_nat 1) with 7 in Hx. change (2^7) with 128 in Hx. lia.
        -- apply N.div_lt_upper_bound; [discriminate|].
           replace (128 * 2 ^ (7 * N.of_nat (S g))) with (2 ^ (7 * N.of_nat (S (S g)))); [exact Hg|].
           rewrite (Nat2N.inj_succ (S g)), N.mul_succ_r, N.pow_add_r. change (2^7) with 128. lia.
Qed.

Lemma varint32_uleb x : x < 2^32 -> varint32 x = uleb128 x.
Proof.
  intros Hx. unfold varint32, uleb128, u32. rewrite N.mod_small by exact Hx.
  apply write_varint_uleb; [|lia|].
  - apply N.lt_trans with (2^32); [exact Hx|]. reflexivity.
  - apply N.lt_trans with (2^32); [exact Hx|]. reflexivity.
Qed.

(* ------------------------------------------------------------------ reading a varint back *)

Lemma land_lt128_128 m : m < 128 -> N.land m 128 = 0.
Proof.
  intros Hm. apply N.bits_inj_iff; intro n. rewrite N.land_spec, N.bits_0.
  destruct (N.eq_dec n 7) as [->|Hn].
  - rewrite (testbit_high_lt m 7 7) by (try lia; exact Hm). reflexivity.
  - change 128 with (2^7). rewrite N.pow2_bits_false by lia. apply andb_false_r.
Qed.

Lemma land_cont_128 m : m < 128 -> N.land (m + 128) 128 = 128.
Proof.
  intros Hm. replace (m + 128) with (N.lor m (1 * 2^7)) by (rewrite lor_shift_add by exact Hm; lia).
  rewrite N.land_lor_distr_l, (land_lt128_128 m Hm). reflexivity.
Qed.

Lemma land_cont_127 m : m < 128 -> N.land (m + 128) 127 = m.
Proof.
  intros Hm. change 127 with (N.ones 7). rewrite N.land_ones. change (2^7) with 128.
  replace (m + 128) with (m + 1 * 128) by lia. rewrite N.mod_add by discriminate. apply N.mod_small, Hm.
Qed.

Lemma read_varint_cons f shift acc b tl :
  read_varint (S f) shift acc (b :: tl) =
  if N.land b 0x80 =? 0 then Some (N.lor acc (u32 (N.shiftl (N.land b 0x7F) shift)), tl)
  else read_varint f (shift + 7) (N.lor acc (u32 (N.shiftl (N.land b 0x7F) shift))) tl.
Proof. reflexivity. Qed.

Lemma read_varint_uleb f : forall x g tl shift acc, (1 <= f)%nat ->
  x < 2 ^ (7 * N.of_nat f) -> (f <= S g)%nat -> acc < 2 ^ shift -> acc + 2 ^ shift * x < 2 ^ 32 ->
  read_varint f shift acc (uleb g x ++ tl) = Some (acc + 2 ^ shift * x, tl).
Proof.
  induction f as [|f IH]; intros x g tl shift acc Hf Hx Hg Hacc Hb; [lia|].
  assert (Small : x < 128 -> read_varint (S f) shift acc (uleb g x ++ tl) = Some (acc + 2 ^ shift * x, tl)).
  { intros L. rewrite uleb_small by exact L. cbn [app]. rewrite read_varint_cons.
    change 0x7F with (N.ones 7). rewrite (land_ones_small x 7 L).
    change 0x80 with 128. rewrite (land_lt128_128 x L). cbn [N.eqb].
    rewrite N.shiftl_mul_pow2. unfold u32. rewrite N.mod_small by lia.
    rewrite lor_shift_add by exact Hacc. reflexivity. }
  destruct (N.lt_ge_cases x 128) as [L|G]; [apply Small, L|].
  destruct f as [|f].
  { exfalso. change (7 * N.of_nat 1) with 7 in Hx. change (2^7) with 128 in Hx. lia. }
  destruct g as [|g]; [lia|].
  rewrite uleb_big by exact G. cbn [app]. rewrite read_varint_cons.
  set (m := x mod 128). assert (Hm : m < 128) by (apply N.mod_lt; discriminate).
  change 0x7F with 127. change 0x80 with 128. rewrite (land_cont_127 m Hm), (land_cont_128 m Hm).
  cbn [N.eqb]. rewrite N.shiftl_mul_pow2.
  assert (Hx2 : x = 128 * (x / 128) + m) by (apply N.div_mod; discriminate).
  assert (Hpow : 2 ^ (shift + 7) = 2 ^ shift * 128) by (rewrite N.pow_add_r; reflexivity).
  unfold u32. rewrite N.mod_small by nia.
  rewrite lor_shift_add by exact Hacc.
  rewrite (IH (x / 128) g tl (shift + 7) (acc + 2 ^ shift * m)).
  - f_equal. f_equal. rewrite Hpow. rewrite Hx2 at 2. lia.
  - lia.
  - apply N.div_lt_upper_bound; [discriminate|].
    replace (128 * 2 ^ (7 * N.of_nat (S f))) with (2 ^ (7 * N.of_nat (S (S f)))); [exact Hx|].
    rewrite (Nat2N.inj_succ (S f)), N.mul_succ_r, N.pow_add_r. change (2^7) with 128. lia.
  - lia.
  - rewrite Hpow. nia.
  - rewrite Hpow. nia.
Qed.

Lemma read_header h tl : h < 2^32 -> read_varint 5 0 0 (uleb128 h ++ tl) = Some (h, tl).
Proof.
  intros Hh. unfold uleb128.
  assert (H35 : h < 2 ^ (7 * N.of_nat 5)) by (apply N.lt_trans with (2^32); [exact Hh|reflexivity]).
  assert (Hb : 0 + 2 ^ 0 * h < 2 ^ 32) by (rewrite N.pow_0_r; lia).
  rewrite (read_varint_uleb 5 h 9 tl 0 0 ltac:(lia) H35 ltac:(lia) ltac:(reflexivity) Hb).
  f_equal. f_equal. rewrite N.pow_0_r. lia.
Qed.

Lemma uleb_nonempty g x : uleb g x <> [].
Proof. destruct g; cbn [uleb]; [discriminate|]. destruct (x <? 128); discriminate. Qed.

(* ------------------------------------------------------------------ the repeated value's bytes *)

Lemma vbytes_value_bytes w : vbytes w = value_bytes w.
Proof. reflexivity. Qed.

Lemma value_fits w v : v < 2 ^ N.of_nat w -> v < 256 ^ N.of_nat (value_bytes w).
Proof.
  intros Hv. apply N.lt_le_trans with (2 ^ N.of_nat w); [exact Hv|].
  change 256 with (2^8). rewrite <- N.pow_mul_r. apply N.pow_le_mono_r; [discriminate|].
  unfold value_bytes. pose proof (Nat.div_mod (w + 7) 8 ltac:(lia)) as E.
  pose proof (Nat.mod_upper_bound (w + 7) 8 ltac:(lia)) as U. lia.
Qed.

(** flush_rle writes the value bytes "(prev >> 8i) as uint8" = base-256 digits *)
Lemma shift_bytes_to_base n v :
  map (fun i => N.shiftr v (N.of_nat (i * 8)) mod 256) (seq 0 n) = to_base 256 n v.
Proof.
  rewrite to_base_digits by discriminate. apply map_ext. intro i.
  rewrite N.shiftr_div_pow2. change 256 with (2^8) at 2. rewrite <- N.pow_mul_r. do 3 f_equal. lia.
Qed.

Lemma read_value w v tl : (w <= 32)%nat -> v < 2 ^ N.of_nat w ->
  N.land (le_val (firstn (vbytes w) (to_base 256 (value_bytes w) v ++ tl))) (value_mask w) = v.
Proof.
  intros Hw Hv. rewrite vbytes_value_bytes.
  rewrite firstn_app, to_base_length, Nat.sub_diag, firstn_O, app_nil_r.
  rewrite firstn_all2 by (rewrite to_base_length; lia).
  rewrite le_val_from_base, from_to_base by (try discriminate; apply value_fits, Hv).
  unfold value_mask. destruct (Nat.leb_spec 32 w) as [G|L].
  - assert (w = 32%nat) by lia. subst w. change 0xFFFFFFFF with (N.ones 32). apply land_ones_small. exact Hv.
  - apply land_ones_small, Hv.
Qed.
