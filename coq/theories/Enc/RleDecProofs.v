(** The RLE decoder returns the values of every well-formed run stream (every legal form of the
    hybrid encoding), under any chunking of the requests. *)
From Coq Require Import NArith Arith List Bool Lia.
From Carquet Require Import Base.Res Base.Bits Enc.BitpackSpec Enc.BitpackModel Enc.BitpackProofs
  Enc.RleSpec Enc.RleModel Enc.RleVarint.
Import ListNotations.
Local Open Scope N_scope.

Definition small (w : nat) (l : list N) : Prop := Forall (fun v => v < 2 ^ N.of_nat w) l.

Definition lit_bytes (w : nat) (more : list N) : list N :=
  concat (map (pack_spec w) (groups_of8 (length more) more)).

(** decoder states and the values still to be delivered *)
Inductive DS (w : nat) : dec -> list N -> Prop :=
| DS_idle d rs : Forall (wf_run w) rs -> d_ok d = true -> d_rem d = 0 ->
    d_rest d = bytes_of_runs w rs -> DS w d (runs_vals rs)
| DS_rle d rs k : Forall (wf_run w) rs -> d_ok d = true -> d_rle d = true -> d_rem d = N.of_nat k ->
    d_rest d = bytes_of_runs w rs -> DS w d (repeat (d_val d) k ++ runs_vals rs)
| DS_lit d rs more : Forall (wf_run w) rs -> d_ok d = true -> d_rle d = false ->
    Nat.modulo (length more) 8 = 0%nat -> small w more ->
    d_rem d = N.of_nat (length (d_buf d) + length more) ->
    d_rest d = lit_bytes w more ++ bytes_of_runs w rs ->
    DS w d (d_buf d ++ more ++ runs_vals rs).

(* ------------------------------------------------------------------ list helpers *)

Lemma firstn_plus {A} (l : list A) k m : firstn (k + m) l = firstn k l ++ firstn m (skipn k l).
Proof.
  revert l. induction k as [|k IH]; intros l; [reflexivity|].
  destruct l as [|x l]; [cbn; rewrite firstn_nil; reflexivity|]. cbn [Nat.add firstn skipn app]. rewrite IH. reflexivity.
Qed.

Lemma skipn_plus {A} (l : list A) k m : skipn (k + m) l = skipn m (skipn k l).
Proof.
  revert l. induction k as [|k IH]; intros l; [reflexivity|].
  destruct l as [|x l]; [cbn; rewrite skipn_nil; reflexivity|]. cbn [Nat.add skipn]. apply IH.
Qed.

Lemma firstn_repeat {A} (a : A) k n : (k <= n)%nat -> firstn k (repeat a n) = repeat a k.
Proof.
  revert n. induction k as [|k IH]; intros n H; [reflexivity|].
  destruct n as [|n]; [lia|]. cbn [repeat firstn]. rewrite IH by lia. reflexivity.
Qed.

Lemma skipn_repeat {A} (a : A) k n : skipn k (repeat a n) = repeat a (n - k).
Proof.
  revert n. induction k as [|k IH]; intros n; [rewrite Nat.sub_0_r; reflexivity|].
  destruct n as [|n]; [reflexivity|]. cbn [repeat skipn Nat.sub]. apply IH.
Qed.

Lemma bytes_of_run_nonempty w r : bytes_of_run w r <> [].
Proof.
  destruct r as [n v|vs]; cbn [bytes_of_run]; unfold uleb128;
    (destruct (uleb 9 _) eqn:E; [exfalso; exact (uleb_nonempty _ _ E)|discriminate]).
Qed.

Lemma bytes_of_runs_nil w rs : bytes_of_runs w rs = [] -> rs = [].
Proof.
  destruct rs as [|r rs]; [reflexivity|]. unfold bytes_of_runs. cbn [map concat].
  intros H. apply app_eq_nil in H. destruct H as [H _]. exfalso. exact (bytes_of_run_nonempty w r H).
Qed.

Lemma bytes_of_runs_cons w r rs : bytes_of_runs w (r :: rs) = bytes_of_run w r ++ bytes_of_runs w rs.
Proof. reflexivity. Qed.

Lemma runs_vals_cons r rs : runs_vals (r :: rs) = run_vals r ++ runs_vals rs.
Proof. reflexivity. Qed.

Lemma land_even_1 n : N.land (2 * n) 1 = 0.
Proof.
  apply N.bits_inj_iff; intro m. rewrite N.land_spec, N.bits_0.
  destruct (N.eq_dec m 0) as [->|Hm]; [rewrite N.testbit_even_0; reflexivity|].
  change 1 with (2^0). rewrite N.pow2_bits_false by lia. apply andb_false_r.
Qed.

Lemma land_odd_1 n : N.land (2 * n + 1) 1 = 1.
Proof.
  apply N.bits_inj_iff; intro m. rewrite N.land_spec.
  destruct (N.eq_dec m 0) as [->|Hm]; [rewrite N.testbit_odd_0; reflexivity|].
  change 1 with (2^0) at 2 3. rewrite N.pow2_bits_false by lia. apply andb_false_r.
Qed.

Lemma shiftr1_even n : N.shiftr (2 * n) 1 = n.
Proof. rewrite <- N.div2_spec. apply N.div2_double. Qed.

Lemma shiftr1_odd n : N.shiftr (2 * n + 1) 1 = n.
Proof. rewrite <- N.div2_spec. rewrite <- N.succ_double_spec. apply N.div2_succ_double. Qed.

(** a non-empty multiple of 8 splits into a full group and the rest *)
Lemma split_group (more : list N) : Nat.modulo (length more) 8 = 0%nat -> more <> [] ->
  exists g more', more = g ++ more' /\ length g = 8%nat /\ Nat.modulo (length more') 8 = 0%nat.
Proof.
  intros Hm Hne. exists (firstn 8 more), (skipn 8 more).
  assert (H8 : (8 <= length more)%nat).
  { destruct more as [|x xs]; [contradiction|]. 
    pose proof (Nat.div_mod (length (x :: xs)) 8 ltac:(lia)) as E. rewrite Hm in E.
    destruct (Nat.div (length (x :: xs)) 8) eqn:D; [cbn [length] in *; lia|lia]. }
  split; [symmetry; apply firstn_skipn|]. split; [apply firstn_length_le; exact H8|].
  rewrite skipn_length.
  pose proof (Nat.div_mod (length more) 8 ltac:(lia)) as E. rewrite Hm in E.
  replace (length more - 8)%nat with (8 * (Nat.div (length more) 8 - 1))%nat by lia.
  rewrite Nat.mul_comm. apply Nat.mod_mul. lia.
Qed.

Lemma groups_fuel : forall (l : list N) f1 f2, (length l <= 8 * f1)%nat -> (length l <= 8 * f2)%nat ->
  groups_of8 f1 l = groups_of8 f2 l.
Proof.
  intros l f1. revert l. induction f1 as [|f1 IH]; intros l f2 H1 H2.
  - destruct l; [|cbn in H1; lia]. destruct f2; reflexivity.
  - destruct f2 as [|f2]; [destruct l; [reflexivity|cbn in H2; lia]|].
    cbn [groups_of8]. destruct l as [|y l]; [reflexivity|]. f_equal.
    apply IH; rewrite skipn_length; cbn [length] in *; lia.
Qed.

Lemma groups_of8_S f (l : list N) : l <> [] -> groups_of8 (S f) l = firstn 8 l :: groups_of8 f (skipn 8 l).
Proof. intros H. destruct l; [contradiction|reflexivity]. Qed.

Lemma lit_bytes_group w g more' : length g = 8%nat ->
  lit_bytes w (g ++ more') = pack_spec w g ++ lit_bytes w more'.
Proof.
  intros Hg. unfold lit_bytes.
  rewrite (groups_fuel (g ++ more') _ (S (length more'))) by (rewrite ?app_length; lia).
  rewrite groups_of8_S by (destruct g; [discriminate|discriminate]).
  rewrite firstn_app, Hg, Nat.sub_diag, firstn_O, app_nil_r, firstn_all2 by lia.
  rewrite skipn_app, Hg, Nat.sub_diag, skipn_O, skipn_all2 by lia. reflexivity.
Qed.

Lemma lit_bytes_nil w : lit_bytes w [] = [].
Proof. reflexivity. Qed.

Lemma small_app w a b : small w (a ++ b) -> small w a /\ small w b.
Proof. apply Forall_app. Qed.

Lemma unpack_group w g tl : length g = 8%nat -> small w g ->
  unpack8 w (pack_spec w g ++ tl) = Ok g /\ skipn w (pack_spec w g ++ tl) = tl.
Proof.
  intros Hg Hs. rewrite <- (pack8_spec w g Hg). split.
  - apply unpack8_pack8_small; assumption.
  - rewrite skipn_app, pack8_length, Nat.sub_diag, skipn_O, skipn_all2 by (rewrite pack8_length; lia). reflexivity.
Qed.

(* ------------------------------------------------------------------ start_new_run *)

Lemma start_unfold f w d : d_rest d <> [] ->
  start_new_run (S f) w d =
  match read_varint 5 0 0 (d_rest d) with
  | None => (set_err d, false)
  | Some (header, tl) =>
    if N.land header 1 =? 0 then
      let n := N.shiftr header 1 in
      if Nat.ltb (length tl) (vbytes w)
      then (mkdec tl true n (d_val d) (d_buf d) false, false)
      else
        let d1 := mkdec (skipn (vbytes w) tl) true n
                        (N.land (le_val (firstn (vbytes w) tl)) (value_mask w)) (d_buf d) (d_ok d) in
        if n =? 0 then start_new_run f w d1 else (d1, true)
    else
      let groups := N.shiftr header 1 in
      if groups =? 0 then start_new_run f w (mkdec tl false 0 (d_val d) (d_buf d) (d_ok d))
      else (mkdec tl false (groups * 8) (d_val d) [] (d_ok d), true)
  end.
Proof. intros H. cbn [start_new_run]. destruct (d_rest d); [contradiction|reflexivity]. Qed.

Lemma start_spec w : (w <= 32)%nat -> forall rs fuel d, Forall (wf_run w) rs -> d_ok d = true ->
  d_rem d = 0 -> d_rest d = bytes_of_runs w rs -> (length rs < fuel)%nat ->
  (snd (start_new_run fuel w d) = true ->
     DS w (fst (start_new_run fuel w d)) (runs_vals rs) /\ 0 < d_rem (fst (start_new_run fuel w d)))
  /\ (snd (start_new_run fuel w d) = false ->
     runs_vals rs = [] /\ DS w (fst (start_new_run fuel w d)) []).
Proof.
  intros Hw rs. induction rs as [|r rs IH]; intros fuel d Hwf Hok Hrem Hrest Hfuel.
  - destruct fuel as [|f]; [cbn in Hfuel; lia|]. cbn [start_new_run]. 
    change (bytes_of_runs w []) with (@nil N) in Hrest. rewrite Hrest. cbn [fst snd]. split; [discriminate|].
    intros _. split; [reflexivity|]. apply (DS_idle w d []); [constructor|exact Hok|exact Hrem|exact Hrest].
  - destruct fuel as [|f]; [cbn in Hfuel; lia|]. cbn [length] in Hfuel.
    inversion Hwf as [|? ? Hr Hrs]; subst.
    rewrite bytes_of_runs_cons in Hrest.
    rewrite start_unfold by (rewrite Hrest; intro E; apply app_eq_nil in E; destruct E as [E _]; exact (bytes_of_run_nonempty w r E)).
    rewrite Hrest. destruct r as [n v|vs]; cbn [bytes_of_run wf_run] in *.
    + destruct Hr as [Hv Hb]. rewrite <- app_assoc, read_header by exact Hb.
      rewrite land_even_1. cbn [N.eqb]. rewrite shiftr1_even. cbv zeta.
      assert (Hlen : Nat.ltb (length (to_base 256 (value_bytes w) v ++ bytes_of_runs w rs)) (vbytes w) = false).
      { apply Nat.ltb_ge. rewrite app_length, to_base_length, vbytes_value_bytes. lia. }
      rewrite Hlen, (read_value w v _ Hw Hv).
      assert (Hskip : skipn (vbytes w) (to_base 256 (value_bytes w) v ++ bytes_of_runs w rs) = bytes_of_runs w rs).
      { rewrite vbytes_value_bytes, skipn_app, to_base_length, Nat.sub_diag, skipn_O.
        rewrite skipn_all2 by (rewrite to_base_length; lia). reflexivity. }
      rewrite Hskip. rewrite runs_vals_cons. cbn [run_vals].
      destruct (N.eqb_spec (N.of_nat n) 0) as [E0|NE0].
      * assert (n = 0%nat) by lia. subst n. cbn [repeat app].
        apply IH; try assumption; cbn [d_ok d_rem d_rest]; try reflexivity; lia.
      * cbn [fst snd]. split; [|discriminate]. intros _. split; [|cbn [d_rem]; lia].
        apply (DS_rle w (mkdec (bytes_of_runs w rs) true (N.of_nat n) v (d_buf d) (d_ok d)) rs n);
          cbn [d_ok d_rle d_rem d_rest]; try assumption; reflexivity.
    + destruct Hr as (Hm & Hs & Hb). rewrite <- app_assoc, read_header by exact Hb.
      rewrite land_odd_1. cbn [N.eqb]. rewrite shiftr1_odd. cbv zeta.
      rewrite runs_vals_cons. cbn [run_vals].
      pose proof (Nat.div_mod (length vs) 8 ltac:(lia)) as Edm. rewrite Hm, Nat.add_0_r in Edm.
      destruct (N.eqb_spec (N.of_nat (Nat.div (length vs) 8)) 0) as [E0|NE0].
      * assert (length vs = 0%nat) by lia. destruct vs; [|discriminate]. cbn [app map concat groups_of8 length].
        apply IH; try assumption; cbn [d_ok d_rem d_rest]; try reflexivity; lia.
      * cbn [fst snd]. split; [|discriminate]. intros _. split; [|cbn [d_rem]; lia].
        set (d' := mkdec (concat (map (pack_spec w) (groups_of8 (length vs) vs)) ++ bytes_of_runs w rs) false
                         (N.of_nat (Nat.div (length vs) 8) * 8) (d_val d) [] (d_ok d)).
        change (vs ++ runs_vals rs) with (d_buf d' ++ vs ++ runs_vals rs).
        apply (DS_lit w d' rs vs); cbn [d' d_ok d_rle d_rem d_rest d_buf length]; try assumption; try reflexivity.
        lia.
Qed.

(* ------------------------------------------------------------------ inside a run *)

Lemma nmin_min want k : nmin want (N.of_nat k) = Nat.min want k.
Proof.
  unfold nmin. destruct (N.leb_spec (N.of_nat want) (N.of_nat k)) as [L|G].
  - lia.
  - rewrite Nat2N.id. lia.
Qed.

Lemma firstn_app_le {A} (a b : list A) k : (k <= length a)%nat -> firstn k (a ++ b) = firstn k a.
Proof.
  intros H. rewrite firstn_app. replace (k - length a)%nat with 0%nat by lia. rewrite firstn_O, app_nil_r. reflexivity.
Qed.

Lemma skipn_app_le {A} (a b : list A) k : (k <= length a)%nat -> skipn k (a ++ b) = skipn k a ++ b.
Proof.
  intros H. rewrite skipn_app. replace (k - length a)%nat with 0%nat by lia. reflexivity.
Qed.

(** with a non-empty bit-pack buffer: copy out *)
Lemma lit_take_spec w d rs more want : Forall (wf_run w) rs -> d_ok d = true -> d_rle d = false ->
  Nat.modulo (length more) 8 = 0%nat -> small w more ->
  d_rem d = N.of_nat (length (d_buf d) + length more) ->
  d_rest d = lit_bytes w more ++ bytes_of_runs w rs -> d_buf d <> [] -> (0 < want)%nat ->
  exists k d1, lit_take d want = (firstn k (d_buf d ++ more ++ runs_vals rs), d1, true)
    /\ (1 <= k <= want)%nat /\ (k <= length (d_buf d ++ more ++ runs_vals rs))%nat
    /\ DS w d1 (skipn k (d_buf d ++ more ++ runs_vals rs)).
Proof.
  intros Hwf Hok Hrle Hm Hs Hrem Hrest Hbuf Hwant. unfold lit_take. rewrite Hrem, nmin_min.
  set (k := Nat.min (Nat.min want (length (d_buf d) + length more)) (length (d_buf d))).
  assert (Hb : (0 < length (d_buf d))%nat) by (destruct (d_buf d); [contradiction|cbn; lia]).
  assert (Hk : (1 <= k <= want)%nat /\ (k <= length (d_buf d))%nat) by (unfold k; lia).
  exists k. eexists. split; [|split; [lia|split]].
  - rewrite (firstn_app_le (d_buf d)) by lia. reflexivity.
  - rewrite app_length. lia.
  - rewrite (skipn_app_le (d_buf d)) by lia.
    match goal with |- DS w ?D _ => set (d1 := D) end.
    change (skipn k (d_buf d)) with (d_buf d1).
    apply (DS_lit w d1 rs more); cbn [d1 d_ok d_rle d_rem d_rest d_buf]; try assumption; try reflexivity.
    rewrite skipn_length. lia.
Qed.

Lemma run_iter_spec w d p want : (w <= 32)%nat -> DS w d p -> 0 < d_rem d -> (0 < want)%nat ->
  exists k d1, run_iter w d want = (firstn k p, d1, true)
    /\ (1 <= k <= want)%nat /\ (k <= length p)%nat /\ DS w d1 (skipn k p).
Proof.
  intros Hw HD Hrem Hwant. destruct HD as [d rs Hwf Hok Hr0 Hrest | d rs k0 Hwf Hok Hrle Hr Hrest
                                           | d rs more Hwf Hok Hrle Hm Hs Hr Hrest].
  - lia.
  - unfold run_iter. rewrite Hrle, Hr, nmin_min.
    assert (Hk0 : (0 < k0)%nat) by lia.
    set (k := Nat.min want k0). exists k. eexists. split; [|split; [lia|split]].
    + rewrite (firstn_app_le (repeat (d_val d) k0)) by (rewrite repeat_length; lia).
      rewrite firstn_repeat by lia. reflexivity.
    + rewrite app_length, repeat_length. lia.
    + rewrite (skipn_app_le (repeat (d_val d) k0)) by (rewrite repeat_length; lia). rewrite skipn_repeat.
      match goal with |- DS w ?D _ => set (d1 := D) end.
      change (d_val d) with (d_val d1).
      apply (DS_rle w d1 rs (k0 - k)); cbn [d1 d_ok d_rle d_rem d_rest]; try assumption; try reflexivity. lia.
  - unfold run_iter. rewrite Hrle. destruct (d_buf d) as [|x xs] eqn:Ebuf.
    + (* buffer empty: fill it with the next group *)
      cbn [length Nat.add] in Hr.
      assert (Hne : more <> []) by (intro E; subst more; cbn in Hr; lia).
      destruct (split_group more Hm Hne) as (g & more' & -> & Hg & Hm').
      destruct (small_app w g more' Hs) as [Hsg Hsm].
      rewrite lit_bytes_group in Hrest by exact Hg. rewrite <- app_assoc in Hrest.
      destruct (unpack_group w g (lit_bytes w more' ++ bytes_of_runs w rs) Hg Hsg) as [U1 U2].
      unfold fill. rewrite Hrest, U1, U2. cbn [negb].
      set (d2 := mkdec (lit_bytes w more' ++ bytes_of_runs w rs) (d_rle d) (d_rem d) (d_val d) g (d_ok d)).
      assert (P1 : d_rem d2 = N.of_nat (length (d_buf d2) + length more')).
      { cbn [d2 d_rem d_buf]. rewrite Hr, app_length. reflexivity. }
      assert (P2 : d_buf d2 <> []) by (cbn [d2 d_buf]; destruct g; discriminate).
      destruct (lit_take_spec w d2 rs more' want Hwf Hok Hrle Hm' Hsm P1 eq_refl P2 Hwant) as (k & d1 & E & K1 & K2 & K3).
      exists k, d1. cbn [app]. rewrite <- app_assoc. cbn [d2 d_buf] in E, K2, K3. repeat split; try assumption; lia.
    + destruct (lit_take_spec w d rs more want) as (k & d1 & E & K1 & K2 & K3); try assumption.
      * rewrite Ebuf. exact Hr.
      * rewrite Ebuf. discriminate.
      * rewrite Ebuf in E, K2, K3. cbn [negb]. exists k, d1. repeat split; try assumption; lia.
Qed.

(* ------------------------------------------------------------------ get_batch *)

Lemma has_next_false w d p : DS w d p -> has_next d = false -> p = [].
Proof.
  intros HD H. unfold has_next in H.
  destruct HD as [d rs Hwf Hok Hr0 Hrest | d rs k0 Hwf Hok Hrle Hr Hrest | d rs more Hwf Hok Hrle Hm Hs Hr Hrest];
    rewrite Hok in H; cbn [andb] in H; apply orb_false_iff in H; destruct H as [H1 H2];
    apply N.ltb_ge in H1; apply negb_false_iff in H2.
  - destruct (d_rest d) eqn:E; [|discriminate]. symmetry in Hrest. apply bytes_of_runs_nil in Hrest. subst rs. reflexivity.
  - destruct (d_rest d) eqn:E; [|discriminate]. symmetry in Hrest. apply bytes_of_runs_nil in Hrest. subst rs.
    assert (k0 = 0%nat) by lia. subst k0. reflexivity.
  - assert (length (d_buf d) = 0%nat /\ length more = 0%nat) as [L1 L2] by lia.
    destruct (d_buf d); [|discriminate]. destruct more; [|discriminate].
    destruct (d_rest d) eqn:E; [|discriminate]. cbn [lit_bytes length groups_of8 map concat app] in Hrest.
    symmetry in Hrest. apply bytes_of_runs_nil in Hrest. subst rs. reflexivity.
Qed.

Lemma DS_rem0 w d p : DS w d p -> d_rem d = 0 -> exists rs, Forall (wf_run w) rs /\ d_ok d = true
  /\ d_rest d = bytes_of_runs w rs /\ p = runs_vals rs.
Proof.
  intros HD H0.
  destruct HD as [d rs Hwf Hok Hr0 Hrest | d rs k0 Hwf Hok Hrle Hr Hrest | d rs more Hwf Hok Hrle Hm Hs Hr Hrest].
  - exists rs. repeat split; assumption.
  - exists rs. assert (k0 = 0%nat) by lia. subst k0. repeat split; assumption.
  - assert (length (d_buf d) = 0%nat /\ length more = 0%nat) as [L1 L2] by lia.
    destruct (d_buf d); [|discriminate]. destruct more; [|discriminate].
    exists rs. repeat split; assumption.
Qed.

Lemma batch_iter_spec w d p want : (w <= 32)%nat -> DS w d p -> (0 < want)%nat ->
  (p <> [] -> exists k d1, batch_iter w d want = (firstn k p, d1, true)
      /\ (1 <= k <= want)%nat /\ (k <= length p)%nat /\ DS w d1 (skipn k p))
  /\ (p = [] -> exists d1, batch_iter w d want = ([], d1, false) /\ DS w d1 []).
Proof.
  intros Hw HD Hwant. unfold batch_iter. destruct (N.eqb_spec (d_rem d) 0) as [E0|NE0].
  - destruct (DS_rem0 w d p HD E0) as (rs & Hwf & Hok & Hrest & ->).
    assert (Hfuel : (length rs < S (length (d_rest d)))%nat).
    { rewrite Hrest. clear. induction rs as [|r rs IH]; [cbn; lia|].
      rewrite bytes_of_runs_cons, app_length. cbn [length].
      pose proof (bytes_of_run_nonempty w r) as NE. destruct (bytes_of_run w r); [contradiction|cbn [length]; lia]. }
    destruct (start_spec w Hw rs (S (length (d_rest d))) d Hwf Hok E0 Hrest Hfuel) as [ST SF].
    destruct (start_new_run (S (length (d_rest d))) w d) as [d1 ok] eqn:Es. cbn [fst snd] in ST, SF.
    destruct ok; cbn [negb].
    + destruct (ST eq_refl) as [HD1 Hr1]. split.
      * intros _. apply run_iter_spec; assumption.
      * intros Ep. destruct (run_iter_spec w d1 _ want Hw HD1 Hr1 Hwant) as (k & d2 & _ & K1 & K2 & _).
        rewrite Ep in K2. cbn in K2. lia.
    + destruct (SF eq_refl) as [Ep HD1]. split; [intros NE; contradiction|].
      intros _. exists d1. split; [reflexivity|exact HD1].
  - cbn [negb]. assert (Hr : 0 < d_rem d) by lia. split.
    + intros _. apply run_iter_spec; assumption.
    + intros Ep. destruct (run_iter_spec w d p want Hw HD Hr Hwant) as (k & d2 & _ & K1 & K2 & _).
      rewrite Ep in K2. cbn in K2. lia.
Qed.

(** get_batch delivers the next [want] pending values and leaves a state holding the rest:
    the streaming decoder is a cursor over the values the stream denotes *)
Lemma get_batch_spec w : (w <= 32)%nat -> forall fuel want d p, DS w d p -> (want < fuel)%nat ->
  fst (get_batch fuel w d want) = firstn want p /\ DS w (snd (get_batch fuel w d want)) (skipn want p).
Proof.
  intros Hw fuel. induction fuel as [|f IH]; intros want d p HD Hf; [lia|].
  cbn [get_batch]. destruct (Nat.eqb_spec want 0) as [->|Hw0].
  - cbn [fst snd firstn skipn]. split; [reflexivity|exact HD].
  - destruct (has_next d) eqn:Hn; cbn [negb].
    + destruct (batch_iter_spec w d p want Hw HD ltac:(lia)) as [BN BE].
      destruct p as [|x xs].
      * destruct (BE eq_refl) as (d1 & E & HD1). rewrite E. cbn [negb fst snd]. rewrite firstn_nil, skipn_nil.
        split; [reflexivity|exact HD1].
      * destruct (BN ltac:(discriminate)) as (k & d1 & E & K1 & K2 & HD1). rewrite E. cbn [negb].
        assert (Hlen : length (firstn k (x :: xs)) = k) by (apply firstn_length_le; exact K2).
        rewrite Hlen.
        destruct (IH (want - k)%nat d1 _ HD1 ltac:(lia)) as [I1 I2].
        destruct (get_batch f w d1 (want - k)) as [out2 d2]. cbn [fst snd] in *.
        assert (Ew : want = (k + (want - k))%nat) by lia.
        rewrite Ew at 1 2. rewrite firstn_plus, skipn_plus, I1. split; [reflexivity|exact I2].
    + cbn [fst snd]. rewrite (has_next_false w d p HD Hn), firstn_nil, skipn_nil. split; [reflexivity|].
      rewrite <- (has_next_false w d p HD Hn). exact HD.
Qed.

Lemma dec_init_DS w rs : Forall (wf_run w) rs -> DS w (dec_init (bytes_of_runs w rs)) (runs_vals rs).
Proof. intros H. apply (DS_idle w _ rs); [exact H|reflexivity|reflexivity|reflexivity]. Qed.

(** every legal run stream decodes to the values it denotes *)
Lemma decode_all_runs w rs n : (w <= 32)%nat -> Forall (wf_run w) rs ->
  decode_all w (bytes_of_runs w rs) n = firstn n (runs_vals rs).
Proof.
  intros Hw Hwf. unfold decode_all.
  apply (get_batch_spec w Hw (S n) n _ _ (dec_init_DS w rs Hwf)). lia.
Qed.
