(** Executable mirror of the bit writer / bit reader of src/core/bitpack.c (the carquet_bit_writer_ and
    carquet_bit_reader_ functions): a 64-bit accumulator (explicit wrap), bytes drained / refilled eight bits at a time.
    Loops: flush_buffer drains while [buffer_bits >= 8 && byte_pos < capacity], refill_buffer fills while
    [buffer_bits <= 56 && byte_pos < size]; both run at most 8 times on a 64-bit buffer (fuel 9, the extra
    iteration is never taken - BitRwProofs.flush_done / refill_done). *)
From Coq Require Import NArith List Bool.
Import ListNotations.
Local Open Scope N_scope.

Definition wrap64 (x : N) : N := x mod 2 ^ 64.

(* ------------------------------------------------------------------ writer *)

Record bw := { w_out : list N;      (* data[0 .. byte_pos) *)
               w_cap : N;           (* capacity *)
               w_buf : N;           (* buffer *)
               w_bits : N }.        (* buffer_bits *)

Definition bw_init (cap : N) : bw := {| w_out := []; w_cap := cap; w_buf := 0; w_bits := 0 |}.

Definition flush_step (s : bw) : bw :=
  if (8 <=? w_bits s) && (N.of_nat (length (w_out s)) <? w_cap s)
  then {| w_out := w_out s ++ [N.land (w_buf s) 255]; w_cap := w_cap s;
          w_buf := N.shiftr (w_buf s) 8; w_bits := w_bits s - 8 |}
  else s.

Fixpoint flush_n (n : nat) (s : bw) : bw :=
  match n with O => s | S k => flush_n k (flush_step s) end.

Definition flush_buffer (s : bw) : bw := flush_n 9 s.

Definition or_in (s : bw) (x nb : N) : bw :=          (* buffer |= (uint64_t)x << buffer_bits; buffer_bits += nb *)
  {| w_out := w_out s; w_cap := w_cap s;
     w_buf := N.lor (w_buf s) (wrap64 (N.shiftl x (w_bits s))); w_bits := w_bits s + nb |}.

Definition write_bit (s : bw) (bit : N) : bw :=
  let s := or_in s (N.land bit 1) 1 in
  if 56 <=? w_bits s then flush_buffer s else s.

Definition write_bits (s : bw) (value nb : N) : bw :=
  if nb =? 0 then s else
  let nb := if 32 <? nb then 32 else nb in
  let mask := if nb =? 32 then 4294967295 else 2 ^ nb - 1 in
  let s := if 64 <? w_bits s + nb then flush_buffer s else s in        (* the repair 22baf41 *)
  let s := or_in s (N.land value mask) nb in
  if 56 <=? w_bits s then flush_buffer s else s.

Definition write_bits64 (s : bw) (value nb : N) : bw :=
  if nb =? 0 then s else
  let nb := if 64 <? nb then 64 else nb in
  if nb <=? 32 then write_bits s (value mod 2 ^ 32) nb
  else write_bits (write_bits s (value mod 2 ^ 32) 32) (N.shiftr value 32 mod 2 ^ 32) (nb - 32).

Definition bw_flush (s : bw) : bw :=
  let s := flush_buffer s in
  if (0 <? w_bits s) && (N.of_nat (length (w_out s)) <? w_cap s)
  then {| w_out := w_out s ++ [N.land (w_buf s) 255]; w_cap := w_cap s; w_buf := 0; w_bits := 0 |}
  else s.

(* ------------------------------------------------------------------ reader *)

Record br := { r_rest : list N;     (* data[byte_pos .. size) *)
               r_buf : N;
               r_bits : N }.

Definition br_init (data : list N) : br := {| r_rest := data; r_buf := 0; r_bits := 0 |}.

Definition refill_step (s : br) : br :=
  match r_rest s with
  | b :: rest => if r_bits s <=? 56
                 then {| r_rest := rest; r_buf := N.lor (r_buf s) (wrap64 (N.shiftl b (r_bits s))); r_bits := r_bits s + 8 |}
                 else s
  | [] => s
  end.

Fixpoint refill_n (n : nat) (s : br) : br :=
  match n with O => s | S k => refill_n k (refill_step s) end.

Definition refill_buffer (s : br) : br := refill_n 9 s.

(** read_bits: the C code subtracts num_bits from an int that may hold fewer bits when the input is
    exhausted (the result is then the bits that are there, zero-extended, and buffer_bits goes negative);
    the model returns None for that case - the theorems are about reads that the data covers. *)
Definition read_bits (s : br) (nb : N) : option (N * br) :=
  if nb =? 0 then Some (0, s) else
  let nb := if 32 <? nb then 32 else nb in
  let s := if r_bits s <? nb then refill_buffer s else s in
  if r_bits s <? nb then None
  else Some (N.land (r_buf s) (2 ^ nb - 1),
             {| r_rest := r_rest s; r_buf := N.shiftr (r_buf s) nb; r_bits := r_bits s - nb |}).

Definition read_bit (s : br) : option (N * br) :=
  let s := if r_bits s =? 0 then refill_buffer s else s in
  if r_bits s =? 0 then Some (0, s)
  else Some (N.land (r_buf s) 1, {| r_rest := r_rest s; r_buf := N.shiftr (r_buf s) 1; r_bits := r_bits s - 1 |}).

Definition read_bits64 (s : br) (nb : N) : option (N * br) :=
  if nb =? 0 then Some (0, s) else
  let nb := if 64 <? nb then 64 else nb in
  if nb <=? 32 then read_bits s nb
  else match read_bits s 32 with
       | None => None
       | Some (lo, s1) => match read_bits s1 (nb - 32) with
                          | None => None
                          | Some (hi, s2) => Some (N.lor lo (N.shiftl hi 32), s2)
                          end
       end.

Definition remaining_bits (s : br) : N := r_bits s + 8 * N.of_nat (length (r_rest s)).
Definition has_more (s : br) : bool := (0 <? r_bits s) || negb (N.of_nat (length (r_rest s)) =? 0).

(* ------------------------------------------------------------------ call sequences *)

Inductive seg := SBit (b : N) | SBits (v nb : N) | SBits64 (v nb : N).

Definition write_seg (s : bw) (g : seg) : bw :=
  match g with SBit b => write_bit s b | SBits v nb => write_bits s v nb | SBits64 v nb => write_bits64 s v nb end.

Definition write_all (cap : N) (gs : list seg) : bw := bw_flush (fold_left write_seg gs (bw_init cap)).

Definition read_seg (s : br) (g : seg) : option (N * br) :=
  match g with SBit _ => read_bit s | SBits _ nb => read_bits s nb | SBits64 _ nb => read_bits64 s nb end.

Fixpoint read_all (s : br) (gs : list seg) : option (list N * br) :=
  match gs with
  | [] => Some ([], s)
  | g :: r => match read_seg s g with
              | None => None
              | Some (v, s1) => match read_all s1 r with
                                | None => None
                                | Some (vs, s2) => Some (v :: vs, s2)
                                end
              end
  end.
