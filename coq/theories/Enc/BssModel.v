(** Model of src/encoding/byte_stream_split.c and of the scalar transposes in src/simd/dispatch.c
    (scalar_byte_split_{encode,decode}_{float,double}); the SIMD kernels selected at run time are C15's
    business (they are proved/tested equal to the scalar definition there).

    The value array is its flat byte image ([count] values of [k] bytes), as the generic C entry point takes
    it; float and double are the instances k = 4, 8.

      encode : output[b * count + i] = values[i * k + b]
      decode : values[i * k + b]     = data[b * count + i]

    Every read is checked ([Fault OobRead] outside the source buffer); the declared output capacity is
    [output_capacity] for the encoder and [count * k] for the decoder, and every index written is below
    [count * k] by construction of the two loops. *)
From Coq Require Import NArith ZArith List Bool.
From Carquet Require Import Gen.Enums_gen Base.Res Enc.DeltaBits Enc.PlainModel.
Import ListNotations.
Local Open Scope N_scope.

Definition ERR_DECODE : Z := E_CARQUET_ERROR_DECODE.
Definition ERR_ENCODE : Z := E_CARQUET_ERROR_ENCODE.
Definition ERR_INVALID_ARGUMENT : Z := E_CARQUET_ERROR_INVALID_ARGUMENT.

Definition rd (buf : list N) (i : nat) : res N :=
  match nth_error buf i with Some b => Ok b | None => Fault OobRead end.

(** collect [f 0 .. f (n-1)], stopping at the first failure *)
Fixpoint collect (n : nat) (f : nat -> res N) : res (list N) :=
  match n with
  | O => Ok []
  | S n' => match collect n' f with
            | Ok l => match f n' with Ok x => Ok (l ++ [x]) | Err c => Err c | Fault e => Fault e end
            | Err c => Err c
            | Fault e => Fault e
            end
  end.

(** the transposed image: element [j] of the output, j = b * count + i, is src[i * k + b] *)
Definition bss_gather (k count : nat) (src : list N) : res (list N) :=
  collect (k * count) (fun j => rd src ((j mod count) * k + j / count)%nat).

(** the inverse: element [j] of the values, j = i * k + b, is data[b * count + i] *)
Definition bss_scatter (k count : nat) (data : list N) : res (list N) :=
  collect (count * k) (fun j => rd data ((j mod k) * count + j / k)%nat).

(** carquet_byte_stream_split_encode (values, count, type_length, output, output_capacity) *)
Definition bss_encode (k : N) (values : list N) (count cap : N) : res (list N) :=
  if k =? 0 then Err ERR_INVALID_ARGUMENT else
  let required := size_t (count * k) in
  if cap <? required then Err ERR_ENCODE
  else bss_gather (N.to_nat k) (N.to_nat count) values.

(** carquet_byte_stream_split_decode (data, data_size, type_length, values, count) *)
Definition bss_decode (k : N) (data : list N) (count : N) : res (list N) :=
  if k =? 0 then Err ERR_INVALID_ARGUMENT else
  (* count < 0 || (uint64_t)count > data_size / type_length *)
  if len data / k <? count then Err ERR_DECODE
  else bss_scatter (N.to_nat k) (N.to_nat count) data.

Definition bss_encode_float := bss_encode 4.
Definition bss_encode_double := bss_encode 8.
Definition bss_decode_float := bss_decode 4.
Definition bss_decode_double := bss_decode 8.
