(** PLAIN encoding as the Parquet "Encodings" document defines it, written as the reference decoder (and
    encoder) of each physical type.  Independent of the models: only the positional numerals of
    Enc/DeltaBits.v are used ([le_num bs] = the number whose base-256 digits, least significant first, are
    [bs]).

      BOOLEAN               bit-packed, LSB first: value i is bit (i mod 8) of byte (i / 8)
      INT32 / FLOAT         4 bytes little endian        INT64 / DOUBLE   8 bytes little endian
      INT96                 12 bytes little endian
      BYTE_ARRAY            4-byte little-endian length, then the bytes
      FIXED_LEN_BYTE_ARRAY  the bytes

    A decoder reads [count] values from the front of the page data and returns them with the remaining bytes;
    [None] when the data is too short (or a BYTE_ARRAY length has its sign bit set). *)
From Coq Require Import NArith List Bool.
From Carquet Require Import Enc.DeltaBits.
Import ListNotations.
Local Open Scope N_scope.

(** ** fixed width *)
Fixpoint spec_fixed_dec (k : nat) (count : nat) (bs : list N) : option (list N * list N) :=
  match count with
  | O => Some ([], bs)
  | S n => match take k bs with
           | None => None
           | Some (v, rest) => match spec_fixed_dec k n rest with
                               | Some (vs, r) => Some (le_num v :: vs, r)
                               | None => None
                               end
           end
  end.

Definition spec_fixed_enc (k : nat) (vs : list N) : list N := flat_map (le_bytes k) vs.

(** ** BOOLEAN *)
Definition bit_of (bs : list N) (i : nat) : option N :=
  match nth_error bs (Nat.div i 8) with
  | Some b => Some ((b / 2 ^ N.of_nat (Nat.modulo i 8)) mod 2)
  | None => None
  end.

Fixpoint all_some {A} (l : list (option A)) : option (list A) :=
  match l with
  | [] => Some []
  | Some x :: t => match all_some t with Some r => Some (x :: r) | None => None end
  | None :: _ => None
  end.

Definition spec_bool_dec (count : nat) (bs : list N) : option (list N * list N) :=
  match all_some (map (bit_of bs) (seq 0 count)) with
  | Some vs => Some (vs, skipn (Nat.div (count + 7) 8) bs)
  | None => None
  end.

(** byte j of the encoding of [vs] (0/1 values): sum of vs[8j+i] * 2^i *)
Definition spec_bool_enc (vs : list N) : list N :=
  map (fun j => fold_right (fun i acc => acc + nth (8 * j + i)%nat vs 0 * 2 ^ N.of_nat i) 0 (seq 0 8))
      (seq 0 (Nat.div (length vs + 7) 8)).

(** ** BYTE_ARRAY *)
Fixpoint spec_ba_dec (count : nat) (bs : list N) : option (list (list N) * list N) :=
  match count with
  | O => Some ([], bs)
  | S n => match take 4 bs with
           | None => None
           | Some (l4, rest) =>
               let l := le_num l4 in
               if 2 ^ 31 <=? l then None else
               match take (N.to_nat l) rest with
               | None => None
               | Some (s, rest') => match spec_ba_dec n rest' with
                                    | Some (vs, r) => Some (s :: vs, r)
                                    | None => None
                                    end
               end
           end
  end.

Definition spec_ba_enc (vs : list (list N)) : list N := flat_map (fun s => le_bytes 4 (len s) ++ s) vs.

(** ** FIXED_LEN_BYTE_ARRAY *)
Fixpoint spec_flba_dec (flen count : nat) (bs : list N) : option (list (list N) * list N) :=
  match count with
  | O => Some ([], bs)
  | S n => match take flen bs with
           | None => None
           | Some (v, rest) => match spec_flba_dec flen n rest with
                               | Some (vs, r) => Some (v :: vs, r)
                               | None => None
                               end
           end
  end.
