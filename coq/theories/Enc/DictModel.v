(** Model of src/encoding/dictionary.c.

    Builder: the hash table only selects a bucket; membership is decided by `size equal && memcmp == 0` on
    the little-endian value bytes, and a new value gets index [count].  That is first-occurrence-order
    de-duplication, modelled with an association list ([index_of], equality of byte lists).  Consequences
    visible to callers: two NaNs with the same bit pattern share an entry, NaNs with different payloads and
    +0.0 / -0.0 do not.

    The index stream is `bit width byte` + RLE/bit-packed hybrid of the indices; the hybrid codec belongs to
    the RLE engine and enters as the section variables [rle_encode] / [rle_decode]
    (carquet_rle_encode_all / carquet_rle_decode_all: [rle_decode w bytes max] = the values decoded, at
    most [max], or [Err] where the C function returns -1). *)
From Coq Require Import NArith ZArith List Bool.
From Carquet Require Import Gen.Enums_gen Base.Res Enc.DeltaBits Enc.PlainModel.
Import ListNotations.
Local Open Scope N_scope.

Definition ERR_DECODE : Z := E_CARQUET_ERROR_DECODE.
Definition ERR_OUT_OF_MEMORY : Z := E_CARQUET_ERROR_OUT_OF_MEMORY.

Fixpoint bytes_eqb (a b : list N) : bool :=
  match a, b with
  | [], [] => true
  | x :: a', y :: b' => (x =? y) && bytes_eqb a' b'
  | _, _ => false
  end.

(* position of [v] in the dictionary built so far *)
Fixpoint index_of (v : list N) (dict : list (list N)) (i : N) : option N :=
  match dict with
  | [] => None
  | d :: t => if bytes_eqb d v then Some i else index_of v t (i + 1)
  end.

(* dict_builder_add for every input value, in order: (dictionary entries, indices) *)
Fixpoint build (vs : list (list N)) (dict : list (list N)) : list (list N) * list N :=
  match vs with
  | [] => (dict, [])
  | v :: t => match index_of v dict 0 with
              | Some i => let '(d, ix) := build t dict in (d, i :: ix)
              | None => let '(d, ix) := build t (dict ++ [v]) in (d, len dict :: ix)
              end
  end.

(* bit_width_for_count ((uint32_t)count) *)
Definition bit_width_for_count (count : N) : N :=
  if count =? 0 then 0 else let w := N.size (count - 1) in if w =? 0 then 1 else w.

Section WithRle.
  Variable rle_encode : N -> list N -> list N.                 (* bit width, values -> hybrid bytes *)
  Variable rle_decode : N -> list N -> N -> res (list N).      (* bit width, bytes, max values *)

  (* carquet_dictionary_encode_<fixed type>: (dictionary page bytes, index bytes); [k] = value size *)
  Definition dict_encode_fixed (k : nat) (vs : list N) : list N * list N :=
    let '(d, ix) := build (map (le_bytes_f k) vs) [] in
    let bw := bit_width_for_count (len d) in
    (concat d, bw :: rle_encode bw ix).

  (* carquet_dictionary_encode_byte_array: entries carry a 4-byte length prefix *)
  Definition dict_encode_byte_array (vs : list (list N)) : list N * list N :=
    let '(d, ix) := build vs [] in
    let bw := bit_width_for_count (len d) in
    (flat_map (fun s => le_bytes_f 4 (len s) ++ s) d, bw :: rle_encode bw ix).

  (* the look-up loop *)
  Fixpoint lookup (k : nat) (dict : list N) (dict_count : N) (ix : list N) : res (list N) :=
    match ix with
    | [] => Ok []
    | i :: t =>
        if dict_count <=? i then Err ERR_DECODE else
        match take k (skipn (N.to_nat i * k) dict) with
        | None => Fault OobRead
        | Some (v, _) => match lookup k dict dict_count t with
                         | Ok vs => Ok (le_num_f v :: vs)
                         | Err c => Err c
                         | Fault e => Fault e
                         end
        end
    end.

  (* carquet_dictionary_decode_<type> (dict_data, dict_size, dict_count, indices_data, indices_size, output,
     output_count); dict_count is an int32_t given as a signed number *)
  Definition dict_decode_fixed (k : nat) (dict : list N) (dict_count : Z) (indices : list N) (out_count : N)
    : res (list N) :=
    if out_count =? 0 then Ok [] else
    if (dict_count <=? 0)%Z then Err ERR_DECODE else
    let dc := Z.to_N dict_count in
    if len dict <? dc * N.of_nat k then Err ERR_DECODE else
    match indices with
    | [] => Err ERR_DECODE
    | bw :: stream =>
        (* (uint64_t)output_count > SIZE_MAX / sizeof(uint32_t): the index buffer cannot be allocated *)
        if 2 ^ 62 <=? out_count then Err ERR_OUT_OF_MEMORY else
        match rle_decode bw stream out_count with
        | Err _ => Err ERR_DECODE
        | Fault e => Fault e
        | Ok ix =>
            if len ix <? out_count then Err ERR_DECODE else
            (* for (i = 0; i < decoded; i++) output[i] = ...; the output holds out_count elements *)
            if out_count <? len ix then Fault OobWrite else
            lookup k dict dc ix
        end
    end.
End WithRle.
