(** Proofs about the dictionary model (Enc/DictModel.v): round trip of the four typed encoder/decoder pairs (C11)
    and never-fault of the decoders (C08), relative to the index-stream codec: [rle_encode]/[rle_decode] are
    section variables, their round trip and safety are section hypotheses (proved for Enc/RleModel.v by the RLE
    engine). *)
From Coq Require Import NArith ZArith List Bool Lia ZifyBool ZifyNat ZifyN.
From Carquet Require Import Base.Res Enc.DeltaBits Enc.PlainModel Enc.PlainProofs Enc.DictModel.
Import ListNotations.
Local Open Scope N_scope.
Local Arguments N.mul : simpl never.
Local Arguments N.add : simpl never.
Local Arguments N.sub : simpl never.
Local Arguments N.pow : simpl never.
Local Arguments N.to_nat : simpl never.
Local Arguments N.of_nat : simpl never.

Lemma bytes_eqb_eq a b : bytes_eqb a b = true -> a = b.
Proof.
  revert b. induction a as [|x a IH]; intros b H; destruct b as [|y b]; try discriminate; [reflexivity|].
  cbn [bytes_eqb] in H. apply andb_prop in H. destruct H as [E H]. apply N.eqb_eq in E. subst. f_equal. apply IH; exact H.
Qed.

Lemma index_of_spec v dict : forall i j, index_of v dict i = Some j ->
  i <= j /\ nth_error dict (N.to_nat (j - i)) = Some v.
Proof.
  induction dict as [|d t IH]; intros i j H; [discriminate|]. cbn [index_of] in H.
  destruct (bytes_eqb d v) eqn:E.
  - injection H as <-. apply bytes_eqb_eq in E. subst. split; [lia|]. rewrite N.sub_diag. reflexivity.
  - destruct (IH _ _ H) as [L N]. split; [lia|]. replace (N.to_nat (j - i)) with (S (N.to_nat (j - (i + 1)))) by lia.
    exact N.
Qed.

(** the builder: the final dictionary extends the initial one, and every index points at its value *)
Lemma build_spec vs : forall dict d ix, build vs dict = (d, ix) ->
  (exists ext, d = dict ++ ext) /\ Forall2 (fun v i => nth_error d (N.to_nat i) = Some v) vs ix.
Proof.
  induction vs as [|v t IH]; intros dict d ix H.
  - cbn in H. injection H as <- <-. split; [exists []; rewrite app_nil_r; reflexivity|constructor].
  - cbn [build] in H. destruct (index_of v dict 0) as [i|] eqn:IO.
    + destruct (build t dict) as [d' ix'] eqn:B. injection H as <- <-.
      destruct (IH _ _ _ B) as [[ext ->] F]. split; [exists ext; reflexivity|]. constructor; [|exact F].
      destruct (index_of_spec _ _ _ _ IO) as [_ N]. rewrite N.sub_0_r in N.
      rewrite nth_error_app1; [exact N|]. apply nth_error_Some. rewrite N. discriminate.
    + destruct (build t (dict ++ [v])) as [d' ix'] eqn:B. injection H as <- <-.
      destruct (IH _ _ _ B) as [[ext ->] F]. split; [exists ([v] ++ ext); rewrite app_assoc; reflexivity|].
      constructor; [|exact F]. rewrite <- app_assoc. unfold len. rewrite Nat2N.id.
      rewrite nth_error_app2 by lia. rewrite Nat.sub_diag. reflexivity.
Qed.

Lemma index_lt_width n i : i < n -> i < 2 ^ bit_width_for_count n.
Proof.
  intros H. unfold bit_width_for_count. destruct (N.eqb_spec n 0) as [->|Hn]; [lia|].
  destruct (N.eqb_spec (N.size (n - 1)) 0) as [E|E].
  - pose proof (N.size_gt (n - 1)) as G. rewrite E in G. cbn in G. change (2 ^ 1) with 2. lia.
  - eapply N.le_lt_trans; [|apply N.size_gt]. lia.
Qed.

Lemma take_entry k (d : list (list N)) : Forall (fun e => length e = k) d -> forall i v, nth_error d i = Some v ->
  exists r, take k (skipn (i * k) (concat d)) = Some (v, r).
Proof.
  intros H. induction H as [|e t He Ht IH]; intros i v N; [destruct i; discriminate|].
  destruct i as [|i].
  - cbn in N. injection N as <-. cbn [Nat.mul skipn concat]. rewrite <- He. eexists. apply take_app.
  - cbn [nth_error] in N. destruct (IH _ _ N) as [r E]. exists r. cbn [concat].
    replace (S i * k)%nat with (length e + i * k)%nat by (rewrite He; lia).
    rewrite skipn_app. rewrite skipn_all2 by lia. replace (length e + i * k - length e)%nat with (i * k)%nat by lia.
    exact E.
Qed.

Lemma bytes_eqb_refl x : bytes_eqb x x = true.
Proof. induction x; cbn; [reflexivity|rewrite N.eqb_refl; assumption]. Qed.

Lemma index_of_none v dict : forall i, index_of v dict i = None -> ~ In v dict.
Proof.
  induction dict as [|e t IH]; intros i H; [intros []|]. cbn [index_of] in H.
  destruct (bytes_eqb e v) eqn:E; [discriminate|]. intros [->|Hx]; [rewrite bytes_eqb_refl in E; discriminate|].
  eapply IH; eassumption.
Qed.

Lemma NoDup_snoc {A} (l : list A) x : NoDup l -> ~ In x l -> NoDup (l ++ [x]).
Proof.
  intros H. induction H as [|y t Hy Ht IH]; intros Hx; [cbn; constructor; [intros []|constructor]|].
  cbn [app]. constructor.
  - intros Q. apply in_app_or in Q. destruct Q as [Q|[Q|[]]]; [contradiction|subst; apply Hx; left; reflexivity].
  - apply IH. intros Q. apply Hx. right. exact Q.
Qed.

Section WithRle.
  Variable rle_encode : N -> list N -> list N.
  Variable rle_decode : N -> list N -> N -> res (list N).

  (** assumed behaviour of the index-stream codec *)
  Hypothesis rle_roundtrip : forall w ix, w <= 32 -> Forall (fun i => i < 2 ^ w) ix -> len ix < 2 ^ 31 ->
    rle_decode w (rle_encode w ix) (len ix) = Ok ix.

  Lemma lookup_entries k (d : list (list N)) (vs ix : list N) dc :
    Forall (fun e => length e = k) d -> dc = len d ->
    Forall2 (fun v i => nth_error d (N.to_nat i) = Some (le_bytes_f k v)) vs ix ->
    Forall (fun v => v < 256 ^ N.of_nat k) vs ->
    lookup k (concat d) dc ix = Ok vs.
  Proof.
    intros Hd -> F Hv. induction F as [|v i vt it N _ IH]; [reflexivity|]. inversion Hv; subst.
    cbn [lookup].
    assert (Hi : i < len d).
    { unfold len. assert (N.to_nat i < length d)%nat by (apply nth_error_Some; rewrite N; discriminate). lia. }
    assert (E : (len d <=? i) = false) by (apply N.leb_gt; exact Hi). rewrite E.
    destruct (take_entry k d Hd _ _ N) as [r T]. rewrite T, IH by assumption.
    rewrite le_num_f_eq, le_bytes_f_eq, le_num_bytes by assumption. reflexivity.
  Qed.

  Lemma map_entries_length k (vs : list N) : Forall (fun e => length e = k) (map (le_bytes_f k) vs).
  Proof. apply Forall_forall. intros e H. apply in_map_iff in H. destruct H as [v [<- _]]. rewrite le_bytes_f_eq. apply le_bytes_length. Qed.

  Lemma build_entries vs : forall dict d ix (P : list N -> Prop), build vs dict = (d, ix) -> Forall P dict -> Forall P vs -> Forall P d.
  Proof.
    induction vs as [|v t IH]; intros dict d ix P H Hd Hv; [cbn in H; injection H as <- <-; exact Hd|].
    inversion Hv; subst. cbn [build] in H. destruct (index_of v dict 0).
    - destruct (build t dict) as [d' ix'] eqn:B. injection H as <- <-. eapply IH; eassumption.
    - destruct (build t (dict ++ [v])) as [d' ix'] eqn:B. injection H as <- <-. eapply IH; [exact B| |assumption].
      apply Forall_app. split; [assumption|constructor; [assumption|constructor]].
  Qed.

  Lemma build_length vs : forall dict d ix, build vs dict = (d, ix) -> length ix = length vs /\ (length d <= length dict + length vs)%nat.
  Proof.
    induction vs as [|v t IH]; intros dict d ix H; [cbn in H; injection H as <- <-; cbn; lia|].
    cbn [build] in H. destruct (index_of v dict 0).
    - destruct (build t dict) as [d' ix'] eqn:B. injection H as <- <-. destruct (IH _ _ _ B). cbn [length]. lia.
    - destruct (build t (dict ++ [v])) as [d' ix'] eqn:B. injection H as <- <-. destruct (IH _ _ _ B) as [A C].
      rewrite app_length in C. cbn [length] in *. lia.
  Qed.

  (** C11: fixed-width types (k = 4: INT32, FLOAT; k = 8: INT64, DOUBLE).  The dictionary page holds
      [len d / k] entries; that count is what the page header carries to the decoder. *)
  Theorem dict_roundtrip_fixed k vs : (0 < k)%nat -> Forall (fun v => v < 256 ^ N.of_nat k) vs -> len vs < 2 ^ 31 ->
    let '(d, ixs) := dict_encode_fixed rle_encode k vs in
    dict_decode_fixed rle_decode k d (Z.of_N (len d / N.of_nat k)) ixs (len vs) = Ok vs.
  Proof.
    intros Hk Hv Hl. unfold dict_encode_fixed. destruct (build (map (le_bytes_f k) vs) []) as [d ix] eqn:B.
    destruct (build_spec _ _ _ _ B) as [_ F]. destruct (build_length _ _ _ _ B) as [Lix Ld]. rewrite map_length in Lix, Ld.
    pose proof (build_entries _ _ _ _ (fun e => length e = k) B ltac:(constructor) (map_entries_length k vs)) as Hd.
    unfold dict_decode_fixed. destruct (N.eqb_spec (len vs) 0) as [E0|E0].
    { destruct vs; [reflexivity|unfold len in E0; cbn [length] in E0; lia]. }
    assert (Lc : len (concat d) = len d * N.of_nat k).
    { clear - Hd. induction Hd as [|e t He _ IH]; [reflexivity|]. cbn [concat]. unfold len in *. rewrite app_length. cbn [length]. lia. }
    rewrite Lc, N.div_mul by lia.
    assert (Hdne : 0 < len d).
    { destruct vs as [|v t]; [contradiction E0; reflexivity|]. inversion F as [|? i ? ? N _]; subst.
      unfold len. assert (N.to_nat i < length d)%nat by (apply nth_error_Some; rewrite N; discriminate). lia. }
    assert (E1 : (Z.of_N (len d) <=? 0)%Z = false) by (apply Z.leb_gt; lia). rewrite E1, N2Z.id, N.ltb_irrefl.
    assert (Fi : Forall (fun i => i < 2 ^ bit_width_for_count (len d)) ix).
    { clear - F. induction F as [|v i vt it N _ IH]; constructor; [|exact IH]. apply index_lt_width.
      unfold len. assert (N.to_nat i < length d)%nat by (apply nth_error_Some; rewrite N; discriminate). lia. }
    assert (Lx : len ix = len vs) by (unfold len; rewrite Lix; reflexivity).
    assert (Hw : bit_width_for_count (len d) <= 32).
    { unfold bit_width_for_count. destruct (len d =? 0); [lia|]. destruct (N.size (len d - 1) =? 0) eqn:Es; [lia|].
      apply N.eqb_neq in Es. rewrite N.size_log2 by (intros Q; rewrite Q in Es; apply Es; reflexivity).
      assert (Hdl : len d <= len vs) by (unfold len; cbn [length] in Ld; lia).
      assert (P32 : 2 ^ 31 < 2 ^ 32) by reflexivity.
      apply N.le_succ_l. apply N.log2_lt_pow2; [|lia].
      destruct (N.eq_dec (len d - 1) 0) as [Q|Q]; [rewrite Q in Es; contradiction Es; reflexivity|lia]. }
    assert (E62 : (2 ^ 62 <=? len vs) = false) by (apply N.leb_gt; eapply N.lt_trans; [exact Hl|reflexivity]).
    rewrite E62. rewrite <- Lx, rle_roundtrip by (try assumption; rewrite Lx; exact Hl). rewrite N.ltb_irrefl.
    apply lookup_entries; try assumption; [reflexivity|].
    clear - F. revert ix F. induction vs as [|v t IH]; intros ix F; inversion F; subst; constructor; auto.
  Qed.

  (** the four typed pairs *)
  Corollary dict_roundtrip_int32 vs : Forall (fun v => v < 2 ^ 32) vs -> len vs < 2 ^ 31 ->
    let '(d, ixs) := dict_encode_fixed rle_encode 4 vs in
    dict_decode_fixed rle_decode 4 d (Z.of_N (len d / 4)) ixs (len vs) = Ok vs.
  Proof. intros H L. apply (dict_roundtrip_fixed 4); [lia|exact H|exact L]. Qed.

  Corollary dict_roundtrip_float vs : Forall (fun v => v < 2 ^ 32) vs -> len vs < 2 ^ 31 ->
    let '(d, ixs) := dict_encode_fixed rle_encode 4 vs in
    dict_decode_fixed rle_decode 4 d (Z.of_N (len d / 4)) ixs (len vs) = Ok vs.
  Proof. apply dict_roundtrip_int32. Qed.

  Corollary dict_roundtrip_int64 vs : Forall (fun v => v < 2 ^ 64) vs -> len vs < 2 ^ 31 ->
    let '(d, ixs) := dict_encode_fixed rle_encode 8 vs in
    dict_decode_fixed rle_decode 8 d (Z.of_N (len d / 8)) ixs (len vs) = Ok vs.
  Proof. intros H L. apply (dict_roundtrip_fixed 8); [lia|exact H|exact L]. Qed.

  Corollary dict_roundtrip_double vs : Forall (fun v => v < 2 ^ 64) vs -> len vs < 2 ^ 31 ->
    let '(d, ixs) := dict_encode_fixed rle_encode 8 vs in
    dict_decode_fixed rle_decode 8 d (Z.of_N (len d / 8)) ixs (len vs) = Ok vs.
  Proof. apply dict_roundtrip_int64. Qed.

  (** BYTE_ARRAY has an encoder only: its dictionary page is the PLAIN encoding of the distinct values, and the
      indices select the original values from it *)
  Theorem dict_byte_array_sound vs : 
    let '(d, ix) := build vs [] in
    fst (dict_encode_byte_array rle_encode vs) = plain_encode_byte_array d /\
    Forall2 (fun v i => nth_error d (N.to_nat i) = Some v) vs ix /\ NoDup d.
  Proof.
    unfold dict_encode_byte_array. destruct (build vs []) as [d ix] eqn:B. cbn [fst].
    split; [reflexivity|]. split; [apply (build_spec _ _ _ _ B)|].
    assert (G : forall vs dict d ix, build vs dict = (d, ix) -> NoDup dict -> NoDup d).
    { clear. induction vs as [|v t IH]; intros dict d ix H ND; [cbn in H; injection H as <- <-; exact ND|].
      cbn [build] in H. destruct (index_of v dict 0) eqn:IO.
      - destruct (build t dict) as [d' ix'] eqn:B. injection H as <- <-. eapply IH; eassumption.
      - destruct (build t (dict ++ [v])) as [d' ix'] eqn:B. injection H as <- <-. eapply IH; [exact B|].
        apply NoDup_snoc; [exact ND|]. eapply index_of_none; exact IO. }
    eapply G; [exact B|constructor].
  Qed.

End WithRle.

Section WithRleSafe.
  Variable rle_decode : N -> list N -> N -> res (list N).

  (** C08: the decoders never fault, given a safe index decoder that respects [max] *)
  Hypothesis rle_nofault : forall w bs max f, rle_decode w bs max <> Fault f.
  Hypothesis rle_le_max : forall w bs max ix, rle_decode w bs max = Ok ix -> len ix <= max.

  Lemma lookup_nofault k dict dc : dc * N.of_nat k <= len dict -> forall ix,
    (forall f, lookup k dict dc ix <> Fault f) /\ (forall vs, lookup k dict dc ix = Ok vs -> length vs = length ix).
  Proof.
    intros H. induction ix as [|i t [NF SZ]]; [split; [intros f; discriminate|intros vs Q; injection Q as <-; reflexivity]|].
    cbn [lookup]. destruct (dc <=? i) eqn:E; [split; [intros f; discriminate|intros; discriminate]|]. apply N.leb_gt in E.
    rewrite take_some by (rewrite skipn_length; unfold len in H; nia).
    destruct (lookup k dict dc t) as [vs|c|e].
    - split; [intros f; discriminate|]. intros vs' Q. injection Q as <-. cbn [length]. rewrite (SZ _ eq_refl). reflexivity.
    - split; [intros f; discriminate|intros; discriminate].
    - exfalso. apply (NF e). reflexivity.
  Qed.

  Theorem dict_decode_never_faults k dict dc indices out_count : forall f,
    dict_decode_fixed rle_decode k dict dc indices out_count <> Fault f.
  Proof.
    intros f. unfold dict_decode_fixed. destruct (out_count =? 0); [discriminate|].
    destruct (dc <=? 0)%Z; [discriminate|].
    destruct (len dict <? Z.to_N dc * N.of_nat k) eqn:E; [discriminate|]. apply N.ltb_ge in E.
    destruct indices as [|bw stream]; [discriminate|]. destruct (2 ^ 62 <=? out_count); [discriminate|].
    pose proof (rle_nofault bw stream out_count) as NF. pose proof (rle_le_max bw stream out_count) as LE.
    destruct (rle_decode bw stream out_count) as [ix|c|e]; [|discriminate|exfalso; apply (NF e); reflexivity].
    destruct (len ix <? out_count); [discriminate|].
    specialize (LE _ eq_refl). assert (E2 : (out_count <? len ix) = false) by (apply N.ltb_ge; exact LE). rewrite E2.
    apply (lookup_nofault k dict (Z.to_N dc) E ix).
  Qed.

  Theorem dict_decode_result_size k dict dc indices out_count vs :
    dict_decode_fixed rle_decode k dict dc indices out_count = Ok vs -> len vs <= out_count.
  Proof.
    unfold dict_decode_fixed. destruct (out_count =? 0); [intros Q; injection Q as <-; unfold len; cbn [length]; lia|].
    destruct (dc <=? 0)%Z; [discriminate|].
    destruct (len dict <? Z.to_N dc * N.of_nat k) eqn:E; [discriminate|]. apply N.ltb_ge in E.
    destruct indices as [|bw stream]; [discriminate|]. destruct (2 ^ 62 <=? out_count); [discriminate|].
    pose proof (rle_le_max bw stream out_count) as LE.
    destruct (rle_decode bw stream out_count) as [ix|c|e]; try discriminate.
    destruct (len ix <? out_count); [discriminate|]. specialize (LE _ eq_refl).
    assert (E2 : (out_count <? len ix) = false) by (apply N.ltb_ge; exact LE). rewrite E2.
    intros Q. destruct (lookup_nofault k dict (Z.to_N dc) E ix) as [_ SZ]. unfold len in LE |- *. rewrite (SZ _ Q). exact LE.
  Qed.
End WithRleSafe.
