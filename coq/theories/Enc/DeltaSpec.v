(** DELTA_BINARY_PACKED, DELTA_LENGTH_BYTE_ARRAY and DELTA_BYTE_ARRAY as the Parquet "Encodings" document
    defines them, written as reference decoders that accept every legal stream.  Independent of the models:
    arithmetic on [Z]/[N] with * + / mod only, the positional numerals of Enc/DeltaBits.v for bit packing
    ("the values of a mini-block are the base-2^w digits of the number whose base-256 digits are its bytes").

    DELTA_BINARY_PACKED
      header  <block size> <mini-blocks per block> <total value count> <first value>
              ULEB128, ULEB128, ULEB128, zig-zag ULEB128; block size a multiple of 128, mini-block size
              (block size / mini-blocks) a multiple of 32
      block   <min delta> <bit widths> <mini-blocks>
              zig-zag ULEB128, one byte per mini-block, each mini-block = (mini-block size) values
              bit-packed LSB first at its width (0..64; for INT32 at most 32)
      value i+1 = value i + min delta + packed delta, wrapping in two's complement.
      The last block holds only the mini-blocks that are needed: width bytes of the others are present and
      arbitrary, their data is absent; the last needed mini-block is padded to full size with arbitrary values.
    ULEB128 numbers may carry redundant zero groups (at most 10 bytes, value below 2^64).

    Values are returned as two's complement bit patterns of [bits] bits (64 or 32). *)
From Coq Require Import NArith ZArith List Bool.
From Carquet Require Import Enc.DeltaBits.
Import ListNotations.
Local Open Scope N_scope.

(** ** ULEB128 and zig-zag *)
Fixpoint uleb_groups (fuel : nat) (bs : list N) : option (N * list N) :=
  match fuel with
  | O => None
  | S f => match bs with
           | [] => None
           | b :: t => if b <? 128 then Some (b, t)
                       else match uleb_groups f t with
                            | Some (v, r) => Some ((b - 128) + 128 * v, r)
                            | None => None
                            end
           end
  end.

Definition read_uleb (bs : list N) : option (N * list N) :=
  match uleb_groups 10 bs with
  | Some (v, r) => if v <? 2 ^ 64 then Some (v, r) else None
  | None => None
  end.

(** zig-zag: 0, -1, 1, -2, 2, ... *)
Definition unzigzag (z : N) : Z :=
  if N.even z then Z.of_N (z / 2) else (- Z.of_N ((z + 1) / 2))%Z.

Definition read_zigzag (bs : list N) : option (Z * list N) :=
  match read_uleb bs with Some (v, r) => Some (unzigzag v, r) | None => None end.

(** two's complement pattern of [bits] bits *)
Definition wrap (bits : N) (x : Z) : N := Z.to_N (x mod 2 ^ Z.of_N bits).

(** ** Geometry *)
Definition legal_geometry (block minis : N) : bool :=
  negb (block =? 0) && (block mod 128 =? 0) && negb (minis =? 0) && (block mod minis =? 0)
  && ((block / minis) mod 32 =? 0).

(** ** Blocks *)
(* the values still wanted ([r]) from the deltas [ds] of one mini-block *)
Fixpoint spec_sums (last md : Z) (ds : list N) : list Z * Z :=
  match ds with
  | [] => ([], last)
  | d :: t => let v := (last + md + Z.of_N d)%Z in let '(vs, l) := spec_sums v md t in (v :: vs, l)
  end.

Fixpoint spec_minis (maxw : N) (per : nat) (md : Z) (ws : list N) (rest : list N) (last : Z) (r : nat)
  : option (list Z * list N * Z * nat) :=
  match ws with
  | [] => Some ([], rest, last, r)
  | w :: ws' =>
      match r with
      | O => Some ([], rest, last, r)          (* not needed: width byte arbitrary, no data *)
      | _ =>
          if maxw <? w then None else
          match take (N.to_nat (N.of_nat per * w / 8)) rest with
          | None => None
          | Some (bs, rest1) =>
              let ds := firstn r (digits w per (le_num bs)) in
              let '(vals, last') := spec_sums last md ds in
              match spec_minis maxw per md ws' rest1 last' (r - length ds) with
              | Some (more, rest2, last'', r'') => Some (vals ++ more, rest2, last'', r'')
              | None => None
              end
          end
      end
  end.

Fixpoint spec_blocks (fuel : nat) (maxw : N) (per minis : nat) (rest : list N) (last : Z) (r : nat)
  : option (list Z * list N) :=
  match r with
  | O => Some ([], rest)
  | _ =>
    match fuel with
    | O => None
    | S f =>
        match read_zigzag rest with
        | None => None
        | Some (md, rest1) =>
            match take minis rest1 with
            | None => None
            | Some (ws, rest2) =>
                match spec_minis maxw per md ws rest2 last r with
                | None => None
                | Some (vals, rest3, last', r') =>
                    match spec_blocks f maxw per minis rest3 last' r' with
                    | Some (more, rest4) => Some (vals ++ more, rest4)
                    | None => None
                    end
                end
            end
        end
    end
  end.

Record delta_stream : Type := {
  ds_block : N; ds_minis : N; ds_values : list N; ds_rest : list N
}.

(** the reference decoder: all values of the stream at the front of [bs], and what follows it *)
Definition spec_delta_decode (bits : N) (bs : list N) : option delta_stream :=
  match read_uleb bs with
  | None => None
  | Some (block, r1) =>
      match read_uleb r1 with
      | None => None
      | Some (minis, r2) =>
          if negb (legal_geometry block minis) then None else
          match read_uleb r2 with
          | None => None
          | Some (total, r3) =>
              match read_zigzag r3 with
              | None => None
              | Some (first, r4) =>
                  if total =? 0 then Some {| ds_block := block; ds_minis := minis; ds_values := []; ds_rest := r4 |}
                  else
                  match spec_blocks (N.to_nat total) bits (N.to_nat (block / minis)) (N.to_nat minis)
                                    r4 first (N.to_nat total - 1) with
                  | None => None
                  | Some (vals, rest) =>
                      Some {| ds_block := block; ds_minis := minis;
                              ds_values := map (wrap bits) (first :: vals); ds_rest := rest |}
                  end
              end
          end
      end
  end.

(** ** DELTA_LENGTH_BYTE_ARRAY: the lengths (DELTA_BINARY_PACKED, INT32), then the bytes back to back *)
Fixpoint spec_cut (ls : list N) (data : list N) : option (list (list N) * list N) :=
  match ls with
  | [] => Some ([], data)
  | l :: t => if 2 ^ 31 <=? l then None else
              match take (N.to_nat l) data with
              | None => None
              | Some (s, rest) => match spec_cut t rest with
                                  | Some (ss, r) => Some (s :: ss, r)
                                  | None => None
                                  end
              end
  end.

Definition spec_delta_length_decode (bs : list N) : option (list (list N) * list N) :=
  match spec_delta_decode 32 bs with
  | None => None
  | Some st => spec_cut (ds_values st) (ds_rest st)
  end.

(** ** DELTA_BYTE_ARRAY: prefix lengths (DELTA_BINARY_PACKED), then the suffixes as DELTA_LENGTH_BYTE_ARRAY;
       string i = first (prefix i) bytes of string i-1, then suffix i *)
Fixpoint spec_join (prev : list N) (ps : list N) (sufs : list (list N)) : option (list (list N)) :=
  match ps, sufs with
  | [], [] => Some []
  | p :: pt, s :: st =>
      if len prev <? p then None else
      let str := firstn (N.to_nat p) prev ++ s in
      match spec_join str pt st with Some r => Some (str :: r) | None => None end
  | _, _ => None
  end.

Definition spec_delta_strings_decode (bs : list N) : option (list (list N) * list N) :=
  match spec_delta_decode 32 bs with
  | None => None
  | Some st =>
      match spec_delta_length_decode (ds_rest st) with
      | None => None
      | Some (sufs, rest) =>
          match spec_join [] (ds_values st) sufs with
          | Some strs => Some (strs, rest)
          | None => None
          end
      end
  end.
