(** Model of src/encoding/rle.c: the streaming decoder (start_new_run, fill_bitpack_buffer,
    has_next, get, get_batch, skip), decode_all, and the encoder (put, flush, flush_rle,
    flush_bitpack, encode_all).  The decoder walks a byte list [d_rest] (= data + pos .. data + size);
    every bounds test of the C code is the corresponding length test. *)
From Coq Require Import NArith Arith List Bool.
From Carquet Require Import Base.Res Enc.BitpackModel.
Import ListNotations.
Local Open Scope N_scope.

Definition u32 (x : N) : N := x mod 2 ^ 32.
Definition value_mask (w : nat) : N := if Nat.leb 32 w then 0xFFFFFFFF else N.ones (N.of_nat w).
Definition vbytes (w : nat) : nat := Nat.div (w + 7) 8.

(* ------------------------------------------------------------------ decoder *)

Record dec : Type := mkdec {
  d_rest : list N;      (* unread input *)
  d_rle : bool;         (* in_rle_run *)
  d_rem : N;            (* run_remaining *)
  d_val : N;            (* rle_value *)
  d_buf : list N;       (* bitpack_buffer[bitpack_pos .. bitpack_count) *)
  d_ok : bool           (* status == CARQUET_OK *)
}.

Definition dec_init (data : list N) : dec := mkdec data false 0 0 [] true.

(** read_varint: at most 5 bytes (shift < 32), accumulating in a uint32_t *)
Fixpoint read_varint (fuel : nat) (shift acc : N) (bs : list N) : option (N * list N) :=
  match fuel with
  | O => None
  | S f => match bs with
           | [] => None
           | b :: tl =>
             let acc' := N.lor acc (u32 (N.shiftl (N.land b 0x7F) shift)) in
             if N.land b 0x80 =? 0 then Some (acc', tl) else read_varint f (shift + 7) acc' tl
           end
  end.

Definition set_err (d : dec) : dec := mkdec (d_rest d) (d_rle d) (d_rem d) (d_val d) (d_buf d) false.

(** start_new_run: returns the new state and the C return value.  The loop over empty runs
    ("goto again") consumes at least one byte per round; [fuel] bounds it by the input length. *)
Fixpoint start_new_run (fuel : nat) (w : nat) (d : dec) : dec * bool :=
  match fuel with
  | O => (d, false)
  | S f =>
    match d_rest d with
    | [] => (d, false)
    | _ =>
      match read_varint 5 0 0 (d_rest d) with
      | None => (set_err d, false)
      | Some (header, tl) =>
        if N.land header 1 =? 0 then
          let n := N.shiftr header 1 in
          if Nat.ltb (length tl) (vbytes w)
          then (mkdec tl true n (d_val d) (d_buf d) false, false)
          else
            let d1 := mkdec (skipn (vbytes w) tl) true n
                            (N.land (le_val (firstn (vbytes w) tl)) (value_mask w)) (d_buf d) (d_ok d) in
            if n =? 0 then start_new_run f w d1      (* empty run: its value bytes are consumed; "goto again" *)
            else (d1, true)
        else
          let groups := N.shiftr header 1 in
          if groups =? 0 then start_new_run f w (mkdec tl false 0 (d_val d) (d_buf d) (d_ok d))
          else (mkdec tl false (groups * 8) (d_val d) [] (d_ok d), true)
      end
    end
  end.

Definition has_next (d : dec) : bool :=
  d_ok d && ((0 <? d_rem d) || negb (match d_rest d with [] => true | _ => false end)).

(** fill_bitpack_buffer (called with run_remaining > 0) *)
Definition fill (w : nat) (d : dec) : dec * bool :=
  match unpack8 w (d_rest d) with
  | Ok g => (mkdec (skipn w (d_rest d)) (d_rle d) (d_rem d) (d_val d) g (d_ok d), true)
  | _ => (set_err d, false)       (* pos + bit_width > size *)
  end.

Definition nmin (want : nat) (avail : N) : nat :=
  if N.of_nat want <=? avail then want else N.to_nat avail.

(** copy out of the bit-pack buffer: min(count - read, run_remaining, buffered) values *)
Definition lit_take (d2 : dec) (want : nat) : list N * dec * bool :=
  let k := Nat.min (nmin want (d_rem d2)) (length (d_buf d2)) in
  (firstn k (d_buf d2),
   mkdec (d_rest d2) false (d_rem d2 - N.of_nat k) (d_val d2) (skipn k (d_buf d2)) (d_ok d2), true).

(** inside a run with run_remaining > 0 *)
Definition run_iter (w : nat) (d1 : dec) (want : nat) : list N * dec * bool :=
  if d_rle d1 then
    let k := nmin want (d_rem d1) in
    (repeat (d_val d1) k, mkdec (d_rest d1) true (d_rem d1 - N.of_nat k) (d_val d1) (d_buf d1) (d_ok d1), true)
  else
    let '(d2, ok2) := match d_buf d1 with [] => fill w d1 | _ => (d1, true) end in
    if negb ok2 then ([], d2, false) else lit_take d2 want.

(** one pass of the body of get_batch's loops: delivers at least one value or stops *)
Definition batch_iter (w : nat) (d : dec) (want : nat) : list N * dec * bool :=
  let '(d1, ok) := if d_rem d =? 0 then start_new_run (S (length (d_rest d))) w d else (d, true) in
  if negb ok then ([], d1, false) else run_iter w d1 want.

(** carquet_rle_decoder_get_batch(dec, output, count) *)
Fixpoint get_batch (fuel : nat) (w : nat) (d : dec) (want : nat) : list N * dec :=
  match fuel with
  | O => ([], d)
  | S f =>
    if Nat.eqb want 0 then ([], d)
    else if negb (has_next d) then ([], d)
    else
      let '(out, d1, go) := batch_iter w d want in
      if negb go then (out, d1)
      else let '(out2, d2) := get_batch f w d1 (want - length out) in (out ++ out2, d2)
  end.

(** carquet_rle_decode_all(input, size, bit_width, output, max_values) *)
Definition decode_all (w : nat) (data : list N) (max_values : nat) : list N :=
  fst (get_batch (S max_values) w (dec_init data) max_values).

(** carquet_rle_decoder_get *)
Definition get (w : nat) (d : dec) : N * dec :=
  if negb (d_ok d) then (0, d)
  else
    let '(d1, ok) := if d_rem d =? 0 then start_new_run (S (length (d_rest d))) w d else (d, true) in
    if negb ok then (0, d1)
    else if d_rle d1 then
      (d_val d1, mkdec (d_rest d1) true (d_rem d1 - 1) (d_val d1) (d_buf d1) (d_ok d1))
    else
      let '(d2, ok2) := match d_buf d1 with [] => fill w d1 | _ => (d1, true) end in
      if negb ok2 then (0, d2)
      else match d_buf d2 with
           | [] => (0, d2)
           | x :: tl => (x, mkdec (d_rest d2) false (d_rem d2 - 1) (d_val d2) tl (d_ok d2))
           end.

(** carquet_rle_decoder_skip: same walk as get_batch without output *)
Fixpoint skip (fuel : nat) (w : nat) (d : dec) (want : nat) : nat * dec :=
  match fuel with
  | O => (O, d)
  | S f =>
    if Nat.eqb want 0 then (O, d)
    else if negb (has_next d) then (O, d)
    else
      let '(out, d1, go) := batch_iter w d want in
      if negb go then (length out, d1)
      else let '(n2, d2) := skip f w d1 (want - length out) in ((length out + n2)%nat, d2)
  end.

(* ------------------------------------------------------------------ encoder *)

(** write_varint on a uint32_t *)
Fixpoint write_varint (fuel : nat) (x : N) : list N :=
  match fuel with
  | O => []
  | S f => if x <? 0x80 then [x] else (N.lor (N.land x 0x7F) 0x80) :: write_varint f (N.shiftr x 7)
  end.
Definition varint32 (x : N) : list N := write_varint 5 (u32 x).

(** flush_rle's payload: header (repeat_count << 1) then the value in ceil(w/8) bytes *)
Definition rle_chunk (w : nat) (count : nat) (v : N) : list N :=
  varint32 (N.of_nat count * 2) ++ map (fun i => N.shiftr v (N.of_nat (i * 8)) mod 256) (seq 0 (vbytes w)).

(** flush_bitpack's payload for a buffer of 1..8 values: pad to 8, header (num_groups << 1) | 1 with
    num_groups = (bitpack_total + 7) / 8, then the packed group once per group *)
Definition lit_chunk (w : nat) (bp : list N) : list N :=
  let groups := Nat.div (length bp + 7) 8 in
  varint32 (N.of_nat groups * 2 + 1)
  ++ concat (repeat (pack8 w (bp ++ repeat 0 (8 - length bp))) groups).

Record enc : Type := mkenc {
  e_out : list N;       (* bytes appended to the buffer so far *)
  e_prev : N;           (* prev_value *)
  e_rc : nat;           (* repeat_count *)
  e_has : bool;         (* has_prev *)
  e_bp : list N         (* bitpack_buffer[0 .. bitpack_count)  (bitpack_total == bitpack_count) *)
}.

Definition enc_init : enc := mkenc [] 0 O false [].

Definition flush_rle (w : nat) (s : enc) : enc :=
  match e_rc s with
  | O => s
  | _ => mkenc (e_out s ++ rle_chunk w (e_rc s) (e_prev s)) (e_prev s) O (e_has s) (e_bp s)
  end.

Definition flush_bitpack (w : nat) (s : enc) : enc :=
  match e_bp s with
  | [] => s
  | _ => mkenc (e_out s ++ lit_chunk w (e_bp s)) (e_prev s) (e_rc s) (e_has s) []
  end.

(** the top-up loop added by the repair of DESIGN F1: while (repeat_count >= 8 && 0 < bitpack_count < 8) *)
Fixpoint topup (fuel : nat) (s : enc) : enc :=
  match fuel with
  | O => s
  | S f => if Nat.leb 8 (e_rc s) && Nat.ltb 0 (length (e_bp s)) && Nat.ltb (length (e_bp s)) 8
           then topup f (mkenc (e_out s) (e_prev s) (e_rc s - 1) (e_has s) (e_bp s ++ [e_prev s]))
           else s
  end.

(** for (i < repeat_count) { buffer[count++] = prev; if (count == 8) flush_bitpack } ; repeat_count = 0 *)
Fixpoint add_literals (w : nat) (n : nat) (s : enc) : enc :=
  match n with
  | O => mkenc (e_out s) (e_prev s) O (e_has s) (e_bp s)
  | S n' =>
    let s1 := mkenc (e_out s) (e_prev s) (e_rc s) (e_has s) (e_bp s ++ [e_prev s]) in
    add_literals w n' (if Nat.eqb (length (e_bp s1)) 8 then flush_bitpack w s1 else s1)
  end.

(** ... followed by: if (bitpack_count == 8) flush_bitpack *)
Definition topup_flush (w : nat) (s : enc) : enc :=
  let s1 := topup 8 s in
  if Nat.eqb (length (e_bp s1)) 8 then flush_bitpack w s1 else s1.

Definition close_run (w : nat) (s : enc) : enc :=
  let s1 := topup_flush w s in
  if Nat.leb 8 (e_rc s1) then flush_rle w (flush_bitpack w s1)
  else add_literals w (e_rc s1) s1.

(** carquet_rle_encoder_put *)
Definition put (w : nat) (s : enc) (v : N) : enc :=
  if negb (e_has s) then mkenc (e_out s) v 1 true (e_bp s)
  else if v =? e_prev s then mkenc (e_out s) (e_prev s) (S (e_rc s)) true (e_bp s)
  else let s1 := close_run w s in mkenc (e_out s1) v 1 true (e_bp s1).

(** carquet_rle_encoder_flush *)
Definition flush (w : nat) (s : enc) : enc :=
  let s1 := topup_flush w s in
  if Nat.leb 8 (e_rc s1) then flush_rle w (flush_bitpack w s1)
  else if Nat.ltb 0 (e_rc s1) then flush_bitpack w (add_literals w (e_rc s1) s1)
  else s1.

(** carquet_rle_encode_all *)
Definition encode_all (w : nat) (vs : list N) : list N :=
  e_out (flush w (fold_left (put w) vs enc_init)).
