(** Capacity bound of the RLE decoder on ARBITRARY input bytes (feeds C08): get_batch never delivers
    more values than requested, whatever the state and the input. *)
From Coq Require Import NArith Arith List Bool Lia.
From Carquet Require Import Base.Res Enc.BitpackModel Enc.RleModel.
Import ListNotations.
Local Open Scope N_scope.

Lemma nmin_le want r : (nmin want r <= want)%nat.
Proof. unfold nmin. destruct (N.leb_spec (N.of_nat want) r); lia. Qed.

Lemma run_iter_len w d want : (length (fst (fst (run_iter w d want))) <= want)%nat.
Proof.
  unfold run_iter. destruct (d_rle d).
  - cbn [fst]. rewrite repeat_length. apply nmin_le.
  - destruct (match d_buf d with [] => fill w d | _ :: _ => (d, true) end) as [d2 ok2].
    destruct ok2; cbn [negb fst]; [|cbn; lia].
    unfold lit_take. cbn [fst]. rewrite firstn_length. pose proof (nmin_le want (d_rem d2)). lia.
Qed.

Lemma batch_iter_len w d want : (length (fst (fst (batch_iter w d want))) <= want)%nat.
Proof.
  unfold batch_iter.
  destruct (if d_rem d =? 0 then start_new_run (S (length (d_rest d))) w d else (d, true)) as [d1 ok].
  destruct ok; cbn [negb]; [apply run_iter_len|cbn; lia].
Qed.

Lemma get_batch_len w : forall fuel d want, (length (fst (get_batch fuel w d want)) <= want)%nat.
Proof.
  induction fuel as [|f IH]; intros d want; [cbn; lia|].
  cbn [get_batch]. destruct (Nat.eqb want 0); [cbn; lia|].
  destruct (negb (has_next d)); [cbn; lia|].
  pose proof (batch_iter_len w d want) as L.
  destruct (batch_iter w d want) as [[out d1] go]. cbn [fst] in L.
  destruct go; cbn [negb]; [|cbn [fst]; exact L].
  specialize (IH d1 (want - length out)%nat).
  destruct (get_batch f w d1 (want - length out)) as [out2 d2]. cbn [fst] in *.
  rewrite app_length. lia.
Qed.

(** carquet_rle_decode_all writes at most max_values entries of the output array *)
Lemma decode_all_len w data max : (length (decode_all w data max) <= max)%nat.
Proof. unfold decode_all. apply get_batch_len. Qed.
