(** Bit packing: the specification round-trips, and the model computes the specification. *)
From Coq Require Import NArith Arith List Bool Lia.
From Carquet Require Import Base.Res Base.Bits Enc.BitpackSpec Enc.BitpackModel.
Import ListNotations.
Local Open Scope N_scope.

(* ------------------------------------------------------------------ positional numerals *)

Lemma to_base_length B n x : length (to_base B n x) = n.
Proof. revert x. induction n as [|n IH]; intro x; cbn [to_base length]; [reflexivity|]. rewrite IH. reflexivity. Qed.

Lemma to_from_base B ds : B <> 0 -> Forall (fun d => d < B) ds ->
  to_base B (length ds) (from_base B ds) = ds.
Proof.
  intros HB H. induction H as [|d ds Hd Hds IH]; [reflexivity|].
  cbn [length to_base from_base fold_right]. fold (from_base B ds).
  assert (E1 : (d + B * from_base B ds) mod B = d).
  { rewrite N.mul_comm, N.mod_add by exact HB. apply N.mod_small, Hd. }
  assert (E2 : (d + B * from_base B ds) / B = from_base B ds).
  { rewrite N.mul_comm, N.div_add by exact HB. rewrite (N.div_small d B Hd). reflexivity. }
  rewrite E1, E2, IH. reflexivity.
Qed.

Lemma from_to_base B n x : B <> 0 -> x < B ^ N.of_nat n -> from_base B (to_base B n x) = x.
Proof.
  intros HB. revert x. induction n as [|n IH]; intros x Hx.
  - cbn in *. lia.
  - cbn [to_base from_base fold_right]. fold (from_base B (to_base B n (x / B))).
    rewrite IH.
    + rewrite N.add_comm. symmetry. apply N.div_mod, HB.
    + apply N.div_lt_upper_bound; [exact HB|].
      replace (B * B ^ N.of_nat n) with (B ^ N.of_nat (S n)); [exact Hx|].
      rewrite Nat2N.inj_succ, N.pow_succ_r'. reflexivity.
Qed.

Lemma from_base_lt B ds : Forall (fun d => d < B) ds -> from_base B ds < B ^ N.of_nat (length ds).
Proof.
  intros H. induction H as [|d ds Hd Hds IH]; [cbn; lia|].
  cbn [length from_base fold_right]. fold (from_base B ds).
  rewrite Nat2N.inj_succ, N.pow_succ_r'. nia.
Qed.

Lemma to_base_digits B n x : B <> 0 ->
  to_base B n x = map (fun i => (x / B ^ N.of_nat i) mod B) (seq 0 n).
Proof.
  intros HB. revert x. induction n as [|n IH]; intro x; [reflexivity|].
  cbn [to_base seq map]. rewrite N.pow_0_r, N.div_1_r. f_equal.
  rewrite IH, <- seq_shift, map_map. apply map_ext. intro i.
  rewrite Nat2N.inj_succ, N.pow_succ_r', N.div_div by (try apply N.pow_nonzero; exact HB). reflexivity.
Qed.

Lemma pow2_nonzero k : 2 ^ k <> 0.
Proof. apply N.pow_nonzero. discriminate. Qed.

Lemma regroup w : (2 ^ N.of_nat w) ^ N.of_nat 8 = 256 ^ N.of_nat w.
Proof.
  rewrite <- N.pow_mul_r. change 256 with (2 ^ 8). rewrite <- N.pow_mul_r. f_equal. lia.
Qed.

(* ------------------------------------------------------------------ specification round trip *)

Lemma mod_list_lt w vs : Forall (fun d => d < 2 ^ N.of_nat w) (map (fun v => v mod 2 ^ N.of_nat w) vs).
Proof. apply Forall_forall. intros d Hd. apply in_map_iff in Hd. destruct Hd as (v & <- & _). apply N.mod_lt, pow2_nonzero. Qed.

Lemma pack_spec_length w vs : length (pack_spec w vs) = w.
Proof. apply to_base_length. Qed.

Lemma pack_unpack_spec w vs : length vs = 8%nat ->
  unpack_spec w (pack_spec w vs) = map (fun v => v mod 2 ^ N.of_nat w) vs.
Proof.
  intros Hl. unfold unpack_spec, pack_spec.
  set (ds := map (fun v => v mod 2 ^ N.of_nat w) vs).
  assert (Hds : Forall (fun d => d < 2 ^ N.of_nat w) ds) by apply mod_list_lt.
  assert (Hlen : length ds = 8%nat) by (unfold ds; rewrite map_length; exact Hl).
  rewrite from_to_base.
  - rewrite <- Hlen. apply to_from_base; [apply pow2_nonzero|exact Hds].
  - discriminate.
  - rewrite <- regroup. pose proof (from_base_lt _ _ Hds) as L. rewrite Hlen in L. exact L.
Qed.

(* ------------------------------------------------------------------ model = specification *)

Lemma le_val_from_base bs : le_val bs = from_base 256 bs.
Proof. reflexivity. Qed.

Lemma le_bytes_to_base n x : le_bytes n x = to_base 256 n x.
Proof. revert x. induction n as [|n IH]; intro x; cbn [le_bytes to_base]; [reflexivity|]. rewrite IH. reflexivity. Qed.

Lemma unpack8_spec w input : (w <= length input)%nat ->
  unpack8 w input = Ok (unpack_spec w (firstn w input)).
Proof.
  intros Hl. unfold unpack8. destruct (Nat.ltb_spec (length input) w) as [L|_]; [lia|].
  f_equal. unfold unpack_spec. rewrite to_base_digits by apply pow2_nonzero.
  apply map_ext. intro i. unfold mask. rewrite N.land_ones, N.shiftr_div_pow2, le_val_from_base.
  rewrite <- N.pow_mul_r. do 3 f_equal. lia.
Qed.

Lemma unpack8_short w input : (length input < w)%nat -> unpack8 w input = Fault OobRead.
Proof. intros Hl. unfold unpack8. destruct (Nat.ltb_spec (length input) w) as [_|L]; [reflexivity|lia]. Qed.

Lemma land_mask v w : N.land v (mask w) = v mod 2 ^ N.of_nat w.
Proof. unfold mask. apply N.land_ones. Qed.

(** scatter: or-ing the masked values at their bit offsets builds the base-2^w numeral *)
Lemma scatter_aux w : forall (vs : list N) (k : nat) (acc : N),
  acc < 2 ^ N.of_nat (k * w) ->
  fold_left (fun a iv => N.lor a (N.shiftl (N.land (snd iv) (mask w)) (N.of_nat (fst iv * w))))
            (combine (seq k (length vs)) vs) acc
  = acc + 2 ^ N.of_nat (k * w) * from_base (2 ^ N.of_nat w) (map (fun v => v mod 2 ^ N.of_nat w) vs).
Proof.
  induction vs as [|v vs IH]; intros k acc Hacc.
  - cbn. lia.
  - cbn [length seq combine fold_left fst snd map from_base fold_right].
    fold (from_base (2 ^ N.of_nat w) (map (fun v => v mod 2 ^ N.of_nat w) vs)).
    rewrite (land_mask v w), N.shiftl_mul_pow2.
    set (d := v mod 2 ^ N.of_nat w). set (P := 2 ^ N.of_nat (k * w)).
    assert (Hd : d < 2 ^ N.of_nat w) by (apply N.mod_lt, pow2_nonzero).
    assert (E : N.lor acc (d * P) = acc + P * d).
    { unfold P. rewrite add_shift_lxor by exact Hacc. rewrite (N.mul_comm d).
      symmetry. apply N.lxor_lor. apply N.bits_inj_iff; intro m. rewrite N.land_spec, N.bits_0.
      destruct (N.lt_ge_cases m (N.of_nat (k * w))) as [L|G].
      - rewrite N.mul_comm, N.mul_pow2_bits_low by exact L. apply andb_false_r.
      - rewrite (testbit_high_lt acc _ m Hacc G). reflexivity. }
    rewrite E, IH.
    + replace (2 ^ N.of_nat (S k * w)) with (P * 2 ^ N.of_nat w).
      * lia.
      * unfold P. rewrite <- N.pow_add_r. f_equal. lia.
    + replace (2 ^ N.of_nat (S k * w)) with (P * 2 ^ N.of_nat w).
      * nia.
      * unfold P. rewrite <- N.pow_add_r. f_equal. lia.
Qed.

Lemma scatter_spec w vs : length vs = 8%nat ->
  scatter w vs = from_base (2 ^ N.of_nat w) (map (fun v => v mod 2 ^ N.of_nat w) vs).
Proof.
  intros Hl. unfold scatter. rewrite <- Hl.
  rewrite (scatter_aux w vs 0 0) by (cbn; lia). cbn [Nat.mul N.of_nat]. rewrite N.pow_0_r. lia.
Qed.

Lemma pack8_spec w vs : length vs = 8%nat -> pack8 w vs = pack_spec w vs.
Proof. intros Hl. unfold pack8, pack_spec. rewrite le_bytes_to_base, scatter_spec by exact Hl. reflexivity. Qed.

Lemma pack8_length w vs : length (pack8 w vs) = w.
Proof. unfold pack8. rewrite le_bytes_to_base. apply to_base_length. Qed.

Lemma pack8_bytes w vs : Forall (fun b => b < 256) (pack8 w vs).
Proof.
  unfold pack8. rewrite le_bytes_to_base. generalize (scatter w vs). induction w as [|w IH]; intro x; cbn [to_base]; constructor.
  - apply N.mod_lt. discriminate.
  - apply IH.
Qed.

(* ------------------------------------------------------------------ model round trip *)

Lemma unpack8_pack8 w vs rest : length vs = 8%nat ->
  unpack8 w (pack8 w vs ++ rest) = Ok (map (fun v => v mod 2 ^ N.of_nat w) vs).
Proof.
  intros Hl. rewrite unpack8_spec by (rewrite app_length, pack8_length; lia).
  rewrite firstn_app, pack8_length, Nat.sub_diag, firstn_O, app_nil_r.
  rewrite firstn_all2 by (rewrite pack8_length; lia).
  rewrite pack8_spec by exact Hl. rewrite pack_unpack_spec by exact Hl. reflexivity.
Qed.

Lemma unpack8_pack8_small w vs rest : length vs = 8%nat -> Forall (fun v => v < 2 ^ N.of_nat w) vs ->
  unpack8 w (pack8 w vs ++ rest) = Ok vs.
Proof.
  intros Hl Hv. rewrite unpack8_pack8 by exact Hl. f_equal.
  rewrite <- (map_id vs) at 2. apply map_ext_in. intros v Hin. apply N.mod_small.
  rewrite Forall_forall in Hv. apply Hv, Hin.
Qed.

Example pack8_example : pack8 3 [0;1;2;3;4;5;6;7] = [0x88; 0xC6; 0xFA].
Proof. vm_compute. reflexivity. Qed.   (* the worked example of the Parquet Encodings document *)
