(** The bit writer / bit reader of core/bitpack.c refine the arithmetic bit stream of BitRwSpec:
    whatever sequence of write_bit / write_bits / write_bits64 calls (any widths, any values) is made into a buffer
    that is large enough, the bytes are the little-endian digits of the stream number, and reading the same
    widths back returns the values (masked to their widths). *)
From Coq Require Import NArith Arith List Bool Lia.
From Carquet Require Import Base.Bits Enc.BitpackSpec Enc.BitpackProofs Enc.BitRwSpec Enc.BitRwModel.
Import ListNotations.
Local Open Scope N_scope.

(* ------------------------------------------------------------------ arithmetic helpers *)

Lemma from_base_app B a b : from_base B (a ++ b) = from_base B a + B ^ N.of_nat (length a) * from_base B b.
Proof.
  unfold from_base. induction a as [|x a IH]; cbn [app length fold_right].
  - change (N.of_nat 0) with 0. rewrite N.pow_0_r. lia.
  - rewrite IH, Nat2N.inj_succ, N.pow_succ_r'. lia.
Qed.

Lemma pow256 n : 256 ^ n = 2 ^ (8 * n).
Proof. change 256 with (2 ^ 8). rewrite <- N.pow_mul_r. reflexivity. Qed.

Lemma land255 x : N.land x 255 = x mod 256.
Proof. change 255 with (N.ones 8). rewrite N.land_ones. reflexivity. Qed.

Lemma land_mask_pow x n : N.land x (2 ^ n - 1) = x mod 2 ^ n.
Proof. rewrite <- N.land_ones. f_equal. rewrite N.ones_equiv, N.pred_sub. reflexivity. Qed.

Lemma shiftr8 x : N.shiftr x 8 = x / 256.
Proof. rewrite N.shiftr_div_pow2. reflexivity. Qed.

Lemma pow2_pos n : 0 < 2 ^ n.
Proof. apply N.neq_0_lt_0, N.pow_nonzero. discriminate. Qed.

Lemma pow2_le a b : a <= b -> 2 ^ a <= 2 ^ b.
Proof. intro H. apply N.pow_le_mono_r; [discriminate|exact H]. Qed.

Lemma pow2_split a b : a <= b -> 2 ^ b = 2 ^ a * 2 ^ (b - a).
Proof. intro H. rewrite <- N.pow_add_r. f_equal. lia. Qed.

Lemma mod_low x y k n : k <= n -> (x + 2 ^ n * y) mod 2 ^ k = x mod 2 ^ k.
Proof.
  intro H. rewrite (pow2_split k n H), <- N.mul_assoc, (N.mul_comm (2 ^ k)).
  rewrite N.mod_add; [reflexivity|]. apply N.pow_nonzero. discriminate.
Qed.

Lemma div_low x y k n : x < 2 ^ n -> k <= n -> (x + 2 ^ n * y) / 2 ^ k = x / 2 ^ k + 2 ^ (n - k) * y.
Proof.
  intros Hx H. rewrite (pow2_split k n H), <- N.mul_assoc, (N.mul_comm (2 ^ k)).
  rewrite N.div_add; [reflexivity|]. apply N.pow_nonzero. discriminate.
Qed.

Lemma div_lt_pow x k n : x < 2 ^ n -> k <= n -> x / 2 ^ k < 2 ^ (n - k).
Proof.
  intros Hx H. apply N.div_lt_upper_bound; [apply N.pow_nonzero; discriminate|].
  rewrite <- (pow2_split k n H). exact Hx.
Qed.

Lemma mod_mod_pow x k n : k <= n -> (x mod 2 ^ n) mod 2 ^ k = x mod 2 ^ k.
Proof.
  intro H. rewrite (pow2_split k n H).
  rewrite N.mod_mul_r by (apply N.pow_nonzero; discriminate).
  rewrite (N.mul_comm (2 ^ k)), N.mod_add by (apply N.pow_nonzero; discriminate).
  apply N.mod_mod. apply N.pow_nonzero. discriminate.
Qed.

Lemma mod_split x a b : x mod 2 ^ (a + b) = x mod 2 ^ a + 2 ^ a * ((x / 2 ^ a) mod 2 ^ b).
Proof. rewrite N.pow_add_r. apply N.mod_mul_r; apply N.pow_nonzero; discriminate. Qed.

(* ------------------------------------------------------------------ the stream number *)

Lemma stream_val_app fs gs : stream_val (fs ++ gs) = stream_val fs + 2 ^ stream_bits fs * stream_val gs.
Proof.
  induction fs as [|[v w] fs IH]; cbn [app stream_val stream_bits fold_right snd].
  - rewrite N.pow_0_r. lia.
  - fold (stream_bits fs). rewrite IH, N.pow_add_r. lia.
Qed.

Lemma stream_bits_app fs gs : stream_bits (fs ++ gs) = stream_bits fs + stream_bits gs.
Proof. unfold stream_bits. induction fs as [|f fs IH]; cbn [app fold_right]; [reflexivity|]. rewrite IH. lia. Qed.

Lemma stream_val_lt fs : stream_val fs < 2 ^ stream_bits fs.
Proof.
  induction fs as [|[v w] fs IH]; cbn [stream_val stream_bits fold_right snd].
  - rewrite N.pow_0_r. lia.
  - fold (stream_bits fs). rewrite N.pow_add_r.
    pose proof (N.mod_lt v (2 ^ w) (N.pow_nonzero 2 w ltac:(discriminate))) as Hm.
    pose proof (pow2_pos w). nia.
Qed.

Lemma read_fields_stream fs y :
  read_fields (stream_val fs + 2 ^ stream_bits fs * y) (map snd fs) = stream_values fs.
Proof.
  revert y. induction fs as [|[v w] fs IH]; intro y; cbn [stream_val stream_bits fold_right snd map read_fields stream_values fst].
  - reflexivity.
  - fold (stream_bits fs). fold (stream_values fs). f_equal.
    + rewrite N.pow_add_r, <- !N.add_assoc, <- N.mul_assoc, <- N.mul_add_distr_l.
      rewrite (N.mul_comm (2 ^ w)), N.mod_add by (apply N.pow_nonzero; discriminate).
      apply N.mod_mod. apply N.pow_nonzero. discriminate.
    + rewrite N.pow_add_r, <- !N.add_assoc, <- N.mul_assoc, <- N.mul_add_distr_l.
      rewrite (N.mul_comm (2 ^ w)), N.div_add by (apply N.pow_nonzero; discriminate).
      rewrite N.div_small by (apply N.mod_lt, N.pow_nonzero; discriminate).
      rewrite N.add_0_l. apply IH.
Qed.

(* ------------------------------------------------------------------ writer *)

Definition aval (s : bw) : N := from_base 256 (w_out s) + 2 ^ (8 * N.of_nat (length (w_out s))) * w_buf s.
Definition abits (s : bw) : N := 8 * N.of_nat (length (w_out s)) + w_bits s.

Record WInv (s : bw) : Prop := {
  wi_bytes : Forall (fun b => b < 256) (w_out s);
  wi_buf : w_buf s < 2 ^ w_bits s;
  wi_room : abits s <= 8 * w_cap s }.

Lemma flush_step_spec s : WInv s ->
  let s' := flush_step s in
  aval s' = aval s /\ abits s' = abits s /\ WInv s' /\ w_cap s' = w_cap s /\
  (8 <= w_bits s -> w_bits s' = w_bits s - 8) /\ (w_bits s < 8 -> s' = s).
Proof.
  intros [Hb Hbuf Hroom]. unfold flush_step.
  destruct (8 <=? w_bits s) eqn:E8; cbn [andb].
  2:{ apply N.leb_gt in E8. repeat split; try assumption; try reflexivity; intros; lia. }
  apply N.leb_le in E8.
  destruct (N.of_nat (length (w_out s)) <? w_cap s) eqn:Ec.
  2:{ apply N.ltb_ge in Ec. unfold abits in Hroom. lia. }
  apply N.ltb_lt in Ec. cbv zeta.
  assert (Hq : w_buf s / 256 < 2 ^ (w_bits s - 8)).
  { change 256 with (2 ^ 8). apply div_lt_pow; assumption. }
  assert (Hlen : N.of_nat (length (w_out s ++ [N.land (w_buf s) 255])) = N.of_nat (length (w_out s)) + 1).
  { rewrite app_length. cbn [length]. lia. }
  refine (conj _ (conj _ (conj _ (conj _ (conj _ _))))).
  - unfold aval. cbn [w_out w_buf]. rewrite Hlen, from_base_app, land255, shiftr8.
    unfold from_base at 2. cbn [fold_right]. rewrite pow256.
    replace (8 * (N.of_nat (length (w_out s)) + 1)) with (8 * N.of_nat (length (w_out s)) + 8) by lia.
    rewrite N.pow_add_r. change (2 ^ 8) with 256.
    pose proof (N.div_mod (w_buf s) 256 ltac:(discriminate)) as Hd.
    set (P := 2 ^ (8 * N.of_nat (length (w_out s)))) in *.
    set (q := w_buf s / 256) in *. set (r := w_buf s mod 256) in *. clearbody P q r. nia.
  - unfold abits. cbn [w_out w_bits]. rewrite Hlen. lia.
  - constructor.
    + cbn [w_out]. apply Forall_app. split; [exact Hb|]. constructor; [|constructor].
      rewrite land255. apply N.mod_lt. discriminate.
    + cbn [w_buf w_bits]. rewrite shiftr8. exact Hq.
    + unfold abits in *. cbn [w_out w_bits w_cap]. rewrite Hlen. lia.
  - reflexivity.
  - intros _. reflexivity.
  - intro. lia.
Qed.

Lemma flush_n_spec n : forall s, WInv s -> w_bits s <= 8 * N.of_nat n + 7 ->
  let s' := flush_n n s in
  aval s' = aval s /\ abits s' = abits s /\ WInv s' /\ w_cap s' = w_cap s /\ w_bits s' < 8.
Proof.
  induction n as [|n IH]; intros s HI Hb; cbn [flush_n].
  - refine (conj eq_refl (conj eq_refl (conj HI (conj eq_refl _)))). cbn in Hb. lia.
  - destruct (flush_step_spec s HI) as (Ha & Hbits & HI' & Hc & Hdec & Hsame).
    destruct (N.lt_ge_cases (w_bits s) 8) as [Hlt|Hge].
    + rewrite (Hsame Hlt). apply IH; [exact HI|lia].
    + specialize (Hdec Hge).
      destruct (IH (flush_step s) HI') as (A & B & C & D & E); [lia|].
      cbv zeta. rewrite A, B, D, Ha, Hbits, Hc. refine (conj eq_refl (conj eq_refl (conj C (conj eq_refl E)))).
Qed.

Lemma flush_buffer_spec s : WInv s -> w_bits s <= 79 ->
  let s' := flush_buffer s in
  aval s' = aval s /\ abits s' = abits s /\ WInv s' /\ w_cap s' = w_cap s /\ w_bits s' < 8.
Proof. intros HI Hb. apply (flush_n_spec 9 s HI). cbn. exact Hb. Qed.

(** the loop condition is false when the 9 iterations are over: the fuel is never exhausted *)
Lemma flush_done s : WInv s -> w_bits s <= 79 -> flush_step (flush_buffer s) = flush_buffer s.
Proof.
  intros HI Hb. destruct (flush_buffer_spec s HI Hb) as (_ & _ & HI' & _ & Hlt).
  apply (flush_step_spec _ HI'). exact Hlt.
Qed.

Lemma or_in_spec s x nb : WInv s -> x < 2 ^ nb -> w_bits s + nb <= 64 -> abits s + nb <= 8 * w_cap s ->
  let s' := or_in s x nb in
  aval s' = aval s + 2 ^ abits s * x /\ abits s' = abits s + nb /\ WInv s' /\ w_cap s' = w_cap s /\
  w_bits s' = w_bits s + nb.
Proof.
  intros [Hb Hbuf Hroom] Hx H64 Hcap. unfold or_in. cbv zeta.
  assert (Hsh : N.shiftl x (w_bits s) = x * 2 ^ w_bits s) by apply N.shiftl_mul_pow2.
  assert (Hlt : x * 2 ^ w_bits s < 2 ^ 64).
  { apply N.lt_le_trans with (2 ^ nb * 2 ^ w_bits s).
    - apply N.mul_lt_mono_pos_r; [apply pow2_pos|exact Hx].
    - rewrite <- N.pow_add_r. apply pow2_le. lia. }
  assert (Hw : wrap64 (N.shiftl x (w_bits s)) = x * 2 ^ w_bits s).
  { unfold wrap64. rewrite Hsh. apply N.mod_small. exact Hlt. }
  assert (Hor : N.lor (w_buf s) (wrap64 (N.shiftl x (w_bits s))) = w_buf s + 2 ^ w_bits s * x).
  { rewrite Hw. apply lor_shift_add. exact Hbuf. }
  refine (conj _ (conj _ (conj _ (conj eq_refl eq_refl)))).
  - unfold aval, abits. cbn [w_out w_buf]. rewrite Hor, N.pow_add_r. lia.
  - unfold abits. cbn [w_out w_bits]. lia.
  - constructor.
    + exact Hb.
    + cbn [w_buf w_bits]. rewrite Hor, N.pow_add_r. pose proof (pow2_pos (w_bits s)). nia.
    + unfold abits in *. cbn [w_out w_bits w_cap]. lia.
Qed.

(** one field of at most 32 bits written with at most 55 bits pending *)
Lemma write_field_spec s v nb : WInv s -> w_bits s <= 55 -> 0 < nb -> nb <= 32 ->
  abits s + nb <= 8 * w_cap s ->
  let s' := write_bits s v nb in
  aval s' = aval s + 2 ^ abits s * (v mod 2 ^ nb) /\ abits s' = abits s + nb /\ WInv s' /\
  w_cap s' = w_cap s /\ w_bits s' <= 55.
Proof.
  intros HI H55 Hpos H32 Hcap. unfold write_bits.
  destruct (nb =? 0) eqn:E0; [apply N.eqb_eq in E0; lia|].
  destruct (32 <? nb) eqn:E32; [apply N.ltb_lt in E32; lia|]. cbv zeta.
  assert (Hmask : N.land v (if nb =? 32 then 4294967295 else 2 ^ nb - 1) = v mod 2 ^ nb).
  { destruct (nb =? 32) eqn:E; [apply N.eqb_eq in E; subst nb; change 4294967295 with (2 ^ 32 - 1)|]; apply land_mask_pow. }
  rewrite Hmask.
  assert (Hm : v mod 2 ^ nb < 2 ^ nb) by (apply N.mod_lt, N.pow_nonzero; discriminate).
  (* the flush in front (the repair) *)
  set (s1 := if 64 <? w_bits s + nb then flush_buffer s else s).
  assert (H1 : aval s1 = aval s /\ abits s1 = abits s /\ WInv s1 /\ w_cap s1 = w_cap s /\ w_bits s1 + nb <= 64 /\ w_bits s1 <= 55).
  { subst s1. destruct (64 <? w_bits s + nb) eqn:E.
    - destruct (flush_buffer_spec s HI ltac:(lia)) as (A & B & C & D & E').
      refine (conj A (conj B (conj C (conj D (conj _ _))))); lia.
    - apply N.ltb_ge in E. refine (conj eq_refl (conj eq_refl (conj HI (conj eq_refl (conj E H55))))). }
  destruct H1 as (A1 & B1 & I1 & C1 & L1 & L1').
  destruct (or_in_spec s1 (v mod 2 ^ nb) nb I1 Hm L1 ltac:(lia)) as (A2 & B2 & I2 & C2 & W2).
  set (s2 := or_in s1 (v mod 2 ^ nb) nb) in *.
  destruct (56 <=? w_bits s2) eqn:E56.
  - destruct (flush_buffer_spec s2 I2 ltac:(lia)) as (A3 & B3 & I3 & C3 & L3).
    rewrite A3, B3, C3, A2, B2, C2, A1, B1, C1. refine (conj eq_refl (conj eq_refl (conj I3 (conj eq_refl _)))). lia.
  - apply N.leb_gt in E56. rewrite A2, B2, C2, A1, B1, C1. refine (conj eq_refl (conj eq_refl (conj I2 (conj eq_refl _)))). lia.
Qed.

Lemma write_bit_spec s b : WInv s -> w_bits s <= 55 -> abits s + 1 <= 8 * w_cap s ->
  let s' := write_bit s b in
  aval s' = aval s + 2 ^ abits s * (b mod 2 ^ 1) /\ abits s' = abits s + 1 /\ WInv s' /\
  w_cap s' = w_cap s /\ w_bits s' <= 55.
Proof.
  intros HI H55 Hcap. unfold write_bit. cbv zeta.
  assert (Hl : N.land b 1 = b mod 2 ^ 1) by (change 1 with (2 ^ 1 - 1) at 1; apply land_mask_pow).
  rewrite Hl.
  assert (Hm : b mod 2 ^ 1 < 2 ^ 1) by (apply N.mod_lt; discriminate).
  destruct (or_in_spec s (b mod 2 ^ 1) 1 HI Hm ltac:(lia) Hcap) as (A2 & B2 & I2 & C2 & W2).
  set (s2 := or_in s (b mod 2 ^ 1) 1) in *.
  destruct (56 <=? w_bits s2) eqn:E56.
  - destruct (flush_buffer_spec s2 I2 ltac:(lia)) as (A3 & B3 & I3 & C3 & L3).
    rewrite A3, B3, C3, A2, B2, C2. refine (conj eq_refl (conj eq_refl (conj I3 (conj eq_refl _)))). lia.
  - apply N.leb_gt in E56. rewrite A2, B2, C2. refine (conj eq_refl (conj eq_refl (conj I2 (conj eq_refl _)))). lia.
Qed.

(* ------------------------------------------------------------------ call sequences, writer side *)

(** the fields a call appends to the stream *)
Definition fields_of (g : seg) : list field :=
  match g with
  | SBit b => [(b, 1)]
  | SBits v nb => if nb =? 0 then [] else [(v, if 32 <? nb then 32 else nb)]
  | SBits64 v nb =>
      if nb =? 0 then [] else
      let nb := if 64 <? nb then 64 else nb in
      if nb <=? 32 then [(v mod 2 ^ 32, nb)] else [(v mod 2 ^ 32, 32); (N.shiftr v 32 mod 2 ^ 32, nb - 32)]
  end.

Definition all_fields (gs : list seg) : list field := concat (map fields_of gs).

Definition WGood (s : bw) : Prop := WInv s /\ w_bits s <= 55.

Lemma write_seg_spec s g : WGood s -> abits s + stream_bits (fields_of g) <= 8 * w_cap s ->
  let s' := write_seg s g in
  aval s' = aval s + 2 ^ abits s * stream_val (fields_of g) /\
  abits s' = abits s + stream_bits (fields_of g) /\ WGood s' /\ w_cap s' = w_cap s.
Proof.
  intros [HI H55] Hcap. destruct g as [b|v nb|v nb]; cbn [write_seg fields_of] in *.
  - cbn [stream_bits stream_val fold_right snd] in *. rewrite N.add_0_r in Hcap.
    destruct (write_bit_spec s b HI H55 Hcap) as (A & B & C & D & E).
    cbv zeta. rewrite A, B, D, N.mul_0_r, !N.add_0_r. refine (conj eq_refl (conj eq_refl (conj (conj C E) eq_refl))).
  - destruct (nb =? 0) eqn:E0.
    + assert (Hw : write_bits s v nb = s) by (unfold write_bits; rewrite E0; reflexivity).
      rewrite Hw. cbn [stream_bits stream_val fold_right]. cbv zeta. rewrite N.mul_0_r, !N.add_0_r.
      refine (conj eq_refl (conj eq_refl (conj (conj HI H55) eq_refl))).
    + apply N.eqb_neq in E0.
      cbn [stream_bits stream_val fold_right snd] in *. rewrite N.add_0_r in Hcap.
      destruct (32 <? nb) eqn:E32.
      * assert (Hw : write_bits s v nb = write_bits s v 32).
        { unfold write_bits. rewrite E32. destruct (nb =? 0) eqn:E; [apply N.eqb_eq in E; lia|]. reflexivity. }
        rewrite Hw. destruct (write_field_spec s v 32 HI H55 ltac:(lia) ltac:(lia) Hcap) as (A & B & C & D & E).
        cbv zeta. rewrite A, B, D, N.mul_0_r, !N.add_0_r. refine (conj eq_refl (conj eq_refl (conj (conj C E) eq_refl))).
      * apply N.ltb_ge in E32.
        destruct (write_field_spec s v nb HI H55 ltac:(lia) E32 Hcap) as (A & B & C & D & E).
        cbv zeta. rewrite A, B, D, N.mul_0_r, !N.add_0_r. refine (conj eq_refl (conj eq_refl (conj (conj C E) eq_refl))).
  - unfold write_bits64. destruct (nb =? 0) eqn:E0.
    + cbn [stream_bits stream_val fold_right]. cbv zeta. rewrite N.mul_0_r, !N.add_0_r.
      refine (conj eq_refl (conj eq_refl (conj (conj HI H55) eq_refl))).
    + apply N.eqb_neq in E0. cbv zeta in *.
      set (n := if 64 <? nb then 64 else nb) in *.
      assert (Hn : 0 < n /\ n <= 64).
      { subst n. destruct (64 <? nb) eqn:E; [lia|]. apply N.ltb_ge in E. lia. }
      destruct (n <=? 32) eqn:E32.
      * apply N.leb_le in E32. cbn [stream_bits stream_val fold_right snd] in *. rewrite N.add_0_r in Hcap.
        destruct (write_field_spec s (v mod 2 ^ 32) n HI H55 ltac:(lia) E32 Hcap) as (A & B & C & D & E).
        rewrite A, B, D, N.mul_0_r, !N.add_0_r. refine (conj eq_refl (conj eq_refl (conj (conj C E) eq_refl))).
      * apply N.leb_gt in E32. cbn [stream_bits stream_val fold_right snd] in *. rewrite N.add_0_r in Hcap.
        destruct (write_field_spec s (v mod 2 ^ 32) 32 HI H55 ltac:(lia) ltac:(lia) ltac:(lia)) as (A & B & C & D & E).
        set (s1 := write_bits s (v mod 2 ^ 32) 32) in *.
        destruct (write_field_spec s1 (N.shiftr v 32 mod 2 ^ 32) (n - 32) C E ltac:(lia) ltac:(lia) ltac:(lia)) as (A2 & B2 & C2 & D2 & E2).
        rewrite A2, B2, D2, A, B, D, N.mul_0_r, !N.add_0_r, N.pow_add_r.
        refine (conj _ (conj _ (conj (conj C2 E2) eq_refl))); lia.
Qed.

Lemma write_segs_spec gs : forall s, WGood s -> abits s + stream_bits (all_fields gs) <= 8 * w_cap s ->
  let s' := fold_left write_seg gs s in
  aval s' = aval s + 2 ^ abits s * stream_val (all_fields gs) /\
  abits s' = abits s + stream_bits (all_fields gs) /\ WGood s' /\ w_cap s' = w_cap s.
Proof.
  induction gs as [|g gs IH]; intros s HG Hcap; cbn [fold_left].
  - unfold all_fields. cbn [map concat stream_val stream_bits fold_right]. rewrite N.mul_0_r, !N.add_0_r.
    refine (conj eq_refl (conj eq_refl (conj HG eq_refl))).
  - unfold all_fields in *. cbn [map concat] in *. rewrite stream_bits_app in Hcap.
    destruct (write_seg_spec s g HG ltac:(lia)) as (A & B & C & D).
    destruct (IH (write_seg s g) C ltac:(rewrite B, D; lia)) as (A2 & B2 & C2 & D2).
    cbv zeta. rewrite A2, B2, D2, A, B, D, stream_val_app, stream_bits_app, N.pow_add_r.
    refine (conj _ (conj _ (conj C2 eq_refl))); lia.
Qed.

Lemma final_byte_spec s1 : WInv s1 -> w_bits s1 < 8 ->
  let s' := if (0 <? w_bits s1) && (N.of_nat (length (w_out s1)) <? w_cap s1)
            then {| w_out := w_out s1 ++ [N.land (w_buf s1) 255]; w_cap := w_cap s1; w_buf := 0; w_bits := 0 |}
            else s1 in
  Forall (fun b => b < 256) (w_out s') /\ from_base 256 (w_out s') = aval s1 /\
  N.of_nat (length (w_out s')) = (abits s1 + 7) / 8.
Proof.
  intros [Hb Hbuf Hroom] E. unfold aval, abits. unfold abits in Hroom.
  destruct (0 <? w_bits s1) eqn:E0; cbn [andb].
  - apply N.ltb_lt in E0.
    destruct (N.of_nat (length (w_out s1)) <? w_cap s1) eqn:Ec; [|apply N.ltb_ge in Ec; lia].
    cbv zeta. cbn [w_out].
    assert (Hsmall : w_buf s1 < 256).
    { apply N.lt_le_trans with (2 ^ w_bits s1); [exact Hbuf|]. change 256 with (2 ^ 8). apply pow2_le. lia. }
    rewrite land255, (N.mod_small _ _ Hsmall). refine (conj _ (conj _ _)).
    + apply Forall_app. split; [exact Hb|]. constructor; [exact Hsmall|constructor].
    + rewrite from_base_app, pow256. unfold from_base at 2. cbn [fold_right]. lia.
    + rewrite app_length. cbn [length]. rewrite Nat2N.inj_add. change (N.of_nat 1) with 1.
      generalize dependent (N.of_nat (length (w_out s1))). intros L Hroom Ec.
      apply N.div_unique with (w_bits s1 - 1); lia.
  - apply N.ltb_ge in E0. assert (Hz : w_bits s1 = 0) by lia. cbv zeta.
    rewrite Hz in Hbuf. rewrite N.pow_0_r in Hbuf. assert (Hb0 : w_buf s1 = 0) by lia.
    rewrite Hb0, Hz, N.mul_0_r, !N.add_0_r. refine (conj Hb (conj eq_refl _)).
    generalize (N.of_nat (length (w_out s1))). intro L.
    apply N.div_unique with 7; lia.
Qed.

Lemma bw_flush_spec s : WGood s ->
  let s' := bw_flush s in
  Forall (fun b => b < 256) (w_out s') /\ from_base 256 (w_out s') = aval s /\
  N.of_nat (length (w_out s')) = (abits s + 7) / 8.
Proof.
  intros [HI H55]. unfold bw_flush.
  destruct (flush_buffer_spec s HI ltac:(lia)) as (A & B & HI1 & D & E).
  rewrite <- A, <- B. apply final_byte_spec; assumption.
Qed.

Lemma WGood_init cap : WGood (bw_init cap).
Proof.
  split; [constructor|]; cbn [bw_init w_out w_buf w_bits w_cap]; try lia.
  - constructor.
  - unfold abits. cbn. lia.
Qed.

(** Writer: every call sequence, into a buffer that holds the bits, produces the specification's bytes. *)
Theorem write_all_spec cap gs : stream_bits (all_fields gs) <= 8 * cap ->
  w_out (write_all cap gs) = stream_bytes (all_fields gs).
Proof.
  intro Hcap. unfold write_all.
  destruct (write_segs_spec gs (bw_init cap) (WGood_init cap)) as (A & B & C & D).
  { unfold abits. cbn. exact Hcap. }
  destruct (bw_flush_spec _ C) as (Hb & Hv & Hl).
  set (s := fold_left write_seg gs (bw_init cap)) in *.
  unfold stream_bytes.
  assert (Ha : aval (bw_init cap) = 0) by (unfold aval; cbn; lia).
  assert (Hab : abits (bw_init cap) = 0) by (unfold abits; cbn; lia).
  rewrite Ha, Hab, N.pow_0_r in A. rewrite Hab in B. rewrite N.add_0_l in A, B. rewrite N.mul_1_l in A.
  rewrite <- A, <- Hv, <- B, <- Hl, Nat2N.id.
  symmetry. apply to_from_base; [discriminate|exact Hb].
Qed.

(* ------------------------------------------------------------------ reader *)

Definition rval (s : br) : N := r_buf s + 2 ^ r_bits s * from_base 256 (r_rest s).

Record RInv (s : br) : Prop := {
  ri_bytes : Forall (fun b => b < 256) (r_rest s);
  ri_buf : r_buf s < 2 ^ r_bits s;
  ri_bits : r_bits s <= 64 }.

Lemma refill_step_spec s : RInv s ->
  let s' := refill_step s in
  rval s' = rval s /\ remaining_bits s' = remaining_bits s /\ RInv s'.
Proof.
  intros [Hb Hbuf H64]. unfold refill_step.
  destruct (r_rest s) as [|b rest] eqn:Er.
  - refine (conj eq_refl (conj eq_refl _)). constructor; [rewrite Er; constructor|assumption|assumption].
  - destruct (r_bits s <=? 56) eqn:E56.
    2:{ refine (conj eq_refl (conj eq_refl _)). constructor; [rewrite Er; exact Hb|assumption|assumption]. }
    apply N.leb_le in E56. inversion Hb as [|b' rest' Hb0 Hrest]; subst b' rest'. cbv zeta.
    assert (Hlt : b * 2 ^ r_bits s < 2 ^ 64).
    { apply N.lt_le_trans with (2 ^ 8 * 2 ^ r_bits s).
      - apply N.mul_lt_mono_pos_r; [apply pow2_pos|exact Hb0].
      - rewrite <- N.pow_add_r. apply pow2_le. lia. }
    assert (Hor : N.lor (r_buf s) (wrap64 (N.shiftl b (r_bits s))) = r_buf s + 2 ^ r_bits s * b).
    { unfold wrap64. rewrite N.shiftl_mul_pow2, (N.mod_small _ _ Hlt). apply lor_shift_add. exact Hbuf. }
    refine (conj _ (conj _ _)).
    + unfold rval. cbn [r_rest r_buf r_bits]. rewrite Er, Hor.
      unfold from_base at 2. cbn [fold_right]. fold (from_base 256 rest). rewrite N.pow_add_r. change (2 ^ 8) with 256. lia.
    + unfold remaining_bits. cbn [r_rest r_bits]. rewrite Er. cbn [length]. lia.
    + constructor; cbn [r_rest r_buf r_bits].
      * exact Hrest.
      * rewrite Hor, N.pow_add_r. change (2 ^ 8) with 256. pose proof (pow2_pos (r_bits s)). nia.
      * lia.
Qed.

Lemma refill_step_id s : r_rest s = [] \/ 56 < r_bits s -> refill_step s = s.
Proof.
  intros [H|H]; unfold refill_step.
  - rewrite H. reflexivity.
  - destruct (r_rest s); [reflexivity|]. destruct (r_bits s <=? 56) eqn:E; [apply N.leb_le in E; lia|reflexivity].
Qed.

Lemma refill_n_id n s : r_rest s = [] \/ 56 < r_bits s -> refill_n n s = s.
Proof. intro H. induction n as [|n IH]; cbn [refill_n]; [reflexivity|]. rewrite (refill_step_id s H). exact IH. Qed.

Lemma refill_n_spec n : forall s, RInv s ->
  let s' := refill_n n s in
  rval s' = rval s /\ remaining_bits s' = remaining_bits s /\ RInv s' /\
  (56 < r_bits s + 8 * N.of_nat n -> 56 < r_bits s' \/ r_rest s' = []).
Proof.
  induction n as [|n IH]; intros s HI; cbn [refill_n].
  - refine (conj eq_refl (conj eq_refl (conj HI _))). intro H. left. cbn in H. lia.
  - destruct (r_rest s) as [|b rest] eqn:Er.
    { rewrite (refill_step_id s (or_introl Er)), (refill_n_id n s (or_introl Er)).
      refine (conj eq_refl (conj eq_refl (conj HI _))). intros _. right. exact Er. }
    destruct (N.lt_ge_cases 56 (r_bits s)) as [Hgt|Hle].
    { rewrite (refill_step_id s (or_intror Hgt)), (refill_n_id n s (or_intror Hgt)).
      refine (conj eq_refl (conj eq_refl (conj HI _))). intros _. left. exact Hgt. }
    destruct (refill_step_spec s HI) as (A & B & C).
    destruct (IH (refill_step s) C) as (A2 & B2 & C2 & D2).
    cbv zeta. rewrite A2, B2, A, B. refine (conj eq_refl (conj eq_refl (conj C2 _))).
    intro H. apply D2. unfold refill_step. rewrite Er.
    destruct (r_bits s <=? 56) eqn:E; [|apply N.leb_gt in E; lia]. cbn [r_bits]. lia.
Qed.

Lemma refill_buffer_spec s : RInv s ->
  let s' := refill_buffer s in
  rval s' = rval s /\ remaining_bits s' = remaining_bits s /\ RInv s' /\ (56 < r_bits s' \/ r_rest s' = []).
Proof.
  intro HI. destruct (refill_n_spec 9 s HI) as (A & B & C & D).
  refine (conj A (conj B (conj C _))). apply D. cbn. lia.
Qed.

(** the loop condition is false after the 9 iterations: the fuel is never exhausted *)
Lemma refill_done s : RInv s -> refill_step (refill_buffer s) = refill_buffer s.
Proof.
  intro HI. destruct (refill_buffer_spec s HI) as (_ & _ & _ & [H|H]); apply refill_step_id; [right|left]; assumption.
Qed.

(** one read of at most 32 bits that the data covers *)
Lemma read_field_spec s nb : RInv s -> 0 < nb -> nb <= 32 -> nb <= remaining_bits s ->
  exists s', read_bits s nb = Some (rval s mod 2 ^ nb, s') /\
             rval s' = rval s / 2 ^ nb /\ remaining_bits s' = remaining_bits s - nb /\ RInv s'.
Proof.
  intros HI Hpos H32 Hrem. unfold read_bits.
  destruct (nb =? 0) eqn:E0; [apply N.eqb_eq in E0; lia|].
  destruct (32 <? nb) eqn:E32; [apply N.ltb_lt in E32; lia|]. cbv zeta.
  set (s1 := if r_bits s <? nb then refill_buffer s else s).
  assert (H1 : rval s1 = rval s /\ remaining_bits s1 = remaining_bits s /\ RInv s1 /\ nb <= r_bits s1).
  { subst s1. destruct (r_bits s <? nb) eqn:E.
    - destruct (refill_buffer_spec s HI) as (A & B & C & [D|D]).
      + refine (conj A (conj B (conj C _))). lia.
      + refine (conj A (conj B (conj C _))). unfold remaining_bits in B. rewrite D in B. cbn [length] in B.
        unfold remaining_bits in Hrem. lia.
    - apply N.ltb_ge in E. refine (conj eq_refl (conj eq_refl (conj HI E))). }
  destruct H1 as (A & B & [Hb Hbuf H64] & Hge).
  destruct (r_bits s1 <? nb) eqn:E; [apply N.ltb_lt in E; lia|].
  eexists. split; [|refine (conj _ (conj _ _))].
  - rewrite land_mask_pow. f_equal. f_equal. rewrite <- A. unfold rval. symmetry. apply mod_low. exact Hge.
  - unfold rval at 1. cbn [r_buf r_bits r_rest]. rewrite N.shiftr_div_pow2, <- A. unfold rval.
    symmetry. apply div_low; assumption.
  - unfold remaining_bits in *. cbn [r_bits r_rest]. lia.
  - constructor; cbn [r_buf r_bits r_rest].
    + exact Hb.
    + rewrite N.shiftr_div_pow2. apply div_lt_pow; assumption.
    + lia.
Qed.

Lemma read_bit_spec s : RInv s -> 1 <= remaining_bits s ->
  exists s', read_bit s = Some (rval s mod 2 ^ 1, s') /\
             rval s' = rval s / 2 ^ 1 /\ remaining_bits s' = remaining_bits s - 1 /\ RInv s'.
Proof.
  intros HI Hrem. unfold read_bit. cbv zeta.
  set (s1 := if r_bits s =? 0 then refill_buffer s else s).
  assert (H1 : rval s1 = rval s /\ remaining_bits s1 = remaining_bits s /\ RInv s1 /\ 1 <= r_bits s1).
  { subst s1. destruct (r_bits s =? 0) eqn:E.
    - destruct (refill_buffer_spec s HI) as (A & B & C & [D|D]).
      + refine (conj A (conj B (conj C _))). lia.
      + refine (conj A (conj B (conj C _))). unfold remaining_bits in B. rewrite D in B. cbn [length] in B.
        unfold remaining_bits in Hrem. lia.
    - apply N.eqb_neq in E. refine (conj eq_refl (conj eq_refl (conj HI _))). lia. }
  destruct H1 as (A & B & [Hb Hbuf H64] & Hge).
  destruct (r_bits s1 =? 0) eqn:E; [apply N.eqb_eq in E; lia|].
  eexists. split; [|refine (conj _ (conj _ _))].
  - change 1 with (2 ^ 1 - 1) at 1. rewrite land_mask_pow. f_equal. f_equal. rewrite <- A. unfold rval.
    symmetry. apply mod_low. exact Hge.
  - unfold rval at 1. cbn [r_buf r_bits r_rest]. rewrite N.shiftr_div_pow2, <- A. unfold rval.
    symmetry. apply div_low; assumption.
  - unfold remaining_bits in *. cbn [r_bits r_rest]. lia.
  - constructor; cbn [r_buf r_bits r_rest].
    + exact Hb.
    + rewrite N.shiftr_div_pow2. apply div_lt_pow; assumption.
    + lia.
Qed.

(** what a call returns: the value the writer was given, masked to the width the call really uses *)
Definition seg_value (g : seg) : N :=
  match g with
  | SBit b => b mod 2
  | SBits v nb => v mod 2 ^ (if 32 <? nb then 32 else nb)
  | SBits64 v nb => v mod 2 ^ (if 64 <? nb then 64 else nb)
  end.

Lemma seg_value_stream g : seg_value g = stream_val (fields_of g).
Proof.
  destruct g as [b|v nb|v nb]; cbn [seg_value fields_of].
  - cbn [stream_val]. change (2 ^ 1) with 2. lia.
  - destruct (nb =? 0) eqn:E0; cbn [stream_val].
    + apply N.eqb_eq in E0. subst nb. cbn. apply N.mod_1_r.
    + lia.
  - destruct (nb =? 0) eqn:E0.
    + apply N.eqb_eq in E0. subst nb. cbn. apply N.mod_1_r.
    + apply N.eqb_neq in E0. cbv zeta. set (n := if 64 <? nb then 64 else nb).
      destruct (n <=? 32) eqn:E32; cbn [stream_val].
      * apply N.leb_le in E32. rewrite mod_mod_pow by exact E32. lia.
      * apply N.leb_gt in E32. rewrite N.mul_0_r, N.add_0_r, N.shiftr_div_pow2.
        rewrite (N.mod_small (v mod 2 ^ 32) (2 ^ 32)) by (apply N.mod_lt; discriminate).
        assert (Hn : n <= 64) by (subst n; destruct (64 <? nb) eqn:E; [lia|apply N.ltb_ge in E; lia]).
        rewrite (mod_mod_pow (v / 2 ^ 32) (n - 32) 32) by lia.
        replace n with (32 + (n - 32)) at 1 by lia. apply mod_split.
Qed.

Lemma read_seg_spec s g : RInv s -> stream_bits (fields_of g) <= remaining_bits s ->
  exists s', read_seg s g = Some (rval s mod 2 ^ stream_bits (fields_of g), s') /\
             rval s' = rval s / 2 ^ stream_bits (fields_of g) /\
             remaining_bits s' = remaining_bits s - stream_bits (fields_of g) /\ RInv s'.
Proof.
  intros HI Hrem. destruct g as [b|v nb|v nb]; cbn [read_seg fields_of] in *.
  - cbn [stream_bits fold_right snd] in *. rewrite N.add_0_r in *. apply read_bit_spec; assumption.
  - destruct (nb =? 0) eqn:E0.
    + cbn [stream_bits fold_right]. rewrite N.pow_0_r, N.mod_1_r, N.div_1_r, N.sub_0_r.
      exists s. unfold read_bits. rewrite E0. refine (conj eq_refl (conj eq_refl (conj eq_refl HI))).
    + apply N.eqb_neq in E0. cbn [stream_bits fold_right snd] in *. rewrite N.add_0_r in *.
      destruct (32 <? nb) eqn:E32.
      * assert (Hr : read_bits s nb = read_bits s 32).
        { unfold read_bits. rewrite E32. destruct (nb =? 0) eqn:E; [apply N.eqb_eq in E; lia|]. reflexivity. }
        rewrite Hr. apply read_field_spec; try assumption; lia.
      * apply N.ltb_ge in E32. apply read_field_spec; try assumption; lia.
  - unfold read_bits64. destruct (nb =? 0) eqn:E0.
    + cbn [stream_bits fold_right]. rewrite N.pow_0_r, N.mod_1_r, N.div_1_r, N.sub_0_r.
      exists s. refine (conj eq_refl (conj eq_refl (conj eq_refl HI))).
    + apply N.eqb_neq in E0. cbv zeta in *. set (n := if 64 <? nb then 64 else nb) in *.
      assert (Hn : 0 < n /\ n <= 64) by (subst n; destruct (64 <? nb) eqn:E; [lia|apply N.ltb_ge in E; lia]).
      destruct (n <=? 32) eqn:E32.
      * apply N.leb_le in E32. cbn [stream_bits fold_right snd] in *. rewrite N.add_0_r in *.
        apply read_field_spec; try assumption; lia.
      * apply N.leb_gt in E32. cbn [stream_bits fold_right snd] in *. rewrite N.add_0_r in *.
        destruct (read_field_spec s 32 HI ltac:(lia) ltac:(lia) ltac:(lia)) as (s1 & R1 & V1 & M1 & I1).
        destruct (read_field_spec s1 (n - 32) I1 ltac:(lia) ltac:(lia) ltac:(lia)) as (s2 & R2 & V2 & M2 & I2).
        rewrite R1, R2. exists s2. refine (conj _ (conj _ (conj _ I2))).
        -- f_equal. f_equal. rewrite V1.
           assert (Hlo : rval s mod 2 ^ 32 < 2 ^ 32) by (apply N.mod_lt; discriminate).
           rewrite N.shiftl_mul_pow2, (lor_shift_add _ _ _ Hlo).
           rewrite (mod_split (rval s) 32 (n - 32)). reflexivity.
        -- rewrite V2, V1, N.div_div by (apply N.pow_nonzero; discriminate). rewrite <- N.pow_add_r. reflexivity.
        -- rewrite M2, M1. lia.
Qed.

Lemma to_base_lt B n x : B <> 0 -> Forall (fun d => d < B) (to_base B n x).
Proof.
  intro HB. revert x. induction n as [|n IH]; intro x; cbn [to_base]; constructor.
  - apply N.mod_lt. exact HB.
  - apply IH.
Qed.

Lemma all_fields_cons g gs : all_fields (g :: gs) = fields_of g ++ all_fields gs.
Proof. reflexivity. Qed.

Lemma read_all_stream gs : forall s y, RInv s ->
  rval s = stream_val (all_fields gs) + 2 ^ stream_bits (all_fields gs) * y ->
  stream_bits (all_fields gs) <= remaining_bits s ->
  exists s', read_all s gs = Some (map seg_value gs, s') /\
             remaining_bits s' = remaining_bits s - stream_bits (all_fields gs) /\ rval s' = y /\ RInv s'.
Proof.
  induction gs as [|g gs IH]; intros s y HI Hv Hrem; cbn [read_all map].
  - exists s. unfold all_fields in *. cbn [map concat stream_val stream_bits fold_right] in *.
    rewrite N.pow_0_r in Hv. refine (conj eq_refl (conj _ (conj _ HI))); lia.
  - rewrite all_fields_cons, stream_val_app, stream_bits_app in *.
    set (bg := stream_bits (fields_of g)) in *. set (vg := stream_val (fields_of g)) in *.
    set (br_ := stream_bits (all_fields gs)) in *. set (vr := stream_val (all_fields gs)) in *.
    assert (Hvg : vg < 2 ^ bg) by apply stream_val_lt.
    destruct (read_seg_spec s g HI ltac:(fold bg; lia)) as (s1 & R1 & V1 & M1 & I1). fold bg in R1, V1, M1.
    assert (Hx : rval s = vg + 2 ^ bg * (vr + 2 ^ br_ * y)) by (rewrite Hv, N.pow_add_r; lia).
    assert (Hmod : rval s mod 2 ^ bg = vg).
    { rewrite Hx, (N.mul_comm (2 ^ bg)), N.mod_add by (apply N.pow_nonzero; discriminate). apply N.mod_small. exact Hvg. }
    assert (Hdiv : rval s / 2 ^ bg = vr + 2 ^ br_ * y).
    { rewrite Hx, (N.mul_comm (2 ^ bg)), N.div_add by (apply N.pow_nonzero; discriminate).
      rewrite (N.div_small _ _ Hvg). lia. }
    destruct (IH s1 y I1 ltac:(rewrite V1; exact Hdiv) ltac:(rewrite M1; fold br_; lia)) as (s2 & R2 & M2 & V2 & I2).
    rewrite R1, R2, Hmod. exists s2. refine (conj _ (conj _ (conj V2 I2))).
    + f_equal. f_equal. f_equal. subst vg. symmetry. apply seg_value_stream.
    + rewrite M2, M1. fold br_. lia.
Qed.

(** The property for the raw bit writer / reader pair: for EVERY sequence of write_bit / write_bits /
    write_bits64 calls (any values, any widths - widths above the type's are clamped as the C code clamps them, zero
    widths write nothing) into a buffer that holds the bits,
      - the bytes written are the specification's LSB-first layout, exactly ceil(bits/8) of them, and
      - reading the same sequence back returns every value (masked to its width), consuming exactly the bits
        written. *)
Theorem bit_rw_roundtrip_lemma cap gs : stream_bits (all_fields gs) <= 8 * cap ->
  let out := w_out (write_all cap gs) in
  out = stream_bytes (all_fields gs) /\
  exists s', read_all (br_init out) gs = Some (map seg_value gs, s') /\
             remaining_bits s' = 8 * N.of_nat (length out) - stream_bits (all_fields gs).
Proof.
  intro Hcap. cbv zeta. rewrite (write_all_spec cap gs Hcap). split; [reflexivity|].
  set (fs := all_fields gs) in *. unfold stream_bytes.
  set (n := N.to_nat ((stream_bits fs + 7) / 8)).
  assert (Hn : stream_bits fs <= 8 * N.of_nat n).
  { subst n. rewrite N2Nat.id. pose proof (N.div_mod (stream_bits fs + 7) 8 ltac:(discriminate)).
    pose proof (N.mod_lt (stream_bits fs + 7) 8 ltac:(discriminate)). lia. }
  assert (Hlt : stream_val fs < 256 ^ N.of_nat n).
  { rewrite pow256. apply N.lt_le_trans with (2 ^ stream_bits fs); [apply stream_val_lt|apply pow2_le; exact Hn]. }
  set (out := to_base 256 n (stream_val fs)).
  assert (HI : RInv (br_init out)).
  { constructor; cbn [br_init r_rest r_buf r_bits]; [apply to_base_lt; discriminate|cbn; lia|lia]. }
  assert (Hlen : length out = n) by apply to_base_length.
  destruct (read_all_stream gs (br_init out) 0 HI) as (s' & R & M & _ & _).
  - unfold rval. cbn [br_init r_rest r_buf r_bits]. fold fs. subst out.
    rewrite from_to_base by (try discriminate; exact Hlt). rewrite N.pow_0_r. lia.
  - unfold remaining_bits. cbn [br_init r_rest r_bits]. rewrite Hlen. fold fs. lia.
  - exists s'. split; [exact R|]. rewrite M. unfold remaining_bits. cbn [br_init r_rest r_bits]. fold fs. lia.
Qed.

(** non-vacuity: a concrete mixed sequence meets the premise and exercises the flush-before-write of 22baf41 *)
Example bit_rw_example :
  let gs := [SBits 1637 11; SBits 1641 11; SBits 1180 11; SBits 221 11; SBits 329 11; SBits 1529 11; SBit 1;
             SBits64 2199023255551 41; SBits 7 0] in
  stream_bits (all_fields gs) <= 8 * 14 /\
  w_out (write_all 14 gs) = [101; 78; 51; 39; 187; 145; 148; 252; 254; 255; 255; 255; 255; 15].
Proof. vm_compute. split; [discriminate|reflexivity]. Qed.

(** The code before 22baf41 (no flush in front of the OR): the same statement is FALSE - eight 11-bit values. *)
Definition write_bits_old (s : bw) (value nb : N) : bw :=
  if nb =? 0 then s else
  let nb := if 32 <? nb then 32 else nb in
  let mask := if nb =? 32 then 4294967295 else 2 ^ nb - 1 in
  let s := or_in s (N.land value mask) nb in
  if 56 <=? w_bits s then flush_buffer s else s.

Theorem bit_writer_old_refuted :
  exists vs, let fs := map (fun v => (v, 11)) vs in
    w_out (bw_flush (fold_left (fun s v => write_bits_old s v 11) vs (bw_init 11))) <> stream_bytes fs.
Proof. exists [1638; 1641; 1180; 221; 329; 1529; 1064; 2047]. vm_compute. discriminate. Qed.
