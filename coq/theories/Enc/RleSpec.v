(** The RLE / bit-packing hybrid of the Parquet Encodings document, as a grammar of runs.
      rle-bit-packed-hybrid: <encoded-data> := <run>*
      run := <bit-packed-run> | <rle-run>
      bit-packed-run := <bit-packed-header> <bit-packed-values>      header = varint ((groups << 1) | 1)
      rle-run := <rle-header> <repeated-value>                       header = varint (count << 1)
      repeated-value := value stored in round-up-to-next-byte(bit-width) bytes, little endian
    Every legal form is admitted: RLE runs of any count (zero-length runs included), bit-packed runs
    of any number of groups, the last group padded with arbitrary values.  Headers are canonical
    ULEB128 (non-minimal varints are not generated).  Imports no model. *)
From Coq Require Import NArith Arith List.
From Carquet Require Import Enc.BitpackSpec.
Import ListNotations.
Local Open Scope N_scope.

Inductive run : Type :=
  | RRun (n : nat) (v : N)        (* n copies of v *)
  | RLit (vs : list N).           (* bit-packed values; length a multiple of 8 *)

Definition run_vals (r : run) : list N :=
  match r with RRun n v => repeat v n | RLit vs => vs end.

Definition runs_vals (rs : list run) : list N := concat (map run_vals rs).

(** ULEB128 *)
Fixpoint uleb (fuel : nat) (x : N) : list N :=
  match fuel with
  | O => [x mod 128]
  | S f => if x <? 128 then [x] else (x mod 128 + 128) :: uleb f (x / 128)
  end.
(** ten bytes: enough for every 64-bit quantity; run headers are below 2^32 *)
Definition uleb128 (x : N) : list N := uleb 9 x.

Definition value_bytes (w : nat) : nat := Nat.div (w + 7) 8.

Fixpoint groups_of8 (fuel : nat) (vs : list N) : list (list N) :=
  match fuel with
  | O => []
  | S f => match vs with [] => [] | _ => firstn 8 vs :: groups_of8 f (skipn 8 vs) end
  end.

Definition bytes_of_run (w : nat) (r : run) : list N :=
  match r with
  | RRun n v => uleb128 (2 * N.of_nat n) ++ to_base 256 (value_bytes w) v
  | RLit vs => uleb128 (2 * N.of_nat (Nat.div (length vs) 8) + 1)
               ++ concat (map (pack_spec w) (groups_of8 (length vs) vs))
  end.

Definition bytes_of_runs (w : nat) (rs : list run) : list N := concat (map (bytes_of_run w) rs).

Definition wf_run (w : nat) (r : run) : Prop :=
  match r with
  | RRun n v => v < 2 ^ N.of_nat w /\ 2 * N.of_nat n < 2 ^ 32
  | RLit vs => Nat.modulo (length vs) 8 = O /\ Forall (fun v => v < 2 ^ N.of_nat w) vs
               /\ 2 * N.of_nat (Nat.div (length vs) 8) + 1 < 2 ^ 32
  end.

(** [bytes] is a hybrid stream at width [w] carrying the values [vals] (padding included) *)
Definition Denotes (w : nat) (bytes vals : list N) : Prop :=
  exists rs, Forall (wf_run w) rs /\ bytes = bytes_of_runs w rs /\ vals = runs_vals rs.

(** Executable reading of the grammar: an independent decoder written from the specification
    (returns every value the stream carries, padding of bit-packed groups included). *)
Fixpoint read_uleb (fuel : nat) (bs : list N) : option (N * list N) :=
  match fuel with
  | O => None
  | S f => match bs with
           | [] => None
           | b :: tl => if b <? 128 then Some (b, tl)
                        else match read_uleb f tl with
                             | Some (hi, tl') => Some (b - 128 + 128 * hi, tl')
                             | None => None
                             end
           end
  end.

Fixpoint take_groups (w : nat) (k : nat) (bs : list N) : option (list N * list N) :=
  match k with
  | O => Some ([], bs)
  | S k' => if Nat.ltb (length bs) w then None
            else match take_groups w k' (skipn w bs) with
                 | Some (vs, tl) => Some (unpack_spec w (firstn w bs) ++ vs, tl)
                 | None => None
                 end
  end.

Fixpoint spec_decode (fuel : nat) (w : nat) (bs : list N) : option (list N) :=
  match fuel with
  | O => None
  | S f =>
    match bs with
    | [] => Some []
    | _ =>
      match read_uleb 10 bs with
      | None => None
      | Some (h, tl) =>
        if N.even h then
          let vb := value_bytes w in
          if Nat.ltb (length tl) vb then None
          else let v := from_base 256 (firstn vb tl) in
               match spec_decode f w (skipn vb tl) with
               | Some r => Some (repeat v (N.to_nat (h / 2)) ++ r)
               | None => None
               end
        else
          match take_groups w (N.to_nat (h / 2)) tl with
          | None => None
          | Some (vs, tl') => match spec_decode f w tl' with
                              | Some r => Some (vs ++ r)
                              | None => None
                              end
          end
      end
    end
  end.
Definition spec_decode_all (w : nat) (bs : list N) : option (list N) := spec_decode (S (length bs)) w bs.
