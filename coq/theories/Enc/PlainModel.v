(** Model of src/encoding/plain.c (PLAIN encoding, all eight physical types).

    Values are bit patterns: BOOLEAN the C [uint8_t] (0 = false, anything else = true), INT32/FLOAT [N] below
    2^32, INT64/DOUBLE below 2^64, INT96 three 32-bit words, BYTE_ARRAY a byte list, FIXED_LEN_BYTE_ARRAY the
    flat byte image of [count] values of [fixed_len] bytes (the C API takes it flat as well).

    Encoders append to a growable [carquet_buffer_t]; allocation failure is not modelled here (C19), so they
    return the appended bytes.  Decoders return [Ok (values, bytes consumed)], [Err (-1)] where the C function
    returns -1, and read their input only through checked accessors: a read the C code would perform outside
    [input_size] is [Fault OobRead].  The decoders write exactly [count] output elements, the capacity the
    caller declares by passing [count].

    The fixed-width decoders compare [count] with [input_size / width] (by division, so nothing wraps).  On the
    little-endian fast path INT32/INT64/FLOAT/DOUBLE are a memcpy of [count * width] bytes; the model reads
    them value by value, which is the same function. *)
From Coq Require Import NArith ZArith List Bool.
From Carquet Require Import Base.Res Enc.DeltaBits.
Import ListNotations.
Local Open Scope N_scope.

Definition size_t (x : N) : N := N.land x (N.ones 64).
Definition ERR_NEG1 : Z := (-1)%Z.

(** ** Fixed-width little-endian values *)
Definition enc_fixed (k : nat) (vs : list N) : list N := flat_map (le_bytes_f k) vs.

Fixpoint read_fixed (k n : nat) (bs : list N) : res (list N) :=
  match n with
  | O => Ok []
  | S n' => match take k bs with
            | None => Fault OobRead
            | Some (v, rest) => match read_fixed k n' rest with
                                | Ok vs => Ok (le_num_f v :: vs)
                                | Err c => Err c
                                | Fault f => Fault f
                                end
            end
  end.

Definition dec_fixed (k : nat) (input : list N) (count : N) : res (list N * N) :=
  (* (uint64_t)count > input_size / k: by division, the product may not fit in size_t *)
  if len input / N.of_nat k <? count then Err ERR_NEG1
  else match read_fixed k (N.to_nat count) input with
       | Ok vs => Ok (vs, count * N.of_nat k)
       | Err c => Err c
       | Fault f => Fault f
       end.

Definition plain_encode_int32 := enc_fixed 4.
Definition plain_encode_float := enc_fixed 4.
Definition plain_encode_int64 := enc_fixed 8.
Definition plain_encode_double := enc_fixed 8.
Definition plain_decode_int32 := dec_fixed 4.
Definition plain_decode_float := dec_fixed 4.
Definition plain_decode_int64 := dec_fixed 8.
Definition plain_decode_double := dec_fixed 8.

(** ** INT96: value[0], value[1], value[2] as three little-endian 32-bit words *)
Definition plain_encode_int96 (vs : list (N * N * N)) : list N :=
  flat_map (fun v => let '(a, b, c) := v in le_bytes_f 4 a ++ le_bytes_f 4 b ++ le_bytes_f 4 c) vs.

Fixpoint triples (ws : list N) : list (N * N * N) :=
  match ws with a :: b :: c :: t => (a, b, c) :: triples t | _ => [] end.

Definition plain_decode_int96 (input : list N) (count : N) : res (list (N * N * N) * N) :=
  if len input / 12 <? count then Err ERR_NEG1
  else match read_fixed 4 (3 * N.to_nat count) input with
       | Ok ws => Ok (triples ws, count * 12)
       | Err c => Err c
       | Fault f => Fault f
       end.

(** ** BOOLEAN: bit-packed, least significant bit first *)
Definition truth (v : N) : N := if v =? 0 then 0 else 1.

(** the byte holding the first (up to) [k] values *)
Fixpoint bools_byte (k : nat) (vs : list N) : N :=
  match k, vs with
  | S k', v :: t => truth v + 2 * bools_byte k' t
  | _, _ => 0
  end.

Fixpoint enc_bools (fuel : nat) (vs : list N) : list N :=
  match fuel with
  | O => []
  | S f => match vs with [] => [] | _ => bools_byte 8 vs :: enc_bools f (skipn 8 vs) end
  end.

Definition plain_encode_boolean (vs : list N) : list N := enc_bools (length vs) vs.

(** the [k] low bits of a byte, least significant first *)
Fixpoint byte_bits (k : nat) (b : N) : list N :=
  match k with O => [] | S k' => N.land b 1 :: byte_bits k' (N.shiftr b 1) end.

Fixpoint dec_bools (bs : list N) (count : nat) {struct bs} : res (list N) :=
  match count with
  | O => Ok []
  | _ => match bs with
         | [] => Fault OobRead
         | b :: t => let k := Nat.min 8 count in
                     match dec_bools t (count - k) with
                     | Ok r => Ok (byte_bits k b ++ r)
                     | Err c => Err c
                     | Fault f => Fault f
                     end
         end
  end.

Definition plain_decode_boolean (input : list N) (count : N) : res (list N * N) :=
  let need := size_t (count + 7) / 8 in
  if len input <? need then Err ERR_NEG1
  else match dec_bools input (N.to_nat count) with
       | Ok vs => Ok (vs, need)
       | Err c => Err c
       | Fault f => Fault f
       end.

(** ** BYTE_ARRAY: 4-byte little-endian length, then the bytes *)
Definition plain_encode_byte_array (vs : list (list N)) : list N :=
  flat_map (fun s => le_bytes_f 4 (len s) ++ s) vs.

(** one iteration of the decode loop on the not yet consumed input *)
Fixpoint dec_bas (rest : list N) (count : nat) : res (list (list N) * list N) :=
  match count with
  | O => Ok ([], rest)
  | S n =>
      if len rest <? 4 then Err ERR_NEG1 else
      match take 4 rest with
      | None => Fault OobRead
      | Some (l4, rest1) =>
          let l := le_num_f l4 in
          (* int32_t len: negative when the top bit is set *)
          if (2 ^ 31 <=? l) || (len rest1 <? l) then Err ERR_NEG1 else
          match take (N.to_nat l) rest1 with
          | None => Fault OobRead
          | Some (s, rest2) =>
              match dec_bas rest2 n with
              | Ok (vs, r) => Ok (s :: vs, r)
              | Err c => Err c
              | Fault f => Fault f
              end
          end
      end
  end.

Definition plain_decode_byte_array (input : list N) (count : N) : res (list (list N) * N) :=
  match dec_bas input (N.to_nat count) with
  | Ok (vs, r) => Ok (vs, len input - len r)
  | Err c => Err c
  | Fault f => Fault f
  end.

(** ** FIXED_LEN_BYTE_ARRAY: the values back to back *)
Definition plain_encode_flba (raw : list N) : list N := raw.

Definition plain_decode_flba (input : list N) (count fixed_len : N) : res (list N * N) :=
  if fixed_len =? 0 then Err ERR_NEG1 else
  if len input / fixed_len <? count then Err ERR_NEG1 else
  let need := count * fixed_len in
  match take (N.to_nat need) input with
       | None => Fault OobRead
       | Some (v, _) => Ok (v, need)
       end.
