(** Raw bit packing of fields of different widths (Parquet Encodings.md, "values are packed from the least
    significant bit of each byte to the most significant bit"), arithmetic reading: a sequence of fields
    (value, width) is ONE little-endian number in which every field occupies [width] bits right above the
    previous one; the bytes are its base-256 digits, the last byte padded with zero bits.  Imports no model. *)
From Coq Require Import NArith List.
From Carquet Require Import Enc.BitpackSpec.
Import ListNotations.
Local Open Scope N_scope.

Definition field := (N * N)%type.            (* (value, width in bits) *)

Fixpoint stream_val (fs : list field) : N :=
  match fs with
  | [] => 0
  | (v, w) :: r => v mod 2 ^ w + 2 ^ w * stream_val r
  end.

Definition stream_bits (fs : list field) : N := fold_right (fun f a => snd f + a) 0 fs.

(** the bytes a writer must produce *)
Definition stream_bytes (fs : list field) : list N :=
  to_base 256 (N.to_nat ((stream_bits fs + 7) / 8)) (stream_val fs).

(** what a reader that is asked for the same widths must return *)
Definition stream_values (fs : list field) : list N := map (fun f => fst f mod 2 ^ snd f) fs.

(** reading: the number the bytes denote, consumed field by field *)
Fixpoint read_fields (x : N) (ws : list N) : list N :=
  match ws with
  | [] => []
  | w :: r => x mod 2 ^ w :: read_fields (x / 2 ^ w) r
  end.
