(** Model of src/encoding/delta.c (DELTA_BINARY_PACKED for INT32 and INT64).

    Values are two's complement bit patterns ([N] below 2^64, for INT32 below 2^32).  All arithmetic the C
    code performs on [uint64_t]/[int64_t] is written modulo 2^64 ([u64]); the INT32 encoder computes its
    deltas modulo 2^32 and sign-extends them ([sext32]).

    Structure (mirrors the C code at the granularity of blocks and mini-blocks):
      encoder   header, then the deltas in chunks of 128 ([delta_encoder_flush_block] per chunk): signed
                minimum, one width per mini-block of 32, mini-blocks of width > 0 bit-packed (values beyond
                the last delta are zero).  The capacity checks of the C code are part of [delta_encode_*]
                ([Err 41]); [delta_bytes_*] is the same function without them.
      decoder   [delta_decoder_init] (header, geometry validation), then values are pulled one at a time in
                C; here per mini-block: [read_block] when the previous block is used up, [read_mini] loads
                one mini-block, of which the values still wanted are taken.  The position is the not yet
                consumed suffix of the input; `pos + n > size` is `length rest < n`.

    Bit packing: [DeltaBits.pack_f / unpack_f] (arithmetic definition).  For widths 1..32 the C code calls
    carquet_bitpack_32 / carquet_bitunpack_32 on 32 values, i.e. four 8-value groups of [w] bytes each, which is
    the same byte string (the RLE engine proves that for bitpack.c); for widths 33..64 the loops in delta.c
    write/read the same bit string directly.  Reads of packed data are preceded by the C code's size check and
    go through the checked [take]. *)
From Coq Require Import NArith ZArith List Bool.
From Carquet Require Import Gen.Enums_gen Base.Res Gen.Consts_gen Enc.DeltaBits.
Import ListNotations.
Local Open Scope N_scope.

Definition ERR_DECODE : Z := E_CARQUET_ERROR_DECODE.            (* 40, regenerated from include/carquet/error.h *)
Definition ERR_ENCODE : Z := E_CARQUET_ERROR_ENCODE.            (* 41 *)
Definition ERR_END_OF_DATA : Z := E_CARQUET_ERROR_END_OF_DATA.  (* 63 *)

Definition BLOCK : N := Delta_DELTA_BLOCK_SIZE.            (* 128 *)
Definition MINIS : N := Delta_DELTA_MINI_BLOCKS.           (* 4 *)
Definition MINI_SIZE : N := Delta_DELTA_MINI_BLOCK_SIZE.   (* 32 *)

Definition ones64 : N := N.ones 64.
Definition u64 (x : N) : N := N.land x ones64.
Definition u32 (x : N) : N := N.land x (N.ones 32).
Definition sub64 (a b : N) : N := u64 (a + (2 ^ 64 - u64 b)).      (* (uint64_t)a - (uint64_t)b *)
Definition sext32 (p : N) : N := if p <? 2 ^ 31 then p else p + (2 ^ 64 - 2 ^ 32).

(** ** zig-zag and ULEB128 *)
(* ((uint64_t)n << 1) ^ (n >> 63)   with an arithmetic shift of the int64 *)
Definition zigzag_enc (x : N) : N := N.lxor (u64 (N.shiftl x 1)) (if x <? 2 ^ 63 then 0 else ones64).
(* (n >> 1) ^ (~(n & 1) + 1) *)
Definition zigzag_dec (n : N) : N := N.lxor (N.shiftr n 1) (if N.land n 1 =? 0 then 0 else ones64).

(* write_uleb128; ten groups hold any uint64_t *)
Fixpoint uleb_enc_f (fuel : nat) (v : N) : list N :=
  match fuel with
  | O => []
  | S f => if v <? 128 then [v] else (N.lor (N.land v 127) 128) :: uleb_enc_f f (N.shiftr v 7)
  end.
Definition uleb_enc (v : N) : list N := uleb_enc_f 10 v.

(* read_uleb128 on the remaining input: at most 10 bytes; None = the C function returns 0 *)
Fixpoint uleb_dec_f (fuel : nat) (bs : list N) (shift acc : N) : option (N * list N) :=
  match fuel with
  | O => None
  | S f => match bs with
           | [] => None
           | b :: t => let acc' := N.lor acc (u64 (N.shiftl (N.land b 127) shift)) in
                       if N.land b 128 =? 0 then Some (acc', t) else uleb_dec_f f t (shift + 7) acc'
           end
  end.
Definition uleb_dec (bs : list N) : option (N * list N) := uleb_dec_f 10 bs 0 0.

(** ** Encoder *)
(* signed comparison of two int64 given as bit patterns *)
Definition slt64 (a b : N) : bool := u64 (a + 2 ^ 63) <? u64 (b + 2 ^ 63).

Fixpoint min_s (m : N) (ds : list N) : N :=
  match ds with [] => m | d :: t => min_s (if slt64 d m then d else m) t end.

(* bit_width_required *)
Definition bit_width (x : N) : N := N.size x.

Definition mini_width (adj : list N) : N := bit_width (fold_left N.max adj 0).

(* [k] chunks of [n] elements; the last ones may be short or empty *)
Fixpoint chunks {A} (n k : nat) (l : list A) : list (list A) :=
  match k with O => [] | S k' => firstn n l :: chunks n k' (skipn n l) end.

Definition pad (n : nat) (l : list N) : list N := l ++ repeat 0 (n - length l).

Definition enc_mini (c : list N) : list N :=
  let w := mini_width c in if w =? 0 then [] else pack_f w (pad (N.to_nat MINI_SIZE) c).

(* what flush_block computes for the [ds] buffered deltas: (min delta, widths, packed mini-blocks) *)
Definition block_parts (ds : list N) : N * list N * list N :=
  match ds with
  | [] => (0, [], [])
  | d0 :: t =>
      let m := min_s d0 t in
      let adj := map (fun d => sub64 d m) ds in
      let minis := chunks (N.to_nat MINI_SIZE) (N.to_nat MINIS) adj in
      (m, map mini_width minis, flat_map enc_mini minis)
  end.

Definition enc_block (ds : list N) : list N :=
  match ds with
  | [] => []
  | _ => let '(m, ws, body) := block_parts ds in uleb_enc (zigzag_enc m) ++ ws ++ body
  end.

(* sum over the mini-blocks of width > 0 of mini_block_size * width / 8 *)
Definition packed_needed (ws : list N) : N :=
  fold_left (fun a w => if w =? 0 then a else a + MINI_SIZE * w / 8) ws 0.

(* the buffered deltas flushed every BLOCK values, and once more at the end *)
Fixpoint enc_blocks (fuel : nat) (ds : list N) : list N :=
  match fuel with
  | O => []
  | S f => match ds with
           | [] => []
           | _ => enc_block (firstn (N.to_nat BLOCK) ds) ++ enc_blocks f (skipn (N.to_nat BLOCK) ds)
           end
  end.

(* the same with the capacity check of flush_block: pos + 10 + mini_blocks + packed > capacity -> ENCODE *)
Fixpoint enc_blocks_cap (fuel : nat) (ds : list N) (pos cap : N) : res (list N) :=
  match fuel with
  | O => Ok []
  | S f => match ds with
           | [] => Ok []
           | _ => let blk := firstn (N.to_nat BLOCK) ds in
                  let '(m, ws, body) := block_parts blk in
                  if cap <? pos + (10 + MINIS + packed_needed ws) then Err ERR_ENCODE else
                  let out := enc_block blk in
                  match enc_blocks_cap f (skipn (N.to_nat BLOCK) ds) (pos + len out) cap with
                  | Ok more => Ok (out ++ more)
                  | Err c => Err c
                  | Fault e => Fault e
                  end
           end
  end.

Fixpoint deltas64 (last : N) (vs : list N) : list N :=
  match vs with [] => [] | v :: t => sub64 v last :: deltas64 v t end.

(* (int64_t)(int32_t)((uint32_t)values[i] - (uint32_t)last_value) *)
Fixpoint deltas32 (last : N) (vs : list N) : list N :=
  match vs with [] => [] | v :: t => sext32 (u32 (v + (2 ^ 32 - u32 last))) :: deltas32 v t end.

Definition header (n first : N) : list N :=
  uleb_enc BLOCK ++ uleb_enc MINIS ++ uleb_enc n ++ uleb_enc (zigzag_enc first).

(* without capacity checks *)
Definition delta_bytes_int64 (vs : list N) : list N :=
  match vs with
  | [] => []
  | v0 :: t => let ds := deltas64 v0 t in header (len vs) v0 ++ enc_blocks (length ds) ds
  end.

Definition delta_bytes_int32 (vs : list N) : list N :=
  match vs with
  | [] => []
  | v0 :: t => let ds := deltas32 v0 t in header (len vs) (sext32 v0) ++ enc_blocks (length ds) ds
  end.

Definition delta_encode_gen (vs : list N) (first : N) (ds : list N) (cap : N) : res (list N) :=
  if cap <? 40 then Err ERR_ENCODE else
  let h := header (len vs) first in
  match enc_blocks_cap (length ds) ds (len h) cap with
  | Ok bs => Ok (h ++ bs)
  | Err c => Err c
  | Fault e => Fault e
  end.

(* carquet_delta_encode_int64 (values, num_values, data, data_capacity, &bytes_written) *)
Definition delta_encode_int64 (vs : list N) (cap : N) : res (list N) :=
  match vs with [] => Ok [] | v0 :: t => delta_encode_gen vs v0 (deltas64 v0 t) cap end.

Definition delta_encode_int32 (vs : list N) (cap : N) : res (list N) :=
  match vs with [] => Ok [] | v0 :: t => delta_encode_gen vs (sext32 v0) (deltas32 v0 t) cap end.

(** ** Decoder *)
(* (int32_t)val > 0 ? Some val : None *)
Definition pos_i32 (v : N) : option N :=
  let t := u32 v in if (0 <? t) && (t <? 2 ^ 31) then Some t else None.

(* (int32_t)val as a signed number *)
Definition i32_of (v : N) : Z :=
  let t := u32 v in if t <? 2 ^ 31 then Z.of_N t else (Z.of_N t - 2 ^ 32)%Z.

Record dhdr : Type := { h_mbs : N; h_mbpb : N; h_total : Z; h_first : N; h_rest : list N }.

(* delta_decoder_init *)
Definition delta_init (data : list N) : res dhdr :=
  match uleb_dec data with
  | None => Err ERR_DECODE
  | Some (bsz, r1) =>
      match uleb_dec r1 with
      | None => Err ERR_DECODE
      | Some (mb, r2) =>
          match pos_i32 mb with
          | None => Err ERR_DECODE
          | Some mbpb =>
              if MINIS <? mbpb then Err ERR_DECODE else
              match pos_i32 bsz with
              | None => Err ERR_DECODE
              | Some block =>
                  if BLOCK <? block then Err ERR_DECODE else
                  if MINI_SIZE <? block / mbpb then Err ERR_DECODE else
                  match uleb_dec r2 with
                  | None => Err ERR_DECODE
                  | Some (tot, r3) =>
                      match uleb_dec r3 with
                      | None => Err ERR_DECODE
                      | Some (fz, r4) =>
                          Ok {| h_mbs := block / mbpb; h_mbpb := mbpb; h_total := i32_of tot;
                                h_first := zigzag_dec fz; h_rest := r4 |}
                      end
                  end
              end
          end
      end
  end.

(* the unpacking part of delta_decoder_read_mini_block: the [mbs] deltas of a mini-block of width [w] *)
Definition read_mini (mbs w min_delta : N) (rest : list N) : res (list N * list N) :=
  if w =? 0 then Ok (repeat min_delta (N.to_nat mbs), rest)
  else if 64 <? w then Err ERR_DECODE
  else let p := packed_size mbs w in
       if len rest <? p then Err ERR_DECODE else
       match take (N.to_nat p) rest with
       | None => Fault OobRead
       | Some (bs, rest') =>
           Ok (map (fun a => u64 (min_delta + a)) (unpack_f w (N.to_nat mbs) bs), rest')
       end.

(* last_value += delta, for the deltas taken from one mini-block *)
Fixpoint sums (last : N) (ds : list N) : list N * N :=
  match ds with
  | [] => ([], last)
  | d :: t => let v := u64 (last + d) in let '(vs, l) := sums v t in (v :: vs, l)
  end.

(* the mini-blocks of the current block, as long as values are still wanted ([r] of them) *)
Fixpoint dec_minis (mbs min_delta : N) (ws : list N) (rest : list N) (last : N) (r : nat)
  : res (list N * list N * N * nat) :=
  match ws with
  | [] => Ok ([], rest, last, r)
  | w :: ws' =>
      match r with
      | O => Ok ([], rest, last, r)
      | _ =>
          match read_mini mbs w min_delta rest with
          | Err c => Err c
          | Fault e => Fault e
          | Ok (ds, rest1) =>
              (* a geometry with block_size < mini_blocks gives empty mini-blocks: the C code then uses
                 mini_block_values[0], which is still the 0 of the initial memset *)
              let ds' := if mbs =? 0 then [0] else ds in
              let tk := firstn r ds' in
              let '(vals, last') := sums last tk in
              match dec_minis mbs min_delta ws' rest1 last' (r - length tk) with
              | Ok (more, rest2, last'', r'') => Ok (vals ++ more, rest2, last'', r'')
              | Err c => Err c
              | Fault e => Fault e
              end
          end
      end
  end.

(* delta_decoder_read_block, then its mini-blocks; repeated while values are wanted *)
Fixpoint dec_blocks (fuel : nat) (mbs mbpb : N) (rest : list N) (last : N) (r : nat)
  : res (list N * list N) :=
  match r with
  | O => Ok ([], rest)
  | _ =>
    match fuel with
    | O => Fault OutOfFuel
    | S f =>
      match rest with
      | [] => Err ERR_END_OF_DATA
      | _ =>
        match uleb_dec rest with
        | None => Err ERR_DECODE
        | Some (zz, rest1) =>
            if len rest1 <? mbpb then Err ERR_DECODE else
            match take (N.to_nat mbpb) rest1 with
            | None => Fault OobRead
            | Some (ws, rest2) =>
                match dec_minis mbs (zigzag_dec zz) ws rest2 last r with
                | Err c => Err c
                | Fault e => Fault e
                | Ok (vals, rest3, last', r') =>
                    match dec_blocks f mbs mbpb rest3 last' r' with
                    | Ok (more, rest4) => Ok (vals ++ more, rest4)
                    | Err c => Err c
                    | Fault e => Fault e
                    end
                end
            end
        end
      end
    end
  end.

(* carquet_delta_decode_int64 (data, data_size, values, num_values, &bytes_consumed):
   Ok (values, bytes consumed).  [count] is num_values (a non-positive num_values behaves as 0). *)
Definition delta_decode_int64 (data : list N) (count : N) : res (list N * N) :=
  match delta_init data with
  | Err c => Err c
  | Fault e => Fault e
  | Ok h =>
      if count =? 0 then Ok ([], len data - len (h_rest h)) else
      if (h_total h <=? 0)%Z then Err ERR_END_OF_DATA else
      let total := Z.to_N (h_total h) in
      let m := N.min count total in
      match dec_blocks (N.to_nat m) (h_mbs h) (h_mbpb h) (h_rest h) (h_first h) (N.to_nat m - 1) with
      | Err c => Err c
      | Fault e => Fault e
      | Ok (vals, rest) =>
          if total <? count then Err ERR_END_OF_DATA
          else Ok (h_first h :: vals, len data - len rest)
      end
  end.

(* carquet_delta_decode_int32: the same decoder, each value narrowed with (int32_t)val *)
Definition delta_decode_int32 (data : list N) (count : N) : res (list N * N) :=
  match delta_decode_int64 data count with
  | Ok (vs, c) => Ok (map u32 vs, c)
  | Err c => Err c
  | Fault e => Fault e
  end.
