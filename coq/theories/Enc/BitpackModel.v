(** Model of src/core/bitpack.c: carquet_bitpack8_32 / carquet_bitunpack8_32 (one group of 8 values)
    and carquet_bitpack_32 / carquet_bitunpack_32 (any count, padded tail).

    Scope note (stated in DESIGN.md): the eight specialised unpackers are literally
    "(read_leN(input) >> i*w) & mask" and are modelled as such; the general 9..32-bit loops of
    bitunpack8_32 / bitpack8_32 are modelled by the same closed form (they gather / scatter exactly
    the bits [i*w, (i+1)*w) of the little-endian group); that this closed form is what the loops
    compute is established by the correspondence run (all 33 widths x every single-bit vector plus
    random groups), not by a refinement proof of the loops. *)
From Coq Require Import NArith List Bool.
From Carquet Require Import Base.Res.
Import ListNotations.
Local Open Scope N_scope.

Definition mask (w : nat) : N := N.ones (N.of_nat w).

(** read_leN: the first bytes of the input as a little-endian integer *)
Definition le_val (bs : list N) : N := fold_right (fun b acc => b + 256 * acc) 0 bs.

Fixpoint le_bytes (n : nat) (x : N) : list N :=
  match n with O => [] | S n' => x mod 256 :: le_bytes n' (x / 256) end.

(** carquet_bitunpack8_32(input, bit_width, values): reads bit_width bytes, yields 8 values *)
Definition unpack8 (w : nat) (input : list N) : res (list N) :=
  if Nat.ltb (length input) w then Fault OobRead
  else let g := le_val (firstn w input) in
       Ok (map (fun i => N.land (N.shiftr g (N.of_nat (i * w))) (mask w)) (seq 0 8)).

(** carquet_bitpack8_32(values, bit_width, output): 8 values, writes bit_width bytes *)
Definition scatter (w : nat) (vs : list N) : N :=
  fold_left (fun acc iv => N.lor acc (N.shiftl (N.land (snd iv) (mask w)) (N.of_nat (fst iv * w))))
            (combine (seq 0 8) vs) 0.

Definition pack8 (w : nat) (vs : list N) : list N := le_bytes w (scatter w vs).

(** carquet_packed_size(count, bit_width) = ceil(count * bit_width / 8) *)
Definition packed_size (count w : nat) : nat := Nat.div (count * w + 7)%nat 8.

(** carquet_bitpack_32: groups of 8, then a zero-padded group of which only packed_size bytes count *)
Fixpoint pack_n (fuel : nat) (w : nat) (vs : list N) : list N :=
  match fuel with
  | O => []
  | S f =>
    match vs with
    | [] => []
    | _ => if Nat.leb 8 (length vs)
           then pack8 w (firstn 8 vs) ++ pack_n f w (skipn 8 vs)
           else firstn (packed_size (length vs) w) (pack8 w (vs ++ repeat 0 (8 - length vs)))
    end
  end.
Definition bitpack_32 (w : nat) (vs : list N) : list N :=
  match w with O => [] | _ => pack_n (length vs) w vs end.

(** carquet_bitunpack_32(input, count, bit_width, values) -> values, bytes consumed.
    Whole groups read bit_width bytes each.  The tail group (count mod 8 values) reads only
    packed_size(tail, bit_width) bytes, copied into a zero-filled 32-byte scratch group that is then
    unpacked (the repair of DESIGN F8; before it the tail read a whole group past the input). *)
Fixpoint unpack_n (fuel : nat) (w : nat) (input : list N) (count : nat) : res (list N * nat) :=
  match fuel with
  | O => Ok ([], O)
  | S f =>
    if Nat.eqb count 0 then Ok ([], O)
    else if Nat.leb 8 count then
      match unpack8 w input with
      | Ok g => match unpack_n f w (skipn w input) (count - 8) with
                | Ok (r, c) => Ok (g ++ r, (w + c)%nat)
                | Err e => Err e | Fault x => Fault x
                end
      | Err e => Err e | Fault x => Fault x
      end
    else
      let tail_bytes := Nat.min (packed_size count w) 32 in
      if Nat.ltb (length input) tail_bytes then Fault OobRead
      else
        match unpack8 w (firstn tail_bytes input ++ repeat 0 (32 - tail_bytes)) with
        | Ok g => Ok (firstn count g, tail_bytes)
        | Err e => Err e | Fault x => Fault x
        end
  end.
Definition bitunpack_32 (w : nat) (input : list N) (count : nat) : res (list N * nat) :=
  match w with O => Ok (repeat 0 count, O) | _ => unpack_n (S count) w input count end.
