(** The loops of src/core/bitpack.c (BitpackLoopModel.v) compute the closed form of BitpackModel.v.

    Main theorems:  [unpack8_c_eq_total], [unpack8_c_eq], [unpack8_c_short], [unpack8_c_reads],
                    [pack8_c_eq_total], [pack8_c_eq], [pack8_c_in_bounds].                         *)
From Coq Require Import ZArith NArith Arith List Bool Lia ZifyBool ZifyNat ZifyN.
From Carquet Require Import Base.Res Base.Bits Enc.BitpackSpec Enc.BitpackModel Enc.BitpackProofs
     Enc.BitpackNProofs Enc.BitpackLoopModel.
Import ListNotations.
Local Open Scope N_scope.
Ltac Zify.zify_post_hook ::= Z.div_mod_to_equations.

Local Arguments N.mul : simpl never.
Local Arguments N.add : simpl never.
Local Arguments N.sub : simpl never.
Local Arguments N.pow : simpl never.
Local Arguments N.div : simpl never.
Local Arguments N.modulo : simpl never.
Local Arguments N.ltb : simpl never.
Local Arguments N.eqb : simpl never.
Local Arguments N.shiftl : simpl never.
Local Arguments N.shiftr : simpl never.
Local Arguments N.land : simpl never.
Local Arguments N.lor : simpl never.
Local Arguments N.of_nat : simpl never.
Local Arguments N.to_nat : simpl never.

(* ------------------------------------------------------------------ machine arithmetic *)

Lemma shl_ok width a k : k < width -> shl width a k = Ok (N.shiftl a k mod 2 ^ width).
Proof. intros H. unfold shl. destruct (N.ltb_spec k width) as [_|G]; [reflexivity|lia]. Qed.

Lemma shr_ok width a k : k < width -> shr width a k = Ok (N.shiftr a k).
Proof. intros H. unfold shr. destruct (N.ltb_spec k width) as [_|G]; [reflexivity|lia]. Qed.

Lemma wsub_small width a b : b <= a -> a < 2 ^ width -> wsub width a b = a - b.
Proof.
  intros Hb Ha. unfold wsub. assert (Z : 2 ^ width <> 0) by apply pow2_nonzero.
  rewrite (N.mod_small b) by lia.
  replace (a + 2 ^ width - b) with ((a - b) + 1 * 2 ^ width) by lia.
  rewrite N.mod_add by exact Z. apply N.mod_small. lia.
Qed.

Lemma pow2_pos k : 0 < 2 ^ k.
Proof. pose proof (pow2_nonzero k). lia. Qed.

Lemma pow2_split a b : a <= b -> 2 ^ b = 2 ^ a * 2 ^ (b - a).
Proof. intros H. rewrite <- N.pow_add_r. f_equal. lia. Qed.

Lemma pow2_le a b : a <= b -> 2 ^ a <= 2 ^ b.
Proof. intros H. apply N.pow_le_mono_r; [discriminate|exact H]. Qed.

Lemma pow2_lt a b : a < b -> 2 ^ a < 2 ^ b.
Proof. intros H. apply N.pow_lt_mono_r; [reflexivity|exact H]. Qed.

(** (uint32_t)((1ULL << bit_width) - 1) is the mask of the closed form *)
Lemma mask_c w : (w <= 32)%nat ->
  shl 64 1 (N.of_nat w) = Ok (2 ^ N.of_nat w) /\ u32 (wsub 64 (2 ^ N.of_nat w) 1) = mask w.
Proof.
  intros Hw.
  assert (L32 : 2 ^ N.of_nat w <= 2 ^ 32) by (apply pow2_le; lia).
  assert (L64 : 2 ^ 32 < 2 ^ 64) by (apply pow2_lt; lia).
  pose proof (pow2_pos (N.of_nat w)) as P.
  split.
  - rewrite shl_ok by lia. rewrite N.shiftl_1_l. rewrite N.mod_small by lia. reflexivity.
  - rewrite wsub_small by lia. unfold u32, mask. rewrite N.ones_equiv, <- N.sub_1_r.
    apply N.mod_small. lia.
Qed.

(* ------------------------------------------------------------------ bytes of a little-endian number *)

Lemma from_base_app B a b : from_base B (a ++ b) = from_base B a + B ^ N.of_nat (length a) * from_base B b.
Proof.
  induction a as [|x a IH]; cbn [app length].
  - change (N.of_nat 0) with 0. rewrite N.pow_0_r. unfold from_base at 2. cbn [fold_right]. lia.
  - rewrite !from_base_cons, IH, Nat2N.inj_succ, N.pow_succ_r'. lia.
Qed.

Lemma nth_byte input : Forall (fun b => b < 256) input -> forall q b, nth_error input q = Some b ->
  (from_base 256 input / 256 ^ N.of_nat q) mod 256 = b.
Proof.
  intros H. induction H as [|x xs Hx Hxs IH]; intros q b Hn.
  - destruct q; discriminate.
  - rewrite from_base_cons. destruct q as [|q]; cbn [nth_error] in Hn.
    + injection Hn as <-. change (N.of_nat 0) with 0. rewrite N.pow_0_r, N.div_1_r.
      rewrite N.mul_comm, N.mod_add by discriminate. apply N.mod_small, Hx.
    + rewrite Nat2N.inj_succ, N.pow_succ_r', <- N.div_div by (try apply N.pow_nonzero; discriminate).
      rewrite (N.mul_comm 256), N.div_add by discriminate. rewrite (N.div_small x 256 Hx), N.add_0_l.
      apply IH, Hn.
Qed.

(** the bits [r, r+b) of a number are bits of its low byte when r + b <= 8 *)
Lemma extract_bits X r b : r + b <= 8 -> ((X mod 256) / 2 ^ r) mod 2 ^ b = (X / 2 ^ r) mod 2 ^ b.
Proof.
  intros H. apply N.bits_inj_iff; intro m.
  destruct (N.lt_ge_cases m b) as [L|G].
  - rewrite !N.mod_pow2_bits_low by exact L. rewrite !N.div_pow2_bits.
    change 256 with (2 ^ 8). apply N.mod_pow2_bits_low. lia.
  - rewrite !N.mod_pow2_bits_high by exact G. reflexivity.
Qed.

(** the bits [s, s+t) of a + 2^(s+t) * c are those of a *)
Lemma low_bits_add a c s t : ((a + 2 ^ (s + t) * c) / 2 ^ s) mod 2 ^ t = (a / 2 ^ s) mod 2 ^ t.
Proof.
  rewrite N.pow_add_r, <- N.mul_assoc, (N.mul_comm (2 ^ s)), N.div_add by apply pow2_nonzero.
  rewrite (N.mul_comm (2 ^ t)), N.mod_add by apply pow2_nonzero. reflexivity.
Qed.

(* ------------------------------------------------------------------ the general unpack loop *)

Lemma rd_ok input i : i < N.of_nat (length input) -> exists b, rd input i = Ok b /\ nth_error input (N.to_nat i) = Some b.
Proof.
  intros H. unfold rd. destruct (nth_error input (N.to_nat i)) as [b|] eqn:E.
  - exists b. split; reflexivity.
  - apply nth_error_None in E. lia.
Qed.

Lemma rd_oob input i : N.of_nat (length input) <= i -> rd input i = Fault OobRead.
Proof.
  intros H. unfold rd. destruct (nth_error input (N.to_nat i)) as [b|] eqn:E; [|reflexivity].
  assert (X : nth_error input (N.to_nat i) <> None) by (rewrite E; discriminate).
  apply nth_error_Some in X. lia.
Qed.

(** if (bit_pos % 8 == 0) byte_pos++  keeps  byte_pos = bit_pos / 8 *)
Lemma byte_pos_step bit_pos bfb : bit_pos mod 8 + bfb <= 8 -> 1 <= bfb ->
  (if (bit_pos + bfb) mod 8 =? 0 then bit_pos / 8 + 1 else bit_pos / 8) = (bit_pos + bfb) / 8.
Proof. intros H8 H1. destruct (N.eqb_spec ((bit_pos + bfb) mod 8) 0); lia. Qed.

Lemma bit_pos_step bit_pos bfb : bit_pos mod 8 + bfb = 8 -> (bit_pos + bfb) mod 8 = 0.
Proof. intros H. lia. Qed.

(** with too short an input the while loop runs into the end of the buffer (whatever the bytes are) *)
Lemma unpack_while_oob input : forall fuel bit_pos bits needed bib,
  needed = 0 \/ needed + bit_pos mod 8 <= 8 * N.of_nat fuel ->
  bit_pos <= 8 * N.of_nat (length input) < bit_pos + needed ->
  bib + needed <= 64 ->
  unpack_while fuel input bit_pos (bit_pos / 8) bits needed bib = Fault OobRead.
Proof.
  induction fuel as [|fuel IH]; intros bit_pos bits needed bib Hfuel Hlen H64.
  - lia.
  - cbn [unpack_while]. destruct (N.eqb_spec needed 0) as [->|Hne]; [lia|].
    destruct (N.lt_ge_cases (bit_pos / 8) (N.of_nat (length input))) as [Lq|Gq].
    2:{ rewrite rd_oob by exact Gq. reflexivity. }
    set (r := bit_pos mod 8) in *.
    set (bfb := if needed <? 8 - r then needed else 8 - r).
    assert (Hr : r < 8) by (unfold r; lia).
    assert (Hbfb : 1 <= bfb /\ bfb <= needed /\ r + bfb <= 8 /\ (bfb = needed \/ r + bfb = 8)).
    { unfold bfb. destruct (N.ltb_spec needed (8 - r)); lia. }
    destruct Hbfb as (B1 & B2 & B3 & B4).
    destruct (rd_ok input (bit_pos / 8)) as (byte_val & Erd & Enth); [lia|].
    rewrite Erd. cbn [bind]. rewrite shr_ok, shl_ok by lia. cbn [bind]. rewrite shl_ok by lia. cbn [bind].
    rewrite (byte_pos_step bit_pos bfb B3 B1).
    apply IH.
    + destruct B4 as [->|B4]; [left; lia|]. right.
      rewrite (bit_pos_step bit_pos bfb B4). lia.
    + unfold r in *. lia.
    + lia.
Qed.

(** inside the buffer the while loop ends normally at bit_pos + needed (whatever the bytes are) *)
Lemma unpack_while_shape input : forall fuel bit_pos bits needed bib,
  needed = 0 \/ needed + bit_pos mod 8 <= 8 * N.of_nat fuel ->
  bit_pos + needed <= 8 * N.of_nat (length input) ->
  bib + needed <= 64 ->
  exists bits', unpack_while fuel input bit_pos (bit_pos / 8) bits needed bib
                = Ok (bit_pos + needed, (bit_pos + needed) / 8, bits').
Proof.
  induction fuel as [|fuel IH]; intros bit_pos bits needed bib Hfuel Hlen H64.
  - assert (needed = 0) as -> by lia. exists bits. cbn [unpack_while]. change (0 =? 0) with true. cbv iota.
    rewrite N.add_0_r. reflexivity.
  - cbn [unpack_while]. destruct (N.eqb_spec needed 0) as [->|Hne].
    + exists bits. rewrite N.add_0_r. reflexivity.
    + set (r := bit_pos mod 8) in *.
      set (bfb := if needed <? 8 - r then needed else 8 - r).
      assert (Hr : r < 8) by (unfold r; lia).
      assert (Hbfb : 1 <= bfb /\ bfb <= needed /\ r + bfb <= 8 /\ (bfb = needed \/ r + bfb = 8)).
      { unfold bfb. destruct (N.ltb_spec needed (8 - r)); lia. }
      destruct Hbfb as (B1 & B2 & B3 & B4).
      destruct (rd_ok input (bit_pos / 8)) as (byte_val & Erd & Enth); [lia|].
      rewrite Erd. cbn [bind]. rewrite shr_ok, shl_ok by lia. cbn [bind]. rewrite shl_ok by lia. cbn [bind].
      rewrite (byte_pos_step bit_pos bfb B3 B1).
      match goal with |- exists _, unpack_while _ _ _ _ ?b _ _ = _ =>
        destruct (IH (bit_pos + bfb) b (needed - bfb) (bib + bfb)) as (bits' & E) end.
      * destruct B4 as [->|B4]; [left; lia|]. right.
        rewrite (bit_pos_step bit_pos bfb B4). lia.
      * lia.
      * lia.
      * exists bits'. rewrite E. replace (bit_pos + bfb + (needed - bfb)) with (bit_pos + needed) by lia.
        reflexivity.
Qed.

Lemma unpack_for_oob input : forall n w mask' bit_pos, 1 <= w <= 32 ->
  bit_pos <= 8 * N.of_nat (length input) < bit_pos + N.of_nat n * w ->
  unpack_for n w mask' input bit_pos (bit_pos / 8) = Fault OobRead.
Proof.
  induction n as [|n IH]; intros w mask' bit_pos Hw Hlen; [lia|].
  cbn [unpack_for]. unfold unpack_fuel.
  destruct (N.le_gt_cases (bit_pos + w) (8 * N.of_nat (length input))) as [L|L].
  - destruct (unpack_while_shape input 5 bit_pos 0 w 0) as (bits' & E); [right; lia|lia|lia|].
    rewrite E. cbn [bind]. rewrite IH by lia. reflexivity.
  - rewrite unpack_while_oob; [reflexivity|right; lia|lia|lia].
Qed.

Section UnpackGen.
Variable input : list N.
Variable G : N.
Hypothesis HG : forall q b, nth_error input q = Some b -> (G / 256 ^ N.of_nat q) mod 256 = b.

(** one round of the while loop: what is extracted from the current byte *)
Lemma extracted_eq : forall bit_pos byte_val bfb,
  nth_error input (N.to_nat (bit_pos / 8)) = Some byte_val -> 1 <= bfb -> bit_pos mod 8 + bfb <= 8 ->
  exists hi one, shr 32 byte_val (bit_pos mod 8) = Ok hi /\ shl 32 1 bfb = Ok one /\
    N.land hi (wsub 32 one 1) = (G / 2 ^ bit_pos) mod 2 ^ bfb.
Proof.
  intros bit_pos byte_val bfb Hn H1 H8.
  pose proof (HG _ _ Hn) as Hb. rewrite N2Nat.id in Hb.
  exists (N.shiftr byte_val (bit_pos mod 8)), (2 ^ bfb).
  assert (L : 2 ^ bfb < 2 ^ 32) by (apply pow2_lt; lia).
  pose proof (pow2_pos bfb) as P.
  split; [apply shr_ok; lia|]. split.
  - rewrite shl_ok by lia. rewrite N.shiftl_1_l, N.mod_small by exact L. reflexivity.
  - rewrite wsub_small by lia. rewrite N.sub_1_r, <- N.ones_equiv, N.land_ones, N.shiftr_div_pow2.
    rewrite <- Hb. rewrite extract_bits by lia.
    change 256 with (2 ^ 8). rewrite <- N.pow_mul_r, N.div_div, <- N.pow_add_r by apply pow2_nonzero.
    do 3 f_equal. lia.
Qed.

Lemma unpack_while_ok : forall fuel bit_pos bits needed bib,
  needed = 0 \/ needed + bit_pos mod 8 <= 8 * N.of_nat fuel ->
  bit_pos + needed <= 8 * N.of_nat (length input) ->
  bits < 2 ^ bib -> bib + needed <= 64 ->
  unpack_while fuel input bit_pos (bit_pos / 8) bits needed bib
  = Ok (bit_pos + needed, (bit_pos + needed) / 8, bits + 2 ^ bib * ((G / 2 ^ bit_pos) mod 2 ^ needed)).
Proof.
  induction fuel as [|fuel IH]; intros bit_pos bits needed bib Hfuel Hlen Hbits H64.
  - assert (needed = 0) as -> by lia. cbn [unpack_while]. change (0 =? 0) with true. cbv iota.
    rewrite N.add_0_r, N.pow_0_r, N.mod_1_r, N.mul_0_r, N.add_0_r. reflexivity.
  - cbn [unpack_while]. destruct (N.eqb_spec needed 0) as [->|Hne].
    + rewrite N.add_0_r, N.pow_0_r, N.mod_1_r, N.mul_0_r, N.add_0_r. reflexivity.
    + set (r := bit_pos mod 8) in *.
      set (bfb := if needed <? 8 - r then needed else 8 - r).
      assert (Hr : r < 8) by (unfold r; lia).
      assert (Hbfb : 1 <= bfb /\ bfb <= needed /\ r + bfb <= 8 /\ (bfb = needed \/ r + bfb = 8)).
      { unfold bfb. destruct (N.ltb_spec needed (8 - r)); lia. }
      destruct Hbfb as (B1 & B2 & B3 & B4).
      destruct (rd_ok input (bit_pos / 8)) as (byte_val & Erd & Enth); [lia|].
      rewrite Erd. cbn [bind].
      destruct (extracted_eq bit_pos byte_val bfb Enth B1 B3) as (hi & one & E1 & E2 & E3).
      fold r in E1. rewrite E1, E2. cbn [bind]. rewrite E3.
      set (e := (G / 2 ^ bit_pos) mod 2 ^ bfb).
      assert (He : e < 2 ^ bfb) by (apply N.mod_lt, pow2_nonzero).
      assert (Hsh : N.shiftl e bib < 2 ^ 64).
      { rewrite N.shiftl_mul_pow2. apply N.lt_le_trans with (2 ^ bfb * 2 ^ bib).
        - apply N.mul_lt_mono_pos_r; [apply pow2_pos|exact He].
        - rewrite <- N.pow_add_r. apply pow2_le. lia. }
      rewrite shl_ok by lia. cbn [bind]. rewrite (N.mod_small _ _ Hsh).
      rewrite N.shiftl_mul_pow2, lor_shift_add by exact Hbits.
      rewrite (byte_pos_step bit_pos bfb B3 B1).
      rewrite IH.
      * replace (bit_pos + bfb + (needed - bfb)) with (bit_pos + needed) by lia.
        do 2 f_equal.
        rewrite (pow2_split bfb needed B2), N.mod_mul_r by apply pow2_nonzero.
        fold e. rewrite N.div_div, <- N.pow_add_r by apply pow2_nonzero.
        rewrite (N.pow_add_r 2 bib bfb). lia.
      * destruct B4 as [->|B4]; [left; lia|]. right.
        rewrite (bit_pos_step bit_pos bfb B4). lia.
      * lia.
      * rewrite N.pow_add_r. pose proof (pow2_pos bib). nia.
      * lia.
Qed.

(** the for loop: value i is the bits [bit_pos + i*w, bit_pos + (i+1)*w) of G *)
Lemma unpack_for_ok : forall n w mask' bit_pos, 1 <= w <= 32 ->
  bit_pos + N.of_nat n * w <= 8 * N.of_nat (length input) ->
  unpack_for n w mask' input bit_pos (bit_pos / 8)
  = Ok (map (fun i => u32 (N.land ((G / 2 ^ (bit_pos + N.of_nat i * w)) mod 2 ^ w) mask')) (seq 0 n)).
Proof.
  induction n as [|n IH]; intros w mask' bit_pos Hw Hlen; [reflexivity|].
  cbn [unpack_for]. unfold unpack_fuel.
  rewrite unpack_while_ok; [|right; lia|lia|rewrite N.pow_0_r; lia|lia].
  cbn [bind]. rewrite IH by lia. cbn [bind seq map]. f_equal. f_equal.
  - rewrite N.pow_0_r, N.mul_1_l, N.add_0_l. do 5 f_equal. lia.
  - rewrite <- seq_shift, map_map. apply map_ext. intro i. do 5 f_equal. lia.
Qed.

End UnpackGen.

Lemma u32_small x : x < 2 ^ 32 -> u32 x = x.
Proof. intros H. apply N.mod_small, H. Qed.

(** the general loop = the closed form, for every width 1..32 (the C code uses it for 9..32) *)
Lemma unpack8_gen_short w input : (1 <= w <= 32)%nat -> (length input < w)%nat ->
  unpack8_gen w input = Fault OobRead.
Proof.
  intros Hw Short. unfold unpack8_gen. destruct (mask_c w) as [E1 E2]; [lia|].
  rewrite E1. cbn [bind]. apply (unpack_for_oob input 8 (N.of_nat w) _ 0); lia.
Qed.

Theorem unpack8_gen_eq w input : (1 <= w <= 32)%nat -> Forall (fun b => b < 256) input ->
  unpack8_gen w input = unpack8 w input.
Proof.
  intros Hw Hin.
  destruct (Nat.ltb_spec (length input) w) as [Short|Long].
  { rewrite unpack8_short by exact Short. apply unpack8_gen_short; assumption. }
  unfold unpack8_gen. destruct (mask_c w) as [E1 E2]; [lia|].
  rewrite E1. cbn [bind]. rewrite E2.
  pose proof (nth_byte input Hin) as HG.
  - rewrite unpack8_spec by exact Long.
    pose proof (unpack_for_ok input _ HG 8 (N.of_nat w) (mask w) 0) as E. change (0 / 8) with 0 in E.
    rewrite E by lia. clear E.
    f_equal. unfold unpack_spec. rewrite to_base_digits by apply pow2_nonzero.
    apply map_ext_in. intros i Hi. apply in_seq in Hi.
    rewrite land_mask, N.mod_mod by apply pow2_nonzero.
    rewrite u32_small.
    2:{ apply N.lt_le_trans with (2 ^ N.of_nat w); [apply N.mod_lt, pow2_nonzero|apply pow2_le; lia]. }
    rewrite <- (firstn_skipn w input) at 1. rewrite from_base_app, firstn_length_le by exact Long.
    rewrite <- N.pow_mul_r. change 256 with (2 ^ 8). rewrite <- N.pow_mul_r.
    rewrite N.add_0_l.
    replace (8 * N.of_nat w) with ((N.of_nat i * N.of_nat w + N.of_nat w) + (7 - N.of_nat i) * N.of_nat w).
    2:{ replace 8 with (N.of_nat i + 1 + (7 - N.of_nat i)) by lia. ring. }
    rewrite (N.pow_add_r 2 (N.of_nat i * N.of_nat w + N.of_nat w)), <- N.mul_assoc, low_bits_add.
    do 3 f_equal. lia.
Qed.

(* ------------------------------------------------------------------ the eight specialised unpackers *)

Lemma sl_small W b k : b * 2 ^ k < 2 ^ W -> sl W b k = b * 2 ^ k.
Proof. intros H. unfold sl. rewrite N.shiftl_mul_pow2. apply N.mod_small, H. Qed.

Lemma u32_land x m : m < 2 ^ 32 -> u32 (N.land x m) = N.land x m.
Proof. intros H. apply u32_small. apply land_lt_pow2_r, H. Qed.

Ltac byte_bounds :=
  repeat match goal with H : Forall _ (_ :: _) |- _ =>
    apply Forall_cons_iff in H; let B := fresh "B" in destruct H as [B H] end.

(** "b0 | b1 << 8 | b2 << 16 ..." is the little-endian number b0 + 256 * (b1 + 256 * (b2 + ...)) *)
Ltac le_arith :=
  unfold u16; rewrite ?sl_small by lia;
  repeat (match goal with |- context [N.lor ?a (?d * 2 ^ ?k)] =>
            lazymatch a with context [N.lor] => fail | _ => rewrite (lor_shift_add a d k) by lia end end);
  rewrite ?N.mod_small by lia; lia.

Lemma unpack8_1bit_eq input : Forall (fun b => b < 256) input -> unpack8_1bit input = unpack8 1 input.
Proof.
  intros H. destruct input as [|b0 rest]; [reflexivity|].
  change (unpack8_1bit (b0 :: rest)) with
    (Ok (map (fun i => N.land (N.shiftr b0 (N.of_nat (i * 1))) (mask 1)) (seq 0 8))).
  change (unpack8 1 (b0 :: rest)) with
    (Ok (map (fun i => N.land (N.shiftr (b0 + 256 * 0) (N.of_nat (i * 1))) (mask 1)) (seq 0 8))).
  rewrite N.mul_0_r, N.add_0_r. reflexivity.
Qed.

Lemma unpack8_2bit_eq input : Forall (fun b => b < 256) input -> unpack8_2bit input = unpack8 2 input.
Proof.
  intros H. destruct input as [|b0 [|b1 rest]]; try reflexivity. byte_bounds.
  assert (E : read_le16 (b0 :: b1 :: rest) = Ok (b0 + 256 * (b1 + 256 * 0))).
  { change (read_le16 (b0 :: b1 :: rest)) with (Ok (u16 (N.lor b0 (sl 32 b1 8)))). f_equal. le_arith. }
  unfold unpack8_2bit. rewrite E. reflexivity.
Qed.

Lemma unpack8_3bit_eq input : Forall (fun b => b < 256) input -> unpack8_3bit input = unpack8 3 input.
Proof.
  intros H. destruct input as [|b0 [|b1 [|b2 rest]]]; try reflexivity. byte_bounds.
  assert (E : read_le24 (b0 :: b1 :: b2 :: rest) = Ok (b0 + 256 * (b1 + 256 * (b2 + 256 * 0)))).
  { change (read_le24 (b0 :: b1 :: b2 :: rest)) with (Ok (N.lor (N.lor b0 (sl 32 b1 8)) (sl 32 b2 16))).
    f_equal. le_arith. }
  unfold unpack8_3bit. rewrite E. reflexivity.
Qed.

Lemma unpack8_4bit_eq input : Forall (fun b => b < 256) input -> unpack8_4bit input = unpack8 4 input.
Proof.
  intros H. destruct input as [|b0 [|b1 [|b2 [|b3 rest]]]]; try reflexivity. byte_bounds.
  assert (E : read_le32 (b0 :: b1 :: b2 :: b3 :: rest)
              = Ok (b0 + 256 * (b1 + 256 * (b2 + 256 * (b3 + 256 * 0))))).
  { change (read_le32 (b0 :: b1 :: b2 :: b3 :: rest)) with
      (Ok (N.lor (N.lor (N.lor b0 (sl 32 b1 8)) (sl 32 b2 16)) (sl 32 b3 24))).
    f_equal. le_arith. }
  unfold unpack8_4bit. rewrite E. reflexivity.
Qed.

Lemma unpack8_5bit_eq input : Forall (fun b => b < 256) input -> unpack8_5bit input = unpack8 5 input.
Proof.
  intros H. destruct input as [|b0 [|b1 [|b2 [|b3 [|b4 rest]]]]]; try reflexivity. byte_bounds.
  assert (E : read_le40 (b0 :: b1 :: b2 :: b3 :: b4 :: rest)
              = Ok (b0 + 256 * (b1 + 256 * (b2 + 256 * (b3 + 256 * (b4 + 256 * 0)))))).
  { change (read_le40 (b0 :: b1 :: b2 :: b3 :: b4 :: rest)) with
      (Ok (N.lor (N.lor (N.lor (N.lor b0 (sl 64 b1 8)) (sl 64 b2 16)) (sl 64 b3 24)) (sl 64 b4 32))).
    f_equal. le_arith. }
  unfold unpack8_5bit. rewrite E. cbn [bind]. rewrite !u32_land by reflexivity. reflexivity.
Qed.

Lemma unpack8_6bit_eq input : Forall (fun b => b < 256) input -> unpack8_6bit input = unpack8 6 input.
Proof.
  intros H. destruct input as [|b0 [|b1 [|b2 [|b3 [|b4 [|b5 rest]]]]]]; try reflexivity. byte_bounds.
  assert (E : read_le48 (b0 :: b1 :: b2 :: b3 :: b4 :: b5 :: rest)
              = Ok (b0 + 256 * (b1 + 256 * (b2 + 256 * (b3 + 256 * (b4 + 256 * (b5 + 256 * 0))))))).
  { change (read_le48 (b0 :: b1 :: b2 :: b3 :: b4 :: b5 :: rest)) with
      (Ok (N.lor (N.lor (N.lor (N.lor (N.lor b0 (sl 64 b1 8)) (sl 64 b2 16)) (sl 64 b3 24)) (sl 64 b4 32))
                 (sl 64 b5 40))).
    f_equal. le_arith. }
  unfold unpack8_6bit. rewrite E. cbn [bind]. rewrite !u32_land by reflexivity. reflexivity.
Qed.

Lemma unpack8_7bit_eq input : Forall (fun b => b < 256) input -> unpack8_7bit input = unpack8 7 input.
Proof.
  intros H. destruct input as [|b0 [|b1 [|b2 [|b3 [|b4 [|b5 [|b6 rest]]]]]]]; try reflexivity. byte_bounds.
  assert (E : read_le56 (b0 :: b1 :: b2 :: b3 :: b4 :: b5 :: b6 :: rest)
              = Ok (b0 + 256 * (b1 + 256 * (b2 + 256 * (b3 + 256 * (b4 + 256 * (b5 + 256 * (b6 + 256 * 0)))))))).
  { change (read_le56 (b0 :: b1 :: b2 :: b3 :: b4 :: b5 :: b6 :: rest)) with
      (Ok (N.lor (N.lor (N.lor (N.lor (N.lor (N.lor b0 (sl 64 b1 8)) (sl 64 b2 16)) (sl 64 b3 24)) (sl 64 b4 32))
                        (sl 64 b5 40)) (sl 64 b6 48))).
    f_equal. le_arith. }
  unfold unpack8_7bit. rewrite E. cbn [bind]. rewrite !u32_land by reflexivity. reflexivity.
Qed.

Lemma unpack8_8bit_eq input : Forall (fun b => b < 256) input -> unpack8_8bit input = unpack8 8 input.
Proof.
  intros H. destruct input as [|b0 [|b1 [|b2 [|b3 [|b4 [|b5 [|b6 [|b7 rest]]]]]]]]; try reflexivity.
  change (unpack8_8bit (b0 :: b1 :: b2 :: b3 :: b4 :: b5 :: b6 :: b7 :: rest))
    with (Ok [b0; b1; b2; b3; b4; b5; b6; b7]).
  rewrite unpack8_spec by (cbn [length]; lia).
  change (firstn 8 (b0 :: b1 :: b2 :: b3 :: b4 :: b5 :: b6 :: b7 :: rest)) with [b0; b1; b2; b3; b4; b5; b6; b7].
  f_equal. symmetry. unfold unpack_spec. change (2 ^ N.of_nat 8) with 256.
  apply (to_from_base 256 [b0; b1; b2; b3; b4; b5; b6; b7]); [discriminate|].
  byte_bounds. repeat constructor; assumption.
Qed.

(* ------------------------------------------------------------------ carquet_bitunpack8_32 *)

(** The loops of carquet_bitunpack8_32 compute the closed form, fault included: for every width 0..32 and
    every byte string, whatever its length. *)
Theorem unpack8_c_eq_total w input : (w <= 32)%nat -> Forall (fun b => b < 256) input ->
  unpack8_c w input = unpack8 w input.
Proof.
  intros Hw Hin.
  do 9 (try destruct w as [|w]).
  - reflexivity.
  - apply unpack8_1bit_eq, Hin.
  - apply unpack8_2bit_eq, Hin.
  - apply unpack8_3bit_eq, Hin.
  - apply unpack8_4bit_eq, Hin.
  - apply unpack8_5bit_eq, Hin.
  - apply unpack8_6bit_eq, Hin.
  - apply unpack8_7bit_eq, Hin.
  - apply unpack8_8bit_eq, Hin.
  - change (unpack8_c (S (S (S (S (S (S (S (S (S w))))))))) input)
      with (unpack8_gen (S (S (S (S (S (S (S (S (S w))))))))) input).
    apply unpack8_gen_eq; [lia|exact Hin].
Qed.

Theorem unpack8_c_eq w input : (w <= 32)%nat -> (w <= length input)%nat -> Forall (fun b => b < 256) input ->
  unpack8_c w input = unpack8 w input.
Proof. intros Hw _ Hin. apply unpack8_c_eq_total; assumption. Qed.

(** Short input: the C loops read outside the buffer (whatever the bytes are), and the closed form says so too.
    So the fault conditions coincide: both fault iff length input < w. *)
Theorem unpack8_c_short w input : (w <= 32)%nat -> (length input < w)%nat ->
  unpack8_c w input = Fault OobRead /\ unpack8 w input = Fault OobRead.
Proof.
  intros Hw Short. split; [|apply unpack8_short, Short].
  do 9 (try destruct w as [|w]).
  - cbn [length] in Short. lia.
  - destruct input as [|b0 rest]; [reflexivity|cbn [length] in Short; lia].
  - destruct input as [|b0 [|b1 rest]]; try reflexivity. cbn [length] in Short; lia.
  - destruct input as [|b0 [|b1 [|b2 rest]]]; try reflexivity. cbn [length] in Short; lia.
  - destruct input as [|b0 [|b1 [|b2 [|b3 rest]]]]; try reflexivity. cbn [length] in Short; lia.
  - destruct input as [|b0 [|b1 [|b2 [|b3 [|b4 rest]]]]]; try reflexivity. cbn [length] in Short; lia.
  - destruct input as [|b0 [|b1 [|b2 [|b3 [|b4 [|b5 rest]]]]]]; try reflexivity. cbn [length] in Short; lia.
  - destruct input as [|b0 [|b1 [|b2 [|b3 [|b4 [|b5 [|b6 rest]]]]]]]; try reflexivity. cbn [length] in Short; lia.
  - destruct input as [|b0 [|b1 [|b2 [|b3 [|b4 [|b5 [|b6 [|b7 rest]]]]]]]]; try reflexivity.
    cbn [length] in Short; lia.
  - change (unpack8_c (S (S (S (S (S (S (S (S (S w))))))))) input)
      with (unpack8_gen (S (S (S (S (S (S (S (S (S w))))))))) input).
    apply unpack8_gen_short; lia.
Qed.

(** What is read: exactly the first w bytes.  (Shorter inputs fault, by [unpack8_c_short]; bytes from
    position w on are never looked at.) *)
Theorem unpack8_c_reads w input : (w <= 32)%nat -> (w <= length input)%nat -> Forall (fun b => b < 256) input ->
  unpack8_c w input = unpack8_c w (firstn w input).
Proof.
  intros Hw Hl Hin.
  assert (Hf : Forall (fun b => b < 256) (firstn w input)).
  { apply Forall_forall. intros b Hb. rewrite Forall_forall in Hin. apply Hin. apply (In_nth_error) in Hb.
    destruct Hb as [n Hn]. rewrite <- (firstn_skipn w input). apply in_or_app. left.
    apply nth_error_In with n. exact Hn. }
  rewrite !unpack8_c_eq_total by assumption.
  rewrite !unpack8_spec by (rewrite ?firstn_length_le; lia).
  rewrite firstn_firstn, Nat.min_id. reflexivity.
Qed.

Example unpack8_c_example :
  unpack8_c 3 [0x88; 0xC6; 0xFA; 0xFF] = Ok [0; 1; 2; 3; 4; 5; 6; 7] /\
  unpack8_c 11 [1; 2; 3; 4; 5; 6; 7; 8; 9; 10; 11] = Ok [513; 96; 1040; 770; 112; 528; 642; 88] /\
  unpack8_c 11 [1; 2; 3; 4; 5; 6; 7; 8; 9; 10] = Fault OobRead.
Proof. vm_compute. repeat split; reflexivity. Qed.

(* ------------------------------------------------------------------ the pack loop *)

Definition good (out : list N) : Prop := Forall (fun x => x < 256) out.

(** [out'] is [out] with the number [x] or-ed into its little-endian value *)
Definition upd (out out' : list N) (x : N) : Prop :=
  length out' = length out /\ good out' /\ from_base 256 out' = N.lor (from_base 256 out) x.

Lemma upd_trans a b c x y : upd a b x -> upd b c y -> upd a c (N.lor x y).
Proof.
  intros (L1 & G1 & E1) (L2 & G2 & E2). split; [congruence|]. split; [exact G2|].
  rewrite E2, E1, N.lor_assoc. reflexivity.
Qed.

Lemma cons_lor x n : x < 256 -> x + 256 * n = N.lor x (N.shiftl n 8).
Proof.
  intros H. rewrite N.shiftl_mul_pow2. symmetry. change 256 with (2 ^ 8). apply lor_shift_add. exact H.
Qed.

Lemma or_at_nat_spec : forall out k b, (k < length out)%nat -> good out -> b < 256 ->
  exists out', or_at_nat out k b = Ok out' /\ upd out out' (N.shiftl b (8 * N.of_nat k)).
Proof.
  induction out as [|x xs IH]; intros k b Hk Hout Hb.
  - cbn [length] in Hk. lia.
  - apply Forall_cons_iff in Hout. destruct Hout as [Hx Hxs]. destruct k as [|k].
    + exists (N.lor x b :: xs). split; [reflexivity|]. split; [reflexivity|].
      assert (Hxb : N.lor x b < 256) by (change 256 with (2 ^ 8); apply lor_lt_pow2; assumption).
      split; [constructor; assumption|].
      rewrite !from_base_cons, !cons_lor by assumption.
      change (8 * N.of_nat 0) with 0. rewrite N.shiftl_0_r.
      rewrite <- !N.lor_assoc. f_equal. apply N.lor_comm.
    + destruct (IH k b) as (xs' & E & L & Gd & Num); [cbn [length] in Hk; lia|exact Hxs|exact Hb|].
      exists (x :: xs'). cbn [or_at_nat]. rewrite E. cbn [bind]. split; [reflexivity|].
      split; [cbn [length]; congruence|]. split; [constructor; assumption|].
      rewrite !from_base_cons, !cons_lor by assumption. rewrite Num, N.shiftl_lor, N.shiftl_shiftl, N.lor_assoc.
      do 2 f_equal. lia.
Qed.

Lemma or_at_spec out k b : k < N.of_nat (length out) -> good out -> b < 256 ->
  exists out', or_at out k b = Ok out' /\ upd out out' (N.shiftl b (8 * k)).
Proof.
  intros Hk Hout Hb. unfold or_at.
  destruct (or_at_nat_spec out (N.to_nat k) b) as (out' & E & U); [lia|exact Hout|exact Hb|].
  rewrite N2Nat.id in U. exists out'. split; assumption.
Qed.

Lemma shl_split v s : N.lor (N.shiftl (v mod 256) s) (N.shiftl (v / 256) (s + 8)) = N.shiftl v s.
Proof.
  rewrite (N.add_comm s 8), <- N.shiftl_shiftl, <- N.shiftl_lor. f_equal.
  rewrite <- cons_lor by (apply N.mod_lt; discriminate).
  rewrite N.add_comm. symmetry. apply N.div_mod. discriminate.
Qed.

Lemma u8_lt x : u8 x < 256.
Proof. apply N.mod_lt. discriminate. Qed.

Lemma pack_while_spec w : forall fuel out val bw bp,
  w <= bw + 8 * N.of_nat fuel ->
  8 * bp + (w - bw) <= 8 * N.of_nat (length out) ->
  val < 2 ^ (w - bw) -> good out ->
  exists out', pack_while fuel w out val bw bp = Ok out' /\ upd out out' (N.shiftl val (8 * bp)).
Proof.
  assert (Done : forall out val bw bp, w <= bw -> val < 2 ^ (w - bw) -> good out ->
                 upd out out (N.shiftl val (8 * bp))).
  { intros out val bw bp Hle Hval Hg. replace (w - bw) with 0 in Hval by lia. rewrite N.pow_0_r in Hval.
    assert (val = 0) as -> by lia. rewrite N.shiftl_0_l.
    split; [reflexivity|]. split; [exact Hg|]. rewrite N.lor_0_r. reflexivity. }
  induction fuel as [|fuel IH]; intros out val bw bp Hfuel Hlen Hval Hg; cbn [pack_while];
    destruct (N.ltb_spec bw w) as [L|Ge]; try lia.
  - exists out. split; [reflexivity|]. apply (Done out val bw bp); assumption.
  - destruct (or_at_spec out bp (u8 val)) as (out1 & E1 & U1); [lia|exact Hg|apply u8_lt|].
    rewrite E1. cbn [bind]. pose proof U1 as (L1 & G1 & _).
    destruct (IH out1 (N.shiftr val 8) (bw + 8) (bp + 1)) as (out2 & E2 & U2).
    + lia.
    + rewrite L1. lia.
    + rewrite N.shiftr_div_pow2. destruct (N.le_gt_cases 8 (w - bw)) as [Big|Small].
      * apply N.div_lt_upper_bound; [apply pow2_nonzero|].
        rewrite <- N.pow_add_r. replace (8 + (w - (bw + 8))) with (w - bw) by lia. exact Hval.
      * rewrite N.div_small; [apply pow2_pos|].
        apply N.lt_le_trans with (2 ^ (w - bw)); [exact Hval|apply pow2_le; lia].
    + exact G1.
    + exists out2. split; [exact E2|].
      pose proof (upd_trans _ _ _ _ _ U1 U2) as U. unfold u8 in U.
      rewrite N.shiftr_div_pow2 in U. change (2 ^ 8) with 256 in U.
      replace (8 * (bp + 1)) with (8 * bp + 8) in U by lia. rewrite shl_split in U. exact U.
  - exists out. split; [reflexivity|]. apply (Done out val bw bp); assumption.
Qed.

Lemma u8_u32 x : u8 (x mod 2 ^ 32) = x mod 256.
Proof.
  unfold u8. change (2 ^ 32) with (256 * 2 ^ 24). rewrite N.mod_mul_r by (try apply pow2_nonzero; discriminate).
  rewrite (N.mul_comm 256), N.mod_add by discriminate. apply N.mod_mod. discriminate.
Qed.

Lemma pack_value_spec w v out bit_pos : 1 <= w <= 32 ->
  bit_pos + w <= 8 * N.of_nat (length out) -> good out ->
  exists out', pack_value w (N.ones w) v out bit_pos = Ok out' /\
               upd out out' (N.shiftl (N.land v (N.ones w)) bit_pos).
Proof.
  intros Hw Hlen Hg. unfold pack_value.
  set (val := N.land v (N.ones w)).
  assert (Hval : val < 2 ^ w) by (unfold val; rewrite N.land_ones; apply N.mod_lt, pow2_nonzero).
  set (q := bit_pos / 8). set (off := bit_pos mod 8).
  assert (Hpos : bit_pos = 8 * q + off /\ off < 8) by (unfold q, off; lia).
  destruct Hpos as [Hpos Hoff]. clearbody q off val.
  rewrite shl_ok by lia. cbn [bind]. rewrite u8_u32.
  set (X := N.shiftl val off).
  assert (HX : N.shiftl X (8 * q) = N.shiftl val bit_pos).
  { unfold X. rewrite N.shiftl_shiftl. f_equal. lia. }
  destruct (or_at_spec out q (X mod 256)) as (out1 & E1 & U1); [lia|exact Hg|apply N.mod_lt; discriminate|].
  rewrite E1. cbn [bind]. pose proof U1 as (L1 & G1 & _).
  destruct (N.ltb_spec (8 - off) w) as [L|Ge].
  - rewrite shr_ok by lia. cbn [bind]. unfold pack_fuel.
    destruct (pack_while_spec w 4 out1 (N.shiftr val (8 - off)) (8 - off) (q + 1)) as (out2 & E2 & U2).
    + lia.
    + rewrite L1. lia.
    + rewrite N.shiftr_div_pow2. apply N.div_lt_upper_bound; [apply pow2_nonzero|].
      rewrite <- N.pow_add_r. replace (8 - off + (w - (8 - off))) with w by lia. exact Hval.
    + exact G1.
    + exists out2. split; [exact E2|]. pose proof (upd_trans _ _ _ _ _ U1 U2) as U.
      replace (N.shiftr val (8 - off)) with (X / 256) in U.
      2:{ unfold X. rewrite N.shiftl_mul_pow2, N.shiftr_div_pow2.
          change 256 with (2 ^ 8). rewrite (pow2_split off 8) by lia.
          rewrite (N.mul_comm (2 ^ off)). apply N.div_mul_cancel_r; apply pow2_nonzero. }
      replace (8 * (q + 1)) with (8 * q + 8) in U by lia. rewrite shl_split, HX in U. exact U.
  - exists out1. split; [reflexivity|]. rewrite <- HX. rewrite N.mod_small in U1; [exact U1|].
    unfold X. rewrite N.shiftl_mul_pow2. apply N.lt_le_trans with (2 ^ w * 2 ^ off).
    + apply N.mul_lt_mono_pos_r; [apply pow2_pos|exact Hval].
    + rewrite <- N.pow_add_r. change 256 with (2 ^ 8). apply pow2_le. lia.
Qed.

(** the or of the masked values at their bit offsets, from [bit_pos] on *)
Fixpoint orsum (w m : N) (vs : list N) (bit_pos : N) : N :=
  match vs with
  | [] => 0
  | v :: vs' => N.lor (N.shiftl (N.land v m) bit_pos) (orsum w m vs' (bit_pos + w))
  end.

Lemma pack_for_spec w values : 1 <= w <= 32 -> forall vs i out bit_pos,
  (forall j, (j < length vs)%nat -> rd values (i + N.of_nat j) = Ok (nth j vs 0)) ->
  bit_pos + N.of_nat (length vs) * w <= 8 * N.of_nat (length out) -> good out ->
  exists out', pack_for (length vs) i w (N.ones w) values out bit_pos = Ok out' /\
               upd out out' (orsum w (N.ones w) vs bit_pos).
Proof.
  intros Hw. induction vs as [|v vs IH]; intros i out bit_pos Hrd Hlen Hg.
  - exists out. split; [reflexivity|]. split; [reflexivity|]. split; [exact Hg|].
    cbn [orsum]. rewrite N.lor_0_r. reflexivity.
  - cbn [length pack_for].
    pose proof (Hrd 0%nat ltac:(cbn [length]; lia)) as R0. rewrite N.add_0_r in R0. cbn [nth] in R0.
    rewrite R0. cbn [bind]. cbn [length] in Hlen.
    destruct (pack_value_spec w v out bit_pos Hw) as (out1 & E1 & U1); [lia|exact Hg|].
    rewrite E1. cbn [bind]. pose proof U1 as (L1 & G1 & _).
    destruct (IH (i + 1) out1 (bit_pos + w)) as (out2 & E2 & U2).
    + intros j Hj. specialize (Hrd (S j) ltac:(cbn [length]; lia)). cbn [nth] in Hrd.
      rewrite <- Hrd. f_equal. lia.
    + rewrite L1. lia.
    + exact G1.
    + exists out2. split; [exact E2|]. cbn [orsum]. exact (upd_trans _ _ _ _ _ U1 U2).
Qed.

Lemma orsum_fold w vs : forall k acc,
  fold_left (fun a iv => N.lor a (N.shiftl (N.land (snd iv) (mask w)) (N.of_nat (fst iv * w))))
            (combine (seq k (length vs)) vs) acc
  = N.lor acc (orsum (N.of_nat w) (mask w) vs (N.of_nat (k * w))).
Proof.
  induction vs as [|v vs IH]; intros k acc.
  - cbn. rewrite N.lor_0_r. reflexivity.
  - cbn [length seq combine fold_left fst snd orsum]. rewrite IH, <- N.lor_assoc. do 3 f_equal. lia.
Qed.

Lemma orsum_scatter w vs : length vs = 8%nat -> orsum (N.of_nat w) (mask w) vs 0 = scatter w vs.
Proof.
  intros Hl. unfold scatter. rewrite <- Hl, orsum_fold, N.lor_0_l. reflexivity.
Qed.

Lemma rd_nth vs j : (j < length vs)%nat -> rd vs (0 + N.of_nat j) = Ok (nth j vs 0).
Proof.
  intros H. unfold rd. rewrite N.add_0_l, Nat2N.id. rewrite (nth_error_nth' vs 0 H). reflexivity.
Qed.

Lemma pack8_c_general w vs : w <> 0%nat -> w <> 8%nat ->
  pack8_c w vs = bind (shl 64 1 (N.of_nat w)) (fun one =>
                   pack_for 8 0 (N.of_nat w) (u32 (wsub 64 one 1)) vs (repeat 0 w) 0).
Proof.
  intros H0 H8. do 9 (try destruct w as [|w]); try reflexivity; contradiction.
Qed.

(** carquet_bitpack8_32 writes exactly the bytes of the closed form and never leaves its output *)
Theorem pack8_c_eq_total w vs : (w <= 32)%nat -> length vs = 8%nat -> pack8_c w vs = Ok (pack8 w vs).
Proof.
  intros Hw Hl.
  destruct (Nat.eq_dec w 0) as [->|H0]; [reflexivity|].
  destruct (Nat.eq_dec w 8) as [->|H8].
  - rewrite pack8_spec by exact Hl. unfold pack_spec. change (2 ^ N.of_nat 8) with 256.
    pose proof (to_from_base 256 (map (fun v => v mod 256) vs) ltac:(discriminate) (mod_list_lt 8 vs)) as T.
    rewrite map_length, Hl in T. rewrite T. clear T.
    destruct vs as [|v0 [|v1 [|v2 [|v3 [|v4 [|v5 [|v6 [|v7 [|v8 rest]]]]]]]]]; try discriminate Hl.
    reflexivity.
  - rewrite pack8_c_general by assumption.
    destruct (mask_c w Hw) as [E1 E2]. rewrite E1. cbn [bind]. rewrite E2. unfold mask.
    pose proof (pack_for_spec (N.of_nat w) vs ltac:(lia) vs 0 (repeat 0 w) 0) as P.
    rewrite Hl in P.
    destruct P as (out' & E & L & Gd & Num).
    + intros j Hj. apply rd_nth. lia.
    + rewrite repeat_length. lia.
    + apply Forall_forall. intros x Hx. apply repeat_spec in Hx. subst x. reflexivity.
    + rewrite E. f_equal. rewrite repeat_length in L.
      rewrite from_base_zeros, N.lor_0_l in Num. fold (mask w) in Num.
      rewrite orsum_scatter in Num by exact Hl.
      unfold pack8. rewrite le_bytes_to_base, <- Num, <- L. symmetry.
      apply to_from_base; [discriminate|exact Gd].
Qed.

Theorem pack8_c_eq w vs : (w <= 32)%nat -> length vs = 8%nat -> Forall (fun v => v < 2 ^ 32) vs ->
  pack8_c w vs = Ok (pack8 w vs).
Proof. intros Hw Hl _. apply pack8_c_eq_total; assumption. Qed.

(** safety reading: every [output[byte_pos] |= ...] of the loop lands inside the bit_width output bytes
    (a write outside would make the model return [Fault OobWrite]), no shift is wider than its type, the
    inner while loop ends within its 4 rounds, and exactly bit_width bytes result *)
Theorem pack8_c_in_bounds w vs : (w <= 32)%nat -> length vs = 8%nat ->
  exists out, pack8_c w vs = Ok out /\ length out = w /\ Forall (fun b => b < 256) out.
Proof.
  intros Hw Hl. exists (pack8 w vs). split; [apply pack8_c_eq_total; assumption|].
  split; [apply pack8_length|apply pack8_bytes].
Qed.

Example pack8_c_example :
  pack8_c 3 [0; 1; 2; 3; 4; 5; 6; 7] = Ok [0x88; 0xC6; 0xFA] /\
  pack8_c 32 [0xFFFFFFFF; 0; 0x12345678; 0; 0; 0; 0; 0x80000001]
  = Ok [255;255;255;255; 0;0;0;0; 0x78;0x56;0x34;0x12; 0;0;0;0; 0;0;0;0; 0;0;0;0; 0;0;0;0; 1;0;0;0x80].
Proof. vm_compute. split; reflexivity. Qed.

(** round trip stated on the C-shaped models *)
Theorem unpack8_c_pack8_c w vs : (w <= 32)%nat -> length vs = 8%nat ->
  exists bytes, pack8_c w vs = Ok bytes /\
                unpack8_c w bytes = Ok (map (fun v => v mod 2 ^ N.of_nat w) vs).
Proof.
  intros Hw Hl. exists (pack8 w vs). split; [apply pack8_c_eq_total; assumption|].
  rewrite unpack8_c_eq_total by (try apply pack8_bytes; exact Hw).
  rewrite <- (app_nil_r (pack8 w vs)). apply unpack8_pack8. exact Hl.
Qed.

Print Assumptions unpack8_c_eq_total.
Print Assumptions unpack8_c_eq.
Print Assumptions unpack8_c_short.
Print Assumptions unpack8_c_reads.
Print Assumptions pack8_c_eq_total.
Print Assumptions pack8_c_eq.
Print Assumptions pack8_c_in_bounds.
Print Assumptions unpack8_c_pack8_c.
