(** Positional numerals shared by the enc2 models and specifications (PLAIN, DELTA_*, BYTE_STREAM_SPLIT).

    Bit packing is defined arithmetically (DESIGN C11): the values of a group are the base-2^w digits of one
    number whose base-256 digits (least significant first) are the bytes.  Enc/BitpackSpec.v of the RLE engine
    did not exist when this file was written, so the definitions needed by DELTA_BINARY_PACKED live here;
    the byte-loop mirror of src/core/bitpack.c and its equality with this definition belong to the RLE engine.

    [from_base]/[to_base] use * + / mod (specification style); the [_f] variants use shifts and masks, run
    fast after extraction and are proved equal. *)
From Coq Require Import NArith List Lia.
Import ListNotations.
Local Open Scope N_scope.

(** ** Generic little-endian numerals in base [B] *)
Fixpoint from_base (B : N) (ds : list N) : N :=
  match ds with [] => 0 | d :: t => d + B * from_base B t end.

Fixpoint to_base (B : N) (n : nat) (x : N) : list N :=
  match n with O => [] | S k => x mod B :: to_base B k (x / B) end.

Lemma mod_add_mul d B q : B <> 0 -> d < B -> (d + B * q) mod B = d.
Proof. intros HB Hd. rewrite (N.mul_comm B q), N.mod_add by exact HB. apply N.mod_small; exact Hd. Qed.

Lemma div_add_mul d B q : B <> 0 -> d < B -> (d + B * q) / B = q.
Proof. intros HB Hd. rewrite (N.mul_comm B q), N.div_add by exact HB. rewrite N.div_small by exact Hd. reflexivity. Qed.

Lemma to_base_length B n x : length (to_base B n x) = n.
Proof. revert x; induction n; intros; simpl; auto. Qed.

Lemma from_base_lt B ds : B <> 0 -> Forall (fun d => d < B) ds -> from_base B ds < B ^ N.of_nat (length ds).
Proof.
  intros HB H. induction H as [|d t Hd Ht IH].
  - simpl. lia.
  - cbn [from_base length]. rewrite Nat2N.inj_succ, N.pow_succ_r'. nia.
Qed.

Lemma to_from_base B ds : B <> 0 -> Forall (fun d => d < B) ds ->
  to_base B (length ds) (from_base B ds) = ds.
Proof.
  intros HB H. induction H as [|d t Hd Ht IH]; [reflexivity|].
  cbn [from_base length to_base]. f_equal.
  - apply mod_add_mul; assumption.
  - rewrite div_add_mul by assumption. exact IH.
Qed.

Lemma to_base_lt B n x : B <> 0 -> Forall (fun d => d < B) (to_base B n x).
Proof.
  intros HB. revert x; induction n; intros; simpl; constructor; auto. apply N.mod_lt; exact HB.
Qed.

Lemma from_to_base B n x : B <> 0 -> x < B ^ N.of_nat n -> from_base B (to_base B n x) = x.
Proof.
  intros HB. revert x; induction n; intros x Hx.
  - simpl in *. lia.
  - cbn [to_base from_base]. rewrite IHn.
    + symmetry. rewrite N.add_comm. apply N.div_mod'.
    + rewrite Nat2N.inj_succ, N.pow_succ_r' in Hx. apply N.div_lt_upper_bound; [exact HB|exact Hx].
Qed.

(** the general statement without the bound: the digits represent [x mod B^n] *)
Lemma from_to_base_mod B n x : B <> 0 -> from_base B (to_base B n x) = x mod B ^ N.of_nat n.
Proof.
  intros HB. revert x; induction n; intros x.
  - simpl. rewrite N.mod_1_r. reflexivity.
  - cbn [to_base from_base]. rewrite IHn, Nat2N.inj_succ, N.pow_succ_r'.
    rewrite N.mod_mul_r by (try exact HB; apply N.pow_nonzero; exact HB). reflexivity.
Qed.

Lemma from_base_app B a b : from_base B (a ++ b) = from_base B a + B ^ N.of_nat (length a) * from_base B b.
Proof.
  induction a as [|d t IH]; cbn [app from_base length].
  - rewrite N.pow_0_r. lia.
  - rewrite IH, Nat2N.inj_succ, N.pow_succ_r'. lia.
Qed.

Lemma to_base_add B n m x : B <> 0 ->
  to_base B (n + m) x = to_base B n x ++ to_base B m (x / B ^ N.of_nat n).
Proof.
  intros HB. revert x; induction n; intros x.
  - simpl. rewrite N.div_1_r. reflexivity.
  - cbn [Nat.add to_base app]. f_equal. rewrite IHn. f_equal. f_equal.
    rewrite Nat2N.inj_succ, N.pow_succ_r'.
    rewrite N.div_div; [reflexivity|exact HB|apply N.pow_nonzero; exact HB].
Qed.

(** ** Bytes *)
Definition byte (b : N) : Prop := b < 256.
Definition bytes (bs : list N) : Prop := Forall byte bs.

Definition le_num (bs : list N) : N := from_base 256 bs.
Definition le_bytes (n : nat) (x : N) : list N := to_base 256 n x.

Lemma le_bytes_length n x : length (le_bytes n x) = n.
Proof. apply to_base_length. Qed.

Lemma le_bytes_ok n x : bytes (le_bytes n x).
Proof. apply to_base_lt. discriminate. Qed.

Lemma le_num_bytes n x : x < 256 ^ N.of_nat n -> le_num (le_bytes n x) = x.
Proof. apply from_to_base. discriminate. Qed.

Lemma le_bytes_num bs : bytes bs -> le_bytes (length bs) (le_num bs) = bs.
Proof. apply to_from_base. discriminate. Qed.

Lemma le_num_lt bs : bytes bs -> le_num bs < 256 ^ N.of_nat (length bs).
Proof. apply from_base_lt. discriminate. Qed.

(** ** Bit packing: [n] values of [w] bits, least significant first, as ceil(n*w/8) bytes *)
Definition pack_num (w : N) (vs : list N) : N := from_base (2 ^ w) vs.
Definition digits (w : N) (n : nat) (x : N) : list N := to_base (2 ^ w) n x.

Definition packed_size (n w : N) : N := (n * w + 7) / 8.

Definition pack (w : N) (vs : list N) : list N :=
  le_bytes (N.to_nat (packed_size (N.of_nat (length vs)) w)) (pack_num w vs).

Definition unpack (w : N) (n : nat) (bs : list N) : list N := digits w n (le_num bs).

Lemma pow2_nz w : 2 ^ w <> 0.
Proof. apply N.pow_nonzero. discriminate. Qed.

Lemma pack_length w vs : length (pack w vs) = N.to_nat (packed_size (N.of_nat (length vs)) w).
Proof. apply le_bytes_length. Qed.

Lemma pack_ok w vs : bytes (pack w vs).
Proof. apply le_bytes_ok. Qed.

Lemma pack_num_lt w vs : Forall (fun v => v < 2 ^ w) vs -> pack_num w vs < 2 ^ (w * N.of_nat (length vs)).
Proof.
  intros H. unfold pack_num. rewrite N.pow_mul_r. apply from_base_lt; [apply pow2_nz|exact H].
Qed.

Lemma unpack_pack w vs : Forall (fun v => v < 2 ^ w) vs -> unpack w (length vs) (pack w vs) = vs.
Proof.
  intros H. unfold unpack, pack. rewrite le_num_bytes.
  - apply to_from_base; [apply pow2_nz|exact H].
  - eapply N.lt_le_trans; [apply pack_num_lt; exact H|].
    change 256 with (2 ^ 8). rewrite <- N.pow_mul_r. apply N.pow_le_mono_r; [discriminate|].
    rewrite N2Nat.id. unfold packed_size.
    set (k := N.of_nat (length vs)).
    pose proof (N.div_mod' (k * w + 7) 8) as E. pose proof (N.mod_lt (k * w + 7) 8 ltac:(discriminate)). lia.
Qed.

(** padding values beyond the first [n] do not matter *)
Lemma digits_app w a b : Forall (fun v => v < 2 ^ w) a ->
  digits w (length a) (pack_num w (a ++ b)) = a.
Proof.
  intros H. unfold digits, pack_num. induction H as [|d t Hd Ht IH]; [reflexivity|].
  cbn [app from_base length to_base]. f_equal.
  - apply mod_add_mul; [apply pow2_nz|exact Hd].
  - rewrite div_add_mul by (try apply pow2_nz; exact Hd). exact IH.
Qed.

(** ** Fast variants (shifts and masks) *)
Fixpoint le_num_f (bs : list N) : N :=
  match bs with [] => 0 | b :: t => b + N.shiftl (le_num_f t) 8 end.
Fixpoint le_bytes_f (n : nat) (x : N) : list N :=
  match n with O => [] | S k => N.land x 255 :: le_bytes_f k (N.shiftr x 8) end.
Fixpoint pack_num_f (w : N) (vs : list N) : N :=
  match vs with [] => 0 | v :: t => v + N.shiftl (pack_num_f w t) w end.
Fixpoint digits_f (w : N) (n : nat) (x : N) : list N :=
  match n with O => [] | S k => N.land x (N.ones w) :: digits_f w k (N.shiftr x w) end.

Lemma le_num_f_eq bs : le_num_f bs = le_num bs.
Proof.
  induction bs as [|b t IH]; [reflexivity|]. cbn [le_num_f]. rewrite IH, N.shiftl_mul_pow2.
  unfold le_num. cbn [from_base]. change (2 ^ 8) with 256. lia.
Qed.

Lemma le_bytes_f_eq n x : le_bytes_f n x = le_bytes n x.
Proof.
  revert x; induction n; intros x; [reflexivity|]. cbn [le_bytes_f]. unfold le_bytes. cbn [to_base].
  change 255 with (N.ones 8). rewrite N.land_ones, N.shiftr_div_pow2. change (2 ^ 8) with 256.
  f_equal. apply IHn.
Qed.

Lemma pack_num_f_eq w vs : pack_num_f w vs = pack_num w vs.
Proof.
  induction vs as [|v t IH]; [reflexivity|]. cbn [pack_num_f]. rewrite IH, N.shiftl_mul_pow2.
  unfold pack_num. cbn [from_base]. lia.
Qed.

Lemma digits_f_eq w n x : digits_f w n x = digits w n x.
Proof.
  revert x; induction n; intros x; [reflexivity|]. cbn [digits_f]. unfold digits. cbn [to_base].
  rewrite N.land_ones, N.shiftr_div_pow2. f_equal. apply IHn.
Qed.

Definition pack_f (w : N) (vs : list N) : list N :=
  le_bytes_f (N.to_nat (packed_size (N.of_nat (length vs)) w)) (pack_num_f w vs).
Definition unpack_f (w : N) (n : nat) (bs : list N) : list N := digits_f w n (le_num_f bs).

Lemma pack_f_eq w vs : pack_f w vs = pack w vs.
Proof. unfold pack_f, pack. rewrite pack_num_f_eq. apply le_bytes_f_eq. Qed.

Lemma unpack_f_eq w n bs : unpack_f w n bs = unpack w n bs.
Proof. unfold unpack_f, unpack. rewrite le_num_f_eq. apply digits_f_eq. Qed.

(** ** List helpers used by all enc2 models *)
Definition len {A} (l : list A) : N := N.of_nat (length l).

(** split off the first [n] elements; [None] when the list is shorter *)
Fixpoint take {A} (n : nat) (l : list A) : option (list A * list A) :=
  match n with
  | O => Some ([], l)
  | S k => match l with [] => None | x :: t => match take k t with Some (a, r) => Some (x :: a, r) | None => None end end
  end.

Lemma take_some {A} n (l : list A) : (n <= length l)%nat -> take n l = Some (firstn n l, skipn n l).
Proof.
  revert l; induction n; intros l H; [reflexivity|]. destruct l as [|x t]; [simpl in H; lia|].
  cbn [take firstn skipn]. rewrite IHn by (simpl in H; lia). reflexivity.
Qed.

Lemma take_none {A} n (l : list A) : (length l < n)%nat -> take n l = None.
Proof.
  revert l; induction n; intros l H; [lia|]. destruct l as [|x t]; [reflexivity|].
  cbn [take]. rewrite IHn by (simpl in H; lia). reflexivity.
Qed.

Lemma take_spec {A} n (l a r : list A) : take n l = Some (a, r) -> l = a ++ r /\ length a = n.
Proof.
  revert l a r; induction n; intros l a r H.
  - injection H as <- <-. split; reflexivity.
  - destruct l as [|x t]; [discriminate|]. cbn [take] in H. destruct (take n t) as [[a' r']|] eqn:E; [|discriminate].
    injection H as <- <-. destruct (IHn _ _ _ E) as [-> <-]. split; reflexivity.
Qed.

Lemma take_app {A} (a r : list A) : take (length a) (a ++ r) = Some (a, r).
Proof. induction a as [|x t IH]; [reflexivity|]. cbn [length app take]. rewrite IH. reflexivity. Qed.
