(** The int16 level decoder (carquet_rle_decode_levels, the separate fast path of rle.c, modelled by the
    foreign-file engine in File/ForeignModel.v) reads back what the level encoder wrote, also behind the
    4-byte length prefix the page writer puts in front of a level block. *)
From Coq Require Import NArith Arith List Lia.
From Carquet Require Import Enc.RleSpec Enc.RleModel Enc.RleProofs File.ForeignModel File.ForeignProofs.
Import ListNotations.
Local Open Scope N_scope.

Lemma rle_levels_roundtrip_lemma w vs : (1 <= w <= 32)%nat -> fits w vs -> 2 * N.of_nat (length vs) < 2 ^ 32 ->
  rle_decode_levels w (encode_all w vs) (length vs) = vs.
Proof.
  intros Hw Hs Hb. destruct (rle_encode_denotes w vs Hs Hb) as (k & _ & HD).
  rewrite (rle_decode_levels_accepts_thm w _ _ (length vs) Hw HD) by (rewrite app_length; lia).
  rewrite firstn_app, Nat.sub_diag, firstn_O, app_nil_r. apply firstn_all.
Qed.
