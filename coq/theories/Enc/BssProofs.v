(** Proofs about the BYTE_STREAM_SPLIT model (Enc/BssModel.v): round trip (C11), agreement with the
    specification of Enc/BssSpec.v (C12), never-fault lemmas (C08). *)
From Coq Require Import NArith ZArith List Bool Lia Arith.
From Carquet Require Import Base.Res Enc.DeltaBits Enc.PlainModel Enc.PlainProofs Enc.BssSpec Enc.BssModel.
Import ListNotations.

Lemma collect_ok n f g : (forall j, (j < n)%nat -> f j = Ok (g j)) -> collect n f = Ok (map g (seq 0 n)).
Proof.
  induction n; intros H; [reflexivity|].
  cbn [collect]. rewrite IHn by (intros; apply H; lia). rewrite H by lia.
  rewrite seq_S, map_app. reflexivity.
Qed.

Lemma collect_no_fault n f : (forall j, (j < n)%nat -> exists x, f j = Ok x) ->
  exists l, collect n f = Ok l /\ length l = n.
Proof.
  induction n; intros H; [exists []; split; reflexivity|].
  cbn [collect]. destruct IHn as [l [E L]]; [intros; apply H; lia|].
  destruct (H n ltac:(lia)) as [x Ex]. rewrite E, Ex. eexists; split; [reflexivity|].
  rewrite app_length, L. cbn [length]. lia.
Qed.

Lemma rd_nth src i : (i < length src)%nat -> rd src i = Ok (nth i src 0%N).
Proof. intros H. unfold rd. rewrite (nth_error_nth' src 0%N H). reflexivity. Qed.

Lemma map_nth_seq (l : list N) : map (fun j => nth j l 0%N) (seq 0 (length l)) = l.
Proof.
  induction l as [|x t IH] using rev_ind; [reflexivity|].
  rewrite app_length. cbn [length]. rewrite Nat.add_1_r, seq_S, map_app. cbn [map Nat.add].
  rewrite app_nth2, Nat.sub_diag by lia. cbn [nth]. f_equal.
  rewrite <- IH at 2. apply map_ext_in. intros j Hj. apply in_seq in Hj. apply app_nth1. lia.
Qed.

(** index arithmetic of the two transposes *)
Lemma idx_bound a b n k : (a < n)%nat -> (b < k)%nat -> (a * k + b < n * k)%nat.
Proof. intros. nia. Qed.

Lemma gather_index_lt k count j : (j < k * count)%nat -> ((j mod count) * k + j / count < count * k)%nat.
Proof.
  intros H. assert (count <> 0)%nat by (intros ->; lia).
  apply idx_bound; [apply Nat.mod_upper_bound; assumption|apply Nat.div_lt_upper_bound; [assumption|lia]].
Qed.

Lemma scatter_index_lt k count j : (j < count * k)%nat -> ((j mod k) * count + j / k < k * count)%nat.
Proof. intros H. apply gather_index_lt. lia. Qed.

Lemma transpose_index k count j : (j < count * k)%nat ->
  let J := ((j mod k) * count + j / k)%nat in ((J mod count) * k + J / count = j)%nat.
Proof.
  intros H J. assert (k <> 0)%nat by (intros ->; lia). assert (count <> 0)%nat by (intros ->; lia).
  assert (Hq : (j / k < count)%nat) by (apply Nat.div_lt_upper_bound; [assumption|lia]).
  subst J. rewrite (Nat.add_comm (j mod k * count)), Nat.mod_add, Nat.div_add by assumption.
  rewrite (Nat.mod_small (j / k)), (Nat.div_small (j / k)) by exact Hq. cbn [Nat.add].
  pose proof (Nat.div_mod j k H0). lia.
Qed.

Theorem bss_scatter_gather k count src : length src = (count * k)%nat ->
  exists enc, bss_gather k count src = Ok enc /\ length enc = (k * count)%nat /\ bss_scatter k count enc = Ok src.
Proof.
  intros L. unfold bss_gather, bss_scatter.
  set (g := fun j => nth ((j mod count) * k + j / count)%nat src 0%N).
  assert (G : collect (k * count) (fun j => rd src ((j mod count) * k + j / count)%nat) = Ok (map g (seq 0 (k * count)))).
  { apply collect_ok. intros j Hj. apply rd_nth. rewrite L. apply gather_index_lt; exact Hj. }
  exists (map g (seq 0 (k * count))). split; [exact G|]. split; [rewrite map_length, seq_length; reflexivity|].
  rewrite (collect_ok _ _ (fun j => nth j src 0%N)).
  - rewrite <- L. rewrite map_nth_seq. reflexivity.
  - intros j Hj. rewrite rd_nth by (rewrite map_length, seq_length; apply scatter_index_lt; exact Hj).
    rewrite (nth_indep _ 0%N (g 0%nat)) by (rewrite map_length, seq_length; apply scatter_index_lt; exact Hj).
    rewrite map_nth, seq_nth by (apply scatter_index_lt; exact Hj). cbn [Nat.add]. unfold g.
    rewrite transpose_index by exact Hj. reflexivity.
Qed.

Local Open Scope N_scope.

(** C11: the generic entry points; [values] is the byte image of [count] values of [k] bytes *)
Theorem bss_roundtrip_flba k values count cap :
  k <> 0 -> len values = count * k -> count * k < 2 ^ 64 -> count * k <= cap ->
  exists enc, bss_encode k values count cap = Ok enc /\ len enc = count * k /\ bss_decode k enc count = Ok values.
Proof.
  intros Hk L B C. unfold bss_encode, bss_decode.
  destruct (N.eqb_spec k 0) as [->|_]; [contradiction|].
  rewrite size_t_small by exact B.
  assert (E1 : (cap <? count * k) = false) by (apply N.ltb_ge; exact C). rewrite E1.
  destruct (bss_scatter_gather (N.to_nat k) (N.to_nat count) values) as [enc [G [Le S]]]; [unfold len in L; lia|].
  exists enc. split; [exact G|]. assert (LE : len enc = count * k) by (unfold len; lia).
  split; [exact LE|]. rewrite LE, N.div_mul by exact Hk. rewrite N.ltb_irrefl. exact S.
Qed.

Corollary bss_roundtrip_float values count cap :
  len values = count * 4 -> count * 4 < 2 ^ 64 -> count * 4 <= cap ->
  exists enc, bss_encode_float values count cap = Ok enc /\ len enc = count * 4 /\ bss_decode_float enc count = Ok values.
Proof. apply bss_roundtrip_flba. discriminate. Qed.

Corollary bss_roundtrip_double values count cap :
  len values = count * 8 -> count * 8 < 2 ^ 64 -> count * 8 <= cap ->
  exists enc, bss_encode_double values count cap = Ok enc /\ len enc = count * 8 /\ bss_decode_double enc count = Ok values.
Proof. apply bss_roundtrip_flba. discriminate. Qed.

Example bss_roundtrip_ex :
  bss_encode 3 [1;2;3;17;18;19] 2 6 = Ok [1;17;2;18;3;19] /\ bss_decode 3 [1;17;2;18;3;19] 2 = Ok [1;2;3;17;18;19].
Proof. split; vm_compute; reflexivity. Qed.

(** C08: the decoder never reads outside [data] and produces exactly [count * k] bytes, the declared output size *)
Theorem bss_decode_never_faults k data count : forall f, bss_decode k data count <> Fault f.
Proof.
  intros f. unfold bss_decode. destruct (N.eqb_spec k 0) as [|NZ]; [discriminate|].
  destruct (len data / k <? count) eqn:E; [discriminate|]. apply N.ltb_ge in E.
  pose proof (div_le_mul _ _ _ NZ E) as M.
  unfold bss_scatter.
  destruct (collect_no_fault (N.to_nat count * N.to_nat k)
              (fun j => rd data ((j mod N.to_nat k) * N.to_nat count + j / N.to_nat k)%nat)) as [l [R _]].
  - intros j Hj. eexists. apply rd_nth. pose proof (scatter_index_lt _ _ _ Hj). unfold len in M. lia.
  - rewrite R. discriminate.
Qed.

Theorem bss_decode_result_size k data count out : bss_decode k data count = Ok out ->
  len out = count * k /\ count * k <= len data.
Proof.
  unfold bss_decode. intros H. destruct (N.eqb_spec k 0) as [|NZ]; [discriminate|].
  destruct (len data / k <? count) eqn:E; [discriminate|]. apply N.ltb_ge in E.
  pose proof (div_le_mul _ _ _ NZ E) as M.
  unfold bss_scatter in H.
  destruct (collect_no_fault (N.to_nat count * N.to_nat k)
              (fun j => rd data ((j mod N.to_nat k) * N.to_nat count + j / N.to_nat k)%nat)) as [l [R Ll]].
  - intros j Hj. eexists. apply rd_nth. pose proof (scatter_index_lt _ _ _ Hj). unfold len in M. lia.
  - rewrite R in H. injection H as <-. split; [unfold len; lia|exact M].
Qed.

(** ** C12: the model against the specification of Enc/BssSpec.v (values as rows of [k] bytes) *)
Local Close Scope N_scope.

Lemma nth_concat_uniform {A} (d : A) k (rows : list (list A)) : Forall (fun r => length r = k) rows ->
  forall i b, i < length rows -> b < k -> nth (i * k + b) (concat rows) d = nth b (nth i rows []) d.
Proof.
  intros H. induction H as [|r t Hr Ht IH]; intros i b Hi Hb; [cbn in Hi; lia|].
  cbn [concat]. destruct i as [|i].
  - cbn [Nat.mul Nat.add nth]. apply app_nth1. lia.
  - cbn [nth]. rewrite app_nth2 by (rewrite Hr; lia). rewrite Hr.
    replace (S i * k + b - k) with (i * k + b) by lia. apply IH; [cbn [length] in Hi; lia|exact Hb].
Qed.

Lemma concat_uniform_length {A} k (rows : list (list A)) : Forall (fun r => length r = k) rows ->
  length (concat rows) = length rows * k.
Proof. intros H. induction H as [|r t Hr _ IH]; [reflexivity|]. cbn [concat length]. rewrite app_length, IH, Hr. lia. Qed.

Lemma map_nth_seq_gen {A} (d : A) (l : list A) : map (fun j => nth j l d) (seq 0 (length l)) = l.
Proof.
  induction l as [|x t IH] using rev_ind; [reflexivity|].
  rewrite app_length. cbn [length]. rewrite Nat.add_1_r, seq_S, map_app. cbn [map Nat.add].
  rewrite app_nth2, Nat.sub_diag by lia. cbn [nth]. f_equal.
  rewrite <- IH at 2. apply map_ext_in. intros j Hj. apply in_seq in Hj. apply app_nth1. lia.
Qed.

Lemma concat_map_seq {A} (d : A) (row : nat -> list A) k n : (forall i, i < n -> length (row i) = k) ->
  concat (map row (seq 0 n)) = map (fun j => nth (j mod k) (row (j / k)) d) (seq 0 (n * k)).
Proof.
  induction n; intros H; [reflexivity|].
  rewrite seq_S, map_app, concat_app. cbn [map concat Nat.add]. rewrite app_nil_r.
  replace (S n * k) with (n * k + k) by lia. rewrite seq_app, map_app. f_equal.
  - apply IHn. intros i Hi. apply H. lia.
  - cbn [Nat.add]. rewrite <- (map_nth_seq_gen d (row n)) at 1. rewrite (H n) by lia.
    replace (n * k) with (0 + n * k) at 1 by lia. rewrite (map_seq_shift (fun j => nth (j mod k) (row (j / k)) d) 0 (n * k) k).
    apply map_ext_in. intros i Hi. apply in_seq in Hi.
    assert (k <> 0) by lia. rewrite Nat.mod_add, Nat.div_add by assumption.
    rewrite Nat.mod_small, Nat.div_small by lia. reflexivity.
Qed.

Lemma nth_map_rows (vs : list (list N)) b i : i < length vs ->
  nth i (map (fun v => nth b v 0%N) vs) 0%N = nth b (nth i vs []) 0%N.
Proof.
  intros H. rewrite (nth_indep _ 0%N ((fun v : list N => nth b v 0%N) [])) by (rewrite map_length; exact H).
  apply (map_nth (fun v : list N => nth b v 0%N)).
Qed.

(** the model encoder writes exactly the K streams of the specification *)
Theorem bss_encode_eq_spec k (vs : list (list N)) : Forall (fun v => length v = k) vs ->
  bss_gather k (length vs) (concat vs) = Ok (spec_bss_enc k vs).
Proof.
  intros H. unfold bss_gather, spec_bss_enc. rewrite flat_map_concat_map.
  rewrite (concat_map_seq 0%N (fun j => stream j vs) (length vs) k) by (intros; unfold stream; apply map_length).
  apply collect_ok. intros j Hj.
  assert (Hc : length vs <> 0) by (intros Q; rewrite Q in Hj; lia).
  assert (H1 : j mod length vs < length vs) by (apply Nat.mod_upper_bound; exact Hc).
  assert (H2 : j / length vs < k) by (apply Nat.div_lt_upper_bound; [exact Hc|lia]).
  rewrite rd_nth by (rewrite (concat_uniform_length k vs H); nia).
  rewrite (nth_concat_uniform 0%N k vs H) by assumption. unfold stream.
  symmetry. f_equal. apply nth_map_rows. exact H1.
Qed.

Lemma streams_of_spec k count : forall data ss, streams_of k count data = Some ss ->
  exists rest, data = concat ss ++ rest /\ Forall (fun s => length s = count) ss /\ length ss = k.
Proof.
  induction k; intros data ss H.
  - cbn in H. injection H as <-. exists data. repeat split; constructor.
  - cbn [streams_of] in H. destruct (take count data) as [[s r]|] eqn:T; [|discriminate].
    destruct (streams_of k count r) as [ss'|] eqn:S; [|discriminate]. injection H as <-.
    destruct (IHk _ _ S) as [rest [-> [F L]]]. destruct (take_spec _ _ _ _ T) as [-> Ls].
    exists rest. cbn [concat length]. rewrite <- app_assoc. repeat split; [constructor; assumption|lia].
Qed.

(** the model decoder returns the values the specification decoder returns *)
Theorem bss_decode_accepts k count data rows : spec_bss_dec k count data = Some rows ->
  bss_scatter k count data = Ok (concat rows).
Proof.
  unfold spec_bss_dec. destruct (streams_of k count data) as [ss|] eqn:S; [|discriminate]. intros H. injection H as <-.
  destruct (streams_of_spec _ _ _ _ S) as [rest [-> [F L]]].
  rewrite (concat_map_seq 0%N (fun i => map (fun s => nth i s 0%N) ss) k count) by (intros; rewrite map_length; exact L).
  unfold bss_scatter. apply collect_ok. intros j Hj.
  assert (Hk : k <> 0) by (intros Q; rewrite Q in Hj; lia).
  assert (H1 : j mod k < k) by (apply Nat.mod_upper_bound; exact Hk).
  assert (H2 : j / k < count) by (apply Nat.div_lt_upper_bound; [exact Hk|lia]).
  assert (Lc : length (concat ss) = k * count) by (rewrite (concat_uniform_length count ss F), L; reflexivity).
  rewrite rd_nth by (rewrite app_length, Lc; nia).
  rewrite app_nth1 by (rewrite Lc; nia).
  rewrite (nth_concat_uniform 0%N count ss F) by (try rewrite L; assumption).
  symmetry. f_equal. apply nth_map_rows. rewrite L. exact H1.
Qed.
