(** Proofs about the BYTE_STREAM_SPLIT model (Enc/BssModel.v): round trip (C11), agreement with the
    specification of Enc/BssSpec.v (C12), never-fault lemmas (C08). *)
From Coq Require Import NArith ZArith List Bool Lia Arith.
From Carquet Require Import Base.Res Enc.DeltaBits Enc.PlainModel Enc.PlainProofs Enc.BssSpec Enc.BssModel.
Import ListNotations.

Lemma collect_ok n f g : (forall j, (j < n)%nat -> f j = Ok (g j)) -> collect n f = Ok (map g (seq 0 n)).
Proof.
  induction n; intros H; [reflexivity|].
  cbn [collect]. rewrite IHn by (intros; apply H; lia). rewrite H by lia.
  rewrite seq_S, map_app. reflexivity.
Qed.

Lemma collect_no_fault n f : (forall j, (j < n)%nat -> exists x, f j = Ok x) ->
  exists l, collect n f = Ok l /\ length l = n.
Proof.
  induction n; intros H; [exists []; split; reflexivity|].
  cbn [collect]. destruct IHn as [l [E L]]; [intros; apply H; lia|].
  destruct (H n ltac:(lia)) as [x Ex]. rewrite E, Ex. eexists; split; [reflexivity|].
  rewrite app_length, L. cbn [length]. lia.
Qed.

Lemma rd_nth src i : (i < length src)%nat -> rd src i = Ok (nth i src 0%N).
Proof. intros H. unfold rd. rewrite (nth_error_nth' src 0%N H). reflexivity. Qed.

Lemma map_nth_seq (l : list N) : map (fun j => nth j l 0%N) (seq 0 (length l)) = l.
Proof.
  induction l as [|x t IH] using rev_ind; [reflexivity|].
  rewrite app_length. cbn [length]. rewrite Nat.add_1_r, seq_S, map_app. cbn [map Nat.add].
  rewrite app_nth2, Nat.sub_diag by lia. cbn [nth]. f_equal.
  rewrite <- IH at 2. apply map_ext_in. intros j Hj. apply in_seq in Hj. apply app_nth1. lia.
Qed.

(** index arithmetic of the two transposes *)
Lemma idx_bound a b n k : (a < n)%nat -> (b < k)%nat -> (a * k + b < n * k)%nat.
Proof. intros. nia. Qed.

Lemma gather_index_lt k count j : (j < k * count)%nat -> ((j mod count) * k + j / count < count * k)%nat.
Proof.
  intros H. assert (count <> 0)%nat by (intros ->; lia).
  apply idx_bound; [apply Nat.mod_upper_bound; assumption|apply Nat.div_lt_upper_bound; [assumption|lia]].
Qed.

Lemma scatter_index_lt k count j : (j < count * k)%nat -> ((j mod k) * count + j / k < k * count)%nat.
Proof. intros H. apply gather_index_lt. lia. Qed.

Lemma transpose_index k count j : (j < count * k)%nat ->
  let J := ((j mod k) * count + j / k)%nat in ((J mod count) * k + J / count = j)%nat.
Proof.
  intros H J. assert (k <> 0)%nat by (intros ->; lia). assert (count <> 0)%nat by (intros ->; lia).
  assert (Hq : (j / k < count)%nat) by (apply Nat.div_lt_upper_bound; [assumption|lia]).
  subst J. rewrite (Nat.add_comm (j mod k * count)), Nat.mod_add, Nat.div_add by assumption.
  rewrite (Nat.mod_small (j / k)), (Nat.div_small (j / k)) by exact Hq. cbn [Nat.add].
  pose proof (Nat.div_mod j k H0). lia.
Qed.

Theorem bss_scatter_gather k count src : length src = (count * k)%nat ->
  exists enc, bss_gather k count src = Ok enc /\ length enc = (k * count)%nat /\ bss_scatter k count enc = Ok src.
Proof.
  intros L. unfold bss_gather, bss_scatter.
  set (g := fun j => nth ((j mod count) * k + j / count)%nat src 0%N).
  assert (G : collect (k * count) (fun j => rd src ((j mod count) * k + j / count)%nat) = Ok (map g (seq 0 (k * count)))).
  { apply collect_ok. intros j Hj. apply rd_nth. rewrite L. apply gather_index_lt; exact Hj. }
  exists (map g (seq 0 (k * count))). split; [exact G|]. split; [rewrite map_length, seq_length; reflexivity|].
  rewrite (collect_ok _ _ (fun j => nth j src 0%N)).
  - rewrite <- L. rewrite map_nth_seq. reflexivity.
  - intros j Hj. rewrite rd_nth by (rewrite map_length, seq_length; apply scatter_index_lt; exact Hj).
    rewrite (nth_indep _ 0%N (g 0%nat)) by (rewrite map_length, seq_length; apply scatter_index_lt; exact Hj).
    rewrite map_nth, seq_nth by (apply scatter_index_lt; exact Hj). cbn [Nat.add]. unfold g.
    rewrite transpose_index by exact Hj. reflexivity.
Qed.

Local Open Scope N_scope.

(** C11: the generic entry points; [values] is the byte image of [count] values of [k] bytes *)
Theorem bss_roundtrip_flba k values count cap :
  k <> 0 -> len values = count * k -> count * k < 2 ^ 64 -> count * k <= cap ->
  exists enc, bss_encode k values count cap = Ok enc /\ len enc = count * k /\ bss_decode k enc count = Ok values.
Proof.
  intros Hk L B C. unfold bss_encode, bss_decode.
  destruct (N.eqb_spec k 0) as [->|_]; [contradiction|].
  rewrite size_t_small by exact B.
  assert (E1 : (cap <? count * k) = false) by (apply N.ltb_ge; exact C). rewrite E1.
  destruct (bss_scatter_gather (N.to_nat k) (N.to_nat count) values) as [enc [G [Le S]]]; [unfold len in L; lia|].
  exists enc. split; [exact G|]. assert (LE : len enc = count * k) by (unfold len; lia).
  split; [exact LE|]. rewrite LE, N.div_mul by exact Hk. rewrite N.ltb_irrefl. exact S.
Qed.

Corollary bss_roundtrip_float values count cap :
  len values = count * 4 -> count * 4 < 2 ^ 64 -> count * 4 <= cap ->
  exists enc, bss_encode_float values count cap = Ok enc /\ len enc = count * 4 /\ bss_decode_float enc count = Ok values.
Proof. apply bss_roundtrip_flba. discriminate. Qed.

Corollary bss_roundtrip_double values count cap :
  len values = count * 8 -> count * 8 < 2 ^ 64 -> count * 8 <= cap ->
  exists enc, bss_encode_double values count cap = Ok enc /\ len enc = count * 8 /\ bss_decode_double enc count = Ok values.
Proof. apply bss_roundtrip_flba. discriminate. Qed.

Example bss_roundtrip_ex :
  bss_encode 3 [1;2;3;17;18;19] 2 6 = Ok [1;17;2;18;3;19] /\ bss_decode 3 [1;17;2;18;3;19] 2 = Ok [1;2;3;17;18;19].
Proof. split; vm_compute; reflexivity. Qed.

(** C08: the decoder never reads outside [data] and produces exactly [count * k] bytes, the declared output size *)
Theorem bss_decode_never_faults k data count : forall f, bss_decode k data count <> Fault f.
Proof.
  intros f. unfold bss_decode. destruct (N.eqb_spec k 0) as [|NZ]; [discriminate|].
  destruct (len data / k <? count) eqn:E; [discriminate|]. apply N.ltb_ge in E.
  pose proof (div_le_mul _ _ _ NZ E) as M.
  unfold bss_scatter.
  destruct (collect_no_fault (N.to_nat count * N.to_nat k)
              (fun j => rd data ((j mod N.to_nat k) * N.to_nat count + j / N.to_nat k)%nat)) as [l [R _]].
  - intros j Hj. eexists. apply rd_nth. pose proof (scatter_index_lt _ _ _ Hj). unfold len in M. lia.
  - rewrite R. discriminate.
Qed.

Theorem bss_decode_result_size k data count out : bss_decode k data count = Ok out ->
  len out = count * k /\ count * k <= len data.
Proof.
  unfold bss_decode. intros H. destruct (N.eqb_spec k 0) as [|NZ]; [discriminate|].
  destruct (len data / k <? count) eqn:E; [discriminate|]. apply N.ltb_ge in E.
  pose proof (div_le_mul _ _ _ NZ E) as M.
  unfold bss_scatter in H.
  destruct (collect_no_fault (N.to_nat count * N.to_nat k)
              (fun j => rd data ((j mod N.to_nat k) * N.to_nat count + j / N.to_nat k)%nat)) as [l [R Ll]].
  - intros j Hj. eexists. apply rd_nth. pose proof (scatter_index_lt _ _ _ Hj). unfold len in M. lia.
  - rewrite R in H. injection H as <-. split; [unfold len; lia|exact M].
Qed.
