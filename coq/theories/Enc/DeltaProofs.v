(** Proofs about the DELTA_BINARY_PACKED model (Enc/DeltaModel.v) and the specification (Enc/DeltaSpec.v).

    Part A  the reference decoder reads the model encoder's output back         (C12, encoder conforms)
    Part B  the model decoder returns what the reference decoder returns on every stream the reference
            decoder accepts at the geometry carquet supports (128 / 4)          (C12, decoder accepts)
    Part C  round trips = A + B, with byte counts                              (C11)
    Part D  capacity checks, empty input, other geometries
    Part E  never-fault                                                         (C08)                     *)
From Coq Require Import NArith ZArith List Bool Lia ZifyBool ZifyNat ZifyN.
From Carquet Require Import Base.Res Base.Bits Gen.Consts_gen Enc.DeltaBits Enc.DeltaSpec Enc.DeltaModel Enc.DeltaArith.
Import ListNotations.
Local Open Scope N_scope.
Ltac Zify.zify_post_hook ::= Z.div_mod_to_equations.
Local Arguments N.mul : simpl never.
Local Arguments N.add : simpl never.
Local Arguments N.sub : simpl never.
Local Arguments N.pow : simpl never.
Local Arguments N.div : simpl never.
Local Arguments N.modulo : simpl never.
Local Arguments N.ltb : simpl never.
Local Arguments N.leb : simpl never.
Local Arguments N.eqb : simpl never.
Local Arguments N.size : simpl never.
Local Arguments N.to_nat : simpl never.
Local Arguments N.of_nat : simpl never.
Local Arguments Nat.sub : simpl never.
Local Arguments firstn : simpl never.
Local Arguments skipn : simpl never.

Definition u64v (v : N) : Prop := v < W64.
Definition u32v (v : N) : Prop := v < 2 ^ 32.

(** ** list facts *)
Lemma Forall_firstn {A} (P : A -> Prop) n l : Forall P l -> Forall P (firstn n l).
Proof. intros H. rewrite <- (firstn_skipn n l) in H. apply Forall_app in H. tauto. Qed.

Lemma Forall_skipn {A} (P : A -> Prop) n l : Forall P l -> Forall P (skipn n l).
Proof. intros H. rewrite <- (firstn_skipn n l) in H. apply Forall_app in H. tauto. Qed.

Lemma chunks_length {A} n k (l : list A) : length (chunks n k l) = k.
Proof. revert l; induction k; intros; cbn [chunks length]; auto. Qed.

Lemma enc_mini_nil : enc_mini [] = [].
Proof. reflexivity. Qed.

Lemma skipn_nil' {A} n : skipn n (@nil A) = [].
Proof. destruct n; reflexivity. Qed.

Lemma firstn_nil' {A} n : firstn n (@nil A) = [].
Proof. destruct n; reflexivity. Qed.

Lemma enc_minis_nil n k : flat_map enc_mini (chunks n k []) = [].
Proof.
  induction k; [reflexivity|]. cbn [chunks flat_map]. rewrite firstn_nil', skipn_nil', IHk. reflexivity.
Qed.

Lemma pad_length n l : (length l <= n)%nat -> length (pad n l) = n.
Proof. intros H. unfold pad. rewrite app_length, repeat_length. lia. Qed.

Lemma pad_fits n l w : Forall (fun x => x < 2 ^ w) l -> Forall (fun x => x < 2 ^ w) (pad n l).
Proof.
  intros H. unfold pad. apply Forall_app. split; [exact H|].
  apply Forall_forall. intros x Hx. apply repeat_spec in Hx. subst.
  apply N.neq_0_lt_0. apply N.pow_nonzero. discriminate.
Qed.

Lemma digits_zero_width n x : digits 0 n x = repeat 0 n.
Proof.
  revert x. induction n; intros x; [reflexivity|]. unfold digits in *. cbn [to_base repeat].
  change (2 ^ 0) with 1. rewrite N.mod_1_r. f_equal. apply IHn.
Qed.

Lemma all_zero_repeat l : Forall (fun x => x = 0) l -> l = repeat 0 (length l).
Proof. intros H. induction H as [|x t -> Ht IH]; [reflexivity|]. cbn [length repeat]. f_equal. exact IH. Qed.

(** ** Part A: spec decoding of the encoder's output *)
Lemma spec_sums_app last md a b :
  spec_sums last md (a ++ b) =
  (fst (spec_sums last md a) ++ fst (spec_sums (snd (spec_sums last md a)) md b),
   snd (spec_sums (snd (spec_sums last md a)) md b)).
Proof.
  revert last. induction a as [|d t IH]; intros last.
  - cbn [app spec_sums fst snd]. destruct (spec_sums last md b); reflexivity.
  - cbn [app spec_sums]. rewrite IH. destruct (spec_sums (last + md + Z.of_N d) md t) as [v l]. reflexivity.
Qed.

Lemma sums_app L a b :
  sums L (a ++ b) = (fst (sums L a) ++ fst (sums (snd (sums L a)) b), snd (sums (snd (sums L a)) b)).
Proof.
  revert L. induction a as [|d t IH]; intros L.
  - cbn [app sums fst snd]. destruct (sums L b); reflexivity.
  - cbn [app sums]. rewrite IH. destruct (sums (u64 (L + d)) t) as [v l]. reflexivity.
Qed.

Lemma spec_sums_length last md a : length (fst (spec_sums last md a)) = length a.
Proof.
  revert last. induction a as [|d t IH]; intros last; [reflexivity|]. cbn [spec_sums].
  specialize (IH (last + md + Z.of_N d)%Z). destruct (spec_sums _ md t). cbn [fst length] in *. lia.
Qed.

Lemma packed32 w : N.of_nat 32 * w / 8 = 4 * w.
Proof. change (N.of_nat 32) with 32. replace (32 * w) with (4 * w * 8) by lia. apply N.div_mul. discriminate. Qed.

Lemma packed_size32 w : packed_size 32 w = 4 * w.
Proof. unfold packed_size. lia. Qed.

(** the bytes of one mini-block and the digits read back from them *)
Lemma enc_mini_read c tail : (length c <= 32)%nat ->
  let w := mini_width c in
  exists bs, take (N.to_nat (N.of_nat 32 * w / 8)) (enc_mini c ++ tail) = Some (bs, tail)
             /\ digits w 32 (le_num bs) = pad 32 c.
Proof.
  intros Hl w. unfold enc_mini. fold w. change (N.to_nat MINI_SIZE) with 32%nat.
  destruct (N.eqb_spec w 0) as [E|E].
  - rewrite E. change (N.to_nat (N.of_nat 32 * 0 / 8)) with 0%nat. cbn [app take].
    exists []. split; [reflexivity|]. rewrite digits_zero_width.
    pose proof (mini_width_zero c E) as Z. unfold pad. rewrite (all_zero_repeat c Z) at 1.
    rewrite <- repeat_app. f_equal. lia.
  - rewrite pack_f_eq. exists (pack w (pad 32 c)). split.
    + rewrite packed32. pose proof (pack_length w (pad 32 c)) as PL. rewrite pad_length in PL by exact Hl.
      change (N.of_nat 32) with 32 in PL. rewrite packed_size32 in PL. rewrite <- PL. apply take_app.
    + pose proof (unpack_pack w (pad 32 c)) as U. rewrite pad_length in U by exact Hl. apply U.
      apply pad_fits. apply mini_width_fits.
Qed.

Lemma firstn_pad c r : (length c <= 32)%nat -> (length c <= r)%nat -> ((length c < r)%nat -> length c = 32%nat) ->
  firstn r (pad 32 c) = c.
Proof.
  intros H1 H2 H3. unfold pad. destruct (Nat.eq_dec (length c) r) as [E|E].
  - rewrite <- E. rewrite firstn_app, firstn_all, Nat.sub_diag. cbn. apply app_nil_r.
  - assert (L : length c = 32%nat) by (apply H3; lia). rewrite L, Nat.sub_diag. cbn [repeat]. rewrite app_nil_r.
    apply firstn_all2. lia.
Qed.

Lemma spec_minis_enc maxw k : forall adj r last rest md,
  Forall (fun x => x < 2 ^ maxw) adj -> (length adj <= r)%nat -> ((length adj < r)%nat -> length adj = (32 * k)%nat) ->
  (length adj <= 32 * k)%nat ->
  spec_minis maxw 32 md (map mini_width (chunks 32 k adj)) (flat_map enc_mini (chunks 32 k adj) ++ rest) last r
  = Some (fst (spec_sums last md adj), rest, snd (spec_sums last md adj), (r - length adj)%nat).
Proof.
  induction k; intros adj r last rest md Hu H1 H2 H3.
  - destruct adj; [|cbn [length] in H3; lia]. cbn. rewrite Nat.sub_0_r. reflexivity.
  - cbn [chunks map flat_map spec_minis]. destruct r as [|r0].
    + destruct adj; [|cbn [length] in H1; lia]. rewrite firstn_nil', skipn_nil', enc_mini_nil, enc_minis_nil.
      reflexivity.
    + set (c := firstn 32 adj). set (w := mini_width c).
      assert (Hc : Forall (fun x => x < 2 ^ maxw) c) by (apply Forall_firstn; exact Hu).
      assert (Lc : length c = Nat.min 32 (length adj)) by apply firstn_length.
      assert (W : (maxw <? w) = false).
      { apply N.ltb_ge. apply mini_width_le. exact Hc. }
      rewrite W. rewrite <- app_assoc.
      destruct (enc_mini_read c (flat_map enc_mini (chunks 32 k (skipn 32 adj)) ++ rest)) as [bs [T D]]; [lia|].
      fold w in T, D. rewrite T, D.
      rewrite firstn_pad by lia.
      destruct (spec_sums last md c) as [v1 l1] eqn:S1.
      assert (Ls : length (skipn 32 adj) = (length adj - 32)%nat) by apply skipn_length.
      rewrite (IHk (skipn 32 adj) (S r0 - length c)%nat l1 rest md); [|apply Forall_skipn; exact Hu|lia|lia|lia].
      pose proof (spec_sums_app last md c (skipn 32 adj)) as SA. unfold c in SA at 1. rewrite firstn_skipn in SA.
      rewrite SA, S1. cbn [fst snd]. f_equal. f_equal. lia.
Qed.

Lemma min_s_in m t : In (min_s m t) (m :: t).
Proof.
  revert m. induction t as [|d t IH]; intros m; [left; reflexivity|]. cbn [min_s].
  destruct (IH (if slt64 d m then d else m)) as [E|I].
  - destruct (slt64 d m); [right; left; exact E|left; exact E].
  - right. right. exact I.
Qed.

Lemma min_s_u64 m t : Forall u64v (m :: t) -> min_s m t < W64.
Proof. intros H. rewrite Forall_forall in H. apply H. apply min_s_in. Qed.

Lemma adj_u64 (ds : list N) m : Forall u64v (map (fun d => sub64 d m) ds).
Proof. apply Forall_forall. intros x Hx. apply in_map_iff in Hx. destruct Hx as [d [<- _]]. apply sub64_lt. Qed.

(** one block *)
Lemma spec_block_enc maxw blk more last r f : blk <> [] -> Forall u64v blk ->
  (forall d0 t, blk = d0 :: t -> Forall (fun x => x < 2 ^ maxw) (map (fun d => sub64 d (min_s d0 t)) blk)) ->
  (length blk <= r)%nat -> ((length blk < r)%nat -> length blk = 128%nat) -> (length blk <= 128)%nat ->
  let '(m, _, _) := block_parts blk in
  let adj := map (fun d => sub64 d m) blk in
  let md := unzigzag (zigzag_enc m) in
  m < W64 /\
  spec_blocks (S f) maxw 32 4 (enc_block blk ++ more) last r =
  match spec_blocks f maxw 32 4 more (snd (spec_sums last md adj)) (r - length blk)%nat with
  | Some (mv, r4) => Some (fst (spec_sums last md adj) ++ mv, r4)
  | None => None
  end.
Proof.
  intros Hn Hu Hw H1 H2 H3. destruct blk as [|d0 t]; [contradiction|].
  specialize (Hw d0 t eq_refl).
  unfold enc_block, block_parts. change (N.to_nat MINI_SIZE) with 32%nat. change (N.to_nat MINIS) with 4%nat.
  set (m := min_s d0 t). set (adj := map (fun d => sub64 d m) (d0 :: t)).
  assert (Hm : m < W64) by (apply min_s_u64; exact Hu).
  split; [exact Hm|].
  destruct r as [|r0]; [cbn [length] in H1; lia|].
  cbn [spec_blocks]. unfold read_zigzag. rewrite <- !app_assoc.
  rewrite read_uleb_enc by (apply zigzag_enc_lt; exact Hm).
  assert (L4 : length (map mini_width (chunks 32 4 adj)) = 4%nat) by (rewrite map_length; apply chunks_length).
  rewrite <- L4 at 1. rewrite take_app.
  assert (La : length adj = length (d0 :: t)) by apply map_length.
  rewrite spec_minis_enc; [|exact Hw|lia|lia|lia].
  rewrite La. reflexivity.
Qed.

(** prefix sums: the spec's signed running values are congruent to the model's 64-bit ones *)
Lemma spec_sums_cong m md : zcong md m -> m < W64 -> forall blk last L, Forall u64v blk -> zcong last L ->
  Forall2 zcong (fst (spec_sums last md (map (fun d => sub64 d m) blk))) (fst (sums L blk)) /\
  zcong (snd (spec_sums last md (map (fun d => sub64 d m) blk))) (snd (sums L blk)).
Proof.
  intros Hmd Hm. induction blk as [|d t IH]; intros last L Hu HL.
  - cbn. split; [constructor|exact HL].
  - inversion Hu as [|? ? Hd Ht]; subst. cbn [map spec_sums sums].
    assert (Hv : zcong (last + md + Z.of_N (sub64 d m)) (u64 (L + d))).
    { rewrite <- Z.add_assoc. apply zcong_add; [exact HL|].
      replace d with (u64 (m + sub64 d m)) at 2 by (apply add_sub64; assumption).
      apply zcong_add; [exact Hmd|apply zcong_of_N; apply sub64_lt]. }
    destruct (IH _ _ Ht Hv) as [F HZ].
    destruct (spec_sums (last + md + Z.of_N (sub64 d m)) md (map (fun d1 => sub64 d1 m) t)) as [v l].
    destruct (sums (u64 (L + d)) t) as [pv pl]. cbn [fst snd] in *. split; [constructor; assumption|exact HZ].
Qed.

Lemma enc_blocks_nil n : enc_blocks n [] = [].
Proof. destruct n; reflexivity. Qed.

(** all blocks *)
Definition width_ok (maxw : N) (Q : N -> Prop) : Prop :=
  (forall d, Q d -> d < W64) /\
  (forall d0 t, Forall Q (d0 :: t) -> Forall (fun x => x < 2 ^ maxw) (map (fun d => sub64 d (min_s d0 t)) (d0 :: t))).

Lemma spec_blocks_enc maxw Q n : width_ok maxw Q -> forall ds fuel last L rest, Forall Q ds -> (length ds <= n)%nat ->
  (length ds <= fuel)%nat -> zcong last L ->
  exists vals, spec_blocks fuel maxw 32 4 (enc_blocks n ds ++ rest) last (length ds) = Some (vals, rest) /\
               Forall2 zcong vals (fst (sums L ds)).
Proof.
  intros [HQ64 HQw].
  induction n; intros ds fuel last L rest HQ Hn Hf HL;
    assert (Hu : Forall u64v ds) by (eapply Forall_impl; [|exact HQ]; exact HQ64).
  - destruct ds; [|cbn [length] in Hn; lia]. exists []. split; [destruct fuel; reflexivity|constructor].
  - destruct ds as [|d0 t].
    + exists []. split; [destruct fuel; reflexivity|constructor].
    + destruct fuel as [|f]; [cbn [length] in Hf; lia|].
      cbn [enc_blocks]. set (ds := d0 :: t) in *. change (N.to_nat BLOCK) with 128%nat.
      set (blk := firstn 128 ds).
      assert (Lb : length blk = Nat.min 128 (length ds)) by apply firstn_length.
      assert (Ls : length (skipn 128 ds) = (length ds - 128)%nat) by apply skipn_length.
      assert (Hb : Forall u64v blk) by (apply Forall_firstn; exact Hu).
      assert (Hne : blk <> []).
      { intros E. apply (f_equal (@length N)) in E. rewrite Lb in E. subst ds. cbn [length] in E. lia. }
      rewrite <- app_assoc.
      assert (HQb : Forall Q blk) by (apply Forall_firstn; exact HQ).
      pose proof (spec_block_enc maxw blk (enc_blocks n (skipn 128 ds) ++ rest) last (length ds) f Hne Hb) as SB.
      destruct (block_parts blk) as [[m ws] body] eqn:BP.
      destruct SB as [Hm SB]; [intros d1 t1 E1; rewrite E1 in HQb |- *; apply HQw; exact HQb|lia|lia|lia|].
      rewrite SB. clear SB.
      assert (Hmd : zcong (unzigzag (zigzag_enc m)) m) by (apply unzigzag_enc_cong; exact Hm).
      destruct (spec_sums_cong m _ Hmd Hm blk last L Hb HL) as [F HZ].
      replace (length ds - length blk)%nat with (length (skipn 128 ds)) by lia.
      destruct (IHn (skipn 128 ds) f
                  (snd (spec_sums last (unzigzag (zigzag_enc m)) (map (fun d => sub64 d m) blk)))
                  (snd (sums L blk)) rest) as [mv [E F2]];
        [apply Forall_skipn; exact HQ|subst ds; cbn [length] in *; lia|subst ds; cbn [length] in *; lia|exact HZ|].
      rewrite E. eexists. split; [reflexivity|].
      pose proof (sums_app L blk (skipn 128 ds)) as SA. unfold blk in SA at 1. rewrite firstn_skipn in SA.
      rewrite SA. cbn [fst]. apply Forall2_app; assumption.
Qed.

Lemma width_ok_64 : width_ok 64 u64v.
Proof.
  split; [intros d H; exact H|]. intros d0 t _. rewrite pow64. apply adj_u64.
Qed.

Lemma deltas64_length last vs : length (deltas64 last vs) = length vs.
Proof. revert last; induction vs; intros; cbn [deltas64 length]; auto. Qed.

Lemma deltas64_u64 last vs : Forall u64v (deltas64 last vs).
Proof. revert last; induction vs; intros; cbn [deltas64]; constructor; [apply sub64_lt|auto]. Qed.

Lemma sums_deltas64 last vs : last < W64 -> Forall u64v vs -> fst (sums last (deltas64 last vs)) = vs.
Proof.
  revert last. induction vs as [|v t IH]; intros last Hl Hu; [reflexivity|].
  inversion Hu; subst. cbn [deltas64 sums]. rewrite add_sub64 by assumption.
  specialize (IH v ltac:(assumption) ltac:(assumption)).
  destruct (sums v (deltas64 v t)). cbn [fst] in *. f_equal. exact IH.
Qed.

Lemma map_wrap_cong vals ps : Forall2 zcong vals ps -> map (wrap 64) vals = ps.
Proof. intros H. induction H as [|z p zs pst Hz _ IH]; [reflexivity|]. cbn [map]. f_equal; [apply zcong_wrap; exact Hz|exact IH]. Qed.

Lemma header_read n first rest : n < W64 -> first < W64 ->
  exists r4, read_uleb (header n first ++ rest) = Some (BLOCK, uleb_enc MINIS ++ uleb_enc n ++ uleb_enc (zigzag_enc first) ++ rest)
  /\ read_uleb (uleb_enc MINIS ++ uleb_enc n ++ uleb_enc (zigzag_enc first) ++ rest) = Some (MINIS, uleb_enc n ++ uleb_enc (zigzag_enc first) ++ rest)
  /\ read_uleb (uleb_enc n ++ uleb_enc (zigzag_enc first) ++ rest) = Some (n, r4)
  /\ read_uleb r4 = Some (zigzag_enc first, rest).
Proof.
  intros Hn Hf. exists (uleb_enc (zigzag_enc first) ++ rest). unfold header. rewrite <- !app_assoc.
  repeat split; apply read_uleb_enc; try assumption; try (apply zigzag_enc_lt; assumption);
    rewrite W64_eq; reflexivity.
Qed.

(** C12, encoder conforms (INT64) *)
Theorem delta64_encode_conforms_rest vs rest : vs <> [] -> Forall u64v vs -> len vs < W64 ->
  spec_delta_decode 64 (delta_bytes_int64 vs ++ rest) =
  Some {| ds_block := 128; ds_minis := 4; ds_values := vs; ds_rest := rest |}.
Proof.
  intros Hne Hu Hl. destruct vs as [|v0 t]; [contradiction|]. inversion Hu as [|? ? Hv0 Ht]; subst.
  unfold delta_bytes_int64, spec_delta_decode.
  set (ds := deltas64 v0 t). set (n := len (v0 :: t)) in *. rewrite <- app_assoc.
  destruct (header_read n v0 (enc_blocks (length ds) ds ++ rest) Hl Hv0) as [r4 [R1 [R2 [R3 R4]]]].
  rewrite R1, R2. change (legal_geometry BLOCK MINIS) with true. cbn [negb].
  rewrite R3. unfold read_zigzag. rewrite R4.
  assert (En : (n =? 0) = false) by (apply N.eqb_neq; unfold n, len; cbn [length]; lia). rewrite En.
  change (N.to_nat (BLOCK / MINIS)) with 32%nat. change (N.to_nat MINIS) with 4%nat.
  assert (Ln : (N.to_nat n - 1)%nat = length ds).
  { unfold n, len, ds. rewrite deltas64_length. cbn [length]. lia. }
  rewrite Ln.
  destruct (spec_blocks_enc 64 u64v (length ds) width_ok_64 ds (N.to_nat n) (unzigzag (zigzag_enc v0)) v0 rest)
    as [vals [E F]]; [apply deltas64_u64|lia|lia|apply unzigzag_enc_cong; exact Hv0|].
  rewrite E. f_equal. change BLOCK with 128. change MINIS with 4. f_equal. cbn [map]. f_equal.
  - apply zcong_wrap. apply unzigzag_enc_cong; exact Hv0.
  - rewrite (map_wrap_cong _ _ F). apply sums_deltas64; assumption.
Qed.

Corollary delta64_encode_conforms vs : vs <> [] -> Forall u64v vs -> len vs < W64 ->
  spec_delta_decode 64 (delta_bytes_int64 vs) =
  Some {| ds_block := 128; ds_minis := 4; ds_values := vs; ds_rest := [] |}.
Proof. intros. rewrite <- (app_nil_r (delta_bytes_int64 vs)). apply delta64_encode_conforms_rest; assumption. Qed.

(** ** Part B: the model decoder follows the reference decoder *)
Definition rel_md (md : Z) (a d : N) : Prop := zcong (md + Z.of_N a) d.

Lemma Forall2_firstn {A B} (R : A -> B -> Prop) n l1 l2 : Forall2 R l1 l2 -> Forall2 R (firstn n l1) (firstn n l2).
Proof.
  intros H. revert n. induction H; intros n; destruct n; cbn; try constructor; auto.
  all: unfold firstn; fold (@firstn A); fold (@firstn B); try constructor; auto.
Qed.

Lemma Forall2_length {A B} (R : A -> B -> Prop) l1 l2 : Forall2 R l1 l2 -> length l1 = length l2.
Proof. intros H. induction H; cbn [length]; auto. Qed.

Lemma sums_rel md : forall as_ dl last L, Forall2 (rel_md md) as_ dl -> zcong last L ->
  Forall2 zcong (fst (spec_sums last md as_)) (fst (sums L dl)) /\
  zcong (snd (spec_sums last md as_)) (snd (sums L dl)).
Proof.
  induction as_ as [|a t IH]; intros dl last L H HL; inversion H as [|? d ? dt Hr Ht]; subst.
  - cbn. split; [constructor|exact HL].
  - cbn [spec_sums sums].
    assert (Hv : zcong (last + md + Z.of_N a) (u64 (L + d))).
    { rewrite <- Z.add_assoc. apply zcong_add; [exact HL|exact Hr]. }
    destruct (IH _ _ _ Ht Hv) as [F HZ].
    destruct (spec_sums (last + md + Z.of_N a) md t) as [v l]. destruct (sums (u64 (L + d)) dt) as [pv pl].
    cbn [fst snd] in *. split; [constructor; assumption|exact HZ].
Qed.

Lemma digits_lt w n x : Forall (fun d => d < 2 ^ w) (digits w n x).
Proof. apply to_base_lt. apply pow2_nz. Qed.

Lemma repeat_Forall2 {A B} (R : A -> B -> Prop) a b n : R a b -> Forall2 R (repeat a n) (repeat b n).
Proof. intros H. induction n; cbn; constructor; auto. Qed.

(** one mini-block: what the spec unpacks and what the model unpacks *)
Lemma read_mini_spec maxw w md min_delta rest bs rest1 : maxw <= 64 -> (maxw <? w) = false ->
  take (N.to_nat (N.of_nat 32 * w / 8)) rest = Some (bs, rest1) -> zcong md min_delta ->
  exists dl, read_mini 32 w min_delta rest = Ok (dl, rest1) /\
             Forall2 (rel_md md) (digits w 32 (le_num bs)) dl.
Proof.
  intros Hmax Hw T Hmd. apply N.ltb_ge in Hw. unfold read_mini.
  destruct (N.eqb_spec w 0) as [E|E].
  - subst w. change (N.to_nat (N.of_nat 32 * 0 / 8)) with 0%nat in T. cbn [take] in T. injection T as <- <-.
    eexists. split; [reflexivity|]. change (le_num []) with 0. rewrite digits_zero_width.
    change (N.to_nat 32) with 32%nat. apply repeat_Forall2. unfold rel_md. rewrite Z.add_0_r. exact Hmd.
  - assert (W : (64 <? w) = false) by (apply N.ltb_ge; lia). rewrite W.
    rewrite packed_size32. rewrite packed32 in T.
    destruct (take_spec _ _ _ _ T) as [-> Lb].
    assert (E2 : (len (bs ++ rest1) <? 4 * w) = false).
    { apply N.ltb_ge. unfold len. rewrite app_length. lia. }
    rewrite E2, T.
    eexists. split; [reflexivity|]. rewrite unpack_f_eq. unfold unpack. change (N.to_nat 32) with 32%nat.
    pose proof (digits_lt w 32 (le_num bs)) as DL.
    induction DL as [|a t Ha _ IH]; [constructor|]. cbn [map]. constructor; [|exact IH].
    unfold rel_md. apply zcong_add; [exact Hmd|]. apply zcong_of_N.
    eapply N.lt_le_trans; [exact Ha|]. rewrite <- pow64. apply N.pow_le_mono_r; [discriminate|lia].
Qed.

Lemma take_bytes {A} (P : A -> Prop) n l a r : take n l = Some (a, r) -> Forall P l -> Forall P r.
Proof. intros T H. destruct (take_spec _ _ _ _ T) as [-> _]. apply Forall_app in H. tauto. Qed.

Lemma dec_minis_spec maxw md min_delta : maxw <= 64 -> zcong md min_delta ->
  forall ws rest last L r vals rest' last' r',
  spec_minis maxw 32 md ws rest last r = Some (vals, rest', last', r') -> zcong last L ->
  exists pvals L', dec_minis 32 min_delta ws rest L r = Ok (pvals, rest', L', r') /\
                   Forall2 zcong vals pvals /\ zcong last' L' /\ (bytes rest -> bytes rest') /\
                   (r' <= r)%nat /\ (ws <> [] -> (0 < r)%nat -> (r' < r)%nat).
Proof.
  intros Hmax Hmd. induction ws as [|w ws' IH]; intros rest last L r vals rest' last' r' H HL.
  - cbn [spec_minis] in H. injection H as <- <- <- <-. exists [], L. cbn [dec_minis].
    split; [reflexivity|]. split; [constructor|]. split; [exact HL|]. split; [tauto|]. split; [lia|].
    intros Q; contradiction.
  - cbn [spec_minis] in H. cbn [dec_minis]. destruct r as [|r0].
    + injection H as <- <- <- <-. exists [], L.
      split; [reflexivity|]. split; [constructor|]. split; [exact HL|]. split; [tauto|]. split; lia.
    + destruct (maxw <? w) eqn:Ew; [discriminate|].
      destruct (take (N.to_nat (N.of_nat 32 * w / 8)) rest) as [[bs rest1]|] eqn:T; [|discriminate].
      destruct (read_mini_spec maxw w md min_delta rest bs rest1 Hmax Ew T Hmd) as [dl [RM F]].
      rewrite RM. change (32 =? 0) with false. cbv iota.
      pose proof (Forall2_firstn _ (S r0) _ _ F) as Ff.
      pose proof (Forall2_length _ _ _ Ff) as Lf.
      destruct (sums_rel md _ _ last L Ff HL) as [Fv HZ].
      assert (Ld : length (digits w 32 (le_num bs)) = 32%nat) by apply to_base_length.
      destruct (spec_sums last md (firstn (S r0) (digits w 32 (le_num bs)))) as [v1 l1] eqn:S1.
      destruct (sums L (firstn (S r0) dl)) as [pv1 pl1] eqn:S2. cbn [fst snd] in Fv, HZ.
      destruct (spec_minis maxw 32 md ws' rest1 l1 (S r0 - length (firstn (S r0) (digits w 32 (le_num bs))))%nat)
        as [[[[more rest2] l2] r2]|] eqn:SM; [|discriminate].
      injection H as <- <- <- <-.
      destruct (IH _ _ pl1 _ _ _ _ _ SM HZ) as [pm [L2 [DM [Fm [HZ2 [Hb [Hle Hlt]]]]]]].
      rewrite <- Lf, DM. exists (pv1 ++ pm), L2.
      assert (Lfn : length (firstn (S r0) (digits w 32 (le_num bs))) = Nat.min (S r0) 32).
      { rewrite firstn_length, Ld. reflexivity. }
      repeat split; try assumption.
      * apply Forall2_app; assumption.
      * intros Hb0. apply Hb. eapply take_bytes; [exact T|exact Hb0].
      * lia.
      * intros _ _. lia.
Qed.

Lemma dec_blocks_spec maxw : maxw <= 64 -> forall fuel rest last L r vals rest',
  spec_blocks fuel maxw 32 4 rest last r = Some (vals, rest') -> bytes rest -> zcong last L ->
  exists pvals, dec_blocks fuel 32 4 rest L r = Ok (pvals, rest') /\ Forall2 zcong vals pvals /\
                length vals = r.
Proof.
  intros Hmax. induction fuel; intros rest last L r vals rest' H Hb HL.
  - destruct r; [|discriminate]. cbn in H. injection H as <- <-. exists []. repeat split; constructor.
  - destruct r as [|r0].
    + cbn in H. injection H as <- <-. exists []. repeat split; constructor.
    + cbn [spec_blocks] in H. cbn [dec_blocks].
      unfold read_zigzag in H. destruct (read_uleb rest) as [[zz rest1]|] eqn:RU; [|discriminate].
      destruct (read_uleb_suffix _ _ _ RU) as [p [Ep Hp]].
      assert (Hb1 : bytes rest1) by (rewrite Ep in Hb; eapply bytes_app_r; exact Hb).
      rewrite (uleb_dec_read _ _ _ Hb RU).
      destruct rest as [|b0 rt]; [destruct p; [contradiction|discriminate]|].
      destruct (take 4 rest1) as [[ws rest2]|] eqn:T; [|discriminate].
      destruct (take_spec _ _ _ _ T) as [E1 Lw].
      assert (E4 : (len rest1 <? 4) = false).
      { apply N.ltb_ge. rewrite E1. unfold len. rewrite app_length. lia. }
      rewrite E4. change (N.to_nat 4) with 4%nat. rewrite T.
      destruct (spec_minis maxw 32 (unzigzag zz) ws rest2 last (S r0)) as [[[[v1 rest3] l1] r1]|] eqn:SM; [|discriminate].
      destruct (spec_blocks fuel maxw 32 4 rest3 l1 r1) as [[more rest4]|] eqn:SB; [|discriminate].
      injection H as <- <-.
      assert (Hmd : zcong (unzigzag zz) (zigzag_dec zz)) by (apply unzigzag_cong; eapply read_uleb_lt; exact RU).
      destruct (dec_minis_spec maxw _ _ Hmax Hmd _ _ _ L _ _ _ _ _ SM HL) as [pv1 [L1 [DM [F1 [HZ1 [Hbb [Hle Hlt]]]]]]].
      rewrite DM.
      assert (Hb3 : bytes rest3) by (apply Hbb; eapply take_bytes; [exact T|exact Hb1]).
      destruct (IHfuel _ _ L1 _ _ _ SB Hb3 HZ1) as [pm [DB [Fm Lm]]].
      rewrite DB. exists (pv1 ++ pm). repeat split; [apply Forall2_app; assumption|].
      (* number of values: the spec returns exactly r of them *)
      rewrite app_length, Lm.
      clear - SM. revert SM. generalize (unzigzag zz) as md. intros md SM.
      assert (G : forall ws rest last r v rest' l' r', spec_minis maxw 32 md ws rest last r = Some (v, rest', l', r') ->
                  (length v + r' = r)%nat).
      { clear. induction ws as [|w ws' IH]; intros rest last r v rest' l' r' H.
        - cbn in H. injection H as <- <- <- <-. reflexivity.
        - cbn [spec_minis] in H. destruct r as [|r0]; [injection H as <- <- <- <-; reflexivity|].
          destruct (maxw <? w); [discriminate|].
          destruct (take _ rest) as [[bs rest1]|]; [|discriminate].
          destruct (spec_sums last md _) as [vv ll] eqn:SS.
          destruct (spec_minis maxw 32 md ws' rest1 ll _) as [[[[more rest2] l2] r2]|] eqn:SM; [|discriminate].
          injection H as <- <- <- <-. apply IH in SM. rewrite app_length.
          pose proof (spec_sums_length last md (firstn (S r0) (digits w 32 (le_num bs)))) as SL. rewrite SS in SL.
          cbn [fst] in SL. rewrite SL. rewrite firstn_length in *. lia. }
      apply G in SM. lia.
Qed.

Lemma i32_of_small t : t < 2 ^ 31 -> i32_of t = Z.of_N t.
Proof.
  intros H. unfold i32_of. rewrite u32_mod, N.mod_small by (eapply N.lt_trans; [exact H|reflexivity]).
  apply N.ltb_lt in H. rewrite H. reflexivity.
Qed.

Lemma delta_init_ok bs r1 r2 r3 r4 total fz : bytes bs ->
  read_uleb bs = Some (128, r1) -> read_uleb r1 = Some (4, r2) -> read_uleb r2 = Some (total, r3) ->
  read_uleb r3 = Some (fz, r4) ->
  delta_init bs = Ok {| h_mbs := 32; h_mbpb := 4; h_total := i32_of total; h_first := zigzag_dec fz; h_rest := r4 |}.
Proof.
  intros Hb R1 R2 R3 R4.
  assert (B1 : bytes r1) by (destruct (read_uleb_suffix _ _ _ R1) as [p [E _]]; rewrite E in Hb; eapply bytes_app_r; exact Hb).
  assert (B2 : bytes r2) by (destruct (read_uleb_suffix _ _ _ R2) as [p [E _]]; rewrite E in B1; eapply bytes_app_r; exact B1).
  assert (B3 : bytes r3) by (destruct (read_uleb_suffix _ _ _ R3) as [p [E _]]; rewrite E in B2; eapply bytes_app_r; exact B2).
  unfold delta_init.
  rewrite (uleb_dec_read _ _ _ Hb R1), (uleb_dec_read _ _ _ B1 R2).
  change (pos_i32 4) with (Some 4). cbv iota beta. change (MINIS <? 4) with false. cbv iota.
  change (pos_i32 128) with (Some 128). cbv iota beta. change (BLOCK <? 128) with false. cbv iota.
  change (MINI_SIZE <? 128 / 4) with false. cbv iota.
  rewrite (uleb_dec_read _ _ _ B2 R3), (uleb_dec_read _ _ _ B3 R4). reflexivity.
Qed.

Lemma suffix_len bs v r : read_uleb bs = Some (v, r) -> len r <= len bs.
Proof. intros H. destruct (read_uleb_suffix _ _ _ H) as [p [-> _]]. unfold len. rewrite app_length. lia. Qed.

(** the model decoder on a stream the reference decoder accepts (geometry 128 / 4) *)
Lemma delta_decode_follows bits bs st : bits <= 64 -> bytes bs -> spec_delta_decode bits bs = Some st ->
  ds_block st = 128 -> ds_minis st = 4 -> len (ds_values st) < 2 ^ 31 ->
  exists zvals pv, ds_values st = map (wrap bits) zvals /\ Forall2 zcong zvals pv /\
    delta_decode_int64 bs (len (ds_values st)) = Ok (pv, len bs - len (ds_rest st)).
Proof.
  intros Hbits Hb H Hblk Hmin Hlen. unfold spec_delta_decode in H.
  destruct (read_uleb bs) as [[block r1]|] eqn:R1; [|discriminate].
  destruct (read_uleb r1) as [[minis r2]|] eqn:R2; [|discriminate].
  destruct (legal_geometry block minis) eqn:LG; cbn [negb] in H; [|discriminate].
  destruct (read_uleb r2) as [[total r3]|] eqn:R3; [|discriminate].
  unfold read_zigzag in H. destruct (read_uleb r3) as [[fz r4]|] eqn:R4; [|discriminate].
  destruct (total =? 0) eqn:ET.
  - injection H as <-. cbn [ds_block ds_minis ds_values ds_rest] in *. subst block minis.
    exists [], []. split; [reflexivity|]. split; [constructor|].
    unfold delta_decode_int64. rewrite (delta_init_ok _ _ _ _ _ _ _ Hb R1 R2 R3 R4). reflexivity.
  - destruct (spec_blocks (N.to_nat total) bits (N.to_nat (block / minis)) (N.to_nat minis) r4 (unzigzag fz)
                (N.to_nat total - 1)) as [[vals rest]|] eqn:SB; [|discriminate].
    injection H as <-. cbn [ds_block ds_minis ds_values ds_rest] in *. subst block minis.
    change (N.to_nat (128 / 4)) with 32%nat in SB. change (N.to_nat 4) with 4%nat in SB.
    apply N.eqb_neq in ET.
    assert (B4 : bytes r4).
    { destruct (read_uleb_suffix _ _ _ R1) as [p1 [E1 _]]. destruct (read_uleb_suffix _ _ _ R2) as [p2 [E2 _]].
      destruct (read_uleb_suffix _ _ _ R3) as [p3 [E3 _]]. destruct (read_uleb_suffix _ _ _ R4) as [p4 [E4 _]].
      subst. repeat (apply bytes_app_r in Hb). exact Hb. }
    assert (Hfz : fz < W64) by (eapply read_uleb_lt; exact R4).
    destruct (dec_blocks_spec bits Hbits _ _ _ (zigzag_dec fz) _ _ _ SB B4 (unzigzag_cong fz Hfz)) as [pvals [DB [F Lv]]].
    assert (Lt : len (map (wrap bits) (unzigzag fz :: vals)) = total).
    { unfold len. rewrite map_length. cbn [length]. rewrite Lv. lia. }
    change (wrap bits (unzigzag fz) :: map (wrap bits) vals) with (map (wrap bits) (unzigzag fz :: vals)) in *.
    rewrite Lt in *.
    exists (unzigzag fz :: vals), (zigzag_dec fz :: pvals). split; [reflexivity|].
    split; [constructor; [apply unzigzag_cong; exact Hfz|exact F]|].
    unfold delta_decode_int64. rewrite (delta_init_ok _ _ _ _ _ _ _ Hb R1 R2 R3 R4).
    cbn [h_total h_mbs h_mbpb h_first h_rest].
    apply N.eqb_neq in ET. rewrite ET. rewrite i32_of_small by exact Hlen.
    assert (E0 : (Z.of_N total <=? 0)%Z = false) by (apply Z.leb_gt; apply N.eqb_neq in ET; lia).
    rewrite E0, N2Z.id, N.min_id, DB, N.ltb_irrefl. reflexivity.
Qed.

Lemma wrap64_cong zvals pv : Forall2 zcong zvals pv -> map (wrap 64) zvals = pv.
Proof. apply map_wrap_cong. Qed.

(** C12, decoder accepts every legal stream (INT64, geometry 128/4) *)
Theorem delta64_decode_accepts bs st : bytes bs -> spec_delta_decode 64 bs = Some st ->
  ds_block st = 128 -> ds_minis st = 4 -> len (ds_values st) < 2 ^ 31 ->
  delta_decode_int64 bs (len (ds_values st)) = Ok (ds_values st, len bs - len (ds_rest st)).
Proof.
  intros Hb H Hblk Hmin Hlen.
  destruct (delta_decode_follows 64 bs st ltac:(lia) Hb H Hblk Hmin Hlen) as [zv [pv [E [F D]]]].
  rewrite D, E, (wrap64_cong _ _ F). reflexivity.
Qed.

(** ** Part C: round trips *)
Lemma uleb_enc_f_bytes fuel v : bytes (uleb_enc_f fuel v).
Proof.
  revert v. induction fuel; intros v; cbn [uleb_enc_f]; [constructor|].
  destruct (v <? 128) eqn:E.
  - apply N.ltb_lt in E. constructor; [unfold byte; lia|constructor].
  - constructor; [|apply IHfuel]. unfold byte. change 127 with (N.ones 7). rewrite N.land_ones. change (2 ^ 7) with 128.
    pose proof (N.mod_lt v 128 ltac:(discriminate)). rewrite lor_flag by assumption. lia.
Qed.

Lemma uleb_enc_bytes v : bytes (uleb_enc v).
Proof. apply uleb_enc_f_bytes. Qed.

Lemma bytes_app (a b : list N) : bytes a -> bytes b -> bytes (a ++ b).
Proof. intros. apply Forall_app. split; assumption. Qed.

Lemma enc_mini_bytes c : bytes (enc_mini c).
Proof. unfold enc_mini. destruct (mini_width c =? 0); [constructor|]. rewrite pack_f_eq. apply pack_ok. Qed.

Lemma flat_map_bytes {A} (f : A -> list N) l : (forall x, bytes (f x)) -> bytes (flat_map f l).
Proof. intros H. induction l; cbn [flat_map]; [constructor|apply bytes_app; auto]. Qed.

Lemma chunks_Forall {A} (P : A -> Prop) n k l : Forall P l -> Forall (Forall P) (chunks n k l).
Proof.
  revert l. induction k; intros l H; cbn [chunks]; constructor; [apply Forall_firstn; exact H|].
  apply IHk. apply Forall_skipn; exact H.
Qed.

Lemma enc_block_bytes blk : bytes (enc_block blk).
Proof.
  destruct blk as [|d0 t]; [constructor|]. unfold enc_block, block_parts.
  apply bytes_app; [apply uleb_enc_bytes|]. apply bytes_app; [|apply flat_map_bytes; apply enc_mini_bytes].
  apply Forall_forall. intros w Hw. apply in_map_iff in Hw. destruct Hw as [c [<- Hc]].
  assert (Fc : Forall u64v c).
  { pose proof (chunks_Forall u64v (N.to_nat MINI_SIZE) (N.to_nat MINIS) _ (adj_u64 (d0 :: t) (min_s d0 t))) as CF.
    rewrite Forall_forall in CF. apply CF. exact Hc. }
  unfold byte. eapply N.le_lt_trans; [apply (mini_width_le c 64); rewrite pow64; exact Fc|reflexivity].
Qed.

Lemma enc_blocks_bytes n ds : bytes (enc_blocks n ds).
Proof.
  revert ds. induction n; intros ds; cbn [enc_blocks]; [constructor|]. destruct ds; [constructor|].
  apply bytes_app; [apply enc_block_bytes|apply IHn].
Qed.

Lemma header_bytes n first : bytes (header n first).
Proof. unfold header. repeat apply bytes_app; apply uleb_enc_bytes. Qed.

Lemma delta_bytes_int64_ok vs : bytes (delta_bytes_int64 vs).
Proof.
  destruct vs; [constructor|]. unfold delta_bytes_int64. apply bytes_app; [apply header_bytes|apply enc_blocks_bytes].
Qed.

Lemma pow31_lt : 2 ^ 31 < W64. Proof. rewrite W64_eq. reflexivity. Qed.

(** C11: every INT64 sequence (num_values is an int32_t) decodes back, consuming exactly the bytes written *)
Theorem delta64_roundtrip vs : vs <> [] -> Forall u64v vs -> len vs < 2 ^ 31 ->
  delta_decode_int64 (delta_bytes_int64 vs) (len vs) = Ok (vs, len (delta_bytes_int64 vs)).
Proof.
  intros Hne Hu Hl.
  pose proof (delta64_encode_conforms vs Hne Hu (N.lt_trans _ _ _ Hl pow31_lt)) as A.
  pose proof (delta64_decode_accepts _ _ (delta_bytes_int64_ok vs) A eq_refl eq_refl Hl) as B.
  cbn [ds_values ds_rest] in B. rewrite B. cbn [len length]. rewrite N.sub_0_r. reflexivity.
Qed.

Example delta64_roundtrip_minmax :
  let vs := [2 ^ 63; 2 ^ 63 - 1; 2 ^ 63; 2 ^ 63 - 1; 0; 2 ^ 64 - 1] in
  delta_decode_int64 (delta_bytes_int64 vs) 6 = Ok (vs, len (delta_bytes_int64 vs)).
Proof. vm_compute. reflexivity. Qed.

(** ** INT32: deltas wrap in 32 bits and are sign-extended; widths stay within 32 bits *)
Definition s32v (d : N) : Prop := d < 2 ^ 31 \/ (W64 - 2 ^ 31 <= d /\ d < W64).
Definition key (x : N) : N := u64 (x + 2 ^ 63).

Lemma slt64_key a b : slt64 a b = (key a <? key b).
Proof. reflexivity. Qed.

Lemma min_s_key t : forall m d, In d (m :: t) -> key (min_s m t) <= key d.
Proof.
  induction t as [|x t IH]; intros m d Hd.
  - destruct Hd as [->|[]]. cbn [min_s]. lia.
  - cbn [min_s]. set (m' := if slt64 x m then x else m).
    assert (Hm : key m' <= key m /\ key m' <= key x).
    { unfold m'. rewrite slt64_key. destruct (key x <? key m) eqn:E; [apply N.ltb_lt in E|apply N.ltb_ge in E]; lia. }
    pose proof (IH m' m' (or_introl eq_refl)) as H0.
    destruct Hd as [->|[->|Hd]]; [lia|lia|]. apply IH. right. exact Hd.
Qed.

Lemma sub64_s32 d m : s32v d -> s32v m -> key m <= key d -> sub64 d m < 2 ^ 32.
Proof.
  unfold s32v, key. rewrite sub64_mod, !u64_mod. rewrite W64_eq.
  change (2 ^ 31) with 2147483648. change (2 ^ 63) with 9223372036854775808. change (2 ^ 32) with 4294967296.
  intros Hd Hm Hk. lia.
Qed.

Lemma s32v_u64 d : s32v d -> d < W64.
Proof. unfold s32v. pose proof pow31_lt as P. intros [H|[_ H]]; lia. Qed.

Lemma width_ok_32 : width_ok 32 s32v.
Proof.
  split; [exact s32v_u64|]. intros d0 t HQ. apply Forall_forall. intros x Hx.
  apply in_map_iff in Hx. destruct Hx as [d [<- Hd]].
  rewrite Forall_forall in HQ. apply sub64_s32; [apply HQ; exact Hd|apply HQ; apply min_s_in|].
  apply min_s_key. exact Hd.
Qed.

Lemma sext32_s32 p : p < 2 ^ 32 -> s32v (sext32 p).
Proof.
  unfold sext32, s32v. rewrite W64_eq. change (2 ^ 31) with 2147483648. change (2 ^ 32) with 4294967296.
  change (2 ^ 64) with 18446744073709551616.
  intros H. destruct (p <? 2147483648) eqn:E; [apply N.ltb_lt in E|apply N.ltb_ge in E]; lia.
Qed.

Lemma u32_lt x : u32 x < 2 ^ 32.
Proof. rewrite u32_mod. apply N.mod_lt. discriminate. Qed.

Lemma deltas32_s32 last vs : Forall s32v (deltas32 last vs).
Proof. revert last; induction vs; intros; cbn [deltas32]; constructor; [apply sext32_s32; apply u32_lt|auto]. Qed.

Lemma deltas32_length last vs : length (deltas32 last vs) = length vs.
Proof. revert last; induction vs; intros; cbn [deltas32 length]; auto. Qed.

Lemma step32 L last v : u32 L = last -> v < 2 ^ 32 ->
  u32 (u64 (L + sext32 (u32 (v + (2 ^ 32 - u32 last))))) = v.
Proof.
  intros HL Hv. subst last. unfold sext32. rewrite !u32_mod, u64_mod, W64_eq.
  change (2 ^ 31) with 2147483648. change (2 ^ 32) with 4294967296 in *. change (2 ^ 64) with 18446744073709551616.
  destruct (_ <? 2147483648) eqn:E; [apply N.ltb_lt in E|apply N.ltb_ge in E]; lia.
Qed.

Lemma sums_deltas32 vs : forall last L, u32 L = last -> Forall u32v vs ->
  map u32 (fst (sums L (deltas32 last vs))) = vs.
Proof.
  induction vs as [|v t IH]; intros last L HL Hu; [reflexivity|]. inversion Hu; subst.
  cbn [deltas32 sums].
  pose proof (step32 L (u32 L) v eq_refl ltac:(assumption)) as S1.
  specialize (IH v _ S1 ltac:(assumption)).
  destruct (sums (u64 (L + sext32 (u32 (v + (2 ^ 32 - u32 (u32 L)))))) (deltas32 v t)) as [pv pl].
  cbn [fst map] in *. rewrite S1, IH. reflexivity.
Qed.

Lemma wrap32_cong z p : zcong z p -> wrap 32 z = u32 p.
Proof.
  unfold zcong, wrap. rewrite W64_eq. intros H. rewrite u32_mod.
  change (2 ^ Z.of_N 32)%Z with 4294967296%Z. change (Z.of_N 18446744073709551616) with 18446744073709551616%Z in H.
  assert (E : (z mod 4294967296 = (z mod 18446744073709551616) mod 4294967296)%Z).
  { apply Znumtheory.Zmod_div_mod; [lia|lia|exists 4294967296%Z; reflexivity]. }
  rewrite E, H. change 4294967296%Z with (Z.of_N (2 ^ 32)). rewrite <- N2Z.inj_mod. apply N2Z.id.
Qed.

Lemma map_wrap32_cong vals ps : Forall2 zcong vals ps -> map (wrap 32) vals = map u32 ps.
Proof. intros H. induction H as [|z p zs pst Hz _ IH]; [reflexivity|]. cbn [map]. f_equal; [apply wrap32_cong; exact Hz|exact IH]. Qed.

Lemma sext32_u32 p : p < 2 ^ 32 -> u32 (sext32 p) = p.
Proof.
  intros H. unfold sext32. rewrite u32_mod. change (2 ^ 31) with 2147483648. change (2 ^ 32) with 4294967296 in *.
  change (2 ^ 64) with 18446744073709551616.
  destruct (p <? 2147483648) eqn:E; [apply N.ltb_lt in E|apply N.ltb_ge in E]; lia.
Qed.

(** C12, encoder conforms (INT32: no mini-block wider than 32 bits) *)
Theorem delta32_encode_conforms_rest vs rest : vs <> [] -> Forall u32v vs -> len vs < W64 ->
  spec_delta_decode 32 (delta_bytes_int32 vs ++ rest) =
  Some {| ds_block := 128; ds_minis := 4; ds_values := vs; ds_rest := rest |}.
Proof.
  intros Hne Hu Hl. destruct vs as [|v0 t]; [contradiction|]. inversion Hu as [|? ? Hv0 Ht]; subst.
  unfold u32v in Hv0. unfold delta_bytes_int32, spec_delta_decode.
  set (ds := deltas32 v0 t). set (n := len (v0 :: t)) in *. rewrite <- app_assoc.
  assert (Hs0 : sext32 v0 < W64) by (apply s32v_u64; apply sext32_s32; exact Hv0).
  destruct (header_read n (sext32 v0) (enc_blocks (length ds) ds ++ rest) Hl Hs0) as [r4 [R1 [R2 [R3 R4]]]].
  rewrite R1, R2. change (legal_geometry BLOCK MINIS) with true. cbn [negb].
  rewrite R3. unfold read_zigzag. rewrite R4.
  assert (En : (n =? 0) = false) by (apply N.eqb_neq; unfold n, len; cbn [length]; lia). rewrite En.
  change (N.to_nat (BLOCK / MINIS)) with 32%nat. change (N.to_nat MINIS) with 4%nat.
  assert (Ln : (N.to_nat n - 1)%nat = length ds).
  { unfold n, len, ds. rewrite deltas32_length. cbn [length]. lia. }
  rewrite Ln.
  destruct (spec_blocks_enc 32 s32v (length ds) width_ok_32 ds (N.to_nat n) (unzigzag (zigzag_enc (sext32 v0))) (sext32 v0) rest)
    as [vals [E F]]; [apply deltas32_s32|lia|lia|apply unzigzag_enc_cong; exact Hs0|].
  rewrite E. f_equal. change BLOCK with 128. change MINIS with 4. f_equal. cbn [map]. f_equal.
  - rewrite (wrap32_cong _ (sext32 v0)) by (apply unzigzag_enc_cong; exact Hs0). apply sext32_u32; exact Hv0.
  - rewrite (map_wrap32_cong _ _ F). apply sums_deltas32; [apply sext32_u32; exact Hv0|exact Ht].
Qed.

Corollary delta32_encode_conforms vs : vs <> [] -> Forall u32v vs -> len vs < W64 ->
  spec_delta_decode 32 (delta_bytes_int32 vs) =
  Some {| ds_block := 128; ds_minis := 4; ds_values := vs; ds_rest := [] |}.
Proof. intros. rewrite <- (app_nil_r (delta_bytes_int32 vs)). apply delta32_encode_conforms_rest; assumption. Qed.

(** C12, decoder accepts (INT32) *)
Theorem delta32_decode_accepts bs st : bytes bs -> spec_delta_decode 32 bs = Some st ->
  ds_block st = 128 -> ds_minis st = 4 -> len (ds_values st) < 2 ^ 31 ->
  delta_decode_int32 bs (len (ds_values st)) = Ok (ds_values st, len bs - len (ds_rest st)).
Proof.
  intros Hb H Hblk Hmin Hlen.
  destruct (delta_decode_follows 32 bs st ltac:(lia) Hb H Hblk Hmin Hlen) as [zv [pv [E [F D]]]].
  unfold delta_decode_int32. rewrite D, E, (map_wrap32_cong _ _ F). reflexivity.
Qed.

Lemma delta_bytes_int32_ok vs : bytes (delta_bytes_int32 vs).
Proof.
  destruct vs; [constructor|]. unfold delta_bytes_int32. apply bytes_app; [apply header_bytes|apply enc_blocks_bytes].
Qed.

(** C11: every INT32 sequence, INT_MIN / INT_MAX alternation included *)
Theorem delta32_roundtrip vs : vs <> [] -> Forall u32v vs -> len vs < 2 ^ 31 ->
  delta_decode_int32 (delta_bytes_int32 vs) (len vs) = Ok (vs, len (delta_bytes_int32 vs)).
Proof.
  intros Hne Hu Hl.
  pose proof (delta32_encode_conforms vs Hne Hu (N.lt_trans _ _ _ Hl pow31_lt)) as A.
  pose proof (delta32_decode_accepts _ _ (delta_bytes_int32_ok vs) A eq_refl eq_refl Hl) as B.
  cbn [ds_values ds_rest] in B. rewrite B. cbn [len length]. rewrite N.sub_0_r. reflexivity.
Qed.

(** the same when more data follows the stream (the length streams of DELTA_LENGTH / DELTA_BYTE_ARRAY) *)
Theorem delta32_roundtrip_rest vs rest : vs <> [] -> Forall u32v vs -> len vs < 2 ^ 31 -> bytes rest ->
  delta_decode_int32 (delta_bytes_int32 vs ++ rest) (len vs) = Ok (vs, len (delta_bytes_int32 vs)).
Proof.
  intros Hne Hu Hl Hr.
  pose proof (delta32_encode_conforms_rest vs rest Hne Hu (N.lt_trans _ _ _ Hl pow31_lt)) as A.
  pose proof (delta32_decode_accepts _ _ (bytes_app _ _ (delta_bytes_int32_ok vs) Hr) A eq_refl eq_refl Hl) as B.
  cbn [ds_values ds_rest] in B. rewrite B. f_equal. f_equal. unfold len. rewrite app_length. lia.
Qed.

Example delta32_roundtrip_minmax :
  let vs := [2 ^ 31; 2 ^ 31 - 1; 2 ^ 31; 2 ^ 31 - 1; 0; 2 ^ 32 - 1] in
  delta_decode_int32 (delta_bytes_int32 vs) 6 = Ok (vs, len (delta_bytes_int32 vs)).
Proof. vm_compute. reflexivity. Qed.

(** ** Part D: capacity checks, zero values, other geometries *)
Lemma enc_blocks_cap_ok n : forall ds pos cap bs, enc_blocks_cap n ds pos cap = Ok bs -> bs = enc_blocks n ds.
Proof.
  induction n; intros ds pos cap bs H; cbn [enc_blocks_cap enc_blocks] in *; [injection H as <-; reflexivity|].
  destruct ds as [|d0 t]; [injection H as <-; reflexivity|].
  destruct (block_parts (firstn (N.to_nat BLOCK) (d0 :: t))) as [[m ws] body].
  destruct (cap <? _); [discriminate|].
  destruct (enc_blocks_cap n _ _ cap) as [more|c|e] eqn:E; try discriminate.
  injection H as <-. rewrite (IHn _ _ _ _ E). reflexivity.
Qed.

(** whenever the encoder reports success, it wrote exactly [delta_bytes_*] *)
Theorem delta_encode_int64_ok vs cap bs : delta_encode_int64 vs cap = Ok bs -> bs = delta_bytes_int64 vs.
Proof.
  destruct vs as [|v0 t]; cbn [delta_encode_int64 delta_bytes_int64]; [intros H; injection H as <-; reflexivity|].
  unfold delta_encode_gen. destruct (cap <? 40); [discriminate|].
  destruct (enc_blocks_cap _ _ _ cap) as [more|c|e] eqn:E; try discriminate.
  intros H. injection H as <-. rewrite (enc_blocks_cap_ok _ _ _ _ _ E). reflexivity.
Qed.

Theorem delta_encode_int32_ok vs cap bs : delta_encode_int32 vs cap = Ok bs -> bs = delta_bytes_int32 vs.
Proof.
  destruct vs as [|v0 t]; cbn [delta_encode_int32 delta_bytes_int32]; [intros H; injection H as <-; reflexivity|].
  unfold delta_encode_gen. destruct (cap <? 40); [discriminate|].
  destruct (enc_blocks_cap _ _ _ cap) as [more|c|e] eqn:E; try discriminate.
  intros H. injection H as <-. rewrite (enc_blocks_cap_ok _ _ _ _ _ E). reflexivity.
Qed.

(** zero values: the encoders write nothing, and the decoders need a header even for zero values *)
Theorem delta_empty_encode cap : delta_encode_int64 [] cap = Ok [] /\ delta_encode_int32 [] cap = Ok [].
Proof. split; reflexivity. Qed.

Theorem delta_empty_decode : delta_decode_int64 [] 0 = Err ERR_DECODE /\ delta_decode_int32 [] 0 = Err ERR_DECODE.
Proof. split; reflexivity. Qed.

(** other legal block geometries are refused, not mis-decoded (header fields below 2^31: they are read into int32_t) *)
Theorem delta_other_geometry_rejected bs block minis r1 r2 : bytes bs ->
  read_uleb bs = Some (block, r1) -> read_uleb r1 = Some (minis, r2) ->
  legal_geometry block minis = true -> block < 2 ^ 31 -> minis < 2 ^ 31 -> (block, minis) <> (128, 4) ->
  delta_init bs = Err ERR_DECODE.
Proof.
  intros Hb R1 R2 LG Hbl Hmi Hne.
  assert (B1 : bytes r1) by (destruct (read_uleb_suffix _ _ _ R1) as [p [E _]]; rewrite E in Hb; eapply bytes_app_r; exact Hb).
  unfold delta_init. rewrite (uleb_dec_read _ _ _ Hb R1), (uleb_dec_read _ _ _ B1 R2).
  unfold legal_geometry in LG. apply andb_prop in LG. destruct LG as [LG G5].
  apply andb_prop in LG. destruct LG as [LG G4]. apply andb_prop in LG. destruct LG as [LG G3].
  apply andb_prop in LG. destruct LG as [G1 G2].
  apply negb_true_iff in G1. apply negb_true_iff in G3.
  apply N.eqb_neq in G1. apply N.eqb_neq in G3. apply N.eqb_eq in G2. apply N.eqb_eq in G4. apply N.eqb_eq in G5.
  assert (P1 : pos_i32 minis = Some minis).
  { unfold pos_i32. rewrite u32_mod, N.mod_small by (eapply N.lt_trans; [exact Hmi|reflexivity]).
    assert (E : ((0 <? minis) && (minis <? 2 ^ 31)) = true) by (apply andb_true_intro; split; apply N.ltb_lt; lia).
    rewrite E. reflexivity. }
  assert (P2 : pos_i32 block = Some block).
  { unfold pos_i32. rewrite u32_mod, N.mod_small by (eapply N.lt_trans; [exact Hbl|reflexivity]).
    assert (E : ((0 <? block) && (block <? 2 ^ 31)) = true) by (apply andb_true_intro; split; apply N.ltb_lt; lia).
    rewrite E. reflexivity. }
  rewrite P1. change MINIS with 4. change BLOCK with 128. change MINI_SIZE with 32.
  destruct (4 <? minis) eqn:E4; [reflexivity|]. apply N.ltb_ge in E4. rewrite P2.
  destruct (128 <? block) eqn:E128; [reflexivity|]. apply N.ltb_ge in E128.
  assert (block = 128) as -> by lia.
  assert (D : minis = 1 \/ minis = 2 \/ minis = 3 \/ minis = 4) by lia.
  destruct D as [D|[D|[D|D]]]; subst minis; try reflexivity.
  contradiction Hne. reflexivity.
Qed.

(** ** Part E: the decoders never fault, and return exactly [count] values *)
Definition nofault {A} (r : res A) : Prop := forall f, r <> Fault f.

Lemma read_mini_nofault mbs w md rest : nofault (read_mini mbs w md rest).
Proof.
  intros f. unfold read_mini. destruct (w =? 0); [discriminate|]. destruct (64 <? w); [discriminate|].
  destruct (len rest <? packed_size mbs w) eqn:E; [discriminate|]. apply N.ltb_ge in E.
  rewrite take_some by (unfold len in E; lia). discriminate.
Qed.

Lemma read_mini_length mbs w md rest dl rest' : read_mini mbs w md rest = Ok (dl, rest') -> length dl = N.to_nat mbs.
Proof.
  unfold read_mini. destruct (w =? 0); [intros H; injection H as <- <-; apply repeat_length|].
  destruct (64 <? w); [discriminate|]. destruct (len rest <? packed_size mbs w); [discriminate|].
  destruct (take _ rest) as [[bs r]|]; [|discriminate]. intros H. injection H as <- <-.
  rewrite map_length, unpack_f_eq. apply to_base_length.
Qed.

Lemma sums_length L ds : length (fst (sums L ds)) = length ds.
Proof.
  revert L. induction ds as [|d t IH]; intros L; [reflexivity|]. cbn [sums]. specialize (IH (u64 (L + d))).
  destruct (sums (u64 (L + d)) t). cbn [fst length] in *. lia.
Qed.

Lemma dec_minis_nofault mbs md : forall ws rest last r,
  nofault (dec_minis mbs md ws rest last r) /\
  forall vals rest' last' r', dec_minis mbs md ws rest last r = Ok (vals, rest', last', r') ->
    (length vals + r' = r)%nat /\ (ws <> [] -> (0 < r)%nat -> (r' < r)%nat).
Proof.
  induction ws as [|w ws' IH]; intros rest last r.
  - split; [intros f; discriminate|]. intros vals rest' last' r' H. cbn in H. injection H as <- <- <- <-.
    split; [reflexivity|]. intros Q; contradiction.
  - cbn [dec_minis]. destruct r as [|r0].
    + split; [intros f; discriminate|]. intros vals rest' last' r' H. injection H as <- <- <- <-. split; [reflexivity|lia].
    + pose proof (read_mini_nofault mbs w md rest) as NF.
      destruct (read_mini mbs w md rest) as [[dl rest1]|c|e] eqn:RM.
      * set (ds' := if mbs =? 0 then [0] else dl).
        assert (Lp : (0 < length ds')%nat).
        { unfold ds'. destruct (N.eqb_spec mbs 0) as [E|E]; [cbn; lia|].
          rewrite (read_mini_length _ _ _ _ _ _ RM). lia. }
        pose proof (sums_length last (firstn (S r0) ds')) as SL.
        destruct (sums last (firstn (S r0) ds')) as [vals1 last1] eqn:S1. cbn [fst] in SL.
        destruct (IH rest1 last1 (S r0 - length (firstn (S r0) ds'))%nat) as [NF2 OK2].
        destruct (dec_minis mbs md ws' rest1 last1 _) as [[[[more rest2] l2] r2]|c|e] eqn:DM.
        -- split; [intros f; discriminate|]. intros vals rest' last' r' H. injection H as <- <- <- <-.
           destruct (OK2 _ _ _ _ eq_refl) as [A _]. rewrite app_length, SL. rewrite firstn_length in *. lia.
        -- split; [intros f; discriminate|]. intros; discriminate.
        -- exfalso. apply (NF2 e). reflexivity.
      * split; [intros f; discriminate|]. intros; discriminate.
      * exfalso. apply (NF e). reflexivity.
Qed.

Lemma dec_blocks_nofault mbs mbpb : 0 < mbpb -> forall fuel rest last r, (r <= fuel)%nat ->
  nofault (dec_blocks fuel mbs mbpb rest last r) /\
  forall vals rest', dec_blocks fuel mbs mbpb rest last r = Ok (vals, rest') -> length vals = r.
Proof.
  intros Hm. induction fuel; intros rest last r Hf.
  - destruct r; [|lia]. split; [intros f; discriminate|]. intros vals rest' H. injection H as <- <-. reflexivity.
  - destruct r as [|r0].
    + split; [intros f; discriminate|]. intros vals rest' H. cbn in H. injection H as <- <-. reflexivity.
    + cbn [dec_blocks]. destruct rest as [|b0 rt]; [split; [intros f; discriminate|intros; discriminate]|].
      destruct (uleb_dec (b0 :: rt)) as [[zz rest1]|]; [|split; [intros f; discriminate|intros; discriminate]].
      destruct (len rest1 <? mbpb) eqn:E; [split; [intros f; discriminate|intros; discriminate]|].
      apply N.ltb_ge in E. rewrite take_some by (unfold len in E; lia).
      assert (Hws : firstn (N.to_nat mbpb) rest1 <> []).
      { intros Q. apply (f_equal (@length N)) in Q. rewrite firstn_length in Q. unfold len in E. cbn [length] in Q. lia. }
      destruct (dec_minis_nofault mbs (zigzag_dec zz) (firstn (N.to_nat mbpb) rest1) (skipn (N.to_nat mbpb) rest1) last (S r0))
        as [NF OK].
      destruct (dec_minis mbs (zigzag_dec zz) _ _ last (S r0)) as [[[[vals1 rest3] l1] r1]|c|e] eqn:DM.
      * destruct (OK _ _ _ _ eq_refl) as [A B]. specialize (B Hws ltac:(lia)).
        destruct (IHfuel rest3 l1 r1 ltac:(lia)) as [NF2 OK2].
        destruct (dec_blocks fuel mbs mbpb rest3 l1 r1) as [[more rest4]|c|e] eqn:DB.
        -- split; [intros f; discriminate|]. intros vals rest' H. injection H as <- <-.
           rewrite app_length, (OK2 _ _ eq_refl). lia.
        -- split; [intros f; discriminate|intros; discriminate].
        -- exfalso. apply (NF2 e). reflexivity.
      * split; [intros f; discriminate|intros; discriminate].
      * exfalso. apply (NF e). reflexivity.
Qed.

Lemma delta_init_nofault data : nofault (delta_init data) /\
  forall h, delta_init data = Ok h -> 0 < h_mbpb h.
Proof.
  unfold delta_init.
  destruct (uleb_dec data) as [[bsz r1]|]; [|split; [intros f; discriminate|intros; discriminate]].
  destruct (uleb_dec r1) as [[mb r2]|]; [|split; [intros f; discriminate|intros; discriminate]].
  destruct (pos_i32 mb) as [mbpb|] eqn:P; [|split; [intros f; discriminate|intros; discriminate]].
  assert (Hp : 0 < mbpb).
  { unfold pos_i32 in P. destruct ((0 <? u32 mb) && (u32 mb <? 2 ^ 31)) eqn:E; [|discriminate].
    injection P as <-. apply andb_prop in E. destruct E as [E _]. apply N.ltb_lt in E. exact E. }
  destruct (MINIS <? mbpb); [split; [intros f; discriminate|intros; discriminate]|].
  destruct (pos_i32 bsz) as [block|]; [|split; [intros f; discriminate|intros; discriminate]].
  destruct (BLOCK <? block); [split; [intros f; discriminate|intros; discriminate]|].
  destruct (MINI_SIZE <? block / mbpb); [split; [intros f; discriminate|intros; discriminate]|].
  destruct (uleb_dec r2) as [[tot r3]|]; [|split; [intros f; discriminate|intros; discriminate]].
  destruct (uleb_dec r3) as [[fz r4]|]; [|split; [intros f; discriminate|intros; discriminate]].
  split; [intros f; discriminate|]. intros h H. injection H as <-. exact Hp.
Qed.

(** C08: DELTA_BINARY_PACKED decoders: no read outside the input, exactly [count] values written on success, consumed
    bytes within the input *)
Theorem delta64_decode_never_faults data count : forall f, delta_decode_int64 data count <> Fault f.
Proof.
  unfold delta_decode_int64. destruct (delta_init_nofault data) as [NF HP].
  destruct (delta_init data) as [h|c|e] eqn:DI; [|intros f; discriminate|exfalso; apply (NF e); reflexivity].
  destruct (count =? 0); [intros f; discriminate|]. destruct (h_total h <=? 0)%Z; [intros f; discriminate|].
  set (m := N.min count (Z.to_N (h_total h))).
  destruct (dec_blocks_nofault (h_mbs h) (h_mbpb h) (HP h eq_refl) (N.to_nat m) (h_rest h) (h_first h) (N.to_nat m - 1) ltac:(lia))
    as [NF2 _].
  destruct (dec_blocks _ _ _ _ _ _) as [[vals rest]|c|e]; [|intros f; discriminate|exfalso; apply (NF2 e); reflexivity].
  destruct (_ <? count); intros f; discriminate.
Qed.

Theorem delta64_decode_result_size data count vals c : delta_decode_int64 data count = Ok (vals, c) ->
  len vals = count /\ c <= len data.
Proof.
  unfold delta_decode_int64. destruct (delta_init_nofault data) as [NF HP].
  destruct (delta_init data) as [h|c0|e] eqn:DI; try discriminate.
  destruct (N.eqb_spec count 0) as [E0|E0].
  - intros H. injection H as <- <-. subst. split; [reflexivity|lia].
  - destruct (h_total h <=? 0)%Z eqn:ET; [discriminate|]. apply Z.leb_gt in ET.
    set (m := N.min count (Z.to_N (h_total h))).
    destruct (dec_blocks_nofault (h_mbs h) (h_mbpb h) (HP h eq_refl) (N.to_nat m) (h_rest h) (h_first h) (N.to_nat m - 1) ltac:(lia))
      as [_ OK].
    destruct (dec_blocks _ _ _ _ _ _) as [[vs rest]|c1|e]; try discriminate.
    destruct (Z.to_N (h_total h) <? count) eqn:E; [discriminate|]. apply N.ltb_ge in E.
    intros H. injection H as <- <-. specialize (OK _ _ eq_refl). split; [|lia].
    unfold len. cbn [length]. rewrite OK. unfold m. lia.
Qed.

Theorem delta32_decode_never_faults data count : forall f, delta_decode_int32 data count <> Fault f.
Proof.
  intros f. unfold delta_decode_int32. pose proof (delta64_decode_never_faults data count) as NF.
  destruct (delta_decode_int64 data count) as [[vs c]|c|e]; try discriminate. intros Q. apply (NF e). reflexivity.
Qed.

Theorem delta32_decode_result_size data count vals c : delta_decode_int32 data count = Ok (vals, c) ->
  len vals = count /\ c <= len data.
Proof.
  unfold delta_decode_int32. destruct (delta_decode_int64 data count) as [[vs c0]|c0|e] eqn:D; try discriminate.
  intros H. injection H as <- <-. destruct (delta64_decode_result_size _ _ _ _ D) as [A B].
  split; [unfold len in *; rewrite map_length; exact A|exact B].
Qed.
