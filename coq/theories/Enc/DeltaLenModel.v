(** Model of src/encoding/delta_length.c (DELTA_LENGTH_BYTE_ARRAY): the lengths as a DELTA_BINARY_PACKED
    INT32 stream, then all bytes concatenated.

    Byte arrays are byte lists, so a length is [length s] (the C struct holds an int32_t; lengths of 2^31 and
    more do not exist).  The heap scratch buffers (malloc) are not modelled here (C19); the scratch capacity
    handed to carquet_delta_encode_int32 is. *)
From Coq Require Import NArith ZArith List Bool.
From Carquet Require Import Gen.Enums_gen Base.Res Enc.DeltaBits Enc.DeltaModel.
Import ListNotations.
Local Open Scope N_scope.

Definition ERR_INVALID_ARGUMENT : Z := E_CARQUET_ERROR_INVALID_ARGUMENT.

(* 40 + (num_values / 128 + 1) * (10 + 4 + 128 * 4) *)
Definition lengths_capacity (n : N) : N := 40 + (n / 128 + 1) * (10 + 4 + 128 * 4).

(* carquet_delta_length_encode (values, num_values, output): the bytes appended to [output] *)
Definition delta_length_encode (vs : list (list N)) : res (list N) :=
  match vs with
  | [] => Err ERR_INVALID_ARGUMENT                    (* num_values <= 0 *)
  | _ =>
      match delta_encode_int32 (map len vs) (lengths_capacity (len vs)) with
      | Ok lens => Ok (lens ++ concat vs)
      | Err c => Err c
      | Fault e => Fault e
      end
  end.

(* lengths[i] < 0 for some i? (int32 patterns) *)
Definition any_negative (ls : list N) : bool := existsb (fun l => 2 ^ 31 <=? l) ls.

(* cut [data] into pieces of the given lengths; every read is checked *)
Fixpoint cut (ls : list N) (data : list N) : res (list (list N)) :=
  match ls with
  | [] => Ok []
  | l :: t => match take (N.to_nat l) data with
              | None => Fault OobRead
              | Some (s, rest) => match cut t rest with
                                  | Ok ss => Ok (s :: ss)
                                  | Err c => Err c
                                  | Fault e => Fault e
                                  end
              end
  end.

Definition sumN (ls : list N) : N := fold_right N.add 0 ls.

(* carquet_delta_length_decode (data, data_size, values, num_values, &bytes_consumed).
   The output byte arrays point into [data]; exactly [num_values] of them are written. *)
Definition delta_length_decode (data : list N) (count : N) : res (list (list N) * N) :=
  if count =? 0 then Err ERR_INVALID_ARGUMENT else
  match delta_decode_int32 data count with
  | Err c => Err c
  | Fault e => Fault e
  | Ok (lens, consumed) =>
      if any_negative lens then Err ERR_DECODE else
      let total := sumN lens in
      if len data <? consumed + total then Err ERR_DECODE else
      match cut lens (skipn (N.to_nat consumed) data) with
      | Ok ss => Ok (ss, consumed + total)
      | Err c => Err c
      | Fault e => Fault e
      end
  end.
