(** The executable specification decoder of RleSpec.v reads every well-formed run stream
    (soundness of [spec_decode_all] for the grammar), hence the encoder's output. *)
From Coq Require Import NArith Arith List Bool Lia ZifyBool ZifyNat ZifyN.
From Carquet Require Import Base.Bits Enc.BitpackSpec Enc.BitpackModel Enc.BitpackProofs
  Enc.RleSpec Enc.RleModel Enc.RleVarint Enc.RleEncProofs Enc.RleDecProofs Enc.RleProofs.
Import ListNotations.
Local Open Scope N_scope.

Lemma read_uleb_uleb g : forall x tl f, x < 2 ^ (7 * N.of_nat (S g)) -> (g < f)%nat ->
  read_uleb f (uleb g x ++ tl) = Some (x, tl).
Proof.
  induction g as [|g IH]; intros x tl f Hx Hf.
  - change (7 * N.of_nat 1) with 7 in Hx. change (2^7) with 128 in Hx. rewrite uleb_small by exact Hx.
    destruct f as [|f]; [lia|]. cbn [app read_uleb]. destruct (N.ltb_spec x 128); [reflexivity|lia].
  - destruct (N.lt_ge_cases x 128) as [L|G].
    + rewrite uleb_small by exact L. destruct f as [|f]; [lia|]. cbn [app read_uleb].
      destruct (N.ltb_spec x 128); [reflexivity|lia].
    + rewrite uleb_big by exact G. destruct f as [|f]; [lia|]. cbn [app read_uleb].
      assert (Hm : x mod 128 < 128) by (apply N.mod_lt; discriminate).
      destruct (N.ltb_spec (x mod 128 + 128) 128) as [L2|_]; [lia|].
      rewrite IH.
      * f_equal. f_equal. pose proof (N.div_mod x 128 ltac:(discriminate)). lia.
      * apply N.div_lt_upper_bound; [discriminate|].
        replace (128 * 2 ^ (7 * N.of_nat (S g))) with (2 ^ (7 * N.of_nat (S (S g)))); [exact Hx|].
        rewrite (Nat2N.inj_succ (S g)), N.mul_succ_r, N.pow_add_r. change (2^7) with 128. lia.
      * lia.
Qed.

Lemma read_uleb_header h tl : h < 2 ^ 32 -> read_uleb 10 (uleb128 h ++ tl) = Some (h, tl).
Proof.
  intros Hh. unfold uleb128. apply read_uleb_uleb; [|lia].
  apply N.lt_trans with (2^32); [exact Hh|reflexivity].
Qed.

Lemma unpack_pack_group w g : length g = 8%nat -> small w g -> unpack_spec w (pack_spec w g) = g.
Proof.
  intros Hl Hs. rewrite pack_unpack_spec by exact Hl. rewrite <- (map_id g) at 2.
  apply map_ext_in. intros v Hin. apply N.mod_small. unfold small in Hs. rewrite Forall_forall in Hs. apply Hs, Hin.
Qed.

Lemma take_groups_spec w : forall k vs tl, length vs = (8 * k)%nat -> small w vs ->
  take_groups w k (lit_bytes w vs ++ tl) = Some (vs, tl).
Proof.
  induction k as [|k IH]; intros vs tl Hl Hs.
  - destruct vs; [reflexivity|discriminate].
  - assert (Hm : Nat.modulo (length vs) 8 = 0%nat) by (rewrite Hl, Nat.mul_comm; apply Nat.mod_mul; lia).
    assert (Hne : vs <> []) by (intro E; subst vs; cbn in Hl; lia).
    destruct (split_group vs Hm Hne) as (g & more' & -> & Hg & Hm').
    destruct (small_app w g more' Hs) as [Hsg Hsm].
    rewrite lit_bytes_group by exact Hg. rewrite <- app_assoc. cbn [take_groups].
    assert (Hpl : length (pack_spec w g) = w) by apply pack_spec_length.
    destruct (Nat.ltb_spec (length (pack_spec w g ++ lit_bytes w more' ++ tl)) w) as [L|_];
      [rewrite app_length in L; lia|].
    rewrite firstn_app, Hpl, Nat.sub_diag, firstn_O, app_nil_r, firstn_all2 by lia.
    rewrite skipn_app, Hpl, Nat.sub_diag, skipn_O, skipn_all2 by lia. cbn [app].
    rewrite IH; [|rewrite app_length in Hl; lia|exact Hsm].
    rewrite (unpack_pack_group w g Hg Hsg). reflexivity.
Qed.

Lemma spec_decode_unfold f w bs : bs <> [] ->
  spec_decode (S f) w bs =
  match read_uleb 10 bs with
  | None => None
  | Some (h, tl) =>
    if N.even h then
      let vb := value_bytes w in
      if Nat.ltb (length tl) vb then None
      else let v := from_base 256 (firstn vb tl) in
           match spec_decode f w (skipn vb tl) with
           | Some r => Some (repeat v (N.to_nat (h / 2)) ++ r)
           | None => None
           end
    else
      match take_groups w (N.to_nat (h / 2)) tl with
      | None => None
      | Some (vs, tl') => match spec_decode f w tl' with
                          | Some r => Some (vs ++ r)
                          | None => None
                          end
      end
  end.
Proof. intros H. destruct bs; [contradiction|reflexivity]. Qed.

Lemma spec_decode_runs w : forall rs fuel, Forall (wf_run w) rs -> (length rs < fuel)%nat ->
  spec_decode fuel w (bytes_of_runs w rs) = Some (runs_vals rs).
Proof.
  induction rs as [|r rs IH]; intros fuel Hwf Hf.
  - destruct fuel; [lia|reflexivity].
  - destruct fuel as [|f]; [lia|]. cbn [length] in Hf. inversion Hwf as [|? ? Hr Hrs]; subst.
    rewrite bytes_of_runs_cons.
    rewrite spec_decode_unfold by (intro E; apply app_eq_nil in E; destruct E as [E _]; exact (bytes_of_run_nonempty w r E)).
    rewrite runs_vals_cons. destruct r as [n v|vs]; cbn [bytes_of_run wf_run run_vals] in *.
    + destruct Hr as [Hv Hb]. rewrite <- app_assoc, read_uleb_header by exact Hb.
      rewrite N.even_mul. cbn [N.even orb]. cbv zeta.
      destruct (Nat.ltb_spec (length (to_base 256 (value_bytes w) v ++ bytes_of_runs w rs)) (value_bytes w)) as [L|_];
        [rewrite app_length, to_base_length in L; lia|].
      rewrite firstn_app, to_base_length, Nat.sub_diag, firstn_O, app_nil_r, firstn_all2 by (rewrite to_base_length; lia).
      rewrite skipn_app, to_base_length, Nat.sub_diag, skipn_O, skipn_all2 by (rewrite to_base_length; lia). cbn [app].
      rewrite from_to_base by (try discriminate; apply value_fits, Hv).
      rewrite IH by (try assumption; lia).
      replace (2 * N.of_nat n / 2) with (N.of_nat n) by (rewrite N.mul_comm, N.div_mul by discriminate; reflexivity).
      rewrite Nat2N.id. reflexivity.
    + destruct Hr as (Hm & Hs & Hb). rewrite <- app_assoc, read_uleb_header by exact Hb.
      replace (N.even (2 * N.of_nat (Nat.div (length vs) 8) + 1)) with false
        by (rewrite N.add_comm, N.even_add_mul_2; reflexivity).
      replace ((2 * N.of_nat (Nat.div (length vs) 8) + 1) / 2) with (N.of_nat (Nat.div (length vs) 8))
        by (rewrite N.add_comm, N.mul_comm, N.div_add by discriminate; reflexivity).
      rewrite Nat2N.id.
      change (concat (map (pack_spec w) (groups_of8 (length vs) vs))) with (lit_bytes w vs).
      rewrite take_groups_spec; [|pose proof (Nat.div_mod (length vs) 8 ltac:(lia)); lia|exact Hs].
      rewrite IH by (try assumption; lia). reflexivity.
Qed.

Lemma spec_decode_all_runs w rs : Forall (wf_run w) rs ->
  spec_decode_all w (bytes_of_runs w rs) = Some (runs_vals rs).
Proof.
  intros Hwf. unfold spec_decode_all. apply spec_decode_runs; [exact Hwf|].
  clear Hwf. induction rs as [|r rs IH]; [cbn; lia|].
  rewrite bytes_of_runs_cons, app_length. cbn [length].
  pose proof (bytes_of_run_nonempty w r) as NE. destruct (bytes_of_run w r); [contradiction|cbn [length]; lia].
Qed.

(** the independent decoder written from the specification recovers the encoder's input *)
Lemma spec_decodes_encoder w vs : fits w vs -> 2 * N.of_nat (length vs) < 2 ^ 32 ->
  exists k, (k < 8)%nat /\ spec_decode_all w (encode_all w vs) = Some (vs ++ repeat 0 k).
Proof.
  intros Hs Hb. destruct (rle_encode_denotes w vs Hs Hb) as (k & Hk & rs & Hwf & E & Hv).
  exists k. split; [exact Hk|]. rewrite E, Hv. apply spec_decode_all_runs, Hwf.
Qed.
