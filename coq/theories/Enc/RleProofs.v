(** RLE / bit-packed hybrid: round trip, conformance with the run grammar in both directions, and
    refinement of the streaming decoder to a cursor over the denoted values. *)
From Coq Require Import NArith Arith List Bool Lia.
From Carquet Require Import Base.Res Base.Bits Enc.BitpackSpec Enc.BitpackModel Enc.BitpackProofs
  Enc.RleSpec Enc.RleModel Enc.RleVarint Enc.RleEncProofs Enc.RleDecProofs.
Import ListNotations.
Local Open Scope N_scope.

Definition fits (w : nat) (vs : list N) : Prop := Forall (fun v => v < 2 ^ N.of_nat w) vs.

(** encoder conforms: its bytes are a legal hybrid stream carrying the input then < 8 zeros *)
Lemma rle_encode_denotes w vs : fits w vs -> 2 * N.of_nat (length vs) < 2 ^ 32 ->
  exists k, (k < 8)%nat /\ Denotes w (encode_all w vs) (vs ++ repeat 0 k).
Proof.
  intros Hs Hb. destruct (encode_all_runs w vs Hs Hb) as (rs & k & E & Hok & Hv & Hk).
  destruct (chunks_are_spec w rs Hok) as [E2 Hwf].
  exists k. split; [exact Hk|]. exists rs. repeat split; [exact Hwf|rewrite E, E2; reflexivity|symmetry; exact Hv].
Qed.

(** decoder accepts every legal stream *)
Lemma rle_decode_denotes w bytes vals n : (w <= 32)%nat -> Denotes w bytes vals ->
  decode_all w bytes n = firstn n vals.
Proof. intros Hw (rs & Hwf & -> & ->). apply decode_all_runs; assumption. Qed.

Lemma rle_roundtrip_lemma w vs : (w <= 32)%nat -> fits w vs -> 2 * N.of_nat (length vs) < 2 ^ 32 ->
  decode_all w (encode_all w vs) (length vs) = vs.
Proof.
  intros Hw Hs Hb. destruct (rle_encode_denotes w vs Hs Hb) as (k & _ & HD).
  rewrite (rle_decode_denotes w _ _ (length vs) Hw HD).
  rewrite firstn_app, Nat.sub_diag, firstn_O, app_nil_r. apply firstn_all.
Qed.

(* ------------------------------------------------------------------ skip and get *)

Lemma skip_spec w : (w <= 32)%nat -> forall fuel want d p, DS w d p -> (want < fuel)%nat ->
  fst (skip fuel w d want) = Nat.min want (length p) /\ DS w (snd (skip fuel w d want)) (skipn want p).
Proof.
  intros Hw fuel. induction fuel as [|f IH]; intros want d p HD Hf; [lia|].
  cbn [skip]. destruct (Nat.eqb_spec want 0) as [->|Hw0].
  - cbn [fst snd skipn]. split; [reflexivity|exact HD].
  - destruct (has_next d) eqn:Hn; cbn [negb].
    + destruct (batch_iter_spec w d p want Hw HD ltac:(lia)) as [BN BE].
      destruct p as [|x xs].
      * destruct (BE eq_refl) as (d1 & E & HD1). rewrite E. cbn [negb fst snd length]. rewrite skipn_nil.
        split; [lia|exact HD1].
      * destruct (BN ltac:(discriminate)) as (k & d1 & E & K1 & K2 & HD1). rewrite E. cbn [negb].
        assert (Hlen : length (firstn k (x :: xs)) = k) by (apply firstn_length_le; exact K2).
        rewrite Hlen.
        destruct (IH (want - k)%nat d1 _ HD1 ltac:(lia)) as [I1 I2].
        destruct (skip f w d1 (want - k)) as [n2 d2]. cbn [fst snd] in *.
        assert (Ew : want = (k + (want - k))%nat) by lia.
        split.
        -- rewrite I1, skipn_length. lia.
        -- rewrite Ew, skipn_plus. exact I2.
    + cbn [fst snd]. rewrite (has_next_false w d p HD Hn), skipn_nil. cbn [length]. split; [lia|].
      rewrite <- (has_next_false w d p HD Hn). exact HD.
Qed.

(** get = get_batch of one value (0 when nothing is left) *)
Lemma get_spec w d p : (w <= 32)%nat -> DS w d p ->
  fst (get w d) = hd 0 p /\ DS w (snd (get w d)) (tl p).
Proof.
  intros Hw HD. unfold get.
  assert (Hok : d_ok d = true) by (destruct HD; assumption). rewrite Hok. cbn [negb].
  (* reuse the batch machinery with want = 1 *)
  pose proof (batch_iter_spec w d p 1 Hw HD ltac:(lia)) as [BN BE]. unfold batch_iter in BN, BE.
  destruct (if d_rem d =? 0 then start_new_run (S (length (d_rest d))) w d else (d, true)) as [d1 ok] eqn:Es.
  destruct ok; cbn [negb] in *.
  - destruct p as [|x xs].
    + destruct (BE eq_refl) as (d2 & E & HD2). unfold run_iter in E.
      destruct (d_rle d1); [discriminate|].
      destruct (match d_buf d1 with [] => fill w d1 | _ => (d1, true) end) as [d3 ok2].
      destruct ok2; cbn [negb] in E |- *; [unfold lit_take in E; discriminate|].
      injection E as E. subst d3. cbn [fst snd hd tl]. split; [reflexivity|exact HD2].
    + destruct (BN ltac:(discriminate)) as (k & d2 & E & K1 & K2 & HD2).
      assert (k = 1%nat) by lia. subst k. cbn [firstn skipn hd tl] in *. unfold run_iter in E.
      destruct (d_rle d1) eqn:Erle.
      * injection E as E1 E2. 
        assert (Hk : nmin 1 (d_rem d1) = 1%nat).
        { destruct (nmin 1 (d_rem d1)) as [|[|k]] eqn:En; cbn [repeat] in E1; try discriminate; reflexivity. }
        rewrite Hk in E1, E2. cbn [repeat] in E1. injection E1 as E1. cbn [fst snd]. split; [exact E1|].
        rewrite <- E2 in HD2. cbn [N.of_nat] in HD2. exact HD2.
      * destruct (match d_buf d1 with [] => fill w d1 | _ => (d1, true) end) as [d3 ok2]. destruct ok2; cbn [negb] in E; [|discriminate].
        unfold lit_take in E. injection E as E1 E2.
        destruct (d_buf d3) as [|y ys] eqn:Eb.
        -- rewrite Nat.min_0_r in E1. cbn in E1. discriminate.
        -- assert (Hk : Nat.min (nmin 1 (d_rem d3)) (length (y :: ys)) = 1%nat).
           { destruct (Nat.min (nmin 1 (d_rem d3)) (length (y :: ys))) as [|[|k]] eqn:En; cbn [firstn] in E1; try discriminate; [reflexivity|].
             unfold nmin in En. destruct (N.leb_spec (N.of_nat 1) (d_rem d3)); cbn [length] in En; lia. }
           rewrite Hk in E1, E2. cbn [firstn skipn] in E1, E2. injection E1 as E1. cbn [fst snd]. split; [exact E1|].
           rewrite <- E2 in HD2. cbn [N.of_nat] in HD2. exact HD2.
  - destruct p as [|x xs].
    + destruct (BE eq_refl) as (d2 & E & HD2). injection E as E. subst d2. cbn [fst snd hd tl]. split; [reflexivity|exact HD2].
    + destruct (BN ltac:(discriminate)) as (k & d2 & E & _). discriminate.
Qed.

(* ------------------------------------------------------------------ any chunking and skipping *)

Inductive sop : Type := OpGet | OpBatch (k : nat) | OpSkip (k : nat).

(** what a caller observes from one operation: the values delivered / the count skipped *)
Inductive sout : Type := OutVals (vs : list N) | OutCount (n : nat).

Definition run_op (w : nat) (d : dec) (o : sop) : sout * dec :=
  match o with
  | OpGet => let '(v, d') := get w d in (OutVals [v], d')
  | OpBatch k => let '(vs, d') := get_batch (S k) w d k in (OutVals vs, d')
  | OpSkip k => let '(n, d') := skip (S k) w d k in (OutCount n, d')
  end.

Fixpoint run_ops (w : nat) (d : dec) (ops : list sop) : list sout :=
  match ops with [] => [] | o :: tl => let '(out, d') := run_op w d o in out :: run_ops w d' tl end.

(** the specification: a cursor over the list of denoted values *)
Definition cursor_op (p : list N) (o : sop) : sout * list N :=
  match o with
  | OpGet => (OutVals [hd 0 p], tl p)
  | OpBatch k => (OutVals (firstn k p), skipn k p)
  | OpSkip k => (OutCount (Nat.min k (length p)), skipn k p)
  end.

Fixpoint cursor_ops (p : list N) (ops : list sop) : list sout :=
  match ops with [] => [] | o :: tl => let '(out, p') := cursor_op p o in out :: cursor_ops p' tl end.

Lemma run_ops_refines w : (w <= 32)%nat -> forall ops d p, DS w d p -> run_ops w d ops = cursor_ops p ops.
Proof.
  intros Hw ops. induction ops as [|o ops IH]; intros d p HD; [reflexivity|].
  cbn [run_ops cursor_ops]. destruct o as [|k|k]; cbn [run_op cursor_op].
  - destruct (get_spec w d p Hw HD) as [G1 G2]. destruct (get w d) as [v d']. cbn [fst snd] in *.
    rewrite G1. f_equal. apply IH, G2.
  - destruct (get_batch_spec w Hw (S k) k d p HD ltac:(lia)) as [G1 G2].
    destruct (get_batch (S k) w d k) as [vs d']. cbn [fst snd] in *. rewrite G1. f_equal. apply IH, G2.
  - destruct (skip_spec w Hw (S k) k d p HD ltac:(lia)) as [G1 G2].
    destruct (skip (S k) w d k) as [n d']. cbn [fst snd] in *. rewrite G1. f_equal. apply IH, G2.
Qed.

Lemma rle_stream_refines_lemma w bytes vals ops : (w <= 32)%nat -> Denotes w bytes vals ->
  run_ops w (dec_init bytes) ops = cursor_ops vals ops.
Proof.
  intros Hw (rs & Hwf & -> & ->). apply run_ops_refines; [exact Hw|]. apply dec_init_DS, Hwf.
Qed.

(* ------------------------------------------------------------------ non-vacuity *)

Example fits_example : fits 3 [0;1;2;3;4;5;6;7;7;7;7;7;7;7;7;7;7;7;7;2] /\ 2 * N.of_nat 20 < 2 ^ 32.
Proof. split; [repeat constructor|reflexivity]. Qed.

Example denotes_example : Denotes 3 [0x03; 0x88; 0xC6; 0xFA; 0x00; 0x05; 0x0A; 0x07] ([0;1;2;3;4;5;6;7] ++ repeat 7 5).
Proof.
  exists [RLit [0;1;2;3;4;5;6;7]; RRun 0 5; RRun 5 7]. split; [|split; vm_compute; reflexivity].
  repeat constructor; cbn; try lia; try reflexivity.
Qed.
