(** Proofs about the PLAIN model (Enc/PlainModel.v) against itself (C11 round trips), against the
    specification decoders of Enc/PlainSpec.v (C12, both directions) and the never-fault lemmas (C08). *)
From Coq Require Import NArith ZArith List Bool Lia.
From Carquet Require Import Base.Res Enc.DeltaBits Enc.PlainSpec Enc.PlainModel.
Import ListNotations.
Local Open Scope N_scope.

Lemma size_t_small x : x < 2 ^ 64 -> size_t x = x.
Proof. intros H. unfold size_t. rewrite N.land_ones. apply N.mod_small; exact H. Qed.

Lemma size_t_le x : size_t x <= x.
Proof. unfold size_t. rewrite N.land_ones. apply N.mod_le. apply N.pow_nonzero; discriminate. Qed.

Lemma len_app {A} (a b : list A) : len (a ++ b) = len a + len b.
Proof. unfold len. rewrite app_length. lia. Qed.

Lemma len_cons {A} (x : A) l : len (x :: l) = 1 + len l.
Proof. unfold len. cbn [length]. lia. Qed.

Lemma len_nat {A} (l : list A) : N.to_nat (len l) = length l.
Proof. unfold len. apply Nat2N.id. Qed.

(** ** fixed width *)
Lemma enc_fixed_length k vs : len (enc_fixed k vs) = N.of_nat k * len vs.
Proof.
  induction vs as [|v t IH]; [cbn; lia|].
  unfold enc_fixed in *. cbn [flat_map]. rewrite len_app, IH, len_cons.
  unfold len at 1. rewrite le_bytes_f_eq, le_bytes_length. lia.
Qed.

Lemma read_fixed_enc k vs rest : Forall (fun v => v < 256 ^ N.of_nat k) vs ->
  read_fixed k (length vs) (enc_fixed k vs ++ rest) = Ok vs.
Proof.
  intros H. induction H as [|v t Hv Ht IH]; [reflexivity|].
  unfold enc_fixed in *. cbn [flat_map length read_fixed]. rewrite <- app_assoc.
  pose proof (le_bytes_length k v) as L. rewrite <- le_bytes_f_eq in L.
  rewrite <- L at 1. rewrite take_app, IH, le_num_f_eq, le_bytes_f_eq, le_num_bytes by exact Hv. reflexivity.
Qed.

Lemma div_mul_exact a b : b <> 0 -> (b * a) / b = a.
Proof. intros H. rewrite N.mul_comm. apply N.div_mul; exact H. Qed.

Theorem fixed_roundtrip k vs : (0 < k)%nat -> Forall (fun v => v < 256 ^ N.of_nat k) vs ->
  dec_fixed k (enc_fixed k vs) (len vs) = Ok (vs, len (enc_fixed k vs)).
Proof.
  intros Hk H. unfold dec_fixed. rewrite enc_fixed_length.
  rewrite div_mul_exact by lia. rewrite N.ltb_irrefl.
  rewrite len_nat. rewrite <- (app_nil_r (enc_fixed k vs)), read_fixed_enc by exact H.
  rewrite (N.mul_comm (len vs)). reflexivity.
Qed.

Definition u32v (v : N) : Prop := v < 2 ^ 32.
Definition u64v (v : N) : Prop := v < 2 ^ 64.

Theorem plain_roundtrip_int32 vs : Forall u32v vs ->
  plain_decode_int32 (plain_encode_int32 vs) (len vs) = Ok (vs, len (plain_encode_int32 vs)).
Proof. apply (fixed_roundtrip 4). lia. Qed.

Theorem plain_roundtrip_float vs : Forall u32v vs ->
  plain_decode_float (plain_encode_float vs) (len vs) = Ok (vs, len (plain_encode_float vs)).
Proof. apply (fixed_roundtrip 4). lia. Qed.

Theorem plain_roundtrip_int64 vs : Forall u64v vs ->
  plain_decode_int64 (plain_encode_int64 vs) (len vs) = Ok (vs, len (plain_encode_int64 vs)).
Proof. apply (fixed_roundtrip 8). lia. Qed.

Theorem plain_roundtrip_double vs : Forall u64v vs ->
  plain_decode_double (plain_encode_double vs) (len vs) = Ok (vs, len (plain_encode_double vs)).
Proof. apply (fixed_roundtrip 8). lia. Qed.

Example plain_roundtrip_int32_ex :
  plain_decode_int32 (plain_encode_int32 [1; 0xFFFFFFFF; 0x80000000]) 3 = Ok ([1; 0xFFFFFFFF; 0x80000000], 12).
Proof. vm_compute. reflexivity. Qed.

(** ** INT96 *)
Definition u96v (v : N * N * N) : Prop := let '(a, b, c) := v in a < 2 ^ 32 /\ b < 2 ^ 32 /\ c < 2 ^ 32.

Fixpoint flat3 (vs : list (N * N * N)) : list N :=
  match vs with [] => [] | (a, b, c) :: t => a :: b :: c :: flat3 t end.

Lemma int96_as_fixed vs : plain_encode_int96 vs = enc_fixed 4 (flat3 vs).
Proof.
  induction vs as [|[[a b] c] t IH]; [reflexivity|].
  unfold plain_encode_int96, enc_fixed in *. cbn [flat_map flat3]. rewrite IH, <- !app_assoc. reflexivity.
Qed.

Lemma triples_flat3 vs : triples (flat3 vs) = vs.
Proof. induction vs as [|[[a b] c] t IH]; [reflexivity|]. cbn [flat3 triples]. rewrite IH. reflexivity. Qed.

Lemma flat3_length vs : length (flat3 vs) = (3 * length vs)%nat.
Proof. induction vs as [|[[a b] c] t IH]; [reflexivity|]. cbn [flat3 length]. rewrite IH. lia. Qed.

Lemma flat3_ok vs : Forall u96v vs -> Forall (fun v => v < 256 ^ N.of_nat 4) (flat3 vs).
Proof.
  intros H. induction H as [|[[a b] c] t [Ha [Hb Hc]] Ht IH]; [constructor|].
  cbn [flat3]. repeat constructor; assumption.
Qed.

Theorem plain_roundtrip_int96 vs : Forall u96v vs ->
  plain_decode_int96 (plain_encode_int96 vs) (len vs) = Ok (vs, len (plain_encode_int96 vs)).
Proof.
  intros H. unfold plain_decode_int96. rewrite int96_as_fixed. rewrite enc_fixed_length.
  assert (E : N.of_nat 4 * len (flat3 vs) = 12 * len vs) by (unfold len; rewrite flat3_length; lia).
  rewrite E, div_mul_exact by discriminate. rewrite N.ltb_irrefl.
  rewrite len_nat, <- flat3_length, <- (app_nil_r (enc_fixed 4 (flat3 vs))), read_fixed_enc by (apply flat3_ok; exact H).
  rewrite triples_flat3. f_equal. f_equal. lia.
Qed.

(** ** BOOLEAN *)
Lemma truth_bit v : truth v < 2.
Proof. unfold truth. destruct (v =? 0); lia. Qed.

Lemma byte_bits_bools k vs : (k <= 8)%nat ->
  byte_bits (Nat.min k (length vs)) (bools_byte k vs) = map truth (firstn k vs).
Proof.
  revert vs. induction k; intros vs Hk; [reflexivity|].
  destruct vs as [|v t]; [reflexivity|].
  cbn [length Nat.min bools_byte byte_bits firstn map].
  pose proof (truth_bit v) as Tv.
  f_equal.
  - change 1 with (N.ones 1). rewrite N.land_ones. change (2 ^ 1) with 2.
    apply mod_add_mul; [discriminate|exact Tv].
  - rewrite N.shiftr_div_pow2. change (2 ^ 1) with 2.
    rewrite div_add_mul by (try discriminate; exact Tv). apply IHk. lia.
Qed.

Lemma dec_enc_bools fuel vs : (length vs <= fuel)%nat ->
  dec_bools (enc_bools fuel vs) (length vs) = Ok (map truth vs).
Proof.
  revert vs. induction fuel; intros vs Hf.
  - destruct vs; [reflexivity|simpl in Hf; lia].
  - destruct vs as [|v t]; [reflexivity|].
    cbn [enc_bools]. set (l := v :: t) in *.
    change (dec_bools (bools_byte 8 l :: enc_bools fuel (skipn 8 l)) (length l)) with
      (match dec_bools (enc_bools fuel (skipn 8 l)) (length l - Nat.min 8 (length l)) with
       | Ok r => Ok (byte_bits (Nat.min 8 (length l)) (bools_byte 8 l) ++ r)
       | Err c => Err c | Fault f => Fault f end).
    assert (E : (length l - Nat.min 8 (length l) = length (skipn 8 l))%nat) by (rewrite skipn_length; lia).
    rewrite E, IHfuel.
    + rewrite byte_bits_bools by lia. rewrite <- map_app, firstn_skipn. reflexivity.
    + rewrite skipn_length. subst l. cbn [length] in *. lia.
Qed.

Lemma enc_bools_length fuel vs : (length vs <= fuel)%nat ->
  len (enc_bools fuel vs) = (len vs + 7) / 8.
Proof.
  revert vs. induction fuel; intros vs Hf.
  - destruct vs; [reflexivity|simpl in Hf; lia].
  - destruct vs as [|v t]; [reflexivity|].
    cbn [enc_bools]. set (l := v :: t) in *. rewrite len_cons, IHfuel.
    + unfold len. rewrite skipn_length.
      assert (1 <= N.of_nat (length l)) by (subst l; cbn [length]; lia).
      destruct (Nat.le_gt_cases 8 (length l)) as [G|G].
      * replace (N.of_nat (length l) + 7) with (N.of_nat (length l - 8) + 7 + 1 * 8) by lia.
        rewrite N.div_add by discriminate. lia.
      * replace (length l - 8)%nat with O by lia. cbn [N.of_nat]. change ((0 + 7) / 8) with 0.
        apply N.div_unique with (r := N.of_nat (length l) + 7 - 8); lia.
    + rewrite skipn_length. subst l. cbn [length] in *. lia.
Qed.

(** the C encoder treats every non-zero byte as true: the decoder returns the truth values *)
Theorem plain_roundtrip_boolean vs : len vs < 2 ^ 63 ->
  plain_decode_boolean (plain_encode_boolean vs) (len vs) = Ok (map truth vs, len (plain_encode_boolean vs)).
Proof.
  intros B. unfold plain_decode_boolean, plain_encode_boolean.
  rewrite enc_bools_length by lia. rewrite size_t_small by lia. rewrite N.ltb_irrefl.
  rewrite len_nat, dec_enc_bools by lia. reflexivity.
Qed.

Lemma map_truth_bits vs : Forall (fun v => v < 2) vs -> map truth vs = vs.
Proof.
  intros H. induction H as [|v t Hv Ht IH]; [reflexivity|]. cbn [map]. rewrite IH. f_equal.
  unfold truth. destruct (N.eqb_spec v 0); lia.
Qed.

Corollary plain_roundtrip_boolean_bits vs : len vs < 2 ^ 63 -> Forall (fun v => v < 2) vs ->
  plain_decode_boolean (plain_encode_boolean vs) (len vs) = Ok (vs, len (plain_encode_boolean vs)).
Proof. intros B H. rewrite plain_roundtrip_boolean by exact B. rewrite map_truth_bits by exact H. reflexivity. Qed.

Example plain_roundtrip_boolean_ex :
  plain_decode_boolean (plain_encode_boolean [1;0;1;1;0;0;0;0;1]) 9 = Ok ([1;0;1;1;0;0;0;0;1], 2).
Proof. vm_compute. reflexivity. Qed.

(** ** BYTE_ARRAY *)
Definition ba_ok (s : list N) : Prop := len s < 2 ^ 31.

Lemma dec_bas_enc vs rest : Forall ba_ok vs ->
  dec_bas (plain_encode_byte_array vs ++ rest) (length vs) = Ok (vs, rest).
Proof.
  intros H. induction H as [|s t Hs Ht IH]; [reflexivity|].
  unfold plain_encode_byte_array in *. cbn [flat_map length dec_bas]. rewrite <- !app_assoc.
  pose proof (le_bytes_length 4 (len s)) as L. rewrite <- le_bytes_f_eq in L.
  assert (E4 : len (le_bytes_f 4 (len s) ++ s ++ flat_map (fun s0 => le_bytes_f 4 (len s0) ++ s0) t ++ rest) <? 4 = false).
  { apply N.ltb_ge. rewrite len_app. unfold len at 1. rewrite L. lia. }
  rewrite E4. rewrite <- L at 1. rewrite take_app.
  unfold ba_ok in Hs.
  rewrite le_num_f_eq, le_bytes_f_eq, le_num_bytes by (change (256 ^ N.of_nat 4) with (2 ^ 32); lia).
  assert (E1 : (2 ^ 31 <=? len s) = false) by (apply N.leb_gt; exact Hs). rewrite E1.
  assert (E2 : (len (s ++ flat_map (fun s0 => le_bytes_f 4 (len s0) ++ s0) t ++ rest) <? len s) = false).
  { apply N.ltb_ge. rewrite len_app. lia. }
  rewrite E2. cbn [orb]. rewrite len_nat, take_app, IH. reflexivity.
Qed.

Theorem plain_roundtrip_byte_array vs : Forall ba_ok vs ->
  plain_decode_byte_array (plain_encode_byte_array vs) (len vs) = Ok (vs, len (plain_encode_byte_array vs)).
Proof.
  intros H. unfold plain_decode_byte_array. rewrite len_nat.
  rewrite <- (app_nil_r (plain_encode_byte_array vs)) at 1. rewrite dec_bas_enc by exact H.
  cbn [len length]. rewrite N.sub_0_r. reflexivity.
Qed.

Example plain_roundtrip_byte_array_ex :
  plain_decode_byte_array (plain_encode_byte_array [[97;98]; []; [99]]) 3 = Ok ([[97;98]; []; [99]], 15).
Proof. vm_compute. reflexivity. Qed.

(** ** FIXED_LEN_BYTE_ARRAY: [raw] is the image of [count] values of [flen] bytes *)
Theorem plain_roundtrip_flba raw count flen : flen <> 0 -> len raw = count * flen ->
  plain_decode_flba (plain_encode_flba raw) count flen = Ok (raw, len (plain_encode_flba raw)).
Proof.
  intros Hf E. unfold plain_decode_flba, plain_encode_flba.
  destruct (N.eqb_spec flen 0) as [->|_]; [contradiction|].
  rewrite E, N.div_mul by exact Hf. rewrite N.ltb_irrefl. rewrite <- E, len_nat.
  rewrite take_some by lia. rewrite firstn_all. reflexivity.
Qed.

(** ** C12: the encoders produce what the specification decoders read, and the decoders read every stream the
       specification decoders read *)
Lemma spec_fixed_dec_enc k vs rest : Forall (fun v => v < 256 ^ N.of_nat k) vs ->
  spec_fixed_dec k (length vs) (enc_fixed k vs ++ rest) = Some (vs, rest).
Proof.
  intros H. induction H as [|v t Hv Ht IH]; [reflexivity|].
  unfold enc_fixed in *. cbn [flat_map length spec_fixed_dec]. rewrite <- app_assoc, le_bytes_f_eq.
  rewrite <- (le_bytes_length k v) at 1. rewrite take_app, IH, le_num_bytes by exact Hv. reflexivity.
Qed.

Theorem plain_fixed_encode_conforms k vs : Forall (fun v => v < 256 ^ N.of_nat k) vs ->
  spec_fixed_dec k (length vs) (enc_fixed k vs) = Some (vs, []).
Proof. intros H. rewrite <- (app_nil_r (enc_fixed k vs)). apply spec_fixed_dec_enc; exact H. Qed.

Lemma take_len {A} n (l a r : list A) : take n l = Some (a, r) -> len l = N.of_nat n + len r.
Proof. intros H. destruct (take_spec _ _ _ _ H) as [-> <-]. rewrite len_app. reflexivity. Qed.

Lemma read_fixed_spec k n bs vs rest : spec_fixed_dec k n bs = Some (vs, rest) ->
  read_fixed k n bs = Ok vs /\ len bs = N.of_nat k * N.of_nat n + len rest.
Proof.
  revert bs vs rest. induction n; intros bs vs rest H.
  - injection H as <- <-. split; [reflexivity|lia].
  - cbn [spec_fixed_dec] in H. cbn [read_fixed].
    destruct (take k bs) as [[v r]|] eqn:T; [|discriminate].
    destruct (spec_fixed_dec k n r) as [[vs' r']|] eqn:S; [|discriminate].
    injection H as <- <-. destruct (IHn _ _ _ S) as [-> L]. rewrite le_num_f_eq. split; [reflexivity|].
    rewrite (take_len _ _ _ _ T), L. lia.
Qed.

Theorem plain_fixed_decode_accepts k n bs vs rest : (0 < k)%nat ->
  spec_fixed_dec k n bs = Some (vs, rest) ->
  dec_fixed k bs (N.of_nat n) = Ok (vs, N.of_nat k * N.of_nat n).
Proof.
  intros Hk H. destruct (read_fixed_spec _ _ _ _ _ H) as [R L]. unfold dec_fixed.
  assert (E : (len bs / N.of_nat k <? N.of_nat n) = false).
  { apply N.ltb_ge. rewrite L. apply N.div_le_lower_bound; [lia|]. lia. }
  rewrite E, Nat2N.id, R. rewrite N.mul_comm. reflexivity.
Qed.

Lemma dec_bas_spec n bs vs rest : spec_ba_dec n bs = Some (vs, rest) -> dec_bas bs n = Ok (vs, rest).
Proof.
  revert bs vs rest. induction n; intros bs vs rest H.
  - injection H as <- <-. reflexivity.
  - cbn [spec_ba_dec] in H. cbn [dec_bas].
    destruct (take 4 bs) as [[l4 r1]|] eqn:T; [|discriminate].
    pose proof (take_len _ _ _ _ T) as L4.
    assert (E4 : (len bs <? 4) = false) by (apply N.ltb_ge; lia). rewrite E4, le_num_f_eq.
    destruct (2 ^ 31 <=? le_num l4) eqn:E1; [discriminate|].
    destruct (take (N.to_nat (le_num l4)) r1) as [[s r2]|] eqn:T2; [|discriminate].
    pose proof (take_len _ _ _ _ T2) as L2. rewrite N2Nat.id in L2.
    assert (E2 : (len r1 <? le_num l4) = false) by (apply N.ltb_ge; lia). rewrite E2. cbn [orb].
    destruct (spec_ba_dec n r2) as [[vs' r']|] eqn:S; [|discriminate].
    injection H as <- <-. rewrite (IHn _ _ _ S). reflexivity.
Qed.

Theorem plain_byte_array_decode_accepts n bs vs rest : spec_ba_dec n bs = Some (vs, rest) ->
  plain_decode_byte_array bs (N.of_nat n) = Ok (vs, len bs - len rest).
Proof.
  intros H. unfold plain_decode_byte_array. rewrite Nat2N.id, (dec_bas_spec _ _ _ _ H). reflexivity.
Qed.

Theorem plain_byte_array_encode_conforms vs : Forall ba_ok vs ->
  spec_ba_dec (length vs) (plain_encode_byte_array vs) = Some (vs, []).
Proof.
  intros H. rewrite <- (app_nil_r (plain_encode_byte_array vs)). generalize (@nil N) as rest.
  induction H as [|s t Hs Ht IH]; intros rest; [reflexivity|].
  unfold plain_encode_byte_array in *. cbn [flat_map length spec_ba_dec]. rewrite <- !app_assoc, le_bytes_f_eq.
  rewrite <- (le_bytes_length 4 (len s)) at 1. rewrite take_app.
  unfold ba_ok in Hs. rewrite le_num_bytes by (change (256 ^ N.of_nat 4) with (2 ^ 32); lia).
  assert (E1 : (2 ^ 31 <=? len s) = false) by (apply N.leb_gt; exact Hs). rewrite E1.
  rewrite len_nat, take_app, IH. reflexivity.
Qed.

(** BOOLEAN against the specification: bit i of the stream *)
Lemma bit_of_byte_bits b k i : (i < k)%nat -> nth_error (byte_bits k b) i = Some ((b / 2 ^ N.of_nat i) mod 2).
Proof.
  revert b i. induction k; intros b i H; [lia|]. cbn [byte_bits]. destruct i as [|i].
  - cbn [nth_error N.of_nat]. change 1 with (N.ones 1) at 1. rewrite N.land_ones, N.pow_0_r, N.div_1_r. reflexivity.
  - cbn [nth_error]. rewrite IHk by lia. rewrite N.shiftr_div_pow2, Nat2N.inj_succ, N.pow_succ_r', N.pow_1_r.
    rewrite N.div_div by (try discriminate; apply N.pow_nonzero; discriminate). reflexivity.
Qed.

(** ** C08: never-fault lemmas.  The declared output capacity of every PLAIN decoder is [count] elements and the
       model writes exactly the values it returns. *)
Lemma read_fixed_no_fault k n bs : (k * n <= length bs)%nat -> exists vs, read_fixed k n bs = Ok vs /\ length vs = n.
Proof.
  revert bs. induction n; intros bs H; [exists []; split; reflexivity|].
  cbn [read_fixed]. rewrite take_some by lia.
  destruct (IHn (skipn k bs)) as [vs [E L]]; [rewrite skipn_length; lia|].
  rewrite E. eexists; split; [reflexivity|]. cbn [length]. rewrite L. reflexivity.
Qed.

Lemma div_le_mul a b c : b <> 0 -> c <= a / b -> c * b <= a.
Proof. intros Hb H. pose proof (N.mul_div_le a b Hb). nia. Qed.

Theorem plain_fixed_never_faults k bs count : forall f, dec_fixed k bs count <> Fault f.
Proof.
  intros f. unfold dec_fixed. destruct (N.eq_dec (N.of_nat k) 0) as [Z|NZ].
  - assert (k = 0)%nat as -> by lia.
    destruct (_ <? count); [discriminate|].
    assert (G : forall n bs, read_fixed 0 n bs = Ok (repeat 0 n)).
    { clear. induction n; intros bs; cbn [read_fixed take repeat]; [reflexivity|]. rewrite IHn. reflexivity. }
    rewrite G. discriminate.
  - destruct (len bs / N.of_nat k <? count) eqn:E; [discriminate|]. apply N.ltb_ge in E.
    pose proof (div_le_mul _ _ _ NZ E) as M.
    destruct (read_fixed_no_fault k (N.to_nat count) bs) as [vs [R _]]; [unfold len in M; nia|].
    rewrite R. discriminate.
Qed.

Theorem plain_fixed_result_size k bs count vs c : (0 < k)%nat -> dec_fixed k bs count = Ok (vs, c) ->
  len vs = count /\ c <= len bs.
Proof.
  unfold dec_fixed. intros Hk H.
  destruct (len bs / N.of_nat k <? count) eqn:E; [discriminate|]. apply N.ltb_ge in E.
  assert (NZ : N.of_nat k <> 0) by lia.
  pose proof (div_le_mul _ _ _ NZ E) as M.
  destruct (read_fixed_no_fault k (N.to_nat count) bs) as [vs' [R L]]; [unfold len in M; nia|].
  rewrite R in H. injection H as <- <-. split; [unfold len; rewrite L; lia|exact M].
Qed.

Theorem plain_int96_never_faults bs count : forall f, plain_decode_int96 bs count <> Fault f.
Proof.
  intros f. unfold plain_decode_int96.
  destruct (len bs / 12 <? count) eqn:E; [discriminate|]. apply N.ltb_ge in E.
  assert (NZ : 12 <> 0) by discriminate.
  pose proof (div_le_mul _ _ _ NZ E) as M.
  destruct (read_fixed_no_fault 4 (3 * N.to_nat count) bs) as [vs [R _]]; [unfold len in M; lia|].
  rewrite R. discriminate.
Qed.

Lemma byte_bits_length k x : length (byte_bits k x) = k.
Proof. revert x; induction k; intros; cbn [byte_bits length]; auto. Qed.

Lemma dec_bools_no_fault bs n : (n <= 8 * length bs)%nat -> exists vs, dec_bools bs n = Ok vs /\ length vs = n.
Proof.
  revert n. induction bs as [|b t IH]; intros n H.
  - cbn [length] in H. assert (n = O) as -> by lia. exists []. split; reflexivity.
  - destruct n as [|n]; [exists []; split; reflexivity|].
    change (dec_bools (b :: t) (S n)) with
      (match dec_bools t (S n - Nat.min 8 (S n)) with
       | Ok r => Ok (byte_bits (Nat.min 8 (S n)) b ++ r) | Err c => Err c | Fault f => Fault f end).
    destruct (IH (S n - Nat.min 8 (S n))%nat) as [vs [E L]]; [cbn [length] in H; lia|].
    rewrite E. eexists; split; [reflexivity|]. rewrite app_length, L, byte_bits_length. lia.
Qed.

Theorem plain_boolean_never_faults bs count : count < 2 ^ 63 -> forall f, plain_decode_boolean bs count <> Fault f.
Proof.
  intros B f. unfold plain_decode_boolean. rewrite size_t_small by lia.
  destruct (len bs <? (count + 7) / 8) eqn:E; [discriminate|]. apply N.ltb_ge in E.
  destruct (dec_bools_no_fault bs (N.to_nat count)) as [vs [R _]].
  - unfold len in E. pose proof (N.div_mod' (count + 7) 8) as D.
    pose proof (N.mod_lt (count + 7) 8 ltac:(discriminate)). lia.
  - rewrite R. discriminate.
Qed.

Lemma dec_bas_no_fault n bs f : dec_bas bs n <> Fault f.
Proof.
  revert bs. induction n; intros bs; [discriminate|]. cbn [dec_bas].
  destruct (len bs <? 4) eqn:E4; [discriminate|]. apply N.ltb_ge in E4.
  rewrite take_some by (unfold len in E4; lia).
  destruct ((2 ^ 31 <=? le_num_f (firstn 4 bs)) || (len (skipn 4 bs) <? le_num_f (firstn 4 bs))) eqn:E; [discriminate|].
  apply orb_false_elim in E. destruct E as [_ E2]. apply N.ltb_ge in E2.
  rewrite take_some by (unfold len in E2; lia).
  specialize (IHn (skipn (N.to_nat (le_num_f (firstn 4 bs))) (skipn 4 bs))).
  destruct (dec_bas _ n) as [[vs r]|c|e]; try discriminate.
  intros Q. apply IHn. injection Q as ->. reflexivity.
Qed.

Theorem plain_byte_array_never_faults bs count : forall f, plain_decode_byte_array bs count <> Fault f.
Proof.
  intros f. unfold plain_decode_byte_array. pose proof (dec_bas_no_fault (N.to_nat count) bs f) as H.
  destruct (dec_bas bs (N.to_nat count)) as [[vs r]|c|e]; try discriminate.
  intros Q. apply H. injection Q as ->. reflexivity.
Qed.

Theorem plain_flba_never_faults bs count flen : forall f, plain_decode_flba bs count flen <> Fault f.
Proof.
  intros f. unfold plain_decode_flba. destruct (N.eqb_spec flen 0) as [|NZ]; [discriminate|].
  destruct (len bs / flen <? count) eqn:E; [discriminate|]. apply N.ltb_ge in E.
  pose proof (div_le_mul _ _ _ NZ E) as M.
  rewrite take_some by (unfold len in M; lia). discriminate.
Qed.

(** ** C12 for BOOLEAN: model decoder and specification decoder read the same bits *)
Definition bit_at (bs : list N) (i : nat) : N := (nth (Nat.div i 8) bs 0 / 2 ^ N.of_nat (Nat.modulo i 8)) mod 2.

Lemma map_seq_shift {A} (f : nat -> A) a k n : map f (seq (a + k) n) = map (fun i => f (i + k)%nat) (seq a n).
Proof.
  revert a. induction n; intros a; [reflexivity|]. cbn [seq map]. f_equal. rewrite <- IHn. reflexivity.
Qed.

Lemma byte_bits_map k : forall b, byte_bits k b = map (fun i => (b / 2 ^ N.of_nat i) mod 2) (seq 0 k).
Proof.
  induction k; intros b; [reflexivity|]. cbn [byte_bits seq map]. f_equal.
  - change 1 with (N.ones 1) at 1. rewrite N.land_ones. cbn [N.of_nat]. rewrite N.pow_0_r, N.div_1_r. reflexivity.
  - rewrite IHk, <- seq_shift, map_map. apply map_ext. intros i.
    rewrite N.shiftr_div_pow2, Nat2N.inj_succ, N.pow_succ_r', N.pow_1_r.
    rewrite N.div_div by (try discriminate; apply N.pow_nonzero; discriminate). reflexivity.
Qed.

Lemma dec_bools_bits bs : forall n, (n <= 8 * length bs)%nat -> dec_bools bs n = Ok (map (bit_at bs) (seq 0 n)).
Proof.
  induction bs as [|b t IH]; intros n H.
  - cbn [length] in H. assert (n = O) as -> by lia. reflexivity.
  - destruct n as [|n]; [reflexivity|].
    change (dec_bools (b :: t) (S n)) with
      (match dec_bools t (S n - Nat.min 8 (S n)) with
       | Ok r => Ok (byte_bits (Nat.min 8 (S n)) b ++ r) | Err c => Err c | Fault f => Fault f end).
    set (k := Nat.min 8 (S n)). rewrite IH by (cbn [length] in H; lia).
    f_equal. replace (S n) with (k + (S n - k))%nat at 2 by lia. rewrite seq_app, map_app. f_equal.
    + rewrite byte_bits_map. apply map_ext_in. intros i Hi. apply in_seq in Hi. unfold bit_at.
      rewrite Nat.div_small, Nat.mod_small by lia. reflexivity.
    + destruct (Nat.le_gt_cases 8 (S n)) as [G|G].
      * replace k with 8%nat by lia. change (0 + 8)%nat with (0 + 8)%nat. rewrite (map_seq_shift (bit_at (b :: t)) 0 8).
        apply map_ext. intros i. unfold bit_at.
        replace (i + 8)%nat with (i + 1 * 8)%nat by lia. rewrite Nat.div_add, Nat.mod_add by lia.
        rewrite Nat.add_1_r. reflexivity.
      * replace (S n - k)%nat with O by lia. reflexivity.
Qed.

Lemma all_some_map {A B} (f : A -> option B) (g : A -> B) l : (forall x, In x l -> f x = Some (g x)) ->
  all_some (map f l) = Some (map g l).
Proof.
  induction l as [|x t IH]; intros H; [reflexivity|]. cbn [map all_some]. rewrite (H x (or_introl eq_refl)).
  rewrite IH by (intros y Hy; apply H; right; exact Hy). reflexivity.
Qed.

Lemma spec_bool_bits bs n : (n <= 8 * length bs)%nat ->
  spec_bool_dec n bs = Some (map (bit_at bs) (seq 0 n), skipn (Nat.div (n + 7) 8) bs).
Proof.
  intros H. unfold spec_bool_dec. rewrite (all_some_map (bit_of bs) (bit_at bs)); [reflexivity|].
  intros i Hi. apply in_seq in Hi. unfold bit_of, bit_at.
  assert (Hd : (Nat.div i 8 < length bs)%nat) by (apply Nat.div_lt_upper_bound; lia).
  rewrite (nth_error_nth' bs 0 Hd). reflexivity.
Qed.

Lemma spec_bool_enough bs n vs rest : spec_bool_dec n bs = Some (vs, rest) -> (n <= 8 * length bs)%nat.
Proof.
  unfold spec_bool_dec. destruct n as [|n]; [lia|]. intros H.
  destruct (all_some (map (bit_of bs) (seq 0 (S n)))) as [l|] eqn:A; [|discriminate].
  assert (G : forall l0 (f : nat -> option N) r, all_some (map f l0) = Some r -> forall x, In x l0 -> f x <> None).
  { clear. induction l0 as [|y t IH]; intros f r A x Hx; [contradiction|]. cbn [map all_some] in A.
    destruct (f y) eqn:Fy; [|discriminate]. destruct (all_some (map f t)) eqn:At; [|discriminate].
    destruct Hx as [->|Hx]; [rewrite Fy; discriminate|]. eapply IH; eassumption. }
  pose proof (G _ _ _ A n ltac:(apply in_seq; lia)) as Hn. unfold bit_of in Hn.
  destruct (nth_error bs (Nat.div n 8)) eqn:E; [|contradiction Hn; reflexivity].
  assert (Nat.div n 8 < length bs)%nat by (apply nth_error_Some; rewrite E; discriminate).
  pose proof (Nat.div_mod n 8 ltac:(lia)). pose proof (Nat.mod_upper_bound n 8 ltac:(lia)). lia.
Qed.

(** the decoder accepts every stream the reference decoder accepts *)
Theorem plain_boolean_decode_accepts n bs vs rest : N.of_nat n < 2 ^ 63 -> spec_bool_dec n bs = Some (vs, rest) ->
  plain_decode_boolean bs (N.of_nat n) = Ok (vs, (N.of_nat n + 7) / 8) /\ len bs = (N.of_nat n + 7) / 8 + len rest.
Proof.
  intros Hn H. pose proof (spec_bool_enough _ _ _ _ H) as En. rewrite (spec_bool_bits bs n En) in H. injection H as <- <-.
  unfold plain_decode_boolean. rewrite size_t_small by lia.
  assert (Ed : (N.of_nat n + 7) / 8 = N.of_nat (Nat.div (n + 7) 8)) by (rewrite Nat2N.inj_div, Nat2N.inj_add; reflexivity).
  assert (Hle : (Nat.div (n + 7) 8 <= length bs)%nat).
  { enough (Nat.div (n + 7) 8 < S (length bs))%nat by lia. apply Nat.div_lt_upper_bound; lia. }
  assert (E : (len bs <? (N.of_nat n + 7) / 8) = false) by (apply N.ltb_ge; rewrite Ed; unfold len; lia).
  rewrite E, Nat2N.id, dec_bools_bits by exact En. split; [reflexivity|].
  change (fst (Nat.divmod (n + 7) 7 0 7)) with (Nat.div (n + 7) 8).
  rewrite Ed. unfold len. rewrite skipn_length. remember (Nat.div (n + 7) 8) as q. lia.
Qed.

(** the encoder's output is read back by the reference decoder (as the truth values: any non-zero input byte is true) *)
Theorem plain_boolean_encode_conforms vs : len vs < 2 ^ 63 ->
  spec_bool_dec (length vs) (plain_encode_boolean vs) = Some (map truth vs, []).
Proof.
  intros Hl. pose proof (plain_roundtrip_boolean vs Hl) as R. unfold plain_decode_boolean in R.
  rewrite size_t_small in R by lia. pose proof (enc_bools_length (length vs) vs (le_n _)) as EL.
  fold (plain_encode_boolean vs) in EL. rewrite EL, N.ltb_irrefl, len_nat in R.
  assert (En : (length vs <= 8 * length (plain_encode_boolean vs))%nat).
  { unfold len in EL. pose proof (N.div_mod' (N.of_nat (length vs) + 7) 8). pose proof (N.mod_lt (N.of_nat (length vs) + 7) 8 ltac:(discriminate)). lia. }
  rewrite dec_bools_bits in R by exact En. injection R as R.
  rewrite spec_bool_bits by exact En. rewrite R. f_equal. f_equal.
  apply skipn_all2. unfold len in EL.
  assert (Ed : N.of_nat (Nat.div (length vs + 7) 8) = (N.of_nat (length vs) + 7) / 8) by (rewrite Nat2N.inj_div, Nat2N.inj_add; reflexivity).
  change (fst (Nat.divmod (length vs + 7) 7 0 7)) with (Nat.div (length vs + 7) 8).
  remember (Nat.div (length vs + 7) 8) as q. remember ((N.of_nat (length vs) + 7) / 8) as q'. lia.
Qed.
