(** Arithmetic lemmas for the DELTA_BINARY_PACKED proofs: 64-bit wrap-around, zig-zag, ULEB128, bit widths.
    (Support file of Enc/DeltaProofs.v; relates the shift/mask vocabulary of Enc/DeltaModel.v to the * + / mod
    vocabulary of Enc/DeltaSpec.v.) *)
From Coq Require Import NArith ZArith List Bool Lia ZifyBool ZifyNat ZifyN.
From Carquet Require Import Base.Res Base.Bits Enc.DeltaBits Enc.DeltaSpec Enc.DeltaModel.
Import ListNotations.
Local Open Scope N_scope.
Ltac Zify.zify_post_hook ::= Z.div_mod_to_equations.

Definition W64 : N := 2 ^ 64.
Lemma W64_eq : W64 = 18446744073709551616. Proof. reflexivity. Qed.
Global Opaque W64.

Lemma pow64 : 2 ^ 64 = W64. Proof. reflexivity. Qed.
Lemma W64_pos : 0 < W64. Proof. rewrite W64_eq. reflexivity. Qed.
Lemma W64_nz : W64 <> 0. Proof. rewrite W64_eq. discriminate. Qed.

Lemma u64_mod x : u64 x = x mod W64.
Proof. unfold u64, ones64. rewrite N.land_ones. reflexivity. Qed.

Lemma u64_lt x : u64 x < W64.
Proof. rewrite u64_mod. apply N.mod_lt. apply W64_nz. Qed.

Lemma u64_small x : x < W64 -> u64 x = x.
Proof. intros H. rewrite u64_mod. apply N.mod_small; exact H. Qed.

Lemma u32_mod x : u32 x = x mod 2 ^ 32.
Proof. unfold u32. rewrite N.land_ones. reflexivity. Qed.

Lemma ones64_eq : ones64 = W64 - 1.
Proof. unfold ones64. rewrite N.ones_equiv, pow64. lia. Qed.

Lemma sub64_mod a b : sub64 a b = (a + (W64 - b mod W64)) mod W64.
Proof. unfold sub64. rewrite !u64_mod, pow64. reflexivity. Qed.

Lemma sub64_lt a b : sub64 a b < W64.
Proof. unfold sub64. apply u64_lt. Qed.

(** a + (b - a) = b  modulo 2^64 *)
Lemma add_sub64 a b : a < W64 -> b < W64 -> u64 (a + sub64 b a) = b.
Proof.
  intros Ha Hb. rewrite sub64_mod, u64_mod, (N.mod_small a) by exact Ha.
  rewrite N.add_mod_idemp_r by apply W64_nz.
  replace (a + (b + (W64 - a))) with (b + 1 * W64) by lia.
  rewrite N.mod_add by apply W64_nz. apply N.mod_small; exact Hb.
Qed.

(** ** lor of disjoint ranges is addition *)
Lemma lor_add_shift x w k : x < 2 ^ k -> N.lor x (2 ^ k * w) = x + 2 ^ k * w.
Proof.
  intros Hx. rewrite (add_shift_lxor x w k Hx). symmetry. apply N.lxor_lor.
  apply N.bits_inj_iff; intro m. rewrite N.land_spec, N.bits_0.
  destruct (N.lt_ge_cases m k) as [L|G].
  - rewrite N.mul_comm, N.mul_pow2_bits_low by exact L. apply andb_false_r.
  - rewrite (testbit_high_lt x k m Hx G). reflexivity.
Qed.

(** ** zig-zag *)
Lemma lxor_ones64 a : a < W64 -> N.lxor a ones64 = W64 - 1 - a.
Proof.
  intros Ha. unfold ones64. change (N.lxor a (N.ones 64)) with (N.lnot a 64).
  destruct (N.eq_dec a 0) as [->|Hn].
  - rewrite N.lnot_0_l, N.ones_equiv, pow64. lia.
  - rewrite N.lnot_sub_low.
    + rewrite N.ones_equiv, pow64. lia.
    + apply N.log2_lt_pow2; [lia|rewrite pow64; exact Ha].
Qed.

Lemma zigzag_enc_val x : x < W64 ->
  zigzag_enc x = if x <? 2 ^ 63 then 2 * x else 2 * W64 - 1 - 2 * x.
Proof.
  intros Hx. unfold zigzag_enc. rewrite N.shiftl_mul_pow2, N.pow_1_r, u64_mod.
  assert (E63 : 2 ^ 63 * 2 = W64) by (rewrite W64_eq; reflexivity).
  destruct (x <? 2 ^ 63) eqn:E.
  - apply N.ltb_lt in E. rewrite N.lxor_0_r. rewrite N.mod_small by lia. lia.
  - apply N.ltb_ge in E.
    assert (M : (x * 2) mod W64 = x * 2 - W64).
    { symmetry. apply N.mod_unique with (q := 1); lia. }
    rewrite M, lxor_ones64 by lia. lia.
Qed.

Lemma zigzag_enc_lt x : x < W64 -> zigzag_enc x < W64.
Proof.
  intros Hx. rewrite zigzag_enc_val by exact Hx.
  assert (E63 : 2 ^ 63 * 2 = W64) by (rewrite W64_eq; reflexivity).
  destruct (x <? 2 ^ 63) eqn:E; [apply N.ltb_lt in E|apply N.ltb_ge in E]; lia.
Qed.

Lemma zigzag_dec_val n : n < W64 ->
  zigzag_dec n = if N.even n then n / 2 else W64 - 1 - n / 2.
Proof.
  intros Hn. unfold zigzag_dec. rewrite N.shiftr_div_pow2, N.pow_1_r.
  change 1 with (N.ones 1). rewrite N.land_ones, N.pow_1_r.
  assert (H2 : n / 2 < W64) by (apply N.div_lt_upper_bound; [discriminate|lia]).
  destruct (N.even n) eqn:Ev.
  - assert (n mod 2 = 0) as ->.
    { apply N.even_spec in Ev. destruct Ev as [k ->]. rewrite N.mul_comm. apply N.mod_mul. discriminate. }
    cbn. apply N.lxor_0_r.
  - assert (n mod 2 = 1) as ->.
    { assert (Od : N.odd n = true) by (rewrite <- N.negb_even, Ev; reflexivity).
      apply N.odd_spec in Od. destruct Od as [k ->].
      rewrite N.add_comm, N.mul_comm, N.mod_add by discriminate. reflexivity. }
    cbn. apply lxor_ones64; exact H2.
Qed.

Lemma zigzag_dec_lt n : n < W64 -> zigzag_dec n < W64.
Proof.
  intros Hn. rewrite zigzag_dec_val by exact Hn.
  assert (H2 : n / 2 < W64) by (apply N.div_lt_upper_bound; [discriminate|lia]).
  pose proof W64_pos. remember (n / 2) as h. destruct (N.even n); cbv beta iota; lia.
Qed.

(** congruence of a signed number with a 64-bit pattern *)
Definition zcong (z : Z) (p : N) : Prop := (z mod Z.of_N W64)%Z = Z.of_N p.

Lemma zcong_wrap z p : zcong z p -> wrap 64 z = p.
Proof.
  unfold zcong, wrap. intros H. change (2 ^ Z.of_N 64)%Z with (Z.of_N W64). rewrite H. apply N2Z.id.
Qed.

Lemma zcong_of_N p : p < W64 -> zcong (Z.of_N p) p.
Proof. intros H. unfold zcong. apply Z.mod_small. lia. Qed.

Lemma zcong_lt z p : zcong z p -> p < W64.
Proof.
  unfold zcong. intros H. pose proof (Z.mod_pos_bound z (Z.of_N W64)) as B.
  pose proof W64_pos. lia.
Qed.

Lemma zcong_add z1 p1 z2 p2 : zcong z1 p1 -> zcong z2 p2 -> zcong (z1 + z2) (u64 (p1 + p2)).
Proof.
  unfold zcong. intros H1 H2. rewrite u64_mod, N2Z.inj_mod, N2Z.inj_add, <- H1, <- H2.
  rewrite <- Z.add_mod by (pose proof W64_pos; lia). reflexivity.
Qed.

(** the spec's zig-zag decoding agrees with the model's, modulo 2^64 *)
Lemma unzigzag_cong n : n < W64 -> zcong (unzigzag n) (zigzag_dec n).
Proof.
  intros Hn. rewrite zigzag_dec_val by exact Hn. unfold unzigzag, zcong.
  assert (H2 : n / 2 < W64) by (apply N.div_lt_upper_bound; [discriminate|lia]).
  pose proof W64_pos as WP.
  destruct (N.even n) eqn:Ev.
  - apply Z.mod_small. lia.
  - assert (Od : N.odd n = true) by (rewrite <- N.negb_even, Ev; reflexivity).
    apply N.odd_spec in Od. destruct Od as [k Hk].
    assert (Hd : n / 2 = k).
    { rewrite Hk, N.add_comm, N.mul_comm, N.div_add by discriminate. reflexivity. }
    assert (Hd' : (n + 1) / 2 = k + 1).
    { rewrite Hk. replace (2 * k + 1 + 1) with ((k + 1) * 2) by lia. apply N.div_mul. discriminate. }
    rewrite Hd, Hd'. rewrite Hd in H2.
    symmetry. apply Z.mod_unique with (q := (-1)%Z); lia.
Qed.

(** the signed number the spec reads back from the model's zig-zag code is congruent to the pattern *)
Lemma unzigzag_enc_cong x : x < W64 -> zcong (unzigzag (zigzag_enc x)) x.
Proof.
  intros Hx. rewrite zigzag_enc_val by exact Hx. unfold unzigzag, zcong.
  assert (E63 : 2 ^ 63 * 2 = W64) by (rewrite W64_eq; reflexivity).
  pose proof W64_pos as WP.
  destruct (x <? 2 ^ 63) eqn:E.
  - apply N.ltb_lt in E. rewrite N.even_mul. cbn [N.even orb].
    rewrite N.mul_comm, N.div_mul by discriminate. apply Z.mod_small. lia.
  - apply N.ltb_ge in E.
    assert (Od : N.even (2 * W64 - 1 - 2 * x) = false).
    { replace (2 * W64 - 1 - 2 * x) with (2 * (W64 - 1 - x) + 1) by lia.
      rewrite N.even_add, N.even_mul. reflexivity. }
    rewrite Od. replace (2 * W64 - 1 - 2 * x + 1) with ((W64 - x) * 2) by lia.
    rewrite N.div_mul by discriminate.
    symmetry. apply Z.mod_unique with (q := (-1)%Z); lia.
Qed.

(** ** ULEB128 *)
Local Arguments N.mul : simpl never.
Local Arguments N.add : simpl never.
Local Arguments N.sub : simpl never.
Local Arguments N.pow : simpl never.
Local Arguments N.div : simpl never.
Local Arguments N.modulo : simpl never.
Local Arguments N.ltb : simpl never.

Lemma byte_flag_table :
  forallb (fun b => Bool.eqb (N.land b 128 =? 0) (b <? 128)) (map N.of_nat (seq 0 256)) = true.
Proof. vm_compute. reflexivity. Qed.

Lemma byte_flag b : b < 256 -> (N.land b 128 =? 0) = (b <? 128).
Proof.
  intros Hb. pose proof byte_flag_table as T. rewrite forallb_forall in T.
  apply Bool.eqb_prop. apply T. apply in_map_iff. exists (N.to_nat b). split; [apply N2Nat.id|].
  apply in_seq. lia.
Qed.

Lemma lor_flag a : a < 128 -> N.lor a 128 = a + 128.
Proof.
  intros Ha. change 128 with (2 ^ 7 * 1) at 1. rewrite lor_add_shift by (change (2 ^ 7) with 128; exact Ha).
  reflexivity.
Qed.

(** the spec reads back what the model writes *)
Lemma uleb_groups_enc fuel v rest : v < 2 ^ (7 * N.of_nat (S fuel)) ->
  uleb_groups (S fuel) (uleb_enc_f (S fuel) v ++ rest) = Some (v, rest).
Proof.
  revert v. induction fuel; intros v Hv.
  - change (2 ^ (7 * N.of_nat 1)) with 128 in Hv. apply N.ltb_lt in Hv.
    cbn [uleb_enc_f]. rewrite Hv. cbn [app uleb_groups]. rewrite Hv. reflexivity.
  - remember (S fuel) as f1. cbn [uleb_enc_f]. destruct (v <? 128) eqn:E.
    + cbn [app uleb_groups]. rewrite E. reflexivity.
    + apply N.ltb_ge in E. cbn [app uleb_groups].
      change 127 with (N.ones 7). rewrite N.land_ones. change (2 ^ 7) with 128.
      pose proof (N.mod_lt v 128 ltac:(discriminate)) as Hm.
      rewrite lor_flag by exact Hm.
      assert (F : (v mod 128 + 128 <? 128) = false) by (apply N.ltb_ge; lia). rewrite F.
      rewrite N.shiftr_div_pow2. change (2 ^ 7) with 128. subst f1. rewrite IHfuel.
      * f_equal. f_equal. pose proof (N.div_mod' v 128). lia.
      * rewrite Nat2N.inj_succ in Hv. replace (7 * N.succ (N.of_nat (S fuel))) with (7 + 7 * N.of_nat (S fuel)) in Hv by lia.
        rewrite N.pow_add_r in Hv. change (2 ^ 7) with 128 in Hv.
        apply N.div_lt_upper_bound; [discriminate|exact Hv].
Qed.

Lemma read_uleb_enc v rest : v < W64 -> read_uleb (uleb_enc v ++ rest) = Some (v, rest).
Proof.
  intros Hv. unfold read_uleb, uleb_enc. rewrite (uleb_groups_enc 9).
  - rewrite pow64. apply N.ltb_lt in Hv. rewrite Hv. reflexivity.
  - eapply N.lt_trans; [exact Hv|]. rewrite W64_eq. reflexivity.
Qed.

(** the model reads every number the spec reads *)
Lemma uleb_dec_groups fuel bs v r shift acc : bytes bs ->
  uleb_groups fuel bs = Some (v, r) -> acc < 2 ^ shift -> acc + 2 ^ shift * v < W64 ->
  uleb_dec_f fuel bs shift acc = Some (acc + 2 ^ shift * v, r).
Proof.
  revert bs v shift acc. induction fuel; intros bs v shift acc Hb H Ha Hv; [discriminate|].
  destruct bs as [|b t]; [discriminate|]. cbn [uleb_groups] in H. cbn [uleb_dec_f].
  inversion Hb as [|? ? Hb1 Hbt]; subst. unfold byte in Hb1.
  rewrite byte_flag by exact Hb1. change 127 with (N.ones 7). rewrite N.land_ones. change (2 ^ 7) with 128.
  rewrite N.shiftl_mul_pow2.
  destruct (b <? 128) eqn:E.
  - injection H as <- <-. apply N.ltb_lt in E. rewrite N.mod_small by exact E.
    rewrite u64_small by nia. rewrite (N.mul_comm b), lor_add_shift by exact Ha. reflexivity.
  - apply N.ltb_ge in E. destruct (uleb_groups fuel t) as [[v' r']|] eqn:G; [|discriminate].
    injection H as <- <-.
    assert (Em : b mod 128 = b - 128).
    { symmetry. apply N.mod_unique with (q := 1); lia. }
    rewrite Em. rewrite u64_small by nia. rewrite (N.mul_comm (b - 128)), lor_add_shift by exact Ha.
    rewrite (IHfuel t v' (shift + 7) (acc + 2 ^ shift * (b - 128))); try assumption.
    + f_equal. f_equal. rewrite N.pow_add_r. change (2 ^ 7) with 128. lia.
    + rewrite N.pow_add_r. change (2 ^ 7) with 128. nia.
    + rewrite N.pow_add_r. change (2 ^ 7) with 128. nia.
Qed.

Lemma uleb_dec_read bs v r : bytes bs -> read_uleb bs = Some (v, r) -> uleb_dec bs = Some (v, r).
Proof.
  intros Hb H. unfold read_uleb in H. destruct (uleb_groups 10 bs) as [[v' r']|] eqn:G; [|discriminate].
  destruct (v' <? 2 ^ 64) eqn:E; [|discriminate]. injection H as <- <-. apply N.ltb_lt in E. rewrite pow64 in E.
  unfold uleb_dec. rewrite (uleb_dec_groups 10 bs v' r' 0 0 Hb G); [|cbn; lia|cbn; lia].
  f_equal. f_equal. cbn. lia.
Qed.

Lemma uleb_groups_suffix fuel bs v r : uleb_groups fuel bs = Some (v, r) -> exists p, bs = p ++ r /\ p <> [].
Proof.
  revert bs v r. induction fuel; intros bs v r H; [discriminate|].
  destruct bs as [|b t]; [discriminate|]. cbn [uleb_groups] in H. destruct (b <? 128).
  - injection H as <- <-. exists [b]. split; [reflexivity|discriminate].
  - destruct (uleb_groups fuel t) as [[v' r']|] eqn:G; [|discriminate]. injection H as <- <-.
    destruct (IHfuel _ _ _ G) as [p [-> _]]. exists (b :: p). split; [reflexivity|discriminate].
Qed.

Lemma read_uleb_suffix bs v r : read_uleb bs = Some (v, r) -> exists p, bs = p ++ r /\ p <> [].
Proof.
  unfold read_uleb. intros H. destruct (uleb_groups 10 bs) as [[v' r']|] eqn:G; [|discriminate].
  destruct (v' <? 2 ^ 64); [|discriminate]. injection H as <- <-. eapply uleb_groups_suffix; exact G.
Qed.

Lemma read_uleb_lt bs v r : read_uleb bs = Some (v, r) -> v < W64.
Proof.
  unfold read_uleb. intros H. destruct (uleb_groups 10 bs) as [[v' r']|] eqn:G; [|discriminate].
  destruct (v' <? 2 ^ 64) eqn:E; [|discriminate]. injection H as <- <-. apply N.ltb_lt in E. rewrite pow64 in E. exact E.
Qed.

Lemma bytes_app_r (a b : list N) : bytes (a ++ b) -> bytes b.
Proof. unfold bytes. rewrite Forall_app. tauto. Qed.

Lemma bytes_app_l (a b : list N) : bytes (a ++ b) -> bytes a.
Proof. unfold bytes. rewrite Forall_app. tauto. Qed.

(** ** bit widths *)
Lemma bit_width_fits x : x < 2 ^ bit_width x.
Proof. apply N.size_gt. Qed.

Lemma bit_width_le x k : x < 2 ^ k -> bit_width x <= k.
Proof.
  intros H. unfold bit_width. destruct (N.eq_dec x 0) as [->|Hn]; [cbn; lia|].
  rewrite N.size_log2 by exact Hn. apply N.le_succ_l. apply N.log2_lt_pow2; [lia|exact H].
Qed.

Lemma fold_max_ge l : forall a x, (In x l \/ x <= a) -> x <= fold_left N.max l a.
Proof.
  induction l as [|y t IH]; intros a x H; cbn [fold_left].
  - destruct H as [[]|H]; exact H.
  - apply IH. destruct H as [[->|H]|H]; [right; lia|left; exact H|right; lia].
Qed.

Lemma fold_max_lt l k : forall a, a < k -> Forall (fun x => x < k) l -> fold_left N.max l a < k.
Proof.
  induction l as [|y t IH]; intros a Ha H; cbn [fold_left]; [exact Ha|].
  inversion H; subst. apply IH; [lia|assumption].
Qed.

Lemma mini_width_fits c : Forall (fun x => x < 2 ^ mini_width c) c.
Proof.
  apply Forall_forall. intros x Hx. unfold mini_width.
  eapply N.le_lt_trans; [apply (fold_max_ge c 0 x); left; exact Hx|apply bit_width_fits].
Qed.

Lemma mini_width_le c k : Forall (fun x => x < 2 ^ k) c -> mini_width c <= k.
Proof.
  intros H. unfold mini_width. apply bit_width_le. apply fold_max_lt; [|exact H].
  apply N.neq_0_lt_0. apply N.pow_nonzero. discriminate.
Qed.

Lemma mini_width_zero c : mini_width c = 0 -> Forall (fun x => x = 0) c.
Proof.
  intros H. pose proof (mini_width_fits c) as F. rewrite H in F. cbn in F.
  eapply Forall_impl; [|exact F]. cbn. intros; lia.
Qed.
