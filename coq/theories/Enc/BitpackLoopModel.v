(** Statement-by-statement mirror of the LOOPS of src/core/bitpack.c:

      carquet_bitunpack8_1bit .. carquet_bitunpack8_8bit   (unpack8_1bit .. unpack8_8bit, [unpack8_small])
      carquet_bitunpack8_32                                 ([unpack8_c]: width 0, the switch, the general loop [unpack8_gen])
      carquet_bitpack8_32                                   ([pack8_c]: width 0, width 8 byte copy, memset + scatter loop)

    BitpackModel.v describes the same two functions by a closed form; BitpackLoopProofs.v proves that the
    loops below compute that closed form (for every width 0..32 and every input).

    Conventions.  C [int] / [uint32_t] / [uint64_t] variables are [N]; a C expression that can wrap is
    written with its wrap ([mod 2^32], [mod 2^64], [mod 256] for a [(uint8_t)] cast).  Every array access
    is checked: [rd] gives [Fault OobRead] outside the input, [or_at] gives [Fault OobWrite] outside the
    output.  Every shift whose amount is a variable is checked against the width of its (promoted) type:
    [shl]/[shr] give [Fault ShiftTooWide] when the C shift would be undefined.  The two [while] loops take
    explicit fuel (5 and 4 rounds: enough for widths up to 32, proved in BitpackLoopProofs.v) and give
    [Fault OutOfFuel] when it runs out.  No proofs here. *)
From Coq Require Import NArith List Bool.
From Carquet Require Import Base.Res.
Import ListNotations.
Local Open Scope N_scope.
Local Open Scope res_scope.

(* ------------------------------------------------------------------ memory and machine arithmetic *)

(** p[i] *)
Definition rd (p : list N) (i : N) : res N :=
  match nth_error p (N.to_nat i) with Some b => Ok b | None => Fault OobRead end.

(** p[k] |= b   (k counted in [nat]: position in the list) *)
Fixpoint or_at_nat (out : list N) (k : nat) (b : N) : res (list N) :=
  match out, k with
  | [], _ => Fault OobWrite
  | x :: xs, O => Ok (N.lor x b :: xs)
  | x :: xs, S k' => let* xs' := or_at_nat xs k' b in Ok (x :: xs')
  end.
Definition or_at (out : list N) (k : N) (b : N) : res (list N) := or_at_nat out (N.to_nat k) b.

(** a << k and a >> k in an unsigned type of [width] bits; undefined in C when k >= width *)
Definition shl (width a k : N) : res N :=
  if k <? width then Ok (N.shiftl a k mod 2 ^ width) else Fault ShiftTooWide.
Definition shr (width a k : N) : res N :=
  if k <? width then Ok (N.shiftr a k) else Fault ShiftTooWide.

(** a << k with a CONSTANT k below the width (no check needed), a - b with unsigned wrap *)
Definition sl (width a k : N) : N := N.shiftl a k mod 2 ^ width.
Definition wsub (width a b : N) : N := (a + 2 ^ width - b mod 2 ^ width) mod 2 ^ width.

Definition u8 (x : N) : N := x mod 256.
Definition u16 (x : N) : N := x mod 2 ^ 16.
Definition u32 (x : N) : N := x mod 2 ^ 32.

Local Notation "a >> k" := (N.shiftr a k) (at level 30, no associativity).
Local Notation "a & m" := (N.land a m) (at level 35, no associativity).
Local Notation "a ||| b" := (N.lor a b) (at level 50, left associativity).

(* ------------------------------------------------------------------ read_leN *)

(** static inline uint16_t read_le16(p) { return (uint16_t)p[0] | ((uint16_t)p[1] << 8); }
    (the operands are promoted to int: a 32-bit shift; the result is converted to uint16_t) *)
Definition read_le16 (p : list N) : res N :=
  let* b0 := rd p 0 in let* b1 := rd p 1 in
  Ok (u16 (b0 ||| sl 32 b1 8)).

Definition read_le32 (p : list N) : res N :=
  let* b0 := rd p 0 in let* b1 := rd p 1 in let* b2 := rd p 2 in let* b3 := rd p 3 in
  Ok (b0 ||| sl 32 b1 8 ||| sl 32 b2 16 ||| sl 32 b3 24).

Definition read_le24 (p : list N) : res N :=
  let* b0 := rd p 0 in let* b1 := rd p 1 in let* b2 := rd p 2 in
  Ok (b0 ||| sl 32 b1 8 ||| sl 32 b2 16).

Definition read_le40 (p : list N) : res N :=
  let* b0 := rd p 0 in let* b1 := rd p 1 in let* b2 := rd p 2 in let* b3 := rd p 3 in
  let* b4 := rd p 4 in
  Ok (b0 ||| sl 64 b1 8 ||| sl 64 b2 16 ||| sl 64 b3 24 ||| sl 64 b4 32).

Definition read_le48 (p : list N) : res N :=
  let* b0 := rd p 0 in let* b1 := rd p 1 in let* b2 := rd p 2 in let* b3 := rd p 3 in
  let* b4 := rd p 4 in let* b5 := rd p 5 in
  Ok (b0 ||| sl 64 b1 8 ||| sl 64 b2 16 ||| sl 64 b3 24 ||| sl 64 b4 32 ||| sl 64 b5 40).

Definition read_le56 (p : list N) : res N :=
  let* b0 := rd p 0 in let* b1 := rd p 1 in let* b2 := rd p 2 in let* b3 := rd p 3 in
  let* b4 := rd p 4 in let* b5 := rd p 5 in let* b6 := rd p 6 in
  Ok (b0 ||| sl 64 b1 8 ||| sl 64 b2 16 ||| sl 64 b3 24 ||| sl 64 b4 32 ||| sl 64 b5 40 ||| sl 64 b6 48).

(* ------------------------------------------------------------------ the eight specialised unpackers *)

Definition unpack8_1bit (input : list N) : res (list N) :=
  let* byte := rd input 0 in
  Ok [ (byte >> 0) & 1; (byte >> 1) & 1; (byte >> 2) & 1; (byte >> 3) & 1;
       (byte >> 4) & 1; (byte >> 5) & 1; (byte >> 6) & 1; (byte >> 7) & 1 ].

Definition unpack8_2bit (input : list N) : res (list N) :=
  let* v := read_le16 input in
  Ok [ (v >> 0) & 0x3; (v >> 2) & 0x3; (v >> 4) & 0x3; (v >> 6) & 0x3;
       (v >> 8) & 0x3; (v >> 10) & 0x3; (v >> 12) & 0x3; (v >> 14) & 0x3 ].

Definition unpack8_3bit (input : list N) : res (list N) :=
  let* v := read_le24 input in
  Ok [ (v >> 0) & 0x7; (v >> 3) & 0x7; (v >> 6) & 0x7; (v >> 9) & 0x7;
       (v >> 12) & 0x7; (v >> 15) & 0x7; (v >> 18) & 0x7; (v >> 21) & 0x7 ].

Definition unpack8_4bit (input : list N) : res (list N) :=
  let* v := read_le32 input in
  Ok [ (v >> 0) & 0xF; (v >> 4) & 0xF; (v >> 8) & 0xF; (v >> 12) & 0xF;
       (v >> 16) & 0xF; (v >> 20) & 0xF; (v >> 24) & 0xF; (v >> 28) & 0xF ].

Definition unpack8_5bit (input : list N) : res (list N) :=
  let* v := read_le40 input in
  Ok [ u32 ((v >> 0) & 0x1F); u32 ((v >> 5) & 0x1F); u32 ((v >> 10) & 0x1F); u32 ((v >> 15) & 0x1F);
       u32 ((v >> 20) & 0x1F); u32 ((v >> 25) & 0x1F); u32 ((v >> 30) & 0x1F); u32 ((v >> 35) & 0x1F) ].

Definition unpack8_6bit (input : list N) : res (list N) :=
  let* v := read_le48 input in
  Ok [ u32 ((v >> 0) & 0x3F); u32 ((v >> 6) & 0x3F); u32 ((v >> 12) & 0x3F); u32 ((v >> 18) & 0x3F);
       u32 ((v >> 24) & 0x3F); u32 ((v >> 30) & 0x3F); u32 ((v >> 36) & 0x3F); u32 ((v >> 42) & 0x3F) ].

Definition unpack8_7bit (input : list N) : res (list N) :=
  let* v := read_le56 input in
  Ok [ u32 ((v >> 0) & 0x7F); u32 ((v >> 7) & 0x7F); u32 ((v >> 14) & 0x7F); u32 ((v >> 21) & 0x7F);
       u32 ((v >> 28) & 0x7F); u32 ((v >> 35) & 0x7F); u32 ((v >> 42) & 0x7F); u32 ((v >> 49) & 0x7F) ].

Definition unpack8_8bit (input : list N) : res (list N) :=
  let* v0 := rd input 0 in let* v1 := rd input 1 in let* v2 := rd input 2 in let* v3 := rd input 3 in
  let* v4 := rd input 4 in let* v5 := rd input 5 in let* v6 := rd input 6 in let* v7 := rd input 7 in
  Ok [v0; v1; v2; v3; v4; v5; v6; v7].

(** the switch of carquet_bitunpack8_32: [Some] = a case that returns, [None] = falls out of the switch *)
Definition unpack8_small (k : nat) (input : list N) : option (res (list N)) :=
  match k with
  | 1%nat => Some (unpack8_1bit input)
  | 2%nat => Some (unpack8_2bit input)
  | 3%nat => Some (unpack8_3bit input)
  | 4%nat => Some (unpack8_4bit input)
  | 5%nat => Some (unpack8_5bit input)
  | 6%nat => Some (unpack8_6bit input)
  | 7%nat => Some (unpack8_7bit input)
  | 8%nat => Some (unpack8_8bit input)
  | _ => None
  end.

(* ------------------------------------------------------------------ the general unpack loop *)

(** while (bits_needed > 0) { ... }   returns (bit_pos, byte_pos, bits) *)
Fixpoint unpack_while (fuel : nat) (input : list N)
         (bit_pos byte_pos bits bits_needed bits_in_buffer : N) : res (N * N * N) :=
  if bits_needed =? 0 then Ok (bit_pos, byte_pos, bits)
  else match fuel with
  | O => Fault OutOfFuel
  | S fuel' =>
    (* int bits_from_byte = 8 - (bit_pos % 8); if (bits_from_byte > bits_needed) bits_from_byte = bits_needed; *)
    let bits_from_byte := 8 - bit_pos mod 8 in
    let bits_from_byte := if bits_needed <? bits_from_byte then bits_needed else bits_from_byte in
    (* uint8_t byte_val = input[byte_pos]; int shift_down = bit_pos % 8; *)
    let* byte_val := rd input byte_pos in
    let shift_down := bit_pos mod 8 in
    (* uint64_t extracted = (byte_val >> shift_down) & ((1U << bits_from_byte) - 1); *)
    let* hi := shr 32 byte_val shift_down in
    let* one := shl 32 1 bits_from_byte in
    let extracted := hi & wsub 32 one 1 in
    (* bits |= extracted << bits_in_buffer; *)
    let* sh := shl 64 extracted bits_in_buffer in
    let bits := bits ||| sh in
    (* bit_pos += bits_from_byte; bits_in_buffer += bits_from_byte; bits_needed -= bits_from_byte; *)
    let bit_pos := bit_pos + bits_from_byte in
    let bits_in_buffer := bits_in_buffer + bits_from_byte in
    let bits_needed := bits_needed - bits_from_byte in
    (* if (bit_pos % 8 == 0) byte_pos++; *)
    let byte_pos := if bit_pos mod 8 =? 0 then byte_pos + 1 else byte_pos in
    unpack_while fuel' input bit_pos byte_pos bits bits_needed bits_in_buffer
  end.

Definition unpack_fuel : nat := 5.

(** for (int i = 0; i < 8; i++) { bits = 0; bits_needed = bit_width; bits_in_buffer = 0; while ...;
                                   values[i] = (uint32_t)(bits & mask); }         ([n] iterations left) *)
Fixpoint unpack_for (n : nat) (bit_width mask : N) (input : list N) (bit_pos byte_pos : N) : res (list N) :=
  match n with
  | O => Ok []
  | S n' =>
    let* st := unpack_while unpack_fuel input bit_pos byte_pos 0 bit_width 0 in
    let '(bit_pos', byte_pos', bits) := st in
    let v := u32 (bits & mask) in
    let* rest := unpack_for n' bit_width mask input bit_pos' byte_pos' in
    Ok (v :: rest)
  end.

(** uint32_t mask = (uint32_t)((1ULL << bit_width) - 1); int bit_pos = 0; int byte_pos = 0; for ... *)
Definition unpack8_gen (w : nat) (input : list N) : res (list N) :=
  let bit_width := N.of_nat w in
  let* one := shl 64 1 bit_width in
  let mask := u32 (wsub 64 one 1) in
  unpack_for 8 bit_width mask input 0 0.

(** carquet_bitunpack8_32(input, bit_width, values) *)
Definition unpack8_c (w : nat) (input : list N) : res (list N) :=
  match w with
  | O => Ok [0; 0; 0; 0; 0; 0; 0; 0]                 (* memset(values, 0, 8 * sizeof(uint32_t)); return; *)
  | _ => match unpack8_small w input with
         | Some r => r                               (* case 1 .. case 8: ...; return; *)
         | None => unpack8_gen w input
         end
  end.

(* ------------------------------------------------------------------ the pack loop *)

(** while (bits_written < bit_width) { output[byte_pos] |= (uint8_t)val; val >>= 8; bits_written += 8; byte_pos++; } *)
Fixpoint pack_while (fuel : nat) (bit_width : N) (out : list N) (val bits_written byte_pos : N) : res (list N) :=
  if bits_written <? bit_width then
    match fuel with
    | O => Fault OutOfFuel
    | S fuel' =>
      let* out := or_at out byte_pos (u8 val) in
      let val := val >> 8 in
      pack_while fuel' bit_width out val (bits_written + 8) (byte_pos + 1)
    end
  else Ok out.

Definition pack_fuel : nat := 4.

(** the body of the for loop for one value [v = values[i]] at [bit_pos] *)
Definition pack_value (bit_width mask : N) (v : N) (out : list N) (bit_pos : N) : res (list N) :=
  (* uint32_t val = values[i] & mask; int byte_pos = bit_pos / 8; int bit_offset = bit_pos % 8; *)
  let val := v & mask in
  let byte_pos := bit_pos / 8 in
  let bit_offset := bit_pos mod 8 in
  (* output[byte_pos] |= (uint8_t)(val << bit_offset); *)
  let* sh := shl 32 val bit_offset in
  let* out := or_at out byte_pos (u8 sh) in
  (* int bits_written = 8 - bit_offset; *)
  let bits_written := 8 - bit_offset in
  (* if (bits_written < bit_width) { val >>= bits_written; byte_pos++; while ... } *)
  if bits_written <? bit_width then
    let* val := shr 32 val bits_written in
    pack_while pack_fuel bit_width out val bits_written (byte_pos + 1)
  else Ok out.

(** for (int i = 0; i < 8; i++) { ...; bit_pos += bit_width; }     ([n] iterations left, at index [i]) *)
Fixpoint pack_for (n : nat) (i : N) (bit_width mask : N) (values out : list N) (bit_pos : N) : res (list N) :=
  match n with
  | O => Ok out
  | S n' =>
    let* v := rd values i in
    let* out := pack_value bit_width mask v out bit_pos in
    pack_for n' (i + 1) bit_width mask values out (bit_pos + bit_width)
  end.

(** for (int i = 0; i < 8; i++) output[i] = (uint8_t)values[i]; *)
Fixpoint pack_copy (n : nat) (i : N) (values : list N) : res (list N) :=
  match n with
  | O => Ok []
  | S n' => let* v := rd values i in
            let* rest := pack_copy n' (i + 1) values in
            Ok (u8 v :: rest)
  end.

(** carquet_bitpack8_32(values, bit_width, output): the bytes written to output[0 .. bit_width) *)
Definition pack8_c (w : nat) (values : list N) : res (list N) :=
  match w with
  | O => Ok []                                       (* return; *)
  | 8%nat => pack_copy 8 0 values
  | _ =>
    let bit_width := N.of_nat w in
    let out := repeat 0 w in                         (* memset(output, 0, bit_width); *)
    let* one := shl 64 1 bit_width in
    let mask := u32 (wsub 64 one 1) in               (* (uint32_t)((1ULL << bit_width) - 1) *)
    pack_for 8 0 bit_width mask values out 0
  end.
