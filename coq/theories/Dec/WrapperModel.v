(** carquet_gzip_decompress / carquet_zstd_decompress (src/compression/gzip.c, zstd.c): thin wrappers
    around zlib's inflate and libzstd's ZSTD_decompressDCtx / ZSTD_decompress.

    PARTIAL BY CONSTRUCTION.  zlib and libzstd are not modelled: they are Section variables, and the only
    things assumed about them are Section hypotheses (named in the trusted base of C08):
      - [inflate_fits]  : inflate stores at most avail_out bytes and total_out is the number stored;
      - [zstd_fits]     : ZSTD_decompress* stores at most dstCapacity bytes, and a non-error return value is
                          the number of bytes stored.
    What is PROVED is what carquet adds around them: the NULL-argument tests come before anything is
    touched, the sizes handed to the library never exceed the caller's (the (uInt) truncation of gzip.c
    included), the status mapping, and that a reported size never exceeds the capacity.

    An outcome is the status with the reported *dst_size, plus the bytes stored at dst[0 ..] (stored even when
    the call then fails: the property allows writes inside the declared output). *)
From Coq Require Import NArith ZArith List Bool Lia ZifyBool ZifyN.
From Carquet Require Import Base.Res Gen.Enums_gen.
Import ListNotations.
Local Open Scope N_scope.

Definition nlen {A} (l : list A) : N := N.of_nat (length l).

Record outcome : Type := mkout { o_status : res N; o_stored : list N }.

Definition Z_OK : Z := 0%Z.
Definition Z_STREAM_END : Z := 1%Z.
Definition uInt (x : N) : N := x mod 2 ^ 32.

Section Gzip.
  (** inflateInit2(&strm, 15 + 16): Z_OK or an error (memory, version) *)
  Variable inflate_init : Z.
  (** inflate(&strm, Z_FINISH) on next_in[0 .. avail_in) with avail_out bytes of room:
      (return code, bytes stored at next_out[0 ..]) ; total_out = number of bytes stored *)
  Variable inflate : list N -> N -> Z * list N.
  Hypothesis inflate_fits : forall s avail, nlen (snd (inflate s avail)) <= avail.

  (** src = None models a NULL pointer; dst_null / size_null the other two pointer arguments *)
  Definition gzip_decompress (src : option (list N)) (dst_null size_null : bool) (cap : N) : outcome :=
    match src with
    | None => mkout (Err E_CARQUET_ERROR_INVALID_ARGUMENT) []
    | Some s =>
      if dst_null || size_null then mkout (Err E_CARQUET_ERROR_INVALID_ARGUMENT) []
      else
        let avail_in := uInt (nlen s) in                       (* strm.avail_in = (uInt)src_size *)
        let avail_out := uInt cap in                           (* strm.avail_out = (uInt)dst_capacity *)
        if negb (inflate_init =? Z_OK)%Z then mkout (Err E_CARQUET_ERROR_INVALID_COMPRESSED_DATA) []
        else
          let '(ret, stored) := inflate (firstn (N.to_nat avail_in) s) avail_out in
          if (ret =? Z_STREAM_END)%Z then mkout (Ok (nlen stored)) stored       (* *dst_size = strm.total_out *)
          else mkout (Err E_CARQUET_ERROR_INVALID_COMPRESSED_DATA) stored
    end.

  Lemma uInt_le x : uInt x <= x.
  Proof. unfold uInt. apply N.mod_le. discriminate. Qed.

  (** writes only within the declared output, whatever the outcome *)
  Theorem gzip_stored_within_capacity : forall src dn sn cap,
    nlen (o_stored (gzip_decompress src dn sn cap)) <= cap.
  Proof.
    intros src dn sn cap. unfold gzip_decompress.
    destruct src as [s|]; [|cbn; lia].
    destruct (dn || sn); [cbn; lia|].
    destruct (negb (inflate_init =? Z_OK)%Z); [cbn; lia|].
    pose proof (inflate_fits (firstn (N.to_nat (uInt (nlen s))) s) (uInt cap)) as F.
    pose proof (uInt_le cap).
    destruct (inflate (firstn (N.to_nat (uInt (nlen s))) s) (uInt cap)) as [ret stored]. cbn [snd] in F.
    destruct (ret =? Z_STREAM_END)%Z; cbn [o_stored]; lia.
  Qed.

  (** the reported size is the number of bytes stored and does not exceed the capacity *)
  Theorem gzip_reported_size_le_capacity : forall src dn sn cap n,
    o_status (gzip_decompress src dn sn cap) = Ok n ->
    n = nlen (o_stored (gzip_decompress src dn sn cap)) /\ n <= cap.
  Proof.
    intros src dn sn cap n H. pose proof (gzip_stored_within_capacity src dn sn cap) as W.
    unfold gzip_decompress in *.
    destruct src as [s|]; [|discriminate].
    destruct (dn || sn); [discriminate|].
    destruct (negb (inflate_init =? Z_OK)%Z); [discriminate|].
    destruct (inflate (firstn (N.to_nat (uInt (nlen s))) s) (uInt cap)) as [ret stored].
    destruct (ret =? Z_STREAM_END)%Z; [|discriminate].
    cbn [o_status o_stored] in *. injection H as <-. split; [reflexivity|exact W].
  Qed.

  (** reads only within the input: the library is handed a prefix of the source, never more *)
  Theorem gzip_input_within_source : forall s : list N, (N.to_nat (uInt (nlen s)) <= length s)%nat.
  Proof. intros s. pose proof (uInt_le (nlen s)). unfold nlen in *. lia. Qed.

  (** no write (and no library call) before the argument tests *)
  Theorem gzip_null_argument : forall src dn sn cap, src = None \/ dn = true \/ sn = true ->
    gzip_decompress src dn sn cap = mkout (Err E_CARQUET_ERROR_INVALID_ARGUMENT) [].
  Proof.
    intros src dn sn cap H. unfold gzip_decompress. destruct src as [s|]; [|reflexivity].
    destruct H as [H|[->| ->]]; [discriminate| |]; [reflexivity|rewrite orb_true_r; reflexivity].
  Qed.

  (** status mapping: success exactly when zlib initialised and reported the end of the stream *)
  Theorem gzip_status_mapping : forall s cap,
    (exists n, o_status (gzip_decompress (Some s) false false cap) = Ok n) <->
    (inflate_init = Z_OK /\ fst (inflate (firstn (N.to_nat (uInt (nlen s))) s) (uInt cap)) = Z_STREAM_END).
  Proof.
    intros s cap. unfold gzip_decompress. cbn [orb].
    destruct (Z.eqb_spec inflate_init Z_OK) as [E|NE]; cbn [negb].
    - destruct (inflate (firstn (N.to_nat (uInt (nlen s))) s) (uInt cap)) as [ret stored]. cbn [fst].
      destruct (Z.eqb_spec ret Z_STREAM_END) as [E2|NE2]; cbn [o_status].
      + split; [intros _; split; assumption|intros _; eauto].
      + split; [intros [n H]; discriminate|intros [_ H]; contradiction].
    - cbn [o_status]. split; [intros [n H]; discriminate|intros [H _]; contradiction].
  Qed.

  (** every failure is one of the two documented codes, never a fault *)
  Theorem gzip_never_faults : forall src dn sn cap f, o_status (gzip_decompress src dn sn cap) <> Fault f.
  Proof.
    intros src dn sn cap f. unfold gzip_decompress.
    destruct src as [s|]; [|discriminate]. destruct (dn || sn); [discriminate|].
    destruct (negb (inflate_init =? Z_OK)%Z); [discriminate|].
    destruct (inflate _ _) as [ret stored]. destruct (ret =? Z_STREAM_END)%Z; discriminate.
  Qed.
End Gzip.

Section Zstd.
  (** get_dctx(): does the thread have / get a ZSTD_DCtx *)
  Variable have_dctx : bool.
  (** ZSTD_decompressDCtx / ZSTD_decompress (dst, dstCapacity, src, srcSize) -> (return value, bytes stored) *)
  Variable zstd_decompress : bool -> list N -> N -> N * list N.
  Variable zstd_is_error : N -> bool.
  Hypothesis zstd_fits : forall c s cap, nlen (snd (zstd_decompress c s cap)) <= cap.
  Hypothesis zstd_size : forall c s cap, zstd_is_error (fst (zstd_decompress c s cap)) = false ->
    fst (zstd_decompress c s cap) = nlen (snd (zstd_decompress c s cap)).

  Definition zstd_decompress_wrapper (src : option (list N)) (dst_null size_null : bool) (cap : N) : outcome :=
    match src with
    | None => mkout (Err E_CARQUET_ERROR_INVALID_ARGUMENT) []
    | Some s =>
      if dst_null || size_null then mkout (Err E_CARQUET_ERROR_INVALID_ARGUMENT) []
      else
        let '(r, stored) := zstd_decompress have_dctx s cap in     (* both branches map the result alike *)
        if zstd_is_error r then mkout (Err E_CARQUET_ERROR_INVALID_COMPRESSED_DATA) stored
        else mkout (Ok r) stored
    end.

  Theorem zstd_stored_within_capacity : forall src dn sn cap,
    nlen (o_stored (zstd_decompress_wrapper src dn sn cap)) <= cap.
  Proof.
    intros src dn sn cap. unfold zstd_decompress_wrapper.
    destruct src as [s|]; [|cbn; lia]. destruct (dn || sn); [cbn; lia|].
    pose proof (zstd_fits have_dctx s cap) as F.
    destruct (zstd_decompress have_dctx s cap) as [r stored]. cbn [snd] in F.
    destruct (zstd_is_error r); cbn [o_stored]; exact F.
  Qed.

  Theorem zstd_reported_size_le_capacity : forall src dn sn cap n,
    o_status (zstd_decompress_wrapper src dn sn cap) = Ok n ->
    n = nlen (o_stored (zstd_decompress_wrapper src dn sn cap)) /\ n <= cap.
  Proof.
    intros src dn sn cap n H. unfold zstd_decompress_wrapper in *.
    destruct src as [s|]; [|discriminate]. destruct (dn || sn); [discriminate|].
    pose proof (zstd_fits have_dctx s cap) as F. pose proof (zstd_size have_dctx s cap) as S.
    destruct (zstd_decompress have_dctx s cap) as [r stored]. cbn [fst snd] in *.
    destruct (zstd_is_error r) eqn:E; [discriminate|].
    cbn [o_status o_stored] in *. injection H as <-. rewrite (S eq_refl). split; [reflexivity|exact F].
  Qed.

  Theorem zstd_null_argument : forall src dn sn cap, src = None \/ dn = true \/ sn = true ->
    zstd_decompress_wrapper src dn sn cap = mkout (Err E_CARQUET_ERROR_INVALID_ARGUMENT) [].
  Proof.
    intros src dn sn cap H. unfold zstd_decompress_wrapper. destruct src as [s|]; [|reflexivity].
    destruct H as [H|[->| ->]]; [discriminate| |]; [reflexivity|rewrite orb_true_r; reflexivity].
  Qed.

  Theorem zstd_never_faults : forall src dn sn cap f, o_status (zstd_decompress_wrapper src dn sn cap) <> Fault f.
  Proof.
    intros src dn sn cap f. unfold zstd_decompress_wrapper.
    destruct src as [s|]; [|discriminate]. destruct (dn || sn); [discriminate|].
    destruct (zstd_decompress have_dctx s cap) as [r stored]. destruct (zstd_is_error r); discriminate.
  Qed.
End Zstd.

(** the three safety clauses together, with the assumptions about the libraries as premises *)
Theorem gzip_decompress_safe : forall (inflate_init : Z) (inflate : list N -> N -> Z * list N),
  (forall s avail, nlen (snd (inflate s avail)) <= avail) ->
  forall src dst_null size_null cap,
    (forall f, o_status (gzip_decompress inflate_init inflate src dst_null size_null cap) <> Fault f) /\
    nlen (o_stored (gzip_decompress inflate_init inflate src dst_null size_null cap)) <= cap /\
    (forall n, o_status (gzip_decompress inflate_init inflate src dst_null size_null cap) = Ok n -> n <= cap).
Proof.
  intros ii inf Hfit src dn sn cap. split; [|split].
  - intros f. apply gzip_never_faults.
  - apply gzip_stored_within_capacity; assumption.
  - intros n H. exact (proj2 (gzip_reported_size_le_capacity ii inf Hfit src dn sn cap n H)).
Qed.

Theorem zstd_decompress_safe : forall (have_dctx : bool) (zstd : bool -> list N -> N -> N * list N) (is_error : N -> bool),
  (forall c s cap, nlen (snd (zstd c s cap)) <= cap) ->
  (forall c s cap, is_error (fst (zstd c s cap)) = false -> fst (zstd c s cap) = nlen (snd (zstd c s cap))) ->
  forall src dst_null size_null cap,
    (forall f, o_status (zstd_decompress_wrapper have_dctx zstd is_error src dst_null size_null cap) <> Fault f) /\
    nlen (o_stored (zstd_decompress_wrapper have_dctx zstd is_error src dst_null size_null cap)) <= cap /\
    (forall n, o_status (zstd_decompress_wrapper have_dctx zstd is_error src dst_null size_null cap) = Ok n -> n <= cap).
Proof.
  intros hd z ie Hfit Hsz src dn sn cap. split; [|split].
  - intros f. apply zstd_never_faults.
  - apply zstd_stored_within_capacity; assumption.
  - intros n H. exact (proj2 (zstd_reported_size_le_capacity hd z ie Hfit Hsz src dn sn cap n H)).
Qed.

(** the hypotheses are satisfiable: a "library" that stores a prefix of its input and reports the end *)
Example gzip_hypotheses_satisfiable :
  let inflate := fun (s : list N) (avail : N) => (Z_STREAM_END, firstn (N.to_nat avail) s) in
  (forall s avail, nlen (snd (inflate s avail)) <= avail) /\
  o_status (gzip_decompress Z_OK inflate (Some [1; 2; 3]) false false 2) = Ok 2.
Proof.
  split; [|vm_compute; reflexivity].
  intros s avail. cbn [snd]. unfold nlen. rewrite firstn_length. lia.
Qed.
