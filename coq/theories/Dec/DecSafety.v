(** C08 lemmas proved on top of the component owners' models (their files are not edited):

    A. RLE hybrid (Enc/RleModel.v, the lead's model of the streaming decoder and decode_all).  That model walks the
       unread input as a list, so a read outside the input cannot even be expressed (every bounds test of the C
       code is a length test, [fill] maps the checked [unpack8] to the error status); what C08 adds is
         - capacity:     get_batch / decode_all never deliver more than was asked for   (get_batch_length, ...)
         - termination:  the fuel the model passes (S want for the batch loop, S |rest| for the empty-run loop)
                         is never what stops it - any larger fuel gives the same result   (get_batch_fuel, ...)
       and the entry point with the width guard of commit cf4f4e1 ([rle_decode_all]).
    B. dictionary decode (Enc/DictModel.v is parameterised by the index codec): instantiated with A.
    C. PLAIN / BYTE_STREAM_SPLIT entry points with the division-based count tests of commits f5fdb06 / 978a258
       in front of the owners' models: the overflow precondition of their never-fault theorems becomes
       "the input is a real object (shorter than 2^64 bytes)". *)
From Coq Require Import NArith ZArith Arith List Bool Lia ZifyBool ZifyNat ZifyN.
From Carquet Require Import Base.Res Enc.BitpackModel Enc.RleModel Enc.RleSafety Enc.DictModel Enc.DictRleInst.
From Carquet Require Comp.CompBase Comp.CompMem Comp.SnappySpec Comp.SnappyModel Comp.SnappyProofs Comp.Lz4Spec Comp.Lz4Model Comp.Lz4Proofs.
Import ListNotations.
Local Open Scope N_scope.

Arguments N.mul : simpl never.
Arguments N.add : simpl never.
Arguments N.sub : simpl never.
Arguments N.shiftl : simpl never.
Arguments N.shiftr : simpl never.
Arguments N.land : simpl never.
Arguments N.lor : simpl never.
Arguments N.of_nat : simpl never.
Arguments N.to_nat : simpl never.
Arguments unpack8 : simpl never.
Arguments vbytes : simpl never.
Arguments value_mask : simpl never.
Arguments Nat.sub : simpl never.

(* ================================================================== A. RLE hybrid *)

Lemma read_varint_shorter : forall fuel shift acc bs h tl,
  read_varint fuel shift acc bs = Some (h, tl) -> (length tl < length bs)%nat.
Proof.
  induction fuel as [|f IH]; intros shift acc bs h tl H; cbn [read_varint] in H; [discriminate|].
  destruct bs as [|b bs']; [discriminate|].
  destruct (N.land b 128 =? 0).
  - injection H as _ <-. cbn [length]. lia.
  - apply IH in H. cbn [length]. lia.
Qed.

(** start_new_run: success leaves a non-empty run *)
Lemma start_new_run_rem : forall fuel w d, snd (start_new_run fuel w d) = true ->
  0 < d_rem (fst (start_new_run fuel w d)).
Proof.
  induction fuel as [|f IH]; intros w d H; cbn [start_new_run] in *; [discriminate|].
  destruct (d_rest d) as [|b0 r0] eqn:Er; [discriminate|].
  destruct (read_varint 5 0 0 (b0 :: r0)) as [[header tl]|]; [|discriminate].
  destruct (N.land header 1 =? 0).
  - destruct (Nat.ltb (length tl) (vbytes w)); [discriminate|].
    destruct (N.eqb_spec (N.shiftr header 1) 0) as [E|NE].
    + apply IH. exact H.
    + cbn [fst snd d_rem] in *. lia.
  - destruct (N.eqb_spec (N.shiftr header 1) 0) as [E|NE].
    + apply IH. exact H.
    + cbn [fst snd d_rem] in *. lia.
Qed.

(** the empty-run loop consumes at least one byte per round: any fuel above the number of unread bytes
    gives the same answer, so the model's S |rest| is never what stops it *)
Lemma start_new_run_fuel : forall f1 f2 w d, (length (d_rest d) < f1)%nat -> (length (d_rest d) < f2)%nat ->
  start_new_run f1 w d = start_new_run f2 w d.
Proof.
  induction f1 as [|f1 IH]; intros f2 w d H1 H2; [lia|].
  destruct f2 as [|f2]; [lia|]. cbn [start_new_run].
  destruct (d_rest d) as [|b0 r0] eqn:Er; [reflexivity|].
  destruct (read_varint 5 0 0 (b0 :: r0)) as [[header tl]|] eqn:Ev; [|reflexivity].
  apply read_varint_shorter in Ev.
  destruct (N.land header 1 =? 0).
  - destruct (Nat.ltb_spec (length tl) (vbytes w)) as [L|G]; [reflexivity|].
    destruct (N.shiftr header 1 =? 0); [|reflexivity].
    apply IH; cbn [d_rest]; rewrite skipn_length; lia.
  - destruct (N.shiftr header 1 =? 0); [|reflexivity].
    apply IH; cbn [d_rest]; lia.
Qed.

Lemma nmin_le want avail : (nmin want avail <= want)%nat.
Proof. unfold nmin. destruct (N.leb_spec (N.of_nat want) avail); lia. Qed.

Lemma nmin_pos want avail : (0 < want)%nat -> 0 < avail -> (0 < nmin want avail)%nat.
Proof. intros H1 H2. unfold nmin. destruct (N.leb_spec (N.of_nat want) avail); lia. Qed.

Lemma unpack8_len w l g : unpack8 w l = Ok g -> length g = 8%nat.
Proof.
  unfold unpack8. destruct (Nat.ltb (length l) w); [discriminate|].
  intros H. injection H as H. subst g. reflexivity.
Qed.

(** inside a run: at most [want] values, and at least one when the pass goes on *)
Lemma run_iter_bounds w d want out d1 go : (0 < want)%nat -> 0 < d_rem d ->
  run_iter w d want = (out, d1, go) ->
  (length out <= want)%nat /\ (go = true -> (1 <= length out)%nat).
Proof.
  intros Hw Hr. unfold run_iter. destruct (d_rle d).
  - intros H. injection H as <- _ <-. rewrite repeat_length.
    split; [apply nmin_le|]. intros _. apply nmin_pos; assumption.
  - destruct (d_buf d) as [|x xs] eqn:Eb.
    + unfold fill. destruct (unpack8 w (d_rest d)) as [g| |] eqn:Eu.
      * cbn [negb]. unfold lit_take. cbn [d_buf d_rem]. intros H. injection H as <- _ <-.
        apply unpack8_len in Eu. rewrite firstn_length, Eu.
        pose proof (nmin_le want (d_rem d)). pose proof (nmin_pos want (d_rem d) Hw Hr). split; [lia|]. intros _. lia.
      * cbn [negb]. intros H. injection H as <- _ <-. cbn [length]. split; [lia|discriminate].
      * cbn [negb]. intros H. injection H as <- _ <-. cbn [length]. split; [lia|discriminate].
    + cbn [negb]. unfold lit_take. rewrite Eb. intros H. injection H as <- _ <-.
      rewrite firstn_length. cbn [length].
      pose proof (nmin_le want (d_rem d)). pose proof (nmin_pos want (d_rem d) Hw Hr). split; [lia|]. intros _. lia.
Qed.

Lemma batch_iter_bounds w d want out d1 go : (0 < want)%nat ->
  batch_iter w d want = (out, d1, go) ->
  (length out <= want)%nat /\ (go = true -> (1 <= length out)%nat).
Proof.
  intros Hw. unfold batch_iter. destruct (N.eqb_spec (d_rem d) 0) as [E0|NE0].
  - destruct (start_new_run (S (length (d_rest d))) w d) as [d0 ok] eqn:Es.
    destruct ok; cbn [negb].
    + intros H. eapply run_iter_bounds; [exact Hw| |exact H].
      pose proof (start_new_run_rem (S (length (d_rest d))) w d) as P. rewrite Es in P. exact (P eq_refl).
    + intros H. injection H as <- _ <-. cbn [length]. split; [lia|discriminate].
  - cbn [negb]. intros H. eapply run_iter_bounds; [exact Hw| |exact H]. lia.
Qed.

(** capacity: carquet_rle_decoder_get_batch stores at most [count] values *)
Theorem get_batch_length : forall fuel w d want, (length (fst (get_batch fuel w d want)) <= want)%nat.
Proof.
  induction fuel as [|f IH]; intros w d want; cbn [get_batch]; [cbn; lia|].
  destruct (Nat.eqb_spec want 0) as [->|Hw]; [cbn; lia|].
  destruct (has_next d); cbn [negb]; [|cbn; lia].
  destruct (batch_iter w d want) as [[out d1] go] eqn:Eb.
  destruct (batch_iter_bounds w d want out d1 go ltac:(lia) Eb) as [B1 B2].
  destruct go; cbn [negb].
  - specialize (IH w d1 (want - length out)%nat).
    destruct (get_batch f w d1 (want - length out)) as [out2 d2]. cbn [fst] in *. rewrite app_length. lia.
  - cbn [fst]. exact B1.
Qed.

(** termination: every pass that goes on delivers at least one value, so fuel above [want] is never used up *)
Theorem get_batch_fuel : forall f1 f2 w d want, (want < f1)%nat -> (want < f2)%nat ->
  get_batch f1 w d want = get_batch f2 w d want.
Proof.
  induction f1 as [|f1 IH]; intros f2 w d want H1 H2; [lia|].
  destruct f2 as [|f2]; [lia|]. cbn [get_batch].
  destruct (Nat.eqb_spec want 0) as [->|Hw]; [reflexivity|].
  destruct (has_next d); cbn [negb]; [|reflexivity].
  destruct (batch_iter w d want) as [[out d1] go] eqn:Eb.
  destruct (batch_iter_bounds w d want out d1 go ltac:(lia) Eb) as [B1 B2].
  destruct go; cbn [negb]; [|reflexivity].
  specialize (B2 eq_refl). rewrite (IH f2 w d1 (want - length out)%nat) by lia. reflexivity.
Qed.

Theorem skip_count_le : forall fuel w d want, (fst (skip fuel w d want) <= want)%nat.
Proof.
  induction fuel as [|f IH]; intros w d want; cbn [skip]; [cbn; lia|].
  destruct (Nat.eqb_spec want 0) as [->|Hw]; [cbn; lia|].
  destruct (has_next d); cbn [negb]; [|cbn; lia].
  destruct (batch_iter w d want) as [[out d1] go] eqn:Eb.
  destruct (batch_iter_bounds w d want out d1 go ltac:(lia) Eb) as [B1 B2].
  destruct go; cbn [negb].
  - specialize (IH w d1 (want - length out)%nat).
    destruct (skip f w d1 (want - length out)) as [n2 d2]. cbn [fst] in *. lia.
  - cbn [fst]. exact B1.
Qed.

Theorem decode_all_length : forall w data maxv, (length (decode_all w data maxv) <= maxv)%nat.
Proof. intros. unfold decode_all. apply get_batch_length. Qed.

Theorem decode_all_fuel : forall w data maxv k,
  decode_all w data maxv = fst (get_batch (S maxv + k) w (dec_init data) maxv).
Proof. intros. unfold decode_all. rewrite (get_batch_fuel (S maxv) (S maxv + k)) by lia. reflexivity. Qed.

(** carquet_rle_decode_all(input, size, bit_width, output, max_values) after commit cf4f4e1: a width
    outside 0..32 is refused with -1; max_values <= 0 delivers nothing *)
Definition ERR_MINUS1 : Z := (-1)%Z.

Definition rle_decode_all (input : list N) (bit_width : Z) (max_values : Z) : res (list N) :=
  if ((bit_width <? 0) || (32 <? bit_width))%Z then Err ERR_MINUS1
  else Ok (decode_all (Z.to_nat bit_width) input (Z.to_nat max_values)).

Theorem rle_decode_all_never_faults : forall input w maxv f, rle_decode_all input w maxv <> Fault f.
Proof. intros. unfold rle_decode_all. destruct ((w <? 0)%Z || (32 <? w)%Z); discriminate. Qed.

Theorem rle_decode_all_count_le : forall input w maxv out,
  rle_decode_all input w maxv = Ok out -> (Z.of_nat (length out) <= Z.max 0 maxv)%Z.
Proof.
  intros input w maxv out. unfold rle_decode_all. destruct ((w <? 0)%Z || (32 <? w)%Z); [discriminate|].
  intros H. injection H as <-. pose proof (decode_all_length (Z.to_nat w) input (Z.to_nat maxv)). lia.
Qed.

Example rle_decode_all_example : rle_decode_all [10; 1; 3; 0xB1] 1 9 = Ok [1; 1; 1; 1; 1; 1; 0; 0; 0].
Proof. vm_compute. reflexivity. Qed.

(** the index codec in the shape Enc/DictModel.v takes it *)
Definition rle_dec_n (w : N) (bs : list N) (maxv : N) : res (list N) :=
  rle_decode_all bs (Z.of_N w) (Z.of_N maxv).

Lemma rle_dec_n_never_faults : forall w bs maxv f, rle_dec_n w bs maxv <> Fault f.
Proof. intros. apply rle_decode_all_never_faults. Qed.

Lemma rle_dec_n_count_le : forall w bs maxv ix, rle_dec_n w bs maxv = Ok ix -> N.of_nat (length ix) <= maxv.
Proof. intros w bs maxv ix H. apply rle_decode_all_count_le in H. lia. Qed.

(* ================================================================== B. dictionary decode *)

(** carquet_dictionary_decode_{int32,int64,float,double}: Enc/DictModel.v (enc2 engine) over carquet's own index
    decoder [DictRleInst.rle_dec] (width guard + decode_all).  The enc2 engine proves never-fault and the size
    bound GIVEN that decode_all delivers at most max_values values on arbitrary bytes; that fact is
    [decode_all_len] (Enc/RleSafety.v, lead) = [decode_all_length] above. *)
Theorem dict_decode_never_faults_carquet : forall k dict dc indices out_count f,
  DictModel.dict_decode_fixed DictRleInst.rle_dec k dict dc indices out_count <> Fault f.
Proof. exact (DictRleInst.dict_decode_never_faults_rle RleSafety.decode_all_len). Qed.

Theorem dict_decode_result_size_carquet : forall k dict dc indices out_count vs,
  DictModel.dict_decode_fixed DictRleInst.rle_dec k dict dc indices out_count = Ok vs ->
  N.of_nat (length vs) <= out_count.
Proof. exact (DictRleInst.dict_decode_result_size_rle RleSafety.decode_all_len). Qed.

(** the instance this engine extracts for the model tie is the same function *)
Lemma rle_dec_n_eq : forall w bs maxv, rle_dec_n w bs maxv = DictRleInst.rle_dec w bs maxv.
Proof.
  intros w bs maxv. unfold rle_dec_n, rle_decode_all, DictRleInst.rle_dec.
  assert (E : ((Z.of_N w <? 0)%Z || (32 <? Z.of_N w)%Z) = (32 <? w)).
  { destruct (N.ltb_spec 32 w); destruct (Z.ltb_spec (Z.of_N w) 0); destruct (Z.ltb_spec 32 (Z.of_N w)); cbn; lia. }
  rewrite E. destruct (32 <? w); [reflexivity|]. rewrite !N2Z.id || idtac.
  f_equal. f_equal; lia.
Qed.

(* ================================================================== D. Snappy / LZ4: size clause *)

(** the comp engine proves soundness (an OK result is the denoted content AND fits the destination); C08 needs
    the second half on its own *)
Theorem snappy_decompress_size_le_cap : forall s x cap, CompBase.bytes s ->
  SnappyModel.decompress s cap = Ok x -> CompBase.nlen x <= cap.
Proof. intros s x cap B H. exact (proj2 (SnappyProofs.snappy_decompress_sound_thm s x cap B H)). Qed.

Theorem lz4_decompress_size_le_cap : forall s x cap, CompBase.bytes s ->
  Lz4Model.decompress s cap = Ok x -> CompBase.nlen x <= cap.
Proof. intros s x cap B H. exact (proj2 (Lz4Proofs.lz4_decompress_sound_thm s x cap B H)). Qed.
