(** Model of the level decoders of src/encoding/rle.c that no other engine models:

      carquet_rle_decode_levels           the int16 fast path with its own inline header loop
      carquet_rle_decode_levels_prefixed  4-byte little-endian length prefix + the above

    (C08: safe on arbitrary bytes, respects the capacity.)  Conventions of DESIGN.md section 4:

    - the input is a buffer [buf : list N]; the C function is handed a pointer [buf + base] and a DECLARED
      size [size].  Every read goes through [rd], which is checked against the REAL buffer and returns
      [Fault OobRead] outside it - the guards of the C code compare with the declared size, and the theorems
      show that they suffice whenever [base + size <= length buf];
    - the output is an array of [cap] int16 slots ([cap] = max_values, the only capacity the API has);
      every store goes through [wr] / [wr_list], checked against [cap] ([Fault OobWrite]);
    - positions, sizes and counts are [N] (a declared size can be 2^32 - 1); [nat] is used for fuel only;
    - one step of [lv_run] is one iteration of the outer `while` loop or of the bit-packed group loop of the
      C function; fuel [lv_fuel] = 2 * length buf + cap + 2 is linear in input + capacity, and
      [Fault OutOfFuel] is excluded by the theorems.

    The function after commits c96b6f8 (prefix test without 32-bit wrap) and cf4f4e1 (widths outside 0..32
    rejected) is [decode_levels] / [decode_levels_prefixed]; the prefix test before c96b6f8 is kept as
    [decode_levels_prefixed_pinned] for the refutation theorem. *)
From Coq Require Import NArith ZArith List Bool.
From Carquet Require Import Base.Res Enc.BitpackModel Enc.RleModel.
Import ListNotations.
Local Open Scope N_scope.

Definition nlen {A} (l : list A) : N := N.of_nat (length l).

(* ------------------------------------------------------------------ checked memory accesses *)

Definition rd (buf : list N) (i : N) : res N :=
  if i <? nlen buf then
    match nth_error buf (N.to_nat i) with Some b => Ok b | None => Fault OobRead end
  else Fault OobRead.

(** [n] bytes at [i .. i+n) *)
Definition rd_slice (buf : list N) (i : N) (n : nat) : res (list N) :=
  if i + N.of_nat n <=? nlen buf then Ok (firstn n (skipn (N.to_nat i) buf)) else Fault OobRead.

(** little-endian value of the [n] bytes at [i]: the loop `v |= (uint32_t)input[pos++] << (i * 8)` *)
Fixpoint rd_le (buf : list N) (i : N) (n : nat) : res N :=
  match n with
  | O => Ok 0
  | S n' => match rd buf i with
            | Ok b => match rd_le buf (i + 1) n' with
                      | Ok v => Ok (b + 256 * v)
                      | Err c => Err c | Fault f => Fault f
                      end
            | Err c => Err c | Fault f => Fault f
            end
  end.

(** store [vs] at output[count ..] where count = number of values stored so far *)
Definition wr_list (cap : N) (out : list Z) (vs : list Z) : res (list Z) :=
  if nlen out + nlen vs <=? cap then Ok (out ++ vs) else Fault OobWrite.

(* ------------------------------------------------------------------ int32 -> int16 *)

(** (int16_t)x : truncation (the scalar stores) *)
Definition i16_trunc (v : N) : Z :=
  let m := v mod 65536 in if m <? 32768 then Z.of_N m else (Z.of_N m - 65536)%Z.

(** _mm_packs_epi32: the uint32 is read as int32 and saturated (full groups of 8 on SSE2 builds) *)
Definition i16_sat (v : N) : Z :=
  let s := if v <? 2 ^ 31 then Z.of_N v else (Z.of_N v - 2 ^ 32)%Z in
  if (32767 <? s)%Z then 32767%Z else if (s <? -32768)%Z then (-32768)%Z else s.

(* ------------------------------------------------------------------ the inline header loop *)

(** while (pos < input_size && shift < 32) { byte = input[pos++]; header |= (byte & 0x7F) << shift;
                                             if (!(byte & 0x80)) break; shift += 7; }
    Unlike read_varint of the streaming decoder this loop does not fail on a truncated or over-long
    varint: it simply stops.  [pos] is relative to [base]. *)
Fixpoint lv_varint (fuel : nat) (buf : list N) (base size pos shift acc : N) : res (N * N) :=
  match fuel with
  | O => Ok (acc, pos)                                   (* shift reached 35 >= 32 *)
  | S f =>
    if size <=? pos then Ok (acc, pos)
    else match rd buf (base + pos) with
         | Ok b =>
           let acc' := N.lor acc (u32 (N.shiftl (N.land b 0x7F) shift)) in
           if N.land b 0x80 =? 0 then Ok (acc', pos + 1)
           else lv_varint f buf base size (pos + 1) (shift + 7) acc'
         | Err c => Err c | Fault x => Fault x
         end
  end.

(* ------------------------------------------------------------------ the two loops as one machine *)

Inductive mode : Set :=
| Idle                       (* at the top of the outer while loop *)
| Groups (g : N).            (* inside `for (g = 0; g < num_groups && count < max_values; g++)`, g groups left *)

(** one iteration; [None] = the function returns [out] *)
Definition lv_step (buf : list N) (base size : N) (w : nat) (cap : N) (m : mode) (pos : N) (out : list Z)
  : res (option (mode * N * list Z)) :=
  match m with
  | Idle =>
    if (cap <=? nlen out) || (size <=? pos) then Ok None          (* while (count < max_values && pos < input_size) *)
    else
      match lv_varint 5 buf base size pos 0 0 with
      | Ok (header, pos1) =>
        if N.land header 1 =? 0 then
          let run := N.shiftr header 1 in
          if size <? pos1 + N.of_nat (vbytes w) then Ok None      (* break *)
          else
            match rd_le buf (base + pos1) (vbytes w) with
            | Ok v =>
              let v' := N.land (u32 v) (value_mask w) in
              let pos2 := pos1 + N.of_nat (vbytes w) in
              if run =? 0 then Ok (Some (Idle, pos2, out))        (* continue *)
              else
                let to_fill := N.min run (cap - nlen out) in
                match wr_list cap out (repeat (i16_trunc v') (N.to_nat to_fill)) with
                | Ok out' => Ok (Some (Idle, pos2, out'))
                | Err c => Err c | Fault x => Fault x
                end
            | Err c => Err c | Fault x => Fault x
            end
        else
          let groups := N.shiftr header 1 in
          if groups =? 0 then Ok (Some (Idle, pos1, out))         (* continue *)
          else Ok (Some (Groups groups, pos1, out))
      | Err c => Err c | Fault x => Fault x
      end
  | Groups g =>
    if (g =? 0) || (cap <=? nlen out) then Ok (Some (Idle, pos, out))      (* loop condition false *)
    else if size <? pos + N.of_nat w then Ok (Some (Idle, pos, out))       (* break: back to the outer loop *)
    else
      match rd_slice buf (base + pos) w with
      | Ok bytes_w =>
        match unpack8 w bytes_w with
        | Ok temp =>
          let room := cap - nlen out in
          let vs := if 8 <=? room then map i16_sat temp
                    else map i16_trunc (firstn (N.to_nat room) temp) in
          match wr_list cap out vs with
          | Ok out' => Ok (Some (Groups (g - 1), pos + N.of_nat w, out'))
          | Err c => Err c | Fault x => Fault x
          end
        | Err c => Err c | Fault x => Fault x
        end
      | Err c => Err c | Fault x => Fault x
      end
  end.

Fixpoint lv_run (fuel : nat) (buf : list N) (base size : N) (w : nat) (cap : N) (m : mode) (pos : N) (out : list Z)
  : res (list Z) :=
  match fuel with
  | O => Fault OutOfFuel
  | S f =>
    match lv_step buf base size w cap m pos out with
    | Ok None => Ok out
    | Ok (Some (m', pos', out')) => lv_run f buf base size w cap m' pos' out'
    | Err c => Err c
    | Fault x => Fault x
    end
  end.

(** steps allowed: linear in the real input length and the capacity *)
Definition lv_fuel (buf : list N) (cap : N) : nat := (2 * length buf + N.to_nat cap + 2)%nat.

Definition ERR_MINUS1 : Z := (-1)%Z.

(** carquet_rle_decode_levels(buf + base, size, bit_width, output, max_values) *)
Definition decode_levels_at (buf : list N) (base size : N) (bit_width : Z) (max_values : Z) : res (list Z) :=
  if ((bit_width <? 0) || (32 <? bit_width))%Z then Err ERR_MINUS1
  else if ((max_values <=? 0)%Z || (size =? 0)) then Ok []
  else let cap := Z.to_N max_values in
       lv_run (lv_fuel buf cap) buf base size (Z.to_nat bit_width) cap Idle 0 [].

(** the entry point on an exact buffer: declared length = real length *)
Definition decode_levels (input : list N) (bit_width : Z) (max_values : Z) : res (list Z) :=
  decode_levels_at input 0 (nlen input) bit_width max_values.

(** carquet_rle_decode_levels_prefixed -> (levels, bytes_consumed); every failure returns -1 with
    *bytes_consumed = 0 *)
Definition decode_levels_prefixed (input : list N) (bit_width : Z) (max_values : Z) : res (list Z * N) :=
  if nlen input <? 4 then Err ERR_MINUS1
  else match rd_le input 0 4 with
       | Ok rle_length =>
         if nlen input - 4 <? rle_length then Err ERR_MINUS1       (* (size_t)rle_length > input_size - 4 *)
         else match decode_levels_at input 4 rle_length bit_width max_values with
              | Ok out => Ok (out, 4 + rle_length)
              | Err _ => Err ERR_MINUS1
              | Fault x => Fault x
              end
       | Err c => Err c | Fault x => Fault x
       end.

(** the length test as it was before commit c96b6f8: `4 + rle_length` in uint32_t arithmetic *)
Definition decode_levels_prefixed_pinned (input : list N) (bit_width : Z) (max_values : Z) : res (list Z * N) :=
  if nlen input <? 4 then Err ERR_MINUS1
  else match rd_le input 0 4 with
       | Ok rle_length =>
         if nlen input <? u32 (4 + rle_length) then Err ERR_MINUS1
         else match decode_levels_at input 4 rle_length bit_width max_values with
              | Ok out => Ok (out, u32 (4 + rle_length))
              | Err _ => Err ERR_MINUS1
              | Fault x => Fault x
              end
       | Err c => Err c | Fault x => Fault x
       end.
