(** Safety of the level decoders (Dec/LevelsModel.v): on every input, width, max_values
    - no read outside the input, no store outside the max_values slots, the step budget (linear in
      input length + capacity) is never exhausted:            decode_levels_never_faults
    - the reported count does not exceed max_values:           decode_levels_count_le
    - prefixed form: consumed = 4 + prefix <= input length:    decode_levels_prefixed_consumed
    - the length test before commit c96b6f8 let the decoder read outside the input:
                                                               decode_levels_prefixed_pinned_refuted *)
From Coq Require Import NArith ZArith List Bool Lia ZifyBool ZifyNat ZifyN.
From Carquet Require Import Base.Res Enc.BitpackModel Enc.RleModel Dec.LevelsModel.
Import ListNotations.
Local Open Scope N_scope.

Arguments N.mul : simpl never.
Arguments N.add : simpl never.
Arguments N.sub : simpl never.
Arguments N.shiftl : simpl never.
Arguments N.shiftr : simpl never.
Arguments N.land : simpl never.
Arguments N.lor : simpl never.
Arguments N.pow : simpl never.
Arguments N.modulo : simpl never.
Arguments N.of_nat : simpl never.
Arguments N.to_nat : simpl never.
Arguments unpack8 : simpl never.
Arguments vbytes : simpl never.
Arguments value_mask : simpl never.

(* ------------------------------------------------------------------ accesses *)

Lemma nlen_app {A} (a b : list A) : nlen (a ++ b) = nlen a + nlen b.
Proof. unfold nlen. rewrite app_length. lia. Qed.

Lemma nlen_repeat {A} (x : A) k : nlen (repeat x k) = N.of_nat k.
Proof. unfold nlen. rewrite repeat_length. reflexivity. Qed.

Lemma rd_ok buf i : i < nlen buf -> exists b, rd buf i = Ok b.
Proof.
  intros H. unfold rd. destruct (N.ltb_spec i (nlen buf)) as [_|G]; [|lia].
  destruct (nth_error buf (N.to_nat i)) as [b|] eqn:E; [eauto|].
  apply nth_error_None in E. unfold nlen in H. lia.
Qed.

Lemma rd_le_ok buf : forall n i, i + N.of_nat n <= nlen buf -> exists v, rd_le buf i n = Ok v.
Proof.
  induction n as [|n IH]; intros i H; cbn [rd_le]; [eauto|].
  destruct (rd_ok buf i ltac:(lia)) as [b ->].
  destruct (IH (i + 1) ltac:(lia)) as [v ->]. eauto.
Qed.

Lemma rd_slice_ok buf i n : i + N.of_nat n <= nlen buf ->
  exists l, rd_slice buf i n = Ok l /\ length l = n.
Proof.
  intros H. unfold rd_slice. destruct (N.leb_spec (i + N.of_nat n) (nlen buf)) as [_|G]; [|lia].
  eexists. split; [reflexivity|]. rewrite firstn_length, skipn_length. unfold nlen in H. lia.
Qed.

Lemma unpack8_ok w l : length l = w -> exists t, unpack8 w l = Ok t /\ length t = 8%nat.
Proof.
  intros H. unfold unpack8. destruct (Nat.ltb_spec (length l) w) as [L|_]; [lia|].
  eexists. split; [reflexivity|]. rewrite map_length, seq_length. reflexivity.
Qed.

Lemma wr_list_ok cap out vs : nlen out + nlen vs <= cap -> wr_list cap out vs = Ok (out ++ vs).
Proof. intros H. unfold wr_list. destruct (N.leb_spec (nlen out + nlen vs) cap); [reflexivity|lia]. Qed.

(* ------------------------------------------------------------------ the header loop *)

Lemma lv_varint_ok buf base size : base + size <= nlen buf ->
  forall fuel pos shift acc, pos <= size ->
  exists h pos1, lv_varint fuel buf base size pos shift acc = Ok (h, pos1) /\ pos <= pos1 <= size /\
                 ((0 < fuel)%nat -> pos < size -> pos < pos1).
Proof.
  intros Hb. induction fuel as [|f IH]; intros pos shift acc Hp; cbn [lv_varint].
  - exists acc, pos. split; [reflexivity|]. split; [lia|]. intros H; lia.
  - destruct (N.leb_spec size pos) as [L|G].
    + exists acc, pos. split; [reflexivity|]. split; [lia|]. intros _ H; lia.
    + destruct (rd_ok buf (base + pos) ltac:(lia)) as [b ->].
      destruct (N.land b 128 =? 0).
      * eexists _, (pos + 1). split; [reflexivity|]. lia.
      * destruct (IH (pos + 1) (shift + 7) (N.lor acc (u32 (N.shiftl (N.land b 127) shift))) ltac:(lia))
          as (h & p1 & E & R & _).
        exists h, p1. split; [exact E|]. lia.
Qed.

(* ------------------------------------------------------------------ one step *)

Definition inv (buf : list N) (base size cap pos : N) (out : list Z) : Prop :=
  base + size <= nlen buf /\ pos <= size /\ nlen out <= cap.

Definition mu (size cap : N) (m : mode) (pos : N) (out : list Z) : N :=
  2 * (size - pos) + (cap - nlen out) + match m with Idle => 0 | Groups _ => 1 end.

Lemma lv_step_ok buf base size w cap m pos out : inv buf base size cap pos out ->
  lv_step buf base size w cap m pos out = Ok None \/
  exists m' pos' out', lv_step buf base size w cap m pos out = Ok (Some (m', pos', out')) /\
    inv buf base size cap pos' out' /\ mu size cap m' pos' out' < mu size cap m pos out.
Proof.
  intros (Hb & Hp & Ho). unfold lv_step. destruct m as [|g].
  - (* outer loop *)
    destruct ((cap <=? nlen out) || (size <=? pos)) eqn:Ec; [left; reflexivity|].
    apply orb_false_iff in Ec. destruct Ec as [Ec1 Ec2].
    apply N.leb_gt in Ec1. apply N.leb_gt in Ec2.
    destruct (lv_varint_ok buf base size Hb 5 pos 0 0 Hp) as (h & pos1 & -> & R1 & R2).
    specialize (R2 ltac:(lia) Ec2).
    destruct (N.land h 1 =? 0).
    + destruct (N.ltb_spec size (pos1 + N.of_nat (vbytes w))) as [L|G]; [left; reflexivity|].
      destruct (rd_le_ok buf (vbytes w) (base + pos1) ltac:(lia)) as [v ->].
      destruct (N.shiftr h 1 =? 0) eqn:Er.
      * right. eexists _, _, _. split; [reflexivity|]. unfold inv, mu. repeat split; lia.
      * set (to_fill := N.min (N.shiftr h 1) (cap - nlen out)).
        rewrite wr_list_ok by (rewrite nlen_repeat, N2Nat.id; unfold to_fill; lia).
        right. eexists _, _, _. split; [reflexivity|].
        unfold inv, mu. rewrite nlen_app, nlen_repeat, N2Nat.id. unfold to_fill. repeat split; lia.
    + destruct (N.shiftr h 1 =? 0) eqn:Eg.
      * right. eexists _, _, _. split; [reflexivity|]. unfold inv, mu. repeat split; lia.
      * right. eexists _, _, _. split; [reflexivity|]. unfold inv, mu. repeat split; lia.
  - (* group loop *)
    destruct ((g =? 0) || (cap <=? nlen out)) eqn:Ec.
    { right. eexists _, _, _. split; [reflexivity|]. unfold inv, mu. repeat split; lia. }
    apply orb_false_iff in Ec. destruct Ec as [Ec1 Ec2]. apply N.leb_gt in Ec2.
    destruct (N.ltb_spec size (pos + N.of_nat w)) as [L|G].
    { right. eexists _, _, _. split; [reflexivity|]. unfold inv, mu. repeat split; lia. }
    destruct (rd_slice_ok buf (base + pos) w ltac:(lia)) as (bw & -> & Lbw).
    destruct (unpack8_ok w bw Lbw) as (temp & -> & Lt).
    destruct (N.leb_spec 8 (cap - nlen out)) as [R8|R8].
    + assert (Hn : nlen (map i16_sat temp) = 8) by (unfold nlen; rewrite map_length, Lt; reflexivity).
      rewrite wr_list_ok by (rewrite Hn; lia).
      right. eexists _, _, _. split; [reflexivity|].
      unfold inv, mu. rewrite nlen_app, Hn. repeat split; lia.
    + assert (Hn : nlen (map i16_trunc (firstn (N.to_nat (cap - nlen out)) temp)) = cap - nlen out).
      { unfold nlen at 1. rewrite map_length, firstn_length, Lt. lia. }
      rewrite wr_list_ok by (rewrite Hn; lia).
      right. eexists _, _, _. split; [reflexivity|].
      unfold inv, mu. rewrite nlen_app, Hn. repeat split; lia.
Qed.

(* ------------------------------------------------------------------ the run *)

Lemma lv_run_ok buf base size w cap : forall fuel m pos out, inv buf base size cap pos out ->
  mu size cap m pos out < N.of_nat fuel ->
  exists out', lv_run fuel buf base size w cap m pos out = Ok out' /\ nlen out' <= cap.
Proof.
  induction fuel as [|f IH]; intros m pos out Hi Hm; [lia|].
  cbn [lv_run]. destruct (lv_step_ok buf base size w cap m pos out Hi) as [->|(m' & pos' & out' & -> & Hi' & Hd)].
  - exists out. split; [reflexivity|]. apply Hi.
  - apply IH; [exact Hi'|lia].
Qed.

Lemma decode_levels_at_ok buf base size bw maxv : base + size <= nlen buf ->
  (exists c, decode_levels_at buf base size bw maxv = Err c) \/
  exists out, decode_levels_at buf base size bw maxv = Ok out /\ (Z.of_N (nlen out) <= Z.max 0 maxv)%Z.
Proof.
  intros Hb. unfold decode_levels_at.
  destruct ((bw <? 0)%Z || (32 <? bw)%Z); [left; eauto|].
  destruct ((maxv <=? 0)%Z || (size =? 0)) eqn:E0.
  - right. exists []. split; [reflexivity|]. unfold nlen. cbn [length]. lia.
  - apply orb_false_iff in E0. destruct E0 as [E1 _]. apply Z.leb_gt in E1.
    destruct (lv_run_ok buf base size (Z.to_nat bw) (Z.to_N maxv) (lv_fuel buf (Z.to_N maxv)) Idle 0 [])
      as (out & -> & Ho).
    + unfold inv. unfold nlen in *. cbn [length]. repeat split; lia.
    + unfold mu, lv_fuel. unfold nlen in *. cbn [length]. lia.
    + right. exists out. split; [reflexivity|]. lia.
Qed.

(* ------------------------------------------------------------------ the entry points *)

(** carquet_rle_decode_levels never reads outside the input, never stores outside the max_values
    slots and stays within its step budget, for every input, width and max_values *)
Theorem decode_levels_never_faults : forall input w maxv f, decode_levels input w maxv <> Fault f.
Proof.
  intros input w maxv f. unfold decode_levels.
  destruct (decode_levels_at_ok input 0 (nlen input) w maxv ltac:(lia)) as [[c ->]|(out & -> & _)]; discriminate.
Qed.

Theorem decode_levels_count_le : forall input w maxv out,
  decode_levels input w maxv = Ok out -> (Z.of_nat (length out) <= Z.max 0 maxv)%Z.
Proof.
  intros input w maxv out H. unfold decode_levels in H.
  destruct (decode_levels_at_ok input 0 (nlen input) w maxv ltac:(lia)) as [[c E]|(out' & E & Hl)];
    rewrite E in H; [discriminate|]. injection H as <-. unfold nlen in Hl. lia.
Qed.

(** an error is only the width guard *)
Theorem decode_levels_error_iff : forall input w maxv c,
  decode_levels input w maxv = Err c -> (w < 0 \/ 32 < w)%Z /\ c = ERR_MINUS1.
Proof.
  intros input w maxv c. unfold decode_levels, decode_levels_at.
  destruct ((w <? 0)%Z || (32 <? w)%Z) eqn:Ew.
  - intros H. injection H as <-. split; [lia|reflexivity].
  - destruct ((maxv <=? 0)%Z || (nlen input =? 0)); [discriminate|].
    destruct (lv_run_ok input 0 (nlen input) (Z.to_nat w) (Z.to_N maxv) (lv_fuel input (Z.to_N maxv)) Idle 0 [])
      as (out & -> & _); [unfold inv; unfold nlen in *; cbn [length]; repeat split; lia
                         |unfold mu, lv_fuel; unfold nlen in *; cbn [length]; lia|discriminate].
Qed.

Lemma rd_le4_bound buf v : rd_le buf 0 4 = Ok v -> True.
Proof. trivial. Qed.

Theorem decode_levels_prefixed_never_faults : forall input w maxv f,
  decode_levels_prefixed input w maxv <> Fault f.
Proof.
  intros input w maxv f. unfold decode_levels_prefixed.
  destruct (N.ltb_spec (nlen input) 4) as [L|G]; [discriminate|].
  destruct (rd_le_ok input 4 0 ltac:(cbn; lia)) as [l ->].
  destruct (N.ltb_spec (nlen input - 4) l) as [L2|G2]; [discriminate|].
  destruct (decode_levels_at_ok input 4 l w maxv ltac:(lia)) as [[c ->]|(out & -> & _)]; discriminate.
Qed.

(** success: the count respects max_values, and bytes_consumed = 4 + the prefix lies within the input *)
Theorem decode_levels_prefixed_consumed : forall input w maxv out used,
  decode_levels_prefixed input w maxv = Ok (out, used) ->
  (Z.of_nat (length out) <= Z.max 0 maxv)%Z /\ used <= nlen input /\
  exists l, rd_le input 0 4 = Ok l /\ used = 4 + l.
Proof.
  intros input w maxv out used. unfold decode_levels_prefixed.
  destruct (N.ltb_spec (nlen input) 4) as [L|G]; [discriminate|].
  destruct (rd_le_ok input 4 0 ltac:(cbn; lia)) as [l El]. rewrite El.
  destruct (N.ltb_spec (nlen input - 4) l) as [L2|G2]; [discriminate|].
  destruct (decode_levels_at_ok input 4 l w maxv ltac:(lia)) as [[c ->]|(out' & -> & Ho)]; [discriminate|].
  intros H. injection H as <- <-. unfold nlen in Ho. repeat split; try lia. exists l. split; reflexivity.
Qed.

(** every failure reports -1 (with *bytes_consumed = 0 in the C code) *)
Theorem decode_levels_prefixed_error : forall input w maxv c,
  decode_levels_prefixed input w maxv = Err c -> c = ERR_MINUS1.
Proof.
  intros input w maxv c. unfold decode_levels_prefixed.
  destruct (N.ltb_spec (nlen input) 4) as [L|G]; [intros H; injection H as <-; reflexivity|].
  destruct (rd_le_ok input 4 0 ltac:(cbn; lia)) as [l ->].
  destruct (N.ltb_spec (nlen input - 4) l) as [L2|G2]; [intros H; injection H as <-; reflexivity|].
  destruct (decode_levels_at input 4 l w maxv); [discriminate|intros H; injection H as <-; reflexivity|discriminate].
Qed.

(** Before commit c96b6f8 the test was `4 + rle_length > input_size` in 32-bit arithmetic: a prefix of
    0xFFFFFFFF wraps to 3, passes, and the level decoder is handed a declared size of 4 GiB - 1.
    Witness (replayed on the pinned implementation: ASan heap-buffer-overflow READ in
    carquet_rle_decode_levels): prefix FF FF FF FF, then one RLE header announcing 8 values at width 1
    whose value byte lies beyond the buffer. *)
Theorem decode_levels_prefixed_pinned_refuted :
  exists input w maxv, decode_levels_prefixed_pinned input w maxv = Fault OobRead.
Proof. exists [255; 255; 255; 255; 16], 1%Z, 8%Z. vm_compute. reflexivity. Qed.

(** the hypotheses are satisfiable by non-trivial values: a prefixed block holding an RLE run of five 1s
    and a bit-packed group, decoded with room for 11 levels *)
Example decode_levels_prefixed_example :
  decode_levels_prefixed [5; 0; 0; 0;  10; 1;  3; 0xB1; 3;  77] 1 11 =
  Ok ([1; 1; 1; 1; 1;  1; 0; 0; 0; 1; 1]%Z, 9).
Proof. vm_compute. reflexivity. Qed.

(** the group store saturates (SSE2 _mm_packs_epi32), the tail store truncates: width 16, value 0xFFFF *)
Example decode_levels_narrowing :
  decode_levels [3; 255;255; 255;255; 255;255; 255;255; 255;255; 255;255; 255;255; 255;255;  4; 255; 255] 16 10 =
  Ok ([32767; 32767; 32767; 32767; 32767; 32767; 32767; 32767; -1; -1]%Z).
Proof. vm_compute. reflexivity. Qed.
