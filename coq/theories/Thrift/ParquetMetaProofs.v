(** Proofs about the generic descriptor-driven parser of ParquetMetaModel.v - part 1: memory safety,
    termination and forward progress for EVERY ranked descriptor table and EVERY input, instantiated for
    carquet's tables (parquet_parse_file_metadata / parquet_parse_page_header). *)
From Coq Require Import ZArith NArith List Bool Lia.
From Carquet Require Import Base.Res Gen.Consts_gen Gen.Enums_gen.
From Carquet Require Import Thrift.ThriftModel Thrift.ThriftProofs Thrift.ParquetMetaDesc Thrift.ParquetMetaModel.
Import ListNotations.
Local Open Scope N_scope.

(** struct descriptors a field kind refers to *)
Definition kind_refs (k : kind) : list nat :=
  match k with
  | KStruct s | KListStruct s _ _ | KInline s _ => [s]
  | _ => []
  end.

(** [rank] decreases along references: the table has no cycles and [rank sid] bounds the nesting. *)
Definition ranked (tbl : nat -> sdesc) (rank : nat -> nat) : Prop :=
  forall sid f s', In f (s_fields (tbl sid)) -> In s' (kind_refs (f_kind f)) -> (rank s' < rank sid)%nat.

Definition good_read {A} (rd : decoder -> res (A * decoder)) : Prop :=
  forall d, nofault (rd d) /\ forall a d', rd d = Ok (a, d') -> fwd d d'.

Definition good_parse (ps : list mval -> decoder -> res (list mval * decoder)) : Prop :=
  forall r, good_read (ps r).

Ltac nf_case H := let f := fresh "f" in let X := fresh "X" in intros f X; inversion X; subst; eapply H; reflexivity.

Lemma fwd_of_rem1 d d' : (S (rem d') <= rem d)%nat -> d_lfid d' = d_lfid d -> tot d' = tot d -> fwd d d'.
Proof. intros. repeat split; [lia|congruence|assumption]. Qed.

Lemma read_bool_good : good_read read_bool.
Proof.
  intros d. unfold read_bool. destruct (d_boolp d).
  - split; auto with nf. intros a d' X; inversion X; subst. unfold fwd, tot, rem; simpl; repeat split; lia.
  - pose proof (read_byte_raw_nf d) as Hn. destruct (read_byte_raw d) as [[b d1]| |] eqn:RB.
    + split; auto with nf. intros a d' X; inversion X; subst. apply read_byte_raw_rem in RB.
      destruct RB as (R1 & R2 & _ & _ & R5). apply fwd_of_rem1; auto; lia.
    + split; [auto with nf | discriminate].
    + exfalso. eapply Hn; reflexivity.
Qed.

Lemma read_byte_good : good_read read_byte.
Proof.
  intros d. unfold read_byte. pose proof (read_byte_raw_nf d) as Hn. destruct (read_byte_raw d) as [[b d1]| |] eqn:RB.
  - split; auto with nf. intros a d' X; inversion X; subst. apply read_byte_raw_rem in RB.
    destruct RB as (R1 & R2 & _ & _ & R5). apply fwd_of_rem1; auto; lia.
  - split; [auto with nf | discriminate].
  - exfalso. eapply Hn; reflexivity.
Qed.

Lemma read_int_good bits : good_read (read_int bits).
Proof.
  intros d. split; [apply read_int_nf|]. intros a d' X. apply read_int_rem in X.
  destruct X as (R1 & R2 & _ & _ & R5). apply fwd_of_rem1; auto.
Qed.

Lemma read_binary_good : good_read read_binary.
Proof.
  intros d. split; [apply read_binary_nf|]. intros a d' X. apply read_binary_rem in X.
  destruct X as (R1 & R2 & _ & R4). apply fwd_of_rem1; auto.
Qed.

Lemma good_read_map {A B} (rd : decoder -> res (A * decoder)) (g : A -> B) :
  good_read rd -> good_read (fun d => rbind (rd d) (fun p => Ok (g (fst p), snd p))).
Proof.
  intros G d. destruct (G d) as [Gn Gr]. destruct (rd d) as [[a d1]| |] eqn:E; simpl.
  - split; auto with nf. intros b d' X; inversion X; subst. eauto.
  - split; [auto with nf | discriminate].
  - exfalso. eapply Gn; reflexivity.
Qed.

Lemma read_str_good : good_read read_str.
Proof.
  intros d. unfold read_str. destruct (read_binary_good d) as [Gn Gr]. destruct (read_binary d) as [[a d1]| |] eqn:E; simpl.
  - split; auto with nf. intros b d' X; inversion X; subst. eauto.
  - split; [auto with nf | discriminate].
  - exfalso. eapply Gn; reflexivity.
Qed.

Lemma read_bin_good : good_read read_bin.
Proof.
  intros d. unfold read_bin. destruct (read_binary_good d) as [Gn Gr]. destruct (read_binary d) as [[a d1]| |] eqn:E; simpl.
  - split; auto with nf. intros b d' X; inversion X; subst. eauto.
  - split; [auto with nf | discriminate].
  - exfalso. eapply Gn; reflexivity.
Qed.

Lemma read_i32_m_good : good_read read_i32_m.
Proof.
  intros d. unfold read_i32_m, read_i32. destruct (read_int_good 32 d) as [Gn Gr]. destruct (read_int 32 d) as [[a d1]| |] eqn:E; simpl.
  - split; auto with nf. intros b d' X; inversion X; subst. eauto.
  - split; [auto with nf | discriminate].
  - exfalso. eapply Gn; reflexivity.
Qed.

Lemma repeat_read_good {A} (rd : decoder -> res (A * decoder)) : good_read rd -> forall n, good_read (repeat_read rd n).
Proof.
  intros G. induction n as [|n IH]; intros d; cbn [repeat_read].
  - split; auto with nf. intros a d' X; inversion X; subst. apply fwd_refl.
  - destruct (G d) as [Gn Gr]. destruct (rd d) as [[x d1]| |] eqn:E; simpl.
    + pose proof (Gr x d1 eq_refl) as R. destruct (IH d1) as [In Ir]. destruct (repeat_read rd n d1) as [[xs d2]| |] eqn:E2; simpl.
      * split; auto with nf. intros a d' X; inversion X; subst. eapply fwd_trans; eauto.
      * split; [auto with nf | discriminate].
      * exfalso. eapply In; reflexivity.
    + split; [auto with nf | discriminate].
    + exfalso. eapply Gn; reflexivity.
Qed.

Lemma parse_loop_good handle : (forall ty id, good_parse (handle ty id)) ->
  forall k r d, (rem d < length k)%nat ->
    nofault (parse_loop handle k r d) /\ forall r' d', parse_loop handle k r d = Ok (r', d') -> fwd d d'.
Proof.
  intros G. induction k as [|k0 k IH]; intros r d Hk; [simpl in Hk; lia|]. simpl in Hk. cbn [parse_loop].
  pose proof (read_field_begin_nf d) as Fn.
  destruct (read_field_begin d) as [[[[ty id]|] d1]| |] eqn:RF; simpl.
  - apply read_field_begin_rem in RF. destruct RF as (R1 & R2 & R3).
    destruct (G ty id r d1) as [Gn Gr]. destruct (handle ty id r d1) as [[r2 d2]| |] eqn:E; simpl.
    + destruct (Gr r2 d2 eq_refl) as (S1 & S2 & S3). destruct (IH r2 d2) as [In Ir]; [lia|]. split; [exact In|].
      intros r' d' X. destruct (Ir r' d' X) as (T1 & T2 & T3). repeat split; [lia|congruence|congruence].
    + split; [auto with nf | discriminate].
    + exfalso. eapply Gn; reflexivity.
  - apply read_field_begin_rem in RF. destruct RF as (R1 & R2 & R3). split; auto with nf.
    intros r' d' X; inversion X; subst. repeat split; [lia|congruence|congruence].
  - split; [auto with nf | discriminate].
  - exfalso. eapply Fn; reflexivity.
Qed.

Lemma read_list_begin_fwd d et c d' : read_list_begin d = Ok (et, c, d') -> fwd d d'.
Proof. intros X. apply read_list_begin_rem in X. destruct X as (R1 & R2 & _ & _ & _ & R6). apply fwd_of_rem1; auto. Qed.

Section Generic.
  Variable tbl : nat -> sdesc.

  (** one list field: header, count validation, elements *)
  Lemma list_field_good {A} (rd : decoder -> res (A * decoder)) (mk : list A -> list mval) max err :
    good_read rd ->
    good_read (fun d => rbind (read_list_begin d) (fun p =>
                 rbind (validate_count (snd (fst p)) max err) (fun _ =>
                 rbind (repeat_read rd (Z.to_nat (snd (fst p))) (snd p)) (fun q => Ok (mk (fst q), snd q))))).
  Proof.
    intros G d. pose proof (read_list_begin_nf d) as Ln.
    destruct (read_list_begin d) as [[[et c] d1]| |] eqn:RL; simpl.
    - apply read_list_begin_fwd in RL. unfold validate_count. destruct ((c <? 0) || (max <? c))%Z; simpl.
      + split; [auto with nf | discriminate].
      + destruct (repeat_read_good rd G (Z.to_nat c) d1) as [Rn Rr].
        destruct (repeat_read rd (Z.to_nat c) d1) as [[xs d2]| |] eqn:E; simpl.
        * split; auto with nf. intros a d' X; inversion X; subst. eapply fwd_trans; eauto.
        * split; [auto with nf | discriminate].
        * exfalso. eapply Rn; reflexivity.
    - split; [auto with nf | discriminate].
    - exfalso. eapply Ln; reflexivity.
  Qed.

  Lemma parse_field_good ps f ty :
    (forall s', In s' (kind_refs (f_kind f)) -> good_parse (ps s')) ->
    good_parse (parse_field tbl ps f ty).
  Proof.
    intros G r d. unfold parse_field.
    assert (Hfresh : forall s', good_parse (ps s') ->
              good_read (fun d => do (sub, d1) <- ps s' (s_init (tbl s')) d; Ok (MRec sub, d1))).
    { intros s' Gs d0. destruct (Gs (s_init (tbl s')) d0) as [Gn Gr].
      destruct (ps s' (s_init (tbl s')) d0) as [[sub d1]| |] eqn:E; simpl.
      - split; auto with nf. intros a d' X; inversion X; subst. eauto.
      - split; [auto with nf | discriminate].
      - exfalso. eapply Gn; reflexivity. }
    assert (Hscalar : forall {A} (rd : decoder -> res (A * decoder)) (g : A -> list mval), good_read rd ->
              nofault (rbind (rd d) (fun p => Ok (g (fst p), snd p))) /\
              forall r' d', rbind (rd d) (fun p => Ok (g (fst p), snd p)) = Ok (r', d') -> fwd d d').
    { intros A rd g Gr0. destruct (Gr0 d) as [Gn Gr]. destruct (rd d) as [[a d1]| |] eqn:E; simpl.
      - split; auto with nf. intros r' d' X; inversion X; subst. eauto.
      - split; [auto with nf | discriminate].
      - exfalso. eapply Gn; reflexivity. }
    destruct (f_kind f) as [ | | | | | | |s'|max err|max err|s' max err|s' pre|pre] eqn:K.
    - (* KBool *)
      destruct (read_bool_good d) as [Gn Gr]. destruct (read_bool d) as [[b d1]| |] eqn:E; simpl.
      + split; auto with nf. intros r' d' X; inversion X; subst. eauto.
      + split; [auto with nf | discriminate].
      + exfalso. eapply Gn; reflexivity.
    - destruct (read_byte_good d) as [Gn Gr]. destruct (read_byte d) as [[b d1]| |] eqn:E; simpl.
      + split; auto with nf. intros r' d' X; inversion X; subst. eauto.
      + split; [auto with nf | discriminate].
      + exfalso. eapply Gn; reflexivity.
    - unfold read_i16. destruct (read_int_good 16 d) as [Gn Gr]. destruct (read_int 16 d) as [[b d1]| |] eqn:E; simpl.
      + split; auto with nf. intros r' d' X; inversion X; subst. eauto.
      + split; [auto with nf | discriminate].
      + exfalso. eapply Gn; reflexivity.
    - unfold read_i32. destruct (read_int_good 32 d) as [Gn Gr]. destruct (read_int 32 d) as [[b d1]| |] eqn:E; simpl.
      + split; auto with nf. intros r' d' X; inversion X; subst. eauto.
      + split; [auto with nf | discriminate].
      + exfalso. eapply Gn; reflexivity.
    - unfold read_i64. destruct (read_int_good 64 d) as [Gn Gr]. destruct (read_int 64 d) as [[b d1]| |] eqn:E; simpl.
      + split; auto with nf. intros r' d' X; inversion X; subst. eauto.
      + split; [auto with nf | discriminate].
      + exfalso. eapply Gn; reflexivity.
    - destruct (read_bin_good d) as [Gn Gr]. destruct (read_bin d) as [[b d1]| |] eqn:E; simpl.
      + split; auto with nf. intros r' d' X; inversion X; subst. eauto.
      + split; [auto with nf | discriminate].
      + exfalso. eapply Gn; reflexivity.
    - destruct (read_str_good d) as [Gn Gr]. destruct (read_str d) as [[b d1]| |] eqn:E; simpl.
      + split; auto with nf. intros r' d' X; inversion X; subst. eauto.
      + split; [auto with nf | discriminate].
      + exfalso. eapply Gn; reflexivity.
    - (* KStruct *)
      assert (Gs : good_parse (ps s')) by (apply G; simpl; auto).
      destruct (Hfresh s' Gs d) as [Gn Gr]. simpl in *.
      destruct (ps s' (s_init (tbl s')) d) as [[sub d1]| |] eqn:E; simpl in *.
      + split; auto with nf. intros r' d' X; inversion X; subst. eapply Gr; reflexivity.
      + split; [auto with nf | discriminate].
      + exfalso. eapply Gn; reflexivity.
    - (* KListI32 *)
      destruct (list_field_good read_i32_m (fun xs => set_nth (f_slot f) (MArr xs) (set_has f r)) max err read_i32_m_good d) as [Gn Gr].
      split.
      + intros f0 X. eapply Gn. rewrite <- X. clear.
        destruct (read_list_begin d) as [[[et c] d1]| |]; simpl; try reflexivity.
        destruct (validate_count c max err) as [u|e0|f1]; simpl; try reflexivity.
        destruct (repeat_read read_i32_m (Z.to_nat c) d1) as [[xs d2]| |]; reflexivity.
      + intros r' d' X. eapply (Gr r' d'). rewrite <- X. clear.
        destruct (read_list_begin d) as [[[et c] d1]| |]; simpl; try reflexivity.
        destruct (validate_count c max err) as [u|e0|f1]; simpl; try reflexivity.
        destruct (repeat_read read_i32_m (Z.to_nat c) d1) as [[xs d2]| |]; reflexivity.
    - (* KListStr *)
      destruct (list_field_good read_str (fun xs => set_nth (f_slot f) (MArr xs) (set_has f r)) max err read_str_good d) as [Gn Gr].
      split.
      + intros f0 X. eapply Gn. rewrite <- X. clear.
        destruct (read_list_begin d) as [[[et c] d1]| |]; simpl; try reflexivity.
        destruct (validate_count c max err) as [u|e0|f1]; simpl; try reflexivity.
        destruct (repeat_read read_str (Z.to_nat c) d1) as [[xs d2]| |]; reflexivity.
      + intros r' d' X. eapply (Gr r' d'). rewrite <- X. clear.
        destruct (read_list_begin d) as [[[et c] d1]| |]; simpl; try reflexivity.
        destruct (validate_count c max err) as [u|e0|f1]; simpl; try reflexivity.
        destruct (repeat_read read_str (Z.to_nat c) d1) as [[xs d2]| |]; reflexivity.
    - (* KListStruct *)
      assert (Gs : good_parse (ps s')) by (apply G; simpl; auto).
      destruct (list_field_good _ (fun xs => set_nth (f_slot f) (MArr xs) (set_has f r)) max err (Hfresh s' Gs) d) as [Gn Gr].
      split.
      + intros f0 X. eapply Gn. rewrite <- X. clear.
        destruct (read_list_begin d) as [[[et c] d1]| |]; simpl; try reflexivity.
        destruct (validate_count c max err) as [u|e0|f1]; simpl; try reflexivity.
        match goal with |- context [repeat_read ?rd ?n ?dd] => destruct (repeat_read rd n dd) as [[xs d2]| |] end; reflexivity.
      + intros r' d' X. eapply (Gr r' d'). rewrite <- X. clear.
        destruct (read_list_begin d) as [[[et c] d1]| |]; simpl; try reflexivity.
        destruct (validate_count c max err) as [u|e0|f1]; simpl; try reflexivity.
        match goal with |- context [repeat_read ?rd ?n ?dd] => destruct (repeat_read rd n dd) as [[xs d2]| |] end; reflexivity.
    - (* KInline *)
      apply G. simpl. auto.
    - (* KSetSkip *)
      destruct (thrift_skip_good ty d) as [Gn Gr]. destruct (thrift_skip ty d) as [d1| |] eqn:E; simpl.
      + split; auto with nf. intros r' d' X; inversion X; subst. eauto.
      + split; [auto with nf | discriminate].
      + exfalso. eapply Gn; reflexivity.
  Qed.

  Lemma handle_field_good ps fs ty id :
    (forall f s', In f fs -> In s' (kind_refs (f_kind f)) -> good_parse (ps s')) ->
    good_parse (handle_field tbl ps fs ty id).
  Proof.
    intros G r d. unfold handle_field. destruct (find_field id fs) as [f|] eqn:FF.
    - apply parse_field_good. intros s' Hs. apply (G f s'); [|exact Hs].
      unfold find_field in FF. apply find_some in FF. tauto.
    - destruct (thrift_skip_good ty d) as [Gn Gr]. destruct (thrift_skip ty d) as [d1| |] eqn:E; simpl.
      + split; auto with nf. intros r' d' X; inversion X; subst. eauto.
      + split; [auto with nf | discriminate].
      + exfalso. eapply Gn; reflexivity.
  Qed.

  Variable rank : nat -> nat.
  Hypothesis Hranked : ranked tbl rank.

  (** The generic theorem: with fuel above the rank of the struct, the parser never faults (no read
      outside the buffer, no fuel or depth exhaustion), only moves forward and keeps the cursor inside the
      buffer - for every input. *)
  Theorem parse_struct_good : forall fuel sid, (rank sid < fuel)%nat -> good_parse (parse_struct tbl fuel sid).
  Proof.
    induction fuel as [|fuel IH]; intros sid Hr r d; [lia|]. cbn [parse_struct].
    unfold read_struct_begin. destruct (MAX_NESTING <=? len (d_lfid d)); cbn [rbind]; [split; [auto with nf | discriminate]|].
    set (d0 := with_lfid d (0%Z :: d_lfid d)).
    destruct (parse_loop_good (handle_field tbl (parse_struct tbl fuel) (s_fields (tbl sid)))) with (k := 0 :: d_rest d0) (r := r) (d := d0)
      as [Ln Lr].
    { intros ty id. apply handle_field_good. intros f s' Hf Hs. apply IH. pose proof (Hranked sid f s' Hf Hs). lia. }
    { unfold rem. simpl. lia. }
    fold d0. destruct (parse_loop _ _ r d0) as [[r1 d1]| |] eqn:E; cbn [rbind].
    - split; auto with nf. destruct (Lr r1 d1 eq_refl) as (S1 & S2 & S3). intros r' d' X; inversion X; subst.
      unfold fwd, tot, rem in *. simpl in *. repeat split; [lia| |lia]. destruct (d_lfid d1); simpl in *; lia.
    - split; [auto with nf | discriminate].
    - exfalso. eapply Ln; reflexivity.
  Qed.

  Theorem parse_message_safe : forall fuel sid data, (rank sid < fuel)%nat ->
    nofault (parse_message tbl fuel sid data) /\
    forall r c, parse_message tbl fuel sid data = Ok (r, c) -> c <= N.of_nat (length data).
  Proof.
    intros fuel sid data Hr. unfold parse_message.
    destruct (parse_struct_good fuel sid Hr (s_init (tbl sid)) (decoder_init data)) as [Gn Gr].
    destruct (parse_struct tbl fuel sid _ _) as [[r d]| |] eqn:E; simpl.
    - split; auto with nf. destruct (Gr r d eq_refl) as (_ & _ & T). intros r' c X; inversion X; subst.
      unfold tot, rem in T. simpl in T. lia.
    - split; [auto with nf | discriminate].
    - exfalso. eapply Gn; reflexivity.
  Qed.
End Generic.

(* ------------------------------------------------------------------------------------------ *)
(** * carquet's tables *)

Definition ranked_upto (tbl : nat -> sdesc) (rank : nat -> nat) (n : nat) : bool :=
  forallb (fun sid => forallb (fun f => forallb (fun s' => Nat.ltb (rank s') (rank sid)) (kind_refs (f_kind f)))
                              (s_fields (tbl sid))) (seq 0 n).

Lemma carquet_ranked : ranked carquet_tbl carquet_rank.
Proof.
  assert (H : ranked_upto carquet_tbl carquet_rank 18 = true) by (vm_compute; reflexivity).
  intros sid f s' Hf Hs.
  destruct (Nat.lt_ge_cases sid 18) as [Lt|Ge].
  - unfold ranked_upto in H. rewrite forallb_forall in H. specialize (H sid).
    rewrite forallb_forall in H. specialize (H ltac:(apply in_seq; lia) f Hf).
    rewrite forallb_forall in H. specialize (H s' Hs). apply Nat.ltb_lt in H. exact H.
  - exfalso. do 18 (destruct sid as [|sid]; [lia|]). simpl in Hf. exact Hf.
Qed.

Theorem parse_file_metadata_never_faults : forall bs f, parse_file_metadata bs <> Fault f.
Proof.
  intros bs. unfold parse_file_metadata.
  apply (parse_message_safe carquet_tbl carquet_rank carquet_ranked FUEL S_FILE_META bs). vm_compute. lia.
Qed.

Theorem parse_page_header_never_faults : forall bs f, parse_page_header bs <> Fault f.
Proof.
  intros bs. unfold parse_page_header.
  apply (parse_message_safe carquet_tbl carquet_rank carquet_ranked FUEL S_PAGE_HEADER bs). vm_compute. lia.
Qed.

Theorem parse_file_metadata_consumed : forall bs r c, parse_file_metadata bs = Ok (r, c) -> c <= N.of_nat (length bs).
Proof.
  intros bs. unfold parse_file_metadata.
  apply (parse_message_safe carquet_tbl carquet_rank carquet_ranked FUEL S_FILE_META bs). vm_compute. lia.
Qed.

Theorem parse_page_header_consumed : forall bs r c, parse_page_header bs = Ok (r, c) -> c <= N.of_nat (length bs).
Proof.
  intros bs. unfold parse_page_header.
  apply (parse_message_safe carquet_tbl carquet_rank carquet_ranked FUEL S_PAGE_HEADER bs). vm_compute. lia.
Qed.

(** non-trivial instances *)
Example parse_page_header_example :
  parse_page_header [0x15; 0x00; 0x15; 0xc8; 0x01; 0x15; 0x00; 0x00; 0xff] =
  Ok ([MInt 0; MInt 100; MInt 0] ++ skipn 3 (s_init d_page_header), 8).
Proof. vm_compute. reflexivity. Qed.
Example parse_page_header_truncated :
  parse_page_header [0x15; 0x00; 0x15; 0xc8] = Err ST_TRUNCATED.
Proof. vm_compute. reflexivity. Qed.

Theorem parse_never_faults_both : forall bs f,
  parse_file_metadata bs <> Fault f /\ parse_page_header bs <> Fault f.
Proof. intros bs f. split; [apply parse_file_metadata_never_faults | apply parse_page_header_never_faults]. Qed.

Theorem parse_consumed_both : forall bs r c,
  (parse_file_metadata bs = Ok (r, c) -> c <= N.of_nat (length bs)) /\
  (parse_page_header bs = Ok (r, c) -> c <= N.of_nat (length bs)).
Proof. intros bs r c. split; [apply parse_file_metadata_consumed | apply parse_page_header_consumed]. Qed.
