(** The compact-protocol specification is coherent: the executable reader [spec_decode] accepts exactly the
    relation [enc] (sound and complete), encodings are uniquely readable, and the canonical encoder produces
    legal encodings that decode to the value encoded.  Nothing here mentions carquet or its model. *)
From Coq Require Import ZArith NArith List Bool Lia.
From Carquet Require Import Thrift.ThriftSpec.
Import ListNotations.
Local Open Scope N_scope.

(* ------------------------------------------------------------------------------------------ *)
(** * Varints *)

Lemma uvarint_nonempty n l : uvarint n l -> l <> [].
Proof. intros H; inversion H; discriminate. Qed.

Lemma uvarint_length_pos n l : uvarint n l -> (1 <= length l)%nat.
Proof. intros H; inversion H; simpl; lia. Qed.

Lemma uvarint_bytes n l : uvarint n l -> Forall byte l.
Proof. induction 1; constructor; unfold byte in *; try lia; auto. Qed.

Lemma udec_complete : forall n l, uvarint n l -> forall fuel r, (length l <= fuel)%nat -> udec fuel (l ++ r) = Some (n, r).
Proof.
  induction 1 as [b Hb | b n bs Hb Hu IH]; intros fuel r Hf.
  - destruct fuel; [simpl in Hf; lia|]. simpl. apply N.ltb_lt in Hb. rewrite Hb. reflexivity.
  - destruct fuel; [simpl in Hf; lia|]. simpl in Hf. cbn [app udec].
    assert (E1 : (b + 128 <? 128) = false) by (apply N.ltb_ge; lia).
    assert (E2 : (b + 128 <? 256) = true) by (apply N.ltb_lt; lia).
    rewrite E1, E2, (IH fuel r) by lia. f_equal. f_equal. lia.
Qed.

Lemma udec_sound : forall fuel bs n r, udec fuel bs = Some (n, r) ->
  exists l, bs = l ++ r /\ uvarint n l /\ (length l <= fuel)%nat.
Proof.
  induction fuel as [|fuel IH]; intros bs n r H; [discriminate|].
  destruct bs as [|b tl]; [discriminate|]. cbn [udec] in H.
  destruct (b <? 128) eqn:E1.
  - inversion H; subst. exists [n]. apply N.ltb_lt in E1. repeat split; [constructor; exact E1 | simpl; lia].
  - destruct (b <? 256) eqn:E2; [|discriminate].
    destruct (udec fuel tl) as [[m r']|] eqn:E; [|discriminate]. inversion H; subst.
    destruct (IH _ _ _ E) as (l & -> & Hu & Hl). exists (b :: l). apply N.ltb_ge in E1. apply N.ltb_lt in E2.
    repeat split; [|simpl; lia].
    replace b with ((b - 128) + 128) at 2 by lia. constructor; [lia | exact Hu].
Qed.

Lemma varint_dec_complete n l r : varint n l -> varint_dec (l ++ r) = Some (n, r).
Proof.
  intros (Hu & Hl & Hn). unfold varint_dec. rewrite (udec_complete n l Hu 10 r Hl).
  apply N.ltb_lt in Hn. rewrite Hn. reflexivity.
Qed.

Lemma varint_dec_sound bs n r : varint_dec bs = Some (n, r) -> exists l, bs = l ++ r /\ varint n l.
Proof.
  unfold varint_dec. destruct (udec 10 bs) as [[m r']|] eqn:E; [|discriminate].
  destruct (m <? 2 ^ 64) eqn:E2; [|discriminate]. intros H; inversion H; subst.
  destruct (udec_sound _ _ _ _ E) as (l & -> & Hu & Hl). exists l. apply N.ltb_lt in E2.
  split; [reflexivity|]. split; [exact Hu|]. split; [exact Hl | exact E2].
Qed.

Lemma varint_length_pos n l : varint n l -> (1 <= length l)%nat.
Proof. intros (H & _). eapply uvarint_length_pos; eauto. Qed.

(** canonical encoding *)
Lemma uleb_fuel_spec : forall fuel n k, n < 128 ^ N.of_nat (S fuel) -> n < 128 ^ N.of_nat k -> (1 <= k)%nat ->
  uvarint n (uleb_fuel fuel n) /\ (length (uleb_fuel fuel n) <= k)%nat.
Proof.
  induction fuel as [|fuel IH]; intros n k Hf Hk Hk1.
  - change (128 ^ N.of_nat 1) with 128 in Hf. simpl. rewrite N.mod_small by lia. split; [constructor; lia | simpl; lia].
  - cbn [uleb_fuel]. destruct (n <? 128) eqn:E.
    + apply N.ltb_lt in E. split; [constructor; lia | simpl; lia].
    + apply N.ltb_ge in E.
      assert (k <> 1)%nat. { intros ->. change (128 ^ N.of_nat 1) with 128 in Hk. lia. }
      destruct k as [|k]; [lia|]. destruct k as [|k]; [lia|].
      assert (Hd : n / 128 < 128 ^ N.of_nat (S fuel)).
      { apply N.div_lt_upper_bound; [lia|]. rewrite <- N.pow_succ_r'. rewrite <- Nat2N.inj_succ. exact Hf. }
      assert (Hd2 : n / 128 < 128 ^ N.of_nat (S k)).
      { apply N.div_lt_upper_bound; [lia|]. rewrite <- N.pow_succ_r'. rewrite <- Nat2N.inj_succ. exact Hk. }
      destruct (IH (n / 128) (S k) Hd Hd2 ltac:(lia)) as [Hu Hl].
      split; [|simpl; lia].
      rewrite (N.div_mod n 128) at 1 by lia. rewrite N.add_comm.
      apply UV_more; [apply N.mod_lt; lia | exact Hu].
Qed.

Lemma size_nat_bound n : n < 128 ^ N.of_nat (S (N.size_nat n)).
Proof.
  destruct n as [|p]; [simpl; lia|].
  assert (H : N.pos p < 2 ^ N.of_nat (N.size_nat (N.pos p))).
  { simpl N.size_nat. induction p as [p IH|p IH|]; simpl Pos.size_nat; rewrite Nat2N.inj_succ, N.pow_succ_r'; try lia. }
  eapply N.lt_le_trans; [exact H|].
  rewrite Nat2N.inj_succ, N.pow_succ_r'.
  transitivity (128 ^ N.of_nat (N.size_nat (N.pos p))); [|lia].
  change 128 with (2 ^ 7). rewrite <- N.pow_mul_r. apply N.pow_le_mono_r; lia.
Qed.

Lemma uleb_varint n : n < 2 ^ 64 -> varint n (uleb n).
Proof.
  intros Hn. unfold uleb.
  destruct (uleb_fuel_spec (N.size_nat n) n 10 (size_nat_bound n)) as [Hu Hl]; [|lia|].
  - change (128 ^ N.of_nat 10) with (2 ^ 70). eapply N.lt_trans; [exact Hn|]. apply N.pow_lt_mono_r; lia.
  - split; [exact Hu|]. split; [exact Hl | exact Hn].
Qed.

(* ------------------------------------------------------------------------------------------ *)
(** * Zig-zag *)

Lemma even_double m : N.even (2 * m) = true.
Proof. rewrite N.even_mul. reflexivity. Qed.
Lemma even_double1 m : N.even (2 * m + 1) = false.
Proof. rewrite N.even_add, N.even_mul. reflexivity. Qed.
Lemma div_double m : 2 * m / 2 = m.
Proof. rewrite N.mul_comm. apply N.div_mul. lia. Qed.
Lemma div_double1 m : (2 * m + 1) / 2 = m.
Proof. rewrite N.mul_comm, N.div_add_l by lia. change (1 / 2) with 0. lia. Qed.

Lemma unzz_zz z : unzz (zz z) = z.
Proof.
  unfold zz, unzz. destruct (0 <=? z)%Z eqn:E.
  - apply Z.leb_le in E. replace (Z.to_N (2 * z)) with (2 * Z.to_N z) by lia.
    rewrite even_double, div_double. lia.
  - apply Z.leb_gt in E. replace (Z.to_N (-2 * z - 1)) with (2 * Z.to_N (- z - 1) + 1) by lia.
    rewrite even_double1, div_double1. lia.
Qed.

Lemma zz_unzz n : zz (unzz n) = n.
Proof.
  unfold zz, unzz. destruct (N.even n) eqn:E.
  - apply N.even_spec in E. destruct E as [m ->]. rewrite div_double.
    assert (H : (0 <=? Z.of_N m)%Z = true) by (apply Z.leb_le; lia). rewrite H. lia.
  - assert (O : N.odd n = true) by (rewrite <- N.negb_even, E; reflexivity).
    apply N.odd_spec in O. destruct O as [m ->]. rewrite div_double1.
    assert (H : (0 <=? - Z.of_N m - 1)%Z = false) by (apply Z.leb_gt; lia). rewrite H. lia.
Qed.

Lemma zz_range bits z : (1 <= bits)%Z -> in_range bits z -> zz z < 2 ^ Z.to_N bits.
Proof.
  unfold in_range, zz. intros Hb [L U].
  assert (P : (2 ^ bits = 2 * 2 ^ (bits - 1))%Z).
  { replace bits with (Z.succ (bits - 1)) at 1 by lia. rewrite Z.pow_succ_r by lia. reflexivity. }
  assert (Q : Z.of_N (2 ^ Z.to_N bits) = (2 ^ bits)%Z). { rewrite N2Z.inj_pow. rewrite Z2N.id by lia. reflexivity. }
  destruct (0 <=? z)%Z eqn:E; [apply Z.leb_le in E | apply Z.leb_gt in E]; lia.
Qed.

Lemma in_rangeb_iff bits z : in_rangeb bits z = true <-> in_range bits z.
Proof. unfold in_rangeb, in_range. rewrite andb_true_iff, Z.leb_le, Z.ltb_lt. tauto. Qed.

(* ------------------------------------------------------------------------------------------ *)
(** * Fixed-width pieces *)

Lemma take_n_complete : forall k a r, length a = k -> Forall byte a -> take_n k (a ++ r) = Some (a, r).
Proof.
  induction k as [|k IH]; intros a r Hl Hb.
  - destruct a; [reflexivity | discriminate].
  - destruct a as [|b a]; [discriminate|]. inversion Hb; subst. simpl in Hl. cbn [app take_n].
    unfold byte in H1. apply N.ltb_lt in H1. rewrite H1. rewrite IH by (auto; lia). reflexivity.
Qed.

Lemma take_n_sound : forall k bs a r, take_n k bs = Some (a, r) -> bs = a ++ r /\ length a = k /\ Forall byte a.
Proof.
  induction k as [|k IH]; intros bs a r H.
  - inversion H; subst. auto.
  - destruct bs as [|b tl]; [discriminate|]. cbn [take_n] in H. destruct (b <? 256) eqn:E; [|discriminate].
    destruct (take_n k tl) as [[a' r']|] eqn:E2; [|discriminate]. inversion H; subst.
    destruct (IH _ _ _ E2) as (-> & Hl & Hb). apply N.ltb_lt in E. repeat split; simpl; auto.
Qed.

Lemma le_bytes_length k n : length (le_bytes k n) = k.
Proof. revert n; induction k; intros; simpl; auto. Qed.

Lemma le_bytes_byte k n : Forall byte (le_bytes k n).
Proof. revert n; induction k; intros; simpl; constructor; auto. unfold byte. apply N.mod_lt. lia. Qed.

Lemma le_val_le_bytes : forall k n, n < 256 ^ N.of_nat k -> le_val (le_bytes k n) = n.
Proof.
  induction k as [|k IH]; intros n H.
  - simpl in *. lia.
  - cbn [le_bytes le_val]. rewrite IH.
    + rewrite N.add_comm. symmetry. rewrite N.mul_comm. rewrite (N.div_mod n 256) at 1 by lia. lia.
    + apply N.div_lt_upper_bound; [lia|]. rewrite <- N.pow_succ_r'. rewrite <- Nat2N.inj_succ. exact H.
Qed.

Lemma le_bytes_le_val : forall a, Forall byte a -> le_bytes (length a) (le_val a) = a /\ le_val a < 256 ^ N.of_nat (length a).
Proof.
  induction a as [|b a IH]; intros H.
  - simpl. split; [reflexivity | lia].
  - inversion H; subst. destruct (IH H3) as [E L]. unfold byte in H2. cbn [length le_val le_bytes].
    split.
    + f_equal.
      * rewrite (N.mul_comm 256). rewrite N.mod_add by lia. apply N.mod_small. exact H2.
      * rewrite (N.mul_comm 256). rewrite N.div_add by lia. rewrite N.div_small by exact H2. rewrite N.add_0_l. exact E.
    + rewrite Nat2N.inj_succ, N.pow_succ_r'. lia.
Qed.

Ltac Zify.zify_post_hook ::= Z.div_mod_to_equations.

Lemma z_of_byte_of_z z : in_range 8 z -> z_of_byte (byte_of_z z) = z /\ byte_of_z z < 256.
Proof.
  unfold in_range, z_of_byte, byte_of_z. intros [L U]. change (2 ^ (8 - 1))%Z with 128%Z in *.
  split; [|lia].
  destruct (Z.to_N (z mod 256) <? 128) eqn:E; [apply N.ltb_lt in E | apply N.ltb_ge in E]; lia.
Qed.

Lemma byte_of_z_of_byte b : b < 256 -> in_range 8 (z_of_byte b) /\ byte_of_z (z_of_byte b) = b.
Proof.
  unfold in_range, z_of_byte, byte_of_z. intros H. change (2 ^ (8 - 1))%Z with 128%Z.
  destruct (b <? 128) eqn:E; [apply N.ltb_lt in E | apply N.ltb_ge in E]; split; lia.
Qed.

(* ------------------------------------------------------------------------------------------ *)
(** * Type codes *)

Lemma type_of_code_bound c t : type_of_code c = Some t -> 1 <= c <= 13.
Proof.
  destruct c as [|p]; [discriminate|].
  do 4 (try (destruct p as [p|p|]); try discriminate; try (intros _; lia)).
Qed.

Lemma type_of_code_code t : type_of_code (code t) = Some t.
Proof. destruct t; reflexivity. Qed.

Lemma type_of_code_nonbool c t : type_of_code c = Some t -> c <> 1 -> c <> 2 -> t <> TBool /\ code t = c.
Proof.
  destruct c as [|p]; [discriminate|].
  do 4 (try (destruct p as [p|p|]); try discriminate); intros H; inversion H; subst; intros; split; try discriminate; try reflexivity; congruence.
Qed.

Lemma code_bound t : 1 <= code t <= 13.
Proof. destruct t; simpl; lia. Qed.

Lemma code_nonbool t : t <> TBool -> code t <> 1 /\ code t <> 2.
Proof. destruct t; simpl; intros; split; try congruence; lia. Qed.

(* ------------------------------------------------------------------------------------------ *)
(** * Headers *)

Lemma dec_fhdr_complete last id tc h r :
  fhdr last id tc h -> 1 <= tc <= 15 -> in_range 16 id -> dec_fhdr last (h ++ r) = Some (Some (tc, id), r).
Proof.
  intros H Htc Hid. apply in_rangeb_iff in Hid. inversion H as [Hd | l Hv]; subst.
  - cbn [app dec_fhdr].
    set (dl := Z.to_N (id - last)) in *. assert (1 <= dl <= 15) by (unfold dl; lia).
    assert (E0 : (16 * dl + tc =? 0) = false) by (apply N.eqb_neq; lia). rewrite E0.
    assert (E1 : (16 * dl + tc <? 256) = true) by (apply N.ltb_lt; lia). rewrite E1.
    assert (E2 : (16 * dl + tc) / 16 = dl) by lia. rewrite E2.
    assert (E3 : (dl =? 0) = false) by (apply N.eqb_neq; lia). rewrite E3.
    assert (E4 : (16 * dl + tc) mod 16 = tc).
    { rewrite N.add_comm, (N.mul_comm 16). rewrite N.mod_add by lia. apply N.mod_small. lia. }
    rewrite E4.
    replace (last + Z.of_N dl)%Z with id by (unfold dl; lia). rewrite Hid. reflexivity.
  - cbn [app dec_fhdr].
    assert (E0 : (tc =? 0) = false) by (apply N.eqb_neq; lia). rewrite E0.
    assert (E1 : (tc <? 256) = true) by (apply N.ltb_lt; lia). rewrite E1.
    assert (E2 : tc / 16 = 0) by lia. rewrite E2. cbn [N.eqb].
    rewrite (varint_dec_complete _ _ r Hv). cbv zeta. rewrite unzz_zz, Hid.
    assert (E4 : tc mod 16 = tc) by (apply N.mod_small; lia). rewrite E4. reflexivity.
Qed.

Lemma dec_fhdr_sound last bs o r : dec_fhdr last bs = Some (o, r) ->
  match o with
  | None => bs = 0 :: r
  | Some (tc, id) => exists h, bs = h ++ r /\ fhdr last id tc h /\ tc <= 15 /\ in_range 16 id
  end.
Proof.
  destruct bs as [|b tl]; [discriminate|]. cbn [dec_fhdr].
  destruct (b =? 0) eqn:E0. { apply N.eqb_eq in E0. subst. intros H; inversion H; subst. reflexivity. }
  apply N.eqb_neq in E0. destruct (b <? 256) eqn:E1; [|discriminate]. apply N.ltb_lt in E1.
  destruct (b / 16 =? 0) eqn:E2.
  - apply N.eqb_eq in E2. destruct (varint_dec tl) as [[n r']|] eqn:V; [|discriminate]. cbv zeta.
    destruct (in_rangeb 16 (unzz n)) eqn:R; [|discriminate]. intros H; inversion H; subst.
    destruct (varint_dec_sound _ _ _ V) as (l & -> & Hv). apply in_rangeb_iff in R.
    assert (B16 : b < 16) by (apply N.div_small_iff in E2; lia).
    exists (b :: l). split; [reflexivity|]. rewrite (N.mod_small b 16) by exact B16. split.
    + apply FH_long. rewrite zz_unzz. exact Hv.
    + split; [lia | exact R].
  - apply N.eqb_neq in E2. cbv zeta. destruct (in_rangeb 16 (last + Z.of_N (b / 16))) eqn:R; [|discriminate].
    intros H; inversion H; subst. apply in_rangeb_iff in R. exists [b]. split; [reflexivity|].
    assert (D : 1 <= b / 16 <= 15).
    { split; [lia|]. assert (b / 16 < 16) by (apply N.div_lt_upper_bound; lia). lia. }
    assert (M : b mod 16 < 16) by (apply N.mod_lt; lia).
    split; [|split; [lia|exact R]].
    replace b with (16 * Z.to_N (last + Z.of_N (b / 16) - last) + b mod 16) at 3.
    + apply FH_short. lia.
    + replace (Z.to_N (last + Z.of_N (b / 16) - last)) with (b / 16) by lia. symmetry. apply N.div_mod. lia.
Qed.

Lemma dec_lhdr_complete et ec n h r : tcode et ec -> lhdr ec n h -> dec_lhdr (h ++ r) = Some (et, n, r).
Proof.
  intros Ht H. pose proof (type_of_code_bound _ _ Ht) as B. unfold tcode in Ht.
  inversion H as [Hn | l Hn Hv]; subst; cbn [app dec_lhdr].
  - assert (E1 : (16 * n + ec <? 256) = true) by (apply N.ltb_lt; lia). rewrite E1.
    assert (E4 : (16 * n + ec) mod 16 = ec).
    { rewrite N.add_comm, (N.mul_comm 16). rewrite N.mod_add by lia. apply N.mod_small. lia. }
    assert (E2 : (16 * n + ec) / 16 = n).
    { rewrite N.add_comm, (N.mul_comm 16). rewrite N.div_add by lia. rewrite N.div_small by lia. lia. }
    rewrite E4, Ht, E2. assert (E3 : (n =? 15) = false) by (apply N.eqb_neq; lia). rewrite E3. reflexivity.
  - assert (E1 : (240 + ec <? 256) = true) by (apply N.ltb_lt; lia). rewrite E1.
    assert (E4 : (240 + ec) mod 16 = ec).
    { replace (240 + ec) with (ec + 15 * 16) by lia. rewrite N.mod_add by lia. apply N.mod_small. lia. }
    assert (E2 : (240 + ec) / 16 = 15).
    { replace (240 + ec) with (ec + 15 * 16) by lia. rewrite N.div_add by lia. rewrite N.div_small by lia. lia. }
    rewrite E4, Ht, E2. cbn [N.eqb Pos.eqb]. rewrite (varint_dec_complete _ _ r Hv).
    apply N.ltb_lt in Hn. rewrite Hn. reflexivity.
Qed.

Lemma dec_lhdr_sound bs et n r : dec_lhdr bs = Some (et, n, r) ->
  exists h ec, bs = h ++ r /\ tcode et ec /\ lhdr ec n h /\ n < 2 ^ 31.
Proof.
  destruct bs as [|b tl]; [discriminate|]. cbn [dec_lhdr].
  destruct (b <? 256) eqn:E1; [|discriminate]. apply N.ltb_lt in E1.
  destruct (type_of_code (b mod 16)) as [t|] eqn:T; [|discriminate].
  assert (M : b mod 16 < 16) by (apply N.mod_lt; lia).
  assert (D : b / 16 < 16) by (apply N.div_lt_upper_bound; lia).
  pose proof (N.div_mod b 16 ltac:(lia)) as DM.
  destruct (b / 16 =? 15) eqn:E2.
  - apply N.eqb_eq in E2. destruct (varint_dec tl) as [[m r']|] eqn:V; [|discriminate].
    destruct (m <? 2 ^ 31) eqn:E3; [|discriminate]. apply N.ltb_lt in E3. intros H; inversion H; subst.
    destruct (varint_dec_sound _ _ _ V) as (l & -> & Hv).
    exists (b :: l), (b mod 16). split; [reflexivity|]. split; [exact T|]. split; [|exact E3].
    replace b with (240 + b mod 16) at 2 by lia. apply LH_long; assumption.
  - apply N.eqb_neq in E2. intros H; inversion H; subst.
    exists [b], (b mod 16). split; [reflexivity|]. split; [exact T|]. split.
    + replace b with (16 * (b / 16) + b mod 16) at 3 by lia. apply LH_short. lia.
    + assert (b / 16 < 16) by exact D. change (2 ^ 31) with 2147483648. lia.
Qed.

(* ------------------------------------------------------------------------------------------ *)
(** * Every encoding takes at least one byte; types agree *)

Lemma enc_type t v bs : enc t v bs -> type_of v = t.
Proof. intros H; inversion H; reflexivity. Qed.

Lemma lhdr_length_pos ec n h : lhdr ec n h -> (1 <= length h)%nat.
Proof. intros H; inversion H; simpl; lia. Qed.

Lemma fhdr_length_pos last id tc h : fhdr last id tc h -> (1 <= length h)%nat.
Proof. intros H; inversion H; simpl; lia. Qed.

Lemma enc_fields_length last fs bs : enc_fields last fs bs -> (length fs < length bs)%nat.
Proof.
  induction 1; simpl; [lia| |].
  - rewrite app_length. pose proof (fhdr_length_pos _ _ _ _ H0). lia.
  - rewrite !app_length. pose proof (fhdr_length_pos _ _ _ _ H1). lia.
Qed.

Lemma enc_length_pos t v bs : enc t v bs -> (1 <= length bs)%nat.
Proof.
  intros H; inversion H; subst; simpl; rewrite ?app_length;
    repeat match goal with
           | Hv : varint _ _ |- _ => apply varint_length_pos in Hv
           | Hl : lhdr _ _ _ |- _ => apply lhdr_length_pos in Hl
           | Hf : enc_fields _ _ _ |- _ => apply enc_fields_length in Hf
           end; simpl; try lia.
Qed.

Lemma enc_elems_length et vs bs : enc_elems et vs bs -> (length vs <= length bs)%nat.
Proof.
  induction 1; simpl; [lia|]. rewrite app_length. pose proof (enc_length_pos _ _ _ H). lia.
Qed.

Lemma enc_pairs_length kt vt kvs bs : enc_pairs kt vt kvs bs -> (length kvs <= length bs)%nat.
Proof.
  induction 1; simpl; [lia|]. rewrite !app_length. pose proof (enc_length_pos _ _ _ H). lia.
Qed.

Lemma has_len_true : forall l n, (N.to_nat n <= length l)%nat -> has_len l n = true.
Proof.
  induction l as [|b t IH]; intros n H.
  - destruct n; [reflexivity | simpl in H; lia].
  - destruct n as [|p]; [reflexivity|]. change (has_len (b :: t) (N.pos p)) with (has_len t (N.pred (N.pos p))).
    apply IH. simpl in H. lia.
Qed.

Lemma has_len_le : forall l n, has_len l n = true -> (N.to_nat n <= length l)%nat.
Proof.
  induction l as [|b t IH]; intros n H.
  - destruct n; [simpl; lia | discriminate].
  - destruct n as [|p]; [simpl; lia|]. change (has_len (b :: t) (N.pos p)) with (has_len t (N.pred (N.pos p))) in H.
    apply IH in H. simpl. lia.
Qed.

(* ------------------------------------------------------------------------------------------ *)
(** * Soundness: whatever [spec_decode] reads is a legal encoding of what it returns *)

Definition sound1 (t : ttype) (dv : list N -> option (tval * list N)) : Prop :=
  forall bs v r, dv bs = Some (v, r) -> exists pre, bs = pre ++ r /\ enc t v pre.

Lemma dec_elems_sound et dv : sound1 et dv -> forall n bs vs r, dec_elems dv n bs = Some (vs, r) ->
  exists pre, bs = pre ++ r /\ enc_elems et vs pre /\ length vs = n.
Proof.
  intros S. induction n as [|n IH]; intros bs vs r H; cbn [dec_elems] in H.
  - inversion H; subst. exists []. repeat split. constructor.
  - destruct (dv bs) as [[v r1]|] eqn:E; [|discriminate].
    destruct (dec_elems dv n r1) as [[vs' r2]|] eqn:E2; [|discriminate]. inversion H; subst.
    destruct (S _ _ _ E) as (p1 & -> & H1). destruct (IH _ _ _ E2) as (p2 & -> & H2 & L).
    exists (p1 ++ p2). rewrite app_assoc. repeat split; [constructor; assumption | simpl; lia].
Qed.

Lemma dec_pairs_sound kt vt dk dv : sound1 kt dk -> sound1 vt dv -> forall n bs kvs r,
  dec_pairs dk dv n bs = Some (kvs, r) -> exists pre, bs = pre ++ r /\ enc_pairs kt vt kvs pre /\ length kvs = n.
Proof.
  intros Sk Sv. induction n as [|n IH]; intros bs kvs r H; cbn [dec_pairs] in H.
  - inversion H; subst. exists []. repeat split. constructor.
  - destruct (dk bs) as [[k r1]|] eqn:E; [|discriminate].
    destruct (dv r1) as [[v r2]|] eqn:E1; [|discriminate].
    destruct (dec_pairs dk dv n r2) as [[kvs' r3]|] eqn:E2; [|discriminate]. inversion H; subst.
    destruct (Sk _ _ _ E) as (p1 & -> & H1). destruct (Sv _ _ _ E1) as (p2 & -> & H2).
    destruct (IH _ _ _ E2) as (p3 & -> & H3 & L).
    exists (p1 ++ p2 ++ p3). rewrite <- !app_assoc. repeat split; [constructor; assumption | simpl; lia].
Qed.

Lemma dec_fields_sound dv : (forall t, sound1 t (dv t)) -> forall k last bs fs r,
  dec_fields dv k last bs = Some (fs, r) -> exists pre, bs = pre ++ r /\ enc_fields last fs pre.
Proof.
  intros S. induction k as [|k0 k IH]; intros last bs fs r H; [discriminate|]. cbn [dec_fields] in H.
  destruct (dec_fhdr last bs) as [[[[tc id]|] r1]|] eqn:F; [| |discriminate].
  - apply dec_fhdr_sound in F. destruct F as (h & -> & Hh & Htc & Hid).
    destruct (tc =? 1) eqn:T1.
    { apply N.eqb_eq in T1; subst tc. destruct (dec_fields dv k id r1) as [[fs' r2]|] eqn:E; [|discriminate].
      inversion H; subst. destruct (IH _ _ _ _ E) as (p & -> & Hp).
      exists (h ++ p). rewrite app_assoc. split; [reflexivity|]. apply (EF_bool last id true); assumption. }
    destruct (tc =? 2) eqn:T2.
    { apply N.eqb_eq in T2; subst tc. destruct (dec_fields dv k id r1) as [[fs' r2]|] eqn:E; [|discriminate].
      inversion H; subst. destruct (IH _ _ _ _ E) as (p & -> & Hp).
      exists (h ++ p). rewrite app_assoc. split; [reflexivity|]. apply (EF_bool last id false); assumption. }
    apply N.eqb_neq in T1. apply N.eqb_neq in T2.
    destruct (type_of_code tc) as [ft|] eqn:TC; [|discriminate].
    destruct (dv ft r1) as [[v r2]|] eqn:E1; [|discriminate].
    destruct (dec_fields dv k id r2) as [[fs' r3]|] eqn:E; [|discriminate]. inversion H; subst.
    destruct (S _ _ _ _ E1) as (pv & -> & Hv). destruct (IH _ _ _ _ E) as (p & -> & Hp).
    destruct (type_of_code_nonbool _ _ TC T1 T2) as [NB CD].
    pose proof (enc_type _ _ _ Hv) as TY.
    exists (h ++ pv ++ p). rewrite <- !app_assoc. split; [reflexivity|].
    apply EF_val; try assumption; rewrite TY; try assumption. rewrite CD. assumption.
  - apply dec_fhdr_sound in F. subst bs. inversion H; subst. exists [0]. split; [reflexivity | constructor].
Qed.

Lemma dec_int_sound bits mk t bs v r :
  (forall z l, in_range bits z -> varint (zz z) l -> enc t (mk z) l) ->
  dec_int bits mk bs = Some (v, r) -> exists pre, bs = pre ++ r /\ enc t v pre.
Proof.
  intros C. unfold dec_int. destruct (varint_dec bs) as [[n r']|] eqn:V; [|discriminate]. cbv zeta.
  destruct (in_rangeb bits (unzz n)) eqn:R; [|discriminate]. intros H; inversion H; subst.
  destruct (varint_dec_sound _ _ _ V) as (l & -> & Hv). exists l. split; [reflexivity|].
  apply C; [apply in_rangeb_iff; exact R | rewrite zz_unzz; exact Hv].
Qed.

Theorem dec_val_sound : forall d t, sound1 t (dec_val d t).
Proof.
  induction d as [|d0 d IH]; intros t bs v r H; [discriminate|]. cbn [dec_val] in H.
  destruct t.
  - (* bool *) destruct bs as [|b tl]; [discriminate|]. destruct (b =? 1) eqn:E1.
    + apply N.eqb_eq in E1; subst. inversion H; subst. exists [1]. split; [reflexivity | constructor].
    + destruct ((b =? 0) || (b =? 2)) eqn:E2; [|discriminate]. inversion H; subst. exists [b]. split; [reflexivity|].
      constructor. apply orb_true_iff in E2. destruct E2 as [E|E]; apply N.eqb_eq in E; auto.
  - (* byte *) destruct bs as [|b tl]; [discriminate|]. destruct (b <? 256) eqn:E1; [|discriminate].
    apply N.ltb_lt in E1. inversion H; subst. exists [b]. split; [reflexivity|].
    destruct (byte_of_z_of_byte b E1) as [R E]. rewrite <- E at 2. constructor. exact R.
  - eapply dec_int_sound; [|exact H]. intros; constructor; assumption.
  - eapply dec_int_sound; [|exact H]. intros; constructor; assumption.
  - eapply dec_int_sound; [|exact H]. intros; constructor; assumption.
  - (* double *) destruct (take_n 8 bs) as [[a r']|] eqn:E; [|discriminate]. inversion H; subst.
    destruct (take_n_sound _ _ _ _ E) as (-> & L & B). exists a. split; [reflexivity|].
    destruct (le_bytes_le_val a B) as [E1 E2]. rewrite L in *. rewrite <- E1 at 2. constructor.
    change (256 ^ N.of_nat 8) with (2 ^ 64) in E2. exact E2.
  - (* binary *) destruct (varint_dec bs) as [[n r']|] eqn:V; [|discriminate].
    destruct ((n <? 2 ^ 31) && has_len r' n) eqn:G; [|discriminate]. apply andb_true_iff in G. destruct G as [G1 G2].
    destruct (take_n (N.to_nat n) r') as [[a r'']|] eqn:E; [|discriminate]. inversion H; subst.
    destruct (varint_dec_sound _ _ _ V) as (l & -> & Hv). destruct (take_n_sound _ _ _ _ E) as (-> & L & B).
    exists (l ++ a). rewrite app_assoc. split; [reflexivity|]. apply N.ltb_lt in G1.
    constructor; [exact B | rewrite L, N2Nat.id; exact G1 | rewrite L, N2Nat.id; exact Hv].
  - (* list *) destruct (dec_lhdr bs) as [[[et n] r']|] eqn:L; [|discriminate].
    destruct (has_len r' n); [|discriminate].
    destruct (dec_elems (dec_val d et) (N.to_nat n) r') as [[vs r'']|] eqn:E; [|discriminate]. inversion H; subst.
    destruct (dec_lhdr_sound _ _ _ _ L) as (h & ec & -> & TC & LH & _).
    destruct (dec_elems_sound et _ (IH et) _ _ _ _ E) as (p & -> & HE & LE).
    exists (h ++ p). rewrite app_assoc. split; [reflexivity|]. econstructor; eauto. rewrite LE, N2Nat.id. exact LH.
  - (* set *) destruct (dec_lhdr bs) as [[[et n] r']|] eqn:L; [|discriminate].
    destruct (has_len r' n); [|discriminate].
    destruct (dec_elems (dec_val d et) (N.to_nat n) r') as [[vs r'']|] eqn:E; [|discriminate]. inversion H; subst.
    destruct (dec_lhdr_sound _ _ _ _ L) as (h & ec & -> & TC & LH & _).
    destruct (dec_elems_sound et _ (IH et) _ _ _ _ E) as (p & -> & HE & LE).
    exists (h ++ p). rewrite app_assoc. split; [reflexivity|]. econstructor; eauto. rewrite LE, N2Nat.id. exact LH.
  - (* map *) destruct (varint_dec bs) as [[n r']|] eqn:V; [|discriminate].
    destruct (varint_dec_sound _ _ _ V) as (l & -> & Hv).
    destruct (n =? 0) eqn:Z0.
    + apply N.eqb_eq in Z0; subst n. inversion H; subst. exists l. split; [reflexivity|]. constructor. exact Hv.
    + destruct ((n <? 2 ^ 31) && has_len r' n) eqn:G; [|discriminate]. apply andb_true_iff in G. destruct G as [G1 G2].
      destruct r' as [|tb r1]; [discriminate|]. destruct (tb <? 256) eqn:TB; [|discriminate]. apply N.ltb_lt in TB.
      destruct (type_of_code (tb / 16)) as [kt|] eqn:KT; [|discriminate].
      destruct (type_of_code (tb mod 16)) as [vt|] eqn:VT; [|discriminate].
      destruct (dec_pairs (dec_val d kt) (dec_val d vt) (N.to_nat n) r1) as [[kvs r'']|] eqn:E; [|discriminate].
      inversion H; subst.
      destruct (dec_pairs_sound kt vt _ _ (IH kt) (IH vt) _ _ _ _ E) as (p & -> & HP & LP).
      apply N.eqb_neq in Z0. apply N.ltb_lt in G1.
      exists (l ++ tb :: p). rewrite <- app_assoc. split; [reflexivity|].
      replace tb with (16 * (tb / 16) + tb mod 16) at 1 by (symmetry; apply N.div_mod; lia).
      apply (E_map kt vt); try assumption.
      * intros ->. simpl in LP. lia.
      * rewrite LP, N2Nat.id. exact G1.
      * rewrite LP, N2Nat.id. exact Hv.
  - (* struct *) destruct (dec_fields (dec_val d) bs 0%Z bs) as [[fs r']|] eqn:E; [|discriminate]. inversion H; subst.
    destruct (dec_fields_sound _ IH _ _ _ _ _ E) as (p & EQ & HF). exists p. split; [exact EQ | constructor; exact HF].
  - (* uuid *) destruct (take_n 16 bs) as [[a r']|] eqn:E; [|discriminate]. inversion H; subst.
    destruct (take_n_sound _ _ _ _ E) as (-> & L & B). exists a. split; [reflexivity | constructor; assumption].
Qed.

Theorem spec_decode_sound : forall bs v, spec_decode bs = Some v -> Encodes bs v.
Proof.
  intros bs v. unfold spec_decode, Encodes.
  destruct (dec_val (0 :: bs) TStruct bs) as [[v' r]|] eqn:E; [|discriminate].
  destruct r; [|discriminate]. intros H; inversion H; subst.
  destruct (dec_val_sound _ _ _ _ _ E) as (pre & -> & HE). rewrite app_nil_r. exact HE.
Qed.

(* ------------------------------------------------------------------------------------------ *)
(** * Completeness: every legal encoding is read, and read to the value it encodes *)

Definition all_depth (n : nat) (vs : list tval) : Prop := forall v, In v vs -> (vdepth v <= n)%nat.
Definition all_depth_p (n : nat) (kvs : list (tval * tval)) : Prop :=
  forall k v, In (k, v) kvs -> (vdepth k <= n)%nat /\ (vdepth v <= n)%nat.
Definition all_depth_f (n : nat) (fs : list (Z * tval)) : Prop := forall id v, In (id, v) fs -> (vdepth v <= n)%nat.

Lemma vdepth_list_le n vs : (fold_right (fun x acc => Nat.max (vdepth x) acc) O vs <= n)%nat -> all_depth n vs.
Proof.
  induction vs as [|x t IH]; intros H v Hin; [destruct Hin|]. simpl in H. destruct Hin as [->|Hin]; [lia|].
  apply IH; [lia | exact Hin].
Qed.

Lemma vdepth_pairs_le n kvs :
  (fold_right (fun (kv : tval * tval) acc => let (k, x) := kv in Nat.max (Nat.max (vdepth k) (vdepth x)) acc) O kvs <= n)%nat ->
  all_depth_p n kvs.
Proof.
  induction kvs as [|[k0 x0] t IH]; intros H k v Hin; [destruct Hin|]. simpl in H. destruct Hin as [E|Hin].
  - inversion E; subst. lia.
  - apply IH; [lia | exact Hin].
Qed.

Lemma vdepth_fields_le n fs :
  (fold_right (fun (f : Z * tval) acc => let (_, x) := f in Nat.max (vdepth x) acc) O fs <= n)%nat -> all_depth_f n fs.
Proof.
  induction fs as [|[i0 x0] t IH]; intros H id v Hin; [destruct Hin|]. simpl in H. destruct Hin as [E|Hin].
  - inversion E; subst. lia.
  - apply (IH ltac:(lia) id v Hin).
Qed.

Lemma dec_int_complete bits mk z l r : in_range bits z -> varint (zz z) l -> dec_int bits mk (l ++ r) = Some (mk z, r).
Proof.
  intros R V. unfold dec_int. rewrite (varint_dec_complete _ _ r V). cbv zeta. rewrite unzz_zz.
  apply in_rangeb_iff in R. rewrite R. reflexivity.
Qed.

Theorem enc_complete :
  (forall t v pre, enc t v pre -> forall d r, (vdepth v <= length d)%nat -> dec_val d t (pre ++ r) = Some (v, r)) /\
  (forall et vs body, enc_elems et vs body -> forall d r, all_depth (length d) vs ->
     dec_elems (dec_val d et) (length vs) (body ++ r) = Some (vs, r)) /\
  (forall kt vt kvs body, enc_pairs kt vt kvs body -> forall d r, all_depth_p (length d) kvs ->
     dec_pairs (dec_val d kt) (dec_val d vt) (length kvs) (body ++ r) = Some (kvs, r)) /\
  (forall last fs pre, enc_fields last fs pre -> forall d k r, all_depth_f (length d) fs -> (length fs < length k)%nat ->
     dec_fields (dec_val d) k last (pre ++ r) = Some (fs, r)).
Proof.
  apply enc_mutind.
  - (* true *) intros d r Hd. destruct d; [simpl in Hd; lia|]. reflexivity.
  - (* false *) intros b Hb d r Hd. destruct d; [simpl in Hd; lia|]. cbn [app dec_val].
    destruct Hb as [-> | ->]; reflexivity.
  - (* byte *) intros z Hz d r Hd. destruct d; [simpl in Hd; lia|]. cbn [app dec_val].
    destruct (z_of_byte_of_z z Hz) as [E B]. apply N.ltb_lt in B. rewrite B, E. reflexivity.
  - intros z l R V d r Hd. destruct d; [simpl in Hd; lia|]. cbn [dec_val]. apply dec_int_complete; assumption.
  - intros z l R V d r Hd. destruct d; [simpl in Hd; lia|]. cbn [dec_val]. apply dec_int_complete; assumption.
  - intros z l R V d r Hd. destruct d; [simpl in Hd; lia|]. cbn [dec_val]. apply dec_int_complete; assumption.
  - (* double *) intros bits Hb d r Hd. destruct d; [simpl in Hd; lia|]. cbn [dec_val].
    rewrite take_n_complete; [| apply le_bytes_length | apply le_bytes_byte].
    rewrite le_val_le_bytes; [reflexivity|]. change (256 ^ N.of_nat 8) with (2 ^ 64). exact Hb.
  - (* binary *) intros bs l B L V d r Hd. destruct d; [simpl in Hd; lia|]. cbn [dec_val].
    rewrite <- app_assoc. rewrite (varint_dec_complete _ _ (bs ++ r) V).
    apply N.ltb_lt in L. rewrite L. rewrite has_len_true by (rewrite Nat2N.id, app_length; lia). cbn [andb].
    rewrite Nat2N.id. rewrite take_n_complete by auto. reflexivity.
  - (* list *) intros et ec vs h body TC LH HE IH d r Hd. destruct d as [|d0 d]; [simpl in Hd; lia|]. cbn [dec_val].
    rewrite <- app_assoc. rewrite (dec_lhdr_complete et ec _ h (body ++ r) TC LH).
    rewrite has_len_true by (rewrite Nat2N.id, app_length; pose proof (enc_elems_length _ _ _ HE); lia).
    rewrite Nat2N.id. rewrite (IH d r); [reflexivity|]. apply vdepth_list_le. simpl in Hd. lia.
  - (* set *) intros et ec vs h body TC LH HE IH d r Hd. destruct d as [|d0 d]; [simpl in Hd; lia|]. cbn [dec_val].
    rewrite <- app_assoc. rewrite (dec_lhdr_complete et ec _ h (body ++ r) TC LH).
    rewrite has_len_true by (rewrite Nat2N.id, app_length; pose proof (enc_elems_length _ _ _ HE); lia).
    rewrite Nat2N.id. rewrite (IH d r); [reflexivity|]. apply vdepth_list_le. simpl in Hd. lia.
  - (* empty map *) intros l V d r Hd. destruct d; [simpl in Hd; lia|]. cbn [dec_val].
    rewrite (varint_dec_complete _ _ r V). reflexivity.
  - (* map *) intros kt vt kc vc kvs l body NE L V TK TV HP IH d r Hd. destruct d as [|d0 d]; [simpl in Hd; lia|]. cbn [dec_val].
    rewrite <- app_assoc. rewrite (varint_dec_complete _ _ ((16 * kc + vc :: body) ++ r) V).
    assert (Z0 : (N.of_nat (length kvs) =? 0) = false) by (apply N.eqb_neq; destruct kvs; [congruence | simpl; lia]).
    rewrite Z0. apply N.ltb_lt in L. rewrite L.
    rewrite has_len_true by (rewrite Nat2N.id; simpl; rewrite app_length; pose proof (enc_pairs_length _ _ _ _ HP); lia).
    cbn [andb app].
    pose proof (type_of_code_bound _ _ TK) as BK. pose proof (type_of_code_bound _ _ TV) as BV. unfold tcode in TK, TV.
    assert (E1 : (16 * kc + vc <? 256) = true) by (apply N.ltb_lt; lia). rewrite E1.
    assert (E2 : (16 * kc + vc) / 16 = kc).
    { rewrite N.add_comm, (N.mul_comm 16). rewrite N.div_add by lia. rewrite N.div_small by lia. lia. }
    assert (E3 : (16 * kc + vc) mod 16 = vc).
    { rewrite N.add_comm, (N.mul_comm 16). rewrite N.mod_add by lia. apply N.mod_small. lia. }
    rewrite E2, E3, TK, TV, Nat2N.id. rewrite (IH d r); [reflexivity|]. apply vdepth_pairs_le. simpl in Hd. lia.
  - (* struct *) intros fs bs HF IH d r Hd. destruct d as [|d0 d]; [simpl in Hd; lia|]. cbn [dec_val].
    rewrite (IH d (bs ++ r) r); [reflexivity | apply vdepth_fields_le; simpl in Hd; lia |].
    rewrite app_length. pose proof (enc_fields_length _ _ _ HF). lia.
  - (* uuid *) intros bs L B d r Hd. destruct d; [simpl in Hd; lia|]. cbn [dec_val].
    rewrite take_n_complete by auto. reflexivity.
  - (* elems nil *) intros et d r _. reflexivity.
  - (* elems cons *) intros et v vs b1 b2 H1 IH1 H2 IH2 d r Hd. cbn [length dec_elems].
    rewrite <- app_assoc. rewrite (IH1 d (b2 ++ r)) by (apply Hd; left; reflexivity).
    rewrite (IH2 d r); [reflexivity|]. intros x Hx. apply Hd. right. exact Hx.
  - (* pairs nil *) intros kt vt d r _. reflexivity.
  - (* pairs cons *) intros kt vt k v kvs b1 b2 b3 H1 IH1 H2 IH2 H3 IH3 d r Hd. cbn [length dec_pairs].
    rewrite <- !app_assoc. destruct (Hd k v (or_introl eq_refl)) as [Dk Dv].
    rewrite (IH1 d (b2 ++ b3 ++ r) Dk). rewrite (IH2 d (b3 ++ r) Dv).
    rewrite (IH3 d r); [reflexivity|]. intros k' v' Hin. apply Hd. right. exact Hin.
  - (* stop *) intros last d k r _ Hk. destruct k; [simpl in Hk; lia|]. reflexivity.
  - (* bool field *) intros last id b fs h rest Hid FH HF IH d k r Hd Hk. destruct k as [|k0 k]; [simpl in Hk; lia|].
    cbn [dec_fields]. rewrite <- app_assoc.
    rewrite (dec_fhdr_complete last id _ h (rest ++ r) FH); [|destruct b; lia|exact Hid].
    assert (Hrest : dec_fields (dec_val d) k id (rest ++ r) = Some (fs, r)).
    { apply IH; [|simpl in Hk; lia]. intros i v Hin. apply (Hd i v). right. exact Hin. }
    destruct b; cbn [N.eqb Pos.eqb]; rewrite Hrest; reflexivity.
  - (* other field *) intros last id v fs h pay rest Hid NB FH HE IHE HF IH d k r Hd Hk. destruct k as [|k0 k]; [simpl in Hk; lia|].
    cbn [dec_fields]. rewrite <- !app_assoc. pose proof (code_bound (type_of v)) as CB.
    rewrite (dec_fhdr_complete last id _ h (pay ++ rest ++ r) FH); [|lia|exact Hid].
    destruct (code_nonbool _ NB) as [N1 N2]. apply N.eqb_neq in N1. apply N.eqb_neq in N2. rewrite N1, N2.
    rewrite type_of_code_code.
    rewrite (IHE d (rest ++ r)) by (apply (Hd id v); left; reflexivity).
    rewrite IH; [reflexivity | | simpl in Hk; lia]. intros i x Hin. apply (Hd i x). right. exact Hin.
Qed.

(** a value is never nested deeper than its encoding is long *)
Theorem enc_depth :
  (forall t v pre, enc t v pre -> (vdepth v <= length pre)%nat) /\
  (forall et vs body, enc_elems et vs body ->
     (fold_right (fun x acc => Nat.max (vdepth x) acc) O vs <= length body)%nat) /\
  (forall kt vt kvs body, enc_pairs kt vt kvs body ->
     (fold_right (fun (kv : tval * tval) acc => let (k, x) := kv in Nat.max (Nat.max (vdepth k) (vdepth x)) acc) O kvs <= length body)%nat) /\
  (forall last fs pre, enc_fields last fs pre ->
     (S (fold_right (fun (f : Z * tval) acc => let (_, x) := f in Nat.max (vdepth x) acc) O fs) <= length pre)%nat).
Proof.
  apply enc_mutind; intros; cbn [vdepth fold_right length]; rewrite ?app_length;
    repeat match goal with
           | Hv : varint _ _ |- _ => apply varint_length_pos in Hv
           | Hl : lhdr _ _ _ |- _ => apply lhdr_length_pos in Hl
           | Hf : fhdr _ _ _ _ |- _ => apply fhdr_length_pos in Hf
           end; try rewrite le_bytes_length; cbn [length vdepth]; try lia.
Qed.

Theorem spec_decode_complete : forall bs v, Encodes bs v -> spec_decode bs = Some v.
Proof.
  intros bs v H. unfold spec_decode, Encodes in *.
  destruct enc_complete as (C & _). destruct enc_depth as (D & _).
  pose proof (C _ _ _ H (0 :: bs) []) as E. rewrite app_nil_r in E. rewrite E; [reflexivity|].
  pose proof (D _ _ _ H). simpl. lia.
Qed.

(** [spec_decode] IS the relation *)
Corollary spec_decode_iff bs v : spec_decode bs = Some v <-> Encodes bs v.
Proof. split; [apply spec_decode_sound | apply spec_decode_complete]. Qed.

(** encodings are uniquely readable *)
Corollary enc_unique bs v v' : Encodes bs v -> Encodes bs v' -> v = v'.
Proof. intros H H'. apply spec_decode_complete in H, H'. congruence. Qed.

(* ------------------------------------------------------------------------------------------ *)
(** * The canonical encoder produces legal encodings *)

Section TvalInd.
  Variable P : tval -> Prop.
  Hypothesis Hbool : forall b, P (VBool b).
  Hypothesis Hbyte : forall z, P (VByte z).
  Hypothesis Hi16 : forall z, P (VI16 z).
  Hypothesis Hi32 : forall z, P (VI32 z).
  Hypothesis Hi64 : forall z, P (VI64 z).
  Hypothesis Hdouble : forall b, P (VDouble b).
  Hypothesis Hbinary : forall bs, P (VBinary bs).
  Hypothesis Hlist : forall et vs, Forall P vs -> P (VList et vs).
  Hypothesis Hset : forall et vs, Forall P vs -> P (VSet et vs).
  Hypothesis Hmap : forall kvs, Forall (fun kv => P (fst kv) /\ P (snd kv)) kvs -> P (VMap kvs).
  Hypothesis Hstruct : forall fs, Forall (fun f => P (snd f)) fs -> P (VStruct fs).
  Hypothesis Huuid : forall bs, P (VUuid bs).

  Fixpoint tval_ind' (v : tval) : P v :=
    match v with
    | VBool b => Hbool b | VByte z => Hbyte z | VI16 z => Hi16 z | VI32 z => Hi32 z | VI64 z => Hi64 z
    | VDouble b => Hdouble b | VBinary bs => Hbinary bs
    | VList et vs => Hlist et vs ((fix go (l : list tval) : Forall P l :=
                       match l with [] => Forall_nil _ | x :: t => Forall_cons _ (tval_ind' x) (go t) end) vs)
    | VSet et vs => Hset et vs ((fix go (l : list tval) : Forall P l :=
                       match l with [] => Forall_nil _ | x :: t => Forall_cons _ (tval_ind' x) (go t) end) vs)
    | VMap kvs => Hmap kvs ((fix go (l : list (tval * tval)) : Forall (fun kv => P (fst kv) /\ P (snd kv)) l :=
                       match l with
                       | [] => Forall_nil _
                       | (k, x) :: t => Forall_cons (k, x) (conj (tval_ind' k) (tval_ind' x)) (go t)
                       end) kvs)
    | VStruct fs => Hstruct fs ((fix go (l : list (Z * tval)) : Forall (fun f => P (snd f)) l :=
                       match l with [] => Forall_nil _ | (i, x) :: t => Forall_cons (i, x) (tval_ind' x) (go t) end) fs)
    | VUuid bs => Huuid bs
    end.
End TvalInd.

Lemma lt31_64 n : n < 2147483648 -> n < 2 ^ 64.
Proof. intros H. eapply N.lt_trans; [exact H | reflexivity]. Qed.

Lemma enc_fhdr_ok last id tc : in_range 16 id -> fhdr last id tc (enc_fhdr last id tc).
Proof.
  intros R. unfold enc_fhdr. destruct ((1 <=? id - last) && (id - last <=? 15))%Z eqn:E.
  - apply andb_true_iff in E. destruct E as [E1 E2]. apply Z.leb_le in E1, E2. apply FH_short. lia.
  - apply FH_long. apply uleb_varint. pose proof (zz_range 16 id ltac:(lia) R) as B. change (Z.to_N 16) with 16 in B.
    eapply N.lt_trans; [exact B|]. apply N.pow_lt_mono_r; lia.
Qed.

Lemma enc_lhdr_ok ec n : n < 2 ^ 31 -> lhdr ec n (enc_lhdr ec n).
Proof.
  intros H. unfold enc_lhdr. destruct (n <=? 14) eqn:E.
  - apply N.leb_le in E. apply LH_short. exact E.
  - apply LH_long; [exact H|]. apply uleb_varint. apply lt31_64. exact H.
Qed.

Lemma uleb_zz_varint bits z : (1 <= bits <= 64)%Z -> in_range bits z -> varint (zz z) (uleb (zz z)).
Proof.
  intros Hb R. apply uleb_varint. pose proof (zz_range bits z ltac:(lia) R) as B.
  eapply N.lt_le_trans; [exact B|]. apply N.pow_le_mono_r; lia.
Qed.

Lemma elems_ok et vs :
  Forall (fun v => tval_ok v -> enc (type_of v) v (spec_encode_val v)) vs ->
  fold_right (fun x acc => type_of x = et /\ tval_ok x /\ acc) True vs ->
  enc_elems et vs (flat_map spec_encode_val vs).
Proof.
  induction vs as [|x t IHt]; intros H A; [constructor|]. inversion H; subst. cbn [fold_right] in A.
  destruct A as (T & O & A). cbn [flat_map]. pose proof (H2 O) as E. rewrite T in E.
  constructor; [exact E | apply IHt; assumption].
Qed.

Lemma pairs_ok kt vt l :
  Forall (fun kv => (tval_ok (fst kv) -> enc (type_of (fst kv)) (fst kv) (spec_encode_val (fst kv))) /\
                    (tval_ok (snd kv) -> enc (type_of (snd kv)) (snd kv) (spec_encode_val (snd kv)))) l ->
  fold_right (fun (kv : tval * tval) acc => let (k, x) := kv in
                type_of k = kt /\ type_of x = vt /\ tval_ok k /\ tval_ok x /\ acc) True l ->
  enc_pairs kt vt l (flat_map (fun kv => spec_encode_val (fst kv) ++ spec_encode_val (snd kv)) l).
Proof.
  induction l as [|[k x] l IHl]; intros H A; [constructor|]. inversion H; subst. cbn [fold_right] in A.
  destruct A as (T1 & T2 & O1 & O2 & A). destruct H2 as [Pk Px]. cbn [fst snd] in Pk, Px.
  pose proof (Pk O1) as E1. pose proof (Px O2) as E2. rewrite T1 in E1. rewrite T2 in E2.
  cbn [flat_map fst snd]. rewrite <- app_assoc. constructor; [exact E1 | exact E2 | apply IHl; assumption].
Qed.

Theorem spec_encode_ok : forall v, tval_ok v -> enc (type_of v) v (spec_encode_val v).
Proof.
  induction v using tval_ind'; intros OK; cbn [type_of].
  - destruct b; cbn [spec_encode_val]; constructor. left; reflexivity.
  - cbn in OK. constructor. exact OK.
  - cbn in OK. constructor; [exact OK | apply (uleb_zz_varint 16); [lia | exact OK]].
  - cbn in OK. constructor; [exact OK | apply (uleb_zz_varint 32); [lia | exact OK]].
  - cbn in OK. constructor; [exact OK | apply (uleb_zz_varint 64); [lia | exact OK]].
  - cbn in OK. constructor. exact OK.
  - cbn in OK. destruct OK as [B L]. cbn [spec_encode_val]. constructor; [exact B | exact L |].
    apply uleb_varint. apply lt31_64. exact L.
  - (* list *) cbn [spec_encode_val]. cbn [tval_ok] in OK. destruct OK as [L A].
    apply (E_list et (code et)); [apply type_of_code_code | apply enc_lhdr_ok; exact L | apply elems_ok; assumption].
  - (* set *) cbn [spec_encode_val]. cbn [tval_ok] in OK. destruct OK as [L A].
    apply (E_set et (code et)); [apply type_of_code_code | apply enc_lhdr_ok; exact L | apply elems_ok; assumption].
  - (* map *) destruct kvs as [|[k0 x0] t].
    + cbn [spec_encode_val]. constructor. apply (uleb_varint 0). lia.
    + cbn [tval_ok] in OK. destruct OK as [L A]. cbn [spec_encode_val first_types].
      apply (E_map (type_of k0) (type_of x0)); try apply type_of_code_code; try discriminate; [exact L | |].
      * apply uleb_varint. apply lt31_64. exact L.
      * apply (pairs_ok (type_of k0) (type_of x0)); [exact H | exact A].
  - (* struct *) cbn [spec_encode_val]. constructor. generalize 0%Z as last. cbn [tval_ok] in OK.
    induction fs as [|[id x] t IHt]; intros last; [constructor|].
    inversion H; subst. cbn [fold_right] in OK. destruct OK as (R & O & A). cbn [snd] in H2.
    destruct x; try (apply EF_val; [exact R | discriminate | apply enc_fhdr_ok; exact R | apply H2; exact O | apply IHt; assumption]).
    apply EF_bool; [exact R | apply enc_fhdr_ok; exact R | apply IHt; assumption].
  - cbn in OK. destruct OK. constructor; assumption.
Qed.

Theorem spec_encode_roundtrip : forall fs, tval_ok (VStruct fs) -> spec_decode (spec_encode (VStruct fs)) = Some (VStruct fs).
Proof. intros fs OK. apply spec_decode_complete. apply (spec_encode_ok (VStruct fs) OK). Qed.

(** a non-trivial instance: every wire type, long-form header, 15-element list *)
Example spec_roundtrip_example :
  let v := VStruct [(1%Z, VI32 (-1)); (20%Z, VBool true); (3%Z, VList TI64 (repeat (VI64 (-9223372036854775808)) 15));
                    (4%Z, VMap [(VBinary [1; 2], VStruct [(1%Z, VDouble 5)])]); (5%Z, VSet TBool [VBool false]);
                    (32767%Z, VUuid (repeat 7 16)); ((-5)%Z, VByte (-128)); (6%Z, VI16 32767); (7%Z, VMap [])] in
  tval_ok v /\ spec_decode (spec_encode v) = Some v.
Proof. split; [|vm_compute; reflexivity]. cbn. unfold in_range, byte. repeat split; try lia; repeat constructor; lia. Qed.
