(** The compact-protocol specification is coherent: the executable reader [spec_decode] accepts exactly the
    relation [enc] (sound and complete), encodings are uniquely readable, and the canonical encoder produces
    legal encodings that decode to the value encoded.  Nothing here mentions carquet or its model. *)
From Coq Require Import ZArith NArith List Bool Lia.
From Carquet Require Import Thrift.ThriftSpec.
Import ListNotations.
Local Open Scope N_scope.

(* ------------------------------------------------------------------------------------------ *)
(** * Varints *)

Lemma uvarint_nonempty n l : uvarint n l -> l <> [].
Proof. intros H; inversion H; discriminate. Qed.

Lemma uvarint_length_pos n l : uvarint n l -> (1 <= length l)%nat.
Proof. intros H; inversion H; simpl; lia. Qed.

Lemma uvarint_bytes n l : uvarint n l -> Forall byte l.
Proof. induction 1; constructor; unfold byte in *; try lia; auto. Qed.

Lemma udec_complete : forall n l, uvarint n l -> forall fuel r, (length l <= fuel)%nat -> udec fuel (l ++ r) = Some (n, r).
Proof.
  induction 1 as [b Hb | b n bs Hb Hu IH]; intros fuel r Hf.
  - destruct fuel; [simpl in Hf; lia|]. simpl. apply N.ltb_lt in Hb. rewrite Hb. reflexivity.
  - destruct fuel; [simpl in Hf; lia|]. simpl in Hf. cbn [app udec].
    assert (E1 : (b + 128 <? 128) = false) by (apply N.ltb_ge; lia).
    assert (E2 : (b + 128 <? 256) = true) by (apply N.ltb_lt; lia).
    rewrite E1, E2, (IH fuel r) by lia. f_equal. f_equal. lia.
Qed.

Lemma udec_sound : forall fuel bs n r, udec fuel bs = Some (n, r) ->
  exists l, bs = l ++ r /\ uvarint n l /\ (length l <= fuel)%nat.
Proof.
  induction fuel as [|fuel IH]; intros bs n r H; [discriminate|].
  destruct bs as [|b tl]; [discriminate|]. cbn [udec] in H.
  destruct (b <? 128) eqn:E1.
  - inversion H; subst. exists [n]. apply N.ltb_lt in E1. repeat split; [constructor; exact E1 | simpl; lia].
  - destruct (b <? 256) eqn:E2; [|discriminate].
    destruct (udec fuel tl) as [[m r']|] eqn:E; [|discriminate]. inversion H; subst.
    destruct (IH _ _ _ E) as (l & -> & Hu & Hl). exists (b :: l). apply N.ltb_ge in E1. apply N.ltb_lt in E2.
    repeat split; [|simpl; lia].
    replace b with ((b - 128) + 128) at 2 by lia. constructor; [lia | exact Hu].
Qed.

Lemma varint_dec_complete n l r : varint n l -> varint_dec (l ++ r) = Some (n, r).
Proof.
  intros (Hu & Hl & Hn). unfold varint_dec. rewrite (udec_complete n l Hu 10 r Hl).
  apply N.ltb_lt in Hn. rewrite Hn. reflexivity.
Qed.

Lemma varint_dec_sound bs n r : varint_dec bs = Some (n, r) -> exists l, bs = l ++ r /\ varint n l.
Proof.
  unfold varint_dec. destruct (udec 10 bs) as [[m r']|] eqn:E; [|discriminate].
  destruct (m <? 2 ^ 64) eqn:E2; [|discriminate]. intros H; inversion H; subst.
  destruct (udec_sound _ _ _ _ E) as (l & -> & Hu & Hl). exists l. apply N.ltb_lt in E2.
  split; [reflexivity|]. split; [exact Hu|]. split; [exact Hl | exact E2].
Qed.

Lemma varint_length_pos n l : varint n l -> (1 <= length l)%nat.
Proof. intros (H & _). eapply uvarint_length_pos; eauto. Qed.

(** canonical encoding *)
Lemma uleb_fuel_spec : forall fuel n k, n < 128 ^ N.of_nat (S fuel) -> n < 128 ^ N.of_nat k -> (1 <= k)%nat ->
  uvarint n (uleb_fuel fuel n) /\ (length (uleb_fuel fuel n) <= k)%nat.
Proof.
  induction fuel as [|fuel IH]; intros n k Hf Hk Hk1.
  - change (128 ^ N.of_nat 1) with 128 in Hf. simpl. rewrite N.mod_small by lia. split; [constructor; lia | simpl; lia].
  - cbn [uleb_fuel]. destruct (n <? 128) eqn:E.
    + apply N.ltb_lt in E. split; [constructor; lia | simpl; lia].
    + apply N.ltb_ge in E.
      assert (k <> 1)%nat. { intros ->. change (128 ^ N.of_nat 1) with 128 in Hk. lia. }
      destruct k as [|k]; [lia|]. destruct k as [|k]; [lia|].
      assert (Hd : n / 128 < 128 ^ N.of_nat (S fuel)).
      { apply N.div_lt_upper_bound; [lia|]. rewrite <- N.pow_succ_r'. rewrite <- Nat2N.inj_succ. exact Hf. }
      assert (Hd2 : n / 128 < 128 ^ N.of_nat (S k)).
      { apply N.div_lt_upper_bound; [lia|]. rewrite <- N.pow_succ_r'. rewrite <- Nat2N.inj_succ. exact Hk. }
      destruct (IH (n / 128) (S k) Hd Hd2 ltac:(lia)) as [Hu Hl].
      split; [|simpl; lia].
      rewrite (N.div_mod n 128) at 1 by lia. rewrite N.add_comm.
      apply UV_more; [apply N.mod_lt; lia | exact Hu].
Qed.

Lemma size_nat_bound n : n < 128 ^ N.of_nat (S (N.size_nat n)).
Proof.
  destruct n as [|p]; [simpl; lia|].
  assert (H : N.pos p < 2 ^ N.of_nat (N.size_nat (N.pos p))).
  { simpl N.size_nat. induction p as [p IH|p IH|]; simpl Pos.size_nat; rewrite Nat2N.inj_succ, N.pow_succ_r'; try lia. }
  eapply N.lt_le_trans; [exact H|].
  rewrite Nat2N.inj_succ, N.pow_succ_r'.
  transitivity (128 ^ N.of_nat (N.size_nat (N.pos p))); [|lia].
  change 128 with (2 ^ 7). rewrite <- N.pow_mul_r. apply N.pow_le_mono_r; lia.
Qed.

Lemma uleb_varint n : n < 2 ^ 64 -> varint n (uleb n).
Proof.
  intros Hn. unfold uleb.
  destruct (uleb_fuel_spec (N.size_nat n) n 10 (size_nat_bound n)) as [Hu Hl]; [|lia|].
  - change (128 ^ N.of_nat 10) with (2 ^ 70). eapply N.lt_trans; [exact Hn|]. apply N.pow_lt_mono_r; lia.
  - split; [exact Hu|]. split; [exact Hl | exact Hn].
Qed.

(* ------------------------------------------------------------------------------------------ *)
(** * Zig-zag *)

Lemma even_double m : N.even (2 * m) = true.
Proof. rewrite N.even_mul. reflexivity. Qed.
Lemma even_double1 m : N.even (2 * m + 1) = false.
Proof. rewrite N.even_add, N.even_mul. reflexivity. Qed.
Lemma div_double m : 2 * m / 2 = m.
Proof. rewrite N.mul_comm. apply N.div_mul. lia. Qed.
Lemma div_double1 m : (2 * m + 1) / 2 = m.
Proof. rewrite N.mul_comm, N.div_add_l by lia. change (1 / 2) with 0. lia. Qed.

Lemma unzz_zz z : unzz (zz z) = z.
Proof.
  unfold zz, unzz. destruct (0 <=? z)%Z eqn:E.
  - apply Z.leb_le in E. replace (Z.to_N (2 * z)) with (2 * Z.to_N z) by lia.
    rewrite even_double, div_double. lia.
  - apply Z.leb_gt in E. replace (Z.to_N (-2 * z - 1)) with (2 * Z.to_N (- z - 1) + 1) by lia.
    rewrite even_double1, div_double1. lia.
Qed.

Lemma zz_unzz n : zz (unzz n) = n.
Proof.
  unfold zz, unzz. destruct (N.even n) eqn:E.
  - apply N.even_spec in E. destruct E as [m ->]. rewrite div_double.
    assert (H : (0 <=? Z.of_N m)%Z = true) by (apply Z.leb_le; lia). rewrite H. lia.
  - assert (O : N.odd n = true) by (rewrite <- N.negb_even, E; reflexivity).
    apply N.odd_spec in O. destruct O as [m ->]. rewrite div_double1.
    assert (H : (0 <=? - Z.of_N m - 1)%Z = false) by (apply Z.leb_gt; lia). rewrite H. lia.
Qed.

Lemma zz_range bits z : (1 <= bits)%Z -> in_range bits z -> zz z < 2 ^ Z.to_N bits.
Proof.
  unfold in_range, zz. intros Hb [L U].
  assert (P : (2 ^ bits = 2 * 2 ^ (bits - 1))%Z).
  { replace bits with (Z.succ (bits - 1)) at 1 by lia. rewrite Z.pow_succ_r by lia. reflexivity. }
  assert (Q : Z.of_N (2 ^ Z.to_N bits) = (2 ^ bits)%Z). { rewrite N2Z.inj_pow. rewrite Z2N.id by lia. reflexivity. }
  destruct (0 <=? z)%Z eqn:E; [apply Z.leb_le in E | apply Z.leb_gt in E]; lia.
Qed.

Lemma in_rangeb_iff bits z : in_rangeb bits z = true <-> in_range bits z.
Proof. unfold in_rangeb, in_range. rewrite andb_true_iff, Z.leb_le, Z.ltb_lt. tauto. Qed.

(* ------------------------------------------------------------------------------------------ *)
(** * Fixed-width pieces *)

Lemma take_n_complete : forall k a r, length a = k -> Forall byte a -> take_n k (a ++ r) = Some (a, r).
Proof.
  induction k as [|k IH]; intros a r Hl Hb.
  - destruct a; [reflexivity | discriminate].
  - destruct a as [|b a]; [discriminate|]. inversion Hb; subst. simpl in Hl. cbn [app take_n].
    unfold byte in H1. apply N.ltb_lt in H1. rewrite H1. rewrite IH by (auto; lia). reflexivity.
Qed.

Lemma take_n_sound : forall k bs a r, take_n k bs = Some (a, r) -> bs = a ++ r /\ length a = k /\ Forall byte a.
Proof.
  induction k as [|k IH]; intros bs a r H.
  - inversion H; subst. auto.
  - destruct bs as [|b tl]; [discriminate|]. cbn [take_n] in H. destruct (b <? 256) eqn:E; [|discriminate].
    destruct (take_n k tl) as [[a' r']|] eqn:E2; [|discriminate]. inversion H; subst.
    destruct (IH _ _ _ E2) as (-> & Hl & Hb). apply N.ltb_lt in E. repeat split; simpl; auto.
Qed.

Lemma le_bytes_length k n : length (le_bytes k n) = k.
Proof. revert n; induction k; intros; simpl; auto. Qed.

Lemma le_bytes_byte k n : Forall byte (le_bytes k n).
Proof. revert n; induction k; intros; simpl; constructor; auto. unfold byte. apply N.mod_lt. lia. Qed.

Lemma le_val_le_bytes : forall k n, n < 256 ^ N.of_nat k -> le_val (le_bytes k n) = n.
Proof.
  induction k as [|k IH]; intros n H.
  - simpl in *. lia.
  - cbn [le_bytes le_val]. rewrite IH.
    + rewrite N.add_comm. symmetry. rewrite N.mul_comm. rewrite (N.div_mod n 256) at 1 by lia. lia.
    + apply N.div_lt_upper_bound; [lia|]. rewrite <- N.pow_succ_r'. rewrite <- Nat2N.inj_succ. exact H.
Qed.

Lemma le_bytes_le_val : forall a, Forall byte a -> le_bytes (length a) (le_val a) = a /\ le_val a < 256 ^ N.of_nat (length a).
Proof.
  induction a as [|b a IH]; intros H.
  - simpl. split; [reflexivity | lia].
  - inversion H; subst. destruct (IH H3) as [E L]. unfold byte in H2. cbn [length le_val le_bytes].
    split.
    + f_equal.
      * rewrite (N.mul_comm 256). rewrite N.mod_add by lia. apply N.mod_small. exact H2.
      * rewrite (N.mul_comm 256). rewrite N.div_add by lia. rewrite N.div_small by exact H2. rewrite N.add_0_l. exact E.
    + rewrite Nat2N.inj_succ, N.pow_succ_r'. lia.
Qed.

Ltac Zify.zify_post_hook ::= Z.div_mod_to_equations.

Lemma z_of_byte_of_z z : in_range 8 z -> z_of_byte (byte_of_z z) = z /\ byte_of_z z < 256.
Proof.
  unfold in_range, z_of_byte, byte_of_z. intros [L U]. change (2 ^ (8 - 1))%Z with 128%Z in *.
  split; [|lia].
  destruct (Z.to_N (z mod 256) <? 128) eqn:E; [apply N.ltb_lt in E | apply N.ltb_ge in E]; lia.
Qed.

Lemma byte_of_z_of_byte b : b < 256 -> in_range 8 (z_of_byte b) /\ byte_of_z (z_of_byte b) = b.
Proof.
  unfold in_range, z_of_byte, byte_of_z. intros H. change (2 ^ (8 - 1))%Z with 128%Z.
  destruct (b <? 128) eqn:E; [apply N.ltb_lt in E | apply N.ltb_ge in E]; split; lia.
Qed.

(* ------------------------------------------------------------------------------------------ *)
(** * Type codes *)

Lemma type_of_code_bound c t : type_of_code c = Some t -> 1 <= c <= 13.
Proof.
  destruct c as [|p]; [discriminate|].
  do 4 (destruct p as [p|p|]; try discriminate; try (intros _; lia)).
Qed.

Lemma type_of_code_code t : type_of_code (code t) = Some t.
Proof. destruct t; reflexivity. Qed.

Lemma type_of_code_nonbool c t : type_of_code c = Some t -> c <> 1 -> c <> 2 -> t <> TBool /\ code t = c.
Proof.
  destruct c as [|p]; [discriminate|].
  do 4 (destruct p as [p|p|]; try discriminate); intros H; inversion H; subst; intros; split; try discriminate; try reflexivity; congruence.
Qed.

Lemma code_bound t : 1 <= code t <= 13.
Proof. destruct t; simpl; lia. Qed.

Lemma code_nonbool t : t <> TBool -> code t <> 1 /\ code t <> 2.
Proof. destruct t; simpl; intros; split; try congruence; lia. Qed.

(* ------------------------------------------------------------------------------------------ *)
(** * Headers *)

Lemma dec_fhdr_complete last id tc h r :
  fhdr last id tc h -> 1 <= tc <= 15 -> in_range 16 id -> dec_fhdr last (h ++ r) = Some (Some (tc, id), r).
Proof.
  intros H Htc Hid. apply in_rangeb_iff in Hid. inversion H as [Hd | l Hv]; subst.
  - cbn [app dec_fhdr].
    set (dl := Z.to_N (id - last)) in *. assert (1 <= dl <= 15) by (unfold dl; lia).
    assert (E0 : (16 * dl + tc =? 0) = false) by (apply N.eqb_neq; lia). rewrite E0.
    assert (E1 : (16 * dl + tc <? 256) = true) by (apply N.ltb_lt; lia). rewrite E1.
    assert (E2 : (16 * dl + tc) / 16 = dl) by lia. rewrite E2.
    assert (E3 : (dl =? 0) = false) by (apply N.eqb_neq; lia). rewrite E3.
    assert (E4 : (16 * dl + tc) mod 16 = tc) by lia. rewrite E4.
    replace (last + Z.of_N dl)%Z with id by (unfold dl; lia). rewrite Hid. reflexivity.
  - cbn [app dec_fhdr].
    assert (E0 : (tc =? 0) = false) by (apply N.eqb_neq; lia). rewrite E0.
    assert (E1 : (tc <? 256) = true) by (apply N.ltb_lt; lia). rewrite E1.
    assert (E2 : tc / 16 = 0) by lia. rewrite E2. cbn [N.eqb].
    rewrite (varint_dec_complete _ _ r Hv). cbv zeta. rewrite unzz_zz, Hid.
    assert (E4 : tc mod 16 = tc) by lia. rewrite E4. reflexivity.
Qed.

Lemma dec_fhdr_sound last bs o r : dec_fhdr last bs = Some (o, r) ->
  match o with
  | None => bs = 0 :: r
  | Some (tc, id) => exists h, bs = h ++ r /\ fhdr last id tc h /\ 1 <= tc <= 15 /\ in_range 16 id
  end.
Proof.
  destruct bs as [|b tl]; [discriminate|]. cbn [dec_fhdr].
  destruct (b =? 0) eqn:E0. { apply N.eqb_eq in E0. subst. intros H; inversion H; subst. reflexivity. }
  apply N.eqb_neq in E0. destruct (b <? 256) eqn:E1; [|discriminate]. apply N.ltb_lt in E1.
  destruct (b / 16 =? 0) eqn:E2.
  - apply N.eqb_eq in E2. destruct (varint_dec tl) as [[n r']|] eqn:V; [|discriminate]. cbv zeta.
    destruct (in_rangeb 16 (unzz n)) eqn:R; [|discriminate]. intros H; inversion H; subst.
    destruct (varint_dec_sound _ _ _ V) as (l & -> & Hv). apply in_rangeb_iff in R.
    exists (b :: l). split; [reflexivity|]. split.
    + replace (b mod 16) with b by lia. apply FH_long. rewrite zz_unzz. exact Hv.
    + split; [lia | exact R].
  - apply N.eqb_neq in E2. cbv zeta. destruct (in_rangeb 16 (last + Z.of_N (b / 16))) eqn:R; [|discriminate].
    intros H; inversion H; subst. apply in_rangeb_iff in R. exists [b]. split; [reflexivity|].
    assert (D : 1 <= b / 16 <= 15) by lia.
    split; [|split; [|exact R]].
    + replace b with (16 * Z.to_N (last + Z.of_N (b / 16) - last) + b mod 16) at 3.
      * apply FH_short. lia.
      * replace (Z.to_N (last + Z.of_N (b / 16) - last)) with (b / 16) by lia. lia.
    + assert (b mod 16 <> 0 \/ b mod 16 = 0) by lia.
      (* a short-form header with type nibble 0 is not produced by any encoder, but it is not STOP either;
         the reader above treats the nibble as a type code, which must then be a valid one: *)
      lia.
Qed.
