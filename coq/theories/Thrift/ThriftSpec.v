(** Thrift compact protocol - specification, written from the protocol description
    (thrift/doc/specs/thrift-compact-protocol.md), independent of carquet and of its model.

    - value universe [tval]
    - unsigned LEB128 varints and zig-zag
    - the relation [enc t v bytes]: "bytes is a legal compact-protocol encoding of v (of wire type t)",
      admitting EVERY legal encoding:
        * field headers in short form (delta 1..15 in the high nibble) or long form (type byte followed
          by the zig-zag varint of the i16 field id) - long form is legal for every id;
        * booleans carried by the field-header type (1 = true, 2 = false) when they are struct fields,
          as one byte when they are container elements (1 = true; 0 or 2 = false: the text of the
          specification says 0, the Java/C++ reference writers emit 2, every reader tests "== 1");
        * the element-type code of bool in list/set/map headers may be 1 or 2 (the specification says:
          "a reader should be capable to deal with both cases");
        * list/set headers in short form (size 0..14) or long form (0xF nibble + varint size); the long
          form is admitted for every size below 2^31 (the reference readers accept it);
        * varints: NON-MINIMAL (zero-padded) varints ARE INCLUDED, up to 10 bytes, provided the value
          fits 64 bits.  Why: the specification defines varints as ULEB128 and does not require
          minimality; every reference reader accumulates 7-bit groups until a byte without the
          continuation bit, so padded varints are read by conforming readers and a parser that claims to
          read "the encodings an independent encoder produces" must read them too.  Varints longer than
          10 bytes, or whose value does not fit 64 bits, are excluded (no 64-bit reader accepts them);
        * integers must be in the range of their declared type; binary lengths, list and map sizes
          below 2^31 (they are int32 in the protocol).
    - [spec_decode]: executable reading of the relation, type-directed by the wire types found in the
      stream (proved sound and complete for [enc] in ThriftSpecProofs.v)
    - [spec_encode]: the canonical encoder (shortest forms). *)
From Coq Require Import ZArith NArith List Bool Lia.
Import ListNotations.
Local Open Scope N_scope.

(* ------------------------------------------------------------------------------------------ *)
(** * Wire types and values *)

Inductive ttype : Set :=
| TBool | TByte | TI16 | TI32 | TI64 | TDouble | TBinary | TList | TSet | TMap | TStruct | TUuid.

Definition ttype_eqb (a b : ttype) : bool :=
  match a, b with
  | TBool, TBool | TByte, TByte | TI16, TI16 | TI32, TI32 | TI64, TI64 | TDouble, TDouble
  | TBinary, TBinary | TList, TList | TSet, TSet | TMap, TMap | TStruct, TStruct | TUuid, TUuid => true
  | _, _ => false
  end.

(** canonical type code (field type for non-booleans; element type) *)
Definition code (t : ttype) : N :=
  match t with
  | TBool => 1 | TByte => 3 | TI16 => 4 | TI32 => 5 | TI64 => 6 | TDouble => 7 | TBinary => 8
  | TList => 9 | TSet => 10 | TMap => 11 | TStruct => 12 | TUuid => 13
  end.

(** reading of a type code in element position (list / set / map headers) *)
Definition type_of_code (c : N) : option ttype :=
  match c with
  | 1 => Some TBool | 2 => Some TBool | 3 => Some TByte | 4 => Some TI16 | 5 => Some TI32
  | 6 => Some TI64 | 7 => Some TDouble | 8 => Some TBinary | 9 => Some TList | 10 => Some TSet
  | 11 => Some TMap | 12 => Some TStruct | 13 => Some TUuid | _ => None
  end.

(** [tcode t c]: c is an admissible code for t in element position *)
Definition tcode (t : ttype) (c : N) : Prop := type_of_code c = Some t.

Inductive tval : Type :=
| VBool (b : bool)
| VByte (z : Z)
| VI16 (z : Z)
| VI32 (z : Z)
| VI64 (z : Z)
| VDouble (bits : N)                    (* IEEE-754 binary64 bit pattern *)
| VBinary (bs : list N)
| VList (et : ttype) (vs : list tval)
| VSet (et : ttype) (vs : list tval)
| VMap (kvs : list (tval * tval))       (* key/value types are those of the entries: an empty map carries none on the wire *)
| VStruct (fs : list (Z * tval))        (* (field id, value) in stream order *)
| VUuid (bs : list N).

Definition type_of (v : tval) : ttype :=
  match v with
  | VBool _ => TBool | VByte _ => TByte | VI16 _ => TI16 | VI32 _ => TI32 | VI64 _ => TI64
  | VDouble _ => TDouble | VBinary _ => TBinary | VList _ _ => TList | VSet _ _ => TSet
  | VMap _ => TMap | VStruct _ => TStruct | VUuid _ => TUuid
  end.

(** nesting depth: 1 for scalars, 1 + the deepest element for containers and structs *)
Fixpoint vdepth (v : tval) : nat :=
  match v with
  | VList _ vs | VSet _ vs => S (fold_right (fun x acc => Nat.max (vdepth x) acc) O vs)
  | VMap kvs => S (fold_right (fun (kv : tval * tval) acc => let (k, x) := kv in Nat.max (Nat.max (vdepth k) (vdepth x)) acc) O kvs)
  | VStruct fs => S (fold_right (fun (f : Z * tval) acc => let (_, x) := f in Nat.max (vdepth x) acc) O fs)
  | _ => 1%nat
  end.

Definition byte (b : N) : Prop := b < 256.
Definition in_range (bits : Z) (z : Z) : Prop := (- 2 ^ (bits - 1) <= z < 2 ^ (bits - 1))%Z.
Definition in_rangeb (bits : Z) (z : Z) : bool := ((- 2 ^ (bits - 1) <=? z) && (z <? 2 ^ (bits - 1)))%Z.

(* ------------------------------------------------------------------------------------------ *)
(** * Zig-zag and varints *)

(** zig-zag: 0 -> 0, -1 -> 1, 1 -> 2, -2 -> 3 ... *)
Definition zz (z : Z) : N := if (0 <=? z)%Z then Z.to_N (2 * z) else Z.to_N (- 2 * z - 1).
Definition unzz (n : N) : Z := if N.even n then Z.of_N (n / 2) else (- Z.of_N (n / 2) - 1)%Z.

(** [uvarint n bs]: bs is an unsigned LEB128 encoding of n (possibly zero-padded) *)
Inductive uvarint : N -> list N -> Prop :=
| UV_last b : b < 128 -> uvarint b [b]
| UV_more b n bs : b < 128 -> uvarint n bs -> uvarint (b + 128 * n) ((b + 128) :: bs).

Definition varint (n : N) (bs : list N) : Prop :=
  uvarint n bs /\ (length bs <= 10)%nat /\ n < 2 ^ 64.

(** canonical (shortest) encoding *)
Fixpoint uleb_fuel (fuel : nat) (n : N) : list N :=
  match fuel with
  | O => [n mod 128]
  | S f => if n <? 128 then [n] else (n mod 128 + 128) :: uleb_fuel f (n / 128)
  end.
Definition uleb (n : N) : list N := uleb_fuel (N.size_nat n) n.

(** executable reading: at most [fuel] bytes *)
Fixpoint udec (fuel : nat) (bs : list N) : option (N * list N) :=
  match fuel with
  | O => None
  | S f =>
    match bs with
    | [] => None
    | b :: tl =>
      if b <? 128 then Some (b, tl)
      else if b <? 256 then
        match udec f tl with
        | Some (n, r) => Some (b - 128 + 128 * n, r)
        | None => None
        end
      else None
    end
  end.

Definition varint_dec (bs : list N) : option (N * list N) :=
  match udec 10 bs with
  | Some (n, r) => if n <? 2 ^ 64 then Some (n, r) else None
  | None => None
  end.

(** little-endian fixed width *)
Fixpoint le_bytes (k : nat) (n : N) : list N :=
  match k with O => [] | S k' => (n mod 256) :: le_bytes k' (n / 256) end.
Fixpoint le_val (bs : list N) : N :=
  match bs with [] => 0 | b :: tl => b + 256 * le_val tl end.

Definition byte_of_z (z : Z) : N := Z.to_N (z mod 256).
Definition z_of_byte (b : N) : Z := if b <? 128 then Z.of_N b else (Z.of_N b - 256)%Z.

(* ------------------------------------------------------------------------------------------ *)
(** * The encoding relation *)

Inductive fhdr (last id : Z) (tc : N) : list N -> Prop :=
| FH_short : (1 <= id - last <= 15)%Z -> fhdr last id tc [16 * Z.to_N (id - last) + tc]
| FH_long l : varint (zz id) l -> fhdr last id tc (tc :: l).

Inductive lhdr (ec : N) (n : N) : list N -> Prop :=
| LH_short : n <= 14 -> lhdr ec n [16 * n + ec]
| LH_long l : n < 2 ^ 31 -> varint n l -> lhdr ec n ((240 + ec) :: l).

Inductive enc : ttype -> tval -> list N -> Prop :=
| E_true : enc TBool (VBool true) [1]
| E_false b : b = 0 \/ b = 2 -> enc TBool (VBool false) [b]
| E_byte z : in_range 8 z -> enc TByte (VByte z) [byte_of_z z]
| E_i16 z l : in_range 16 z -> varint (zz z) l -> enc TI16 (VI16 z) l
| E_i32 z l : in_range 32 z -> varint (zz z) l -> enc TI32 (VI32 z) l
| E_i64 z l : in_range 64 z -> varint (zz z) l -> enc TI64 (VI64 z) l
| E_double bits : bits < 2 ^ 64 -> enc TDouble (VDouble bits) (le_bytes 8 bits)
| E_binary bs l : Forall byte bs -> N.of_nat (length bs) < 2 ^ 31 -> varint (N.of_nat (length bs)) l ->
    enc TBinary (VBinary bs) (l ++ bs)
| E_list et ec vs h body : tcode et ec -> lhdr ec (N.of_nat (length vs)) h -> enc_elems et vs body ->
    enc TList (VList et vs) (h ++ body)
| E_set et ec vs h body : tcode et ec -> lhdr ec (N.of_nat (length vs)) h -> enc_elems et vs body ->
    enc TSet (VSet et vs) (h ++ body)
| E_map_empty l : varint 0 l -> enc TMap (VMap []) l          (* size 0 (possibly padded), no type byte *)
| E_map kt vt kc vc kvs l body : kvs <> [] -> N.of_nat (length kvs) < 2 ^ 31 ->
    varint (N.of_nat (length kvs)) l -> tcode kt kc -> tcode vt vc -> enc_pairs kt vt kvs body ->
    enc TMap (VMap kvs) (l ++ (16 * kc + vc) :: body)
| E_struct fs bs : enc_fields 0%Z fs bs -> enc TStruct (VStruct fs) bs
| E_uuid bs : length bs = 16%nat -> Forall byte bs -> enc TUuid (VUuid bs) bs
with enc_elems : ttype -> list tval -> list N -> Prop :=
| EE_nil et : enc_elems et [] []
| EE_cons et v vs b1 b2 : enc et v b1 -> enc_elems et vs b2 -> enc_elems et (v :: vs) (b1 ++ b2)
with enc_pairs : ttype -> ttype -> list (tval * tval) -> list N -> Prop :=
| EP_nil kt vt : enc_pairs kt vt [] []
| EP_cons kt vt k v kvs b1 b2 b3 : enc kt k b1 -> enc vt v b2 -> enc_pairs kt vt kvs b3 ->
    enc_pairs kt vt ((k, v) :: kvs) (b1 ++ b2 ++ b3)
with enc_fields : Z -> list (Z * tval) -> list N -> Prop :=
| EF_stop last : enc_fields last [] [0]
| EF_bool last id (b : bool) fs h rest : in_range 16 id -> fhdr last id (if b then 1 else 2) h ->
    enc_fields id fs rest -> enc_fields last ((id, VBool b) :: fs) (h ++ rest)
| EF_val last id v fs h pay rest : in_range 16 id -> type_of v <> TBool ->
    fhdr last id (code (type_of v)) h -> enc (type_of v) v pay -> enc_fields id fs rest ->
    enc_fields last ((id, v) :: fs) (h ++ pay ++ rest).

Scheme enc_mind := Induction for enc Sort Prop
with enc_elems_mind := Induction for enc_elems Sort Prop
with enc_pairs_mind := Induction for enc_pairs Sort Prop
with enc_fields_mind := Induction for enc_fields Sort Prop.
Combined Scheme enc_mutind from enc_mind, enc_elems_mind, enc_pairs_mind, enc_fields_mind.

(** A message (FileMetaData, PageHeader) is a struct at top level. *)
Definition Encodes (bytes : list N) (v : tval) : Prop := enc TStruct v bytes.

(* ------------------------------------------------------------------------------------------ *)
(** * Executable reading *)

(** at least n bytes are left (n may be huge: no conversion to nat) *)
Fixpoint has_len (l : list N) (n : N) : bool :=
  match n with
  | 0 => true
  | _ => match l with [] => false | _ :: t => has_len t (N.pred n) end
  end.

Fixpoint take_n (k : nat) (bs : list N) : option (list N * list N) :=
  match k with
  | O => Some ([], bs)
  | S k' => match bs with
            | [] => None
            | b :: tl => if b <? 256 then
                           match take_n k' tl with Some (a, r) => Some (b :: a, r) | None => None end
                         else None
            end
  end.

Definition dec_int (bits : Z) (mk : Z -> tval) (bs : list N) : option (tval * list N) :=
  match varint_dec bs with
  | Some (n, r) => let z := unzz n in if in_rangeb bits z then Some (mk z, r) else None
  | None => None
  end.

(** list / set header: (element type, size, rest) *)
Definition dec_lhdr (bs : list N) : option (ttype * N * list N) :=
  match bs with
  | [] => None
  | h :: tl =>
    if h <? 256 then
      match type_of_code (h mod 16) with
      | None => None
      | Some et =>
        if h / 16 =? 15 then
          match varint_dec tl with
          | Some (n, r) => if n <? 2 ^ 31 then Some (et, n, r) else None
          | None => None
          end
        else Some (et, h / 16, tl)
      end
    else None
  end.

(** field header: None = STOP; Some (type code, id) *)
Definition dec_fhdr (last : Z) (bs : list N) : option (option (N * Z) * list N) :=
  match bs with
  | [] => None
  | h :: tl =>
    if h =? 0 then Some (None, tl)
    else if h <? 256 then
      if h / 16 =? 0 then
        match varint_dec tl with
        | Some (n, r) => let id := unzz n in
                         if in_rangeb 16 id then Some (Some (h mod 16, id), r) else None
        | None => None
        end
      else let id := (last + Z.of_N (h / 16))%Z in
           if in_rangeb 16 id then Some (Some (h mod 16, id), tl) else None
    else None
  end.

(** loops of the reader, abstracted over the reader [dv] of one value *)
Fixpoint dec_elems (dv : list N -> option (tval * list N)) (n : nat) (bs : list N) : option (list tval * list N) :=
  match n with
  | O => Some ([], bs)
  | S n' => match dv bs with
            | Some (v, r) => match dec_elems dv n' r with
                             | Some (vs, r') => Some (v :: vs, r')
                             | None => None
                             end
            | None => None
            end
  end.

Fixpoint dec_pairs (dk dv : list N -> option (tval * list N)) (n : nat) (bs : list N) : option (list (tval * tval) * list N) :=
  match n with
  | O => Some ([], bs)
  | S n' => match dk bs with
            | Some (k, r) =>
              match dv r with
              | Some (v, r1) => match dec_pairs dk dv n' r1 with
                                | Some (kvs, r') => Some ((k, v) :: kvs, r')
                                | None => None
                                end
              | None => None
              end
            | None => None
            end
  end.

(** fields up to and including STOP; the length of [k] bounds the number of fields (each takes at least
    one byte: the bytes themselves are passed) *)
Fixpoint dec_fields (dv : ttype -> list N -> option (tval * list N)) (k : list N) (last : Z) (bs : list N)
  : option (list (Z * tval) * list N) :=
  match k with
  | [] => None
  | _ :: k' =>
    match dec_fhdr last bs with
    | None => None
    | Some (None, r) => Some ([], r)
    | Some (Some (tc, id), r) =>
      if tc =? 1 then
        match dec_fields dv k' id r with Some (fs, r') => Some ((id, VBool true) :: fs, r') | None => None end
      else if tc =? 2 then
        match dec_fields dv k' id r with Some (fs, r') => Some ((id, VBool false) :: fs, r') | None => None end
      else
        match type_of_code tc with
        | None => None
        | Some ft =>
          match dv ft r with
          | Some (v, r1) =>
            match dec_fields dv k' id r1 with Some (fs, r') => Some ((id, v) :: fs, r') | None => None end
          | None => None
          end
        end
    end
  end.

(** [dec_val d t bs]: read one value of wire type t in element position; the length of d bounds the
    nesting depth (a value nested deeper than its own byte length does not exist; d is a list used for its
    length only, so that the bytes themselves can serve). *)
Fixpoint dec_val (d : list N) (t : ttype) (bs : list N) {struct d} : option (tval * list N) :=
  match d with
  | [] => None
  | _ :: d' =>
    match t with
    | TBool => match bs with
               | b :: tl => if b =? 1 then Some (VBool true, tl)
                            else if (b =? 0) || (b =? 2) then Some (VBool false, tl) else None
               | [] => None
               end
    | TByte => match bs with
               | b :: tl => if b <? 256 then Some (VByte (z_of_byte b), tl) else None
               | [] => None
               end
    | TI16 => dec_int 16 VI16 bs
    | TI32 => dec_int 32 VI32 bs
    | TI64 => dec_int 64 VI64 bs
    | TDouble => match take_n 8 bs with Some (a, r) => Some (VDouble (le_val a), r) | None => None end
    | TBinary => match varint_dec bs with
                 | Some (n, r) =>
                   if (n <? 2 ^ 31) && has_len r n then
                     match take_n (N.to_nat n) r with Some (a, r') => Some (VBinary a, r') | None => None end
                   else None
                 | None => None
                 end
    | TList => match dec_lhdr bs with
               | Some (et, n, r) =>
                 if has_len r n then
                   match dec_elems (dec_val d' et) (N.to_nat n) r with Some (vs, r') => Some (VList et vs, r') | None => None end
                 else None
               | None => None
               end
    | TSet => match dec_lhdr bs with
              | Some (et, n, r) =>
                if has_len r n then
                  match dec_elems (dec_val d' et) (N.to_nat n) r with Some (vs, r') => Some (VSet et vs, r') | None => None end
                else None
              | None => None
              end
    | TMap => match varint_dec bs with
              | Some (n, r) =>
                if n =? 0 then Some (VMap [], r)
                else if (n <? 2 ^ 31) && has_len r n then
                  match r with
                  | tb :: r1 =>
                    if tb <? 256 then
                      match type_of_code (tb / 16), type_of_code (tb mod 16) with
                      | Some kt, Some vt =>
                        match dec_pairs (dec_val d' kt) (dec_val d' vt) (N.to_nat n) r1 with
                        | Some (kvs, r') => Some (VMap kvs, r')
                        | None => None
                        end
                      | _, _ => None
                      end
                    else None
                  | [] => None
                  end
                else None
              | None => None
              end
    | TStruct => match dec_fields (dec_val d') bs 0%Z bs with
                 | Some (fs, r) => Some (VStruct fs, r)
                 | None => None
                 end
    | TUuid => match take_n 16 bs with Some (a, r) => Some (VUuid a, r) | None => None end
    end
  end.

(** Decode a whole message: a struct that uses all the bytes. *)
Definition spec_decode (bs : list N) : option tval :=
  match dec_val (0 :: bs) TStruct bs with
  | Some (v, []) => Some v
  | _ => None
  end.

(* ------------------------------------------------------------------------------------------ *)
(** * Canonical encoder (shortest forms; bool elements 1 / 0; bool element type 1) *)

Definition enc_fhdr (last id : Z) (tc : N) : list N :=
  let delta := (id - last)%Z in
  if ((1 <=? delta) && (delta <=? 15))%Z then [16 * Z.to_N delta + tc]
  else tc :: uleb (zz id).

Definition enc_lhdr (ec : N) (n : N) : list N :=
  if n <=? 14 then [16 * n + ec] else (240 + ec) :: uleb n.

Definition first_types (kvs : list (tval * tval)) : N * N :=
  match kvs with
  | (k, v) :: _ => (code (type_of k), code (type_of v))
  | [] => (0, 0)
  end.

Fixpoint spec_encode_val (v : tval) : list N :=
  let fields := fix fields (last : Z) (fs : list (Z * tval)) : list N :=
    match fs with
    | [] => [0]
    | (id, VBool b) :: tl => enc_fhdr last id (if b then 1 else 2) ++ fields id tl
    | (id, v) :: tl => enc_fhdr last id (code (type_of v)) ++ spec_encode_val v ++ fields id tl
    end in
  match v with
  | VBool b => [if b then 1 else 0]
  | VByte z => [byte_of_z z]
  | VI16 z | VI32 z | VI64 z => uleb (zz z)
  | VDouble bits => le_bytes 8 bits
  | VBinary bs => uleb (N.of_nat (length bs)) ++ bs
  | VList et vs => enc_lhdr (code et) (N.of_nat (length vs)) ++ flat_map spec_encode_val vs
  | VSet et vs => enc_lhdr (code et) (N.of_nat (length vs)) ++ flat_map spec_encode_val vs
  | VMap kvs =>
    match kvs with
    | [] => [0]
    | _ => let '(kc, vc) := first_types kvs in
           uleb (N.of_nat (length kvs)) ++ (16 * kc + vc) ::
           flat_map (fun kv => spec_encode_val (fst kv) ++ spec_encode_val (snd kv)) kvs
    end
  | VStruct fs => fields 0%Z fs
  | VUuid bs => bs
  end.

Definition spec_encode (v : tval) : list N := spec_encode_val v.

(** Values the protocol can carry (ranges, homogeneous containers); the domain of [spec_encode]. *)
Fixpoint tval_ok (v : tval) : Prop :=
  match v with
  | VBool _ => True
  | VByte z => in_range 8 z
  | VI16 z => in_range 16 z
  | VI32 z => in_range 32 z
  | VI64 z => in_range 64 z
  | VDouble bits => bits < 2 ^ 64
  | VBinary bs => Forall byte bs /\ N.of_nat (length bs) < 2 ^ 31
  | VList et vs | VSet et vs =>
      N.of_nat (length vs) < 2 ^ 31 /\
      fold_right (fun x acc => type_of x = et /\ tval_ok x /\ acc) True vs
  | VMap kvs =>
      N.of_nat (length kvs) < 2 ^ 31 /\
      fold_right (fun (kv : tval * tval) acc =>
                    let (k, x) := kv in
                    type_of k = type_of (fst (hd (k, x) kvs)) /\ type_of x = type_of (snd (hd (k, x) kvs)) /\
                    tval_ok k /\ tval_ok x /\ acc) True kvs
  | VStruct fs => fold_right (fun (f : Z * tval) acc => let (id, x) := f in in_range 16 id /\ tval_ok x /\ acc) True fs
  | VUuid bs => length bs = 16%nat /\ Forall byte bs
  end.
