(** Conformance of the model of thrift_encode.c / thrift_decode.c with the compact-protocol specification:
    - the writer primitives produce the canonical encodings of ThriftSpec (so carquet's bytes are genuine
      compact protocol);
    - the reader primitives accept EVERY legal encoding (padded varints, long-form headers ...) and return the
      value encoded;
    - the (repaired) skip function consumes exactly one legal encoding of any value of any wire type, within
      the nesting limit;
    - round-trip corollaries with the C integer widths: varints up to 10 bytes, zig-zag of INT64_MIN/MAX,
      field headers for every id gap, list headers around 14/15. *)
From Coq Require Import ZArith NArith List Bool Lia.
From Carquet Require Import Base.Res Base.Bits Gen.Consts_gen Gen.Enums_gen.
From Carquet Require Import Thrift.ThriftSpec Thrift.ThriftSpecProofs Thrift.ThriftModel Thrift.ThriftProofs.
Import ListNotations.
Local Open Scope N_scope.

(* ------------------------------------------------------------------------------------------ *)
(** * Bit-level facts *)

Lemma sweep (P : N -> bool) (n : nat) :
  forallb P (map N.of_nat (seq 0 n)) = true -> forall b, b < N.of_nat n -> P b = true.
Proof.
  intros H b Hb. rewrite forallb_forall in H. apply H. apply in_map_iff. exists (N.to_nat b).
  split; [apply N2Nat.id | apply in_seq; lia].
Qed.

Lemma land_127 b : b < 128 -> N.land b 127 = b /\ N.land b 128 = 0 /\ N.land (b + 128) 127 = b /\ N.land (b + 128) 128 = 128.
Proof.
  intros H.
  pose proof (sweep (fun b => (N.land b 127 =? b) && (N.land b 128 =? 0) && (N.land (b + 128) 127 =? b) && (N.land (b + 128) 128 =? 128)) 128
                ltac:(vm_compute; reflexivity) b H) as S.
  cbv beta in S. rewrite !andb_true_iff, !N.eqb_eq in S. tauto.
Qed.

Lemma nibbles h : h < 256 -> N.land h 15 = h mod 16 /\ N.land (N.shiftr h 4) 15 = h / 16.
Proof.
  intros H.
  pose proof (sweep (fun h => (N.land h 15 =? h mod 16) && (N.land (N.shiftr h 4) 15 =? h / 16)) 256
                ltac:(vm_compute; reflexivity) h H) as S.
  cbv beta in S. rewrite !andb_true_iff, !N.eqb_eq in S. tauto.
Qed.

Lemma land_lo_hi a c s : a < 2 ^ s -> N.land a (c * 2 ^ s) = 0.
Proof.
  intros Ha. apply N.bits_inj. intros i. rewrite N.land_spec, N.bits_0.
  destruct (N.lt_ge_cases i s) as [L|G].
  - rewrite N.mul_pow2_bits_low by exact L. apply andb_false_r.
  - rewrite (testbit_high_lt a s i Ha G). reflexivity.
Qed.

Lemma lor_add a c s : a < 2 ^ s -> N.lor a (c * 2 ^ s) = a + c * 2 ^ s.
Proof.
  intros Ha. pose proof (land_lo_hi a c s Ha) as L.
  rewrite <- N.lxor_lor by exact L. symmetry. apply N.add_nocarry_lxor. exact L.
Qed.

Lemma lor_128 x : x < 128 -> N.lor x 128 = x + 128.
Proof. intros H. change (N.lor x (1 * 2 ^ 7) = x + 1 * 2 ^ 7). apply lor_add. exact H. Qed.

(* ------------------------------------------------------------------------------------------ *)
(** * Varints: the writer is canonical ULEB128, the reader accepts every legal varint *)

Lemma uleb_fuel_indep : forall f1 f2 v, v < 128 ^ N.of_nat (S f1) -> v < 128 ^ N.of_nat (S f2) ->
  uleb_fuel f1 v = uleb_fuel f2 v.
Proof.
  induction f1 as [|f1 IH]; intros f2 v H1 H2.
  - change (128 ^ N.of_nat 1) with 128 in H1. destruct f2; simpl.
    + reflexivity.
    + apply N.ltb_lt in H1. rewrite H1. apply N.ltb_lt in H1. rewrite N.mod_small by exact H1. reflexivity.
  - destruct f2 as [|f2].
    + change (128 ^ N.of_nat 1) with 128 in H2. simpl. apply N.ltb_lt in H2. rewrite H2. apply N.ltb_lt in H2.
      rewrite N.mod_small by exact H2. reflexivity.
    + cbn [uleb_fuel]. destruct (v <? 128); [reflexivity|]. f_equal. apply IH.
      * apply N.div_lt_upper_bound; [lia|]. rewrite <- N.pow_succ_r'. rewrite <- Nat2N.inj_succ. exact H1.
      * apply N.div_lt_upper_bound; [lia|]. rewrite <- N.pow_succ_r'. rewrite <- Nat2N.inj_succ. exact H2.
Qed.

Lemma varint_loop_S r v : varint_loop (S r) v =
  if 128 <=? v then match varint_loop r (N.shiftr v 7) with
                    | Ok bs => Ok (N.lor (N.land v 127) 128 :: bs) | Err c => Err c | Fault f => Fault f end
  else Ok [v].
Proof. reflexivity. Qed.

Lemma uleb_fuel_S f v : uleb_fuel (S f) v = if v <? 128 then [v] else (v mod 128 + 128) :: uleb_fuel f (v / 128).
Proof. reflexivity. Qed.

Lemma varint_loop_spec : forall room v, v < 128 ^ N.of_nat (S room) -> varint_loop (S room) v = Ok (uleb_fuel room v).
Proof.
  induction room as [|room IH]; intros v Hv.
  - change (128 ^ N.of_nat 1) with 128 in Hv. rewrite varint_loop_S. cbn [uleb_fuel].
    assert (E : (128 <=? v) = false) by (apply N.leb_gt; exact Hv). rewrite E. rewrite N.mod_small by exact Hv. reflexivity.
  - rewrite varint_loop_S, uleb_fuel_S. destruct (v <? 128) eqn:E.
    + apply N.ltb_lt in E. assert (E' : (128 <=? v) = false) by (apply N.leb_gt; exact E). rewrite E'. reflexivity.
    + apply N.ltb_ge in E. assert (E' : (128 <=? v) = true) by (apply N.leb_le; exact E). rewrite E'.
      rewrite N.shiftr_div_pow2. change (2 ^ 7) with 128.
      rewrite IH.
      * f_equal. f_equal. change 127 with (N.ones 7). rewrite N.land_ones. change (2 ^ 7) with 128.
        apply lor_128. apply N.mod_lt. lia.
      * apply N.div_lt_upper_bound; [lia|]. rewrite <- N.pow_succ_r'. rewrite <- Nat2N.inj_succ. exact Hv.
Qed.

Lemma pow64_lt_128_10 : 2 ^ 64 < 128 ^ N.of_nat 10.
Proof. reflexivity. Qed.

(** thrift_write_varint writes the canonical ULEB128 encoding of its (uint64_t) argument *)
Theorem varint_bytes_canonical : forall v, varint_bytes v = Ok (uleb (v mod 2 ^ 64)).
Proof.
  intros v. unfold varint_bytes, uleb. set (w := v mod 2 ^ 64).
  assert (Hw : w < 2 ^ 64) by (apply N.mod_lt; discriminate).
  assert (H10 : w < 128 ^ N.of_nat 10) by (eapply N.lt_trans; [exact Hw | exact pow64_lt_128_10]).
  rewrite (varint_loop_spec 9 w H10). f_equal. apply uleb_fuel_indep; [exact H10 | apply size_nat_bound].
Qed.

Corollary varint_bytes_small v : v < 2 ^ 64 -> varint_bytes v = Ok (uleb v).
Proof. intros H. rewrite varint_bytes_canonical, N.mod_small by exact H. reflexivity. Qed.

(** decoder state seen by the proofs: where the cursor is; no boolean pending *)
Definition at_ (d : decoder) (rest : list N) (pos : N) (lf : list Z) : Prop :=
  d_rest d = rest /\ d_pos d = pos /\ d_lfid d = lf /\ d_boolp d = false.

Lemma read_byte_raw_at d b tl pos lf : at_ d (b :: tl) pos lf ->
  exists d', read_byte_raw d = Ok (b, d') /\ at_ d' tl (pos + 1) lf.
Proof.
  intros (R & P & L & B). destruct (read_byte_raw_cases d) as [[E _]|(b0 & tl0 & E & H)]; [congruence|].
  rewrite R in E. inversion E; subst b0 tl0. eexists. split; [exact H|]. unfold at_. simpl. rewrite P. auto.
Qed.

Lemma has_bytes_at d rest pos lf n : at_ d rest pos lf -> (N.to_nat n <= length rest)%nat -> has_bytes d n = true.
Proof. intros (R & _) H. apply len_nat. rewrite R. exact H. Qed.

Lemma read_varint_loop_spec : forall m l, uvarint m l -> forall k shift result d tail pos lf,
  (length l <= k)%nat -> result < 2 ^ shift -> result + m * 2 ^ shift < 2 ^ 64 ->
  at_ d (l ++ tail) pos lf ->
  exists d', read_varint_loop k shift result d = Ok (result + m * 2 ^ shift, d') /\
             at_ d' tail (pos + N.of_nat (length l)) lf.
Proof.
  induction 1 as [b Hb | b m bs Hb Hu IH]; intros k shift result d tail pos lf Hk Hr Ht Hat.
  - destruct k; [simpl in Hk; lia|]. cbn [read_varint_loop].
    rewrite (has_bytes_at d _ pos lf 1 Hat) by (simpl; lia).
    destruct (read_byte_raw_at d b tail pos lf Hat) as (d' & RB & Hat'). rewrite RB.
    destruct (land_127 b Hb) as (L1 & L2 & _ & _). rewrite L1, L2. cbn [N.eqb].
    rewrite N.shiftl_mul_pow2. rewrite N.mod_small by lia. rewrite lor_add by exact Hr.
    exists d'. split; [reflexivity|]. exact Hat'.
  - destruct k; [simpl in Hk; lia|]. simpl in Hk. cbn [app read_varint_loop].
    rewrite (has_bytes_at d _ pos lf 1 Hat) by (simpl; lia).
    destruct (read_byte_raw_at d (b + 128) (bs ++ tail) pos lf Hat) as (d1 & RB & Hat1). rewrite RB.
    destruct (land_127 b Hb) as (_ & _ & L3 & L4). rewrite L3, L4. cbn [N.eqb].
    rewrite N.shiftl_mul_pow2.
    assert (E7 : 2 ^ (shift + 7) = 128 * 2 ^ shift) by (rewrite N.pow_add_r; change (2 ^ 7) with 128; lia).
    rewrite N.mod_small by lia. rewrite lor_add by exact Hr.
    assert (BX : b * 2 ^ shift <= 127 * 2 ^ shift) by (apply N.mul_le_mono_r; lia).
    destruct (IH k (shift + 7) (result + b * 2 ^ shift) d1 tail (pos + 1) lf) as (d' & RL & Hat');
      [lia | rewrite E7; lia | rewrite E7; lia | exact Hat1 |].
    exists d'. split.
    + rewrite RL. f_equal. f_equal. rewrite E7. lia.
    + cbn [length]. replace (pos + N.of_nat (S (length bs))) with (pos + 1 + N.of_nat (length bs)) by lia. exact Hat'.
Qed.

(** thrift_read_varint reads every legal varint (padded or not) to its value *)
Theorem read_varint_spec : forall n l d tail pos lf, varint n l -> at_ d (l ++ tail) pos lf ->
  exists d', read_varint d = Ok (n, d') /\ at_ d' tail (pos + N.of_nat (length l)) lf.
Proof.
  intros n l d tail pos lf (Hu & Hl & Hn) Hat. unfold read_varint.
  destruct (read_varint_loop_spec n l Hu 10 0 0 d tail pos lf Hl) as (d' & R & Hat'); try exact Hat.
  - simpl. lia.
  - simpl. lia.
  - exists d'. split; [|exact Hat']. rewrite R. f_equal. f_equal. simpl. lia.
Qed.

(* ------------------------------------------------------------------------------------------ *)
(** * Zig-zag with the C widths *)

Lemma lxor_ones64 x : x < 2 ^ 64 -> N.lxor x ones64 = ones64 - x.
Proof.
  intros Hx. change ones64 with (N.ones 64).
  assert (L : N.land (N.lxor x (N.ones 64)) x = 0).
  { apply N.bits_inj. intros i. rewrite N.land_spec, N.lxor_spec, N.bits_0.
    destruct (N.lt_ge_cases i 64) as [Lt|Ge].
    - rewrite N.ones_spec_low by exact Lt. destruct (N.testbit x i); reflexivity.
    - rewrite (testbit_high_lt x 64 i Hx Ge). apply andb_false_r. }
  assert (S : N.lxor (N.lxor x (N.ones 64)) x = N.ones 64).
  { rewrite N.lxor_comm. apply lxor_cancel_l. }
  pose proof (N.add_nocarry_lxor _ _ L) as A. rewrite S in A. lia.
Qed.

Ltac Zify.zify_post_hook ::= Z.div_mod_to_equations.

Theorem zigzag_encode64_spec : forall z, in_range 64 z -> zigzag_encode64 z = zz z.
Proof.
  intros z [L U]. unfold zigzag_encode64, zz, u64. change (2 ^ (64 - 1))%Z with 9223372036854775808%Z in *.
  change (2 ^ 64)%Z with 18446744073709551616%Z. change (2 ^ 64) with 18446744073709551616.
  destruct (z <? 0)%Z eqn:E; [apply Z.ltb_lt in E | apply Z.ltb_ge in E].
  - assert (E2 : (0 <=? z)%Z = false) by (apply Z.leb_gt; exact E). rewrite E2.
    assert (M1 : (z + 18446744073709551616)%Z = (z mod 18446744073709551616)%Z) by (apply Z.mod_unique with (-1)%Z; lia).
    rewrite <- M1.
    assert (A : Z.to_N (2 * z + 18446744073709551616) = (Z.to_N (z + 18446744073709551616) * 2) mod 18446744073709551616)
      by (apply N.mod_unique with 1; lia).
    rewrite <- A. rewrite lxor_ones64 by (change (2 ^ 64) with 18446744073709551616; lia). unfold ones64. lia.
  - assert (E2 : (0 <=? z)%Z = true) by (apply Z.leb_le; exact E). rewrite E2.
    rewrite Z.mod_small by lia. rewrite N.mod_small by lia. rewrite N.lxor_0_r. lia.
Qed.

Theorem zigzag_decode64_spec : forall n, n < 2 ^ 64 -> zigzag_decode64 n = unzz n.
Proof.
  intros n Hn. unfold zigzag_decode64, unzz, s64, scast. rewrite N.shiftr_div_pow2. change (2 ^ 1) with 2.
  change (2 ^ 64) with 18446744073709551616 in Hn.
  change (2 ^ (64 - 1))%Z with 9223372036854775808%Z. change (2 ^ 64)%Z with 18446744073709551616%Z.
  rewrite <- N.negb_even. destruct (N.even n) eqn:E; cbn [negb].
  - rewrite N.lxor_0_r. assert (n / 2 < 9223372036854775808) by (apply N.div_lt_upper_bound; lia). lia.
  - assert (H2 : n / 2 < 2 ^ 64) by (change (2 ^ 64) with 18446744073709551616; apply N.div_lt_upper_bound; lia).
    rewrite lxor_ones64 by exact H2. unfold ones64.
    assert (n / 2 < 9223372036854775808) by (apply N.div_lt_upper_bound; lia). lia.
Qed.

Lemma scast_id bits z : (1 <= bits)%Z -> in_range bits z -> scast bits z = z.
Proof.
  unfold in_range, scast. intros Hb [L U].
  assert (P : (2 ^ bits = 2 * 2 ^ (bits - 1))%Z).
  { replace bits with (Z.succ (bits - 1)) at 1 by lia. rewrite Z.pow_succ_r by lia. reflexivity. }
  assert (Q : (0 < 2 ^ (bits - 1))%Z) by (apply Z.pow_pos_nonneg; lia).
  rewrite Z.mod_small by lia. lia.
Qed.

Lemma in_range_mono b1 b2 z : (1 <= b1 <= b2)%Z -> in_range b1 z -> in_range b2 z.
Proof.
  unfold in_range. intros Hb [L U].
  assert ((2 ^ (b1 - 1) <= 2 ^ (b2 - 1))%Z) by (apply Z.pow_le_mono_r; lia). lia.
Qed.

(** zig-zag round trip on the full int64 range, INT64_MIN and INT64_MAX included *)
Theorem zigzag_roundtrip : forall z, in_range 64 z -> zigzag_decode64 (zigzag_encode64 z) = z.
Proof.
  intros z R. rewrite zigzag_encode64_spec by exact R.
  rewrite zigzag_decode64_spec by (apply (zz_range 64 z ltac:(lia) R)). apply unzz_zz.
Qed.

Example zigzag_int64_min : zigzag_encode64 (-9223372036854775808) = 18446744073709551615 /\
  zigzag_decode64 18446744073709551615 = (-9223372036854775808)%Z.
Proof. split; vm_compute; reflexivity. Qed.
Example zigzag_int64_max : zigzag_encode64 9223372036854775807 = 18446744073709551614 /\
  zigzag_decode64 18446744073709551614 = 9223372036854775807%Z.
Proof. split; vm_compute; reflexivity. Qed.

(* ------------------------------------------------------------------------------------------ *)
(** * Integers, booleans, bytes, doubles, binaries *)

Lemma at_advance d rest pos lf : at_ d rest pos lf -> forall rest' pos', at_ (with_reader d rest' pos') rest' pos' lf.
Proof. intros (R & P & L & B) rest' pos'. unfold at_. simpl. auto. Qed.

Theorem read_int_spec : forall bits z l d tail pos lf, (1 <= bits <= 64)%Z -> in_range bits z -> varint (zz z) l ->
  at_ d (l ++ tail) pos lf ->
  exists d', read_int bits d = Ok (z, d') /\ at_ d' tail (pos + N.of_nat (length l)) lf.
Proof.
  intros bits z l d tail pos lf Hb R V Hat. unfold read_int, read_zigzag.
  destruct (read_varint_spec _ _ _ _ _ _ V Hat) as (d' & RV & Hat'). rewrite RV.
  exists d'. split; [|exact Hat']. f_equal. f_equal.
  rewrite zigzag_decode64_spec by (destruct V as (_ & _ & V); exact V). rewrite unzz_zz. apply scast_id; [lia | exact R].
Qed.

Lemma i8_of_byte b : b < 256 -> i8 (Z.of_N b) = z_of_byte b.
Proof.
  intros H. unfold i8, scast, z_of_byte. change (2 ^ (8 - 1))%Z with 128%Z. change (2 ^ 8)%Z with 256%Z.
  destruct (b <? 128) eqn:E; [apply N.ltb_lt in E | apply N.ltb_ge in E]; lia.
Qed.

Theorem read_byte_spec : forall z d tail pos lf, in_range 8 z -> at_ d (byte_of_z z :: tail) pos lf ->
  exists d', read_byte d = Ok (z, d') /\ at_ d' tail (pos + 1) lf.
Proof.
  intros z d tail pos lf R Hat. unfold read_byte.
  destruct (read_byte_raw_at _ _ _ _ _ Hat) as (d' & RB & Hat'). rewrite RB. exists d'. split; [|exact Hat'].
  destruct (z_of_byte_of_z z R) as [E B]. rewrite i8_of_byte by exact B. rewrite E. reflexivity.
Qed.

Theorem read_bool_elem_spec : forall b bs d tail pos lf, enc TBool (VBool b) bs -> at_ d (bs ++ tail) pos lf ->
  exists d', read_bool d = Ok (b, d') /\ at_ d' tail (pos + 1) lf.
Proof.
  intros b bs d tail pos lf H Hat. unfold read_bool. destruct Hat as (R & P & L & B). rewrite B.
  assert (Hat : at_ d (bs ++ tail) pos lf) by (unfold at_; auto).
  inversion H; subst.
  - destruct (read_byte_raw_at _ _ _ _ _ Hat) as (d' & RB & Hat'). rewrite RB. exists d'. split; [reflexivity | exact Hat'].
  - destruct (read_byte_raw_at _ _ _ _ _ Hat) as (d' & RB & Hat'). rewrite RB. exists d'. split; [|exact Hat'].
    destruct H1 as [-> | ->]; reflexivity.
Qed.

Lemma take_bytes_app a tail : take_bytes (length a) (a ++ tail) = Ok (a, tail).
Proof.
  rewrite take_bytes_ok by (rewrite app_length; lia). f_equal. f_equal.
  - rewrite firstn_app, Nat.sub_diag, firstn_all. simpl. apply app_nil_r.
  - rewrite skipn_app, Nat.sub_diag, skipn_all. reflexivity.
Qed.

Lemma le_val_model_spec : forall a, Forall byte a -> ThriftModel.le_val a = ThriftSpec.le_val a.
Proof.
  induction a as [|b a IH]; intros H; [reflexivity|]. inversion H; subst. cbn [ThriftModel.le_val ThriftSpec.le_val].
  rewrite IH by assumption. rewrite N.shiftl_mul_pow2. change (2 ^ 8) with 256.
  change 256 with (2 ^ 8). rewrite lor_add by exact H2. change (2 ^ 8) with 256. lia.
Qed.

Lemma le_bytes_model_spec : forall k n, ThriftModel.le_bytes k n = ThriftSpec.le_bytes k n.
Proof.
  induction k as [|k IH]; intros n; [reflexivity|]. cbn [ThriftModel.le_bytes ThriftSpec.le_bytes].
  change 255 with (N.ones 8). rewrite N.land_ones, N.shiftr_div_pow2. change (2 ^ 8) with 256. rewrite IH. reflexivity.
Qed.

Theorem read_double_spec : forall bits d tail pos lf, bits < 2 ^ 64 -> at_ d (ThriftSpec.le_bytes 8 bits ++ tail) pos lf ->
  exists d', read_double d = Ok (bits, d') /\ at_ d' tail (pos + 8) lf.
Proof.
  intros bits d tail pos lf Hb Hat. unfold read_double.
  rewrite (has_bytes_at d _ pos lf 8 Hat) by (rewrite app_length, le_bytes_length; simpl; lia).
  destruct Hat as (R & P & L & B). rewrite R.
  pose proof (take_bytes_app (ThriftSpec.le_bytes 8 bits) tail) as T. rewrite le_bytes_length in T. rewrite T.
  eexists. split.
  - f_equal. f_equal. rewrite le_val_model_spec by apply le_bytes_byte. apply le_val_le_bytes. exact Hb.
  - unfold at_. simpl. rewrite P. auto.
Qed.

Theorem read_binary_spec : forall bs l d tail pos lf, N.of_nat (length bs) < 2 ^ 31 -> varint (N.of_nat (length bs)) l ->
  at_ d ((l ++ bs) ++ tail) pos lf ->
  exists d', read_binary d = Ok (bs, d') /\ at_ d' tail (pos + N.of_nat (length (l ++ bs))) lf.
Proof.
  intros bs l d tail pos lf Hl V Hat. unfold read_binary. rewrite <- app_assoc in Hat.
  destruct (read_varint_spec _ _ _ _ _ _ V Hat) as (d1 & RV & Hat1). rewrite RV.
  assert (I : i32 (Z.of_N (N.of_nat (length bs))) = Z.of_nat (length bs)).
  { unfold i32. rewrite scast_id; [lia | lia |]. unfold in_range. change (2 ^ (32 - 1))%Z with 2147483648%Z.
    change (2 ^ 31) with 2147483648 in Hl. lia. }
  rewrite I. assert (E : (Z.of_nat (length bs) <? 0)%Z = false) by (apply Z.ltb_ge; lia). rewrite E.
  rewrite (has_bytes_at d1 _ _ lf _ Hat1) by (rewrite app_length; lia).
  destruct Hat1 as (R & P & L & B). rewrite R. rewrite Nat2Z.id. rewrite take_bytes_app.
  eexists. split; [reflexivity|]. unfold at_. simpl. rewrite P, app_length. repeat split; auto. lia.
Qed.

(* ------------------------------------------------------------------------------------------ *)
(** * Field headers and list headers: the reader accepts short and long forms *)

(** state after a field header: a boolean field leaves its value pending *)
Definition after_fhdr (d : decoder) (tc : N) (rest : list N) (pos : N) (lf : list Z) : Prop :=
  d_rest d = rest /\ d_pos d = pos /\ d_lfid d = lf /\
  d_boolp d = ((tc =? 1) || (tc =? 2)) /\ (d_boolp d = true -> d_boolv d = (tc =? 1)).

Theorem read_field_begin_spec : forall last id tc h d tail pos st,
  fhdr last id tc h -> 1 <= tc <= 15 -> in_range 16 id -> in_range 16 last ->
  at_ d (h ++ tail) pos (last :: st) ->
  exists d', read_field_begin d = Ok (Some (tc, id), d') /\ after_fhdr d' tc tail (pos + N.of_nat (length h)) (id :: st).
Proof.
  intros last id tc h d tail pos st H Htc Rid Rlast Hat. unfold read_field_begin.
  assert (Bool : forall d2 : decoder, d_boolp d2 = false ->
     let d3 := with_lfid d2 (set_top id (d_lfid d2)) in
     let d4 := if tc =? 1 then with_bool d3 true true else if tc =? 2 then with_bool d3 true false else d3 in
     d_rest d4 = d_rest d2 /\ d_pos d4 = d_pos d2 /\ d_lfid d4 = set_top id (d_lfid d2) /\
     d_boolp d4 = ((tc =? 1) || (tc =? 2)) /\ (d_boolp d4 = true -> d_boolv d4 = (tc =? 1))).
  { intros d2 B2. cbv zeta. destruct (tc =? 1) eqn:T1; [|destruct (tc =? 2) eqn:T2]; simpl; repeat split; auto; congruence. }
  inversion H as [Hd | l Hv]; subst.
  - (* short form *)
    set (dl := Z.to_N (id - last)) in *. assert (Dl : 1 <= dl <= 15) by (unfold dl; lia).
    cbn [app] in Hat. destruct (read_byte_raw_at _ _ _ _ _ Hat) as (d1 & RB & Hat1). rewrite RB.
    assert (E0 : (16 * dl + tc =? 0) = false) by (apply N.eqb_neq; lia). rewrite E0.
    destruct (nibbles (16 * dl + tc) ltac:(lia)) as [N1 N2]. rewrite N1, N2.
    assert (E2 : (16 * dl + tc) / 16 = dl).
    { rewrite N.add_comm, (N.mul_comm 16). rewrite N.div_add by lia. rewrite N.div_small by lia. lia. }
    assert (E4 : (16 * dl + tc) mod 16 = tc).
    { rewrite N.add_comm, (N.mul_comm 16). rewrite N.mod_add by lia. apply N.mod_small. lia. }
    rewrite E2, E4. assert (E3 : (dl =? 0) = false) by (apply N.eqb_neq; lia). rewrite E3.
    destruct Hat1 as (R1 & P1 & L1 & B1). assert (T : top (d_lfid d1) = last) by (rewrite L1; reflexivity). rewrite T.
    replace (i16 (last + Z.of_N dl)) with id by (unfold i16; rewrite scast_id; [unfold dl; lia | lia | replace (last + Z.of_N dl)%Z with id by (unfold dl; lia); exact Rid]).
    eexists. split; [reflexivity|]. destruct (Bool d1 B1) as (A1 & A2 & A3 & A4 & A5). cbv zeta in *.
    unfold after_fhdr. split; [rewrite A1; exact R1|]. split; [rewrite A2, P1; cbn [length]; lia|].
    split; [rewrite A3, L1; reflexivity|]. split; [exact A4 | exact A5].
  - (* long form *)
    cbn [app] in Hat. destruct (read_byte_raw_at _ _ _ _ _ Hat) as (d1 & RB & Hat1). rewrite RB.
    assert (E0 : (tc =? 0) = false) by (apply N.eqb_neq; lia). rewrite E0.
    destruct (nibbles tc ltac:(lia)) as [N1 N2]. rewrite N1, N2.
    rewrite (N.mod_small tc 16) by lia. rewrite (N.div_small tc 16) by lia. cbn [N.eqb].
    unfold read_i16. destruct (read_int_spec 16 id l d1 tail _ _ ltac:(lia) Rid Hv Hat1) as (d2 & RI & Hat2). rewrite RI.
    eexists. split; [reflexivity|]. destruct Hat2 as (R2 & P2 & L2 & B2).
    destruct (Bool d2 B2) as (A1 & A2 & A3 & A4 & A5). cbv zeta in *.
    unfold after_fhdr. split; [rewrite A1; exact R2|]. split; [rewrite A2, P2; cbn [length]; lia|].
    split; [rewrite A3, L2; reflexivity|]. split; [exact A4 | exact A5].
Qed.

Lemma read_field_begin_stop : forall d tail pos lf, at_ d (0 :: tail) pos lf ->
  exists d', read_field_begin d = Ok (None, d') /\ at_ d' tail (pos + 1) lf.
Proof.
  intros d tail pos lf Hat. unfold read_field_begin.
  destruct (read_byte_raw_at _ _ _ _ _ Hat) as (d1 & RB & Hat1). rewrite RB. cbn [N.eqb]. eauto.
Qed.

Theorem read_list_begin_spec : forall ec n h d tail pos lf, ec <= 15 -> lhdr ec n h -> n < 2 ^ 31 ->
  (N.to_nat n <= length tail)%nat -> at_ d (h ++ tail) pos lf ->
  exists d', read_list_begin d = Ok (ec, Z.of_N n, d') /\ at_ d' tail (pos + N.of_nat (length h)) lf.
Proof.
  intros ec n h d tail pos lf Hec H Hn Hroom Hat. unfold read_list_begin.
  inversion H as [Hs | l _ Hv]; subst; cbn [app] in Hat;
    destruct (read_byte_raw_at _ _ _ _ _ Hat) as (d1 & RB & Hat1); rewrite RB.
  - destruct (nibbles (16 * n + ec) ltac:(lia)) as [N1 N2]. rewrite N1, N2.
    assert (E2 : (16 * n + ec) / 16 = n).
    { rewrite N.add_comm, (N.mul_comm 16). rewrite N.div_add by lia. rewrite N.div_small by lia. lia. }
    assert (E4 : (16 * n + ec) mod 16 = ec).
    { rewrite N.add_comm, (N.mul_comm 16). rewrite N.mod_add by lia. apply N.mod_small. lia. }
    rewrite E2, E4. assert (E3 : (n =? 15) = false) by (apply N.eqb_neq; lia). rewrite E3.
    assert (E5 : (Z.of_N n <? 0)%Z = false) by (apply Z.ltb_ge; lia). rewrite E5. rewrite N2Z.id.
    rewrite (has_bytes_at d1 _ _ lf n Hat1) by exact Hroom. cbn [negb]. eexists. split; [reflexivity | exact Hat1].
  - destruct (nibbles (240 + ec) ltac:(lia)) as [N1 N2]. rewrite N1, N2.
    assert (E2 : (240 + ec) / 16 = 15).
    { replace (240 + ec) with (ec + 15 * 16) by lia. rewrite N.div_add by lia. rewrite N.div_small by lia. lia. }
    assert (E4 : (240 + ec) mod 16 = ec).
    { replace (240 + ec) with (ec + 15 * 16) by lia. rewrite N.mod_add by lia. apply N.mod_small. lia. }
    rewrite E2, E4. cbn [N.eqb Pos.eqb].
    destruct (read_varint_spec _ _ _ _ _ _ Hv Hat1) as (d2 & RV & Hat2). rewrite RV.
    assert (I : i32 (Z.of_N n) = Z.of_N n).
    { unfold i32. apply scast_id; [lia|]. unfold in_range. change (2 ^ (32 - 1))%Z with 2147483648%Z.
      change (2 ^ 31) with 2147483648 in Hn. lia. }
    rewrite I. assert (E5 : (Z.of_N n <? 0)%Z = false) by (apply Z.ltb_ge; lia). rewrite E5. rewrite N2Z.id.
    rewrite (has_bytes_at d2 _ _ lf n Hat2) by exact Hroom. cbn [negb]. eexists. split; [reflexivity|].
    cbn [length]. replace (pos + N.of_nat (S (length l))) with (pos + 1 + N.of_nat (length l)) by lia. exact Hat2.
Qed.

(* ------------------------------------------------------------------------------------------ *)
(** * The writer primitives produce the canonical encodings of the specification *)

Lemma e_out_emit bs e : e_out (emit bs e) = e_out e ++ bs.
Proof. unfold e_out, emit. simpl. rewrite !rev_append_rev, !app_nil_r, rev_app_distr, rev_involutive. reflexivity. Qed.

Lemma e_out_mk x l : e_out {| e_rev := e_rev x; e_lfid := l |} = e_out x.
Proof. reflexivity. Qed.

(** [wrote e e' bs lf]: e' is e with bs appended and field-id stack lf *)
Definition wrote (e e' : encoder) (bs : list N) (lf : list Z) : Prop := e_out e' = e_out e ++ bs /\ e_lfid e' = lf.

Lemma wrote_trans e e1 e2 b1 b2 lf1 lf2 : wrote e e1 b1 lf1 -> wrote e1 e2 b2 lf2 -> wrote e e2 (b1 ++ b2) lf2.
Proof. intros [A1 A2] [B1 B2]. split; [rewrite B1, A1, app_assoc; reflexivity | exact B2]. Qed.

Lemma write_varint_spec v e : v < 2 ^ 64 -> exists e', write_varint v e = Ok e' /\ wrote e e' (uleb v) (e_lfid e).
Proof.
  intros H. unfold write_varint. rewrite varint_bytes_small by exact H. eexists. split; [reflexivity|].
  split; [apply e_out_emit | reflexivity].
Qed.

Lemma write_zigzag_spec z e : in_range 64 z -> exists e', write_zigzag z e = Ok e' /\ wrote e e' (uleb (zz z)) (e_lfid e).
Proof.
  intros R. unfold write_zigzag, i64. rewrite scast_id by (lia || exact R). rewrite zigzag_encode64_spec by exact R.
  apply write_varint_spec. apply (zz_range 64 z ltac:(lia) R).
Qed.

Lemma write_int_spec bits z e : (1 <= bits <= 64)%Z -> in_range bits z ->
  exists e', write_zigzag (scast bits z) e = Ok e' /\ wrote e e' (uleb (zz z)) (e_lfid e).
Proof.
  intros Hb R. rewrite scast_id by (lia || exact R). apply write_zigzag_spec. eapply in_range_mono; [|exact R]. lia.
Qed.

Lemma write_byte_spec z e : exists e', write_byte z e = Ok e' /\ wrote e e' [byte_of_z z] (e_lfid e).
Proof. eexists. split; [reflexivity|]. split; [apply e_out_emit | reflexivity]. Qed.

Lemma write_double_spec bits e : exists e', write_double bits e = Ok e' /\ wrote e e' (ThriftSpec.le_bytes 8 bits) (e_lfid e).
Proof. eexists. split; [reflexivity|]. split; [rewrite <- le_bytes_model_spec; apply e_out_emit | reflexivity]. Qed.

Lemma read_obj_all : forall bs, read_obj (length bs) bs = Ok bs.
Proof. induction bs as [|b t IH]; [reflexivity|]. cbn [length read_obj]. rewrite IH. reflexivity. Qed.

Lemma write_binary_spec bs e : N.of_nat (length bs) < 2 ^ 31 ->
  exists e', write_binary (Some bs) (Z.of_nat (length bs)) e = Ok e' /\
             wrote e e' (uleb (N.of_nat (length bs)) ++ bs) (e_lfid e).
Proof.
  intros H. unfold write_binary.
  assert (I : i32 (Z.of_nat (length bs)) = Z.of_nat (length bs)).
  { unfold i32. apply scast_id; [lia|]. unfold in_range. change (2 ^ (32 - 1))%Z with 2147483648%Z.
    change (2 ^ 31) with 2147483648 in H. lia. }
  rewrite I.
  assert (U : u64 (Z.of_nat (length bs)) = N.of_nat (length bs)).
  { unfold u64. change (2 ^ 64)%Z with 18446744073709551616%Z. change (2 ^ 31) with 2147483648 in H.
    rewrite Z.mod_small by lia. lia. }
  rewrite U. destruct (write_varint_spec (N.of_nat (length bs)) e) as (e1 & W & [O1 L1]); [apply lt31_64; exact H|].
  rewrite W. destruct (0 <? Z.of_nat (length bs))%Z eqn:E.
  - rewrite Nat2Z.id, read_obj_all. eexists. split; [reflexivity|]. split; [|exact L1].
    rewrite e_out_emit, O1, app_assoc. reflexivity.
  - apply Z.ltb_ge in E. destruct bs; [|simpl in E; lia]. exists e1. split; [reflexivity|]. split; [|exact L1].
    rewrite O1, app_nil_r. reflexivity.
Qed.

Lemma cstr_id : forall s, Forall (fun b => b <> 0) s -> cstr s = s.
Proof.
  induction s as [|b t IH]; intros H; [reflexivity|]. inversion H; subst. cbn [cstr].
  apply N.eqb_neq in H2. rewrite H2, IH by assumption. reflexivity.
Qed.

Lemma write_struct_begin_spec e : len (e_lfid e) < ENC_MAX_NESTING ->
  exists e', write_struct_begin e = Ok e' /\ wrote e e' [] (0%Z :: e_lfid e).
Proof.
  intros H. unfold write_struct_begin. assert (E : (ENC_MAX_NESTING <=? len (e_lfid e)) = false) by (apply N.leb_gt; exact H).
  rewrite E. eexists. split; [reflexivity|]. split; [unfold e_out; simpl; rewrite app_nil_r; reflexivity | reflexivity].
Qed.

Lemma write_struct_end_spec e : exists e', write_struct_end e = Ok e' /\ wrote e e' [0] (tl (e_lfid e)).
Proof.
  unfold write_struct_end, write_field_stop, write_byte. eexists. split; [reflexivity|].
  split; [apply (e_out_emit [0] e) | reflexivity].
Qed.

Lemma short_header_byte c : c < 256 -> N.lor (N.shiftl (N.land (c / 16) 15) 4) (N.land (c mod 16) 15) = c.
Proof.
  intros H. pose proof (sweep (fun c => N.lor (N.shiftl (N.land (c / 16) 15) 4) (N.land (c mod 16) 15) =? c) 256
                          ltac:(vm_compute; reflexivity) c H) as S. apply N.eqb_eq in S. exact S.
Qed.

Lemma header_byte dl ty : dl <= 15 -> ty <= 15 -> N.lor (N.shiftl (N.land dl 15) 4) (N.land ty 15) = 16 * dl + ty.
Proof.
  intros Hd Ht. pose proof (short_header_byte (16 * dl + ty) ltac:(lia)) as S.
  assert (E2 : (16 * dl + ty) / 16 = dl).
  { rewrite N.add_comm, (N.mul_comm 16). rewrite N.div_add by lia. rewrite N.div_small by lia. lia. }
  assert (E4 : (16 * dl + ty) mod 16 = ty).
  { rewrite N.add_comm, (N.mul_comm 16). rewrite N.mod_add by lia. apply N.mod_small. lia. }
  rewrite E2, E4 in S. exact S.
Qed.

Lemma scast_add_idem bits a b : (1 <= bits)%Z -> scast bits (a + scast bits b) = scast bits (a + b).
Proof.
  intros Hb. unfold scast. f_equal.
  replace (a + ((b + 2 ^ (bits - 1)) mod 2 ^ bits - 2 ^ (bits - 1)) + 2 ^ (bits - 1))%Z
    with (a + (b + 2 ^ (bits - 1)) mod 2 ^ bits)%Z by lia.
  rewrite Z.add_mod_idemp_r by (apply Z.pow_nonzero; lia). f_equal. lia.
Qed.

(** thrift_write_field_header: what is written, for every pair of int16 ids *)
Lemma write_field_header_bytes ty id last st e :
  ty <= 15 -> in_range 16 id -> e_lfid e = last :: st ->
  let delta := i16 (id - last) in
  exists e', write_field_header ty id e = Ok e' /\
    wrote e e' (if ((0 <? delta) && (delta <=? 15))%Z then [16 * Z.to_N delta + ty] else ty :: uleb (zz id)) (id :: st).
Proof.
  intros Hty Rid Hl. cbv zeta. unfold write_field_header. rewrite Hl. cbn [top].
  assert (I : i16 id = id) by (unfold i16; apply scast_id; [lia | exact Rid]). rewrite !I.
  assert (TY : N.land ty 15 = ty) by (change 15 with (N.ones 4); rewrite N.land_ones; apply N.mod_small; change (2 ^ 4) with 16; lia).
  destruct ((0 <? i16 (id - last)) && (i16 (id - last) <=? 15))%Z eqn:C.
  - apply andb_true_iff in C. destruct C as [C1 C2]. apply Z.ltb_lt in C1. apply Z.leb_le in C2.
    unfold write_byte. eexists. split; [reflexivity|]. split.
    + rewrite e_out_mk, e_out_emit. f_equal. f_equal.
      rewrite header_byte by lia. rewrite Z.mod_small by lia. apply N2Z.id.
    + simpl. rewrite Hl. reflexivity.
  - unfold write_byte at 1. cbv iota beta. unfold write_i16. rewrite I.
    destruct (write_zigzag_spec id (emit [Z.to_N (Z.of_N (N.land ty 15) mod 256)] e)) as (e1 & W & [O1 L1]).
    { eapply in_range_mono; [|exact Rid]. lia. }
    rewrite W. eexists. split; [reflexivity|]. split.
    + rewrite e_out_mk, O1, e_out_emit, <- app_assoc. f_equal. cbn [app]. f_equal.
      rewrite TY. rewrite Z.mod_small by lia. apply N2Z.id.
    + simpl. rewrite L1. simpl. rewrite Hl. reflexivity.
Qed.

(** ... which is the canonical header of the specification unless the int16 subtraction wraps *)
Lemma write_field_header_spec ty id last st e :
  ty <= 15 -> in_range 16 id -> in_range 16 last -> (-65521 < id - last)%Z -> e_lfid e = last :: st ->
  exists e', write_field_header ty id e = Ok e' /\ wrote e e' (enc_fhdr last id ty) (id :: st).
Proof.
  intros Hty Rid Rlast Hw Hl. destruct (write_field_header_bytes ty id last st e Hty Rid Hl) as (e' & W & Wr).
  exists e'. split; [exact W|]. unfold enc_fhdr. cbv zeta in Wr.
  unfold in_range in *. change (2 ^ (16 - 1))%Z with 32768%Z in *.
  assert (D : (i16 (id - last) = id - last \/ (32767 < id - last /\ i16 (id - last) = id - last - 65536) \/
               (id - last < -32768 /\ i16 (id - last) = id - last + 65536))%Z).
  { unfold i16, scast. change (2 ^ (16 - 1))%Z with 32768%Z. change (2 ^ 16)%Z with 65536%Z. lia. }
  destruct D as [D | [[D1 D2] | [D1 D2]]].
  - rewrite D in Wr.
    replace ((1 <=? id - last)%Z) with ((0 <? id - last)%Z) by (destruct (0 <? id - last)%Z eqn:A, (1 <=? id - last)%Z eqn:B; try reflexivity; lia).
    exact Wr.
  - rewrite D2 in Wr.
    assert (A : ((0 <? id - last - 65536) && (id - last - 65536 <=? 15))%Z = false) by (apply andb_false_iff; left; apply Z.ltb_ge; lia).
    assert (B : ((1 <=? id - last) && (id - last <=? 15))%Z = false) by (apply andb_false_iff; right; apply Z.leb_gt; lia).
    rewrite A in Wr. rewrite B. exact Wr.
  - rewrite D2 in Wr.
    assert (A : ((0 <? id - last + 65536) && (id - last + 65536 <=? 15))%Z = false) by (apply andb_false_iff; right; apply Z.leb_gt; lia).
    assert (B : ((1 <=? id - last) && (id - last <=? 15))%Z = false) by (apply andb_false_iff; left; apply Z.leb_gt; lia).
    rewrite A in Wr. rewrite B. exact Wr.
Qed.

Lemma list_bytes et : et <= 15 -> N.lor 240 (N.land et 15) = 240 + et.
Proof.
  intros H. pose proof (sweep (fun et => N.lor 240 (N.land et 15) =? 240 + et) 16 ltac:(vm_compute; reflexivity) et ltac:(simpl; lia)) as S.
  apply N.eqb_eq in S. exact S.
Qed.

Lemma zland_15 n : n <= 15 -> Z.to_N (Z.land (Z.of_N n) 15) = n.
Proof.
  intros H. pose proof (sweep (fun n => Z.to_N (Z.land (Z.of_N n) 15) =? n) 16 ltac:(vm_compute; reflexivity) n ltac:(simpl; lia)) as S.
  apply N.eqb_eq in S. exact S.
Qed.

Lemma write_list_begin_spec et n e : et <= 15 -> n < 2 ^ 31 ->
  exists e', write_list_begin et (Z.of_N n) e = Ok e' /\ wrote e e' (enc_lhdr et n) (e_lfid e).
Proof.
  intros Het Hn. unfold write_list_begin, enc_lhdr.
  assert (I : i32 (Z.of_N n) = Z.of_N n).
  { unfold i32. apply scast_id; [lia|]. unfold in_range. change (2 ^ (32 - 1))%Z with 2147483648%Z.
    change (2 ^ 31) with 2147483648 in Hn. lia. }
  rewrite I. destruct (n <=? 14) eqn:E.
  - apply N.leb_le in E. assert (E' : (Z.of_N n <? 15)%Z = true) by (apply Z.ltb_lt; lia). rewrite E'.
    unfold write_byte. eexists. split; [reflexivity|]. split; [|reflexivity]. rewrite e_out_emit. f_equal. f_equal.
    rewrite zland_15 by lia.
    replace (N.shiftl n 4) with (N.shiftl (N.land n 15) 4)
      by (f_equal; change 15 with (N.ones 4); rewrite N.land_ones; apply N.mod_small; change (2 ^ 4) with 16; lia).
    rewrite header_byte by lia. rewrite Z.mod_small by lia. apply N2Z.id.
  - apply N.leb_gt in E. assert (E' : (Z.of_N n <? 15)%Z = false) by (apply Z.ltb_ge; lia). rewrite E'.
    unfold write_byte at 1. cbv iota beta.
    assert (U : u64 (Z.of_N n) = n).
    { unfold u64. change (2 ^ 64)%Z with 18446744073709551616%Z. change (2 ^ 31) with 2147483648 in Hn.
      rewrite Z.mod_small by lia. lia. }
    rewrite U.
    destruct (write_varint_spec n (emit [Z.to_N (Z.of_N (N.lor 240 (N.land et 15)) mod 256)] e)) as (e1 & W & [O1 L1]);
      [apply lt31_64; exact Hn|].
    rewrite W. exists e1. split; [reflexivity|]. split; [|exact L1].
    rewrite O1, e_out_emit, <- app_assoc. f_equal. cbn [app]. f_equal.
    rewrite list_bytes by exact Het. rewrite Z.mod_small by lia. apply N2Z.id.
Qed.

(* ------------------------------------------------------------------------------------------ *)
(** * Round trips of the primitives (all inputs) *)

Definition d_of (bs tail : list N) (pos : N) (lf : list Z) : decoder :=
  {| d_rest := bs ++ tail; d_pos := pos; d_lfid := lf; d_boolp := false; d_boolv := false |}.
Lemma at_d_of bs tail pos lf : at_ (d_of bs tail pos lf) (bs ++ tail) pos lf.
Proof. unfold at_, d_of. simpl. auto. Qed.

(** every uint64_t: at most 10 bytes written, read back exactly, whatever follows *)
Theorem varint_roundtrip : forall v, v < 2 ^ 64 ->
  exists bs, varint_bytes v = Ok bs /\ (length bs <= 10)%nat /\
    forall tail pos lf, exists d', read_varint (d_of bs tail pos lf) = Ok (v, d') /\ at_ d' tail (pos + N.of_nat (length bs)) lf.
Proof.
  intros v Hv. exists (uleb v). split; [apply varint_bytes_small; exact Hv|].
  pose proof (uleb_varint v Hv) as V. split; [destruct V as (_ & L & _); exact L|].
  intros tail pos lf. apply (read_varint_spec v (uleb v) _ tail pos lf V). apply at_d_of.
Qed.

Example varint_max_is_10_bytes : varint_bytes (2 ^ 64 - 1) = Ok [255; 255; 255; 255; 255; 255; 255; 255; 255; 1].
Proof. vm_compute. reflexivity. Qed.

(** every int64 through zig-zag + varint *)
Theorem zigzag_varint_roundtrip : forall z e, in_range 64 z ->
  exists e', write_zigzag z e = Ok e' /\ wrote e e' (uleb (zz z)) (e_lfid e) /\
    forall tail pos lf, exists d', read_zigzag (d_of (uleb (zz z)) tail pos lf) = Ok (z, d') /\
                                   at_ d' tail (pos + N.of_nat (length (uleb (zz z)))) lf.
Proof.
  intros z e R. destruct (write_zigzag_spec z e R) as (e' & W & Wr). exists e'. split; [exact W|]. split; [exact Wr|].
  intros tail pos lf. pose proof (uleb_varint (zz z) (zz_range 64 z ltac:(lia) R)) as V.
  unfold read_zigzag. destruct (read_varint_spec _ _ _ tail pos lf V (at_d_of _ tail pos lf)) as (d' & RV & Hat).
  rewrite RV. exists d'. split; [|exact Hat]. f_equal. f_equal.
  rewrite zigzag_decode64_spec by (apply (zz_range 64 z ltac:(lia) R)). apply unzz_zz.
Qed.

(** field headers: EVERY pair of int16 field ids (gap 15/16, negative gaps, int16 wrap-around included) *)
Theorem field_header_roundtrip : forall ty id last st e, 1 <= ty <= 15 -> in_range 16 id -> in_range 16 last ->
  e_lfid e = last :: st ->
  exists e' h, write_field_header ty id e = Ok e' /\ wrote e e' h (id :: st) /\
    forall tail pos st', exists d',
      read_field_begin (d_of h tail pos (last :: st')) = Ok (Some (ty, id), d') /\
      after_fhdr d' ty tail (pos + N.of_nat (length h)) (id :: st').
Proof.
  intros ty id last st e Hty Rid Rlast Hl.
  destruct (write_field_header_bytes ty id last st e ltac:(lia) Rid Hl) as (e' & W & Wr). cbv zeta in Wr.
  exists e'. eexists. split; [exact W|]. split; [exact Wr|]. intros tail pos st'.
  destruct ((0 <? i16 (id - last)) && (i16 (id - last) <=? 15))%Z eqn:C.
  - apply andb_true_iff in C. destruct C as [C1 C2]. apply Z.ltb_lt in C1. apply Z.leb_le in C2.
    (* short form: the reader adds the delta back in int16 *)
    set (dl := Z.to_N (i16 (id - last))). assert (Dl : 1 <= dl <= 15) by (unfold dl; lia).
    unfold read_field_begin.
    destruct (read_byte_raw_at _ _ _ _ _ (at_d_of [16 * dl + ty] tail pos (last :: st'))) as (d1 & RB & Hat1). rewrite RB.
    assert (E0 : (16 * dl + ty =? 0) = false) by (apply N.eqb_neq; lia). rewrite E0.
    destruct (nibbles (16 * dl + ty) ltac:(lia)) as [N1 N2]. rewrite N1, N2.
    assert (E2 : (16 * dl + ty) / 16 = dl).
    { rewrite N.add_comm, (N.mul_comm 16). rewrite N.div_add by lia. rewrite N.div_small by lia. lia. }
    assert (E4 : (16 * dl + ty) mod 16 = ty).
    { rewrite N.add_comm, (N.mul_comm 16). rewrite N.mod_add by lia. apply N.mod_small. lia. }
    rewrite E2, E4. assert (E3 : (dl =? 0) = false) by (apply N.eqb_neq; lia). rewrite E3.
    destruct Hat1 as (R1 & P1 & L1 & B1). assert (T : top (d_lfid d1) = last) by (rewrite L1; reflexivity). rewrite T.
    assert (FID : i16 (last + Z.of_N dl) = id).
    { unfold dl. rewrite Z2N.id by lia. unfold i16. rewrite scast_add_idem by lia.
      replace (last + (id - last))%Z with id by lia. apply scast_id; [lia | exact Rid]. }
    rewrite FID. eexists. split; [reflexivity|].
    unfold after_fhdr. destruct (ty =? 1) eqn:T1; [|destruct (ty =? 2) eqn:T2]; simpl; rewrite ?R1, ?P1, ?L1; simpl;
      repeat split; auto; try lia; try congruence.
  - (* long form *)
    apply (read_field_begin_spec last id ty (ty :: uleb (zz id)) _ tail pos st'); try assumption; [|apply at_d_of].
    apply FH_long. apply uleb_varint. pose proof (zz_range 16 id ltac:(lia) Rid) as B. change (Z.to_N 16) with 16 in B.
    eapply N.lt_trans; [exact B | reflexivity].
Qed.

(** list headers: every size 0 .. 2^31-1 (the short/long switch at 14/15 included) *)
Theorem list_header_roundtrip : forall et n e, 1 <= et <= 15 -> n < 2 ^ 31 ->
  exists e', write_list_begin et (Z.of_N n) e = Ok e' /\ wrote e e' (enc_lhdr et n) (e_lfid e) /\
    forall tail pos lf, (N.to_nat n <= length tail)%nat -> exists d',
      read_list_begin (d_of (enc_lhdr et n) tail pos lf) = Ok (et, Z.of_N n, d') /\
      at_ d' tail (pos + N.of_nat (length (enc_lhdr et n))) lf.
Proof.
  intros et n e Het Hn. destruct (write_list_begin_spec et n e ltac:(lia) Hn) as (e' & W & Wr).
  exists e'. split; [exact W|]. split; [exact Wr|]. intros tail pos lf Hroom.
  apply read_list_begin_spec; try assumption; [lia | apply enc_lhdr_ok; exact Hn | apply at_d_of].
Qed.

Example list_header_14_15 : enc_lhdr 12 14 = [236] /\ enc_lhdr 12 15 = [252; 15].
Proof. split; vm_compute; reflexivity. Qed.

(* ------------------------------------------------------------------------------------------ *)
(** * thrift_skip consumes exactly one legal encoding of any value of any wire type *)

Lemma skip_value_el : forall fuel c depth d, c <> 1 -> c <> 2 ->
  skip_value fuel c depth false d = skip_value fuel c depth true d.
Proof.
  intros fuel c depth d H1 H2. destruct fuel; cbn [skip_value]; destruct (MAX_NESTING <=? depth); try reflexivity.
  destruct c as [|p]; try reflexivity.
  do 4 (try destruct p as [p|p|]; try reflexivity); congruence.
Qed.

Lemma code_of_type c t : type_of_code c = Some t -> t <> TBool -> c = code t.
Proof.
  intros H NB. destruct (N.eq_dec c 1) as [->|N1]; [inversion H; congruence|].
  destruct (N.eq_dec c 2) as [->|N2]; [inversion H; congruence|].
  destruct (type_of_code_nonbool _ _ H N1 N2) as [_ E]. symmetry. exact E.
Qed.

(** [fits fuel depth nl v]: v is within the limits the C code enforces when it is skipped with [fuel] frames
    available, at skip depth [depth], with [nl] structs open *)
Definition fits (fuel : nat) (depth nl : N) (v : tval) : Prop :=
  (vdepth v <= fuel)%nat /\ depth + N.of_nat (vdepth v) <= MAX_NESTING /\ nl + N.of_nat (vdepth v) <= MAX_NESTING.

Lemma fits_child fuel depth nl v x : fits (S fuel) depth nl v -> (S (vdepth x) <= vdepth v)%nat -> fits fuel (depth + 1) nl x.
Proof. intros (A & B & C) H. unfold fits. repeat split; lia. Qed.

Lemma fits_child_struct fuel depth nl v x : fits (S fuel) depth nl v -> (S (vdepth x) <= vdepth v)%nat -> fits fuel (depth + 1) (nl + 1) x.
Proof. intros (A & B & C) H. unfold fits. repeat split; lia. Qed.

Lemma vdepth_pos v : (1 <= vdepth v)%nat.
Proof. destruct v; simpl; lia. Qed.

Lemma fold_max_in (vs : list tval) v : In v vs -> (vdepth v <= fold_right (fun x acc => Nat.max (vdepth x) acc) O vs)%nat.
Proof. induction vs as [|x t IH]; intros H; [destruct H|]. simpl. destruct H as [->|H]; [lia|]. specialize (IH H). lia. Qed.

Lemma fold_max_in_p (kvs : list (tval * tval)) k v : In (k, v) kvs ->
  (Nat.max (vdepth k) (vdepth v) <=
   fold_right (fun (kv : tval * tval) acc => let (k, x) := kv in Nat.max (Nat.max (vdepth k) (vdepth x)) acc) O kvs)%nat.
Proof.
  induction kvs as [|[k0 x0] t IH]; intros H; [destruct H|]. simpl. destruct H as [E|H]; [inversion E; subst; lia|].
  specialize (IH H). lia.
Qed.

Lemma fold_max_in_f (fs : list (Z * tval)) id v : In (id, v) fs ->
  (vdepth v <= fold_right (fun (f : Z * tval) acc => let (_, x) := f in Nat.max (vdepth x) acc) O fs)%nat.
Proof.
  induction fs as [|[i0 x0] t IH]; intros H; [destruct H|]. simpl. destruct H as [E|H]; [inversion E; subst; lia|].
  specialize (IH H). lia.
Qed.

Lemma len_cons {A} (x : A) l : len (x :: l) = len l + 1.
Proof. unfold len. cbn [length]. lia. Qed.

Theorem skip_spec :
  (forall t v pre, enc t v pre -> forall fuel depth c d tail pos lf,
     type_of_code c = Some t -> fits fuel depth (len lf) v -> at_ d (pre ++ tail) pos lf ->
     exists d', skip_value fuel c depth true d = Ok d' /\ at_ d' tail (pos + N.of_nat (length pre)) lf) /\
  (forall et vs body, enc_elems et vs body -> forall fuel depth c d tail pos lf,
     type_of_code c = Some et -> (forall v, In v vs -> fits fuel depth (len lf) v) -> at_ d (body ++ tail) pos lf ->
     exists d', skip_elems (skip_value fuel c depth true) (length vs) d = Ok d' /\
                at_ d' tail (pos + N.of_nat (length body)) lf) /\
  (forall kt vt kvs body, enc_pairs kt vt kvs body -> forall fuel depth kc vc d tail pos lf,
     type_of_code kc = Some kt -> type_of_code vc = Some vt ->
     (forall k v, In (k, v) kvs -> fits fuel depth (len lf) k /\ fits fuel depth (len lf) v) -> at_ d (body ++ tail) pos lf ->
     exists d', skip_pairs (skip_value fuel kc depth true) (skip_value fuel vc depth true) (length kvs) d = Ok d' /\
                at_ d' tail (pos + N.of_nat (length body)) lf) /\
  (forall last fs pre, enc_fields last fs pre -> forall fuel depth k d tail pos st,
     in_range 16 last -> (forall id v, In (id, v) fs -> fits fuel depth (len st + 1) v) -> (length fs < length k)%nat ->
     at_ d (pre ++ tail) pos (last :: st) ->
     exists d' last', skip_fields (fun ft => skip_value fuel ft depth false) k d = Ok d' /\
                      at_ d' tail (pos + N.of_nat (length pre)) (last' :: st)).
Proof.
  apply enc_mutind.
  - (* true *) intros fuel depth c d tail pos lf TC (F1 & F2 & F3) Hat. cbn [vdepth] in *.
    destruct fuel; [lia|]. cbn [skip_value]. assert (E : (MAX_NESTING <=? depth) = false) by (apply N.leb_gt; lia). rewrite E.
    assert (C12 : c = 1 \/ c = 2).
    { destruct c as [|p]; [discriminate|]. do 4 (try destruct p as [p|p|]; try discriminate); auto. }
    destruct (read_byte_raw_at _ _ _ _ _ Hat) as (d' & RB & Hat').
    destruct C12 as [-> | ->]; rewrite RB; exists d'; (split; [reflexivity | exact Hat']).
  - (* false *) intros b Hb fuel depth c d tail pos lf TC (F1 & F2 & F3) Hat. cbn [vdepth] in *.
    destruct fuel; [lia|]. cbn [skip_value]. assert (E : (MAX_NESTING <=? depth) = false) by (apply N.leb_gt; lia). rewrite E.
    assert (C12 : c = 1 \/ c = 2).
    { destruct c as [|p]; [discriminate|]. do 4 (try destruct p as [p|p|]; try discriminate); auto. }
    destruct (read_byte_raw_at _ _ _ _ _ Hat) as (d' & RB & Hat').
    destruct C12 as [-> | ->]; rewrite RB; exists d'; (split; [reflexivity | exact Hat']).
  - (* byte *) intros z Hz fuel depth c d tail pos lf TC (F1 & F2 & F3) Hat. cbn [vdepth] in *.
    apply code_of_type in TC; [|discriminate]. subst c. cbn [code].
    destruct fuel; [lia|]. cbn [skip_value]. assert (E : (MAX_NESTING <=? depth) = false) by (apply N.leb_gt; lia). rewrite E.
    unfold reader_skip. rewrite (has_bytes_at d _ pos lf 1 Hat) by (simpl; lia).
    destruct Hat as (R & P & L & B). rewrite R. cbn [N.to_nat Pos.to_nat Pos.iter_op take_bytes app].
    eexists. split; [reflexivity|]. unfold at_. simpl. rewrite P. auto.
  - (* i16 *) intros z l Rz V fuel depth c d tail pos lf TC (F1 & F2 & F3) Hat. cbn [vdepth] in *.
    apply code_of_type in TC; [|discriminate]. subst c. cbn [code].
    destruct fuel; [lia|]. cbn [skip_value]. assert (E : (MAX_NESTING <=? depth) = false) by (apply N.leb_gt; lia). rewrite E.
    destruct (read_varint_spec _ _ _ _ _ _ V Hat) as (d' & RV & Hat'). rewrite RV. eauto.
  - (* i32 *) intros z l Rz V fuel depth c d tail pos lf TC (F1 & F2 & F3) Hat. cbn [vdepth] in *.
    apply code_of_type in TC; [|discriminate]. subst c. cbn [code].
    destruct fuel; [lia|]. cbn [skip_value]. assert (E : (MAX_NESTING <=? depth) = false) by (apply N.leb_gt; lia). rewrite E.
    destruct (read_varint_spec _ _ _ _ _ _ V Hat) as (d' & RV & Hat'). rewrite RV. eauto.
  - (* i64 *) intros z l Rz V fuel depth c d tail pos lf TC (F1 & F2 & F3) Hat. cbn [vdepth] in *.
    apply code_of_type in TC; [|discriminate]. subst c. cbn [code].
    destruct fuel; [lia|]. cbn [skip_value]. assert (E : (MAX_NESTING <=? depth) = false) by (apply N.leb_gt; lia). rewrite E.
    destruct (read_varint_spec _ _ _ _ _ _ V Hat) as (d' & RV & Hat'). rewrite RV. eauto.
  - (* double *) intros bits Hb fuel depth c d tail pos lf TC (F1 & F2 & F3) Hat. cbn [vdepth] in *.
    apply code_of_type in TC; [|discriminate]. subst c. cbn [code].
    destruct fuel; [lia|]. cbn [skip_value]. assert (E : (MAX_NESTING <=? depth) = false) by (apply N.leb_gt; lia). rewrite E.
    unfold reader_skip. rewrite (has_bytes_at d _ pos lf 8 Hat) by (rewrite app_length, le_bytes_length; simpl; lia).
    destruct Hat as (R & P & L & B). rewrite R.
    pose proof (take_bytes_app (ThriftSpec.le_bytes 8 bits) tail) as T. rewrite le_bytes_length in T.
    change (N.to_nat 8) with 8%nat. rewrite T. eexists. split; [reflexivity|]. unfold at_. cbn [d_rest d_pos d_lfid d_boolp with_reader]. rewrite P, le_bytes_length. auto.
  - (* binary *) intros bs l Bb Lb V fuel depth c d tail pos lf TC (F1 & F2 & F3) Hat. cbn [vdepth] in *.
    apply code_of_type in TC; [|discriminate]. subst c. cbn [code].
    destruct fuel; [lia|]. cbn [skip_value]. assert (E : (MAX_NESTING <=? depth) = false) by (apply N.leb_gt; lia). rewrite E.
    destruct (read_binary_spec bs l d tail pos lf Lb V Hat) as (d' & RB & Hat'). rewrite RB. eauto.
  - (* list *) intros et ec vs h body TC LH HE IH fuel depth c d tail pos lf TCc F Hat.
    apply code_of_type in TCc; [|discriminate]. subst c. cbn [code].
    destruct F as (F1 & F2 & F3). cbn [vdepth] in F1, F2, F3.
    destruct fuel; [lia|]. cbn [skip_value]. assert (E : (MAX_NESTING <=? depth) = false) by (apply N.leb_gt; lia). rewrite E.
    rewrite <- app_assoc in Hat. pose proof (type_of_code_bound _ _ TC) as ECb.
    assert (Hn : N.of_nat (length vs) < 2 ^ 31) by (inversion LH; subst; [change (2 ^ 31) with 2147483648; lia | assumption]).
    destruct (read_list_begin_spec ec _ h d (body ++ tail) pos lf ltac:(lia) LH Hn) as (d1 & RL & Hat1).
    { rewrite Nat2N.id, app_length. pose proof (enc_elems_length _ _ _ HE). lia. }
    { exact Hat. }
    rewrite RL. replace (Z.to_nat (Z.of_N (N.of_nat (length vs)))) with (length vs) by lia.
    destruct (IH fuel (depth + 1) ec d1 tail (pos + N.of_nat (length h)) lf TC) as (d' & SE & Hat'); [|exact Hat1|].
    { intros v Hin. pose proof (fold_max_in vs v Hin). unfold fits. repeat split; lia. }
    exists d'. split; [exact SE|]. rewrite app_length. replace (pos + N.of_nat (length h + length body)) with (pos + N.of_nat (length h) + N.of_nat (length body)) by lia. exact Hat'.
  - (* set *) intros et ec vs h body TC LH HE IH fuel depth c d tail pos lf TCc F Hat.
    apply code_of_type in TCc; [|discriminate]. subst c. cbn [code].
    destruct F as (F1 & F2 & F3). cbn [vdepth] in F1, F2, F3.
    destruct fuel; [lia|]. cbn [skip_value]. assert (E : (MAX_NESTING <=? depth) = false) by (apply N.leb_gt; lia). rewrite E.
    rewrite <- app_assoc in Hat. pose proof (type_of_code_bound _ _ TC) as ECb.
    assert (Hn : N.of_nat (length vs) < 2 ^ 31) by (inversion LH; subst; [change (2 ^ 31) with 2147483648; lia | assumption]).
    destruct (read_list_begin_spec ec _ h d (body ++ tail) pos lf ltac:(lia) LH Hn) as (d1 & RL & Hat1).
    { rewrite Nat2N.id, app_length. pose proof (enc_elems_length _ _ _ HE). lia. }
    { exact Hat. }
    rewrite RL. replace (Z.to_nat (Z.of_N (N.of_nat (length vs)))) with (length vs) by lia.
    destruct (IH fuel (depth + 1) ec d1 tail (pos + N.of_nat (length h)) lf TC) as (d' & SE & Hat'); [|exact Hat1|].
    { intros v Hin. pose proof (fold_max_in vs v Hin). unfold fits. repeat split; lia. }
    exists d'. split; [exact SE|]. rewrite app_length. replace (pos + N.of_nat (length h + length body)) with (pos + N.of_nat (length h) + N.of_nat (length body)) by lia. exact Hat'.
  - (* empty map *) intros l V fuel depth c d tail pos lf TC (F1 & F2 & F3) Hat. cbn [vdepth fold_right] in *.
    apply code_of_type in TC; [|discriminate]. subst c. cbn [code].
    destruct fuel; [lia|]. cbn [skip_value]. assert (E : (MAX_NESTING <=? depth) = false) by (apply N.leb_gt; lia). rewrite E.
    unfold read_map_begin. destruct (read_varint_spec _ _ _ _ _ _ V Hat) as (d' & RV & Hat'). rewrite RV.
    change (i32 (Z.of_N 0)) with 0%Z. cbn [Z.ltb Z.eqb Z.compare Z.to_nat skip_pairs]. eauto.
  - (* map *) intros kt vt kc vc kvs l body NE Ln V TK TV HP IH fuel depth c d tail pos lf TCc F Hat.
    apply code_of_type in TCc; [|discriminate]. subst c. cbn [code].
    destruct F as (F1 & F2 & F3). cbn [vdepth] in F1, F2, F3.
    destruct fuel; [lia|]. cbn [skip_value]. assert (E : (MAX_NESTING <=? depth) = false) by (apply N.leb_gt; lia). rewrite E.
    rewrite <- app_assoc in Hat. unfold read_map_begin.
    destruct (read_varint_spec _ _ _ _ _ _ V Hat) as (d1 & RV & Hat1). rewrite RV.
    assert (I : i32 (Z.of_N (N.of_nat (length kvs))) = Z.of_nat (length kvs)).
    { unfold i32. rewrite scast_id; [lia | lia |]. unfold in_range. change (2 ^ (32 - 1))%Z with 2147483648%Z.
      change (2 ^ 31) with 2147483648 in Ln. lia. }
    rewrite I. assert (Lpos : (0 < length kvs)%nat) by (destruct kvs; [congruence | simpl; lia]).
    assert (E1 : (Z.of_nat (length kvs) <? 0)%Z = false) by (apply Z.ltb_ge; lia). rewrite E1.
    assert (E2 : (Z.of_nat (length kvs) =? 0)%Z = false) by (apply Z.eqb_neq; lia). rewrite E2.
    cbn [app] in Hat1.
    rewrite (has_bytes_at d1 _ _ lf _ Hat1) by (simpl; rewrite app_length; pose proof (enc_pairs_length _ _ _ _ HP); lia).
    cbn [negb]. destruct (read_byte_raw_at _ _ _ _ _ Hat1) as (d2 & RB & Hat2). rewrite RB.
    pose proof (type_of_code_bound _ _ TK) as BK. pose proof (type_of_code_bound _ _ TV) as BV.
    destruct (nibbles (16 * kc + vc) ltac:(lia)) as [N1 N2]. rewrite N1, N2.
    assert (E3 : (16 * kc + vc) / 16 = kc).
    { rewrite N.add_comm, (N.mul_comm 16). rewrite N.div_add by lia. rewrite N.div_small by lia. lia. }
    assert (E4 : (16 * kc + vc) mod 16 = vc).
    { rewrite N.add_comm, (N.mul_comm 16). rewrite N.mod_add by lia. apply N.mod_small. lia. }
    rewrite E3, E4, Nat2Z.id.
    destruct (IH fuel (depth + 1) kc vc d2 tail (pos + N.of_nat (length l) + 1) lf TK TV) as (d' & SP & Hat'); [|exact Hat2|].
    { intros k v Hin. pose proof (fold_max_in_p kvs k v Hin). unfold fits. repeat split; lia. }
    exists d'. split; [exact SP|]. rewrite app_length. cbn [length].
    replace (pos + N.of_nat (length l + S (length body))) with (pos + N.of_nat (length l) + 1 + N.of_nat (length body)) by lia. exact Hat'.
  - (* struct *) intros fs bs HF IH fuel depth c d tail pos lf TCc F Hat.
    apply code_of_type in TCc; [|discriminate]. subst c. cbn [code].
    destruct F as (F1 & F2 & F3). cbn [vdepth] in F1, F2, F3.
    destruct fuel; [lia|]. cbn [skip_value]. assert (E : (MAX_NESTING <=? depth) = false) by (apply N.leb_gt; lia). rewrite E.
    unfold read_struct_begin. destruct Hat as (R & P & L & B). rewrite L.
    assert (E5 : (MAX_NESTING <=? len lf) = false) by (apply N.leb_gt; lia). rewrite E5.
    set (d1 := with_lfid d (0%Z :: lf)).
    assert (Hat1 : at_ d1 (bs ++ tail) pos (0%Z :: lf)) by (unfold at_, d1; simpl; auto).
    destruct (IH fuel (depth + 1) (0 :: d_rest d1) d1 tail pos lf) as (d2 & last' & SF & Hat2); [| | |exact Hat1|].
    { unfold in_range. simpl. lia. }
    { intros id v Hin. pose proof (fold_max_in_f fs id v Hin). unfold fits. repeat split; lia. }
    { unfold d1. simpl. rewrite R, app_length. pose proof (enc_fields_length _ _ _ HF). lia. }
    rewrite SF. eexists. split; [reflexivity|]. destruct Hat2 as (R2 & P2 & L2 & B2).
    unfold at_, read_struct_end. simpl. rewrite L2. simpl. auto.
  - (* uuid *) intros bs Lb Bb fuel depth c d tail pos lf TC (F1 & F2 & F3) Hat. cbn [vdepth] in *.
    apply code_of_type in TC; [|discriminate]. subst c. cbn [code].
    destruct fuel; [lia|]. cbn [skip_value]. assert (E : (MAX_NESTING <=? depth) = false) by (apply N.leb_gt; lia). rewrite E.
    unfold reader_skip. rewrite (has_bytes_at d _ pos lf 16 Hat) by (rewrite app_length, Lb; simpl; lia).
    destruct Hat as (R & P & L & B). rewrite R.
    pose proof (take_bytes_app bs tail) as T. rewrite Lb in T. change (N.to_nat 16) with 16%nat. rewrite T.
    eexists. split; [reflexivity|]. unfold at_. simpl. rewrite P, Lb. auto.
  - (* elems nil *) intros et fuel depth c d tail pos lf _ _ Hat. exists d. split; [reflexivity|].
    simpl. replace (pos + 0) with pos by lia. exact Hat.
  - (* elems cons *) intros et v vs b1 b2 H1 IH1 H2 IH2 fuel depth c d tail pos lf TC F Hat. cbn [length skip_elems].
    rewrite <- app_assoc in Hat.
    destruct (IH1 fuel depth c d (b2 ++ tail) pos lf TC (F v (or_introl eq_refl)) Hat) as (d1 & S1 & Hat1). rewrite S1.
    destruct (IH2 fuel depth c d1 tail _ lf TC (fun x Hx => F x (or_intror Hx)) Hat1) as (d2 & S2 & Hat2).
    exists d2. split; [exact S2|]. rewrite app_length.
    replace (pos + N.of_nat (length b1 + length b2)) with (pos + N.of_nat (length b1) + N.of_nat (length b2)) by lia. exact Hat2.
  - (* pairs nil *) intros kt vt fuel depth kc vc d tail pos lf _ _ _ Hat. exists d. split; [reflexivity|].
    simpl. replace (pos + 0) with pos by lia. exact Hat.
  - (* pairs cons *) intros kt vt k v kvs b1 b2 b3 H1 IH1 H2 IH2 H3 IH3 fuel depth kc vc d tail pos lf TK TV F Hat.
    cbn [length skip_pairs]. rewrite <- !app_assoc in Hat. destruct (F k v (or_introl eq_refl)) as [Fk Fv].
    destruct (IH1 fuel depth kc d (b2 ++ b3 ++ tail) pos lf TK Fk Hat) as (d1 & S1 & Hat1). rewrite S1.
    destruct (IH2 fuel depth vc d1 (b3 ++ tail) _ lf TV Fv Hat1) as (d2 & S2 & Hat2). rewrite S2.
    destruct (IH3 fuel depth kc vc d2 tail _ lf TK TV (fun k' v' Hx => F k' v' (or_intror Hx)) Hat2) as (d3 & S3 & Hat3).
    exists d3. split; [exact S3|]. rewrite !app_length.
    replace (pos + N.of_nat (length b1 + (length b2 + length b3))) with (pos + N.of_nat (length b1) + N.of_nat (length b2) + N.of_nat (length b3)) by lia.
    exact Hat3.
  - (* stop *) intros last fuel depth k d tail pos st Rl _ Hk Hat. destruct k; [simpl in Hk; lia|]. cbn [skip_fields app].
    destruct (read_field_begin_stop _ _ _ _ Hat) as (d' & RF & Hat'). rewrite RF. exists d', last. split; [reflexivity | exact Hat'].
  - (* bool field *) intros last id b fs h rest Rid FH HF IH fuel depth k d tail pos st Rl F Hk Hat.
    destruct k as [|k0 k]; [simpl in Hk; lia|]. cbn [skip_fields]. rewrite <- app_assoc in Hat.
    destruct (read_field_begin_spec last id _ h d (rest ++ tail) pos st FH ltac:(destruct b; lia) Rid Rl Hat) as (d1 & RF & A).
    rewrite RF. destruct A as (R1 & P1 & L1 & B1 & V1).
    destruct (F id (VBool b) (or_introl eq_refl)) as (F1 & F2 & F3). cbn [vdepth] in F1, F2, F3.
    destruct fuel; [lia|].
    assert (SK : skip_value (S fuel) (if b then 1 else 2) depth false d1 = Ok (with_bool d1 false (d_boolv d1))).
    { cbn [skip_value]. assert (E : (MAX_NESTING <=? depth) = false) by (apply N.leb_gt; lia). rewrite E. destruct b; reflexivity. }
    rewrite SK.
    destruct (IH (S fuel) depth k (with_bool d1 false (d_boolv d1)) tail (pos + N.of_nat (length h)) st Rid) as (d2 & last' & SF & Hat2).
    { intros i v Hin. apply (F i v). right. exact Hin. }
    { simpl in Hk. lia. }
    { unfold at_. simpl. auto. }
    exists d2, last'. split; [exact SF|]. rewrite app_length.
    replace (pos + N.of_nat (length h + length rest)) with (pos + N.of_nat (length h) + N.of_nat (length rest)) by lia. exact Hat2.
  - (* other field *) intros last id v fs h pay rest Rid NB FH HE IHE HF IH fuel depth k d tail pos st Rl F Hk Hat.
    destruct k as [|k0 k]; [simpl in Hk; lia|]. cbn [skip_fields]. rewrite <- !app_assoc in Hat.
    pose proof (code_bound (type_of v)) as CB. destruct (code_nonbool _ NB) as [N1 N2].
    destruct (read_field_begin_spec last id _ h d (pay ++ rest ++ tail) pos st FH ltac:(lia) Rid Rl Hat) as (d1 & RF & A).
    rewrite RF. destruct A as (R1 & P1 & L1 & B1 & V1).
    assert (Hat1 : at_ d1 (pay ++ rest ++ tail) (pos + N.of_nat (length h)) (id :: st)).
    { unfold at_. repeat split; auto. rewrite B1. apply N.eqb_neq in N1, N2. rewrite N1, N2. reflexivity. }
    rewrite skip_value_el by assumption.
    destruct (IHE fuel depth (code (type_of v)) d1 (rest ++ tail) (pos + N.of_nat (length h)) (id :: st) (type_of_code_code _)) as (d2 & SV & Hat2); [|exact Hat1|].
    { rewrite len_cons. apply (F id v). left. reflexivity. }
    rewrite SV.
    destruct (IH fuel depth k d2 tail (pos + N.of_nat (length h) + N.of_nat (length pay)) st Rid) as (d3 & last' & SF & Hat3); [| |exact Hat2|].
    { intros i x Hin. apply (F i x). right. exact Hin. }
    { simpl in Hk. lia. }
    exists d3, last'. split; [exact SF|]. rewrite !app_length.
    replace (pos + N.of_nat (length h + (length pay + length rest))) with (pos + N.of_nat (length h) + N.of_nat (length pay) + N.of_nat (length rest)) by lia.
    exact Hat3.
Qed.

(** thrift_skip(dec, type) as the parsers call it on an unknown field: any value of any wire type within
    the nesting limit is consumed exactly *)
Theorem thrift_skip_field_spec : forall v pay d tail pos lf,
  type_of v <> TBool -> enc (type_of v) v pay ->
  N.of_nat (vdepth v) <= MAX_NESTING -> len lf + N.of_nat (vdepth v) <= MAX_NESTING ->
  at_ d (pay ++ tail) pos lf ->
  exists d', thrift_skip (code (type_of v)) d = Ok d' /\ at_ d' tail (pos + N.of_nat (length pay)) lf.
Proof.
  intros v pay d tail pos lf NB HE D1 D2 Hat. unfold thrift_skip.
  destruct (code_nonbool _ NB) as [N1 N2]. rewrite skip_value_el by assumption.
  destruct skip_spec as (S1 & _). apply (S1 _ _ _ HE); [apply type_of_code_code | | exact Hat].
  unfold fits, skip_fuel. repeat split; lia.
Qed.

Theorem thrift_skip_bool_field_spec : forall tc d rest pos lf, tc = 1 \/ tc = 2 -> after_fhdr d tc rest pos lf ->
  exists d', thrift_skip tc d = Ok d' /\ at_ d' rest pos lf.
Proof.
  intros tc d rest pos lf Htc (R & P & L & B & V). unfold thrift_skip, skip_fuel.
  assert (M : exists f, N.to_nat MAX_NESTING = S f) by (exists 31%nat; reflexivity). destruct M as [f ->].
  cbn [skip_value]. change (MAX_NESTING <=? 0) with false. cbv iota.
  exists (with_bool d false (d_boolv d)). split; [destruct Htc as [-> | ->]; reflexivity|]. unfold at_. simpl. auto.
Qed.

Theorem zigzag_roundtrip_both : forall z, in_range 64 z ->
  zigzag_encode64 z = zz z /\ zigzag_decode64 (zigzag_encode64 z) = z.
Proof. intros z R. split; [apply zigzag_encode64_spec | apply zigzag_roundtrip]; exact R. Qed.
